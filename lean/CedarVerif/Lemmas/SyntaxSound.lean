import CedarVerif.Lemmas.SyntaxFull
/-
C05: soundness of the parser image — on well-formed tokens (`IDENTIFIER` tokens have identifier syntax) every AST
returned by `Parse.expr` is in `inFrag3`.  Uses one library fact about `String.splitOn` as a hypothesis (`SplitOnSpec`).
-/
namespace Cedar.Syntax
open Cedar

/-- every `IDENTIFIER` token matches `[_a-zA-Z][_a-zA-Z0-9]*` (what the lexer guarantees) -/
def TokWF (ts : List Token) : Prop := ∀ s, Token.ident s ∈ ts → isIdentChars s.toList = true

/-- `splitOn ∘ intercalate = id` on identifiers (they contain no `:`) -/
def SplitOnSpec : Prop :=
  ∀ comps : List String, comps ≠ [] → (∀ c ∈ comps, isIdentChars c.toList = true) → (joinName comps).splitOn "::" = comps

theorem TokWF.tail {t : Token} {ts : List Token} (h : TokWF (t :: ts)) : TokWF ts :=
  fun s hs => h s (List.mem_cons_of_mem _ hs)
theorem TokWF.head {s : String} {ts : List Token} (h : TokWF (.ident s :: ts)) : isIdentChars s.toList = true :=
  h s (by simp)

/-- the invariant on `ExprOrSpecial` -/
def Img : EOS → Prop
  | .expr e => inFrag3 e = true
  | .name path id => ∀ c ∈ path ++ [id], isIdentChars c.toList = true ∧ unreservedIdent c = true
  | _ => True

def PSound (p : P EOS) : Prop := ∀ ts x r, TokWF ts → p ts = some (x, r) → Img x ∧ TokWF r

theorem img_toExpr {x : EOS} {e : Expr} (hi : Img x) (h : x.toExpr = some e) : inFrag3 e = true := by
  cases x with
  | expr e' => simp only [EOS.toExpr, Option.some.injEq] at h; subst h; exact hi
  | var v => simp only [EOS.toExpr, Option.some.injEq] at h; subst h; rfl
  | name p i => simp [EOS.toExpr] at h
  | strLit raw =>
    simp only [EOS.toExpr] at h
    cases hs : strOfRaw raw with
    | none => simp [hs] at h
    | some s => simp [hs] at h; subst h; rfl
  | boolLit b => simp only [EOS.toExpr, Option.some.injEq] at h; subst h; rfl
  | num n =>
    simp only [EOS.toExpr] at h
    split at h
    · rename_i hn
      simp only [Option.some.injEq] at h; subst h
      simp only [inFrag3, decide_eq_true_eq, Int.ofNat_eq_natCast]
      omega
    · cases h

/-! ### records -/

theorem mem_insertKV {kv y : String × Expr} : ∀ {xs : List (String × Expr)}, y ∈ insertKV kv xs ↔ y = kv ∨ y ∈ xs
  | [] => by simp [insertKV]
  | x :: xs => by
    simp only [insertKV]
    split
    · simp
    · simp only [List.mem_cons, mem_insertKV (xs := xs)]
      constructor
      · rintro (h | h | h) <;> simp [h]
      · rintro (h | h | h) <;> simp [h]

theorem sortedKeys3_cons {k : String} {v : Expr} {xs : List (String × Expr)} (hs : sortedKeys3 xs = true)
    (hlt : ∀ y, xs.head? = some y → k < y.1) : sortedKeys3 ((k, v) :: xs) = true := by
  cases xs with
  | nil => rfl
  | cons y ys => obtain ⟨k2, v2⟩ := y; simp only [sortedKeys3, Bool.and_eq_true, decide_eq_true_eq]; exact ⟨hlt _ rfl, hs⟩

theorem sorted_insertKV {k : String} {v : Expr} : ∀ {xs : List (String × Expr)}, sortedKeys3 xs = true →
    (∀ y ∈ xs, y.1 ≠ k) → sortedKeys3 (insertKV (k, v) xs) = true
  | [], _, _ => rfl
  | (k2, v2) :: xs, hs, hne => by
    simp only [insertKV]
    split
    · rename_i hlt
      exact sortedKeys3_cons hs (by intro y hy; simp at hy; subst hy; exact hlt)
    · rename_i hnl
      have hlt : k2 < k := by
        apply Decidable.byContradiction
        intro hc
        exact hne (k2, v2) (by simp) (String.le_antisymm (String.not_lt.mp hnl) (String.not_lt.mp hc))
      have ih := sorted_insertKV (k := k) (v := v) (sortedKeys3_tail hs) (fun y hy => hne y (by simp [hy]))
      refine sortedKeys3_cons ih ?_
      intro y hy
      cases xs with
      | nil => simp [insertKV] at hy; subst hy; exact hlt
      | cons z zs =>
        obtain ⟨k3, v3⟩ := z
        simp only [sortedKeys3, Bool.and_eq_true, decide_eq_true_eq] at hs
        simp only [insertKV] at hy
        split at hy
        · simp at hy; subst hy; exact hlt
        · simp at hy; subst hy; exact hs.1

theorem inFrag3K_iff {kvs : List (String × Expr)} : inFrag3K kvs = true ↔ ∀ kv ∈ kvs, inFrag3 kv.2 = true := by
  induction kvs with
  | nil => simp [inFrag3K]
  | cons kv kvs ih => obtain ⟨k, v⟩ := kv; simp [inFrag3K, ih]

theorem inFrag3L_iff {es : List Expr} : inFrag3L es = true ↔ ∀ e ∈ es, inFrag3 e = true := by
  induction es with
  | nil => simp [inFrag3L]
  | cons e es ih => simp [inFrag3L, ih]

theorem foldr_insertKV_ok : ∀ {kvs : List (String × Expr)}, hasDupKey kvs = false →
    sortedKeys3 (kvs.foldr insertKV []) = true ∧ ∀ y, y ∈ kvs.foldr insertKV [] ↔ y ∈ kvs
  | [], _ => ⟨rfl, by simp⟩
  | (k, v) :: kvs, h => by
    simp only [hasDupKey, Bool.or_eq_false_iff] at h
    obtain ⟨ih1, ih2⟩ := foldr_insertKV_ok h.2
    have hk := h.1
    rw [List.any_eq_false] at hk
    refine ⟨?_, ?_⟩
    · rw [List.foldr_cons]
      exact sorted_insertKV ih1 (fun y hy hc => hk y ((ih2 y).mp hy) (by simp [hc]))
    · intro y
      rw [List.foldr_cons, mem_insertKV, ih2]
      simp

theorem mkRecord_sound {kvs : List (String × Expr)} {e : Expr} (hk : inFrag3K kvs = true) (h : mkRecord kvs = some e) :
    inFrag3 e = true := by
  unfold mkRecord at h
  split at h
  · cases h
  · rename_i hd
    simp only [Option.some.injEq] at h; subst h
    obtain ⟨h1, h2⟩ := foldr_insertKV_ok (by simpa using hd)
    simp only [inFrag3, Bool.and_eq_true]
    refine ⟨h1, inFrag3K_iff.mpr (fun kv hkv => inFrag3K_iff.mp hk kv ((h2 kv).mp hkv))⟩

/-! ### names -/

theorem typeNameOk_join (spec : SplitOnSpec) {comps : List String} (ne : comps ≠ [])
    (h : ∀ c ∈ comps, isIdentChars c.toList = true ∧ unreservedIdent c = true) : typeNameOk (joinName comps) = true := by
  unfold typeNameOk
  rw [spec comps ne (fun c hc => (h c hc).1)]
  simp only [Bool.and_eq_true, List.all_eq_true, beq_self_eq_true, and_true]
  exact h

theorem pathRest_sound : ∀ ts, TokWF ts → (∀ c ∈ (pathRest ts).1, isIdentChars c.toList = true) ∧ TokWF (pathRest ts).2 := by
  intro ts
  induction ts using pathRest.induct with
  | case1 s ts ih =>
    intro h
    have := ih h.tail.tail
    simp only [pathRest]
    refine ⟨?_, this.2⟩
    intro c hc
    simp only [List.mem_cons] at hc
    rcases hc with hc | hc
    · subst hc; exact h.tail.head
    · exact this.1 c hc
  | case2 ts hne =>
    intro h
    have : pathRest ts = ([], ts) := by
      unfold pathRest
      split
      · exact absurd rfl (hne _ _)
      · rfl
    rw [this]
    exact ⟨by simp, h⟩

/-! ### lists -/

theorem exprList_sound {pe : P EOS} (hpe : PSound pe) (close : Token) : ∀ f ts es r, TokWF ts →
    exprList pe close f ts = some (es, r) → inFrag3L es = true ∧ TokWF r := by
  intro f
  induction f with
  | zero => intro ts es r _ h; simp [exprList] at h
  | succ f ih =>
    intro ts es r hwf h
    cases ts with
    | nil => simp [exprList] at h
    | cons t ts =>
      rw [exprList] at h
      split at h
      · simp only [Option.some.injEq, Prod.mk.injEq] at h
        obtain ⟨rfl, rfl⟩ := h
        exact ⟨rfl, hwf.tail⟩
      · split at h
        · cases h
        · rename_i x rest hp
          obtain ⟨hx, hrest⟩ := hpe _ _ _ hwf hp
          split at h
          · cases h
          · rename_i e he
            have hfe := img_toExpr hx he
            split at h
            · rename_i rest'
              split at h
              · cases h
              · rename_i es' r' hrec
                simp only [Option.some.injEq, Prod.mk.injEq] at h
                obtain ⟨rfl, rfl⟩ := h
                obtain ⟨h1, h2⟩ := ih _ _ _ hrest.tail hrec
                exact ⟨by simp [inFrag3L, hfe, h1], h2⟩
            · split at h
              · simp only [Option.some.injEq, Prod.mk.injEq] at h
                obtain ⟨rfl, rfl⟩ := h
                exact ⟨by simp [inFrag3L, hfe], hrest.tail⟩
              · cases h
            · cases h


theorem recInits_sound {pe : P EOS} (hpe : PSound pe) : ∀ f ts kvs r, TokWF ts →
    recInits pe f ts = some (kvs, r) → inFrag3K kvs = true ∧ TokWF r := by
  intro f
  induction f with
  | zero => intro ts es r _ h; simp [recInits] at h
  | succ f ih =>
    intro ts kvs r hwf h
    cases ts with
    | nil => simp [recInits] at h
    | cons t ts =>
      simp only [recInits] at h
      split at h
      · simp only [Option.some.injEq, Prod.mk.injEq] at h
        obtain ⟨rfl, rfl⟩ := h
        exact ⟨rfl, hwf.tail⟩
      · split at h
        · cases h
        · rename_i k rest hkey
          have hwf0 : TokWF (Token.colon :: rest) := by
            split at hkey
            · cases hkey
            · split at hkey
              · cases hkey
              · rename_i x rest0 hp
                obtain ⟨_, hr0⟩ := hpe _ _ _ hwf hp
                cases hx : x.toAttr with
                | none => simp [hx] at hkey
                | some a =>
                  simp only [hx, Option.map_some, Option.some.injEq, Prod.mk.injEq] at hkey
                  rw [← hkey.2]; exact hr0
          split at h
          · cases h
          · rename_i x rest1 hp
            obtain ⟨hx, hrest1⟩ := hpe _ _ _ hwf0.tail hp
            split at h
            · cases h
            · rename_i e he
              have hfe := img_toExpr hx he
              split at h
              · rename_i rest'
                split at h
                · cases h
                · rename_i kvs' r' hrec
                  simp only [Option.some.injEq, Prod.mk.injEq] at h
                  obtain ⟨rfl, rfl⟩ := h
                  obtain ⟨h1, h2⟩ := ih _ _ _ hrest1.tail hrec
                  exact ⟨by simp [inFrag3K, hfe, h1], h2⟩
              · simp only [Option.some.injEq, Prod.mk.injEq] at h
                obtain ⟨rfl, rfl⟩ := h
                exact ⟨by simp [inFrag3K, hfe], hrest1.tail⟩
              · cases h
        · cases h

/-! ### `Primary` -/

theorem comps_ok {s : String} {cs : List String} (hs : isIdentChars s.toList = true)
    (hcs : ∀ c ∈ cs, isIdentChars c.toList = true) (hall : (s :: cs).all unreservedIdent = true) :
    ∀ c ∈ s :: cs, isIdentChars c.toList = true ∧ unreservedIdent c = true := by
  intro c hc
  simp only [List.all_eq_true] at hall
  refine ⟨?_, hall c hc⟩
  simp only [List.mem_cons] at hc
  rcases hc with hc | hc
  · subst hc; exact hs
  · exact hcs c hc

theorem primary_sound (spec : SplitOnSpec) {pe : P EOS} (hpe : PSound pe) : PSound (primary pe) := by
  intro ts x r hwf h
  cases ts with
  | nil => simp [primary] at h
  | cons t ts =>
    cases t
    case ident s =>
      obtain ⟨hp1, hp2⟩ := pathRest_sound ts hwf.tail
      simp only [primary] at h
      split at h
      · rename_i raw rest heq
        split at h
        · rename_i hall
          cases hs : strOfRaw raw with
          | none => simp [hs] at h
          | some eid =>
            simp only [hs, Option.map_some, Option.some.injEq, Prod.mk.injEq] at h
            obtain ⟨rfl, rfl⟩ := h
            rw [heq] at hp2
            refine ⟨?_, hp2.tail.tail⟩
            simp only [Img, inFrag3]
            exact typeNameOk_join spec (by simp) (comps_ok hwf.head hp1 hall)
        · cases h
      · cases h
      · rename_i rest hne1 hne2
        split at h
        · rename_i hnil
          have hname : unreservedIdent s = true → Img (.name [] s) := by
            intro hu c hc
            simp only [List.nil_append, List.mem_singleton] at hc
            subst hc
            exact ⟨hwf.head, hu⟩
          split at h
          · simp only [Option.some.injEq, Prod.mk.injEq] at h; obtain ⟨rfl, rfl⟩ := h; exact ⟨trivial, hp2⟩
          · split at h
            · simp only [Option.some.injEq, Prod.mk.injEq] at h; obtain ⟨rfl, rfl⟩ := h; exact ⟨trivial, hp2⟩
            · split at h
              · simp only [Option.some.injEq, Prod.mk.injEq] at h; obtain ⟨rfl, rfl⟩ := h; exact ⟨trivial, hp2⟩
              · split at h
                · rename_i hu
                  simp only [Option.some.injEq, Prod.mk.injEq] at h; obtain ⟨rfl, rfl⟩ := h; exact ⟨hname hu, hp2⟩
                · cases h
        · split at h
          · rename_i hall
            simp only [Option.some.injEq, Prod.mk.injEq] at h
            obtain ⟨rfl, rfl⟩ := h
            refine ⟨?_, hp2⟩
            simp only [Img]
            rw [dropLast_getLast s (s :: (pathRest ts).1) (by simp)]
            exact comps_ok hwf.head hp1 hall
          · cases h
    case num n =>
      simp only [primary] at h
      split at h
      · simp only [Option.some.injEq, Prod.mk.injEq] at h; obtain ⟨rfl, rfl⟩ := h; exact ⟨trivial, hwf.tail⟩
      · cases h
    case str raw =>
      simp only [primary, Option.some.injEq, Prod.mk.injEq] at h; obtain ⟨rfl, rfl⟩ := h; exact ⟨trivial, hwf.tail⟩
    case slot s =>
      simp only [primary] at h
      split at h
      · simp only [Option.some.injEq, Prod.mk.injEq] at h; obtain ⟨rfl, rfl⟩ := h; exact ⟨rfl, hwf.tail⟩
      · split at h
        · simp only [Option.some.injEq, Prod.mk.injEq] at h; obtain ⟨rfl, rfl⟩ := h; exact ⟨rfl, hwf.tail⟩
        · cases h
    case lparen =>
      simp only [primary] at h
      split at h
      · rename_i y rest hp
        obtain ⟨hy, hr⟩ := hpe _ _ _ hwf.tail hp
        cases hy' : y.toExpr with
        | none => simp [hy'] at h
        | some e =>
          simp only [hy', Option.map_some, Option.some.injEq, Prod.mk.injEq] at h
          obtain ⟨rfl, rfl⟩ := h
          exact ⟨img_toExpr hy hy', hr.tail⟩
      · cases h
    case lbrack =>
      simp only [primary] at h
      split at h
      · rename_i es rest hl
        simp only [Option.some.injEq, Prod.mk.injEq] at h
        obtain ⟨rfl, rfl⟩ := h
        obtain ⟨h1, h2⟩ := exprList_sound hpe _ _ _ _ _ hwf.tail hl
        exact ⟨by simpa [Img, inFrag3] using h1, h2⟩
      · cases h
    case lbrace =>
      simp only [primary] at h
      split at h
      · rename_i kvs rest hl
        obtain ⟨h1, h2⟩ := recInits_sound hpe _ _ _ _ hwf.tail hl
        cases hm : mkRecord kvs with
        | none => simp [hm] at h
        | some e =>
          simp only [hm, Option.map_some, Option.some.injEq, Prod.mk.injEq] at h
          obtain ⟨rfl, rfl⟩ := h
          exact ⟨mkRecord_sound h1 hm, h2⟩
      · cases h
    all_goals (simp [primary] at h)

/-! ### `Member` -/

def accOK : Acc → Prop
  | .meth _ args => inFrag3L args = true
  | .call args => inFrag3L args = true
  | _ => True

theorem accesses_sound {pe : P EOS} (hpe : PSound pe) : ∀ f ts accs r, TokWF ts →
    accesses pe f ts = some (accs, r) → (∀ a ∈ accs, accOK a) ∧ TokWF r := by
  intro f ts
  fun_induction accesses pe f ts
  case case4 ts h1 h2 h3 =>
    intro accs r hwf h
    simp only [Option.some.injEq, Prod.mk.injEq] at h; obtain ⟨rfl, rfl⟩ := h
    exact ⟨by simp, hwf⟩
  case case7 f s ts hu es r0 hl as r1 hacc ih =>
    intro accs r hwf h
    simp only [Option.some.injEq, Prod.mk.injEq] at h; obtain ⟨rfl, rfl⟩ := h
    obtain ⟨h1, h2⟩ := exprList_sound hpe _ _ _ _ _ hwf.tail.tail.tail hl
    obtain ⟨h3, h4⟩ := ih _ _ h2 hacc
    refine ⟨?_, h4⟩
    intro a ha
    simp only [List.mem_cons] at ha
    rcases ha with ha | ha
    · subst ha; exact h1
    · exact h3 a ha
  case case10 f s ts hnl hu as r1 hacc ih =>
    intro accs r hwf h
    simp only [Option.some.injEq, Prod.mk.injEq] at h; obtain ⟨rfl, rfl⟩ := h
    obtain ⟨h3, h4⟩ := ih _ _ hwf.tail.tail hacc
    refine ⟨?_, h4⟩
    intro a ha
    simp only [List.mem_cons] at ha
    rcases ha with ha | ha
    · subst ha; trivial
    · exact h3 a ha
  case case15 f ts es r0 hl as r1 hacc ih =>
    intro accs r hwf h
    simp only [Option.some.injEq, Prod.mk.injEq] at h; obtain ⟨rfl, rfl⟩ := h
    obtain ⟨h1, h2⟩ := exprList_sound hpe _ _ _ _ _ hwf.tail hl
    obtain ⟨h3, h4⟩ := ih _ _ h2 hacc
    refine ⟨?_, h4⟩
    intro a ha
    simp only [List.mem_cons] at ha
    rcases ha with ha | ha
    · subst ha; exact h1
    · exact h3 a ha
  case case18 f ts raw rest hp s hs as r1 hacc ih =>
    intro accs r hwf h
    simp only [Option.some.injEq, Prod.mk.injEq] at h; obtain ⟨rfl, rfl⟩ := h
    obtain ⟨_, h2⟩ := hpe _ _ _ hwf.tail hp
    obtain ⟨h3, h4⟩ := ih _ _ h2.tail hacc
    refine ⟨?_, h4⟩
    intro a ha
    simp only [List.mem_cons] at ha
    rcases ha with ha | ha
    · subst ha; trivial
    · exact h3 a ha
  case case20 n ts h1 h2 h3 h4 h5 =>
    intro accs r hwf h
    simp only [Option.some.injEq, Prod.mk.injEq] at h; obtain ⟨rfl, rfl⟩ := h
    exact ⟨by simp, hwf⟩
  all_goals (intro accs r hwf h; cases h)

theorem toMeth_sound {id : String} {e e' : Expr} {args : List Expr} (he : inFrag3 e = true) (ha : inFrag3L args = true)
    (h : toMeth id e args = some e') : inFrag3 e' = true := by
  unfold toMeth at h
  repeat' (split at h)
  all_goals (cases h <;> simp_all [inFrag3, inFrag3L])

theorem applyAccs_sound : ∀ (accs : List Acc) (head e : Expr), inFrag3 head = true → (∀ a ∈ accs, accOK a) →
    applyAccs head accs = some e → inFrag3 e = true := by
  intro accs
  induction accs with
  | nil => intro head e hh _ h; simp only [applyAccs, Option.some.injEq] at h; subst h; exact hh
  | cons acc accs ih =>
    intro head e hh hok h
    have hok' : ∀ a ∈ accs, accOK a := fun a ha => hok a (by simp [ha])
    cases acc with
    | call args => simp [applyAccs] at h
    | field id => exact ih (.getAttr head id) e (by simpa [inFrag3] using hh) hok' (by simpa [applyAccs] using h)
    | index id => exact ih (.getAttr head id) e (by simpa [inFrag3] using hh) hok' (by simpa [applyAccs] using h)
    | meth id args =>
      simp only [applyAccs] at h
      split at h
      · cases h
      · rename_i e1 hm
        exact ih _ _ (toMeth_sound hh (hok (.meth id args) (by simp)) hm) hok' h

theorem intoFunc_sound {path : List String} {id : String} {args : List Expr} {e : Expr} (ha : inFrag3L args = true)
    (h : intoFunc path id args = some e) : inFrag3 e = true := by
  unfold intoFunc at h
  split at h
  · cases h
  · split at h
    · rename_i hf
      simp only [Option.some.injEq] at h; subst h
      simp only [Bool.and_eq_true] at hf
      simp [inFrag3, hf.2, ha]
    · cases h

theorem lowerMember_sound {prim x : EOS} {accs : List Acc} (hp : Img prim) (hok : ∀ a ∈ accs, accOK a)
    (h : lowerMember prim accs = some x) : Img x := by
  cases accs with
  | nil =>
    have : lowerMember prim [] = some prim := by cases prim <;> rfl
    rw [this] at h; cases h; exact hp
  | cons acc accs =>
    have hgen : ∀ e0, inFrag3 e0 = true → (applyAccs e0 (acc :: accs)).map EOS.expr = some x → Img x := by
      intro e0 h0 hm
      cases ha : applyAccs e0 (acc :: accs) with
      | none => simp [ha] at hm
      | some e =>
        simp only [ha, Option.map_some, Option.some.injEq] at hm
        subst hm
        exact applyAccs_sound _ _ _ h0 hok ha
    cases prim with
    | name path id =>
      cases acc with
      | call args =>
        simp only [lowerMember] at h
        split at h
        · cases h
        · rename_i e0 hi
          have h0 := intoFunc_sound (hok (.call args) (by simp)) hi
          cases ha : applyAccs e0 accs with
          | none => simp [ha] at h
          | some e =>
            simp only [ha, Option.map_some, Option.some.injEq] at h
            subst h
            exact applyAccs_sound _ _ _ h0 (fun a ha' => hok a (by simp [ha'])) ha
      | field id => simp [lowerMember] at h
      | index id => simp [lowerMember] at h
      | meth id args => simp [lowerMember] at h
    | var v => exact hgen (.var v) rfl (by simpa [lowerMember] using h)
    | expr e0 => exact hgen e0 hp (by simpa [lowerMember, EOS.toExpr] using h)
    | strLit raw =>
      simp only [lowerMember] at h
      split at h
      · cases h
      · rename_i e0 he; exact hgen e0 (img_toExpr (x := .strLit raw) trivial he) h
    | boolLit b =>
      simp only [lowerMember] at h
      split at h
      · cases h
      · rename_i e0 he; exact hgen e0 (img_toExpr (x := .boolLit b) trivial he) h
    | num n =>
      simp only [lowerMember] at h
      split at h
      · cases h
      · rename_i e0 he; exact hgen e0 (img_toExpr (x := .num n) trivial he) h

theorem member_sound (spec : SplitOnSpec) {pe : P EOS} (hpe : PSound pe) : PSound (member pe) := by
  intro ts x r hwf h
  unfold member at h
  split at h
  · cases h
  · rename_i prim rest hp
    obtain ⟨h1, h2⟩ := primary_sound spec hpe _ _ _ hwf hp
    split at h
    · cases h
    · rename_i accs rest' ha
      obtain ⟨h3, h4⟩ := accesses_sound hpe _ _ _ _ h2 ha
      cases hl : lowerMember prim accs with
      | none => simp [hl] at h
      | some y =>
        simp only [hl, Option.map_some, Option.some.injEq, Prod.mk.injEq] at h
        obtain ⟨rfl, rfl⟩ := h
        exact ⟨lowerMember_sound h1 h3 hl, h4⟩

/-! ### `Unary` -/

theorem countBang_wf : ∀ ts, TokWF ts → TokWF (countBang ts).2 := by
  intro ts
  induction ts using countBang.induct with
  | case1 ts ih => intro h; simp only [countBang]; exact ih h.tail
  | case2 ts hne =>
    intro h
    have : countBang ts = (0, ts) := by
      unfold countBang; split
      · exact absurd rfl (hne _)
      · rfl
    rw [this]; exact h

theorem countMinus_wf : ∀ ts, TokWF ts → TokWF (countMinus ts).2 := by
  intro ts
  induction ts using countMinus.induct with
  | case1 ts ih => intro h; simp only [countMinus]; exact ih h.tail
  | case2 ts hne =>
    intro h
    have : countMinus ts = (0, ts) := by
      unfold countMinus; split
      · exact absurd rfl (hne _)
      · rfl
    rw [this]; exact h

theorem applyN_sound (op : UnaryOp) : ∀ n e, inFrag3 e = true → inFrag3 (applyN (.unaryApp op) n e) = true
  | 0, _, h => h
  | n + 1, e, h => by simp only [applyN, inFrag3]; exact applyN_sound op n e h

theorem unary_sound (spec : SplitOnSpec) {pe : P EOS} (hpe : PSound pe) : PSound (unary pe) := by
  intro ts x r hwf h
  have hm := member_sound spec hpe
  unfold unary at h
  split at h
  · rename_i rest
    simp only at h
    split at h
    · cases h
    · split at h
      · cases h
      · rename_i m rest' hp
        obtain ⟨h1, h2⟩ := hm _ _ _ (countBang_wf _ hwf) hp
        cases he : m.toExpr with
        | none => simp [he] at h
        | some e =>
          simp only [he, Option.map_some, Option.some.injEq, Prod.mk.injEq] at h
          obtain ⟨rfl, rfl⟩ := h
          exact ⟨applyN_sound _ _ _ (img_toExpr h1 he), h2⟩
  · rename_i rest
    simp only at h
    split at h
    · cases h
    · split at h
      · cases h
      · rename_i k rest' hp
        obtain ⟨_, h2⟩ := hm _ _ _ (countMinus_wf _ hwf) hp
        split at h
        · rename_i hk
          simp only [Option.some.injEq, Prod.mk.injEq] at h
          obtain ⟨rfl, rfl⟩ := h
          refine ⟨applyN_sound _ _ _ ?_, h2⟩
          simp only [inFrag3, decide_eq_true_eq, Int.ofNat_eq_natCast]
          omega
        · cases h
      · rename_i m rest' hnum hp
        obtain ⟨h1, h2⟩ := hm _ _ _ (countMinus_wf _ hwf) hp
        cases he : m.toExpr with
        | none => simp [he] at h
        | some e =>
          simp only [he, Option.map_some, Option.some.injEq, Prod.mk.injEq] at h
          obtain ⟨rfl, rfl⟩ := h
          exact ⟨applyN_sound _ _ _ (img_toExpr h1 he), h2⟩
  · exact hm _ _ _ hwf h

/-! ### chains -/

def GOK (g : Expr → Expr → Expr) : Prop := ∀ a b, inFrag3 a = true → inFrag3 b = true → inFrag3 (g a b) = true
def OpOK (opOf : OpOf) : Prop := ∀ t g, opOf t = some (some g) → GOK g

theorem isBoolLit_iff {a : Expr} (h : isBoolLit a = true) : ∃ x, a = .lit (.bool x) := by
  cases a with
  | lit p => cases p <;> simp [isBoolLit] at h; exact ⟨_, rfl⟩
  | _ => simp [isBoolLit] at h

theorem gok_mkAnd : GOK mkAnd := by
  intro a b ha hb
  cases hl : (isBoolLit a && isBoolLit b)
  · rw [mkAnd_eq hl]; simp [inFrag3, ha, hb, hl]
  · simp only [Bool.and_eq_true] at hl
    obtain ⟨x, rfl⟩ := isBoolLit_iff hl.1
    obtain ⟨y, rfl⟩ := isBoolLit_iff hl.2
    rfl

theorem gok_mkOr : GOK mkOr := by
  intro a b ha hb
  cases hl : (isBoolLit a && isBoolLit b)
  · rw [mkOr_eq hl]; simp [inFrag3, ha, hb, hl]
  · simp only [Bool.and_eq_true] at hl
    obtain ⟨x, rfl⟩ := isBoolLit_iff hl.1
    obtain ⟨y, rfl⟩ := isBoolLit_iff hl.2
    rfl

theorem gok_bin (op : BinaryOp) : GOK (.binaryApp op) := by
  intro a b ha hb; simp [inFrag3, ha, hb]

theorem opOK_mult : OpOK multOp := by
  intro t g h; cases t <;> simp [multOp] at h; subst h; exact gok_bin _
theorem opOK_add : OpOK addOp := by
  intro t g h; cases t <;> simp [addOp] at h <;> (subst h; exact gok_bin _)
theorem opOK_and : OpOK andOp := by
  intro t g h; cases t <;> simp [andOp] at h; subst h; exact gok_mkAnd
theorem opOK_or : OpOK orOp := by
  intro t g h; cases t <;> simp [orOp] at h; subst h; exact gok_mkOr
theorem opOK_rel : OpOK relOp := by
  intro t g h
  cases t <;> simp [relOp] at h
  case ident s => obtain ⟨_, h⟩ := h; subst h; exact gok_bin _
  all_goals (subst h; intro a b ha hb; simp [inFrag3, ha, hb])

theorem chainLoop_sound {opd : P EOS} {opOf : OpOf} (hopd : PSound opd) (hop : OpOK opOf) : ∀ f acc ts e r,
    inFrag3 acc = true → TokWF ts → chainLoop opd opOf f acc ts = some (e, r) → inFrag3 e = true ∧ TokWF r := by
  intro f
  induction f with
  | zero =>
    intro acc ts e r hacc hwf h
    cases ts with
    | nil => simp only [chainLoop, Option.some.injEq, Prod.mk.injEq] at h; obtain ⟨rfl, rfl⟩ := h; exact ⟨hacc, hwf⟩
    | cons t ts =>
      simp only [chainLoop] at h
      split at h
      · cases h
      · simp only [Option.some.injEq, Prod.mk.injEq] at h; obtain ⟨rfl, rfl⟩ := h; exact ⟨hacc, hwf⟩
  | succ f ih =>
    intro acc ts e r hacc hwf h
    cases ts with
    | nil => simp only [chainLoop, Option.some.injEq, Prod.mk.injEq] at h; obtain ⟨rfl, rfl⟩ := h; exact ⟨hacc, hwf⟩
    | cons t ts =>
      simp only [chainLoop] at h
      split at h
      · simp only [Option.some.injEq, Prod.mk.injEq] at h; obtain ⟨rfl, rfl⟩ := h; exact ⟨hacc, hwf⟩
      · cases h
      · rename_i g hg
        split at h
        · cases h
        · rename_i x rest hp
          obtain ⟨h1, h2⟩ := hopd _ _ _ hwf.tail hp
          split at h
          · cases h
          · rename_i b hb
            exact ih _ _ _ _ (hop t g hg _ _ hacc (img_toExpr h1 hb)) h2 h

theorem chainLevel_sound {opd : P EOS} {opOf : OpOf} (hopd : PSound opd) (hop : OpOK opOf) : PSound (chainLevel opd opOf) := by
  intro ts x r hwf h
  unfold chainLevel at h
  split at h
  · cases h
  · rename_i first rest hp
    obtain ⟨h1, h2⟩ := hopd _ _ _ hwf hp
    split at h
    · simp only [Option.some.injEq, Prod.mk.injEq] at h; obtain ⟨rfl, rfl⟩ := h; exact ⟨h1, h2⟩
    · rename_i t rest'
      split at h
      · split at h
        · cases h
        · rename_i e he
          rw [Option.map_eq_some_iff] at h
          obtain ⟨⟨e', r'⟩, hc, heq⟩ := h
          simp only [Prod.mk.injEq] at heq
          obtain ⟨rfl, rfl⟩ := heq
          exact chainLoop_sound hopd hop _ _ _ _ _ (img_toExpr h1 he) h2 hc
      · simp only [Option.some.injEq, Prod.mk.injEq] at h; obtain ⟨rfl, rfl⟩ := h; exact ⟨h1, h2⟩

/-! ### `Relation` -/

theorem hasFields_wf : ∀ ts fs r, TokWF ts → hasFields ts = some (fs, r) → TokWF r := by
  intro ts
  induction ts using hasFields.induct with
  | case1 s ts hu hn ih => intro fs r _ h; simp [hasFields, hu, hn] at h
  | case2 s ts hu fs' r' hs ih =>
    intro fs r hwf h
    simp only [hasFields, hu, if_true, hs, Option.some.injEq, Prod.mk.injEq] at h
    obtain ⟨_, rfl⟩ := h
    exact ih _ _ hwf.tail.tail hs
  | case3 s ts hu => intro fs r _ h; simp [hasFields, hu] at h
  | case4 tail hne =>
    intro fs r _ h
    unfold hasFields at h
    split at h
    · rename_i heq
      simp only [List.cons.injEq, true_and] at heq
      exact absurd heq (hne _ _)
    · cases h
    · rename_i h2; exact absurd rfl (h2 _)
  | case5 ts h1 h2 =>
    intro fs r hwf h
    unfold hasFields at h
    split at h
    · exact absurd rfl (h1 _ _)
    · exact absurd rfl (h2 _)
    · simp only [Option.some.injEq, Prod.mk.injEq] at h; obtain ⟨_, rfl⟩ := h; exact hwf

theorem hasRhs_wf {ts : List Token} {fs : List String} {r : List Token} (hwf : TokWF ts) (h : hasRhs ts = some (fs, r)) : TokWF r := by
  unfold hasRhs at h
  split at h
  · rename_i raw rest
    split at h
    · cases h
    · cases hs : strOfRaw raw with
      | none => simp [hs] at h
      | some s => simp only [hs, Option.map_some, Option.some.injEq, Prod.mk.injEq] at h; obtain ⟨_, rfl⟩ := h; exact hwf.tail
  · rename_i s rest
    split at h
    · split at h
      · cases h
      · split at h
        · cases h
        · rename_i fs' r' hf
          split at h
          · cases h
          · simp only [Option.some.injEq, Prod.mk.injEq] at h; obtain ⟨_, rfl⟩ := h
            exact hasFields_wf _ _ _ hwf.tail hf
    · cases h
  · cases h

theorem extendedHas_fold : ∀ (rest : List String) (st : Expr × Expr), inFrag3 st.1 = true → inFrag3 st.2 = true →
    inFrag3 (rest.foldl (fun (st : Expr × Expr) a => (mkAnd st.1 (.hasAttr st.2 a), .getAttr st.2 a)) st).1 = true
  | [], _, h1, _ => h1
  | a :: rest, st, h1, h2 => by
    simp only [List.foldl_cons]
    exact extendedHas_fold rest _ (gok_mkAnd _ _ h1 (by simpa [inFrag3] using h2)) (by simpa [inFrag3] using h2)

theorem extendedHas_sound {e : Expr} (he : inFrag3 e = true) (a : String) (as : List String) :
    inFrag3 (extendedHas e a as) = true := by
  unfold extendedHas
  exact extendedHas_fold as _ (by simpa [inFrag3] using he) (by simpa [inFrag3] using he)

theorem toTypeName_sound (spec : SplitOnSpec) {x : EOS} {ty : String} (hx : Img x) (h : x.toTypeName = some ty) :
    typeNameOk ty = true := by
  cases x with
  | var v =>
    simp only [EOS.toTypeName, Option.some.injEq] at h
    subst h
    have := typeNameOk_join spec (comps := [varName v]) (by simp) (by
      intro c hc; simp only [List.mem_singleton] at hc; subst hc; cases v <;> decide)
    simpa [joinName] using this
  | name path id =>
    simp only [EOS.toTypeName, Option.some.injEq] at h
    subst h
    exact typeNameOk_join spec (by simp) hx
  | _ => simp [EOS.toTypeName] at h

theorem relation_sound (spec : SplitOnSpec) {pe : P EOS} (hadd : PSound (add pe)) : PSound (relation pe) := by
  intro ts x r hwf h
  unfold relation at h
  split at h
  · cases h
  · rename_i first rest hp
    obtain ⟨h1, h2⟩ := hadd _ _ _ hwf hp
    split at h
    · simp only [Option.some.injEq, Prod.mk.injEq] at h; obtain ⟨rfl, rfl⟩ := h; exact ⟨h1, h2⟩
    · rename_i t rest1
      split at h
      · -- has
        split at h
        · rename_i e a as rest2 he hr
          simp only [Option.some.injEq, Prod.mk.injEq] at h; obtain ⟨rfl, rfl⟩ := h
          exact ⟨extendedHas_sound (img_toExpr h1 he) a as, hasRhs_wf h2.tail hr⟩
        · cases h
      · split at h
        · -- like
          split at h
          · rename_i e raw rest2 he hp2
            obtain ⟨_, h4⟩ := hadd _ _ _ h2.tail hp2
            split at h
            · simp only [Option.some.injEq, Prod.mk.injEq] at h; obtain ⟨rfl, rfl⟩ := h
              exact ⟨by simpa [Img, inFrag3] using img_toExpr h1 he, h4⟩
            · cases h
          · cases h
        · split at h
          · -- is
            split at h
            · rename_i e y rest2 he hp2
              obtain ⟨h3, h4⟩ := hadd _ _ _ h2.tail hp2
              split at h
              · cases h
              · rename_i ty hty
                have hte := img_toExpr h1 he
                have htn := toTypeName_sound spec h3 hty
                split at h
                · rename_i rest3
                  split at h
                  · cases h
                  · rename_i z rest4 hp3
                    obtain ⟨h5, h6⟩ := hadd _ _ _ h4.tail hp3
                    split at h
                    · cases h
                    · rename_i e2 he2
                      simp only [Option.some.injEq, Prod.mk.injEq] at h; obtain ⟨rfl, rfl⟩ := h
                      refine ⟨gok_mkAnd _ _ ?_ ?_, h6⟩
                      · simp [inFrag3, hte, htn]
                      · simp [inFrag3, hte, img_toExpr h5 he2]
                · simp only [Option.some.injEq, Prod.mk.injEq] at h; obtain ⟨rfl, rfl⟩ := h
                  exact ⟨by simp [Img, inFrag3, hte, htn], h4⟩
            · cases h
          · -- relational operators
            split at h
            · simp only [Option.some.injEq, Prod.mk.injEq] at h; obtain ⟨rfl, rfl⟩ := h; exact ⟨h1, h2⟩
            · cases h
            · rename_i g hg
              split at h
              · rename_i a y rest2 ha hp2
                obtain ⟨h3, h4⟩ := hadd _ _ _ h2.tail hp2
                split at h
                · cases h
                · rename_i b hb
                  split at h
                  · cases h
                  · simp only [Option.some.injEq, Prod.mk.injEq] at h; obtain ⟨rfl, rfl⟩ := h
                    exact ⟨opOK_rel t g hg _ _ (img_toExpr h1 ha) (img_toExpr h3 hb), h4⟩
              · cases h

/-! ### `Expr` -/

theorem exprLevel_sound (spec : SplitOnSpec) {pe : P EOS} (hpe : PSound pe) : PSound (exprLevel pe) := by
  have hadd : PSound (add pe) := chainLevel_sound (chainLevel_sound (unary_sound spec hpe) opOK_mult) opOK_add
  have hor : PSound (orLevel pe) := chainLevel_sound (chainLevel_sound (relation_sound spec hadd) opOK_and) opOK_or
  intro ts x r hwf h
  unfold exprLevel at h
  split at h
  · rename_i ts1
    split at h
    · rename_i c ts2 hc
      obtain ⟨c1, c2⟩ := hpe _ _ _ hwf.tail hc
      split at h
      · rename_i t ts3 ht
        obtain ⟨t1, t2⟩ := hpe _ _ _ c2.tail ht
        split at h
        · rename_i e rest he
          obtain ⟨e1, e2⟩ := hpe _ _ _ t2.tail he
          split at h
          · rename_i c' t' e' hc' ht' he'
            simp only [Option.some.injEq, Prod.mk.injEq] at h; obtain ⟨rfl, rfl⟩ := h
            exact ⟨by simp [Img, inFrag3, img_toExpr c1 hc', img_toExpr t1 ht', img_toExpr e1 he'], e2⟩
          · cases h
        · cases h
      · cases h
    · cases h
  · exact hor _ _ _ hwf h

theorem parseFuel_sound (spec : SplitOnSpec) : ∀ n, PSound (parseFuel n)
  | 0 => by intro ts x r _ h; simp [parseFuel] at h
  | n + 1 => exprLevel_sound spec (parseFuel_sound spec n)

/-- every AST the parser returns on well-formed tokens is in the fragment -/
theorem parse_sound (spec : SplitOnSpec) {ts : List Token} (hwf : TokWF ts) {e : Expr} (h : Parse.expr ts = some e) :
    inFrag3 e = true := by
  unfold Parse.expr at h
  split at h
  · rename_i x hp
    exact img_toExpr (parseFuel_sound spec _ _ _ _ hwf hp).1 h
  · cases h

end Cedar.Syntax
