import CedarVerif.Lemmas.BatchedMono
/- C15 helpers: the measure "ids of the universe not yet loaded" and termination of the loop of
   `is_authorized_batched` within `|universe|` rounds. -/
namespace Cedar.Batched
open Cedar Cedar.Tpe

theorem mem_dedup {x : EntityUID} {xs : List EntityUID} : x ∈ dedup xs ↔ x ∈ xs := by
  induction xs with
  | nil => simp [dedup]
  | cons a xs ih =>
    simp only [dedup]
    split
    · rename_i hc
      rw [ih]
      constructor
      · intro h; exact List.mem_cons_of_mem _ h
      · intro h
        rcases List.mem_cons.mp h with rfl | h
        · simpa using hc
        · exact h
    · simp [ih]

theorem find?_append (es es' : Tpe.PEntities) (u : EntityUID) :
    Tpe.PEntities.find? (es ++ es') u = (match Tpe.PEntities.find? es u with | some d => some d | none => Tpe.PEntities.find? es' u) := by
  induction es with
  | nil => simp [Tpe.PEntities.find?]
  | cons a es ih =>
    obtain ⟨k, d⟩ := a
    simp only [List.cons_append, Tpe.PEntities.find?]
    split
    · rfl
    · exact ih

theorem contains_append (es es' : Tpe.PEntities) (u : EntityUID) :
    Tpe.PEntities.contains (es ++ es') u = (Tpe.PEntities.contains es u || Tpe.PEntities.contains es' u) := by
  simp only [Tpe.PEntities.contains, find?_append]
  cases Tpe.PEntities.find? es u <;> simp

/-- after `addLoaded` everything that was loaded and everything the loader returned is present -/
theorem addLoaded_contains {es es' : Tpe.PEntities} {l : List (EntityUID × Option EntityData)} (h : addLoaded es l = some es') (u : EntityUID) :
    (es.contains u = true → es'.contains u = true) ∧ (u ∈ l.map (·.1) → es'.contains u = true) := by
  induction l generalizing es with
  | nil => simp only [addLoaded, Option.some.injEq] at h; subst h; simp
  | cons a l ih =>
    obtain ⟨k, d⟩ := a
    simp only [addLoaded] at h
    split at h
    · cases h
    · obtain ⟨h1, h2⟩ := ih h
      have hk : Tpe.PEntities.contains (es ++ [(k, pentityOf d)]) k = true := by
        rw [contains_append]; simp [Tpe.PEntities.contains, Tpe.PEntities.find?]
      refine ⟨fun hc => h1 (by rw [contains_append, hc]; rfl), ?_⟩
      intro hm
      simp only [List.map_cons, List.mem_cons] at hm
      rcases hm with rfl | hm
      · exact h1 hk
      · exact h2 hm

/-- the measure: ids of the universe `U` that are not loaded yet -/
def unseen (U : List EntityUID) (st : State) : Nat := (U.filter (fun u => !st.entities.contains u)).length

theorem filter_length_lt {α} (U : List α) (p q : α → Bool) (hpq : ∀ x, q x = true → p x = true)
    (hex : ∃ u, u ∈ U ∧ p u = true ∧ q u = false) : (U.filter q).length < (U.filter p).length := by
  induction U with
  | nil => obtain ⟨u, hu, _⟩ := hex; cases hu
  | cons a U ih =>
    have hle : (U.filter q).length ≤ (U.filter p).length := by
      clear ih hex
      induction U with
      | nil => simp
      | cons b U ih2 =>
        simp only [List.filter_cons]
        cases hq : q b
        · cases p b <;> simp <;> omega
        · simp [hpq b hq]; omega
    obtain ⟨u, hu, hp, hq⟩ := hex
    simp only [List.filter_cons]
    rcases List.mem_cons.mp hu with rfl | hu'
    · simp [hp, hq]; omega
    · have := ih ⟨u, hu', hp, hq⟩
      cases hqa : q a
      · cases p a <;> simp <;> omega
      · simp [hpq a hqa]; omega

/-- a loader returns (at least) everything it is asked for -/
def Complete (loader : Loader) : Prop := ∀ ids u, u ∈ ids → u ∈ (loader ids).map (·.1)

/-- a round that requests something shrinks the measure -/
theorem unseen_decreases {req : Tpe.PRequest} {loader : Loader} (hl : Complete loader) {U : List EntityUID} {st st' : State}
    (h : step req loader st = some st') (hne : st.toLoad ≠ []) (hU : ∀ u, u ∈ st.toLoad → u ∈ U) :
    unseen U st' < unseen U st := by
  unfold step at h
  cases ha : addLoaded st.entities (loader st.toLoad) <;> simp [ha] at h
  subst h
  rename_i es'
  unfold unseen
  apply filter_length_lt
  · intro x hx
    simp only [Bool.not_eq_true', ] at hx ⊢
    cases hc : st.entities.contains x
    · rfl
    · have := (addLoaded_contains ha x).1 hc; simp [this] at hx
  · obtain ⟨u, hu⟩ := List.exists_mem_of_ne_nil _ hne
    refine ⟨u, hU u hu, ?_, ?_⟩
    · have : u ∈ (st.residuals.flatMap (fun rp => rp.residual.uids)).filter (fun u => !st.entities.contains u) := mem_dedup.mp hu
      exact (List.mem_filter.mp this).2
    · have := (addLoaded_contains ha u).2 (hl _ u hu)
      simp [this]

theorem step_done {req : Tpe.PRequest} {loader : Loader} {st st' : State} (h : step req loader st = some st') (hd : st.done = true) :
    st'.done = true := by
  unfold step at h
  cases ha : addLoaded st.entities (loader st.toLoad) <;> simp [ha] at h
  subst h
  simp only [State.done, List.all_eq_true, List.mem_map, forall_exists_index, and_imp, forall_apply_eq_imp_iff₂] at hd ⊢
  intro rp hrp
  have := hd rp hrp
  have hp : rp.residual.isPartial = false := by simpa using this
  simp [reinterpret, interpret_nonpartial _ _ _ hp, hp]

/-- an invariant of the loop together with what the budget argument needs of it -/
structure LoopInv (req : Tpe.PRequest) (loader : Loader) (U : List EntityUID) (Inv : State → Prop) : Prop where
  /-- kept by every round -/
  step : ∀ st st', Inv st → Batched.step req loader st = some st' → Inv st'
  /-- PROGRESS: a state with a `Partial` residual mentions an id that is not loaded (every `Partial` node produced by
      `interpret` under a concrete request sits above an entity whose data is missing) -/
  progress : ∀ st, Inv st → st.done = false → st.toLoad ≠ []
  /-- every id ever requested is one of the universe (store ∪ request ∪ policies) -/
  bounded : ∀ st, Inv st → ∀ u, u ∈ st.toLoad → u ∈ U
  /-- residuals stay boolean-typed -/
  boolTyped : ∀ st, Inv st → st.BoolTyped

theorem loop_terminates {req : Tpe.PRequest} {loader : Loader} {U : List EntityUID} {Inv : State → Prop}
    (hI : LoopInv req loader U Inv) (hok : StepOk req loader) (hl : Complete loader) :
    ∀ b st, Inv st → unseen U st < b → ∃ st', loop req loader b st = some st' ∧ st'.done = true ∧ Inv st' := by
  intro b
  induction b with
  | zero => intro st _ h; omega
  | succ n ih =>
    intro st hinv hlt
    obtain ⟨st1, hs⟩ := hok st
    have hinv1 := hI.step st st1 hinv hs
    simp only [loop, hs]
    cases hd1 : st1.done
    · simp only [Bool.false_eq_true, if_false]
      have hne : st.toLoad ≠ [] := by
        apply hI.progress st hinv
        cases hd : st.done
        · rfl
        · rw [step_done hs hd] at hd1; cases hd1
      have hdec := unseen_decreases hl hs hne (hI.bounded st hinv)
      exact ih st1 hinv1 (by omega)
    · exact ⟨st1, by simp, hd1, hinv1⟩

theorem unseen_le (U : List EntityUID) (st : State) : unseen U st ≤ U.length := by
  unfold unseen; exact List.length_filter_le _ _

end Cedar.Batched
