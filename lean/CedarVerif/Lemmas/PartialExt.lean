import CedarVerif.Lemmas.PartialSound6
import CedarVerif.Lemmas.JsonIp
import CedarVerif.Lemmas.ExtDatetimeInv
import CedarVerif.Lemmas.ExtDatetime
/-
C13, side condition `CallDRT`: the canonical constructor call `Ext.toExpr x` that the partial evaluator's model
puts into residuals evaluates back to `x` (print/parse round trip), for every extension value in the value range of
the Rust types.  Decimal, duration, datetime and IPv4 renderings coincide with the JSON canonical renderings of C10
(`renderDecimal`, `renderDuration`, `renderIp false`), so `callExt_decimal`, `callExt_duration`, `callExt_epoch`,
`parse_renderIp_v4` are reused; the IPv6 rendering here is the uncompressed eight-group text (reuses `v6_readV6_full`).
-/
namespace Cedar
namespace PExt
open Cedar.CJson Cedar.Ext Cedar.Ext.IPAddr

/-! ### `toString` on `Nat` / `Int`, string assembly -/

theorem str_eq_ofList {s : String} {l : List Char} (h : s.toList = l) : s = String.ofList l := by
  rw [← h, String.ofList_toList]

theorem toString_int_toList (i : Int) : (toString i).toList = intDigits i := by
  cases i with
  | ofNat m =>
    have h : ¬ (Int.ofNat m < 0) := by simp
    simp only [intDigits, h, if_false]
    exact toString_toList m
  | negSucc m =>
    have h : Int.negSucc m < 0 := Int.negSucc_lt_zero m
    simp only [intDigits, h, if_true]
    show ("-" ++ Nat.repr (m + 1)).toList = _
    rw [String.toList_append]
    have := toString_toList (m + 1)
    rw [Nat.toString_eq_repr] at this
    rw [this]
    rfl

theorem toString_nat (n : Nat) : toString n = String.ofList (decDigits n) := str_eq_ofList (toString_toList n)
theorem toString_int (i : Int) : toString i = String.ofList (intDigits i) := str_eq_ofList (toString_int_toList i)

theorem decDigits_small (m : Nat) (h : m < 10) : decDigits m = [digitChar m] := by
  rw [decDigits_step]; simp [h]

theorem digitChar_zero : digitChar 0 = '0' := by decide

/-- the model's zero-padded four digits are the JSON model's `pad4` -/
theorem pad4_toList (n : Nat) (h : n < 10000) : (Cedar.pad4 n).toList = CJson.pad4 n := by
  simp only [Cedar.pad4, String.toList_append, String.toList_ofList, String.length, toString_toList]
  by_cases h1 : n < 10
  · have e1 : n / 1000 % 10 = 0 := by omega
    have e2 : n / 100 % 10 = 0 := by omega
    have e3 : n / 10 % 10 = 0 := by omega
    have e4 : n % 10 = n := by omega
    simp [decDigits_small n h1, CJson.pad4, e1, e2, e3, e4, digitChar_zero, List.replicate]
  · by_cases h2 : n < 100
    · have e1 : n / 1000 % 10 = 0 := by omega
      have e2 : n / 100 % 10 = 0 := by omega
      have e3 : n / 10 % 10 = n / 10 := by omega
      rw [decDigits_step n]
      simp [h1, decDigits_small (n / 10) (by omega), CJson.pad4, e1, e2, e3, digitChar_zero, List.replicate]
    · by_cases h3 : n < 1000
      · have e1 : n / 1000 % 10 = 0 := by omega
        have e2 : n / 100 % 10 = n / 100 := by omega
        have e3 : n / 10 / 10 = n / 100 := by omega
        have e4 : n / 10 % 10 = n / 10 % 10 := rfl
        rw [decDigits_step n, decDigits_step (n / 10)]
        have h4 : ¬ n / 10 < 10 := by omega
        simp [h1, h4, e3, decDigits_small (n / 100) (by omega), CJson.pad4, e1, e2, digitChar_zero]
      · have e2 : n / 1000 % 10 = n / 1000 := by omega
        have e3 : n / 10 / 10 = n / 100 := by omega
        have e5 : n / 100 / 10 = n / 1000 := by omega
        rw [decDigits_step n, decDigits_step (n / 10), e3, decDigits_step (n / 100), e5]
        have h4 : ¬ n / 10 < 10 := by omega
        have h5 : ¬ n / 100 < 10 := by omega
        simp [h1, h4, h5, decDigits_small (n / 1000) (by omega), CJson.pad4, e2]

theorem toExpr_decimal (d : Int) :
    Value.toExpr (.ext (.decimal d)) = .call "decimal" [.lit (.string (String.ofList (renderDecimal d)))] := by
  simp only [Value.toExpr, Ext.toExpr]
  congr 4
  apply str_eq_ofList
  have hm : d.natAbs % 10000 < 10000 := Nat.mod_lt _ (by omega)
  simp only [String.toList_append, pad4_toList _ hm, toString_toList, renderDecimal]
  by_cases hd : d < 0 <;> simp [hd]

theorem toExpr_duration (ms : Int) :
    Value.toExpr (.ext (.duration ms)) = .call "duration" [.lit (.string (String.ofList (renderDuration ms)))] := by
  simp only [Value.toExpr, Ext.toExpr]
  congr 4
  apply str_eq_ofList
  simp only [String.toList_append, toString_int_toList, renderDuration]
  rfl

theorem toExpr_datetime (ms : Int) :
    Value.toExpr (.ext (.datetime ms)) =
      .call "offset" [.call "datetime" [.lit (.string "1970-01-01")],
                      .call "duration" [.lit (.string (String.ofList (renderDuration ms)))]] := by
  have := toExpr_duration ms
  simp only [Value.toExpr, Ext.toExpr] at this ⊢
  rw [this]

theorem toExpr_ip_v4 (a p : Nat) :
    Value.toExpr (.ext (.ipaddr false a p)) = .call "ip" [.lit (.string (String.ofList (renderIp false a p)))] := by
  simp only [Value.toExpr, Ext.toExpr]
  congr 4
  apply str_eq_ofList
  simp only [String.toList_append, toString_toList, renderIp, renderV4, joinWith]
  simp

/-! ### IPv6: the uncompressed eight-group text -/

theorem hexChar_eq (k : Nat) (h : k < 16) : hexChar k = Nat.digitChar k := by
  have : k = 0 ∨ k = 1 ∨ k = 2 ∨ k = 3 ∨ k = 4 ∨ k = 5 ∨ k = 6 ∨ k = 7 ∨ k = 8 ∨ k = 9 ∨ k = 10 ∨ k = 11 ∨
      k = 12 ∨ k = 13 ∨ k = 14 ∨ k = 15 := by omega
  rcases this with rfl | rfl | rfl | rfl | rfl | rfl | rfl | rfl | rfl | rfl | rfl | rfl | rfl | rfl | rfl | rfl <;> decide

theorem hexDigitsAux_eq : ∀ (fuel n : Nat) (acc : List Char),
    hexDigitsAux fuel n acc = Nat.toDigitsCore 16 fuel n acc
  | 0, _, _ => rfl
  | fuel + 1, n, acc => by
    simp only [hexDigitsAux, Nat.toDigitsCore, hexChar_eq (n % 16) (Nat.mod_lt _ (by omega))]
    split
    · rfl
    · exact hexDigitsAux_eq fuel (n / 16) _

theorem hex4_eq (n : Nat) : hex4 n = String.ofList (hexDigits n) := by
  simp [hex4, hexDigits, Nat.toDigits, hexDigitsAux_eq]

/-- full text of an IPv6 address: eight `{:x}` groups -/
def v6Full (a : Nat) : List Char := joinWith ':' ((v6Segments a).map hexDigits)

theorem v6Full_eq (a : Nat) : v6Full a =
    hexDigits (a / 65536 ^ 7 % 65536) ++ ':' :: (hexDigits (a / 65536 ^ 6 % 65536) ++ ':' :: (hexDigits (a / 65536 ^ 5 % 65536) ++ ':' ::
    (hexDigits (a / 65536 ^ 4 % 65536) ++ ':' :: (hexDigits (a / 65536 ^ 3 % 65536) ++ ':' :: (hexDigits (a / 65536 ^ 2 % 65536) ++ ':' ::
    (hexDigits (a / 65536 % 65536) ++ ':' :: hexDigits (a % 65536))))))) := rfl

theorem toExpr_ip_v6 (a p : Nat) :
    Value.toExpr (.ext (.ipaddr true a p)) = .call "ip" [.lit (.string (String.ofList (v6Full a ++ '/' :: decDigits p)))] := by
  simp only [Value.toExpr, Ext.toExpr]
  refine congrArg (fun s => Expr.call "ip" [Expr.lit (Prim.string s)]) ?_
  apply str_eq_ofList
  rw [v6Full_eq]
  simp only [String.toList_append, toString_toList, hex4_eq, String.toList_ofList, Nat.sub_zero, Nat.reduceSub, Nat.pow_zero,
    Nat.pow_one, Nat.div_one]
  simp only [List.append_assoc, List.cons_append]
  rfl

theorem v6Full_facts (a : Nat) (ha : a < 2 ^ 128) :
    (∀ c, c ∈ v6Full a → v6_hexOut c ∨ c = ':') ∧ (v6Full a).length ≤ 39 ∧ readV6 (v6Full a) = some (a, []) := by
  refine ⟨fun c hc => v6_joinWith_chars _ c hc, ?_, ?_⟩
  · have := v6_joinWith_length (v6Segments a) (v6Segments_lt a)
    rw [v6Segments_length] at this
    have hne : v6Segments a ≠ [] := by intro h; have := v6Segments_length a; rw [h] at this; cases this
    simp only [hne, if_false] at this
    unfold v6Full; omega
  · unfold v6Full
    rw [v6_readV6_full _ (v6Segments_length a) (v6Segments_lt a), groupsToNat_v6Segments a ha]

theorem parse_v6Full (a p : Nat) (ha : a < 2 ^ 128) (hp : p ≤ 128) :
    IPAddr.parse (String.ofList (v6Full a ++ '/' :: decDigits p)) = some (.ipaddr true a p) := by
  obtain ⟨hch, hlen, hrd⟩ := v6Full_facts a ha
  obtain ⟨_, hdig, _⟩ := decDigits_spec p
  have hplen : (decDigits p).length ≤ 3 := decDigits_length_le p 3 (by decide) (by omega)
  have hslash : '/' ∉ v6Full a := by
    intro h
    rcases hch _ h with h' | h'
    · exact v6_hexOut_ne_slash h' rfl
    · revert h'; decide
  have hdot : '.' ∉ v6Full a := by
    intro h
    rcases hch _ h with h' | h'
    · exact v6_hexOut_ne_dot h' rfl
    · revert h'; decide
  have hall : ∀ c, c ∈ v6Full a ++ '/' :: decDigits p → c.toNat < 128 ∧ c ≠ '.' := by
    intro c hc
    simp only [List.mem_append, List.mem_cons] at hc
    rcases hc with h | rfl | h
    · rcases hch c h with h' | rfl
      · exact ⟨v6_hexOut_ascii h', v6_hexOut_ne_dot h'⟩
      · exact ⟨by decide, by decide⟩
    · exact ⟨by decide, by decide⟩
    · have hd := hdig c h
      exact ⟨digit_ascii hd, by intro e; subst e; revert hd; decide⟩
  have hbl : IPAddr.byteLen (v6Full a ++ '/' :: decDigits p) ≤ 43 := by
    rw [byteLen_ascii _ (fun c hc => (hall c hc).1)]
    simp only [List.length_append, List.length_cons]
    omega
  have hcd : IPAddr.containsColonsAndDots (v6Full a ++ '/' :: decDigits p) = false := by
    have : IPAddr.countChar '.' (v6Full a ++ '/' :: decDigits p) = 0 :=
      countChar_zero _ _ (fun h => (hall _ h).2 rfl)
    simp [IPAddr.containsColonsAndDots, this]
  have hpa : IPAddr.parseAddr (v6Full a) = some (true, a) := by
    simp only [IPAddr.parseAddr, v6_readV4_none _ hdot, hrd]
  exact parse_addr_prefix (v6Full a) (decDigits p) true a p hbl hcd hslash hpa
    (by simp only [if_true]; exact parsePrefix_decDigits p 128 3 hp (by decide) (by decide) (by decide))

/-! ### value ranges of what the extension functions return -/
theorem checkedI64_inv {x v : Int} (h : checkedI64 x = some v) : inI64 v = true := by
  unfold checkedI64 at h
  split at h
  · cases h; assumption
  · cases h

theorem decimal_parse_inI64 {s : String} {v : Int} (h : Decimal.parse s = some v) : inI64 v = true := by
  unfold Decimal.parse at h
  split at h
  · cases h
  · unfold Decimal.arith at h
    simp only [Option.bind_eq_bind, Option.bind_eq_some_iff] at h
    obtain ⟨l, hl, l2, hl2, h⟩ := h
    split at h
    · cases h
    · simp only [Option.bind_eq_some_iff] at h
      obtain ⟨r, hr, r2, hr2, h⟩ := h
      split at h <;> exact checkedI64_inv h

theorem checkedOp_inv {neg : Bool} {x : Int} {y : Nat} {mul v : Int} (h : Duration.checkedOp neg x y mul = some v) :
    inI64 v = true := by
  unfold Duration.checkedOp at h
  simp only [Option.bind_eq_bind, Option.bind_eq_some_iff] at h
  obtain ⟨l, hl, l2, hl2, h⟩ := h
  split at h <;> exact checkedI64_inv h

theorem duration_parse_inI64 {s : String} {v : Int} (h : Duration.parse s = some v) : inI64 v = true := by
  unfold Duration.parse at h
  split at h
  · cases h
  · unfold Duration.arith at h
    simp only [Option.bind_eq_bind, Option.bind_eq_some_iff] at h
    obtain ⟨_, _, _, _, _, _, _, _, _, _, _, _, _, _, _, _, _, _, h⟩ := h
    exact checkedOp_inv h

theorem toTime_inI64 (t : Int) : inI64 (Datetime.toTime t) = true := by
  rw [Datetime.toTime_eq_emod, inI64_iff]
  omega

theorem daysFromCivil_bound (y m d : Nat) (hy : y < 10000) (_hm : m ≤ 12) (hd : d ≤ 31) :
    -720000 ≤ Datetime.daysFromCivil y m d ∧ Datetime.daysFromCivil y m d ≤ 3000000 := by
  unfold Datetime.daysFromCivil
  simp only []
  split <;> split <;> omega

theorem takeDigits_lt {n : Nat} {s ds r : List Char} (h : Datetime.takeDigits n s = some (ds, r)) :
    natOfDigits ds < 10 ^ n := by
  obtain ⟨_, ha, hl⟩ := Datetime.takeDigits_inv n s ds r h
  have := natOfDigits_lt ds ha
  rwa [hl] at this

theorem parseDate_bound {s : List Char} {y mo d : Nat} {r : List Char}
    (h : Datetime.parseDate s = some ((y, mo, d), r)) : y < 10000 := by
  obtain ⟨ys, ms, ds, d1, _, _, _, hv⟩ := Datetime.parseDate_inv s _ r h
  simp only [Prod.mk.injEq] at hv
  have := natOfDigits_lt ys d1.1
  rw [d1.2] at this
  omega

theorem parseOffset_bound {s : List Char} {o : Int} (h : Datetime.parseOffset s = some (o, true)) :
    -86400 ≤ o ∧ o ≤ 86400 := by
  unfold Datetime.parseOffset at h
  split at h
  · cases h; omega
  · split at h
    · split at h
      · cases h
      · split at h
        · cases h
        · split at h
          · cases h
          · simp only [Option.some.injEq, Prod.mk.injEq, Bool.and_eq_true, decide_eq_true_eq] at h
            obtain ⟨ho, h1, h2⟩ := h
            subst ho
            split <;> omega
    · cases h
  · cases h

theorem parseMsOffset_bound {s : List Char} {m : Nat} {o : Int} (h : Datetime.parseMsOffset s = some (m, o, true)) :
    m < 1000 ∧ -86400 ≤ o ∧ o ≤ 86400 := by
  unfold Datetime.parseMsOffset at h
  split at h
  · split at h
    · cases h
    · rename_i m3 r hm3
      split at h
      · cases h
      · simp only [Option.some.injEq, Prod.mk.injEq] at h
        obtain ⟨rfl, rfl, rfl⟩ := h
        rename_i hpo
        exact ⟨takeDigits_lt hm3, parseOffset_bound hpo⟩
  · split at h
    · cases h
    · simp only [Option.some.injEq, Prod.mk.injEq] at h
      obtain ⟨rfl, rfl, rfl⟩ := h
      rename_i hpo
      exact ⟨by omega, parseOffset_bound hpo⟩

theorem datetime_parse_inI64 {s : String} {v : Int} (h : Datetime.parse s = some v) : inI64 v = true := by
  unfold Datetime.parse at h
  split at h
  · cases h
  · rename_i y mo d r hpd
    have hy := parseDate_bound hpd
    split at h
    · split at h
      · rename_i hok
        cases h
        have hok' := (Datetime.dateOk_iff y mo d).mp hok
        have hdm := Datetime.daysInMonth_le y mo
        have := daysFromCivil_bound y mo d hy (by omega) (by omega)
        rw [inI64_iff]; simp only [Datetime.msPerDay]; omega
      · cases h
    · split at h
      · cases h
      · split at h
        · cases h
        · rename_i _ hh mi sec r2 _ _ msec off offOk hmo
          split at h
          · cases h
          · rename_i hok
            split at h
            · cases h
            · rename_i hhms
              split at h
              · cases h
              · rename_i hoff
                cases h
                have hok1 : Datetime.dateOk y mo d = true := by simpa using hok
                have hok' := (Datetime.dateOk_iff y mo d).mp hok1
                have hdm := Datetime.daysInMonth_le y mo
                have hb := daysFromCivil_bound y mo d hy (by omega) (by omega)
                have hoff' : offOk = true := by simpa using hoff
                subst hoff'
                obtain ⟨hms, ho1, ho2⟩ := parseMsOffset_bound hmo
                have hhms' : hh < 24 ∧ mi < 60 ∧ sec < 60 := by simpa [and_assoc] using hhms
                rw [inI64_iff]; simp only [Datetime.msPerDay]; omega

theorem char_le_toNat {a c : Char} (h : a ≤ c) : a.toNat ≤ c.toNat :=
  UInt32.le_iff_toNat_le.mp (Char.le_def.mp h)

theorem hexVal_lt {c : Char} (h : isHexDigit c = true) : hexVal c < 16 := by
  unfold hexVal
  by_cases hd : isDigit c = true
  · have := (isDigit_iff c).mp hd
    simp only [hd, if_true]; omega
  · simp only [hd, Bool.false_eq_true, if_false]
    simp only [isHexDigit, Bool.or_eq_true, Bool.and_eq_true, decide_eq_true_eq] at h
    have ea : ('a':Char).toNat = 97 := by decide
    have ef : ('f':Char).toNat = 102 := by decide
    have eA : ('A':Char).toNat = 65 := by decide
    have eF : ('F':Char).toNat = 70 := by decide
    rcases h with (h | ⟨h1, h2⟩) | ⟨h1, h2⟩
    · exact absurd h hd
    · have a1 := char_le_toNat h1; have a2 := char_le_toNat h2
      have : (decide ('a' ≤ c) && decide (c ≤ 'f')) = true := by simp [h1, h2]
      simp only [this, if_true]; omega
    · have a1 := char_le_toNat h1; have a2 := char_le_toNat h2
      split <;> omega

theorem foldl_base_lt (B : Nat) (l : List Nat) (h : ∀ g, g ∈ l → g < B) :
    ∀ acc : Nat, l.foldl (fun acc g => acc * B + g) acc < (acc + 1) * B ^ l.length := by
  induction l with
  | nil => intro acc; simp
  | cons g gs ih =>
    intro acc
    have hg := h g (List.mem_cons_self ..)
    have := ih (fun x hx => h x (List.mem_cons_of_mem _ hx)) (acc * B + g)
    simp only [List.foldl_cons, List.length_cons]
    calc _ < (acc * B + g + 1) * B ^ gs.length := this
      _ ≤ ((acc + 1) * B) * B ^ gs.length := Nat.mul_le_mul_right _ (by rw [Nat.add_mul]; omega)
      _ = (acc + 1) * B ^ (gs.length + 1) := by rw [Nat.pow_succ, Nat.mul_assoc, Nat.mul_comm B]

theorem spanHex_all (s : List Char) : ∀ c, c ∈ (spanHex s).1 → isHexDigit c = true := by
  induction s with
  | nil => intro c hc; simp [spanHex] at hc
  | cons d ds ih =>
    intro c hc
    simp only [spanHex] at hc
    split at hc
    · rename_i hd
      simp only [List.mem_cons] at hc
      rcases hc with rfl | hc
      · exact hd
      · exact ih c hc
    · simp at hc

theorem readGroup_lt {s : List Char} {g : Nat} {r : List Char} (h : readGroup s = some (g, r)) : g < 65536 := by
  unfold readGroup at h
  have hall := spanHex_all s
  cases hs : spanHex s with
  | mk ds rest =>
    rw [hs] at h hall
    simp only at h hall
    split at h
    · cases h
    · rename_i hlen
      simp only [Option.some.injEq, Prod.mk.injEq] at h
      obtain ⟨rfl, _⟩ := h
      simp only [Bool.or_eq_true, decide_eq_true_eq, not_or, Nat.not_lt] at hlen
      have hb := foldl_base_lt 16 (ds.map hexVal) (by
        intro x hx; obtain ⟨c, hc, rfl⟩ := List.mem_map.mp hx; exact hexVal_lt (hall c hc)) 0
      rw [List.foldl_map] at hb
      simp only [List.length_map, Nat.zero_add, Nat.one_mul] at hb
      have : 16 ^ ds.length ≤ 16 ^ 4 := Nat.pow_le_pow_right (by decide) hlen.2
      have e : (16:Nat) ^ 4 = 65536 := by decide
      omega

theorem readGroups_spec : ∀ (limit i : Nat) (s : List Char),
    (readGroups limit i s).1.length ≤ limit ∧ ∀ g, g ∈ (readGroups limit i s).1 → g < 65536
  | 0, _, _ => by simp [readGroups]
  | limit + 1, i, s => by
    simp only [readGroups]
    split
    · simp
    · split
      · simp
      · rename_i g r hg
        have ih := readGroups_spec limit (i + 1) r
        cases hr : readGroups limit (i + 1) r with
        | mk gs r' =>
          rw [hr] at ih
          simp only [List.length_cons, List.mem_cons] at ih ⊢
          refine ⟨by omega, ?_⟩
          intro x hx
          rcases hx with rfl | hx
          · exact readGroup_lt hg
          · exact ih.2 x hx

theorem groupsToNat_lt (gs : List Nat) (h : ∀ g, g ∈ gs → g < 65536) (hl : gs.length ≤ 8) : groupsToNat gs < 2 ^ 128 := by
  have hb := foldl_base_lt 65536 gs h 0
  simp only [Nat.zero_add, Nat.one_mul] at hb
  have : 65536 ^ gs.length ≤ 65536 ^ 8 := Nat.pow_le_pow_right (by decide) hl
  have e : (65536:Nat) ^ 8 = 2 ^ 128 := by decide
  unfold groupsToNat
  omega

theorem readV6_lt {s : List Char} {a : Nat} {r : List Char} (h : readV6 s = some (a, r)) : a < 2 ^ 128 := by
  unfold readV6 at h
  have h1 := readGroups_spec 8 0 s
  cases hh : readGroups 8 0 s with
  | mk head r1 =>
    rw [hh] at h h1
    simp only at h h1
    split at h
    · rename_i hl
      simp only [Option.some.injEq, Prod.mk.injEq] at h
      obtain ⟨rfl, _⟩ := h
      exact groupsToNat_lt head h1.2 (by omega)
    · rename_i hl
      split at h
      · rename_i r2
        have h2 := readGroups_spec (8 - (head.length + 1)) 0 r2
        cases ht : readGroups (8 - (head.length + 1)) 0 r2 with
        | mk tail r3 =>
          rw [ht] at h h2
          simp only [Option.some.injEq, Prod.mk.injEq] at h h2
          obtain ⟨rfl, _⟩ := h
          apply groupsToNat_lt
          · intro g hg
            simp only [List.mem_append, List.mem_replicate] at hg
            rcases hg with (hg | hg) | hg
            · exact h1.2 g hg
            · rw [hg.2]; decide
            · exact h2.2 g hg
          · simp only [List.length_append, List.length_replicate]
            omega
      · cases h

theorem readOctet_le {s : List Char} {n : Nat} {r : List Char} (h : readOctet s = some (n, r)) : n ≤ 255 := by
  unfold readOctet at h
  cases hs : spanDigits s with
  | mk ds rest =>
    rw [hs] at h
    simp only at h
    split at h
    · cases h
    · split at h
      · cases h
      · split at h
        · cases h
        · simp only [Option.some.injEq, Prod.mk.injEq] at h
          omega

theorem readV4_lt {s : List Char} {a : Nat} {r : List Char} (h : readV4 s = some (a, r)) : a < 2 ^ 32 := by
  unfold readV4 at h
  cases h1 : readOctet s with
  | none => rw [h1] at h; simp at h
  | some p1 =>
    obtain ⟨o1, r1⟩ := p1
    rw [h1] at h
    simp only [Option.bind_eq_bind, Option.bind_some] at h
    split at h
    · rename_i s2
      cases h2 : readOctet s2 with
      | none => rw [h2] at h; simp at h
      | some p2 =>
        obtain ⟨o2, r2⟩ := p2
        rw [h2] at h
        simp only [Option.bind_some] at h
        split at h
        · rename_i s3
          cases h3 : readOctet s3 with
          | none => rw [h3] at h; simp at h
          | some p3 =>
            obtain ⟨o3, r3⟩ := p3
            rw [h3] at h
            simp only [Option.bind_some] at h
            split at h
            · rename_i s4
              cases h4 : readOctet s4 with
              | none => rw [h4] at h; simp at h
              | some p4 =>
                obtain ⟨o4, r4⟩ := p4
                rw [h4] at h
                simp only [Option.bind_some, Option.some.injEq, Prod.mk.injEq] at h
                have := readOctet_le h1; have := readOctet_le h2; have := readOctet_le h3; have := readOctet_le h4
                omega
            · simp at h
        · simp at h
    · simp at h

theorem parsePrefix_le {p : List Char} {max maxLen n : Nat} (h : parsePrefix p max maxLen = some n) : n ≤ max := by
  unfold parsePrefix at h
  split at h
  · cases h
  · split at h
    · cases h
    · split at h
      · cases h
      · split at h
        · cases h
        · simp only at h
          split at h
          · cases h
          · split at h
            · cases h
            · simp only [Option.some.injEq] at h
              omega


/-- the value range of the Rust extension types: i64 payloads; a u32 address with prefix ≤ 32 or a u128 address with
    prefix ≤ 128 -/
def InRange : Ext → Prop
  | .decimal v => inI64 v = true
  | .datetime ms => inI64 ms = true
  | .duration ms => inI64 ms = true
  | .ipaddr false a p => a < 2 ^ 32 ∧ p ≤ 32
  | .ipaddr true a p => a < 2 ^ 128 ∧ p ≤ 128

theorem parseAddr_lt {s : List Char} {v6 : Bool} {a : Nat} (h : parseAddr s = some (v6, a)) :
    (v6 = false ∧ a < 2 ^ 32) ∨ (v6 = true ∧ a < 2 ^ 128) := by
  unfold parseAddr at h
  split at h
  · rename_i a' h4
    simp only [Option.some.injEq, Prod.mk.injEq] at h
    exact Or.inl ⟨h.1.symm, h.2 ▸ readV4_lt h4⟩
  · split at h
    · rename_i a' h6
      simp only [Option.some.injEq, Prod.mk.injEq] at h
      exact Or.inr ⟨h.1.symm, h.2 ▸ readV6_lt h6⟩
    · cases h

theorem ip_parse_inRange {s : String} {x : Ext} (h : IPAddr.parse s = some x) : InRange x := by
  unfold IPAddr.parse at h
  simp only at h
  split at h
  · cases h
  · split at h
    · cases h
    · split at h
      · split at h
        · cases h
        · rename_i v6 addr hpa
          split at h
          · cases h
          · rename_i pl hpl
            cases h
            rcases parseAddr_lt hpa with ⟨rfl, ha⟩ | ⟨rfl, ha⟩
            · simp only [Bool.false_eq_true, if_false] at hpl
              exact ⟨ha, parsePrefix_le hpl⟩
            · simp only [if_true] at hpl
              exact ⟨ha, parsePrefix_le hpl⟩
      · split at h
        · cases h
        · rename_i v6 addr hpa
          cases h
          rcases parseAddr_lt hpa with ⟨rfl, ha⟩ | ⟨rfl, ha⟩
          · exact ⟨ha, by simp⟩
          · exact ⟨ha, by simp⟩

/-! ### the canonical constructor call evaluates back to the value -/

theorem rt_call1 {fn s : String} {x : Ext} (hfn : fn ≠ "unknown")
    (hev : callExt fn [.prim (.string s)] = .ok (.ext x)) (m : Mapper) (req : PRequest) (es : PEntities) (env : SlotEnv) (n : Nat) :
    pinterp m req es env n (.call fn [.lit (.string s)]) = .fuel ∨
    pinterp m req es env n (.call fn [.lit (.string s)]) = .val (.ext x) := by
  cases n with
  | zero => left; simp [pinterp]
  | succ n =>
    cases n with
    | zero => left; simp [pinterp, collectPV]
    | succ n => right; simp [pinterp, collectPV, splitPV, Except.map, pcallExt, hfn, hev, PRes.ofResult]

theorem callExt_ip {s : String} {x : Ext} (h : IPAddr.parse s = some x) :
    callExt "ip" [.prim (.string s)] = .ok (.ext x) := by
  simp [callExt, extFnArity, callExt1, Value.asString, h, optToExt, bind, Except.bind]

/-- **round trip of `Ext.toExpr`**: every extension value in the Rust value range survives conversion to its canonical
    constructor call followed by (partial) interpretation -/
theorem RT_ext (x : Ext) (h : InRange x) : RT (.ext x) := by
  intro m req es env n
  cases x with
  | decimal d =>
    rw [toExpr_decimal]
    exact rt_call1 (by decide) (callExt_decimal d h) m req es env n
  | duration ms =>
    rw [toExpr_duration]
    exact rt_call1 (by decide) (callExt_duration ms h) m req es env n
  | ipaddr v6 a p =>
    cases v6 with
    | false =>
      rw [toExpr_ip_v4]
      exact rt_call1 (by decide) (callExt_ip (parse_renderIp_v4 a p h.1 h.2)) m req es env n
    | true =>
      rw [toExpr_ip_v6]
      exact rt_call1 (by decide) (callExt_ip (parse_v6Full a p h.1 h.2)) m req es env n
  | datetime ms =>
    rw [toExpr_datetime]
    have h1 := rt_call1 (fn := "datetime") (by decide) callExt_epoch m req es env
    have h2 := rt_call1 (fn := "duration") (by decide) (callExt_duration ms h) m req es env
    have hoff : callExt "offset" [.ext (.datetime 0), .ext (.duration ms)] = .ok (.ext (.datetime ms)) := by
      simp [callExt, extFnArity, callExt2, Value.asDatetime, Value.asDuration, Datetime.offset, checkedI64_of h, optToExt,
        bind, Except.bind]
    cases n with
    | zero => left; simp [pinterp]
    | succ n =>
      simp only [pinterp, collectPV]
      rcases h1 n with e1 | e1
      · left; rw [e1]
      · rw [e1]
        rcases h2 n with e2 | e2
        · left; rw [e2]; rfl
        · right; rw [e2]
          simp [Except.map, splitPV, pcallExt, hoff, PRes.ofResult]

theorem DRT_ext (x : Ext) (h : InRange x) : (Value.ext x).DRT := by
  simp only [Value.DRT]; exact RT_ext x h

end PExt

/-! ### values as Rust holds them round-trip deeply -/

mutual
/-- what every Rust `Value` satisfies as far as `Value.toExpr` is concerned: sets are canonical (`BTreeSet`), records
    strictly key-sorted (`BTreeMap`), extension payloads within the range of their Rust types -/
def Value.Canon : Value → Prop
  | .prim _ => True
  | .ext x => PExt.InRange x
  | .set vs => Value.mkSet vs = vs ∧ Value.CanonList vs
  | .record kvs => CJson.Sorted (kvs.map Prod.fst) ∧ Value.CanonKVs kvs
def Value.CanonList : List Value → Prop
  | [] => True
  | v :: vs => v.Canon ∧ Value.CanonList vs
def Value.CanonKVs : List (String × Value) → Prop
  | [] => True
  | (_, v) :: kvs => v.Canon ∧ Value.CanonKVs kvs
end

mutual
theorem DRT_of_canon : ∀ v : Value, v.Canon → v.DRT
  | .prim _, _ => by simp [Value.DRT]
  | .ext x, h => PExt.DRT_ext x h
  | .set vs, h => by
    simp only [Value.Canon] at h
    simp only [Value.DRT]
    exact RT_set (fun w hw => (DRTList_of_canon vs h.2 w hw).rt) h.1
  | .record kvs, h => by
    simp only [Value.Canon] at h
    simp only [Value.DRT]
    have hk := DRTKVs_of_canon kvs h.2
    exact ⟨RT_record h.1 (fun p hp => (hk.2 p hp).rt), hk.1⟩
theorem DRTList_of_canon : ∀ vs : List Value, Value.CanonList vs → ∀ w, w ∈ vs → w.DRT
  | [], _ => by intro w hw; cases hw
  | v :: vs, h => by
    simp only [Value.CanonList] at h
    intro w hw
    rcases List.mem_cons.mp hw with hw' | hw'
    · rw [hw']; exact DRT_of_canon v h.1
    · exact DRTList_of_canon vs h.2 w hw'
theorem DRTKVs_of_canon : ∀ kvs : List (String × Value), Value.CanonKVs kvs →
    Value.DRTKVs kvs ∧ ∀ p, p ∈ kvs → p.2.DRT
  | [], _ => ⟨trivial, by intro p hp; cases hp⟩
  | (k, v) :: kvs, h => by
    simp only [Value.CanonKVs] at h
    have h1 := DRT_of_canon v h.1
    have h2 := DRTKVs_of_canon kvs h.2
    refine ⟨by simp only [Value.DRTKVs]; exact ⟨h1, h2.1⟩, ?_⟩
    intro p hp
    rcases List.mem_cons.mp hp with hp' | hp'
    · rw [hp']; exact h1
    · exact h2.2 p hp'
end

namespace PExt

/-! ### `CallDRT` holds for every extension function -/

theorem canon_of_parse {α : Type} {p : Option α} {f : α → Ext} {w : Value}
    (hr : ∀ a, p = some a → InRange (f a))
    (h : (do let v ← optToExt p; Except.ok (Value.ext (f v)) : Result Value) = .ok w) : w.Canon := by
  cases hp : p with
  | none => simp [hp, optToExt, bind, Except.bind] at h
  | some a =>
    simp only [hp, optToExt, bind, Except.bind, Except.ok.injEq] at h
    subst h
    exact hr a hp

theorem callExt1_canon (fn : String) (a w : Value) (h : callExt1 fn a = .ok w) : w.Canon := by
  unfold callExt1 at h
  split at h
  · cases hs : a.asString with
    | error c => simp [hs, bind, Except.bind] at h
    | ok s =>
      simp only [hs, bind, Except.bind] at h
      exact canon_of_parse (f := Ext.decimal) (fun v hv => decimal_parse_inI64 hv) h
  · cases hs : a.asString with
    | error c => simp [hs, bind, Except.bind] at h
    | ok s =>
      simp only [hs, bind, Except.bind] at h
      exact canon_of_parse (f := id) (fun v hv => ip_parse_inRange hv) h
  · cases hs : a.asString with
    | error c => simp [hs, bind, Except.bind] at h
    | ok s =>
      simp only [hs, bind, Except.bind] at h
      exact canon_of_parse (f := Ext.datetime) (fun v hv => datetime_parse_inI64 hv) h
  · cases hs : a.asString with
    | error c => simp [hs, bind, Except.bind] at h
    | ok s =>
      simp only [hs, bind, Except.bind] at h
      exact canon_of_parse (f := Ext.duration) (fun v hv => duration_parse_inI64 hv) h
  · split at h <;> first | (cases h; trivial) | cases h
  · split at h <;> first | (cases h; trivial) | cases h
  · split at h <;> first | (cases h; trivial) | cases h
  · split at h <;> first | (cases h; trivial) | cases h
  · cases hs : a.asDatetime with
    | error c => simp [hs, bind, Except.bind] at h
    | ok d =>
      simp only [hs, bind, Except.bind] at h
      exact canon_of_parse (f := Ext.datetime) (fun v hv => checkedI64_inv hv) h
  · cases hs : a.asDatetime with
    | error c => simp [hs, bind, Except.bind] at h
    | ok d =>
      simp only [hs, bind, Except.bind, Except.ok.injEq] at h
      subst h
      exact toTime_inI64 d
  all_goals first
    | (cases hs : a.asDuration with
        | error c => simp [hs, bind, Except.bind] at h
        | ok d => simp only [hs, bind, Except.bind, Except.ok.injEq] at h; subst h; trivial)
    | cases h

theorem cmp_canon {f : Int → Int → Bool} {a b w : Value}
    (h : (do let x ← a.asDecimal; let y ← b.asDecimal; Except.ok (vbool (f x y)) : Result Value) = .ok w) : w.Canon := by
  simp only [bind, Except.bind] at h
  cases h1 : a.asDecimal <;> simp only [h1] at h
  · cases h
  · cases h2 : b.asDecimal <;> simp only [h2] at h
    · cases h
    · cases h; trivial

theorem callExt2_canon (fn : String) (a b w : Value) (h : callExt2 fn a b = .ok w) : w.Canon := by
  unfold callExt2 at h
  split at h
  · exact cmp_canon h
  · exact cmp_canon h
  · exact cmp_canon h
  · exact cmp_canon h
  · split at h <;> first | (cases h; trivial) | cases h
  · cases h1 : a.asDatetime with
    | error c => simp [h1, bind, Except.bind] at h
    | ok d =>
      cases h2 : b.asDuration with
      | error c => simp [h1, h2, bind, Except.bind] at h
      | ok u =>
        simp only [h1, h2, bind, Except.bind] at h
        exact canon_of_parse (f := Ext.datetime) (fun v hv => checkedI64_inv hv) h
  · cases h1 : a.asDatetime with
    | error c => simp [h1, bind, Except.bind] at h
    | ok d =>
      cases h2 : b.asDatetime with
      | error c => simp [h1, h2, bind, Except.bind] at h
      | ok u =>
        simp only [h1, h2, bind, Except.bind] at h
        exact canon_of_parse (f := Ext.duration) (fun v hv => checkedI64_inv hv) h
  · cases h

end PExt

/-- whatever an extension function returns is a canonical value -/
theorem callExt_canon {fn : String} {vs : List Value} {w : Value} (hw : callExt fn vs = .ok w) : w.Canon := by
  unfold callExt at hw
  split at hw
  · cases hw
  · split at hw
    · cases hw
    · split at hw
      · exact PExt.callExt1_canon _ _ _ hw
      · exact PExt.callExt2_canon _ _ _ _ hw
      · cases hw

/-- **`CallDRT` for every extension function**: whatever an extension function returns survives `Value.toExpr`
    (Booleans and longs trivially; decimal / ip / datetime / duration values because what the parsers and the checked
    arithmetic return lies in the Rust value range, on which the canonical constructor call parses back) -/
theorem callDRT_all (fn : String) : CallDRT fn := by
  intro vs w hw
  unfold callExt at hw
  split at hw
  · cases hw
  · split at hw
    · cases hw
    · split at hw
      · exact DRT_of_canon _ (PExt.callExt1_canon _ _ _ hw)
      · exact DRT_of_canon _ (PExt.callExt2_canon _ _ _ _ hw)
      · cases hw

/-- a store whose attribute and tag values are canonical satisfies `StoreDRT` -/
theorem storeDRT_of_canon (es : Entities)
    (h : ∀ u d, es.find? u = some d → Value.CanonKVs d.attrs ∧ Value.CanonKVs d.tags) : StoreDRT es := by
  intro u d hf
  obtain ⟨ha, ht⟩ := h u d hf
  exact ⟨fun a v hl => DRTKVs_lookup (DRTKVs_of_canon _ ha).1 hl, fun a v hl => DRTKVs_lookup (DRTKVs_of_canon _ ht).1 hl⟩

/-- extension-function calls need no side condition any more -/
theorem Frag.call' (fn : String) {args : List Expr} (hfn : fn ≠ "unknown") (h : ∀ x, x ∈ args → Frag x) :
    Frag (.call fn args) := Frag.call fn hfn (callDRT_all fn) h

end Cedar
