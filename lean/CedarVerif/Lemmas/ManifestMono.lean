import CedarVerif.Lemmas.ManifestSlicer
/-
C17 helper lemmas: STORE-LEVEL MONOTONICITY of the slicer.  The order `AccessTrie.le` compares requested paths and
`is_ancestor` marks only; pruning (`prune_child_entity_dereferences`) reads the `is_entity_type` annotations, so the slice is
monotone only when the annotations agree: `FlagsAgree t t'` — at corresponding nodes, the larger trie is annotated
entity-typed only where the smaller one is.  `AccessTrie.leA` is the conjunction of the two as one recursive order.
Under it: the pruned tries are ordered, every entity request of the smaller trie is matched by a larger request for the
same entity, every loaded slice is a trimmed copy of the larger load, every ancestor request is contained in the larger one.
-/
namespace Cedar.Manifest
open Cedar

/-! ## the order with annotations -/

-- `t₁ ≤ t₂` and the annotations agree (ancestors tries are compared by `rootsLe` only: nothing reads annotations there)
mutual
def AccessTrie.leA : AccessTrie → AccessTrie → Prop
  | .mk c1 a1 i1 e1, t2 =>
    fieldsLeA c1 t2.children ∧ rootsLe a1 t2.ancestors ∧ (i1 = true → t2.isAncestor = true) ∧ (t2.isEntity = true → e1 = true)
def fieldsLeA : Fields → Fields → Prop
  | [], _ => True
  | (k, t) :: rest, c2 => (∃ t2, lookupField c2 k = some t2 ∧ AccessTrie.leA t t2) ∧ fieldsLeA rest c2
end

def rootsLeA : RootAccessTrie → RootAccessTrie → Prop
  | [], _ => True
  | (k, t) :: rest, c2 => (∃ t2, lookupRoot c2 k = some t2 ∧ AccessTrie.leA t t2) ∧ rootsLeA rest c2

-- the annotation side condition alone: at corresponding nodes (same path of fields), `t₂` is annotated entity-typed only
-- where `t₁` is
mutual
def FlagsAgree : AccessTrie → AccessTrie → Prop
  | .mk c1 _ _ e1, t2 => (t2.isEntity = true → e1 = true) ∧ fieldsAgree c1 t2.children
def fieldsAgree : Fields → Fields → Prop
  | [], _ => True
  | (k, t) :: rest, c2 => (∀ t2, lookupField c2 k = some t2 → FlagsAgree t t2) ∧ fieldsAgree rest c2
end

def FlagsAgreeRoots : RootAccessTrie → RootAccessTrie → Prop
  | [], _ => True
  | (k, t) :: rest, c2 => (∀ t2, lookupRoot c2 k = some t2 → FlagsAgree t t2) ∧ FlagsAgreeRoots rest c2

mutual
theorem leA_of_le_agree : ∀ (t1 t2 : AccessTrie), AccessTrie.le t1 t2 → FlagsAgree t1 t2 → AccessTrie.leA t1 t2
  | .mk c1 a1 i1 e1, t2, hle, hag => by
    simp only [AccessTrie.le] at hle
    simp only [FlagsAgree] at hag
    simp only [AccessTrie.leA]
    exact ⟨fieldsLeA_of_le_agree c1 t2.children hle.1 hag.2, hle.2.1, hle.2.2, hag.1⟩
theorem fieldsLeA_of_le_agree : ∀ (c1 c2 : Fields), fieldsLe c1 c2 → fieldsAgree c1 c2 → fieldsLeA c1 c2
  | [], _, _, _ => by simp [fieldsLeA]
  | (k, t) :: rest, c2, hle, hag => by
    simp only [fieldsLe] at hle
    simp only [fieldsAgree] at hag
    simp only [fieldsLeA]
    obtain ⟨t2, h1, h2⟩ := hle.1
    exact ⟨⟨t2, h1, leA_of_le_agree t t2 h2 (hag.1 t2 h1)⟩, fieldsLeA_of_le_agree rest c2 hle.2 hag.2⟩
end

theorem rootsLeA_of_le_agree : ∀ (c1 c2 : RootAccessTrie), rootsLe c1 c2 → FlagsAgreeRoots c1 c2 → rootsLeA c1 c2
  | [], _, _, _ => by simp [rootsLeA]
  | (k, t) :: rest, c2, hle, hag => by
    simp only [rootsLe] at hle
    simp only [FlagsAgreeRoots] at hag
    simp only [rootsLeA]
    obtain ⟨t2, h1, h2⟩ := hle.1
    exact ⟨⟨t2, h1, leA_of_le_agree t t2 h2 (hag.1 t2 h1)⟩, rootsLeA_of_le_agree rest c2 hle.2 hag.2⟩

mutual
theorem le_of_leA : ∀ (t1 t2 : AccessTrie), AccessTrie.leA t1 t2 → AccessTrie.le t1 t2
  | .mk c1 a1 i1 e1, t2, h => by
    simp only [AccessTrie.leA] at h
    simp only [AccessTrie.le]
    exact ⟨fieldsLe_of_leA c1 t2.children h.1, h.2.1, h.2.2.1⟩
theorem fieldsLe_of_leA : ∀ (c1 c2 : Fields), fieldsLeA c1 c2 → fieldsLe c1 c2
  | [], _, _ => by simp [fieldsLe]
  | (k, t) :: rest, c2, h => by
    simp only [fieldsLeA] at h
    simp only [fieldsLe]
    obtain ⟨t2, h1, h2⟩ := h.1
    exact ⟨⟨t2, h1, le_of_leA t t2 h2⟩, fieldsLe_of_leA rest c2 h.2⟩
end

theorem fieldsLeA_lookup : ∀ (c1 c2 : Fields) (k : String) (t : AccessTrie),
    fieldsLeA c1 c2 → lookupField c1 k = some t → ∃ t2, lookupField c2 k = some t2 ∧ AccessTrie.leA t t2
  | [], _, _, _, _, h => by simp [lookupField] at h
  | (k0, t0) :: rest, c2, k, t, hle, h => by
    simp only [fieldsLeA] at hle
    simp only [lookupField] at h
    by_cases e : (k0 == k) = true
    · simp only [e, if_true, Option.some.injEq] at h
      have e' : k0 = k := by simpa using e
      subst e'; subst h
      exact hle.1
    · simp only [e] at h
      exact fieldsLeA_lookup rest c2 k t hle.2 h

/-! ## pruning respects the order with annotations -/

mutual
theorem pruneEntityDeref_le : ∀ (t1 t2 : AccessTrie), AccessTrie.leA t1 t2 →
    AccessTrie.le (pruneEntityDeref t1) (pruneEntityDeref t2)
  | .mk c1 a1 i1 e1, .mk c2 a2 i2 e2, h => by
    simp only [AccessTrie.leA, AccessTrie.children, AccessTrie.ancestors, AccessTrie.isAncestor, AccessTrie.isEntity] at h
    simp only [pruneEntityDeref, AccessTrie.le, AccessTrie.children, AccessTrie.ancestors, AccessTrie.isAncestor]
    refine ⟨?_, h.2.1, h.2.2.1⟩
    cases e1 with
    | true => simp [fieldsLe]
    | false =>
      cases e2 with
      | true => exact absurd (h.2.2.2 rfl) (by simp)
      | false => exact pruneFields_le c1 c2 h.1
theorem pruneFields_le : ∀ (c1 c2 : Fields), fieldsLeA c1 c2 → fieldsLe (pruneFields c1) (pruneFields c2)
  | [], _, _ => by simp [pruneFields, fieldsLe]
  | (k, t) :: rest, c2, h => by
    simp only [fieldsLeA] at h
    simp only [pruneFields, fieldsLe]
    obtain ⟨t2, h1, h2⟩ := h.1
    refine ⟨⟨pruneEntityDeref t2, ?_, pruneEntityDeref_le t t2 h2⟩, pruneFields_le rest c2 h.2⟩
    rw [lookupField_pruneFields, h1]; rfl
end

/-- the slice of an entity by a smaller request is a trimmed copy of its slice by a larger one -/
theorem sliceEntity_mono (t1 t2 : AccessTrie) (h : AccessTrie.leA t1 t2) (d : EntityData) :
    TrimKVs (sliceEntity t1 d).attrs (sliceEntity t2 d).attrs := by
  obtain ⟨c1, a1, i1, e1⟩ := t1
  obtain ⟨c2, a2, i2, e2⟩ := t2
  simp only [AccessTrie.leA, AccessTrie.children] at h
  simp only [sliceEntity, pruneChildEntityDeref, AccessTrie.children]
  exact trimKVs_of_lookup _ _ (sliceFields_mono _ _ d.attrs (pruneFields_le c1 c2 h.1))

/-! ## entity requests: every request of the smaller trie is matched by a larger request for the same entity -/

theorem mem_expandFields_of_lookup (es : Entities) (f : String) (t : AccessTrie) (v : Value) (kvs : List (String × Value))
    (q : EntityUID × AccessTrie) (hv : lookupKV kvs f = some v) (hq : q ∈ expandValue es t v) :
    ∀ c : Fields, lookupField c f = some t → q ∈ expandFields es c kvs
  | [], h => by simp [lookupField] at h
  | (k0, t0) :: rest, h => by
    simp only [lookupField] at h
    simp only [expandFields, List.mem_append]
    by_cases e : (k0 == f) = true
    · simp only [e, if_true, Option.some.injEq] at h
      have e' : k0 = f := by simpa using e
      subst e'; subst h
      left; simp only [hv]; exact hq
    · simp only [e, Bool.false_eq_true, if_false] at h
      right; exact mem_expandFields_of_lookup es f t v kvs q hv hq rest h

theorem le_of_trim {x y : Value} (h : Trim x y) : Le x y := fun b hb => trim_trans b x y hb h

mutual
theorem expandValue_mono (es : Entities) : ∀ (t1 t2 : AccessTrie) (v v' : Value), AccessTrie.leA t1 t2 → Le v v' →
    ∀ u tr, (u, tr) ∈ expandValue es t1 v → ∃ tr', (u, tr') ∈ expandValue es t2 v' ∧ AccessTrie.leA tr tr'
  | .mk c1 a1 i1 e1, .mk c2 a2 i2 e2, v, v', hle, htr, u, tr, hm => by
    have hle' := hle
    simp only [AccessTrie.leA, AccessTrie.children] at hle'
    cases v with
    | prim p =>
      have e := le_nonrecord (by intro kvs; simp) htr
      subst e
      cases p with
      | entityUID x =>
        simp only [expandValue, List.mem_cons, Prod.mk.injEq] at hm ⊢
        rcases hm with ⟨e1', e2'⟩ | hm
        · subst e1'; subst e2'
          exact ⟨_, Or.inl ⟨rfl, rfl⟩, hle⟩
        · cases hd : es.find? x with
          | none => simp [hd] at hm
          | some d =>
            simp only [hd] at hm ⊢
            have htrim : Trim (.record (sliceFields (pruneFields c1) d.attrs)) (.record (sliceFields (pruneFields c2) d.attrs)) := by
              simp only [Trim]
              exact ⟨_, rfl, trimKVs_of_lookup _ _ (sliceFields_mono _ _ d.attrs (pruneFields_le c1 c2 hle'.1))⟩
            obtain ⟨tr', h1, h2⟩ := expandFields_mono es c1 c2 _ _ hle'.1 (le_of_trim htrim) u tr hm
            exact ⟨tr', Or.inr h1, h2⟩
      | bool b => simp [expandValue] at hm
      | int n => simp [expandValue] at hm
      | string s => simp [expandValue] at hm
    | record kvs =>
      obtain ⟨kvs', e⟩ := le_record_inv htr
      subst e
      simp only [expandValue] at hm ⊢
      exact expandFields_mono es c1 c2 kvs kvs' hle'.1 htr u tr hm
    | set s => simp [expandValue] at hm
    | ext x => simp [expandValue] at hm
theorem expandFields_mono (es : Entities) : ∀ (c1 c2 : Fields) (kvs kvs' : List (String × Value)), fieldsLeA c1 c2 →
    Le (.record kvs) (.record kvs') →
    ∀ u tr, (u, tr) ∈ expandFields es c1 kvs → ∃ tr', (u, tr') ∈ expandFields es c2 kvs' ∧ AccessTrie.leA tr tr'
  | [], _, _, _, _, _, _, _, hm => by simp [expandFields] at hm
  | (f, t) :: rest, c2, kvs, kvs', hle, htr, u, tr, hm => by
    simp only [fieldsLeA] at hle
    simp only [expandFields, List.mem_append] at hm
    rcases hm with hm | hm
    · cases hv : lookupKV kvs f with
      | none => simp [hv] at hm
      | some v =>
        simp only [hv] at hm
        obtain ⟨t2, h1, h2⟩ := hle.1
        obtain ⟨ky, v', e, hv', htv⟩ := le_lookup htr hv
        cases e
        obtain ⟨tr', h3, h4⟩ := expandValue_mono es t t2 v v' h2 htv u tr hm
        exact ⟨tr', mem_expandFields_of_lookup es f t2 v' kvs' _ hv' h3 c2 h1, h4⟩
    · exact expandFields_mono es rest c2 kvs kvs' hle.2 htr u tr hm
end

theorem allRequests_mono (es : Entities) (req : Request) : ∀ (t1 t2 : RootAccessTrie), rootsLeA t1 t2 →
    ∀ u tr, (u, tr) ∈ allRequests es req t1 → ∃ tr', (u, tr') ∈ allRequests es req t2 ∧ AccessTrie.leA tr tr'
  | [], _, _, _, _, hm => by simp [allRequests] at hm
  | (root, t) :: rest, t2, hle, u, tr, hm => by
    simp only [rootsLeA] at hle
    simp only [allRequests, List.mem_append] at hm
    rcases hm with hm | hm
    · obtain ⟨t', h1, h2⟩ := hle.1
      have key : ∀ (g : RootAccessTrie), lookupRoot g root = some t' →
          ∀ q, q ∈ (match rootUid req root with
            | some u => expandValue es t' (.prim (.entityUID u))
            | none => expandFields es t'.children req.context) → q ∈ allRequests es req g := by
        intro g
        induction g with
        | nil => intro h; simp [lookupRoot] at h
        | cons hd tl ih =>
          obtain ⟨k0, t0⟩ := hd
          intro h q hq
          simp only [lookupRoot] at h
          simp only [allRequests, List.mem_append]
          by_cases e : (k0 == root) = true
          · simp only [e, if_true, Option.some.injEq] at h
            have e' : k0 = root := by simpa using e
            subst e'; subst h
            exact Or.inl hq
          · simp only [e, Bool.false_eq_true, if_false] at h
            exact Or.inr (ih h q hq)
      cases hr : rootUid req root with
      | some x =>
        simp only [hr] at hm
        obtain ⟨tr', h3, h4⟩ := expandValue_mono es t t' _ _ h2 (Le.refl _) u tr hm
        exact ⟨tr', key t2 h1 _ (by simp only [hr]; exact h3), h4⟩
      | none =>
        simp only [hr] at hm
        obtain ⟨c1, a1, i1, e1⟩ := t
        simp only [AccessTrie.leA] at h2
        obtain ⟨tr', h3, h4⟩ := expandFields_mono es c1 t'.children _ _ h2.1 (Le.refl _) u tr hm
        exact ⟨tr', key t2 h1 _ (by simp only [hr]; exact h3), h4⟩
    · exact allRequests_mono es req rest t2 hle.2 u tr hm

/-! ## the loading loop -/

/-- attribute-wise "below": every entry of `m` has an entry in `M` keeping at least its attributes -/
def AttrsBelow (m M : Entities) : Prop :=
  ∀ u d1, m.find? u = some d1 → ∃ d2, M.find? u = some d2 ∧ TrimKVs d1.attrs d2.attrs

theorem loadAll_below (es M : Entities) : ∀ (reqs : List (EntityUID × AccessTrie)) (m : Entities),
    (∀ u tr, (u, tr) ∈ reqs → ∀ d, es.find? u = some d → ∃ d2, M.find? u = some d2 ∧ TrimKVs (sliceEntity tr d).attrs d2.attrs) →
    AttrsBelow m M → AttrsBelow (loadAll es reqs m) M
  | [], m, _, h => by simpa [loadAll] using h
  | (u, t) :: rest, m, hreq, h => by
    simp only [loadAll]
    have hrest : ∀ u' tr, (u', tr) ∈ rest → ∀ d, es.find? u' = some d →
        ∃ d2, M.find? u' = some d2 ∧ TrimKVs (sliceEntity tr d).attrs d2.attrs :=
      fun u' tr hm => hreq u' tr (by simp [hm])
    cases hd : es.find? u with
    | none => exact loadAll_below es M rest m hrest h
    | some d =>
      simp only
      apply loadAll_below es M rest _ hrest
      intro x d1 hx
      rw [find?_insertOrMerge] at hx
      by_cases e : u = x
      · subst e
        simp only [beq_self_eq_true, if_true, Option.some.injEq] at hx
        obtain ⟨d2, h1, h2⟩ := hreq u t (by simp) d hd
        cases hm : m.find? u with
        | none =>
          simp only [hm] at hx
          subst hx
          exact ⟨d2, h1, h2⟩
        | some d0 =>
          simp only [hm] at hx
          subst hx
          obtain ⟨d2', h1', h2'⟩ := h u d0 hm
          rw [h1] at h1'
          cases h1'
          exact ⟨d2, h1, by simp only [mergeEntities]; exact mergeKVs_below _ _ _ h2' h2⟩
      · have e' : (u == x) = false := by simpa using e
        simp only [e', Bool.false_eq_true, if_false] at hx
        exact h x d1 hx

/-! ## ancestor requests -/

theorem mem_ancFields_of_lookup (m : Entities) (f : String) (t : AccessTrie) (v : Value) (kvs : List (String × Value))
    (x : EntityUID) (hv : lookupKV kvs f = some v) (hx : x ∈ ancValue m t v) :
    ∀ c : Fields, lookupField c f = some t → x ∈ ancFields m c kvs
  | [], h => by simp [lookupField] at h
  | (k0, t0) :: rest, h => by
    simp only [lookupField] at h
    simp only [ancFields, List.mem_append]
    by_cases e : (k0 == f) = true
    · simp only [e, if_true, Option.some.injEq] at h
      have e' : k0 = f := by simpa using e
      subst e'; subst h
      left; simp only [hv]; exact hx
    · simp only [e, Bool.false_eq_true, if_false] at h
      right; exact mem_ancFields_of_lookup m f t v kvs x hv hx rest h

mutual
theorem ancValue_mono (m m' : Entities) (hb : AttrsBelow m m') (x : EntityUID) : ∀ (t1 t2 : AccessTrie) (v v' : Value),
    AccessTrie.le t1 t2 → Le v v' → x ∈ ancValue m t1 v → x ∈ ancValue m' t2 v'
  | .mk c1 a1 i1 e1, .mk c2 a2 i2 e2, v, v', hle, htr, hx => by
    simp only [AccessTrie.le, AccessTrie.children, AccessTrie.isAncestor] at hle
    cases v with
    | prim p =>
      have e := le_nonrecord (by intro kvs; simp) htr
      subst e
      cases p with
      | entityUID u =>
        simp only [ancValue, List.mem_append] at hx ⊢
        rcases hx with hx | hx
        · left
          cases i1 with
          | false => simp at hx
          | true => rw [hle.2.2 rfl]; exact hx
        · right
          cases hd : m.find? u with
          | none => simp [hd] at hx
          | some d =>
            simp only [hd] at hx
            obtain ⟨d2, h1, h2⟩ := hb u d hd
            simp only [h1]
            exact ancFields_mono m m' hb x c1 c2 _ _ hle.1 (le_of_trim (by simp only [Trim]; exact ⟨_, rfl, h2⟩)) hx
      | bool b => simp [ancValue] at hx
      | int n => simp [ancValue] at hx
      | string s => simp [ancValue] at hx
    | record kvs =>
      obtain ⟨kvs', e⟩ := le_record_inv htr
      subst e
      simp only [ancValue] at hx ⊢
      exact ancFields_mono m m' hb x c1 c2 kvs kvs' hle.1 htr hx
    | set s =>
      have e := le_nonrecord (by intro kvs; simp) htr
      subst e
      simp only [ancValue] at hx ⊢
      cases i1 with
      | false => simp at hx
      | true => rw [hle.2.2 rfl]; exact hx
    | ext y => simp [ancValue] at hx
theorem ancFields_mono (m m' : Entities) (hb : AttrsBelow m m') (x : EntityUID) : ∀ (c1 c2 : Fields)
    (kvs kvs' : List (String × Value)), fieldsLe c1 c2 → Le (.record kvs) (.record kvs') →
    x ∈ ancFields m c1 kvs → x ∈ ancFields m' c2 kvs'
  | [], _, _, _, _, _, hx => by simp [ancFields] at hx
  | (f, t) :: rest, c2, kvs, kvs', hle, htr, hx => by
    simp only [fieldsLe] at hle
    simp only [ancFields, List.mem_append] at hx
    rcases hx with hx | hx
    · cases hv : lookupKV kvs f with
      | none => simp [hv] at hx
      | some v =>
        simp only [hv] at hx
        obtain ⟨t2, h1, h2⟩ := hle.1
        obtain ⟨ky, v', e, hv', htv⟩ := le_lookup htr hv
        cases e
        exact mem_ancFields_of_lookup m' f t2 v' kvs' x hv' (ancValue_mono m m' hb x t t2 v v' h2 htv hx) c2 h1
    · exact ancFields_mono m m' hb x rest c2 kvs kvs' hle.2 htr hx
end

theorem mem_ancRequest_of_lookup (m : Entities) (req : Request) (root : EntityRoot) (t : AccessTrie) (x : EntityUID)
    (hx : x ∈ ancRoot m req root t) : ∀ g : RootAccessTrie, lookupRoot g root = some t → x ∈ ancRequest m req g
  | [], h => by simp [lookupRoot] at h
  | (k0, t0) :: rest, h => by
    simp only [lookupRoot] at h
    rw [ancRequest_cons, List.mem_append]
    by_cases e : (k0 == root) = true
    · simp only [e, if_true, Option.some.injEq] at h
      have e' : k0 = root := by simpa using e
      subst e'; subst h
      exact Or.inl hx
    · simp only [e, Bool.false_eq_true, if_false] at h
      exact Or.inr (mem_ancRequest_of_lookup m req root t x hx rest h)

/-- a larger ancestors trie over a larger loaded store requests more ancestors -/
theorem ancRequest_mono (m m' : Entities) (hb : AttrsBelow m m') (req : Request) (x : EntityUID) :
    ∀ (a1 a2 : RootAccessTrie), rootsLe a1 a2 → x ∈ ancRequest m req a1 → x ∈ ancRequest m' req a2
  | [], _, _, hx => by simp [ancRequest] at hx
  | (root, t) :: rest, a2, hle, hx => by
    simp only [rootsLe] at hle
    rw [ancRequest_cons, List.mem_append] at hx
    rcases hx with hx | hx
    · obtain ⟨t2, h1, h2⟩ := hle.1
      apply mem_ancRequest_of_lookup m' req root t2 x _ a2 h1
      unfold ancRoot at hx ⊢
      cases hr : rootUid req root with
      | some u =>
        simp only [hr] at hx ⊢
        exact ancValue_mono m m' hb x t t2 _ _ h2 (Le.refl _) hx
      | none =>
        simp only [hr] at hx ⊢
        obtain ⟨c1, a1, i1, e1⟩ := t
        simp only [AccessTrie.le] at h2
        exact ancFields_mono m m' hb x c1 t2.children _ _ h2.1 (Le.refl _) hx
    · exact ancRequest_mono m m' hb req x rest a2 hle.2 hx

/-- where the ancestors of an entry of `addAncestors`' result come from: the accumulator, or a processed request -/
theorem addAncestors_upper (es m : Entities) (req : Request) : ∀ (reqs : List (EntityUID × AccessTrie)) (acc : Entities)
    (x : EntityUID) (d' : EntityData), (addAncestors es m req reqs acc).find? x = some d' →
    ∃ da, acc.find? x = some da ∧ ∀ a, a ∈ d'.ancestors → a ∈ da.ancestors ∨
      ∃ t d, (x, t) ∈ reqs ∧ es.find? x = some d ∧ a ∈ ancRequest m req t.ancestors ∧ a ∈ d.ancestors
  | [], acc, x, d', h => by
    simp only [addAncestors] at h
    exact ⟨d', h, fun a ha => Or.inl ha⟩
  | (u, t) :: rest, acc, x, d', h => by
    rw [addAncestors_cons] at h
    generalize hnew : (match es.find? u with
              | some d => (ancRequest m req t.ancestors).filter (fun a => d.ancestors.contains a)
              | none => []) = new at h
    obtain ⟨da', hda', hall⟩ := addAncestors_upper es m req rest _ x d' h
    rw [find?_map_ancStep] at hda'
    cases hacc : acc.find? x with
    | none => simp [hacc] at hda'
    | some da =>
      simp only [hacc, Option.map_some, Option.some.injEq] at hda'
      refine ⟨da, rfl, ?_⟩
      intro a ha
      rcases hall a ha with h1 | ⟨t0, d, h1, h2, h3, h4⟩
      · by_cases e : x = u
        · subst e
          simp only [beq_self_eq_true, if_true] at hda'
          subst hda'
          simp only [ancStep, List.mem_append, List.mem_filter] at h1
          rcases h1 with h1 | ⟨h1, _⟩
          · exact Or.inl h1
          · right
            cases hd : es.find? x with
            | none => subst hnew; simp only [hd] at h1; simp at h1
            | some d =>
              subst hnew
              simp only [hd, List.mem_filter, List.contains_eq_mem, decide_eq_true_eq] at h1
              exact ⟨t, d, by simp, rfl, h1.1, h1.2⟩
        · have e' : (x == u) = false := by simpa using e
          simp only [e', Bool.false_eq_true, if_false] at hda'
          subst hda'
          exact Or.inl h1
      · exact Or.inr ⟨t0, d, by simp [h1], h2, h3, h4⟩

/-! ## the sliced store is monotone in the annotated trie -/

theorem sliceStorePure_mono (t t' : RootAccessTrie) (req : Request) (es : Entities) (hle : rootsLeA t t') :
    SubStore (sliceStorePure t' req es) (sliceStorePure t req es) := by
  intro u d1 hf
  simp only [sliceStorePure] at hf ⊢
  have hsub := loadAll_sub es (allRequests es req t) [] (loadedSub_nil es)
  have hbelow : AttrsBelow (loadAll es (allRequests es req t) []) (loadAll es (allRequests es req t') []) := by
    apply loadAll_below
    · intro u tr hm d hd
      obtain ⟨tr', h1, h2⟩ := allRequests_mono es req t t' hle u tr hm
      obtain ⟨d2, h3, h4⟩ := loadAll_served es (allRequests es req t') [] (loadedSub_nil es) u tr' h1 d hd
      have := h4 (.record (sliceEntity tr d).attrs) (by simp only [Trim]; exact ⟨_, rfl, sliceEntity_mono tr tr' h2 d⟩)
      simp only [Trim] at this
      obtain ⟨kvs, e, h⟩ := this
      cases e
      exact ⟨d2, h3, h⟩
    · intro u d1 h
      simp [Entities.find?] at h
  obtain ⟨da, hda, hanc⟩ := addAncestors_upper es _ req _ _ u d1 hf
  have hfind := addAncestors_find es (loadAll es (allRequests es req t) []) req (allRequests es req t)
    (loadAll es (allRequests es req t) []) u
  simp only [hda] at hfind
  obtain ⟨d1', e1, eattrs, _⟩ := hfind
  rw [hf] at e1
  cases e1
  obtain ⟨d2, hd2, htrim⟩ := hbelow u da hda
  have hfind' := addAncestors_find es (loadAll es (allRequests es req t') []) req (allRequests es req t')
    (loadAll es (allRequests es req t') []) u
  simp only [hd2] at hfind'
  obtain ⟨d2', h1', h2', _, _, h5'⟩ := hfind'
  refine ⟨d2', h1', by rw [eattrs, h2']; exact htrim, ?_⟩
  intro a ha
  rcases hanc a ha with h | ⟨t0, d, hmem, hd, hreq, had⟩
  · obtain ⟨_, _, _, h0⟩ := hsub u da hda
    rw [h0] at h; cases h
  · obtain ⟨tr', hm', hle'⟩ := allRequests_mono es req t t' hle u t0 hmem
    have hanc' : rootsLe t0.ancestors tr'.ancestors := by
      obtain ⟨c0, a0, i0, e0⟩ := t0
      simp only [AccessTrie.leA] at hle'
      exact hle'.2.1
    exact h5' tr' hm' d hd a (ancRequest_mono _ _ hbelow req a _ _ hanc' hreq) had

/-! ## executable checks of the orders (for closed examples) -/

mutual
def leB : AccessTrie → AccessTrie → Bool
  | .mk c1 a1 i1 _, t2 => fieldsLeB c1 t2.children && rootsLeB a1 t2.ancestors && (!i1 || t2.isAncestor)
def fieldsLeB : Fields → Fields → Bool
  | [], _ => true
  | (k, t) :: rest, c2 => (match lookupField c2 k with | some t2 => leB t t2 | none => false) && fieldsLeB rest c2
def rootsLeB : RootAccessTrie → RootAccessTrie → Bool
  | [], _ => true
  | (k, t) :: rest, c2 => (match lookupRoot c2 k with | some t2 => leB t t2 | none => false) && rootsLeB rest c2
end

mutual
theorem leB_sound : ∀ (t1 t2 : AccessTrie), leB t1 t2 = true → AccessTrie.le t1 t2
  | .mk c1 a1 i1 e1, t2, h => by
    simp only [leB, Bool.and_eq_true, Bool.or_eq_true, Bool.not_eq_true'] at h
    simp only [AccessTrie.le]
    refine ⟨fieldsLeB_sound c1 _ h.1.1, rootsLeB_sound a1 _ h.1.2, ?_⟩
    intro hi
    rcases h.2 with h2 | h2
    · rw [hi] at h2; cases h2
    · exact h2
theorem fieldsLeB_sound : ∀ (c1 c2 : Fields), fieldsLeB c1 c2 = true → fieldsLe c1 c2
  | [], _, _ => by simp [fieldsLe]
  | (k, t) :: rest, c2, h => by
    simp only [fieldsLeB, Bool.and_eq_true] at h
    simp only [fieldsLe]
    refine ⟨?_, fieldsLeB_sound rest c2 h.2⟩
    cases hl : lookupField c2 k with
    | none => simp [hl] at h
    | some t2 =>
      simp only [hl] at h
      exact ⟨t2, rfl, leB_sound t t2 h.1⟩
theorem rootsLeB_sound : ∀ (c1 c2 : RootAccessTrie), rootsLeB c1 c2 = true → rootsLe c1 c2
  | [], _, _ => by simp [rootsLe]
  | (k, t) :: rest, c2, h => by
    simp only [rootsLeB, Bool.and_eq_true] at h
    simp only [rootsLe]
    refine ⟨?_, rootsLeB_sound rest c2 h.2⟩
    cases hl : lookupRoot c2 k with
    | none => simp [hl] at h
    | some t2 =>
      simp only [hl] at h
      exact ⟨t2, rfl, leB_sound t t2 h.1⟩
end

mutual
def flagsAgreeB : AccessTrie → AccessTrie → Bool
  | .mk c1 _ _ e1, t2 => (!t2.isEntity || e1) && fieldsAgreeB c1 t2.children
def fieldsAgreeB : Fields → Fields → Bool
  | [], _ => true
  | (k, t) :: rest, c2 => (match lookupField c2 k with | some t2 => flagsAgreeB t t2 | none => true) && fieldsAgreeB rest c2
end

def flagsAgreeRootsB : RootAccessTrie → RootAccessTrie → Bool
  | [], _ => true
  | (k, t) :: rest, c2 => (match lookupRoot c2 k with | some t2 => flagsAgreeB t t2 | none => true) && flagsAgreeRootsB rest c2

mutual
theorem flagsAgreeB_sound : ∀ (t1 t2 : AccessTrie), flagsAgreeB t1 t2 = true → FlagsAgree t1 t2
  | .mk c1 a1 i1 e1, t2, h => by
    simp only [flagsAgreeB, Bool.and_eq_true, Bool.or_eq_true, Bool.not_eq_true'] at h
    simp only [FlagsAgree]
    refine ⟨?_, fieldsAgreeB_sound c1 _ h.2⟩
    intro he
    rcases h.1 with h1 | h1
    · rw [he] at h1; cases h1
    · exact h1
theorem fieldsAgreeB_sound : ∀ (c1 c2 : Fields), fieldsAgreeB c1 c2 = true → fieldsAgree c1 c2
  | [], _, _ => by simp [fieldsAgree]
  | (k, t) :: rest, c2, h => by
    simp only [fieldsAgreeB, Bool.and_eq_true] at h
    simp only [fieldsAgree]
    refine ⟨?_, fieldsAgreeB_sound rest c2 h.2⟩
    intro t2 hl
    simp only [hl] at h
    exact flagsAgreeB_sound t t2 h.1
end

theorem flagsAgreeRootsB_sound : ∀ (c1 c2 : RootAccessTrie), flagsAgreeRootsB c1 c2 = true → FlagsAgreeRoots c1 c2
  | [], _, _ => by simp [FlagsAgreeRoots]
  | (k, t) :: rest, c2, h => by
    simp only [flagsAgreeRootsB, Bool.and_eq_true] at h
    simp only [FlagsAgreeRoots]
    refine ⟨?_, flagsAgreeRootsB_sound rest c2 h.2⟩
    intro t2 hl
    simp only [hl] at h
    exact flagsAgreeB_sound t t2 h.1

end Cedar.Manifest
