import CedarVerif.Cedar.NoPanic.Dispatch
/-
C20 lemmas for `Cedar/NoPanic/Dispatch.lean`: the two-level dispatch computes `applyBinary` (so none of the three
`unreachable!` arms is reached from the evaluator), and the exact conditions under which the public helpers panic when
called directly.
-/
namespace Cedar
namespace NoPanic

theorem asInt_cases (v : Value) : (∃ i, v = .prim (.int i) ∧ v.asInt = .ok i) ∨ v.asInt = .error .type := by
  cases v with
  | prim p => cases p <;> simp [Value.asInt]
  | set _ => simp [Value.asInt]
  | record _ => simp [Value.asInt]
  | ext _ => simp [Value.asInt]

theorem binaryArith_eq (es : Entities) (op : BinaryOp) (h : op = .add ∨ op = .sub ∨ op = .mul) (v1 v2 : Value) :
    binaryArith op v1 v2 = .ret (applyBinary es op v1 v2) := by
  unfold binaryArith
  rcases asInt_cases v1 with ⟨i1, _, h1⟩ | h1 <;> rcases asInt_cases v2 with ⟨i2, _, h2⟩ | h2 <;>
    rcases h with rfl | rfl | rfl <;> simp [h1, h2, applyBinary, bind, Except.bind]

theorem tagArm_eq (es : Entities) (op : BinaryOp) (h : op = .getTag ∨ op = .hasTag) (v1 v2 : Value) :
    tagArm es op v1 v2 = .ret (applyBinary es op v1 v2) := by
  unfold tagArm
  cases h1 : v1.asEntity <;> cases h2 : v2.asString <;>
    rcases h with rfl | rfl <;> simp [h1, h2, applyBinary, bind, Except.bind]
  all_goals
    rename_i u t
    cases es.find? u with
    | none => rfl
    | some d => simp only []; try (cases lookupKV d.tags t <;> rfl)

theorem binaryRelation_eq (es : Entities) (op : BinaryOp) (h : op = .eq ∨ op = .less ∨ op = .lessEq) (v1 v2 : Value) :
    binaryRelation op v1 v2 = .ret (applyBinary es op v1 v2) := by
  have hb : (BinaryOp.lessEq == BinaryOp.less) = false := by decide
  rcases h with rfl | rfl | rfl <;> simp [binaryRelation, applyBinary, hb]

theorem binaryDispatch_eq (es : Entities) (op : BinaryOp) (v1 v2 : Value) :
    binaryDispatch es op v1 v2 = .ret (applyBinary es op v1 v2) := by
  cases op
  case eq => exact binaryRelation_eq es .eq (by simp) v1 v2
  case less => exact binaryRelation_eq es .less (by simp) v1 v2
  case lessEq => exact binaryRelation_eq es .lessEq (by simp) v1 v2
  case add => exact binaryArith_eq es .add (by simp) v1 v2
  case sub => exact binaryArith_eq es .sub (by simp) v1 v2
  case mul => exact binaryArith_eq es .mul (by simp) v1 v2
  case mem => rfl
  case contains => rfl
  case containsAll => rfl
  case containsAny => rfl
  case getTag => exact tagArm_eq es .getTag (by simp) v1 v2
  case hasTag => exact tagArm_eq es .hasTag (by simp) v1 v2

theorem binaryRelation_panics_iff' (op : BinaryOp) (v1 v2 : Value) :
    (∃ site, binaryRelation op v1 v2 = .panic site) ↔ (op ≠ .eq ∧ op ≠ .less ∧ op ≠ .lessEq) := by
  cases op <;> simp [binaryRelation]

theorem binaryArith_panics_iff' (op : BinaryOp) (v1 v2 : Value) :
    (∃ site, binaryArith op v1 v2 = .panic site) ↔
      ((op ≠ .add ∧ op ≠ .sub ∧ op ≠ .mul) ∧ ∃ i1 i2, v1 = .prim (.int i1) ∧ v2 = .prim (.int i2)) := by
  unfold binaryArith
  rcases asInt_cases v1 with ⟨i1, rfl, h1⟩ | h1
  · rcases asInt_cases v2 with ⟨i2, rfl, h2⟩ | h2
    · simp only [h1, h2]
      cases op <;> simp
    · simp only [h1, h2]
      constructor
      · rintro ⟨_, h⟩; cases h
      · rintro ⟨_, _, _, _, rfl⟩; simp [Value.asInt] at h2
  · simp only [h1]
    constructor
    · rintro ⟨_, h⟩; cases h
    · rintro ⟨_, _, _, rfl, _⟩; simp [Value.asInt] at h1

end NoPanic
end Cedar
