import CedarVerif.Lemmas.PartialSound
/- Second-pass congruence lemmas: interpreting a compound residual (with the mapper) agrees with the concrete
   evaluation of the original compound expression as soon as the components agree. -/
namespace Cedar

@[simp] theorem Sem_fuel (y : Result Value) : Sem .fuel y ↔ True := by simp [Sem]
@[simp] theorem Sem_panic (y : Result Value) : Sem .panic y ↔ True := by simp [Sem]
@[simp] theorem Sem_val_ok (v w : Value) : Sem (.val v) (.ok w) ↔ v = w := by
  simp [Sem]; constructor <;> intro h <;> simp [h]
@[simp] theorem Sem_val_error (v : Value) (c : ErrClass) : Sem (.val v) (.error c) ↔ False := by simp [Sem]
@[simp] theorem Sem_err_error (c c' : ErrClass) : Sem (.err c) (.error c') ↔ True := by simp [Sem]
@[simp] theorem Sem_err_ok (c : ErrClass) (v : Value) : Sem (.err c) (.ok v) ↔ False := by simp [Sem]
@[simp] theorem Sem_res (r : Expr) (y : Result Value) : Sem (.res r) y ↔ False := by
  simp only [iff_false]; exact Sem.not_res
@[simp] theorem Sem_ofResult (y : Result Value) : Sem (PRes.ofResult y) y ↔ True := by
  simp only [iff_true]; exact Sem.ofResult y

theorem applyBinary_storeFree (es : Entities) (op : BinaryOp) (h : op.storeFree = true) (v1 v2 : Value) :
    applyBinary [] op v1 v2 = applyBinary es op v1 v2 := by
  cases op <;> simp [BinaryOp.storeFree] at h <;> rfl

theorem papplyBinary_storeFree (pes : PEntities) (es : Entities) (op : BinaryOp) (h : op.storeFree = true) (v1 v2 : Value) :
    papplyBinary pes op v1 v2 = PRes.ofResult (applyBinary es op v1 v2) := by
  rw [← applyBinary_storeFree es op h]
  cases op <;> simp [BinaryOp.storeFree] at h <;> rfl

section
variable (m : Mapper) (preq : PRequest) (pes : PEntities) (env : SlotEnv) (req : Request) (es : Entities)

theorem sem_and {a b l X : Expr}
    (h1 : ∀ n, Sem (pinterp m preq pes env n l) (evaluate req es env a))
    (h2 : ∀ n, Sem (pinterp m preq pes env n X) (evaluate req es env b)) :
    ∀ n, Sem (pinterp m preq pes env n (.and l X)) (evaluate req es env (.and a b)) := by
  intro n
  cases n with
  | zero => simp [pinterp]
  | succ n =>
    simp only [pinterp, evaluate]
    rcases h1 n with hx | hx | ⟨v, hx, hy⟩ | ⟨c, c', hx, hy⟩
    · simp [hx]
    · simp [hx]
    · rw [hx, hy]
      cases hb : v.asBool with
      | error c => simp [hb]
      | ok bv =>
        cases bv with
        | false => simp [hb]
        | true =>
          rcases h2 n with hx2 | hx2 | ⟨w, hx2, hy2⟩ | ⟨c, c', hx2, hy2⟩
          · simp [hb, hx2]
          · simp [hb, hx2]
          · cases hw : w.asBool <;> simp [hb, hx2, hy2, hw]
          · simp [hb, hx2, hy2]
    · simp [hx, hy]

theorem sem_or {a b l X : Expr}
    (h1 : ∀ n, Sem (pinterp m preq pes env n l) (evaluate req es env a))
    (h2 : ∀ n, Sem (pinterp m preq pes env n X) (evaluate req es env b)) :
    ∀ n, Sem (pinterp m preq pes env n (.or l X)) (evaluate req es env (.or a b)) := by
  intro n
  cases n with
  | zero => simp [pinterp]
  | succ n =>
    simp only [pinterp, evaluate]
    rcases h1 n with hx | hx | ⟨v, hx, hy⟩ | ⟨c, c', hx, hy⟩
    · simp [hx]
    · simp [hx]
    · rw [hx, hy]
      cases hb : v.asBool with
      | error c => simp [hb]
      | ok bv =>
        cases bv with
        | true => simp [hb]
        | false =>
          rcases h2 n with hx2 | hx2 | ⟨w, hx2, hy2⟩ | ⟨c, c', hx2, hy2⟩
          · simp [hb, hx2]
          · simp [hb, hx2]
          · cases hw : w.asBool <;> simp [hb, hx2, hy2, hw]
          · simp [hb, hx2, hy2]
    · simp [hx, hy]

theorem sem_ite {c t e g T E : Expr}
    (h1 : ∀ n, Sem (pinterp m preq pes env n g) (evaluate req es env c))
    (h2 : ∀ n, Sem (pinterp m preq pes env n T) (evaluate req es env t))
    (h3 : ∀ n, Sem (pinterp m preq pes env n E) (evaluate req es env e)) :
    ∀ n, Sem (pinterp m preq pes env n (.ite g T E)) (evaluate req es env (.ite c t e)) := by
  intro n
  cases n with
  | zero => simp [pinterp]
  | succ n =>
    simp only [pinterp, evaluate]
    rcases h1 n with hx | hx | ⟨v, hx, hy⟩ | ⟨c, c', hx, hy⟩
    · simp [hx]
    · simp [hx]
    · rw [hx, hy]
      cases hb : v.asBool with
      | error c => simp [hb]
      | ok bv =>
        cases bv with
        | true => simpa [hb] using h2 n
        | false => simpa [hb] using h3 n
    · simp [hx, hy]

theorem sem_unary (op : UnaryOp) {a l : Expr}
    (h1 : ∀ n, Sem (pinterp m preq pes env n l) (evaluate req es env a)) :
    ∀ n, Sem (pinterp m preq pes env n (.unaryApp op l)) (evaluate req es env (.unaryApp op a)) := by
  intro n
  cases n with
  | zero => simp [pinterp]
  | succ n =>
    simp only [pinterp, evaluate]
    rcases h1 n with hx | hx | ⟨v, hx, hy⟩ | ⟨c, c', hx, hy⟩
    · simp [hx]
    · simp [hx]
    · simp [hx, hy]
    · simp [hx, hy]

theorem sem_like (p : Pattern) {a l : Expr}
    (h1 : ∀ n, Sem (pinterp m preq pes env n l) (evaluate req es env a)) :
    ∀ n, Sem (pinterp m preq pes env n (.like l p)) (evaluate req es env (.like a p)) := by
  intro n
  cases n with
  | zero => simp [pinterp]
  | succ n =>
    simp only [pinterp, evaluate]
    rcases h1 n with hx | hx | ⟨v, hx, hy⟩ | ⟨c, c', hx, hy⟩
    · simp [hx]
    · simp [hx]
    · cases hs : v.asString <;> simp [hx, hy, hs]
    · simp [hx, hy]

theorem sem_is (ty : EntityType) {a l : Expr}
    (h1 : ∀ n, Sem (pinterp m preq pes env n l) (evaluate req es env a)) :
    ∀ n, Sem (pinterp m preq pes env n (.is l ty)) (evaluate req es env (.is a ty)) := by
  intro n
  cases n with
  | zero => simp [pinterp]
  | succ n =>
    simp only [pinterp, evaluate]
    rcases h1 n with hx | hx | ⟨v, hx, hy⟩ | ⟨c, c', hx, hy⟩
    · simp [hx]
    · simp [hx]
    · cases hs : v.asEntity <;> simp [hx, hy, hs]
    · simp [hx, hy]

end

theorem tags_ofConcrete (d : EntityData) (a : String) :
    lookupKV (PEntityData.ofConcrete d).tags a = (lookupKV d.tags a).map PartialValue.value := by
  simp only [PEntityData.ofConcrete, lookupKV_map_value]

theorem papplyBinary_ofConcrete (es : Entities) (op : BinaryOp) (v1 v2 : Value) :
    papplyBinary (.ofConcrete es) op v1 v2 = PRes.ofResult (applyBinary es op v1 v2) := by
  cases hop : op.storeFree with
  | true => exact papplyBinary_storeFree _ es op hop v1 v2
  | false =>
    cases op <;> simp [BinaryOp.storeFree] at hop
    · -- mem
      simp only [papplyBinary, applyBinary, bind, Except.bind]
      cases h1 : v1.asEntity with
      | error c => rfl
      | ok u1 =>
        simp only [entity_ofConcrete]
        cases hf : es.find? u1 with
        | none =>
          cases v2 with
          | prim p => cases p <;> simp [evalIn, PRes.ofResult, inE, hf]
          | set vs => cases hl : asEntityList vs <;> simp [evalIn, PRes.ofResult, inE, hf, hl]
          | record kvs => simp [evalIn, PRes.ofResult]
          | ext x => simp [evalIn, PRes.ofResult]
        | some d =>
          cases v2 with
          | prim p => cases p <;> simp [evalIn, PRes.ofResult, inE, hf, PEntityData.ofConcrete]
          | set vs => cases hl : asEntityList vs <;> simp [evalIn, PRes.ofResult, inE, hf, hl, PEntityData.ofConcrete]
          | record kvs => simp [evalIn, PRes.ofResult]
          | ext x => simp [evalIn, PRes.ofResult]
    · -- getTag
      simp only [papplyBinary, applyBinary, bind, Except.bind]
      cases h1 : v1.asEntity with
      | error c => rfl
      | ok u =>
        cases h2 : v2.asString with
        | error c => rfl
        | ok t =>
          simp only [entity_ofConcrete]
          cases hf : es.find? u with
          | none => rfl
          | some d =>
            simp only [tags_ofConcrete]
            cases hl : lookupKV d.tags t <;> simp [PRes.ofPV, PRes.ofResult]
    · -- hasTag
      simp only [papplyBinary, applyBinary, bind, Except.bind]
      cases h1 : v1.asEntity with
      | error c => rfl
      | ok u =>
        cases h2 : v2.asString with
        | error c => rfl
        | ok t =>
          simp only [entity_ofConcrete]
          cases hf : es.find? u with
          | none => rfl
          | some d => simp [tags_ofConcrete, PRes.ofResult]

section
variable (m : Mapper) (preq : PRequest) (env : SlotEnv) (req : Request) (es : Entities)

theorem attrs_ofConcrete (d : EntityData) (a : String) :
    lookupKV (PEntityData.ofConcrete d).attrs a = (lookupKV d.attrs a).map PartialValue.value := by
  simp only [PEntityData.ofConcrete, lookupKV_map_value]

theorem sem_binary (op : BinaryOp) {a b l X : Expr}
    (h1 : ∀ n, Sem (pinterp m preq (.ofConcrete es) env n l) (evaluate req es env a))
    (h2 : ∀ n, Sem (pinterp m preq (.ofConcrete es) env n X) (evaluate req es env b)) :
    ∀ n, Sem (pinterp m preq (.ofConcrete es) env n (.binaryApp op l X)) (evaluate req es env (.binaryApp op a b)) := by
  intro n
  cases n with
  | zero => simp [pinterp]
  | succ n =>
    simp only [pinterp, evaluate]
    rcases h1 n with hx | hx | ⟨v, hx, hy⟩ | ⟨c, c', hx, hy⟩
    · simp [hx]
    · simp [hx]
    · rw [hx, hy]
      rcases h2 n with hx2 | hx2 | ⟨w, hx2, hy2⟩ | ⟨c, c', hx2, hy2⟩
      · simp [hx2]
      · simp [hx2]
      · simp [hx2, hy2, papplyBinary_ofConcrete]
      · simp [hx2, hy2]
    · simp [hx, hy]

theorem sem_getAttr (attr : String) {a l : Expr}
    (h1 : ∀ n, Sem (pinterp m preq (.ofConcrete es) env n l) (evaluate req es env a)) :
    ∀ n, Sem (pinterp m preq (.ofConcrete es) env n (.getAttr l attr)) (evaluate req es env (.getAttr a attr)) := by
  intro n
  cases n with
  | zero => simp [pinterp]
  | succ n =>
    simp only [pinterp, evaluate]
    rcases h1 n with hx | hx | ⟨v, hx, hy⟩ | ⟨c, c', hx, hy⟩
    · simp [hx]
    · simp [hx]
    · rw [hx, hy]
      cases v with
      | set vs => simp
      | ext x => simp
      | record kvs => cases hl : lookupKV kvs attr <;> simp [hl]
      | prim p =>
        cases p with
        | bool b => simp
        | int i => simp
        | string s => simp
        | entityUID u =>
          cases hf : es.find? u with
          | none => simp [entity_ofConcrete, hf]
          | some d => cases hl : lookupKV d.attrs attr <;> simp [entity_ofConcrete, hf, attrs_ofConcrete, hl]
    · simp [hx, hy]

theorem sem_hasAttr (attr : String) {a l : Expr}
    (h1 : ∀ n, Sem (pinterp m preq (.ofConcrete es) env n l) (evaluate req es env a)) :
    ∀ n, Sem (pinterp m preq (.ofConcrete es) env n (.hasAttr l attr)) (evaluate req es env (.hasAttr a attr)) := by
  intro n
  cases n with
  | zero => simp [pinterp]
  | succ n =>
    simp only [pinterp, evaluate]
    rcases h1 n with hx | hx | ⟨v, hx, hy⟩ | ⟨c, c', hx, hy⟩
    · simp [hx]
    · simp [hx]
    · rw [hx, hy]
      cases v with
      | set vs => simp
      | ext x => simp
      | record kvs => simp
      | prim p =>
        cases p with
        | bool b => simp
        | int i => simp
        | string s => simp
        | entityUID u =>
          cases hf : es.find? u with
          | none => simp [entity_ofConcrete, hf]
          | some d => simp [entity_ofConcrete, hf, attrs_ofConcrete]
    · simp [hx, hy]

end


/-! ### lists of residuals (set / call constructors) -/

/-- pointwise relation of two lists of equal length -/
inductive ListRel {α β : Type} (R : α → β → Prop) : List α → List β → Prop
  | nil : ListRel R [] []
  | cons {a : α} {b : β} {as : List α} {bs : List β} : R a b → ListRel R as bs → ListRel R (a :: as) (b :: bs)

theorem splitPV_values (vs : List Value) : splitPV (vs.map PartialValue.value) = .inl vs := by
  induction vs with
  | nil => rfl
  | cons v vs ih => simp [splitPV, ih]

theorem pcallExt_ne_unknown {fn : String} (h : fn ≠ "unknown") (vs : List Value) :
    pcallExt fn vs = PRes.ofResult (callExt fn vs) := by
  simp [pcallExt, h]

section
variable (m : Mapper) (preq : PRequest) (env : SlotEnv) (req : Request) (es : Entities)

/-- what collecting the second-pass interpretations of a list of residuals yields -/
def CollectOK (xs : List Expr) (c : Except PRes (List PartialValue)) : Prop :=
  match c with
  | .error r => r = .fuel ∨ r = .panic ∨ (∃ c, r = .err c ∧ ∃ c', evaluateList req es env xs = .error c')
  | .ok pvs => ∃ vs, pvs = vs.map PartialValue.value ∧ evaluateList req es env xs = .ok vs

theorem sem_collect {rs xs : List Expr}
    (h : ListRel (fun r x => ∀ n, Sem (pinterp m preq (.ofConcrete es) env n r) (evaluate req es env x)) rs xs)
    (n : Nat) : CollectOK env req es xs (collectPV (pinterp m preq (.ofConcrete es) env n) rs) := by
  induction h with
  | nil => exact ⟨[], rfl, rfl⟩
  | @cons r x rs xs hrx _ ih =>
    simp only [collectPV]
    rcases hrx n with hx | hx | ⟨v, hx, hy⟩ | ⟨c, c', hx, hy⟩
    · rw [hx]; exact Or.inl rfl
    · rw [hx]; exact Or.inr (Or.inl rfl)
    · rw [hx]
      simp only
      cases hc : collectPV (pinterp m preq (.ofConcrete es) env n) rs with
      | error r' =>
        rw [hc] at ih
        simp only [Except.map]
        rcases ih with h | h | ⟨c, hc1, c', hc2⟩
        · exact Or.inl h
        · exact Or.inr (Or.inl h)
        · exact Or.inr (Or.inr ⟨c, hc1, c', by simp [evaluateList, hy, hc2]⟩)
      | ok pvs =>
        rw [hc] at ih
        obtain ⟨vs, hp, he⟩ := ih
        simp only [Except.map]
        exact ⟨v :: vs, by simp [hp], by simp [evaluateList, hy, he]⟩
    · rw [hx]
      exact Or.inr (Or.inr ⟨c, rfl, c', by simp [evaluateList, hy]⟩)

theorem sem_set {rs xs : List Expr}
    (h : ListRel (fun r x => ∀ n, Sem (pinterp m preq (.ofConcrete es) env n r) (evaluate req es env x)) rs xs) :
    ∀ n, Sem (pinterp m preq (.ofConcrete es) env n (.set rs)) (evaluate req es env (.set xs)) := by
  intro n
  cases n with
  | zero => simp [pinterp]
  | succ n =>
    have hc := sem_collect m preq env req es h n
    simp only [pinterp, evaluate]
    cases hcc : collectPV (pinterp m preq (.ofConcrete es) env n) rs with
    | error r =>
      rw [hcc] at hc
      rcases hc with h | h | ⟨c, h1, c', h2⟩
      · simp [h]
      · simp [h]
      · simp [h1, h2]
    | ok pvs =>
      rw [hcc] at hc
      obtain ⟨vs, hp, he⟩ := hc
      simp [hp, splitPV_values, he]

theorem sem_call {fn : String} (hfn : fn ≠ "unknown") {rs xs : List Expr}
    (h : ListRel (fun r x => ∀ n, Sem (pinterp m preq (.ofConcrete es) env n r) (evaluate req es env x)) rs xs) :
    ∀ n, Sem (pinterp m preq (.ofConcrete es) env n (.call fn rs)) (evaluate req es env (.call fn xs)) := by
  intro n
  cases n with
  | zero => simp [pinterp]
  | succ n =>
    have hc := sem_collect m preq env req es h n
    simp only [pinterp, evaluate]
    cases hcc : collectPV (pinterp m preq (.ofConcrete es) env n) rs with
    | error r =>
      rw [hcc] at hc
      rcases hc with h | h | ⟨c, h1, c', h2⟩
      · simp [h]
      · simp [h]
      · simp [h1, h2]
    | ok pvs =>
      rw [hcc] at hc
      obtain ⟨vs, hp, he⟩ := hc
      simp [hp, splitPV_values, he, pcallExt_ne_unknown hfn]

theorem zip_fst_snd {α β : Type} (l : List (α × β)) : (l.map Prod.fst).zip (l.map Prod.snd) = l := by
  induction l with
  | nil => rfl
  | cons a l ih => simp [ih]

/-- what collecting the second-pass interpretations of the components of a residual record yields -/
def CollectKVOK (kvs : List (String × Expr)) (c : Except PRes (List (String × PartialValue))) : Prop :=
  match c with
  | .error r => r = .fuel ∨ r = .panic ∨ (∃ c, r = .err c ∧ ∃ c', evaluateKVs req es env kvs = .error c')
  | .ok pkvs => ∃ vs : List (String × Value),
      pkvs = vs.map (fun kv => (kv.1, PartialValue.value kv.2)) ∧ evaluateKVs req es env kvs = .ok vs

theorem sem_collectKVs {rkvs kvs : List (String × Expr)}
    (h : ListRel (fun rk xk => rk.1 = xk.1 ∧
      ∀ n, Sem (pinterp m preq (.ofConcrete es) env n rk.2) (evaluate req es env xk.2)) rkvs kvs)
    (n : Nat) : CollectKVOK env req es kvs (collectPVKVs (pinterp m preq (.ofConcrete es) env n) rkvs) := by
  induction h with
  | nil => exact ⟨[], rfl, rfl⟩
  | @cons rk xk rkvs kvs hrx _ ih =>
    obtain ⟨k, r⟩ := rk
    obtain ⟨k', x⟩ := xk
    obtain ⟨hk, hrx⟩ := hrx
    simp only at hk hrx
    subst hk
    simp only [collectPVKVs]
    rcases hrx n with hx | hx | ⟨v, hx, hy⟩ | ⟨c, c', hx, hy⟩
    · rw [hx]; exact Or.inl rfl
    · rw [hx]; exact Or.inr (Or.inl rfl)
    · rw [hx]
      simp only
      cases hc : collectPVKVs (pinterp m preq (.ofConcrete es) env n) rkvs with
      | error r' =>
        rw [hc] at ih
        simp only [Except.map]
        rcases ih with h | h | ⟨c, hc1, c', hc2⟩
        · exact Or.inl h
        · exact Or.inr (Or.inl h)
        · exact Or.inr (Or.inr ⟨c, hc1, c', by simp [evaluateKVs, hy, hc2]⟩)
      | ok pvs =>
        rw [hc] at ih
        obtain ⟨vs, hp, he⟩ := ih
        simp only [Except.map]
        exact ⟨(k, v) :: vs, by simp [hp], by simp [evaluateKVs, hy, he]⟩
    · rw [hx]
      exact Or.inr (Or.inr ⟨c, rfl, c', by simp [evaluateKVs, hy]⟩)

theorem sem_record {rkvs kvs : List (String × Expr)}
    (h : ListRel (fun rk xk => rk.1 = xk.1 ∧
      ∀ n, Sem (pinterp m preq (.ofConcrete es) env n rk.2) (evaluate req es env xk.2)) rkvs kvs) :
    ∀ n, Sem (pinterp m preq (.ofConcrete es) env n (.record rkvs)) (evaluate req es env (.record kvs)) := by
  intro n
  cases n with
  | zero => simp [pinterp]
  | succ n =>
    have hc := sem_collectKVs m preq env req es h n
    simp only [pinterp, evaluate]
    cases hcc : collectPVKVs (pinterp m preq (.ofConcrete es) env n) rkvs with
    | error r =>
      rw [hcc] at hc
      rcases hc with h | h | ⟨c, h1, c', h2⟩
      · simp [h]
      · simp [h]
      · simp [h1, h2]
    | ok pkvs =>
      rw [hcc] at hc
      obtain ⟨vs, hp, he⟩ := hc
      have h1 : pkvs.map (·.2) = (vs.map Prod.snd).map PartialValue.value := by
        rw [hp]; simp [List.map_map, Function.comp_def]
      have h2 : pkvs.map (·.1) = vs.map Prod.fst := by
        rw [hp]; simp [List.map_map, Function.comp_def]
      simp only [h1, h2, splitPV_values, he, zip_fst_snd]
      simp

end

end Cedar
