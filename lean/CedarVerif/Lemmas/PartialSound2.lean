import CedarVerif.Lemmas.PartialSound
/- Second-pass congruence lemmas: interpreting a compound residual (with the mapper) agrees with the concrete
   evaluation of the original compound expression as soon as the components agree. -/
namespace Cedar

@[simp] theorem Sem_fuel (y : Result Value) : Sem .fuel y ↔ True := by simp [Sem]
@[simp] theorem Sem_panic (y : Result Value) : Sem .panic y ↔ True := by simp [Sem]
@[simp] theorem Sem_val_ok (v w : Value) : Sem (.val v) (.ok w) ↔ v = w := by
  simp [Sem]; constructor <;> intro h <;> simp [h]
@[simp] theorem Sem_val_error (v : Value) (c : ErrClass) : Sem (.val v) (.error c) ↔ False := by simp [Sem]
@[simp] theorem Sem_err_error (c c' : ErrClass) : Sem (.err c) (.error c') ↔ True := by simp [Sem]
@[simp] theorem Sem_err_ok (c : ErrClass) (v : Value) : Sem (.err c) (.ok v) ↔ False := by simp [Sem]
@[simp] theorem Sem_res (r : Expr) (y : Result Value) : Sem (.res r) y ↔ False := by
  simp only [iff_false]; exact Sem.not_res
@[simp] theorem Sem_ofResult (y : Result Value) : Sem (PRes.ofResult y) y ↔ True := by
  simp only [iff_true]; exact Sem.ofResult y

theorem applyBinary_storeFree (es : Entities) (op : BinaryOp) (h : op.storeFree = true) (v1 v2 : Value) :
    applyBinary [] op v1 v2 = applyBinary es op v1 v2 := by
  cases op <;> simp [BinaryOp.storeFree] at h <;> rfl

theorem papplyBinary_storeFree (pes : PEntities) (es : Entities) (op : BinaryOp) (h : op.storeFree = true) (v1 v2 : Value) :
    papplyBinary pes op v1 v2 = PRes.ofResult (applyBinary es op v1 v2) := by
  rw [← applyBinary_storeFree es op h]
  cases op <;> simp [BinaryOp.storeFree] at h <;> rfl

section
variable (m : Mapper) (preq : PRequest) (pes : PEntities) (env : SlotEnv) (req : Request) (es : Entities)

theorem sem_and {a b l X : Expr}
    (h1 : ∀ n, Sem (pinterp m preq pes env n l) (evaluate req es env a))
    (h2 : ∀ n, Sem (pinterp m preq pes env n X) (evaluate req es env b)) :
    ∀ n, Sem (pinterp m preq pes env n (.and l X)) (evaluate req es env (.and a b)) := by
  intro n
  cases n with
  | zero => simp [pinterp]
  | succ n =>
    simp only [pinterp, evaluate]
    rcases h1 n with hx | hx | ⟨v, hx, hy⟩ | ⟨c, c', hx, hy⟩
    · simp [hx]
    · simp [hx]
    · rw [hx, hy]
      cases hb : v.asBool with
      | error c => simp [hb]
      | ok bv =>
        cases bv with
        | false => simp [hb]
        | true =>
          rcases h2 n with hx2 | hx2 | ⟨w, hx2, hy2⟩ | ⟨c, c', hx2, hy2⟩
          · simp [hb, hx2]
          · simp [hb, hx2]
          · cases hw : w.asBool <;> simp [hb, hx2, hy2, hw]
          · simp [hb, hx2, hy2]
    · simp [hx, hy]

theorem sem_or {a b l X : Expr}
    (h1 : ∀ n, Sem (pinterp m preq pes env n l) (evaluate req es env a))
    (h2 : ∀ n, Sem (pinterp m preq pes env n X) (evaluate req es env b)) :
    ∀ n, Sem (pinterp m preq pes env n (.or l X)) (evaluate req es env (.or a b)) := by
  intro n
  cases n with
  | zero => simp [pinterp]
  | succ n =>
    simp only [pinterp, evaluate]
    rcases h1 n with hx | hx | ⟨v, hx, hy⟩ | ⟨c, c', hx, hy⟩
    · simp [hx]
    · simp [hx]
    · rw [hx, hy]
      cases hb : v.asBool with
      | error c => simp [hb]
      | ok bv =>
        cases bv with
        | true => simp [hb]
        | false =>
          rcases h2 n with hx2 | hx2 | ⟨w, hx2, hy2⟩ | ⟨c, c', hx2, hy2⟩
          · simp [hb, hx2]
          · simp [hb, hx2]
          · cases hw : w.asBool <;> simp [hb, hx2, hy2, hw]
          · simp [hb, hx2, hy2]
    · simp [hx, hy]

theorem sem_ite {c t e g T E : Expr}
    (h1 : ∀ n, Sem (pinterp m preq pes env n g) (evaluate req es env c))
    (h2 : ∀ n, Sem (pinterp m preq pes env n T) (evaluate req es env t))
    (h3 : ∀ n, Sem (pinterp m preq pes env n E) (evaluate req es env e)) :
    ∀ n, Sem (pinterp m preq pes env n (.ite g T E)) (evaluate req es env (.ite c t e)) := by
  intro n
  cases n with
  | zero => simp [pinterp]
  | succ n =>
    simp only [pinterp, evaluate]
    rcases h1 n with hx | hx | ⟨v, hx, hy⟩ | ⟨c, c', hx, hy⟩
    · simp [hx]
    · simp [hx]
    · rw [hx, hy]
      cases hb : v.asBool with
      | error c => simp [hb]
      | ok bv =>
        cases bv with
        | true => simpa [hb] using h2 n
        | false => simpa [hb] using h3 n
    · simp [hx, hy]

theorem sem_unary (op : UnaryOp) {a l : Expr}
    (h1 : ∀ n, Sem (pinterp m preq pes env n l) (evaluate req es env a)) :
    ∀ n, Sem (pinterp m preq pes env n (.unaryApp op l)) (evaluate req es env (.unaryApp op a)) := by
  intro n
  cases n with
  | zero => simp [pinterp]
  | succ n =>
    simp only [pinterp, evaluate]
    rcases h1 n with hx | hx | ⟨v, hx, hy⟩ | ⟨c, c', hx, hy⟩
    · simp [hx]
    · simp [hx]
    · simp [hx, hy]
    · simp [hx, hy]

theorem sem_binary (op : BinaryOp) (hop : op.storeFree = true) {a b l X : Expr}
    (h1 : ∀ n, Sem (pinterp m preq pes env n l) (evaluate req es env a))
    (h2 : ∀ n, Sem (pinterp m preq pes env n X) (evaluate req es env b)) :
    ∀ n, Sem (pinterp m preq pes env n (.binaryApp op l X)) (evaluate req es env (.binaryApp op a b)) := by
  intro n
  cases n with
  | zero => simp [pinterp]
  | succ n =>
    simp only [pinterp, evaluate]
    rcases h1 n with hx | hx | ⟨v, hx, hy⟩ | ⟨c, c', hx, hy⟩
    · simp [hx]
    · simp [hx]
    · rw [hx, hy]
      rcases h2 n with hx2 | hx2 | ⟨w, hx2, hy2⟩ | ⟨c, c', hx2, hy2⟩
      · simp [hx2]
      · simp [hx2]
      · simp [hx2, hy2, papplyBinary_storeFree pes es op hop]
      · simp [hx2, hy2]
    · simp [hx, hy]

theorem sem_like (p : Pattern) {a l : Expr}
    (h1 : ∀ n, Sem (pinterp m preq pes env n l) (evaluate req es env a)) :
    ∀ n, Sem (pinterp m preq pes env n (.like l p)) (evaluate req es env (.like a p)) := by
  intro n
  cases n with
  | zero => simp [pinterp]
  | succ n =>
    simp only [pinterp, evaluate]
    rcases h1 n with hx | hx | ⟨v, hx, hy⟩ | ⟨c, c', hx, hy⟩
    · simp [hx]
    · simp [hx]
    · cases hs : v.asString <;> simp [hx, hy, hs]
    · simp [hx, hy]

theorem sem_is (ty : EntityType) {a l : Expr}
    (h1 : ∀ n, Sem (pinterp m preq pes env n l) (evaluate req es env a)) :
    ∀ n, Sem (pinterp m preq pes env n (.is l ty)) (evaluate req es env (.is a ty)) := by
  intro n
  cases n with
  | zero => simp [pinterp]
  | succ n =>
    simp only [pinterp, evaluate]
    rcases h1 n with hx | hx | ⟨v, hx, hy⟩ | ⟨c, c', hx, hy⟩
    · simp [hx]
    · simp [hx]
    · cases hs : v.asEntity <;> simp [hx, hy, hs]
    · simp [hx, hy]

end

section
variable (m : Mapper) (preq : PRequest) (env : SlotEnv) (req : Request) (es : Entities)

theorem attrs_ofConcrete (d : EntityData) (a : String) :
    lookupKV (PEntityData.ofConcrete d).attrs a = (lookupKV d.attrs a).map PartialValue.value := by
  simp only [PEntityData.ofConcrete, lookupKV_map_value]

theorem sem_getAttr (attr : String) {a l : Expr}
    (h1 : ∀ n, Sem (pinterp m preq (.ofConcrete es) env n l) (evaluate req es env a)) :
    ∀ n, Sem (pinterp m preq (.ofConcrete es) env n (.getAttr l attr)) (evaluate req es env (.getAttr a attr)) := by
  intro n
  cases n with
  | zero => simp [pinterp]
  | succ n =>
    simp only [pinterp, evaluate]
    rcases h1 n with hx | hx | ⟨v, hx, hy⟩ | ⟨c, c', hx, hy⟩
    · simp [hx]
    · simp [hx]
    · rw [hx, hy]
      cases v with
      | set vs => simp
      | ext x => simp
      | record kvs => cases hl : lookupKV kvs attr <;> simp [hl]
      | prim p =>
        cases p with
        | bool b => simp
        | int i => simp
        | string s => simp
        | entityUID u =>
          cases hf : es.find? u with
          | none => simp [entity_ofConcrete, hf]
          | some d => cases hl : lookupKV d.attrs attr <;> simp [entity_ofConcrete, hf, attrs_ofConcrete, hl]
    · simp [hx, hy]

theorem sem_hasAttr (attr : String) {a l : Expr}
    (h1 : ∀ n, Sem (pinterp m preq (.ofConcrete es) env n l) (evaluate req es env a)) :
    ∀ n, Sem (pinterp m preq (.ofConcrete es) env n (.hasAttr l attr)) (evaluate req es env (.hasAttr a attr)) := by
  intro n
  cases n with
  | zero => simp [pinterp]
  | succ n =>
    simp only [pinterp, evaluate]
    rcases h1 n with hx | hx | ⟨v, hx, hy⟩ | ⟨c, c', hx, hy⟩
    · simp [hx]
    · simp [hx]
    · rw [hx, hy]
      cases v with
      | set vs => simp
      | ext x => simp
      | record kvs => simp
      | prim p =>
        cases p with
        | bool b => simp
        | int i => simp
        | string s => simp
        | entityUID u =>
          cases hf : es.find? u with
          | none => simp [entity_ofConcrete, hf]
          | some d => simp [entity_ofConcrete, hf, attrs_ofConcrete]
    · simp [hx, hy]

end

end Cedar
