import CedarVerif.Lemmas.ManifestCheck
import CedarVerif.Lemmas.ManifestTyped
import CedarVerif.Lemmas.ManifestWF
/-
C17 helper lemmas, part 11: end to end.  `compute_entity_manifest` for one request type (`manifestOfEnvs`: union of the
policies' tries, then `to_typed`), then `slice_entities`: the slice is a sub-store covering every policy's trie.
-/
namespace Cedar.Manifest
open Cedar

theorem go_wf : ∀ (es : List TExpr) (acc t : RootAccessTrie), RootsWF acc → (∀ e, e ∈ es → TypesUK e) →
    manifestOfEnvs.go acc es = .ok t → RootsWF t
  | [], acc, t, hacc, _, h => by
    simp only [manifestOfEnvs.go, Except.ok.injEq] at h
    subst h; exact hacc
  | e :: rest, acc, t, hacc, huk, h => by
    simp only [manifestOfEnvs.go] at h
    cases he : manifestOfExpr e with
    | error x => simp [he] at h
    | ok r =>
      simp only [he] at h
      exact go_wf rest _ t (unionRoots_wf _ _ hacc (manifestOfExpr_wf e r (huk e (by simp)) he))
        (fun e' h' => huk e' (by simp [h'])) h

theorem go_cover (es0 es' : Entities) (req : Request) : ∀ (es : List TExpr) (acc t : RootAccessTrie),
    manifestOfEnvs.go acc es = .ok t → CoverRoots es0 es' req t →
    CoverRoots es0 es' req acc ∧ ∀ e, e ∈ es → ∃ r, manifestOfExpr e = .ok r ∧ CoverRoots es0 es' req r.global
  | [], acc, t, h, hc => by
    simp only [manifestOfEnvs.go, Except.ok.injEq] at h
    subst h
    exact ⟨hc, by intro e he; simp at he⟩
  | e :: rest, acc, t, h, hc => by
    simp only [manifestOfEnvs.go] at h
    cases he : manifestOfExpr e with
    | error x => simp [he] at h
    | ok r =>
      simp only [he] at h
      obtain ⟨h1, h2⟩ := go_cover es0 es' req rest _ t h hc
      obtain ⟨h3, h4⟩ := coverRoots_union es0 es' req r.global acc h1
      refine ⟨h3, ?_⟩
      intro e' he'
      simp only [List.mem_cons] at he'
      rcases he' with e1 | he'
      · subst e1; exact ⟨r, he, h4⟩
      · exact h2 e' he'

/-- the slice computed for the manifest of the typed conditions `tps`: a sub-store of the full store that covers the trie
of every condition -/
theorem slice_of_manifest (s : Schema) (rt : ReqType) (req : Request) (es es' : Entities) (tps : List TExpr)
    (t : RootAccessTrie) (hctx : CtxWF req) (huk : ∀ e, e ∈ tps → TypesUK e)
    (hm : manifestOfEnvs s rt tps = .ok t)
    (hconf : ∀ t0, manifestOfEnvs.go [] tps = .ok t0 → ConfRoots s rt es req t0)
    (hs : sliceStore (some t) req es = .ok es') :
    SubStore es es' ∧ ∀ e, e ∈ tps → ∃ r, manifestOfExpr e = .ok r ∧ CoverRoots es es' req r.global := by
  simp only [manifestOfEnvs] at hm
  cases hg : manifestOfEnvs.go [] tps with
  | error x => simp [hg] at hm
  | ok t0 =>
    simp only [hg] at hm
    have hwf0 : RootsWF t0 := go_wf tps [] t0 (by simp [RootsWF]) huk hg
    have hwf : RootsWF t := toTypedRoots_wf s rt t0 t hm hwf0
    have hfl : FlagsRoots es req t := flagsRoots_typed s rt es req t0 t hm (hconf t0 hg)
    simp only [sliceStore] at hs
    cases hf : sliceFault t req es with
    | some x => simp [hf] at hs
    | none =>
      simp only [hf, Except.ok.injEq] at hs
      subst hs
      obtain ⟨hsub, hcov⟩ := sliceStorePure_meets_spec t req es hwf hfl
      have hcov0 := coverRoots_untyped s rt es req _ hsub hctx t0 t hm (hconf t0 hg) hcov
      exact ⟨hsub, (go_cover es _ req tps [] t0 hg hcov0).2⟩


/-! ## executable checker for the trie-directed conformance `ConfRoots` -/

mutual
def confVB (s : Schema) (rt : ReqType) (es : Entities) (req : Request) : AccessTrie → CedarType → Value → Bool
  | .mk c a _ _, ty, v =>
    confRootsB s rt es req a &&
    (match v with
     | .record _ => !isEntityTy ty
     | _ => true) &&
    (match attrsOfType s ty with
     | .ok (some attrs) =>
       (match v with
        | .prim (.entityUID u) =>
          (match es.find? u with
           | some d => confFB s rt es req c attrs d.attrs
           | none => true)
        | .record kvs => confFB s rt es req c attrs kvs
        | _ => true)
     | _ => true)
def confFB (s : Schema) (rt : ReqType) (es : Entities) (req : Request) : Fields → Attrs → List (String × Value) → Bool
  | [], _, _ => true
  | (f, t) :: rest, attrs, kvs =>
    (match lookupKV kvs f with
     | some w =>
       (match Attrs.find? attrs f with
        | some (_, τ) => confVB s rt es req t τ w
        | none => false)
     | none => true) && confFB s rt es req rest attrs kvs
def confRootsB (s : Schema) (rt : ReqType) (es : Entities) (req : Request) : RootAccessTrie → Bool
  | [] => true
  | (root, t) :: rest =>
    (match rootType s rt root with
     | .ok ty => confVB s rt es req t ty (rootVal req root)
     | .error _ => true) && confRootsB s rt es req rest
end

mutual
theorem confVB_sound (s : Schema) (rt : ReqType) (es : Entities) (req : Request) : ∀ (t : AccessTrie) (ty : CedarType) (v : Value),
    confVB s rt es req t ty v = true → ConfV s rt es req t ty v
  | .mk c a i e, ty, v, h => by
    simp only [confVB, Bool.and_eq_true] at h
    obtain ⟨⟨h1, h2⟩, h3⟩ := h
    simp only [ConfV]
    refine ⟨confRootsB_sound s rt es req a h1, ?_, ?_⟩
    · cases v with
      | record kvs => simpa using h2
      | prim p => trivial
      | set vs => trivial
      | ext x => trivial
    · intro attrs ha
      simp only [ha] at h3
      cases v with
      | prim p =>
        cases p with
        | entityUID u =>
          intro d hd
          simp only [hd] at h3
          exact confFB_sound s rt es req c attrs d.attrs h3
        | bool b => trivial
        | int n => trivial
        | string s => trivial
      | record kvs => exact confFB_sound s rt es req c attrs kvs h3
      | set vs => trivial
      | ext x => trivial
theorem confFB_sound (s : Schema) (rt : ReqType) (es : Entities) (req : Request) : ∀ (c : Fields) (attrs : Attrs)
    (kvs : List (String × Value)), confFB s rt es req c attrs kvs = true → ConfF s rt es req c attrs kvs
  | [], _, _, _ => by simp [ConfF]
  | (f, t) :: rest, attrs, kvs, h => by
    simp only [confFB, Bool.and_eq_true] at h
    simp only [ConfF]
    refine ⟨?_, confFB_sound s rt es req rest attrs kvs h.2⟩
    intro w hw
    have h1 := h.1
    simp only [hw] at h1
    cases hf : Attrs.find? attrs f with
    | none => simp [hf] at h1
    | some qt =>
      obtain ⟨q, τ⟩ := qt
      simp only [hf] at h1
      exact ⟨q, τ, rfl, confVB_sound s rt es req t τ w h1⟩
theorem confRootsB_sound (s : Schema) (rt : ReqType) (es : Entities) (req : Request) : ∀ (g : RootAccessTrie),
    confRootsB s rt es req g = true → ConfRoots s rt es req g
  | [], _ => by simp [ConfRoots]
  | (root, t) :: rest, h => by
    simp only [confRootsB, Bool.and_eq_true] at h
    simp only [ConfRoots]
    refine ⟨?_, confRootsB_sound s rt es req rest h.2⟩
    intro ty hty
    have h1 := h.1
    simp only [hty] at h1
    exact confVB_sound s rt es req t ty _ h1
end

end Cedar.Manifest
