import CedarVerif.Lemmas.PartialStore1
import CedarVerif.Lemmas.BatchedUids
/-
C13, `.partial()` stores relativised: the CLOSED-WORLD INVARIANT of the first pass.

`U : EntityUID → Prop` is a set of entity uids ("mentioned").  If the literal uids of the expression, the known request
entries, the context, the values of the mapper, the slot environment and the attribute / tag values of the partial store all
lie in `U`, then every value `pinterp` returns, and every residual it returns, mentions only uids of `U` (`pinterp_in`).
Hence the only uids `pinterp` ever dereferences (`Entities::entity`) are in `U`, and the hypothesis on entities missing from
a `.partial()` store (`Bound`) is needed only for uids of `U`: `StoreCompletesOn U`.

`mentioned m0 preq pes env e` is the finite list of those uids; `mentioned_closed` shows it satisfies all the hypotheses.
Ancestor lists are not part of it: ancestors never flow into a value (`eval_in` returns a Boolean).
-/
namespace Cedar
namespace PS
open Cedar.Tpe (valueUids valueUidsList valueUidsKVs)

mutual
def exprUids : Expr → List EntityUID
  | .lit (.entityUID u) => [u]
  | .lit _ => []
  | .var _ => []
  | .slot _ => []
  | .unknown _ _ => []
  | .ite c t e => exprUids c ++ exprUids t ++ exprUids e
  | .and a b => exprUids a ++ exprUids b
  | .or a b => exprUids a ++ exprUids b
  | .unaryApp _ a => exprUids a
  | .binaryApp _ a b => exprUids a ++ exprUids b
  | .call _ args => exprUidsList args
  | .getAttr e _ => exprUids e
  | .hasAttr e _ => exprUids e
  | .like e _ => exprUids e
  | .is e _ => exprUids e
  | .set xs => exprUidsList xs
  | .record kvs => exprUidsKVs kvs
def exprUidsList : List Expr → List EntityUID
  | [] => []
  | x :: xs => exprUids x ++ exprUidsList xs
def exprUidsKVs : List (String × Expr) → List EntityUID
  | [] => []
  | (_, x) :: xs => exprUids x ++ exprUidsKVs xs
end

section
variable (U : EntityUID → Prop)

def VIn (v : Value) : Prop := ∀ u, u ∈ valueUids v → U u
def EIn (e : Expr) : Prop := ∀ u, u ∈ exprUids e → U u

def PVIn : PartialValue → Prop
  | .value v => VIn U v
  | .residual r => EIn U r

def PAttrsIn (kvs : List (String × PartialValue)) : Prop := ∀ k pv, lookupKV kvs k = some pv → PVIn U pv

/-- attribute and tag values of the partial store mention only uids of `U` -/
def StoreIn (pes : PEntities) : Prop :=
  ∀ u d, PEntities.find? pes.ents u = some d → PAttrsIn U d.attrs ∧ PAttrsIn U d.tags

def EntryIn : UidEntry → Prop
  | .known u => U u
  | .unknown _ => True

def CtxIn : Option PContext → Prop
  | none => True
  | some (.value kvs) => VIn U (.record kvs)
  | some (.residual kvs) => EIn U (.record kvs)

structure ReqIn (preq : PRequest) : Prop where
  principal : EntryIn U preq.principal
  action : EntryIn U preq.action
  resource : EntryIn U preq.resource
  context : CtxIn U preq.context

def MapIn (m : Mapper) : Prop := ∀ k v, lookupKV m k = some v → VIn U v
def EnvIn (env : SlotEnv) : Prop := ∀ s u, env.lookup s = some u → U u

def GoodRes : PRes → Prop
  | .val v => VIn U v
  | .res r => EIn U r
  | _ => True

/-- `StoreCompletes` relativised to `U`: the uid-named unknown of an entity missing from a `.partial()` store has to be
    bound only if the uid is in `U` -/
def StoreCompletesOn (σ : Mapper) (pes : PEntities) (es : Entities) : Prop :=
  ∀ u, match PEntities.find? pes.ents u with
    | some d => ∃ d', es.find? u = some d' ∧ d'.ancestors = d.ancestors ∧
        AttrsComplete σ es d.attrs d'.attrs ∧ AttrsComplete σ es d.tags d'.tags
    | none => if pes.partialMode then (U u → Bound σ u) else es.find? u = none

end

section
variable {U : EntityUID → Prop} {σ : Mapper} {pes : PEntities} {es : Entities}

theorem StoreCompletesOn.data (h : StoreCompletesOn U σ pes es) {u : EntityUID} {d : PEntityData}
    (hf : PEntities.find? pes.ents u = some d) :
    ∃ d', es.find? u = some d' ∧ d'.ancestors = d.ancestors ∧
      AttrsComplete σ es d.attrs d'.attrs ∧ AttrsComplete σ es d.tags d'.tags := by
  have := h u; rw [hf] at this; exact this

theorem StoreCompletesOn.noSuch (h : StoreCompletesOn U σ pes es) {u : EntityUID}
    (hf : PEntities.find? pes.ents u = none) (hp : pes.partialMode = false) : es.find? u = none := by
  have := h u; rw [hf] at this; simpa [hp] using this

theorem StoreCompletesOn.bound (h : StoreCompletesOn U σ pes es) {u : EntityUID}
    (hf : PEntities.find? pes.ents u = none) (hp : pes.partialMode = true) (hu : U u) : Bound σ u := by
  have := h u; rw [hf] at this; simp only [hp, if_true] at this; exact this hu

theorem storeCompletesOn_of (h : StoreCompletes σ pes es) : StoreCompletesOn U σ pes es := by
  intro u
  have := h u
  cases hf : PEntities.find? pes.ents u with
  | some d => rw [hf] at this; exact this
  | none =>
    rw [hf] at this
    cases hp : pes.partialMode with
    | false => simpa [hp] using this
    | true => simp only [hp, if_true] at this ⊢; exact fun _ => this

theorem storeCompletes_of_on (h : StoreCompletesOn (fun _ => True) σ pes es) : StoreCompletes σ pes es := by
  intro u
  have := h u
  cases hf : PEntities.find? pes.ents u with
  | some d => rw [hf] at this; exact this
  | none =>
    rw [hf] at this
    cases hp : pes.partialMode with
    | false => simpa [hp] using this
    | true => simp only [hp, if_true] at this ⊢; exact this trivial

/-! ### destructing `EIn` -/

theorem eIn_ite {c t e : Expr} : EIn U (.ite c t e) ↔ EIn U c ∧ EIn U t ∧ EIn U e := by
  simp only [EIn, exprUids, List.mem_append]
  constructor
  · intro h; exact ⟨fun u hu => h u (Or.inl (Or.inl hu)), fun u hu => h u (Or.inl (Or.inr hu)), fun u hu => h u (Or.inr hu)⟩
  · rintro ⟨h1, h2, h3⟩ u ((hu | hu) | hu)
    · exact h1 u hu
    · exact h2 u hu
    · exact h3 u hu

theorem eIn_app {xs ys : List EntityUID} : (∀ u, u ∈ xs ++ ys → U u) ↔ (∀ u, u ∈ xs → U u) ∧ (∀ u, u ∈ ys → U u) := by
  simp only [List.mem_append]
  constructor
  · intro h; exact ⟨fun u hu => h u (Or.inl hu), fun u hu => h u (Or.inr hu)⟩
  · rintro ⟨h1, h2⟩ u (hu | hu)
    · exact h1 u hu
    · exact h2 u hu

theorem eIn_and {a b : Expr} : EIn U (.and a b) ↔ EIn U a ∧ EIn U b := by
  simp only [EIn, exprUids]; exact eIn_app
theorem eIn_or {a b : Expr} : EIn U (.or a b) ↔ EIn U a ∧ EIn U b := by
  simp only [EIn, exprUids]; exact eIn_app
theorem eIn_binary {op : BinaryOp} {a b : Expr} : EIn U (.binaryApp op a b) ↔ EIn U a ∧ EIn U b := by
  simp only [EIn, exprUids]; exact eIn_app
theorem eIn_unary {op : UnaryOp} {a : Expr} : EIn U (.unaryApp op a) ↔ EIn U a := by simp only [EIn, exprUids]
theorem eIn_getAttr {a : Expr} {k : String} : EIn U (.getAttr a k) ↔ EIn U a := by simp only [EIn, exprUids]
theorem eIn_hasAttr {a : Expr} {k : String} : EIn U (.hasAttr a k) ↔ EIn U a := by simp only [EIn, exprUids]
theorem eIn_like {a : Expr} {p : Pattern} : EIn U (.like a p) ↔ EIn U a := by simp only [EIn, exprUids]
theorem eIn_is {a : Expr} {t : EntityType} : EIn U (.is a t) ↔ EIn U a := by simp only [EIn, exprUids]
theorem eIn_unknown (name : String) (ty : Option TyAnn) : EIn U (.unknown name ty) := by
  intro u hu; simp [exprUids] at hu
theorem eIn_litBool (b : Bool) : EIn U (.lit (.bool b)) := by intro u hu; simp [exprUids] at hu
theorem eIn_litString (s : String) : EIn U (.lit (.string s)) := by intro u hu; simp [exprUids] at hu

theorem eIn_list_mem {xs : List Expr} (h : ∀ u, u ∈ exprUidsList xs → U u) {x : Expr} (hx : x ∈ xs) : EIn U x := by
  induction xs with
  | nil => cases hx
  | cons y ys ih =>
    simp only [exprUidsList] at h
    obtain ⟨h1, h2⟩ := eIn_app.mp h
    rcases List.mem_cons.mp hx with rfl | hx
    · exact h1
    · exact ih h2 hx

theorem eIn_kvs_mem {kvs : List (String × Expr)} (h : ∀ u, u ∈ exprUidsKVs kvs → U u) {kv : String × Expr} (hx : kv ∈ kvs) :
    EIn U kv.2 := by
  induction kvs with
  | nil => cases hx
  | cons y ys ih =>
    obtain ⟨k, y⟩ := y
    simp only [exprUidsKVs] at h
    obtain ⟨h1, h2⟩ := eIn_app.mp h
    rcases List.mem_cons.mp hx with rfl | hx
    · exact h1
    · exact ih h2 hx

theorem eIn_set_mem {xs : List Expr} (h : EIn U (.set xs)) {x : Expr} (hx : x ∈ xs) : EIn U x :=
  eIn_list_mem (by simpa only [EIn, exprUids] using h) hx
theorem eIn_call_mem {fn : String} {xs : List Expr} (h : EIn U (.call fn xs)) {x : Expr} (hx : x ∈ xs) : EIn U x :=
  eIn_list_mem (by simpa only [EIn, exprUids] using h) hx
theorem eIn_record_mem {kvs : List (String × Expr)} (h : EIn U (.record kvs)) {kv : String × Expr} (hx : kv ∈ kvs) : EIn U kv.2 :=
  eIn_kvs_mem (by simpa only [EIn, exprUids] using h) hx

theorem eIn_lookupKV {kvs : List (String × Expr)} (h : EIn U (.record kvs)) {k : String} {e : Expr}
    (hl : lookupKV kvs k = some e) : EIn U e := by
  obtain ⟨k', hk'⟩ := mem_of_lookupKV hl
  exact eIn_record_mem h hk'

/-! ### value → expression keeps the uids -/

theorem exprUids_extToExpr (x : Ext) : exprUids (Ext.toExpr x) = [] := by
  cases x with
  | decimal d => simp [Ext.toExpr, exprUids, exprUidsList]
  | ipaddr v6 a p => cases v6 <;> simp [Ext.toExpr, exprUids, exprUidsList]
  | datetime ms => simp [Ext.toExpr, exprUids, exprUidsList]
  | duration ms => simp [Ext.toExpr, exprUids, exprUidsList]

mutual
theorem exprUids_toExpr : ∀ v : Value, exprUids v.toExpr = valueUids v
  | .prim p => by cases p <;> simp [Value.toExpr, exprUids, valueUids]
  | .set vs => by simp only [Value.toExpr, exprUids, valueUids]; exact exprUids_toExprList vs
  | .record kvs => by simp only [Value.toExpr, exprUids, valueUids]; exact exprUids_toExprKVs kvs
  | .ext x => by simp only [Value.toExpr, valueUids]; exact exprUids_extToExpr x
theorem exprUids_toExprList : ∀ vs : List Value, exprUidsList (Value.toExprList vs) = valueUidsList vs
  | [] => by simp [Value.toExprList, exprUidsList, valueUidsList]
  | v :: vs => by simp only [Value.toExprList, exprUidsList, valueUidsList]; rw [exprUids_toExpr v, exprUids_toExprList vs]
theorem exprUids_toExprKVs : ∀ kvs : List (String × Value), exprUidsKVs (Value.toExprKVs kvs) = valueUidsKVs kvs
  | [] => by simp [Value.toExprKVs, exprUidsKVs, valueUidsKVs]
  | (k, v) :: kvs => by simp only [Value.toExprKVs, exprUidsKVs, valueUidsKVs]; rw [exprUids_toExpr v, exprUids_toExprKVs kvs]
end

theorem eIn_toExpr {v : Value} (h : VIn U v) : EIn U v.toExpr := by
  intro u hu; rw [exprUids_toExpr] at hu; exact h u hu

theorem vIn_noUids {v : Value} (h : valueUids v = []) : VIn U v := by
  intro u hu; rw [h] at hu; cases hu

theorem vIn_bool (b : Bool) : VIn U (.prim (.bool b)) := vIn_noUids rfl

theorem vIn_lookupKV {kvs : List (String × Value)} (h : VIn U (.record kvs)) {k : String} {v : Value}
    (hl : lookupKV kvs k = some v) : VIn U v := by
  simp only [VIn, valueUids] at h
  induction kvs with
  | nil => simp [lookupKV] at hl
  | cons x kvs ih =>
    obtain ⟨k', v'⟩ := x
    simp only [valueUidsKVs] at h
    obtain ⟨h1, h2⟩ := eIn_app.mp h
    simp only [lookupKV] at hl
    split at hl
    · cases hl; exact h1
    · exact ih h2 hl

theorem goodRes_ofResult {x : Result Value} (h : ∀ w, x = .ok w → valueUids w = []) : GoodRes U (PRes.ofResult x) := by
  cases x with
  | error c => trivial
  | ok w => exact vIn_noUids (h w rfl)

theorem pvIn_asExpr {pv : PartialValue} (h : PVIn U pv) : EIn U pv.asExpr := by
  cases pv with
  | value v => exact eIn_toExpr h
  | residual r => exact h

theorem goodRes_ofPV {pv : PartialValue} (h : PVIn U pv) : GoodRes U (PRes.ofPV pv) := by
  cases pv with
  | value v => exact h
  | residual r => exact h

theorem goodRes_unknownToPV {m : Mapper} (hm : MapIn U m) (name : String) (ty : Option TyAnn) :
    GoodRes U (unknownToPV m name ty) := by
  unfold unknownToPV
  split
  · exact eIn_unknown _ _
  · rename_i v hl; exact hm _ _ hl
  · rename_i v t hl
    split
    · exact hm _ _ hl
    · trivial

theorem goodRes_bestEffort {r : PRes} {orig : Expr} {k : Expr → PRes} (hr : GoodRes U r) (ho : EIn U orig)
    (hk : ∀ x, EIn U x → GoodRes U (k x)) : GoodRes U (bestEffort r orig k) := by
  cases r with
  | val v => exact hk _ (eIn_toExpr hr)
  | res e => exact hk _ hr
  | err c => exact hk _ ho
  | fuel => trivial
  | panic => trivial

/-! ### collecting -/

theorem collectPV_in {f : Expr → PRes} {xs : List Expr} (h : ∀ x, x ∈ xs → GoodRes U (f x)) :
    match collectPV f xs with
    | .error r => GoodRes U r
    | .ok pvs => ∀ pv, pv ∈ pvs → PVIn U pv := by
  induction xs with
  | nil => simp [collectPV]
  | cons x xs ih =>
    have hx := h x (List.mem_cons_self ..)
    have ih' := ih (fun y hy => h y (List.mem_cons_of_mem _ hy))
    simp only [collectPV]
    cases hfx : f x with
    | val v =>
      rw [hfx] at hx
      cases hc : collectPV f xs with
      | error r => rw [hc] at ih'; simpa [Except.map] using ih'
      | ok pvs =>
        rw [hc] at ih'
        simp only [Except.map]
        intro pv hpv
        rcases List.mem_cons.mp hpv with rfl | hpv
        · exact hx
        · exact ih' pv hpv
    | res e =>
      rw [hfx] at hx
      cases hc : collectPV f xs with
      | error r => rw [hc] at ih'; simpa [Except.map] using ih'
      | ok pvs =>
        rw [hc] at ih'
        simp only [Except.map]
        intro pv hpv
        rcases List.mem_cons.mp hpv with rfl | hpv
        · exact hx
        · exact ih' pv hpv
    | err c => trivial
    | fuel => trivial
    | panic => trivial

theorem collectPVKVs_in {f : Expr → PRes} {kvs : List (String × Expr)} (h : ∀ kv, kv ∈ kvs → GoodRes U (f kv.2)) :
    match collectPVKVs f kvs with
    | .error r => GoodRes U r
    | .ok pkvs => ∀ pv, pv ∈ pkvs.map (·.2) → PVIn U pv := by
  induction kvs with
  | nil => simp [collectPVKVs]
  | cons x xs ih =>
    obtain ⟨k, x⟩ := x
    have hx := h (k, x) (List.mem_cons_self ..)
    have ih' := ih (fun y hy => h y (List.mem_cons_of_mem _ hy))
    simp only [collectPVKVs]
    cases hfx : f x with
    | val v =>
      simp only [hfx] at hx
      cases hc : collectPVKVs f xs with
      | error r => rw [hc] at ih'; simpa [Except.map] using ih'
      | ok pvs =>
        rw [hc] at ih'
        simp only [Except.map, List.map_cons]
        intro pv hpv
        rcases List.mem_cons.mp hpv with rfl | hpv
        · exact hx
        · exact ih' pv hpv
    | res e =>
      simp only [hfx] at hx
      cases hc : collectPVKVs f xs with
      | error r => rw [hc] at ih'; simpa [Except.map] using ih'
      | ok pvs =>
        rw [hc] at ih'
        simp only [Except.map, List.map_cons]
        intro pv hpv
        rcases List.mem_cons.mp hpv with rfl | hpv
        · exact hx
        · exact ih' pv hpv
    | err c => trivial
    | fuel => trivial
    | panic => trivial

theorem exprUidsList_map_asExpr {pvs : List PartialValue} (h : ∀ pv, pv ∈ pvs → PVIn U pv) :
    ∀ u, u ∈ exprUidsList (pvs.map PartialValue.asExpr) → U u := by
  induction pvs with
  | nil => intro u hu; simp [exprUidsList] at hu
  | cons pv pvs ih =>
    simp only [List.map_cons, exprUidsList]
    exact eIn_app.mpr ⟨pvIn_asExpr (h pv (List.mem_cons_self ..)), ih (fun q hq => h q (List.mem_cons_of_mem _ hq))⟩

theorem splitPV_in {pvs : List PartialValue} (h : ∀ pv, pv ∈ pvs → PVIn U pv) :
    match splitPV pvs with
    | .inl vs => ∀ u, u ∈ valueUidsList vs → U u
    | .inr rs => ∀ u, u ∈ exprUidsList rs → U u := by
  induction pvs with
  | nil => simp [splitPV, valueUidsList]
  | cons pv pvs ih =>
    have hpv := h pv (List.mem_cons_self ..)
    have hrest := fun q hq => h q (List.mem_cons_of_mem pv hq)
    have ih' := ih hrest
    cases pv with
    | value v =>
      simp only [splitPV]
      cases hs : splitPV pvs with
      | inl vs =>
        rw [hs] at ih'
        simp only [valueUidsList]
        exact eIn_app.mpr ⟨hpv, ih'⟩
      | inr rs =>
        rw [hs] at ih'
        simp only [exprUidsList]
        exact eIn_app.mpr ⟨eIn_toExpr hpv, ih'⟩
    | residual r =>
      simp only [splitPV, exprUidsList]
      exact eIn_app.mpr ⟨hpv, exprUidsList_map_asExpr hrest⟩

theorem valueUidsKVs_zip (ks : List String) (vs : List Value) : ∀ u, u ∈ valueUidsKVs (ks.zip vs) → u ∈ valueUidsList vs := by
  induction ks generalizing vs with
  | nil => intro u hu; simp [valueUidsKVs] at hu
  | cons k ks ih =>
    cases vs with
    | nil => intro u hu; simp [valueUidsKVs] at hu
    | cons v vs =>
      intro u hu
      simp only [List.zip_cons_cons, valueUidsKVs, valueUidsList, List.mem_append] at hu ⊢
      rcases hu with hu | hu
      · exact Or.inl hu
      · exact Or.inr (ih vs u hu)

theorem exprUidsKVs_zip (ks : List String) (rs : List Expr) : ∀ u, u ∈ exprUidsKVs (ks.zip rs) → u ∈ exprUidsList rs := by
  induction ks generalizing rs with
  | nil => intro u hu; simp [exprUidsKVs] at hu
  | cons k ks ih =>
    cases rs with
    | nil => intro u hu; simp [exprUidsKVs] at hu
    | cons v vs =>
      intro u hu
      simp only [List.zip_cons_cons, exprUidsKVs, exprUidsList, List.mem_append] at hu ⊢
      rcases hu with hu | hu
      · exact Or.inl hu
      · exact Or.inr (ih vs u hu)

/-! ### the value/value arm of binary operators -/

theorem goodRes_evalIn (u1 : EntityUID) (anc : Option (List EntityUID)) (v2 : Value) : GoodRes U (evalIn u1 anc v2) := by
  cases v2 with
  | prim p => cases p <;> first | exact vIn_bool _ | trivial
  | set vs =>
    simp only [evalIn]
    cases asEntityList vs with
    | error c => trivial
    | ok us => exact vIn_bool _
  | record kvs => trivial
  | ext x => trivial

theorem goodRes_papplyBinary (hS : StoreIn U pes) (op : BinaryOp) {v1 v2 : Value} (h2 : VIn U v2) :
    GoodRes U (papplyBinary pes op v1 v2) := by
  cases hop : Cedar.Tpe.storeFreeOp op with
  | true =>
    have : papplyBinary pes op v1 v2 = PRes.ofResult (applyBinary [] op v1 v2) := by
      cases op <;> first | (simp [Cedar.Tpe.storeFreeOp] at hop; done) | rfl
    rw [this]
    exact goodRes_ofResult (fun w hw => Cedar.Batched.applyBinary_noUids hop hw)
  | false =>
    cases op <;> simp [Cedar.Tpe.storeFreeOp] at hop
    · -- mem
      simp only [papplyBinary]
      cases he : v1.asEntity with
      | error c => trivial
      | ok u1 =>
        simp only []
        rcases entity_cases pes u1 with ⟨d, hf, hE⟩ | ⟨hf, hp, hE⟩ | ⟨hf, hp, hE⟩
        · rw [hE]; exact goodRes_evalIn _ _ _
        · rw [hE]; exact goodRes_evalIn _ _ _
        · rw [hE]; exact eIn_binary.mpr ⟨eIn_unknown _ _, eIn_toExpr h2⟩
    · -- getTag
      simp only [papplyBinary]
      cases he : v1.asEntity with
      | error c => trivial
      | ok u =>
        cases hs : v2.asString with
        | error c => trivial
        | ok t =>
          simp only []
          rcases entity_cases pes u with ⟨d, hf, hE⟩ | ⟨hf, hp, hE⟩ | ⟨hf, hp, hE⟩
          · rw [hE]
            simp only []
            cases hl : lookupKV d.tags t with
            | none => trivial
            | some pv => exact goodRes_ofPV ((hS u d hf).2 t pv hl)
          · rw [hE]; trivial
          · rw [hE]; exact eIn_binary.mpr ⟨eIn_unknown _ _, eIn_litString _⟩
    · -- hasTag
      simp only [papplyBinary]
      cases he : v1.asEntity with
      | error c => trivial
      | ok u =>
        cases hs : v2.asString with
        | error c => trivial
        | ok t =>
          simp only []
          rcases entity_cases pes u with ⟨d, hf, hE⟩ | ⟨hf, hp, hE⟩ | ⟨hf, hp, hE⟩
          · rw [hE]; exact vIn_bool _
          · rw [hE]; exact vIn_bool _
          · rw [hE]; exact eIn_binary.mpr ⟨eIn_unknown _ _, eIn_litString _⟩

/-! ### the invariant of the first pass -/

theorem goodRes_pcallExt (fn : String) (vs : List Value) : GoodRes U (pcallExt fn vs) := by
  unfold pcallExt
  split
  · split
    · split
      · exact eIn_unknown _ _
      · trivial
    · trivial
  · exact goodRes_ofResult (fun w hw => Cedar.Batched.callExt_noUids hw)

theorem pinterp_in {m0 : Mapper} {preq : PRequest} {env : SlotEnv}
    (hS : StoreIn U pes) (hR : ReqIn U preq) (hM : MapIn U m0) (hV : EnvIn U env) :
    ∀ (n : Nat) (e : Expr), EIn U e → GoodRes U (pinterp m0 preq pes env n e) := by
  intro n
  induction n with
  | zero => intro e _; simp [pinterp, GoodRes]
  | succ n ih =>
  intro e hE
  have entry : ∀ (en : UidEntry) (key : String), EntryIn U en → GoodRes U (en.eval key) := by
    intro en key h
    cases en with
    | known u => intro w hw; simp only [valueUids, List.mem_singleton] at hw; subst hw; exact h
    | unknown ty => cases ty <;> exact eIn_unknown _ _
  cases e with
  | lit p =>
    simp only [pinterp]
    intro u hu
    apply hE
    cases p <;> simp [valueUids, exprUids] at hu ⊢ <;> exact hu
  | var v =>
    cases v with
    | principal => simpa only [pinterp] using entry _ _ hR.principal
    | action => simpa only [pinterp] using entry _ _ hR.action
    | resource => simpa only [pinterp] using entry _ _ hR.resource
    | context =>
      have hc := hR.context
      simp only [pinterp]
      cases hpc : preq.context with
      | none => exact eIn_unknown _ _
      | some c =>
        rw [hpc] at hc
        cases c with
        | value kvs => exact hc
        | residual kvs => exact hc
  | slot s =>
    simp only [pinterp]
    cases hl : env.lookup s with
    | none => trivial
    | some u => intro w hw; simp only [valueUids, List.mem_singleton] at hw; subst hw; exact hV s _ hl
  | unknown name ty => simp only [pinterp]; exact goodRes_unknownToPV hM name ty
  | ite c t e =>
    obtain ⟨hc, ht, he⟩ := eIn_ite.mp hE
    have sc := ih c hc
    have st := ih t ht
    have se := ih e he
    simp only [pinterp]
    cases hxc : pinterp m0 preq pes env n c with
    | fuel => trivial
    | panic => trivial
    | err c0 => trivial
    | val v =>
      simp only []
      cases hb : v.asBool with
      | error c0 => trivial
      | ok bv => cases bv <;> assumption
    | res g =>
      rw [hxc] at sc
      exact goodRes_bestEffort st ht (fun t' ht' => goodRes_bestEffort se he (fun e' he' => eIn_ite.mpr ⟨sc, ht', he'⟩))
  | and a b =>
    obtain ⟨ha, hb⟩ := eIn_and.mp hE
    have sa := ih a ha
    have sb := ih b hb
    simp only [pinterp]
    cases hxa : pinterp m0 preq pes env n a with
    | fuel => trivial
    | panic => trivial
    | err c => trivial
    | res l =>
      rw [hxa] at sa
      exact goodRes_bestEffort sb hb (fun b' hb' => eIn_and.mpr ⟨sa, hb'⟩)
    | val v =>
      simp only []
      cases hbv : v.asBool with
      | error c => trivial
      | ok bv =>
        cases bv with
        | false => exact vIn_bool _
        | true =>
          simp only []
          cases hxb : pinterp m0 preq pes env n b with
          | fuel => trivial
          | panic => trivial
          | err c => trivial
          | res r => rw [hxb] at sb; exact eIn_and.mpr ⟨eIn_litBool _, sb⟩
          | val w =>
            simp only []
            cases w.asBool with
            | error c => trivial
            | ok r => exact vIn_bool _
  | or a b =>
    obtain ⟨ha, hb⟩ := eIn_or.mp hE
    have sa := ih a ha
    have sb := ih b hb
    simp only [pinterp]
    cases hxa : pinterp m0 preq pes env n a with
    | fuel => trivial
    | panic => trivial
    | err c => trivial
    | res l =>
      rw [hxa] at sa
      exact goodRes_bestEffort sb hb (fun b' hb' => eIn_or.mpr ⟨sa, hb'⟩)
    | val v =>
      simp only []
      cases hbv : v.asBool with
      | error c => trivial
      | ok bv =>
        cases bv with
        | true => exact vIn_bool _
        | false =>
          simp only []
          cases hxb : pinterp m0 preq pes env n b with
          | fuel => trivial
          | panic => trivial
          | err c => trivial
          | res r => rw [hxb] at sb; exact eIn_or.mpr ⟨eIn_litBool _, sb⟩
          | val w =>
            simp only []
            cases w.asBool with
            | error c => trivial
            | ok r => exact vIn_bool _
  | unaryApp op a =>
    have sa := ih a (eIn_unary.mp hE)
    simp only [pinterp]
    cases hxa : pinterp m0 preq pes env n a with
    | fuel => trivial
    | panic => trivial
    | err c => trivial
    | val v => exact goodRes_ofResult (fun w hw => Cedar.Batched.applyUnary_noUids hw)
    | res l => rw [hxa] at sa; exact eIn_unary.mpr sa
  | binaryApp op a b =>
    obtain ⟨ha, hb⟩ := eIn_binary.mp hE
    have sa := ih a ha
    have sb := ih b hb
    simp only [pinterp]
    cases hxa : pinterp m0 preq pes env n a with
    | fuel => trivial
    | panic => trivial
    | err c => trivial
    | val v1 =>
      rw [hxa] at sa
      simp only []
      cases hxb : pinterp m0 preq pes env n b with
      | fuel => trivial
      | panic => trivial
      | err c => trivial
      | val v2 => rw [hxb] at sb; exact goodRes_papplyBinary hS op sb
      | res e2 =>
        rw [hxb] at sb
        simp only []
        cases hsc : shortCircuitVR v1 e2 op with
        | some r =>
          obtain ⟨u1, name, t, rfl, rfl, rfl, hne, rfl⟩ := shortCircuitVR_some hsc
          exact vIn_bool _
        | none => exact eIn_binary.mpr ⟨eIn_toExpr sa, sb⟩
    | res e1 =>
      rw [hxa] at sa
      simp only []
      cases hxb : pinterp m0 preq pes env n b with
      | fuel => trivial
      | panic => trivial
      | err c => trivial
      | val v2 =>
        rw [hxb] at sb
        simp only []
        cases hsc : shortCircuitRV e1 v2 op with
        | some r =>
          obtain ⟨u2, name, t, rfl, rfl, rfl, hne, rfl⟩ := shortCircuitRV_some hsc
          exact vIn_bool _
        | none => exact eIn_binary.mpr ⟨sa, eIn_toExpr sb⟩
      | res e2 =>
        rw [hxb] at sb
        simp only []
        cases hsc : shortCircuitRR e1 e2 op with
        | some r =>
          obtain ⟨n1, t1, n2, t2, rfl, rfl, rfl, hne, rfl⟩ := shortCircuitRR_some hsc
          exact vIn_bool _
        | none => exact eIn_binary.mpr ⟨sa, sb⟩
  | like e0 p =>
    have se := ih e0 (eIn_like.mp hE)
    simp only [pinterp]
    cases hxe : pinterp m0 preq pes env n e0 with
    | fuel => trivial
    | panic => trivial
    | err c => trivial
    | res r => rw [hxe] at se; exact eIn_like.mpr se
    | val v =>
      simp only []
      cases v.asString with
      | error c => trivial
      | ok s => exact vIn_bool _
  | is e0 ty =>
    have se := ih e0 (eIn_is.mp hE)
    simp only [pinterp]
    cases hxe : pinterp m0 preq pes env n e0 with
    | fuel => trivial
    | panic => trivial
    | err c => trivial
    | res r =>
      rw [hxe] at se
      simp only []
      split
      · exact vIn_bool _
      · exact eIn_is.mpr se
    | val v =>
      simp only []
      cases v.asEntity with
      | error c => trivial
      | ok u => exact vIn_bool _
  | set xs =>
    have hc := collectPV_in (U := U) (f := pinterp m0 preq pes env n) (xs := xs) (fun x hx => ih x (eIn_set_mem hE hx))
    simp only [pinterp]
    cases hcc : collectPV (pinterp m0 preq pes env n) xs with
    | error r => rw [hcc] at hc; exact hc
    | ok pvs =>
      rw [hcc] at hc
      have hs := splitPV_in hc
      simp only []
      cases hsp : splitPV pvs with
      | inl vs =>
        rw [hsp] at hs
        intro u hu
        simp only [valueUids] at hu
        exact hs u (Cedar.Batched.mkSet_sub vs u hu)
      | inr rs => rw [hsp] at hs; exact fun u hu => hs u (by simpa only [exprUids] using hu)
  | call fn args =>
    have hc := collectPV_in (U := U) (f := pinterp m0 preq pes env n) (xs := args) (fun x hx => ih x (eIn_call_mem hE hx))
    simp only [pinterp]
    cases hcc : collectPV (pinterp m0 preq pes env n) args with
    | error r => rw [hcc] at hc; exact hc
    | ok pvs =>
      rw [hcc] at hc
      have hs := splitPV_in hc
      simp only []
      cases hsp : splitPV pvs with
      | inl vs => exact goodRes_pcallExt fn vs
      | inr rs => rw [hsp] at hs; exact fun u hu => hs u (by simpa only [exprUids] using hu)
  | record kvs =>
    have hc := collectPVKVs_in (U := U) (f := pinterp m0 preq pes env n) (kvs := kvs) (fun kv hkv => ih kv.2 (eIn_record_mem hE hkv))
    simp only [pinterp]
    cases hcc : collectPVKVs (pinterp m0 preq pes env n) kvs with
    | error r => rw [hcc] at hc; exact hc
    | ok pkvs =>
      rw [hcc] at hc
      have hs := splitPV_in hc
      simp only []
      cases hsp : splitPV (pkvs.map (·.2)) with
      | inl vs =>
        rw [hsp] at hs
        intro u hu
        simp only [valueUids] at hu
        rcases Cedar.Batched.foldl_insertKV_sub _ _ u hu with h | h
        · exact hs u (valueUidsKVs_zip _ _ u h)
        · simp [valueUidsKVs] at h
      | inr rs =>
        rw [hsp] at hs
        intro u hu
        simp only [exprUids] at hu
        exact hs u (exprUidsKVs_zip _ _ u hu)
  | getAttr e0 attr =>
    have se := ih e0 (eIn_getAttr.mp hE)
    simp only [pinterp]
    cases hxe : pinterp m0 preq pes env n e0 with
    | fuel => trivial
    | panic => trivial
    | err c => trivial
    | res r =>
      rw [hxe] at se
      simp only []
      split
      · rename_i kvs
        split
        · split
          · trivial
          · rename_i e' hlk; exact ih e' (eIn_lookupKV se hlk)
        · split
          · exact eIn_getAttr.mpr se
          · trivial
      · exact eIn_getAttr.mpr se
    | val v =>
      rw [hxe] at se
      cases v with
      | set vs => trivial
      | ext x => trivial
      | record kvs =>
        simp only []
        cases hl : lookupKV kvs attr with
        | none => trivial
        | some w => exact vIn_lookupKV se hl
      | prim p =>
        cases p with
        | bool b => trivial
        | int i => trivial
        | string s => trivial
        | entityUID u =>
          simp only []
          rcases entity_cases pes u with ⟨d, hf, hEn⟩ | ⟨hf, hp, hEn⟩ | ⟨hf, hp, hEn⟩
          · rw [hEn]
            simp only []
            cases hl : lookupKV d.attrs attr with
            | none => trivial
            | some pv =>
              have hpv := (hS u d hf).1 attr pv hl
              cases pv with
              | value w => exact hpv
              | residual r =>
                cases r <;> first | exact hpv | exact goodRes_unknownToPV hM _ _
          · rw [hEn]; trivial
          · rw [hEn]; exact eIn_getAttr.mpr (eIn_unknown _ _)
  | hasAttr e0 attr =>
    have se := ih e0 (eIn_hasAttr.mp hE)
    simp only [pinterp]
    cases hxe : pinterp m0 preq pes env n e0 with
    | fuel => trivial
    | panic => trivial
    | err c => trivial
    | res r =>
      rw [hxe] at se
      simp only []
      split
      · split
        · exact vIn_bool _
        · exact eIn_hasAttr.mpr se
      · exact eIn_hasAttr.mpr se
    | val v =>
      cases v with
      | set vs => trivial
      | ext x => trivial
      | record kvs => exact vIn_bool _
      | prim p =>
        cases p with
        | bool b => trivial
        | int i => trivial
        | string s => trivial
        | entityUID u =>
          simp only []
          rcases entity_cases pes u with ⟨d, hf, hEn⟩ | ⟨hf, hp, hEn⟩ | ⟨hf, hp, hEn⟩
          · rw [hEn]; exact vIn_bool _
          · rw [hEn]; exact vIn_bool _
          · rw [hEn]; exact eIn_hasAttr.mpr (eIn_unknown _ _)

end

/-! ### the finite set of mentioned uids -/

def pvUids : PartialValue → List EntityUID
  | .value v => valueUids v
  | .residual r => exprUids r

def pattrsUids : List (String × PartialValue) → List EntityUID
  | [] => []
  | (_, pv) :: rest => pvUids pv ++ pattrsUids rest

def storeUids : List (EntityUID × PEntityData) → List EntityUID
  | [] => []
  | (_, d) :: rest => pattrsUids d.attrs ++ pattrsUids d.tags ++ storeUids rest

def entryUids : UidEntry → List EntityUID
  | .known u => [u]
  | .unknown _ => []

def ctxUids : Option PContext → List EntityUID
  | none => []
  | some (.value kvs) => valueUidsKVs kvs
  | some (.residual kvs) => exprUidsKVs kvs

def mapUids : Mapper → List EntityUID
  | [] => []
  | (_, v) :: rest => valueUids v ++ mapUids rest

/-- every uid the first pass on `e` can dereference: literals of `e`, known request entries, context, values of the mapper,
    slot environment, attribute / tag values (known or residual) of the partial store -/
def mentioned (m0 : Mapper) (preq : PRequest) (pes : PEntities) (env : SlotEnv) (e : Expr) : List EntityUID :=
  exprUids e ++ entryUids preq.principal ++ entryUids preq.action ++ entryUids preq.resource ++ ctxUids preq.context ++
    mapUids m0 ++ env.map (·.2) ++ storeUids pes.ents

theorem pattrsIn_of {U : EntityUID → Prop} {kvs : List (String × PartialValue)} (h : ∀ u, u ∈ pattrsUids kvs → U u) :
    PAttrsIn U kvs := by
  induction kvs with
  | nil => intro k pv hl; simp [lookupKV] at hl
  | cons x rest ih =>
    obtain ⟨k', pv'⟩ := x
    simp only [pattrsUids] at h
    obtain ⟨h1, h2⟩ := eIn_app.mp h
    intro k pv hl
    simp only [lookupKV] at hl
    split at hl
    · cases hl; cases pv' <;> exact h1
    · exact ih h2 k pv hl

theorem storeIn_of {U : EntityUID → Prop} {pes : PEntities} (h : ∀ u, u ∈ storeUids pes.ents → U u) : StoreIn U pes := by
  obtain ⟨ents, mode⟩ := pes
  simp only at h
  intro u d hf
  simp only at hf
  induction ents with
  | nil => simp [PEntities.find?] at hf
  | cons x rest ih =>
    obtain ⟨u', d'⟩ := x
    simp only [storeUids] at h
    obtain ⟨h12, h3⟩ := eIn_app.mp h
    obtain ⟨h1, h2⟩ := eIn_app.mp h12
    simp only [PEntities.find?] at hf
    split at hf
    · cases hf; exact ⟨pattrsIn_of h1, pattrsIn_of h2⟩
    · exact ih h3 hf

theorem mapIn_of {U : EntityUID → Prop} {m : Mapper} (h : ∀ u, u ∈ mapUids m → U u) : MapIn U m := by
  induction m with
  | nil => intro k v hl; simp [lookupKV] at hl
  | cons x rest ih =>
    obtain ⟨k', v'⟩ := x
    simp only [mapUids] at h
    obtain ⟨h1, h2⟩ := eIn_app.mp h
    intro k v hl
    simp only [lookupKV] at hl
    split at hl
    · cases hl; exact h1
    · exact ih h2 k v hl

theorem envIn_of {U : EntityUID → Prop} {env : SlotEnv} (h : ∀ u, u ∈ env.map (·.2) → U u) : EnvIn U env := by
  induction env with
  | nil => intro s u hl; simp [List.lookup] at hl
  | cons x rest ih =>
    obtain ⟨s', u'⟩ := x
    intro s u hl
    simp only [List.lookup] at hl
    split at hl
    · cases hl; exact h _ (by simp)
    · exact ih (fun w hw => h w (by simp only [List.map_cons, List.mem_cons]; exact Or.inr hw)) s u hl

theorem entryIn_of {U : EntityUID → Prop} {en : UidEntry} (h : ∀ u, u ∈ entryUids en → U u) : EntryIn U en := by
  cases en with
  | known u => exact h u (by simp [entryUids])
  | unknown ty => trivial

theorem ctxIn_of {U : EntityUID → Prop} {c : Option PContext} (h : ∀ u, u ∈ ctxUids c → U u) : CtxIn U c := by
  cases c with
  | none => trivial
  | some c =>
    cases c with
    | value kvs => intro u hu; exact h u (by simpa [ctxUids, valueUids] using hu)
    | residual kvs => intro u hu; exact h u (by simpa [ctxUids, exprUids] using hu)

/-- the list `mentioned` satisfies every hypothesis of `pinterp_in` -/
theorem mentioned_closed (m0 : Mapper) (preq : PRequest) (pes : PEntities) (env : SlotEnv) (e : Expr) :
    let U := fun u => u ∈ mentioned m0 preq pes env e
    EIn U e ∧ StoreIn U pes ∧ ReqIn U preq ∧ MapIn U m0 ∧ EnvIn U env := by
  intro U
  have hall : ∀ u, u ∈ mentioned m0 preq pes env e → U u := fun u hu => hu
  unfold mentioned at hall
  obtain ⟨h7, hstore⟩ := eIn_app.mp hall
  obtain ⟨h6, henv⟩ := eIn_app.mp h7
  obtain ⟨h5, hmap⟩ := eIn_app.mp h6
  obtain ⟨h4, hctx⟩ := eIn_app.mp h5
  obtain ⟨h3, hres⟩ := eIn_app.mp h4
  obtain ⟨h2, hact⟩ := eIn_app.mp h3
  obtain ⟨hexpr, hprin⟩ := eIn_app.mp h2
  exact ⟨hexpr, storeIn_of hstore, ⟨entryIn_of hprin, entryIn_of hact, entryIn_of hres, ctxIn_of hctx⟩, mapIn_of hmap, envIn_of henv⟩

end PS
end Cedar
