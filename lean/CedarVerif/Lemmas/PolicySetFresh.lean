import CedarVerif.Lemmas.PolicySetMergeInv
import Std.Data.String.ToNat
/-
C08 helper lemmas, part 13: `get_fresh_id` returns an unbound id (its loop always finds one within the fuel of the
model), the generated ids are pairwise distinct, and the renaming computed by `merge_policyset` satisfies `RenOK`.
-/
namespace Cedar
open LHM

namespace PolicySet

def candId (j : Nat) : String := s!"policy{j}"

theorem candId_inj {i j : Nat} (h : candId i = candId j) : i = j := by
  unfold candId at h
  have h' : "policy" ++ Nat.repr i = "policy" ++ Nat.repr j := by
    simpa [toString] using h
  exact Nat.repr_inj.mp ((String.append_right_inj _).mp h')

def anyBound (A B : PolicySet) (id : String) : Bool := A.idIsBound id || B.idIsBound id

theorem freshId_spec (A B : PolicySet) : ∀ (fuel start : Nat) (Bd : List String),
    (∀ j, start ≤ j → anyBound A B (candId j) = true → candId j ∈ Bd) → Bd.length ≤ fuel →
    ∃ j, start ≤ j ∧ freshId A B fuel start = (candId j, j + 1) ∧ anyBound A B (candId j) = false := by
  intro fuel
  induction fuel with
  | zero =>
    intro start Bd hB hl
    have : Bd = [] := List.eq_nil_of_length_eq_zero (Nat.le_zero.mp hl)
    subst this
    refine ⟨start, Nat.le_refl _, rfl, ?_⟩
    cases hb : anyBound A B (candId start) with
    | false => rfl
    | true => exact absurd (hB start (Nat.le_refl _) hb) (by simp)
  | succ fuel ih =>
    intro start Bd hB hl
    cases hb : anyBound A B (candId start) with
    | false =>
      refine ⟨start, Nat.le_refl _, ?_, hb⟩
      unfold freshId
      unfold anyBound candId at hb
      simp only [hb, Bool.false_eq_true, if_false]
      rfl
    | true =>
      have hmem := hB start (Nat.le_refl _) hb
      obtain ⟨j, hj, hf, hn⟩ := ih (start + 1) (Bd.erase (candId start))
        (by
          intro j hj hbj
          have hne : candId j ≠ candId start := by
            intro e; have := candId_inj e; omega
          exact (List.mem_erase_of_ne hne).mpr (hB j (by omega) hbj))
        (by
          rw [List.length_erase_of_mem hmem]; omega)
      refine ⟨j, by omega, ?_, hn⟩
      unfold freshId
      unfold anyBound candId at hb
      simp only [hb, if_true]
      exact hf

theorem isBound_iff (A : PolicySet) (k : String) : A.isBound k ↔ A.idIsBound k = true := by
  unfold isBound idIsBound
  simp [contains_eq]

theorem freshId_top (A B : PolicySet) (start : Nat) :
    ∃ j, start ≤ j ∧ freshId A B (freshFuel A B) start = (candId j, j + 1) ∧
      ¬ A.isBound (candId j) ∧ ¬ B.isBound (candId j) := by
  obtain ⟨j, hj, hf, hn⟩ := freshId_spec A B (freshFuel A B) start
    (A.templates.keys ++ A.links.keys ++ B.templates.keys ++ B.links.keys)
    (by
      intro j _ hb
      unfold anyBound idIsBound at hb
      simp only [Bool.or_eq_true, contains_eq] at hb
      simp only [List.mem_append, mem_keys_iff]
      rcases hb with (h | h) | (h | h)
      · exact Or.inl (Or.inl (Or.inl h))
      · exact Or.inl (Or.inl (Or.inr h))
      · exact Or.inl (Or.inr h)
      · exact Or.inr h)
    (by
      unfold freshFuel
      simp only [List.length_append, LHM.keys, List.length_map]
      omega)
  refine ⟨j, hj, hf, ?_, ?_⟩
  · rw [isBound_iff]; intro h; unfold anyBound at hn; simp [h] at hn
  · rw [isBound_iff]; intro h; unfold anyBound at hn; simp [h] at hn

theorem addFresh_spec (A B : PolicySet) (st : RenSt) (pid : String) :
    ∃ j, st.next ≤ j ∧ st.addFresh A B pid = { ren := st.ren.insert pid (candId j), next := j + 1 } ∧
      ¬ A.isBound (candId j) ∧ ¬ B.isBound (candId j) := by
  obtain ⟨j, hj, hf, hA, hB⟩ := freshId_top A B st.next
  refine ⟨j, hj, ?_, hA, hB⟩
  unfold RenSt.addFresh
  rw [hf]

/-- invariant of the renaming under construction -/
structure StInv (A B : PolicySet) (st : RenSt) : Prop where
  vals : ∀ k n, st.ren.get? k = some n → ∃ j, j < st.next ∧ n = candId j ∧ ¬ A.isBound n ∧ ¬ B.isBound n
  inj : ∀ k k' n, st.ren.get? k = some n → st.ren.get? k' = some n → k = k'
  conf : ∀ k, st.ren.get? k ≠ none → Conflict A B k

theorem addFresh_inv (A B : PolicySet) (st : RenSt) (pid : String) (inv : StInv A B st)
    (hnone : st.ren.get? pid = none) (hc : Conflict A B pid) :
    StInv A B (st.addFresh A B pid) ∧ (st.addFresh A B pid).ren.get? pid ≠ none ∧
    (∀ k n, st.ren.get? k = some n → (st.addFresh A B pid).ren.get? k = some n) := by
  obtain ⟨j, hj, heq, hA, hB⟩ := addFresh_spec A B st pid
  rw [heq]
  refine ⟨⟨?_, ?_, ?_⟩, ?_, ?_⟩
  · intro k n
    simp only [get?_insert]
    by_cases hk : k = pid
    · simp only [hk, if_true, Option.some.injEq]
      intro e; subst e
      exact ⟨j, Nat.lt_succ_self j, rfl, hA, hB⟩
    · simp only [hk, if_false]
      intro h
      obtain ⟨j', hj', hn, h1, h2⟩ := inv.vals k n h
      exact ⟨j', by omega, hn, h1, h2⟩
  · intro k k' n
    simp only [get?_insert]
    by_cases hk : k = pid <;> by_cases hk' : k' = pid
    · intro _ _; rw [hk, hk']
    · simp only [hk, hk', if_true, if_false, Option.some.injEq]
      intro e h; subst e
      obtain ⟨j', hj', hn, _⟩ := inv.vals k' _ h
      have := candId_inj hn; omega
    · simp only [hk, hk', if_true, if_false, Option.some.injEq]
      intro h e; subst e
      obtain ⟨j', hj', hn, _⟩ := inv.vals k _ h
      have := candId_inj hn; omega
    · simp only [hk, hk', if_false]
      exact inv.inj k k' n
  · intro k
    simp only [get?_insert]
    by_cases hk : k = pid
    · intro _; rw [hk]; exact hc
    · simp only [hk, if_false]; exact inv.conf k
  · simp [get?_insert]
  · intro k n h
    simp only [get?_insert]
    have : k ≠ pid := by intro e; rw [e, hnone] at h; cases h
    simp only [this, if_false]; exact h

/-- one loop of the renaming computation -/
theorem loop_spec {α} (A B : PolicySet) (stp : RenSt → String × α → RenSt) (trigP : String × α → Prop)
    (hstep : ∀ st e, (trigP e ∧ st.ren.get? e.1 = none ∧ stp st e = st.addFresh A B e.1) ∨
      ((¬ trigP e ∨ st.ren.get? e.1 ≠ none) ∧ stp st e = st)) :
    ∀ (l : List (String × α)), (∀ e, e ∈ l → trigP e → Conflict A B e.1) → ∀ st, StInv A B st →
    StInv A B (l.foldl stp st) ∧ (∀ k n, st.ren.get? k = some n → (l.foldl stp st).ren.get? k = some n) ∧
    (∀ e, e ∈ l → trigP e → (l.foldl stp st).ren.get? e.1 ≠ none) := by
  intro l
  induction l with
  | nil => intro _ st inv; exact ⟨inv, fun _ _ h => h, fun e he => by simp at he⟩
  | cons e rest ih =>
    intro hconf st inv
    simp only [List.foldl_cons]
    have h1 : StInv A B (stp st e) ∧ (∀ k n, st.ren.get? k = some n → (stp st e).ren.get? k = some n) ∧
        (trigP e → (stp st e).ren.get? e.1 ≠ none) := by
      rcases hstep st e with ⟨ht, hn, heq⟩ | ⟨hor, heq⟩
      · rw [heq]
        obtain ⟨i, hne, hm⟩ := addFresh_inv A B st e.1 inv hn (hconf e (by simp) ht)
        exact ⟨i, hm, fun _ => hne⟩
      · rw [heq]
        refine ⟨inv, fun _ _ h => h, fun ht => ?_⟩
        rcases hor with h | h
        · exact absurd ht h
        · exact h
    obtain ⟨inv1, mono1, trig1⟩ := h1
    obtain ⟨inv2, mono2, trig2⟩ := ih (fun e' he' => hconf e' (by simp [he'])) (stp st e) inv1
    refine ⟨inv2, fun k n h => mono2 k n (mono1 k n h), ?_⟩
    intro e' he' ht
    rcases List.mem_cons.mp he' with rfl | he'
    · cases hg : (stp st e').ren.get? e'.1 with
      | none => exact absurd hg (trig1 ht)
      | some n => rw [mono2 _ _ hg]; simp
    · exact trig2 e' he' ht


/-! ### the four loops of `merge_policyset`'s renaming computation -/

def step1 (A B : PolicySet) : RenSt → String × Template → RenSt := fun st e =>
  match A.templates.get? e.1 with
  | some tt => if !(Template.beq tt e.2) && !(st.ren.contains e.1) then st.addFresh A B e.1 else st
  | none => st

def step2 (A B : PolicySet) : RenSt → String × TPolicy → RenSt := fun st e =>
  match A.links.get? e.1 with
  | some tt => if !(TPolicy.beq tt e.2) && !(st.ren.contains e.1) then st.addFresh A B e.1 else st
  | none => st

def step3 (A B : PolicySet) : RenSt → String × Template → RenSt := fun st e =>
  if !e.2.isStatic && A.links.contains e.1 && !(st.ren.contains e.1) then st.addFresh A B e.1 else st

def step4 (A B : PolicySet) : RenSt → String × TPolicy → RenSt := fun st e =>
  if !e.2.isStatic && A.templates.contains e.1 && !(st.ren.contains e.1) then st.addFresh A B e.1 else st

theorem mergeRenaming_eq (A B : PolicySet) :
    mergeRenaming A B =
      (B.links.foldl (step4 A B) (B.templates.foldl (step3 A B) (B.links.foldl (step2 A B)
        (B.templates.foldl (step1 A B) {})))).ren := by
  unfold mergeRenaming updateRenaming
  simp only
  rw [foldl_congr' _ (step1 A B) ?_ B.templates ({} : RenSt)]
  rw [foldl_congr' _ (step2 A B) ?_ B.links (B.templates.foldl (step1 A B) {})]
  rw [foldl_congr' _ (step3 A B) ?_ B.templates (B.links.foldl (step2 A B) (B.templates.foldl (step1 A B) {}))]
  rw [foldl_congr' _ (step4 A B) ?_ B.links]
  all_goals
    intro st e
    first
      | rfl
      | (unfold step1; cases A.templates.get? e.1 <;> rfl)
      | (unfold step2; cases A.links.get? e.1 <;> rfl)

theorem contains_ren (st : RenSt) (k : String) : st.ren.contains k = true ↔ st.ren.get? k ≠ none := by
  rw [contains_eq]; cases st.ren.get? k <;> simp

theorem step1_ok (A B : PolicySet) (st : RenSt) (e : String × Template) :
    ((∃ t', A.templates.get? e.1 = some t' ∧ t'.beq e.2 = false) ∧ st.ren.get? e.1 = none ∧
      step1 A B st e = st.addFresh A B e.1) ∨
    ((¬ (∃ t', A.templates.get? e.1 = some t' ∧ t'.beq e.2 = false) ∨ st.ren.get? e.1 ≠ none) ∧ step1 A B st e = st) := by
  unfold step1
  cases ht : A.templates.get? e.1 with
  | none => exact Or.inr ⟨Or.inl (by simp), rfl⟩
  | some tt =>
    simp only
    cases hq : tt.beq e.2 with
    | true => exact Or.inr ⟨Or.inl (by simp [hq]), by simp⟩
    | false =>
      cases hg : st.ren.get? e.1 with
      | none =>
        have : st.ren.contains e.1 = false := by rw [contains_eq, hg]; rfl
        exact Or.inl ⟨⟨tt, rfl, hq⟩, rfl, by simp [this]⟩
      | some n =>
        have : st.ren.contains e.1 = true := by rw [contains_eq, hg]; rfl
        exact Or.inr ⟨Or.inr (by simp), by simp [this]⟩

theorem step2_ok (A B : PolicySet) (st : RenSt) (e : String × TPolicy) :
    ((∃ p', A.links.get? e.1 = some p' ∧ p'.beq e.2 = false) ∧ st.ren.get? e.1 = none ∧
      step2 A B st e = st.addFresh A B e.1) ∨
    ((¬ (∃ p', A.links.get? e.1 = some p' ∧ p'.beq e.2 = false) ∨ st.ren.get? e.1 ≠ none) ∧ step2 A B st e = st) := by
  unfold step2
  cases ht : A.links.get? e.1 with
  | none => exact Or.inr ⟨Or.inl (by simp), rfl⟩
  | some tt =>
    simp only
    cases hq : tt.beq e.2 with
    | true => exact Or.inr ⟨Or.inl (by simp [hq]), by simp⟩
    | false =>
      cases hg : st.ren.get? e.1 with
      | none =>
        have : st.ren.contains e.1 = false := by rw [contains_eq, hg]; rfl
        exact Or.inl ⟨⟨tt, rfl, hq⟩, rfl, by simp [this]⟩
      | some n =>
        have : st.ren.contains e.1 = true := by rw [contains_eq, hg]; rfl
        exact Or.inr ⟨Or.inr (by simp), by simp [this]⟩

theorem step3_ok (A B : PolicySet) (st : RenSt) (e : String × Template) :
    ((e.2.isStatic = false ∧ (A.links.get? e.1).isSome = true) ∧ st.ren.get? e.1 = none ∧
      step3 A B st e = st.addFresh A B e.1) ∨
    ((¬ (e.2.isStatic = false ∧ (A.links.get? e.1).isSome = true) ∨ st.ren.get? e.1 ≠ none) ∧ step3 A B st e = st) := by
  unfold step3
  rw [contains_eq, contains_eq]
  cases hs : e.2.isStatic with
  | true => exact Or.inr ⟨Or.inl (by simp), by simp⟩
  | false =>
    cases ha : (A.links.get? e.1).isSome with
    | false => exact Or.inr ⟨Or.inl (by simp), by simp⟩
    | true =>
      cases hg : st.ren.get? e.1 with
      | none => exact Or.inl ⟨⟨rfl, rfl⟩, rfl, by simp⟩
      | some n => exact Or.inr ⟨Or.inr (by simp), by simp⟩

theorem step4_ok (A B : PolicySet) (st : RenSt) (e : String × TPolicy) :
    ((e.2.isStatic = false ∧ (A.templates.get? e.1).isSome = true) ∧ st.ren.get? e.1 = none ∧
      step4 A B st e = st.addFresh A B e.1) ∨
    ((¬ (e.2.isStatic = false ∧ (A.templates.get? e.1).isSome = true) ∨ st.ren.get? e.1 ≠ none) ∧ step4 A B st e = st) := by
  unfold step4
  rw [contains_eq, contains_eq]
  cases hs : e.2.isStatic with
  | true => exact Or.inr ⟨Or.inl (by simp), by simp⟩
  | false =>
    cases ha : (A.templates.get? e.1).isSome with
    | false => exact Or.inr ⟨Or.inl (by simp), by simp⟩
    | true =>
      cases hg : st.ren.get? e.1 with
      | none => exact Or.inl ⟨⟨rfl, rfl⟩, rfl, by simp⟩
      | some n => exact Or.inr ⟨Or.inr (by simp), by simp⟩

theorem stInv_empty (A B : PolicySet) : StInv A B {} := by
  constructor
  · intro k n h; simp at h
  · intro k k' n h; simp at h
  · intro k h; simp at h

/-- the renaming computed by `merge_policyset` renames exactly the conflicting ids of `other`, to ids that are bound in
neither set and pairwise distinct -/
theorem mergeRenaming_ok (A B : PolicySet) (tnd : B.templates.keys.Nodup) (lnd : B.links.keys.Nodup) :
    RenOK A B (mergeRenaming A B) := by
  rw [mergeRenaming_eq]
  obtain ⟨i1, m1, t1⟩ := loop_spec A B (step1 A B) _ (step1_ok A B) B.templates
    (by
      rintro ⟨k, t⟩ he ⟨t', h1, h2⟩
      exact Or.inl ⟨t, t', get?_of_mem _ _ _ tnd he, h1, h2⟩) {} (stInv_empty A B)
  obtain ⟨i2, m2, t2⟩ := loop_spec A B (step2 A B) _ (step2_ok A B) B.links
    (by
      rintro ⟨k, p⟩ he ⟨p', h1, h2⟩
      exact Or.inr (Or.inl ⟨p, p', get?_of_mem _ _ _ lnd he, h1, h2⟩)) _ i1
  obtain ⟨i3, m3, t3⟩ := loop_spec A B (step3 A B) _ (step3_ok A B) B.templates
    (by
      rintro ⟨k, t⟩ he ⟨h1, h2⟩
      exact Or.inr (Or.inr (Or.inl ⟨t, get?_of_mem _ _ _ tnd he, h1, h2⟩))) _ i2
  obtain ⟨i4, m4, t4⟩ := loop_spec A B (step4 A B) _ (step4_ok A B) B.links
    (by
      rintro ⟨k, p⟩ he ⟨h1, h2⟩
      exact Or.inr (Or.inr (Or.inr ⟨p, get?_of_mem _ _ _ lnd he, h1, h2⟩))) _ i3
  have keep : ∀ {st st' : RenSt} {k : String}, (∀ k n, st.ren.get? k = some n → st'.ren.get? k = some n) →
      st.ren.get? k ≠ none → st'.ren.get? k ≠ none := by
    intro st st' k hm h
    cases hg : st.ren.get? k with
    | none => exact absurd hg h
    | some n => rw [hm k n hg]; simp
  constructor
  · intro k
    constructor
    · rintro (⟨t, t', h1, h2, h3⟩ | ⟨p, p', h1, h2, h3⟩ | ⟨t, h1, h2, h3⟩ | ⟨p, h1, h2, h3⟩)
      · exact keep m4 (keep m3 (keep m2 (t1 (k, t) (mem_of_get? _ _ _ h1) ⟨t', h2, h3⟩)))
      · exact keep m4 (keep m3 (t2 (k, p) (mem_of_get? _ _ _ h1) ⟨p', h2, h3⟩))
      · exact keep m4 (t3 (k, t) (mem_of_get? _ _ _ h1) ⟨h2, h3⟩)
      · exact t4 (k, p) (mem_of_get? _ _ _ h1) ⟨h2, h3⟩
    · exact i4.conf k
  · intro k n h
    obtain ⟨_, _, _, hA, _⟩ := i4.vals k n h
    exact hA
  · intro k n h
    obtain ⟨_, _, _, _, hB⟩ := i4.vals k n h
    exact hB
  · exact i4.inj

end PolicySet
end Cedar
