import CedarVerif.Lemmas.PartialStore4
/-
C13: the scenario of `second_round_needed` / `direct_unknown_one_round` (Thm/C13.lean) — an entity with an unknown nested
in an attribute value, a direct unknown attribute and a direct unknown tag; unknown principal.
-/
namespace Cedar
namespace PS

/-- the store of `second_round_needed`: `User::"a"` with `info = {x: unknown("u")}` (an unknown *nested* in an attribute
    value), `level = unknown("u")` (a *direct* unknown attribute) and the tag `t = unknown("u")` -/
def srPes : PEntities := ⟨[(⟨"User", "a"⟩, ⟨[("info", .residual (.record [("x", .unknown "u" none)])),
  ("level", .residual (.unknown "u" none))], [], [("t", .residual (.unknown "u" none))]⟩)], false⟩
/-- … and its completion under `u ↦ 1` -/
def srEs : Entities := [(⟨"User", "a"⟩, ⟨[("info", .record [("x", .prim (.int 1))]), ("level", .prim (.int 1))], [],
  [("t", .prim (.int 1))]⟩)]
def srSigma : Mapper := [("principal", .prim (.entityUID ⟨"User", "a"⟩)), ("u", .prim (.int 1))]
def srPreq : PRequest := ⟨.unknown (some "User"), .known ⟨"A", "x"⟩, .known ⟨"R", "r"⟩, some (.value [])⟩
def srReq : Request := ⟨⟨"User", "a"⟩, ⟨"A", "x"⟩, ⟨"R", "r"⟩, []⟩
def srNested : Policy := ⟨"nested", .permit, .binaryApp .eq (.getAttr (.var .principal) "info") (.record [("x", .lit (.int 1))]), []⟩
def srDirect : Policy := ⟨"direct", .permit, .binaryApp .eq (.getAttr (.var .principal) "level") (.lit (.int 1)), []⟩
def srTag : Policy := ⟨"tag", .permit, .binaryApp .eq (.binaryApp .getTag (.var .principal) (.lit (.string "t"))) (.lit (.int 1)), []⟩

/-- the hypotheses of `partial_authorization_sound` hold in the scenario of `second_round_needed` -/
theorem sr_storeCompletes : StoreCompletes srSigma srPes srEs ∧ Concretizes2 srSigma srEs srPreq srReq := by
  have hu : UnkOK srSigma "u" none := ⟨_, rfl, trivial, by intro t ht; cases ht⟩
  have hcan : (Value.record [("x", .prim (.int 1))]).Canon := ⟨⟨(by intro k' h; cases h), trivial⟩, trivial, trivial⟩
  refine ⟨?_, ⟨rfl, rfl⟩, rfl, rfl, rfl⟩
  refine storeCompletes_single _ _ _ rfl
    (attrsComplete_cons "info" (show AttrCompletes _ _ (.residual _) _ from ⟨.record (by decide) ?_, hcan, fun _ _ => rfl⟩)
      (attrsComplete_cons "level" (show AttrCompletes _ _ (.residual _) (.prim (.int 1)) from ⟨.unknown _ _ hu, trivial, fun _ _ => rfl⟩)
        attrsComplete_nil))
    (attrsComplete_cons "t" (show AttrCompletes _ _ (.residual _) (.prim (.int 1)) from ⟨.unknown _ _ hu, trivial, fun _ _ => rfl⟩)
      attrsComplete_nil)
  intro kv hkv; simp only [List.mem_cons, List.not_mem_nil, or_false] at hkv; subst hkv; exact .unknown _ _ hu

end PS
end Cedar
