import CedarVerif.Cedar.Batched
import CedarVerif.Lemmas.TpeTable
/- C15 helpers: re-interpretation keeps the definite classes (`interpret` returns `Concrete` / `Error` unchanged), the
   decision table is monotone under such refinements, the loop of `is_authorized_batched` and its budget. -/
namespace Cedar.Batched
open Cedar Cedar.Tpe

/-- `interpret` returns a `Concrete` or `Error` residual unchanged -/
theorem interpret_nonpartial (req : Tpe.PRequest) (es : Tpe.PEntities) (r : Residual) (h : r.isPartial = false) :
    interpret req es r = r := by
  cases r with
  | concrete v ty => simp [interpret]
  | error ty => simp [interpret]
  | part k ty => simp [Residual.isPartial] at h

theorem cls_res_of_partial {r : Residual} (h : r.isPartial = true) : r.cls = .res := by
  cases r with
  | part k ty => simp [Residual.cls, Residual.isTrue, Residual.isFalse, Residual.isError]
  | concrete v ty => simp [Residual.isPartial] at h
  | error ty => simp [Residual.isPartial] at h

/-- a definite class survives re-interpretation -/
theorem reinterpret_cls (req : Tpe.PRequest) (es : Tpe.PEntities) (rp : ResidualPolicy) (h : rp.residual.cls ≠ .res) :
    (reinterpret req es rp).residual.cls = rp.residual.cls := by
  have hp : rp.residual.isPartial = false := by
    cases hq : rp.residual.isPartial
    · rfl
    · exact absurd (cls_res_of_partial hq) h
  simp [reinterpret, interpret_nonpartial req es rp.residual hp]

/-- `rs'` refines `rs`: same policies in the same order, effects kept, definite classes kept -/
inductive Refines : List ResidualPolicy → List ResidualPolicy → Prop
  | nil : Refines [] []
  | cons {a b : ResidualPolicy} {rs rs' : List ResidualPolicy} :
      (b.effect = a.effect ∧ (a.residual.cls ≠ .res → b.residual.cls = a.residual.cls)) → Refines rs rs' →
      Refines (a :: rs) (b :: rs')

theorem refines_map (req : Tpe.PRequest) (es : Tpe.PEntities) (rs : List ResidualPolicy) :
    Refines rs (rs.map (reinterpret req es)) := by
  induction rs with
  | nil => exact .nil
  | cons a rs ih => exact .cons ⟨rfl, reinterpret_cls req es a⟩ ih

theorem refines_flag_definite {rs rs' : List ResidualPolicy} (h : Refines rs rs') (eff : Effect) (c : Class) (hc : c ≠ .res)
    (rq : Tpe.PRequest) (e e' : Tpe.PEntities)
    (hf : (Tpe.Response.mk rs rq e).flag eff c = true) : (Tpe.Response.mk rs' rq e').flag eff c = true := by
  induction h with
  | nil => simp [Tpe.Response.flag] at hf
  | cons hab _ ih =>
    simp only [Tpe.Response.flag, List.any_cons, Bool.or_eq_true] at hf ⊢
    rcases hf with hf | hf
    · left
      simp only [Bool.and_eq_true, beq_iff_eq] at hf ⊢
      refine ⟨hab.1.trans hf.1, ?_⟩
      rw [hab.2 (by rw [hf.2]; exact hc), hf.2]
    · right; exact ih hf

theorem refines_flag_res_false {rs rs' : List ResidualPolicy} (h : Refines rs rs') (eff : Effect)
    (rq : Tpe.PRequest) (e e' : Tpe.PEntities)
    (hf : (Tpe.Response.mk rs rq e).flag eff .res = false) : (Tpe.Response.mk rs' rq e').flag eff .res = false := by
  induction h with
  | nil => simp [Tpe.Response.flag]
  | @cons a b _ _ hab _ ih =>
    simp only [Tpe.Response.flag, List.any_cons, Bool.or_eq_false_iff] at hf ⊢
    refine ⟨?_, ih hf.2⟩
    have h1 := hf.1
    simp only [Bool.and_eq_false_iff, beq_eq_false_iff_ne, ne_eq] at h1 ⊢
    rcases h1 with h1 | h1
    · left; rw [hab.1]; exact h1
    · right; rw [hab.2 h1]; exact h1

/-- a true-permit flag can only appear from a residual permit (used for "no true, no residual permit ⇒ still none") -/
theorem refines_flag_tt_false {rs rs' : List ResidualPolicy} (h : Refines rs rs') (eff : Effect)
    (rq : Tpe.PRequest) (e e' : Tpe.PEntities)
    (h1 : (Tpe.Response.mk rs rq e).flag eff .tt = false) (h2 : (Tpe.Response.mk rs rq e).flag eff .res = false) :
    (Tpe.Response.mk rs' rq e').flag eff .tt = false := by
  induction h with
  | nil => simp [Tpe.Response.flag]
  | @cons a b _ _ hab _ ih =>
    simp only [Tpe.Response.flag, List.any_cons, Bool.or_eq_false_iff] at h1 h2 ⊢
    refine ⟨?_, ih h1.2 h2.2⟩
    have g1 := h1.1; have g2 := h2.1
    simp only [Bool.and_eq_false_iff, beq_eq_false_iff_ne, ne_eq] at g1 g2 ⊢
    rcases g2 with g2 | g2
    · left; rw [hab.1]; exact g2
    · rcases g1 with g1 | g1
      · left; rw [hab.1]; exact g1
      · right; rw [hab.2 g2]; exact g1

/-- **the table is monotone**: once definite, a decision survives every refinement of the residuals -/
theorem decision_refines {rs rs' : List ResidualPolicy} (h : Refines rs rs') (rq : Tpe.PRequest) (e e' : Tpe.PEntities) (d : Decision)
    (hd : (Tpe.Response.mk rs rq e).decision = some d) : (Tpe.Response.mk rs' rq e').decision = some d := by
  unfold Tpe.Response.decision at hd ⊢
  cases htf : (Tpe.Response.mk rs rq e).flag .forbid .tt
  · cases htp : (Tpe.Response.mk rs rq e).flag .permit .tt
    · cases hrp : (Tpe.Response.mk rs rq e).flag .permit .res
      · -- no true, no residual permit: deny, and it stays so
        have a1 := refines_flag_tt_false h .permit rq e e' htp hrp
        have a2 := refines_flag_res_false h .permit rq e e' hrp
        cases hrf : (Tpe.Response.mk rs rq e).flag .forbid .res <;>
          simp only [htf, htp, hrp, hrf, Table.decide] at hd <;> cases hd <;>
          cases (Tpe.Response.mk rs' rq e').flag .forbid .tt <;> cases (Tpe.Response.mk rs' rq e').flag .forbid .res <;>
          simp [a1, a2, Table.decide]
      · cases hrf : (Tpe.Response.mk rs rq e).flag .forbid .res <;> simp [htf, htp, hrp, hrf, Table.decide] at hd
    · cases hrf : (Tpe.Response.mk rs rq e).flag .forbid .res
      · have a1 := refines_flag_definite h .permit .tt (by decide) rq e e' htp
        have a2 := refines_flag_res_false h .forbid rq e e' hrf
        have a3 := refines_flag_tt_false h .forbid rq e e' htf hrf
        cases hrp : (Tpe.Response.mk rs rq e).flag .permit .res <;>
          simp only [htf, htp, hrp, hrf, Table.decide] at hd <;> cases hd <;>
          cases (Tpe.Response.mk rs' rq e').flag .permit .res <;> simp [a1, a2, a3, Table.decide]
      · cases hrp : (Tpe.Response.mk rs rq e).flag .permit .res <;> simp [htf, htp, hrp, hrf, Table.decide] at hd
  · have a1 := refines_flag_definite h .forbid .tt (by decide) rq e e' htf
    cases (Tpe.Response.mk rs rq e).flag .permit .tt <;> cases (Tpe.Response.mk rs rq e).flag .permit .res <;>
      cases (Tpe.Response.mk rs rq e).flag .forbid .res <;> simp only [htf, Table.decide] at hd <;> cases hd <;>
      simp [a1, Table.decide]

/-- one round keeps a decision already reached -/
theorem step_decision {req : Tpe.PRequest} {loader : Loader} {st st' : State} (h : step req loader st = some st') (d : Decision)
    (hd : st.decision req = some d) : st'.decision req = some d := by
  unfold step at h
  cases ha : addLoaded st.entities (loader st.toLoad) <;> simp [ha] at h
  subst h
  exact decision_refines (refines_map req _ st.residuals) req st.entities _ d hd

/-- the residuals of a state are boolean-typed: a `Concrete` one is `true` or `false`.  This is what validation gives
    (policy conditions have type Bool and `interpret` keeps the type; the typechecker is in the trusted base). -/
def State.BoolTyped (st : State) : Prop :=
  ∀ rp, rp ∈ st.residuals → ∀ v ty, rp.residual = .concrete v ty → ∃ b, v = .prim (.bool b)

/-- a state without partial residuals has a decision -/
theorem done_decides (req : Tpe.PRequest) (st : State) (hb : st.BoolTyped) (h : st.done = true) : ∃ d, st.decision req = some d := by
  apply decides_of_no_residual
  all_goals
    apply flag_false.mpr
    intro rp hrp _ hc
    simp only [State.done, List.all_eq_true] at h
    have := h rp hrp
    cases hq : rp.residual with
    | part k ty => simp [hq, Residual.isPartial] at this
    | concrete v ty =>
      obtain ⟨b, rfl⟩ := hb rp hrp v ty hq
      rw [hq] at hc
      cases b <;> simp [Residual.cls, Residual.isTrue, Residual.isFalse] at hc
    | error ty => rw [hq] at hc; simp [Residual.cls, Residual.isTrue, Residual.isFalse, Residual.isError] at hc

/-- every round succeeds (no duplicate error): true of loaders that never return an id that is already loaded -/
def StepOk (req : Tpe.PRequest) (loader : Loader) : Prop := ∀ st, ∃ st', step req loader st = some st'

/-- with a larger budget the loop reaches a state with the same decision -/
theorem loop_mono {req : Tpe.PRequest} {loader : Loader} (hok : StepOk req loader) (b : Nat) (st st1 : State) (d : Decision)
    (h : loop req loader b st = some st1) (hd : st1.decision req = some d) :
    ∃ st2, loop req loader (b + 1) st = some st2 ∧ st2.decision req = some d := by
  induction b generalizing st with
  | zero =>
    simp only [loop, Option.some.injEq] at h; subst h
    obtain ⟨st', hs⟩ := hok st
    have hd' := step_decision hs d hd
    refine ⟨st', ?_, hd'⟩
    simp only [loop, hs]
    split <;> rfl
  | succ n ih =>
    simp only [loop] at h ⊢
    cases hs : step req loader st with
    | none => simp [hs] at h
    | some st' =>
      simp only [hs] at h ⊢
      cases hdn : st'.done
      · simp only [hdn] at h
        obtain ⟨st2, h2, hd2⟩ := ih st' h
        refine ⟨st2, ?_, hd2⟩
        simpa [loop, hdn] using h2
      · simp only [hdn, if_true, Option.some.injEq] at h
        subst h
        exact ⟨st', by simp, hd⟩

end Cedar.Batched
