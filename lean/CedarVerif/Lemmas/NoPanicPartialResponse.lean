import CedarVerif.Cedar.NoPanic.PartialResponse
/-
C20 lemmas for `Cedar/NoPanic/PartialResponse.lean`: which accessors of `PartialResponse` can reach the `expect` of
`Policy::new`, exactly when, and agreement with the C13 model (`PartialResponse.mayPanics`, `.residualPoliciesPanic`,
`.allResidualPolicies`, `.reauthorize` of `Cedar/Partial.lean`).
-/
namespace Cedar
namespace NoPanic

def PolOutcome.isPanic : PolOutcome → Bool
  | .panic _ => true
  | .policy _ => false

def PolsOutcome.isPanic : PolsOutcome → Bool
  | .panic _ => true
  | .policies _ => false

theorem constructPolicy_isPanic (eff : Effect) (id : String) (e : Expr) : (constructPolicy eff id e).isPanic = e.hasSlot := by
  unfold constructPolicy
  cases e.hasSlot <;> simp [PolOutcome.isPanic]

theorem constructPolicy_of_noSlot (eff : Effect) (id : String) (e : Expr) (h : e.hasSlot = false) :
    constructPolicy eff id e = .policy { id := id, effect := eff, condition := residualCondition e, env := [] } := by
  simp [constructPolicy, h]

theorem collect_isPanic : ∀ (l : List PolOutcome), (collect l).isPanic = l.any PolOutcome.isPanic
  | [] => rfl
  | .panic s :: rest => by simp [collect, PolsOutcome.isPanic, PolOutcome.isPanic]
  | .policy p :: rest => by
    have ih := collect_isPanic rest
    simp only [collect, List.any_cons, PolOutcome.isPanic, Bool.false_or]
    cases h : collect rest with
    | policies ps => rw [h] at ih; simpa [PolsOutcome.isPanic] using ih
    | panic s => rw [h] at ih; simpa [PolsOutcome.isPanic] using ih

/-- every panic of a collected iterator is the `Policy::new` site -/
theorem collect_panic_site : ∀ (l : List PolOutcome), (∀ o ∈ l, ∀ s, o = .panic s → s = policyNewSite) →
    ∀ s, collect l = .panic s → s = policyNewSite
  | [], _, s, h => by simp [collect] at h
  | .panic s0 :: rest, hs, s, h => by
    simp only [collect] at h
    injection h with h
    subst h
    exact hs _ (List.mem_cons_self ..) _ rfl
  | .policy p :: rest, hs, s, h => by
    simp only [collect] at h
    cases hc : collect rest with
    | policies ps => rw [hc] at h; cases h
    | panic s1 =>
      rw [hc] at h
      injection h with h
      subst h
      exact collect_panic_site rest (fun o ho => hs o (List.mem_cons_of_mem _ ho)) _ hc

theorem collect_policies : ∀ (l : List PolOutcome) (ps : List Policy), l = ps.map PolOutcome.policy → collect l = .policies ps
  | _, [], h => by subst h; rfl
  | _, p :: ps, h => by subst h; simp [collect, collect_policies (ps.map PolOutcome.policy) ps rfl]

theorem not_isPanic_iff (o : PolsOutcome) : o.isPanic = false ↔ ∀ s, o ≠ .panic s := by
  cases o <;> simp [PolsOutcome.isPanic]

theorem any_map_construct {α} (eff : Effect) (l : List α) (fid : α → String) (fe : α → Expr) :
    (l.map (fun x => constructPolicy eff (fid x) (fe x))).any PolOutcome.isPanic = l.any (fun x => (fe x).hasSlot) := by
  induction l with
  | nil => rfl
  | cons a as ih => simp only [List.map_cons, List.any_cons, ih, constructPolicy_isPanic]

theorem trueExpr_noSlot : trueExpr.hasSlot = false := by simp [trueExpr, Expr.hasSlot]
theorem falseExpr_noSlot : falseExpr.hasSlot = false := by simp [falseExpr, Expr.hasSlot]

theorem any_const_false {α} (l : List α) : l.any (fun _ => false) = false := by
  induction l <;> simp_all

variable (pr : PartialResponse)

theorem satPermits_noPanic : (definitelySatisfiedPermits pr).any PolOutcome.isPanic = false := by
  unfold definitelySatisfiedPermits
  rw [any_map_construct .permit pr.satisfiedPermits (fun x => x) (fun _ => trueExpr)]
  simp [trueExpr_noSlot]

theorem satForbids_noPanic : (definitelySatisfiedForbids pr).any PolOutcome.isPanic = false := by
  unfold definitelySatisfiedForbids
  rw [any_map_construct .forbid pr.satisfiedForbids (fun x => x) (fun _ => trueExpr)]
  simp [trueExpr_noSlot]

theorem resPermits_panic : (residualPermits pr).any PolOutcome.isPanic = pr.residualPermits.any (·.2.hasSlot) := by
  unfold residualPermits
  exact any_map_construct .permit pr.residualPermits (·.1) (·.2)

theorem resForbids_panic : (residualForbids pr).any PolOutcome.isPanic = pr.residualForbids.any (·.2.hasSlot) := by
  unfold residualForbids
  exact any_map_construct .forbid pr.residualForbids (·.1) (·.2)

/-- `definitely_satisfied` and `must_be_determining` only ever build policies from `true_expr`: no panic, unconditionally -/
theorem definitelySatisfied_safe : (definitelySatisfied pr).isPanic = false := by
  unfold definitelySatisfied
  rw [collect_isPanic, List.any_append, satPermits_noPanic, satForbids_noPanic]; rfl

theorem mustBeDetermining_safe : (mustBeDetermining pr).isPanic = false := by
  unfold mustBeDetermining
  split
  · rw [collect_isPanic, satPermits_noPanic]
  · rw [collect_isPanic, satForbids_noPanic]

/-- `may_be_determining` panics exactly when the C13 model says so -/
theorem mayBeDetermining_isPanic : (mayBeDetermining pr).isPanic = pr.mayPanics := by
  unfold mayBeDetermining PartialResponse.mayPanics
  split
  · rw [collect_isPanic, List.any_append, List.any_append, satPermits_noPanic, resPermits_panic, resForbids_panic]; simp
  · rw [collect_isPanic, List.any_append, satForbids_noPanic, resForbids_panic]; simp

theorem nontrivialResiduals_isPanic : (nontrivialResiduals pr).isPanic = pr.residualPoliciesPanic := by
  unfold nontrivialResiduals PartialResponse.residualPoliciesPanic
  rw [collect_isPanic, List.any_append, resPermits_panic, resForbids_panic]

theorem allResidualOutcomes_any : (allResidualOutcomes pr).any PolOutcome.isPanic = pr.residualPoliciesPanic := by
  unfold allResidualOutcomes PartialResponse.residualPoliciesPanic
  simp only [List.any_append]
  rw [any_map_construct .permit pr.satisfiedPermits (fun x => x) (fun _ => trueExpr),
    any_map_construct .permit pr.falsePermits (·.1) (fun _ => falseExpr),
    any_map_construct .permit pr.residualPermits (·.1) (·.2),
    any_map_construct .forbid pr.satisfiedForbids (fun x => x) (fun _ => trueExpr),
    any_map_construct .forbid pr.falseForbids (·.1) (fun _ => falseExpr),
    any_map_construct .forbid pr.residualForbids (·.1) (·.2)]
  simp only [trueExpr_noSlot, falseExpr_noSlot, any_const_false, Bool.false_or, Bool.or_false]

theorem allResiduals_isPanic : (allResiduals pr).isPanic = pr.residualPoliciesPanic := by
  unfold allResiduals
  rw [collect_isPanic, allResidualOutcomes_any]

theorem any_hasSlot_false {α} {l : List (α × Expr)} (h : l.any (·.2.hasSlot) = false) : ∀ x ∈ l, x.2.hasSlot = false := by
  intro x hx
  cases hs : x.2.hasSlot with
  | false => rfl
  | true =>
    have : l.any (·.2.hasSlot) = true := List.any_eq_true.mpr ⟨x, hx, hs⟩
    rw [h] at this; cases this

theorem map_construct_eq {α} (eff : Effect) (l : List α) (fid : α → String) (fe : α → Expr)
    (h : ∀ x ∈ l, (fe x).hasSlot = false) :
    l.map (fun x => constructPolicy eff (fid x) (fe x)) =
      (l.map (fun x => ({ id := fid x, effect := eff, condition := residualCondition (fe x), env := [] } : Policy))).map PolOutcome.policy := by
  rw [List.map_map]
  apply List.map_congr_left
  intro x hx
  exact constructPolicy_of_noSlot _ _ _ (h x hx)

/-- without a slot-keeping residual the constructed policies are exactly `allResidualPolicies` of the C13 model -/
theorem allResidualOutcomes_eq (h : pr.residualPoliciesPanic = false) :
    allResidualOutcomes pr = pr.allResidualPolicies.map PolOutcome.policy := by
  unfold PartialResponse.residualPoliciesPanic at h
  rw [Bool.or_eq_false_iff] at h
  have hp := any_hasSlot_false h.1
  have hf := any_hasSlot_false h.2
  unfold allResidualOutcomes PartialResponse.allResidualPolicies
  rw [map_construct_eq .permit pr.satisfiedPermits (fun x => x) (fun _ => trueExpr) (fun _ _ => trueExpr_noSlot),
    map_construct_eq .permit pr.falsePermits (·.1) (fun _ => falseExpr) (fun _ _ => falseExpr_noSlot),
    map_construct_eq .permit pr.residualPermits (·.1) (·.2) hp,
    map_construct_eq .forbid pr.satisfiedForbids (fun x => x) (fun _ => trueExpr) (fun _ _ => trueExpr_noSlot),
    map_construct_eq .forbid pr.falseForbids (·.1) (fun _ => falseExpr) (fun _ _ => falseExpr_noSlot),
    map_construct_eq .forbid pr.residualForbids (·.1) (·.2) hf]
  simp only [List.map_append, trueExpr, falseExpr]

/-- a residual that kept a slot: both the site-explicit mirror and the C13 model report the `Policy::new` panic -/
theorem reauthorize_panics (m : Mapper) (es : PEntities) (h : pr.residualPoliciesPanic = true) :
    reauthorize pr m es = .panic policyNewSite ∧ pr.reauthorize m es = .error .panic := by
  unfold reauthorize PartialResponse.reauthorize
  have hp : (collect (allResidualOutcomes pr)).isPanic = true := by rw [collect_isPanic, allResidualOutcomes_any, h]
  cases hc : collect (allResidualOutcomes pr) with
  | policies ps => rw [hc] at hp; cases hp
  | panic s =>
    have hs : s = policyNewSite := by
      apply collect_panic_site _ _ s hc
      intro o ho s' hs'
      subst hs'
      unfold allResidualOutcomes at ho
      simp only [List.mem_append, List.mem_map] at ho
      have key : ∀ eff id e, PolOutcome.panic s' = constructPolicy eff id e → s' = policyNewSite := by
        intro eff id e he
        unfold constructPolicy at he
        split at he
        · injection he
        · cases he
      rcases ho with ((((⟨_, _, he⟩ | ⟨_, _, he⟩) | ⟨_, _, he⟩) | ⟨_, _, he⟩) | ⟨_, _, he⟩) | ⟨_, _, he⟩ <;>
        exact key _ _ _ he.symm
    subst hs
    simp [h, bind, Except.bind, throw, throwThe, MonadExceptOf.throw]

/-- no residual kept a slot: the site-explicit `reauthorize` is the C13 model's `reauthorize` -/
theorem reauthorize_eq (m : Mapper) (es : PEntities) (h : pr.residualPoliciesPanic = false) :
    reauthorize pr m es =
      match pr.reauthorize m es with
      | .ok r => .ok r
      | .error e => .err e := by
  unfold reauthorize PartialResponse.reauthorize
  rw [allResidualOutcomes_eq pr h, collect_policies _ _ rfl]
  simp only [h, Bool.false_eq_true, if_false]
  cases hr : pr.concretizeRequest m with
  | error e => simp [bind, Except.bind]
  | ok req => simp [bind, Except.bind, pure, Except.pure]

theorem lookupKV_mem {α} (k : String) : ∀ (l : List (String × α)) (v : α), lookupKV l k = some v → ∃ k', (k', v) ∈ l
  | [], _, h => by simp [lookupKV] at h
  | (k', v') :: rest, v, h => by
    simp only [lookupKV] at h
    split at h
    · injection h with h; subst h; exact ⟨k', List.mem_cons_self ..⟩
    · obtain ⟨k'', hm⟩ := lookupKV_mem k rest v h
      exact ⟨k'', List.mem_cons_of_mem _ hm⟩

theorem getPermit_safe (h : pr.residualPoliciesPanic = false) (id : String) (o : PolOutcome)
    (hg : getPermit pr id = some o) : o.isPanic = false := by
  unfold PartialResponse.residualPoliciesPanic at h
  rw [Bool.or_eq_false_iff] at h
  have hp := any_hasSlot_false h.1
  unfold getPermit at hg
  simp only [Option.map_eq_some_iff] at hg
  obtain ⟨e, he, rfl⟩ := hg
  rw [constructPolicy_isPanic]
  split at he
  · rename_i e' hl
    injection he with he; subst he
    obtain ⟨k', hm⟩ := lookupKV_mem id _ _ hl
    exact hp _ hm
  · split at he
    · injection he with he; subst he; exact trueExpr_noSlot
    · split at he
      · injection he with he; subst he; exact falseExpr_noSlot
      · cases he

theorem getForbid_safe (h : pr.residualPoliciesPanic = false) (id : String) (o : PolOutcome)
    (hg : getForbid pr id = some o) : o.isPanic = false := by
  unfold PartialResponse.residualPoliciesPanic at h
  rw [Bool.or_eq_false_iff] at h
  have hp := any_hasSlot_false h.2
  unfold getForbid at hg
  simp only [Option.map_eq_some_iff] at hg
  obtain ⟨e, he, rfl⟩ := hg
  rw [constructPolicy_isPanic]
  split at he
  · rename_i e' hl
    injection he with he; subst he
    obtain ⟨k', hm⟩ := lookupKV_mem id _ _ hl
    exact hp _ hm
  · split at he
    · injection he with he; subst he; exact trueExpr_noSlot
    · split at he
      · injection he with he; subst he; exact falseExpr_noSlot
      · cases he

theorem get_safe (h : pr.residualPoliciesPanic = false) (id : String) (o : PolOutcome)
    (hg : get pr id = some o) : o.isPanic = false := by
  unfold get at hg
  split at hg
  · rename_i o' hp
    injection hg with hg; subst hg
    exact getPermit_safe pr h id _ hp
  · exact getForbid_safe pr h id o hg

end NoPanic
end Cedar
