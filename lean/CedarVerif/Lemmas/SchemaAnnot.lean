import CedarVerif.Cedar.SchemaAnnot
import CedarVerif.Lemmas.SchemaCollect
/-
Lemmas about annotations (`Cedar/SchemaAnnot.lean`).
-/
namespace Cedar.SchemaSyntax

/-- the continuation does not start with a punctuation token of the `other` class (`@`, `(`, …): it is empty or starts with an
identifier / keyword (`namespace`, `entity`, `action`, `type`) or `}` -/
def startsId : List Tok → Bool
  | .other _ :: _ => false
  | _ => true

theorem startsId_of_isDeclStart (R : List Tok) (h : isDeclStart R = true) : startsId R = true := by
  unfold isDeclStart at h
  split at h <;> simp_all [startsId]

/-- annotation keys are identifier-shaped (`AnyId`) -/
def WFAnns (a : AnnsJ) : Prop := ∀ x ∈ a, identShape x.1 = true

theorem parseAnns_startsId (R : List Tok) (h : startsId R = true) : parseAnns R = some ([], R) := by
  cases R with
  | nil => simp [parseAnns]
  | cons t tl =>
    cases t <;> simp [startsId] at h <;> simp [parseAnns]

theorem parseAnns_print : ∀ (a : AnnsJ), WFAnns a → ∀ (R : List Tok), startsId R = true →
    parseAnns (printAnns a ++ R) = some (a, R)
  | [], _, R, hR => by simpa [printAnns] using parseAnns_startsId R hR
  | (k, some v) :: rest, hw, R, hR => by
    have ih := parseAnns_print rest (fun x hx => hw x (List.mem_cons_of_mem _ hx)) R hR
    have hk : identShape k = true := hw (k, some v) (by simp)
    simp [printAnns, parseAnns, hk, ih]
  | (k, none) :: rest, hw, R, hR => by
    have ih := parseAnns_print rest (fun x hx => hw x (List.mem_cons_of_mem _ hx)) R hR
    have hk : identShape k = true := hw (k, none) (by simp)
    have hnext : ∀ v' r, printAnns rest ++ R = .other "(" :: .str v' :: .other ")" :: r → False := by
      intro v' r heq
      cases rest with
      | nil =>
        cases R with
        | nil => simp [printAnns] at heq
        | cons t tl =>
          simp only [printAnns, List.nil_append, List.cons.injEq] at heq
          rw [heq.1] at hR
          simp [startsId] at hR
      | cons y ys =>
        obtain ⟨k', v''⟩ := y
        cases v'' <;> simp [printAnns] at heq
    simp only [printAnns, List.cons_append]
    rw [parseAnns]
    · simp [hk, ih]
    · exact hnext

theorem dedupAnns_sorted (a : AnnsJ) (hk : KeysSorted a) : dedupAnns a = some (normAnns a) := by
  have h1 := keysSorted_noDup a hk
  have h2 : KeysSorted (normAnns a) := keysSorted_map a (fun x => some (x.2.getD "")) hk
  simp only [dedupAnns, h1, Bool.false_eq_true, if_false]
  rw [sortKeys_of_pairwise _ _ h2]

theorem parseAnnotations_print (a : AnnsJ) (hw : WFAnns a) (hk : KeysSorted a) (R : List Tok) (hR : startsId R = true) :
    parseAnnotations (printAnns a ++ R) = some (normAnns a, R) := by
  simp [parseAnnotations, parseAnns_print a hw R hR, dedupAnns_sorted a hk]

/-- annotated declarations as (annotations, printed tokens, denoted declaration) -/
def printTriples : List (AnnsJ × List Tok × DeclC) → List Tok
  | [] => []
  | (a, P, _) :: l => printAnns a ++ (P ++ printTriples l)

theorem printTriples_append (x y : List (AnnsJ × List Tok × DeclC)) : printTriples (x ++ y) = printTriples x ++ printTriples y := by
  induction x with
  | nil => simp [printTriples]
  | cons t x ih => obtain ⟨a, P, D⟩ := t; simp [printTriples, ih]

theorem parseDeclListA_triples : ∀ (L : List (AnnsJ × List Tok × DeclC)) (fuel : Nat) (rest : List Tok),
    (∀ x ∈ L, WFAnns x.1 ∧ KeysSorted x.1 ∧ GoodDecl x.2.1 x.2.2) → isDeclStart rest = false → startsId rest = true → L.length < fuel →
    parseDeclListA fuel (printTriples L ++ rest) = some (L.map (fun x => (normAnns x.1, x.2.2)), rest)
  | [], fuel, rest, _, hr, hs, hf => by
    obtain ⟨f, rfl⟩ : ∃ f, fuel = f + 1 := ⟨fuel - 1, by omega⟩
    have := parseAnnotations_print [] (by intro x hx; simp at hx) (by simp [KeysSorted]) rest hs
    simp only [printAnns, List.nil_append, normAnns, List.map_nil] at this
    simp [printTriples, parseDeclListA, this, hr]
  | (a, P, D) :: L, fuel, rest, hg, hr, hs, hf => by
    obtain ⟨f, rfl⟩ : ∃ f, fuel = f + 1 := ⟨fuel - 1, by omega⟩
    have ih := parseDeclListA_triples L f rest (fun x hx => hg x (List.mem_cons_of_mem _ hx)) hr hs (by simp at hf; omega)
    obtain ⟨hwa, hka, hgd⟩ := hg (a, P, D) (by simp)
    obtain ⟨hst, hp⟩ := hgd (printTriples L ++ rest)
    have hann := parseAnnotations_print a hwa hka (P ++ (printTriples L ++ rest)) (startsId_of_isDeclStart _ hst)
    simp only [printTriples, List.append_assoc]
    simp only [parseDeclListA, hann, hst, if_true, hp, ih, List.map_cons]

def triplesOfNsA (d : NamespaceA) : List (AnnsJ × List Tok × DeclC) :=
  (d.commons.map fun x => (x.1, printCommonJ x.2.1 x.2.2, DeclC.common x.2.1 (toCedar x.2.2))) ++
  ((d.entities.map fun x => (x.1, printEntityKindJ x.2.1 x.2.2, DeclC.ent (entDeclOf x.2.1 x.2.2))) ++
   (d.actions.map fun x => (x.1, printActionJ x.2.1 x.2.2, DeclC.action (x.2.2.toDecl x.2.1))))

theorem printTriples_nsA (d : NamespaceA) : printTriples (triplesOfNsA d) = printNsA d := by
  obtain ⟨c, e, a⟩ := d
  simp only [triplesOfNsA, printTriples_append, printNsA]
  congr 1
  · induction c with
    | nil => rfl
    | cons x l ih => obtain ⟨an, n, t⟩ := x; simp only [List.map_cons, printTriples, printCommonsA, ih]
  · congr 1
    · induction e with
      | nil => rfl
      | cons x l ih => obtain ⟨an, n, t⟩ := x; simp only [List.map_cons, printTriples, printEntitiesA, ih]
    · induction a with
      | nil => rfl
      | cons x l ih => obtain ⟨an, n, t⟩ := x; simp only [List.map_cons, printTriples, printActionsA, ih]

/-- all annotation maps of the namespace body have identifier keys in `BTreeMap` order -/
def AnnsOKNs (d : NamespaceA) : Prop :=
  (∀ x ∈ d.commons, WFAnns x.1 ∧ KeysSorted x.1) ∧ (∀ x ∈ d.entities, WFAnns x.1 ∧ KeysSorted x.1) ∧
  (∀ x ∈ d.actions, WFAnns x.1 ∧ KeysSorted x.1)

theorem good_triplesOfNsA (d : NamespaceA) (hw : WFNs d.strip) (ha : AnnsOKNs d) :
    ∀ x ∈ triplesOfNsA d, WFAnns x.1 ∧ KeysSorted x.1 ∧ GoodDecl x.2.1 x.2.2 := by
  intro x hx
  simp only [triplesOfNsA, List.mem_append, List.mem_map] at hx
  rcases hx with ⟨y, hy, rfl⟩ | ⟨y, hy, rfl⟩ | ⟨y, hy, rfl⟩
  · obtain ⟨h1, h2, h3, h4⟩ := hw.1 y.2 (by simp only [NamespaceA.strip, List.mem_map]; exact ⟨y, hy, rfl⟩)
    exact ⟨(ha.1 y hy).1, (ha.1 y hy).2, goodDecl_common _ _ h1 h2 h3 h4⟩
  · have := hw.2.1 y.2 (by simp only [NamespaceA.strip, List.mem_map]; exact ⟨y, hy, rfl⟩)
    exact ⟨(ha.2.1 y hy).1, (ha.2.1 y hy).2, goodDecl_entity _ _ this⟩
  · have := hw.2.2 y.2 (by simp only [NamespaceA.strip, List.mem_map]; exact ⟨y, hy, rfl⟩)
    exact ⟨(ha.2.2 y hy).1, (ha.2.2 y hy).2, goodDecl_action _ _ this⟩

/-! ### whole annotated fragments -/


theorem parseItemsA_declStart (f : Nat) (toks r : List Tok) (a : AnnsJ) (hne : toks ≠ [])
    (hp : parseAnnotations toks = some (a, r)) (h : isDeclStart r = true) :
    parseItemsA (f + 1) toks = (match parseDecl r with
      | some (d, r') =>
        (match parseItemsA f r' with
          | some its => some (.decl a d :: its)
          | none => none)
      | none => none) := by
  have : ∃ k tl, r = .id k :: tl ∧ k ≠ "namespace" := by
    unfold isDeclStart at h
    split at h <;> simp_all
  obtain ⟨k, tl, rfl, hk⟩ := this
  cases toks with
  | nil => exact absurd rfl hne
  | cons t ts =>
    simp only [parseItemsA, hp]
    split
    · rename_i heq; simp at heq
    · rename_i heq
      simp only [Option.some.injEq, Prod.mk.injEq, List.cons.injEq, Tok.id.injEq] at heq
      exact absurd heq.2.1 hk
    · rename_i heq
      simp only [Option.some.injEq, Prod.mk.injEq] at heq
      obtain ⟨rfl, rfl⟩ := heq
      rfl

theorem printAnns_append_ne_nil (a : AnnsJ) (R : List Tok) (h : R ≠ []) : printAnns a ++ R ≠ [] := by
  cases a with
  | nil => simpa [printAnns] using h
  | cons x xs => obtain ⟨k, v⟩ := x; cases v <;> simp [printAnns]

theorem parseItemsA_triples : ∀ (L : List (AnnsJ × List Tok × DeclC)) (fuel : Nat) (rest : List Tok) (its : List ItemA),
    (∀ x ∈ L, WFAnns x.1 ∧ KeysSorted x.1 ∧ GoodDecl x.2.1 x.2.2) → (∀ f', fuel ≤ f' → parseItemsA f' rest = some its) →
    ∀ f', fuel + L.length ≤ f' →
      parseItemsA f' (printTriples L ++ rest) = some (L.map (fun x => ItemA.decl (normAnns x.1) x.2.2) ++ its)
  | [], fuel, rest, its, _, h => by
    intro f' hf'
    simpa [printTriples] using h f' (by simpa using hf')
  | (a, P, D) :: L, fuel, rest, its, hg, h => by
    intro f' hf'
    simp only [List.length_cons] at hf'
    obtain ⟨g, rfl⟩ : ∃ g, f' = g + 1 := ⟨f' - 1, by omega⟩
    have ih := parseItemsA_triples L fuel rest its (fun x hx => hg x (List.mem_cons_of_mem _ hx)) h g (by omega)
    obtain ⟨hwa, hka, hgd⟩ := hg (a, P, D) (by simp)
    obtain ⟨hst, hp⟩ := hgd (printTriples L ++ rest)
    have hann := parseAnnotations_print a hwa hka (P ++ (printTriples L ++ rest)) (startsId_of_isDeclStart _ hst)
    have hne : printAnns a ++ (P ++ (printTriples L ++ rest)) ≠ [] := by
      apply printAnns_append_ne_nil
      intro h0; rw [h0] at hst; simp [isDeclStart] at hst
    simp only [printTriples, List.append_assoc]
    rw [parseItemsA_declStart g _ _ _ hne hann hst, hp]
    simp only [ih, List.map_cons, List.cons_append]

def WFNamedA (l : List (QName × AnnsJ × NamespaceA)) : Prop :=
  ∀ x ∈ l, (∀ c ∈ x.1.comps, validId c = true) ∧ x.1.isReserved = false ∧ WFNs x.2.2.strip ∧
    WFAnns x.2.1 ∧ KeysSorted x.2.1 ∧ AnnsOKNs x.2.2

def namedFuelA : List (QName × AnnsJ × NamespaceA) → Nat
  | [] => 1
  | (_, _, d) :: l => nsCount d.strip + 2 + namedFuelA l

theorem triplesOfNsA_length (d : NamespaceA) : (triplesOfNsA d).length = nsCount d.strip := by
  simp [triplesOfNsA, nsCount, NamespaceA.strip]; omega

theorem parseItemsA_named : ∀ (l : List (QName × AnnsJ × NamespaceA)), WFNamedA l → ∀ f', namedFuelA l ≤ f' →
    parseItemsA f' (printNamedA l) =
      some (l.map fun x => ItemA.ns (normAnns x.2.1) x.1 ((triplesOfNsA x.2.2).map fun y => (normAnns y.1, y.2.2)))
  | [], _, f', hf => by
    obtain ⟨g, rfl⟩ : ∃ g, f' = g + 1 := ⟨f' - 1, by simp [namedFuelA] at hf; omega⟩
    simp [printNamedA, parseItemsA]
  | (q, a, d) :: l, hw, f', hf => by
    simp only [namedFuelA] at hf
    obtain ⟨g, rfl⟩ : ∃ g, f' = g + 1 := ⟨f' - 1, by omega⟩
    obtain ⟨hq, hres, hd, hwa, hka, hao⟩ := hw (q, a, d) (by simp)
    have ih := parseItemsA_named l (fun x hx => hw x (List.mem_cons_of_mem _ hx)) g (by omega)
    have hdl := parseDeclListA_triples (triplesOfNsA d) g (.rb :: printNamedA l) (good_triplesOfNsA d hd hao)
      (by simp [isDeclStart]) (by simp [startsId]) (by rw [triplesOfNsA_length]; omega)
    rw [printTriples_nsA] at hdl
    obtain ⟨s, tl, h1, h2⟩ := parsePath_print q (.lb :: (printNsA d ++ .rb :: printNamedA l)) hq (by simp [OkRest])
    have hann := parseAnnotations_print a hwa hka
      (.id "namespace" :: (printName q ++ .lb :: (printNsA d ++ .rb :: printNamedA l))) (by simp [startsId])
    simp only [printNamedA]
    rw [h1] at hann ⊢
    have hne : printAnns a ++ (.id "namespace" :: .id s :: tl) ≠ [] := printAnns_append_ne_nil _ _ (by simp)
    cases htoks : printAnns a ++ (.id "namespace" :: .id s :: tl) with
    | nil => exact absurd htoks hne
    | cons t ts =>
      rw [htoks] at hann
      simp only [parseItemsA, hann, h2, hdl, hres, ih, List.map_cons]
      simp

theorem printTriples_length : ∀ (L : List (AnnsJ × List Tok × DeclC)), (∀ x ∈ L, WFAnns x.1 ∧ KeysSorted x.1 ∧ GoodDecl x.2.1 x.2.2) →
    L.length ≤ (printTriples L).length
  | [], _ => by simp
  | (a, P, D) :: L, hg => by
    have ih := printTriples_length L (fun x hx => hg x (List.mem_cons_of_mem _ hx))
    have hp : 1 ≤ P.length := by
      have := ((hg (a, P, D) (by simp)).2.2 []).1
      cases P with
      | nil => simp [isDeclStart] at this
      | cons t ts => simp
    simp only [printTriples, List.length_cons, List.length_append]
    omega

theorem namedFuelA_le_length : ∀ (l : List (QName × AnnsJ × NamespaceA)), WFNamedA l → namedFuelA l ≤ (printNamedA l).length + 1
  | [], _ => by simp [namedFuelA]
  | (q, a, d) :: l, hw => by
    have ih := namedFuelA_le_length l (fun x hx => hw x (List.mem_cons_of_mem _ hx))
    obtain ⟨_, _, hd, _, _, hao⟩ := hw (q, a, d) (by simp)
    have h1 := printTriples_length (triplesOfNsA d) (good_triplesOfNsA d hd hao)
    rw [printTriples_nsA, triplesOfNsA_length] at h1
    have h2 := printName_length q
    simp only [namedFuelA, printNamedA, List.length_cons, List.length_append]
    omega

/-- the annotated items a printed annotated fragment denotes: the declarations of `itemsOf` (un-annotated theorem), every annotation
map in its `normAnns` form -/
def itemsOfA (f : FragmentA) : List ItemA :=
  (match f.empty with
    | some d => (triplesOfNsA d).map (fun x => ItemA.decl (normAnns x.1) x.2.2)
    | none => []) ++
  f.named.map fun x => ItemA.ns (normAnns x.2.1) x.1 ((triplesOfNsA x.2.2).map fun y => (normAnns y.1, y.2.2))

theorem parseItemsA_fragment (f : FragmentA) (hwe : ∀ d, f.empty = some d → WFNs d.strip ∧ AnnsOKNs d) (hwn : WFNamedA f.named) :
    parseItemsA ((printFragmentA f).length + 1) (printFragmentA f) = some (itemsOfA f) := by
  obtain ⟨e, named⟩ := f
  simp only at hwe hwn
  have hn := parseItemsA_named named hwn
  have hlen := namedFuelA_le_length named hwn
  cases e with
  | none =>
    simp only [printFragmentA, itemsOfA, List.nil_append]
    exact hn _ (by omega)
  | some d =>
    have hg := good_triplesOfNsA d (hwe d rfl).1 (hwe d rfl).2
    have h := parseItemsA_triples (triplesOfNsA d) (namedFuelA named) (printNamedA named) _ hg hn
    have hl := printTriples_length (triplesOfNsA d) hg
    rw [printTriples_nsA] at h hl
    simp only [printFragmentA, itemsOfA]
    exact h _ (by simp only [List.length_append]; omega)

theorem itemsOfA_strip (f : FragmentA) : (itemsOfA f).map ItemA.strip = itemsOf f.strip := by
  obtain ⟨e, named⟩ := f
  have hs : ∀ d : NamespaceA, (triplesOfNsA d).map (·.2.2) = declsOfNs d.strip := by
    intro d
    simp [triplesOfNsA, declsOfNs, pairsOfNs, pairsOfCommons, pairsOfEntities, pairsOfActions, NamespaceA.strip, Function.comp_def]
  cases e with
  | none =>
    simp only [itemsOfA, itemsOf, FragmentA.strip, List.nil_append, List.map_map, Option.map_none]
    apply List.map_congr_left
    intro x _
    simp [ItemA.strip, Function.comp_def, ← hs]
  | some d =>
    simp only [itemsOfA, itemsOf, FragmentA.strip, List.map_append, List.map_map, Option.map_some]
    congr 1
    · have := hs d
      simp only [declsOfNs] at this
      have h2 := congrArg (List.map ItemC.decl) this
      simpa [List.map_map, Function.comp_def, ItemA.strip] using h2
    · apply List.map_congr_left
      intro x _
      simp [ItemA.strip, Function.comp_def, ← hs]

/-- well-formedness of an annotated fragment: the un-annotated conditions of `WFFrag` on the content, identifier keys in `BTreeMap`
order in every annotation map -/
def WFFragA (f : FragmentA) : Prop := (∀ d, f.empty = some d → WFNs d.strip ∧ AnnsOKNs d) ∧ WFNamedA f.named

theorem wfFrag_strip (f : FragmentA) (h : WFFragA f) : WFFrag f.strip := by
  obtain ⟨e, named⟩ := f
  obtain ⟨he, hn⟩ := h
  simp only at he hn
  refine ⟨?_, ?_⟩
  · intro d hd
    cases e with
    | none => simp [FragmentA.strip] at hd
    | some d0 =>
      simp only [FragmentA.strip, Option.map_some, Option.some.injEq] at hd
      subst hd
      exact (he d0 rfl).1
  · intro x hx
    simp only [FragmentA.strip, List.mem_map] at hx
    obtain ⟨y, hy, rfl⟩ := hx
    obtain ⟨h1, h2, h3, _⟩ := hn y hy
    exact ⟨h1, h2, h3⟩

end Cedar.SchemaSyntax
