import CedarVerif.Cedar.SchemaAnnot
import CedarVerif.Lemmas.SchemaCollect
/-
Lemmas about annotations (`Cedar/SchemaAnnot.lean`).
-/
namespace Cedar.SchemaSyntax

/-- the continuation does not start with a punctuation token of the `other` class (`@`, `(`, …): it is empty or starts with an
identifier / keyword (`namespace`, `entity`, `action`, `type`) or `}` -/
def startsId : List Tok → Bool
  | .other _ :: _ => false
  | _ => true

theorem startsId_of_isDeclStart (R : List Tok) (h : isDeclStart R = true) : startsId R = true := by
  unfold isDeclStart at h
  split at h <;> simp_all [startsId]

/-- annotation keys are identifier-shaped (`AnyId`) -/
def WFAnns (a : AnnsJ) : Prop := ∀ x ∈ a, identShape x.1 = true

theorem parseAnns_startsId (R : List Tok) (h : startsId R = true) : parseAnns R = some ([], R) := by
  cases R with
  | nil => simp [parseAnns]
  | cons t tl =>
    cases t <;> simp [startsId] at h <;> simp [parseAnns]

theorem parseAnns_print : ∀ (a : AnnsJ), WFAnns a → ∀ (R : List Tok), startsId R = true →
    parseAnns (printAnns a ++ R) = some (a, R)
  | [], _, R, hR => by simpa [printAnns] using parseAnns_startsId R hR
  | (k, some v) :: rest, hw, R, hR => by
    have ih := parseAnns_print rest (fun x hx => hw x (List.mem_cons_of_mem _ hx)) R hR
    have hk : identShape k = true := hw (k, some v) (by simp)
    simp [printAnns, parseAnns, hk, ih]
  | (k, none) :: rest, hw, R, hR => by
    have ih := parseAnns_print rest (fun x hx => hw x (List.mem_cons_of_mem _ hx)) R hR
    have hk : identShape k = true := hw (k, none) (by simp)
    have hnext : ∀ v' r, printAnns rest ++ R = .other "(" :: .str v' :: .other ")" :: r → False := by
      intro v' r heq
      cases rest with
      | nil =>
        cases R with
        | nil => simp [printAnns] at heq
        | cons t tl =>
          simp only [printAnns, List.nil_append, List.cons.injEq] at heq
          rw [heq.1] at hR
          simp [startsId] at hR
      | cons y ys =>
        obtain ⟨k', v''⟩ := y
        cases v'' <;> simp [printAnns] at heq
    simp only [printAnns, List.cons_append]
    rw [parseAnns]
    · simp [hk, ih]
    · exact hnext

theorem dedupAnns_sorted (a : AnnsJ) (hk : KeysSorted a) : dedupAnns a = some (normAnns a) := by
  have h1 := keysSorted_noDup a hk
  have h2 : KeysSorted (normAnns a) := keysSorted_map a (fun x => some (x.2.getD "")) hk
  simp only [dedupAnns, h1, Bool.false_eq_true, if_false]
  rw [sortKeys_of_pairwise _ _ h2]

theorem parseAnnotations_print (a : AnnsJ) (hw : WFAnns a) (hk : KeysSorted a) (R : List Tok) (hR : startsId R = true) :
    parseAnnotations (printAnns a ++ R) = some (normAnns a, R) := by
  simp [parseAnnotations, parseAnns_print a hw R hR, dedupAnns_sorted a hk]

/-- annotated declarations as (annotations, printed tokens, denoted declaration) -/
def printTriples : List (AnnsJ × List Tok × DeclC) → List Tok
  | [] => []
  | (a, P, _) :: l => printAnns a ++ (P ++ printTriples l)

theorem printTriples_append (x y : List (AnnsJ × List Tok × DeclC)) : printTriples (x ++ y) = printTriples x ++ printTriples y := by
  induction x with
  | nil => simp [printTriples]
  | cons t x ih => obtain ⟨a, P, D⟩ := t; simp [printTriples, ih]

theorem parseDeclListA_triples : ∀ (L : List (AnnsJ × List Tok × DeclC)) (fuel : Nat) (rest : List Tok),
    (∀ x ∈ L, WFAnns x.1 ∧ KeysSorted x.1 ∧ GoodDecl x.2.1 x.2.2) → isDeclStart rest = false → startsId rest = true → L.length < fuel →
    parseDeclListA fuel (printTriples L ++ rest) = some (L.map (fun x => (normAnns x.1, x.2.2)), rest)
  | [], fuel, rest, _, hr, hs, hf => by
    obtain ⟨f, rfl⟩ : ∃ f, fuel = f + 1 := ⟨fuel - 1, by omega⟩
    have := parseAnnotations_print [] (by intro x hx; simp at hx) (by simp [KeysSorted]) rest hs
    simp only [printAnns, List.nil_append, normAnns, List.map_nil] at this
    simp [printTriples, parseDeclListA, this, hr]
  | (a, P, D) :: L, fuel, rest, hg, hr, hs, hf => by
    obtain ⟨f, rfl⟩ : ∃ f, fuel = f + 1 := ⟨fuel - 1, by omega⟩
    have ih := parseDeclListA_triples L f rest (fun x hx => hg x (List.mem_cons_of_mem _ hx)) hr hs (by simp at hf; omega)
    obtain ⟨hwa, hka, hgd⟩ := hg (a, P, D) (by simp)
    obtain ⟨hst, hp⟩ := hgd (printTriples L ++ rest)
    have hann := parseAnnotations_print a hwa hka (P ++ (printTriples L ++ rest)) (startsId_of_isDeclStart _ hst)
    simp only [printTriples, List.append_assoc]
    simp only [parseDeclListA, hann, hst, if_true, hp, ih, List.map_cons]

def triplesOfNsA (d : NamespaceA) : List (AnnsJ × List Tok × DeclC) :=
  (d.commons.map fun x => (x.1, printCommonJ x.2.1 x.2.2, DeclC.common x.2.1 (toCedar x.2.2))) ++
  ((d.entities.map fun x => (x.1, printEntityKindJ x.2.1 x.2.2, DeclC.ent (entDeclOf x.2.1 x.2.2))) ++
   (d.actions.map fun x => (x.1, printActionJ x.2.1 x.2.2, DeclC.action (x.2.2.toDecl x.2.1))))

theorem printTriples_nsA (d : NamespaceA) : printTriples (triplesOfNsA d) = printNsA d := by
  obtain ⟨c, e, a⟩ := d
  simp only [triplesOfNsA, printTriples_append, printNsA]
  congr 1
  · induction c with
    | nil => rfl
    | cons x l ih => obtain ⟨an, n, t⟩ := x; simp only [List.map_cons, printTriples, printCommonsA, ih]
  · congr 1
    · induction e with
      | nil => rfl
      | cons x l ih => obtain ⟨an, n, t⟩ := x; simp only [List.map_cons, printTriples, printEntitiesA, ih]
    · induction a with
      | nil => rfl
      | cons x l ih => obtain ⟨an, n, t⟩ := x; simp only [List.map_cons, printTriples, printActionsA, ih]

/-- all annotation maps of the namespace body have identifier keys in `BTreeMap` order -/
def AnnsOKNs (d : NamespaceA) : Prop :=
  (∀ x ∈ d.commons, WFAnns x.1 ∧ KeysSorted x.1) ∧ (∀ x ∈ d.entities, WFAnns x.1 ∧ KeysSorted x.1) ∧
  (∀ x ∈ d.actions, WFAnns x.1 ∧ KeysSorted x.1)

theorem good_triplesOfNsA (d : NamespaceA) (hw : WFNs d.strip) (ha : AnnsOKNs d) :
    ∀ x ∈ triplesOfNsA d, WFAnns x.1 ∧ KeysSorted x.1 ∧ GoodDecl x.2.1 x.2.2 := by
  intro x hx
  simp only [triplesOfNsA, List.mem_append, List.mem_map] at hx
  rcases hx with ⟨y, hy, rfl⟩ | ⟨y, hy, rfl⟩ | ⟨y, hy, rfl⟩
  · obtain ⟨h1, h2, h3, h4⟩ := hw.1 y.2 (by simp only [NamespaceA.strip, List.mem_map]; exact ⟨y, hy, rfl⟩)
    exact ⟨(ha.1 y hy).1, (ha.1 y hy).2, goodDecl_common _ _ h1 h2 h3 h4⟩
  · have := hw.2.1 y.2 (by simp only [NamespaceA.strip, List.mem_map]; exact ⟨y, hy, rfl⟩)
    exact ⟨(ha.2.1 y hy).1, (ha.2.1 y hy).2, goodDecl_entity _ _ this⟩
  · have := hw.2.2 y.2 (by simp only [NamespaceA.strip, List.mem_map]; exact ⟨y, hy, rfl⟩)
    exact ⟨(ha.2.2 y hy).1, (ha.2.2 y hy).2, goodDecl_action _ _ this⟩

end Cedar.SchemaSyntax
