import CedarVerif.Lemmas.SyntaxFull
import CedarVerif.Cedar.Syntax.PolicyParse
/-
C05, policy level: `parsePolicy (printPolicy b) = some b` — the pieces (annotations, scope elements, action element,
condition clause), each on top of the expression-level induction `parse_print_aux3` (Lemmas/SyntaxFull.lean).
-/
namespace Cedar.Syntax
open Cedar

/-! ### image predicates, parametrised by the type-name and the expression predicate -/

def sortedAnn : List (String × String) → Bool
  | (k1, _) :: (k2, v2) :: rest => decide (k1 < k2) && sortedAnn ((k2, v2) :: rest)
  | _ => true

def refOKW (tn : String → Bool) : EntityRef → Bool
  | .euid u => tn u.ty
  | .slot => true

def scopeOKW (tn : String → Bool) : ScopeC → Bool
  | .any => true
  | .eq r => refOKW tn r
  | .mem r => refOKW tn r
  | .is ty => tn ty
  | .isIn ty r => tn ty && refOKW tn r

def actionOKW (tn : String → Bool) : ActionC → Bool
  | .any => true
  | .eq u => tn u.ty && isActionUid u
  | .mem us => us.all (fun u => tn u.ty && isActionUid u)

def condOKW (ex : Expr → Bool) : Option Expr → Bool
  | none => true
  | some e => ex e && (Expr.slots e).isEmpty

def policyOKW (tn : String → Bool) (ex : Expr → Bool) (b : TemplateBody) : Bool :=
  sortedAnn b.annotations && scopeOKW tn b.principalC && actionOKW tn b.actionC && scopeOKW tn b.resourceC &&
  condOKW ex b.nonScope

theorem policyOKW_mono {tn tn' : String → Bool} {ex ex' : Expr → Bool} (h1 : ∀ ty, tn ty = true → tn' ty = true)
    (h2 : ∀ e, ex e = true → ex' e = true) {b : TemplateBody} (h : policyOKW tn ex b = true) : policyOKW tn' ex' b = true := by
  have R : ∀ r, refOKW tn r = true → refOKW tn' r = true := by
    intro r hr; cases r <;> simp_all [refOKW]
  have S : ∀ c, scopeOKW tn c = true → scopeOKW tn' c = true := by
    intro c hc
    cases c <;> simp only [scopeOKW, Bool.and_eq_true] at hc ⊢
    · exact R _ hc
    · exact R _ hc
    · exact h1 _ hc
    · exact ⟨h1 _ hc.1, R _ hc.2⟩
  simp only [policyOKW, Bool.and_eq_true] at h ⊢
  obtain ⟨⟨⟨⟨ha, hp⟩, hac⟩, hr⟩, hc⟩ := h
  refine ⟨⟨⟨⟨ha, S _ hp⟩, ?_⟩, S _ hr⟩, ?_⟩
  · cases hA : b.actionC with
    | any => rfl
    | eq u =>
      rw [hA] at hac
      simp only [actionOKW, Bool.and_eq_true] at hac ⊢
      exact ⟨h1 _ hac.1, hac.2⟩
    | mem us =>
      rw [hA] at hac
      simp only [actionOKW, List.all_eq_true, Bool.and_eq_true] at hac ⊢
      exact fun u hu => ⟨h1 _ (hac u hu).1, (hac u hu).2⟩
  · cases hC : b.nonScope with
    | none => rfl
    | some e =>
      rw [hC] at hc
      simp only [condOKW, Bool.and_eq_true] at hc ⊢
      exact ⟨h2 _ hc.1, hc.2⟩

/-! ### the expression parser on a printed expression followed by a closing token -/

theorem frag_top (me : Char → Bool) (e : Expr) (hf : inFrag3 e = true) (f : Nat) (hsz : sz3 e ≤ f) (R : List Token)
    (hR : headLv R = 7) : ∃ s, parseFuel (f + 1) (printE me e ++ R) = some (s, R) ∧ s.toExpr = some e :=
  (parse_print_aux3 me (sz3 e) e (Nat.le_refl _) hf f hsz).top R hR

theorem frag_top_len (me : Char → Bool) (e : Expr) (hf : inFrag3 e = true) (f : Nat) (hlen : (printE me e).length ≤ f)
    (R : List Token) (hR : headLv R = 7) : ∃ s, parseFuel (f + 1) (printE me e ++ R) = some (s, R) ∧ s.toExpr = some e :=
  frag_top me e hf f (Nat.le_trans (sz3_le_length me (sz3 e) e (Nat.le_refl _)) hlen) R hR

def isRefShape : Expr → Bool
  | .lit (.entityUID _) => true
  | .slot _ => true
  | .set _ => true
  | _ => false

theorem toExpr_refShape {s : EOS} {e : Expr} (h : s.toExpr = some e) (hs : isRefShape e = true) : s = .expr e := by
  cases s with
  | expr e' => simp only [EOS.toExpr, Option.some.injEq] at h; subst h; rfl
  | var v => simp only [EOS.toExpr, Option.some.injEq] at h; subst h; simp [isRefShape] at hs
  | name p i => simp [EOS.toExpr] at h
  | strLit raw =>
    cases hr : strOfRaw raw <;> simp only [EOS.toExpr, hr, Option.map_none, Option.map_some, Option.some.injEq, reduceCtorEq] at h
    subst h; simp [isRefShape] at hs
  | boolLit b => simp only [EOS.toExpr, Option.some.injEq] at h; subst h; simp [isRefShape] at hs
  | num n =>
    by_cases hn : n ≤ i64Max <;> simp only [EOS.toExpr, hn, if_true, if_false, Option.some.injEq, reduceCtorEq] at h
    subst h; simp [isRefShape] at hs

/-- a printed expression of "reference shape" is read back as exactly that expression -/
theorem ref_top (me : Char → Bool) (e : Expr) (hf : inFrag3 e = true) (hs : isRefShape e = true) (f : Nat)
    (hlen : (printE me e).length ≤ f) (R : List Token) (hR : headLv R = 7) :
    parseFuel (f + 1) (printE me e ++ R) = some (.expr e, R) := by
  obtain ⟨s, h1, h2⟩ := frag_top_len me e hf f hlen R hR
  rw [h1, toExpr_refShape h2 hs]

/-! ### annotations -/

theorem sortedAnn_tail {kv : String × String} {kvs : List (String × String)} (h : sortedAnn (kv :: kvs) = true) :
    sortedAnn kvs = true := by
  cases kvs with
  | nil => rfl
  | cons x xs => obtain ⟨k, v⟩ := kv; obtain ⟨k2, v2⟩ := x; simp only [sortedAnn, Bool.and_eq_true] at h; exact h.2

theorem sortedAnn_lt {k v : String} : ∀ {kvs : List (String × String)}, sortedAnn ((k, v) :: kvs) = true →
    ∀ y ∈ kvs, k < y.1
  | [], _, y, hy => by cases hy
  | (k2, v2) :: rest, h, y, hy => by
    simp only [sortedAnn, Bool.and_eq_true, decide_eq_true_eq] at h
    rcases List.mem_cons.mp hy with rfl | hy'
    · exact h.1
    · exact String.lt_trans h.1 (sortedAnn_lt h.2 y hy')

theorem hasDupAnn_sorted : ∀ {kvs : List (String × String)}, sortedAnn kvs = true → hasDupAnn kvs = false
  | [], _ => rfl
  | (k, v) :: rest, h => by
    simp only [hasDupAnn, Bool.or_eq_false_iff, List.any_eq_false, beq_iff_eq]
    refine ⟨?_, hasDupAnn_sorted (sortedAnn_tail h)⟩
    intro y hy hk
    have := sortedAnn_lt h y hy
    rw [hk] at this
    exact absurd this (String.lt_irrefl _)

theorem foldr_insertAnn_sorted : ∀ {kvs : List (String × String)}, sortedAnn kvs = true → kvs.foldr insertAnn [] = kvs
  | [], _ => rfl
  | (k, v) :: rest, h => by
    simp only [List.foldr_cons, foldr_insertAnn_sorted (sortedAnn_tail h)]
    cases rest with
    | nil => rfl
    | cons x xs =>
      have := sortedAnn_lt h x (by simp)
      simp [insertAnn, this]

theorem parseAnnots_print (me : Char → Bool) (s : String) (R : List Token) : ∀ (as : List (String × String)) (n : Nat),
    as.length < n → parseAnnots n (printAnnots me as ++ .ident s :: R) = some (as, .ident s :: R)
  | [], n + 1, _ => by simp [printAnnots, parseAnnots]
  | [], 0, h => by simp at h
  | (k, v) :: as, 0, h => by simp at h
  | (k, v) :: as, n + 1, h => by
    have ih := parseAnnots_print me s R as n (by simp at h; omega)
    simp only [printAnnots, List.cons_append, parseAnnots, strTok, strOfRaw_escapeStr, ih]

/-! ### scope elements -/

/-- the type name after `is`, read at the `Add` level, followed by anything that is not an `Add`-level continuation
(`add_typeName` generalised from `headLv R = 7` to `3 < headLv R`: the next token may be `in`) -/
theorem add_typeName_in (pe : P EOS) (ty : String) (h : typeNameOk ty = true) (R : List Token) (hR : 3 < headLv R) :
    ∃ x, add pe (nameTokens ty ++ R) = some (x, R) ∧ x.toTypeName = some ty := by
  obtain ⟨c, cs, hs, hall, hj⟩ := typeName_split h
  have hc : unreservedIdent c = true := by simp only [List.all_cons, Bool.and_eq_true] at hall; exact hall.1
  obtain ⟨hc1, hc2, hc3⟩ := unreserved_ne hc
  simp only [nameTokens, hs, List.cons_append]
  have hplain : startsPlain (Token.ident c :: (cs.flatMap (fun x => [Token.dcolon, Token.ident x]) ++ R)) = true := by
    simp [startsPlain, hc3]
  have hR1 : 1 ≤ headLv R := by omega
  suffices hp : ∃ x, primary pe (Token.ident c :: (cs.flatMap (fun x => [Token.dcolon, Token.ident x]) ++ R)) = some (x, R) ∧
      x.toTypeName = some ty by
    obtain ⟨x, hx1, hx2⟩ := hp
    exact ⟨x, m_add (member_of_primary hx1 hR1) hplain hR, hx2⟩
  cases cs with
  | nil =>
    simp only [List.flatMap_nil, List.nil_append]
    rw [primary_ident' pe c (noPath_of_lv hR1)]
    simp only [hc1, hc2, if_false, hc, if_true]
    cases hv : varOfName c with
    | some v => exact ⟨.var v, rfl, by simp [EOS.toTypeName, varOfName_some hv, ← hj, joinName]⟩
    | none => exact ⟨.name [] c, rfl, by simp [EOS.toTypeName, ← hj]⟩
  | cons c2 cs' =>
    refine ⟨.name (c :: c2 :: cs').dropLast ((c :: c2 :: cs').getLast?.getD c), ?_, ?_⟩
    · rw [primary]
      simp only [pathRest_flatMap (c2 :: cs') R (by
        intro s r h; subst h; simp [headLv, tokLevel] at hR)]
      simp only [hall, if_true]
      cases R with
      | nil => rfl
      | cons t r => cases t <;> first | rfl | simp [headLv, tokLevel] at hR
    · simp only [EOS.toTypeName, dropLast_getLast c (c :: c2 :: cs') (by simp), hj]

theorem refExpr_frag {slot : SlotId} {r : EntityRef} (h : refOKW typeNameOk r = true) :
    inFrag3 (refExpr slot r) = true ∧ isRefShape (refExpr slot r) = true := by
  cases r <;> simp_all [refOKW, refExpr, inFrag3, isRefShape]

theorem toRef_refExpr (slot : SlotId) (r : EntityRef) : (EOS.expr (refExpr slot r)).toRef slot = some r := by
  cases r <;> simp [refExpr, EOS.toRef]

theorem scopeRef_print (me : Char → Bool) (slot : SlotId) (r : EntityRef) (h : refOKW typeNameOk r = true) (f : Nat)
    (hlen : (printE me (refExpr slot r)).length ≤ f) (R : List Token) (hR : headLv R = 7) :
    scopeRef (parseFuel (f + 1)) slot (printE me (refExpr slot r) ++ R) = some (r, R) := by
  unfold scopeRef
  rw [ref_top me _ (refExpr_frag h).1 (refExpr_frag h).2 f hlen R hR]
  simp [toRef_refExpr]

theorem headLv_close {t : Token} (ht : t = .comma ∨ t = .rparen) (R : List Token) : headLv (t :: R) = 7 := by
  rcases ht with rfl | rfl <;> rfl

theorem scopeElem_print (me : Char → Bool) (v : String) (slot : SlotId) (c : ScopeC) (h : scopeOKW typeNameOk c = true)
    (f : Nat) (hlen : (printScope me v slot c).length ≤ f) (t : Token) (ht : t = .comma ∨ t = .rparen) (R : List Token) :
    scopeElem (parseFuel (f + 1)) v slot (printScope me v slot c ++ t :: R) = some (c, t :: R) := by
  have hR := headLv_close ht R
  cases c with
  | any => rcases ht with rfl | rfl <;> simp [printScope, scopeElem]
  | eq r =>
    simp only [scopeOKW] at h
    simp only [printScope, List.length_cons] at hlen
    simp only [printScope, List.cons_append, scopeElem, ne_eq, not_true_eq_false, if_false]
    rw [scopeRef_print me slot r h f (by omega) _ hR]
    rfl
  | mem r =>
    simp only [scopeOKW] at h
    simp only [printScope, List.length_cons] at hlen
    simp only [printScope, List.cons_append, scopeElem, ne_eq, not_true_eq_false, if_false]
    rw [scopeRef_print me slot r h f (by omega) _ hR]
    rfl
  | is ty =>
    simp only [scopeOKW] at h
    obtain ⟨x, hx1, hx2⟩ := add_typeName_in (parseFuel (f + 1)) ty h (t :: R) (by omega)
    simp only [printScope, List.cons_append, scopeElem, ne_eq, not_true_eq_false, if_false, hx1, hx2]
    rcases ht with rfl | rfl <;> rfl
  | isIn ty r =>
    simp only [scopeOKW, Bool.and_eq_true] at h
    simp only [printScope, List.length_cons, List.length_append] at hlen
    obtain ⟨x, hx1, hx2⟩ := add_typeName_in (parseFuel (f + 1)) ty h.1
      (.ident "in" :: (printE me (refExpr slot r) ++ t :: R)) (by simp [headLv, tokLevel])
    simp only [printScope, List.cons_append, List.append_assoc, scopeElem, ne_eq, not_true_eq_false, if_false, hx1, hx2]
    rw [scopeRef_print me slot r h.2 f (by omega) _ hR]
    rfl

/-! ### the action element -/

theorem uidSet_frag : ∀ (us : List EntityUID), (us.all (fun u => typeNameOk u.ty && isActionUid u)) = true →
    inFrag3L (us.map (fun u => Expr.lit (.entityUID u))) = true
  | [], _ => rfl
  | u :: us, h => by
    simp only [List.all_cons, Bool.and_eq_true] at h
    simp only [List.map_cons, inFrag3L, inFrag3, Bool.and_eq_true]
    exact ⟨h.1.1, uidSet_frag us h.2⟩

theorem uidsOf_map : ∀ (us : List EntityUID), uidsOf (us.map (fun u => Expr.lit (.entityUID u))) = some us
  | [] => rfl
  | u :: us => by simp [uidsOf, uidsOf_map us]

theorem actionElem_print (me : Char → Bool) (c : ActionC) (h : actionOKW typeNameOk c = true)
    (f : Nat) (hlen : (printAction me c).length ≤ f) (t : Token) (ht : t = .comma ∨ t = .rparen) (R : List Token) :
    actionElem (parseFuel (f + 1)) (printAction me c ++ t :: R) = some (c, t :: R) := by
  have hR := headLv_close ht R
  cases c with
  | any => rcases ht with rfl | rfl <;> simp [printAction, actionElem]
  | eq u =>
    simp only [actionOKW, Bool.and_eq_true] at h
    simp only [printAction, List.length_cons] at hlen
    simp only [printAction, List.cons_append, actionElem, ne_eq, not_true_eq_false, if_false]
    rw [ref_top me (.lit (.entityUID u)) (by simp [inFrag3, h.1]) rfl f (by omega) _ hR]
    simp [EOS.toUid, h.2]
  | mem us =>
    simp only [actionOKW] at h
    simp only [printAction, List.length_cons] at hlen
    simp only [printAction, List.cons_append, actionElem, ne_eq, not_true_eq_false, if_false]
    rw [ref_top me (uidSet us) (by simp only [uidSet, inFrag3]; exact uidSet_frag us h) rfl f (by omega) _ hR]
    have hall : us.all isActionUid = true := by
      simp only [List.all_eq_true, Bool.and_eq_true] at h ⊢
      exact fun u hu => (h u hu).2
    simp [EOS.toRefs, uidSet, uidsOf_map, hall]

/-! ### the condition clause -/

theorem parseConds_print (me : Char → Bool) (c : Option Expr) (h : condOKW inFrag3 c = true) (f : Nat)
    (hlen : (printCond me c).length ≤ f) :
    ∃ cs, parseConds (parseFuel (f + 1)) (f + 1) (printCond me c) = some (cs, [.semi]) ∧ foldConds cs = c := by
  cases c with
  | none =>
    refine ⟨[], ?_, rfl⟩
    simp [printCond, parseConds]
  | some e =>
    simp only [condOKW, Bool.and_eq_true] at h
    simp only [printCond, List.length_cons, List.length_append] at hlen
    obtain ⟨s, h1, h2⟩ := frag_top_len me e h.1 f (by omega) [.rbrace, .semi] rfl
    refine ⟨[e], ?_, rfl⟩
    obtain ⟨f', rfl⟩ : ∃ f', f = f' + 1 := ⟨f - 1, by omega⟩
    simp [printCond, parseConds, h1, h2, h.2]

/-! ### the whole policy -/

theorem parseScope_print (me : Char → Bool) (pc : ScopeC) (ac : ActionC) (rc : ScopeC)
    (hp : scopeOKW typeNameOk pc = true) (ha : actionOKW typeNameOk ac = true) (hr : scopeOKW typeNameOk rc = true) (f : Nat)
    (hlp : (printScope me "principal" .principal pc).length ≤ f) (hla : (printAction me ac).length ≤ f)
    (hlr : (printScope me "resource" .resource rc).length ≤ f) (R : List Token) :
    parseScope (parseFuel (f + 1)) (.lparen :: (printScope me "principal" .principal pc ++ (.comma ::
      (printAction me ac ++ (.comma :: (printScope me "resource" .resource rc ++ (.rparen :: R))))))) = some ((pc, ac, rc), R) := by
  simp only [parseScope, scopeElem_print me "principal" .principal pc hp f hlp .comma (.inl rfl),
    actionElem_print me ac ha f hla .comma (.inl rfl), scopeElem_print me "resource" .resource rc hr f hlr .rparen (.inr rfl)]

theorem effectOf_name (e : Effect) : effectOf (effectName e) = some e := by cases e <;> rfl

theorem printAnnots_length (me : Char → Bool) : ∀ as, as.length ≤ (printAnnots me as).length
  | [] => Nat.le_refl _
  | (k, v) :: as => by have := printAnnots_length me as; simp only [printAnnots, List.length_cons]; omega

theorem parsePolicy_print (me : Char → Bool) (b : TemplateBody) (h : policyOKW typeNameOk inFrag3 b = true) :
    parsePolicy b.id (printPolicy me b) = some b := by
  simp only [policyOKW, Bool.and_eq_true] at h
  obtain ⟨⟨⟨⟨han, hp⟩, hac⟩, hr⟩, hc⟩ := h
  have hl : (printPolicy me b).length = (printAnnots me b.annotations).length + 2 +
      (printScope me "principal" .principal b.principalC).length + 1 + (printAction me b.actionC).length + 1 +
      (printScope me "resource" .resource b.resourceC).length + 1 + (printCond me b.nonScope).length := by
    simp only [printPolicy, List.length_append, List.length_cons]; omega
  have hal := printAnnots_length me b.annotations
  unfold parsePolicy
  generalize hf : (printPolicy me b).length = f at hl
  obtain ⟨cs, hcs1, hcs2⟩ := parseConds_print me b.nonScope hc f (by omega)
  unfold parsePolicyF printPolicy
  rw [parseAnnots_print me _ _ b.annotations (f + 1) (by omega)]
  simp only [hasDupAnn_sorted han, Bool.false_eq_true, if_false, effectOf_name,
    parseScope_print me _ _ _ hp hac hr f (by omega) (by omega) (by omega), hcs1, hcs2, foldr_insertAnn_sorted han]

end Cedar.Syntax
