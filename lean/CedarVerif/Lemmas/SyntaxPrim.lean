import CedarVerif.Lemmas.SyntaxName
/-
C05: atoms and bracketed primaries as `MemK`; closing tokens never start an expression; record keys.
-/
namespace Cedar.Syntax
open Cedar

theorem exprLevel_close (pe : P EOS) (t : Token) (ht : t = .rparen ∨ t = .rbrack ∨ t = .rbrace ∨ t = .comma) (ts : List Token) :
    exprLevel pe (t :: ts) = none := by
  rcases ht with h | h | h | h <;> subst h <;>
    simp [exprLevel, orLevel, andLevel, chainLevel, relation, add, mult, unary, member, primary]

theorem parseFuel_close (f : Nat) (t : Token) (ht : t = .rparen ∨ t = .rbrack ∨ t = .rbrace ∨ t = .comma) (ts : List Token) :
    parseFuel f (t :: ts) = none := by
  cases f with
  | zero => rfl
  | succ f => exact exprLevel_close _ t ht ts

theorem normalized_not_reserved {k : String} (h : isNormalizedIdent k = true) : k ≠ "true" ∧ k ≠ "false" ∧ k ≠ "if" :=
  unreserved_ne (unreserved_of_normalized h)

theorem keyOK_exprLevel (me : Char → Bool) (pe : P EOS) : KeyOK me (exprLevel pe) := by
  intro k rest
  have hr : headLv (Token.colon :: rest) = 7 := by simp [headLv, tokLevel]
  unfold keyTok
  cases hn : isNormalizedIdent k
  · simp only [Bool.false_eq_true, if_false, strTok]
    refine ⟨.strLit (escapeStr me k.toList), ?_, by simp [EOS.toAttr, strOfRaw_escapeStr]⟩
    exact m_top (member_of_primary (by simp [primary]) (by omega)) (by simp [startsPlain]) hr
  · simp only [if_true]
    obtain ⟨h1, h2, h3⟩ := normalized_not_reserved hn
    have hu := unreserved_of_normalized hn
    have hp := primary_ident (exprLevel pe) k (ts := Token.colon :: rest) (by omega)
    simp only [h1, h2, if_false, hu, if_true] at hp
    have hs : startsPlain (Token.ident k :: Token.colon :: rest) = true := by simp [startsPlain, h3]
    cases hv : varOfName k with
    | some v =>
      rw [hv] at hp
      exact ⟨.var v, m_top (member_of_primary hp (by omega)) hs hr, by simp [EOS.toAttr, varOfName_some hv]⟩
    | none =>
      rw [hv] at hp
      exact ⟨.name [] k, m_top (member_of_primary hp (by omega)) hs hr, rfl⟩

/-! ### atoms -/

def isAtom3 : Expr → Bool
  | .lit _ | .var _ | .slot _ => true
  | _ => false

theorem memK_atom (me : Char → Bool) (pe : P EOS) (e : Expr) (hf : inFrag3 e = true) (ha : isAtom3 e = true) :
    MemK (exprLevel pe) (printE me e) e := by
  cases e <;> simp [isAtom3] at ha
  case var v =>
    refine memK_prim (prim := .var v) (fun R hR => ?_) (by intro p i h; cases h) rfl
    simp only [printE, List.cons_append, List.nil_append]
    rw [primary_ident' _ _ hR]
    cases v <;> simp [varName, varOfName]
  case slot s =>
    refine memK_prim (prim := .expr (.slot s)) (fun R hR => ?_) (by intro p i h; cases h) rfl
    cases s <;> simp [printE, slotName, primary]
  case lit p =>
    cases p with
    | bool b =>
      refine memK_prim (prim := .boolLit b) (fun R hR => ?_) (by intro p i h; cases h) rfl
      simp only [printE, List.cons_append, List.nil_append]
      rw [primary_ident' _ _ hR]
      cases b <;> simp
    | string s =>
      refine memK_prim (prim := .strLit (escapeStr me s.toList)) (fun R hR => ?_) (by intro p i h; cases h) ?_
      · simp [printE, strTok, primary]
      · simp [EOS.toExpr, strOfRaw_escapeStr]
    | entityUID u =>
      simp only [inFrag3] at hf
      refine memK_prim (prim := .expr (.lit (.entityUID u))) (fun R hR => ?_) (by intro p i h; cases h) rfl
      simp only [printE, List.append_assoc, List.cons_append, List.nil_append]
      exact primary_euid me _ u hf R
    | int i =>
      simp only [inFrag3, decide_eq_true_eq, Int.ofNat_eq_natCast] at hf
      by_cases hneg : i < 0
      · have hk : i.natAbs ≤ i64Max + 1 := by omega
        have hi : -(Int.ofNat i.natAbs) = i := by simp only [Int.ofNat_eq_natCast]; omega
        refine memK_prim (prim := .expr (.lit (.int i))) (fun R hR => ?_) (by intro p i h; cases h) rfl
        simp only [printE, hneg, if_true, List.cons_append, List.nil_append]
        simp only [primary, negLit_expr pe i.natAbs hk R]
        simp [EOS.toExpr]
        omega
      · have h0 := i64Max_le_u64Max
        have h1 : i.toNat ≤ u64Max := by omega
        have h3 : i.toNat ≤ i64Max := by omega
        have h2 : Int.ofNat i.toNat = i := by simp only [Int.ofNat_eq_natCast]; omega
        refine memK_prim (prim := .num i.toNat) (fun R hR => ?_) (by intro p i h; cases h) ?_
        · simp [printE, hneg, primary, h1]
        · simp only [EOS.toExpr, h3, if_true, h2]

/-! ### bracketed primaries -/

theorem memK_paren (me : Char → Bool) (pe : P EOS) (a : Expr) (h : TopOK me pe a) :
    MemK pe (.lparen :: (printE me a ++ [.rparen])) a := by
  refine memK_prim (prim := .expr a) (fun R hR => ?_) (by intro p i h; cases h) rfl
  obtain ⟨s, h1, h2⟩ := h (.rparen :: R) (by simp [headLv, tokLevel])
  simp only [List.cons_append, List.append_assoc, List.nil_append]
  simp only [primary, h1]
  simp [h2]

theorem memK_set (me : Char → Bool) (pe : P EOS) (hclose : ∀ ts, pe (.rbrack :: ts) = none) (es : List Expr)
    (hes : ∀ a ∈ es, TopOK me pe a) : MemK pe (.lbrack :: (printEs me es ++ [.rbrack])) (.set es) := by
  refine memK_prim (prim := .expr (.set es)) (fun R hR => ?_) (by intro p i h; cases h) rfl
  simp only [List.cons_append, List.append_assoc, List.nil_append]
  simp only [primary, exprList_print' me pe .rbrack hclose rfl (by simp) R es hes]

theorem memK_record (me : Char → Bool) (pe : P EOS) (hk : KeyOK me pe) (kvs : List (String × Expr))
    (hes : ∀ kv ∈ kvs, TopOK me pe kv.2) (hs : sortedKeys3 kvs = true) :
    MemK pe (.lbrace :: (printKVs me kvs ++ [.rbrace])) (.record kvs) := by
  refine memK_prim (prim := .expr (.record kvs)) (fun R hR => ?_) (by intro p i h; cases h) rfl
  simp only [List.cons_append, List.append_assoc, List.nil_append]
  simp only [primary, recInits_print me pe hk R kvs hes, mkRecord_sorted hs, Option.map_some]

/-- function-style call: a name followed by an argument list -/
theorem memK_func {pe : P EOS} {fn : String} {args : List Expr} {AT : List Token} {e : Expr}
    (hprim : ∀ R, noPath R = true → primary pe (.ident fn :: R) = some (.name [] fn, R))
    (hint : intoFunc [] fn args = some e)
    (hl : ∀ R, exprList pe .rparen ((AT ++ .rparen :: R).length + 1) (AT ++ .rparen :: R) = some (args, R)) :
    MemK pe (.ident fn :: .lparen :: (AT ++ [.rparen])) e := by
  refine ⟨[.ident fn], .lparen :: (AT ++ [.rparen]), .name [] fn, [.call args], rfl, fun R _ => rfl, hprim, ?_, by simp, ?_, .expr e, ?_, rfl⟩
  · intro R fuel _
    simp only [List.cons_append, List.append_assoc, List.nil_append, List.length_cons, List.length_nil]
    rw [accesses]
    simp only [hl]
    cases accesses pe fuel R <;> rfl
  · intro more _
    simp [lowerMember, hint]
  · simp [lowerMember, hint, applyAccs]

end Cedar.Syntax
