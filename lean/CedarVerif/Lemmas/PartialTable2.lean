import CedarVerif.Lemmas.PartialTable
/- The decision-table lemma over the model's `PartialResponse` (DESIGN.md appendix C): for every completion of
   the residual policies to final outcomes. -/
namespace Cedar

section
variable (m : Mapper) (req : PRequest) (es : PEntities) (ps : List Policy) (out : Policy → Outcome)

/-- some permit (resp. forbid) policy is finally satisfied -/
def FinalSat (eff : Effect) : Prop := ∃ p, p ∈ ps ∧ p.effect = eff ∧ out p = .sat

theorem any_sat_iff (eff : Effect) :
    ps.any (fun p => p.effect == eff && out p == .sat) = true ↔ FinalSat ps out eff := by
  unfold FinalSat
  simp only [List.any_eq_true, Bool.and_eq_true, beq_iff_eq]

theorem concreteDecision_allow_iff :
    concreteDecision ps out = .allow ↔ FinalSat ps out .permit ∧ ¬ FinalSat ps out .forbid := by
  unfold concreteDecision
  rw [← any_sat_iff, ← any_sat_iff]
  cases ps.any (fun p => p.effect == .permit && out p == .sat) <;>
    cases ps.any (fun p => p.effect == .forbid && out p == .sat) <;> simp

theorem mem_determining (id : String) :
    id ∈ determining ps out ↔
      (FinalSat ps out .forbid ∧ ∃ p, p ∈ ps ∧ id = p.id ∧ p.effect = .forbid ∧ out p = .sat) ∨
      (¬ FinalSat ps out .forbid ∧ ∃ p, p ∈ ps ∧ id = p.id ∧ p.effect = .permit ∧ out p = .sat) := by
  unfold determining
  rw [← any_sat_iff]
  cases h : ps.any (fun p => p.effect == .forbid && out p == .sat) <;>
    simp only [List.mem_map, List.mem_filter, Bool.and_eq_true, beq_iff_eq, Bool.false_eq_true, if_false, if_true,
      not_false_eq_true, true_and, false_and, or_false, false_or, not_true_eq_false] <;>
    constructor <;> (try rintro ⟨p, ⟨hp, he, ho⟩, rfl⟩) <;> (try exact ⟨p, hp, rfl, he, ho⟩) <;>
    (rintro ⟨p, hp, rfl, he, ho⟩; exact ⟨p, ⟨hp, he, ho⟩, rfl⟩)

variable (hc : ∀ p, p ∈ ps → Consistent (partialEvaluate m req es p) (out p))
include hc

/-- a finally satisfied policy was classified satisfied or residual -/
theorem sat_cases {p : Policy} (hp : p ∈ ps) (ho : out p = .sat) :
    partialEvaluate m req es p = .sat ∨ ∃ e, partialEvaluate m req es p = .residual e := by
  have h := hc p hp
  cases hpe : partialEvaluate m req es p with
  | sat => exact Or.inl rfl
  | residual e => exact Or.inr ⟨e, rfl⟩
  | unsat => rw [hpe] at h; simp only [Consistent] at h; rw [h] at ho; cases ho
  | err => rw [hpe] at h; simp only [Consistent] at h; rw [h] at ho; cases ho
  | stuck => rw [hpe] at h; exact h.elim

theorem sat_of_class {p : Policy} (hp : p ∈ ps) (h : partialEvaluate m req es p = .sat) : out p = .sat := by
  have := hc p hp; rw [h] at this; exact this

theorem table_sound_core :
    let pr := isAuthorizedCore m req es ps
    (∀ d, pr.decision = some d → concreteDecision ps out = d) ∧
    (∀ id, id ∈ pr.mustBeDetermining → id ∈ determining ps out) ∧
    (∀ id, id ∈ determining ps out → id ∈ pr.mayBeDetermining) := by
  intro pr
  have S := core_spec m es req ps
  -- the four flags
  have hSF : (∃ x, x ∈ pr.satisfiedForbids) ↔ ∃ p, p ∈ ps ∧ p.effect = .forbid ∧ partialEvaluate m req es p = .sat := by
    constructor
    · rintro ⟨x, hx⟩; rcases (S.sf x).mp hx with h | ⟨p, hp, _, he, hs⟩
      · cases h
      · exact ⟨p, hp, he, hs⟩
    · rintro ⟨p, hp, he, hs⟩; exact ⟨p.id, (S.sf p.id).mpr (Or.inr ⟨p, hp, rfl, he, hs⟩)⟩
  have hSP : (∃ x, x ∈ pr.satisfiedPermits) ↔ ∃ p, p ∈ ps ∧ p.effect = .permit ∧ partialEvaluate m req es p = .sat := by
    constructor
    · rintro ⟨x, hx⟩; rcases (S.sp x).mp hx with h | ⟨p, hp, _, he, hs⟩
      · cases h
      · exact ⟨p, hp, he, hs⟩
    · rintro ⟨p, hp, he, hs⟩; exact ⟨p.id, (S.sp p.id).mpr (Or.inr ⟨p, hp, rfl, he, hs⟩)⟩
  have hRP : (∃ x, x ∈ pr.residualPermits) ↔ ∃ p, p ∈ ps ∧ p.effect = .permit ∧ ∃ e, partialEvaluate m req es p = .residual e := by
    constructor
    · rintro ⟨⟨id, e⟩, hx⟩; rcases (S.rp id e).mp hx with h | ⟨p, hp, _, he, hs⟩
      · cases h
      · exact ⟨p, hp, he, e, hs⟩
    · rintro ⟨p, hp, he, e, hs⟩; exact ⟨(p.id, e), (S.rp p.id e).mpr (Or.inr ⟨p, hp, rfl, he, hs⟩)⟩
  have hRF : (∃ x, x ∈ pr.residualForbids) ↔ ∃ p, p ∈ ps ∧ p.effect = .forbid ∧ ∃ e, partialEvaluate m req es p = .residual e := by
    constructor
    · rintro ⟨⟨id, e⟩, hx⟩; rcases (S.rf id e).mp hx with h | ⟨p, hp, _, he, hs⟩
      · cases h
      · exact ⟨p, hp, he, e, hs⟩
    · rintro ⟨p, hp, he, e, hs⟩; exact ⟨(p.id, e), (S.rf p.id e).mpr (Or.inr ⟨p, hp, rfl, he, hs⟩)⟩
  -- consequences for the completion
  have forbidSat_of_SF : (∃ x, x ∈ pr.satisfiedForbids) → FinalSat ps out .forbid := by
    intro h; obtain ⟨p, hp, he, hs⟩ := hSF.mp h
    exact ⟨p, hp, he, sat_of_class m req es ps out hc hp hs⟩
  have noForbid : ¬ (∃ x, x ∈ pr.satisfiedForbids) → ¬ (∃ x, x ∈ pr.residualForbids) → ¬ FinalSat ps out .forbid := by
    rintro h1 h2 ⟨p, hp, he, ho⟩
    rcases sat_cases m req es ps out hc hp ho with hs | ⟨e, hs⟩
    · exact h1 (hSF.mpr ⟨p, hp, he, hs⟩)
    · exact h2 (hRF.mpr ⟨p, hp, he, e, hs⟩)
  have noPermit : ¬ (∃ x, x ∈ pr.satisfiedPermits) → ¬ (∃ x, x ∈ pr.residualPermits) → ¬ FinalSat ps out .permit := by
    rintro h1 h2 ⟨p, hp, he, ho⟩
    rcases sat_cases m req es ps out hc hp ho with hs | ⟨e, hs⟩
    · exact h1 (hSP.mpr ⟨p, hp, he, hs⟩)
    · exact h2 (hRP.mpr ⟨p, hp, he, e, hs⟩)
  have permitSat_of_SP : (∃ x, x ∈ pr.satisfiedPermits) → FinalSat ps out .permit := by
    intro h; obtain ⟨p, hp, he, hs⟩ := hSP.mp h
    exact ⟨p, hp, he, sat_of_class m req es ps out hc hp hs⟩
  have deny_of : (¬ FinalSat ps out .permit ∨ FinalSat ps out .forbid) → concreteDecision ps out = .deny := by
    intro h
    cases hd : concreteDecision ps out with
    | deny => rfl
    | allow =>
      have := (concreteDecision_allow_iff ps out).mp hd
      rcases h with h | h
      · exact (h this.1).elim
      · exact (this.2 h).elim
  refine ⟨?_, ?_, ?_⟩
  · -- decision
    intro d hd
    unfold PartialResponse.decision at hd
    cases h1 : (!pr.satisfiedForbids.isEmpty) <;> cases h2 : (!pr.satisfiedPermits.isEmpty) <;>
      cases h3 : (!pr.residualPermits.isEmpty) <;> cases h4 : (!pr.residualForbids.isEmpty) <;>
      simp only [h1, h2, h3, h4, Table.decide] at hd <;> (try cases hd) <;>
      simp only [← Bool.not_eq_true, ne_isEmpty_iff] at h1 h2 h3 h4
    all_goals first
      | exact deny_of (Or.inr (forbidSat_of_SF h1))
      | exact deny_of (Or.inl (noPermit h2 h3))
      | exact (concreteDecision_allow_iff ps out).mpr ⟨permitSat_of_SP h2, noForbid h1 h4⟩
  · -- must ⊆ determining
    intro id hid
    unfold PartialResponse.mustBeDetermining at hid
    rw [mem_determining]
    by_cases hE : (pr.satisfiedForbids.isEmpty && pr.residualForbids.isEmpty) = true
    · rw [if_pos hE] at hid
      simp only [Bool.and_eq_true, List.isEmpty_iff] at hE
      have h1 : ¬ ∃ x, x ∈ pr.satisfiedForbids := by rw [hE.1]; simp
      have h4 : ¬ ∃ x, x ∈ pr.residualForbids := by rw [hE.2]; simp
      rcases (S.sp id).mp hid with h | ⟨p, hp, rfl, he, hs⟩
      · cases h
      · exact Or.inr ⟨noForbid h1 h4, p, hp, rfl, he, sat_of_class m req es ps out hc hp hs⟩
    · rw [if_neg hE] at hid
      rcases (S.sf id).mp hid with h | ⟨p, hp, rfl, he, hs⟩
      · cases h
      · have ho := sat_of_class m req es ps out hc hp hs
        exact Or.inl ⟨⟨p, hp, he, ho⟩, p, hp, rfl, he, ho⟩
  · -- determining ⊆ may
    intro id hid
    rw [mem_determining] at hid
    unfold PartialResponse.mayBeDetermining
    rcases hid with ⟨_, p, hp, rfl, he, ho⟩ | ⟨hnf, p, hp, rfl, he, ho⟩
    · rcases sat_cases m req es ps out hc hp ho with hs | ⟨e, hs⟩
      · have hm : p.id ∈ pr.satisfiedForbids := (S.sf p.id).mpr (Or.inr ⟨p, hp, rfl, he, hs⟩)
        have hne : pr.satisfiedForbids.isEmpty = false := by
          cases hl : pr.satisfiedForbids with
          | nil => rw [hl] at hm; cases hm
          | cons a t => rfl
        rw [hne]; simp only [Bool.false_eq_true, if_false, List.mem_append]; exact Or.inl hm
      · have hm : (p.id, e) ∈ pr.residualForbids := (S.rf p.id e).mpr (Or.inr ⟨p, hp, rfl, he, hs⟩)
        have hm' : p.id ∈ pr.residualForbids.map (·.1) := List.mem_map.mpr ⟨(p.id, e), hm, rfl⟩
        split <;> simp only [List.mem_append] <;> exact Or.inr hm'
    · have hE : pr.satisfiedForbids.isEmpty = true := by
        cases hl : pr.satisfiedForbids with
        | nil => rfl
        | cons a t => exact (hnf (forbidSat_of_SF ⟨a, by rw [hl]; exact List.mem_cons_self⟩)).elim
      rw [if_pos hE]
      rcases sat_cases m req es ps out hc hp ho with hs | ⟨e, hs⟩
      · have hm : p.id ∈ pr.satisfiedPermits := (S.sp p.id).mpr (Or.inr ⟨p, hp, rfl, he, hs⟩)
        simp only [List.mem_append]; exact Or.inl (Or.inl hm)
      · have hm : (p.id, e) ∈ pr.residualPermits := (S.rp p.id e).mpr (Or.inr ⟨p, hp, rfl, he, hs⟩)
        have hm' : p.id ∈ pr.residualPermits.map (·.1) := List.mem_map.mpr ⟨(p.id, e), hm, rfl⟩
        simp only [List.mem_append]; exact Or.inl (Or.inr hm')

/-- definite buckets keep their outcome under every completion -/
theorem definite_sound_core :
    let pr := isAuthorizedCore m req es ps
    (∀ id, id ∈ pr.definitelySatisfied → ∃ p, p ∈ ps ∧ p.id = id ∧ out p = .sat) ∧
    (∀ id, id ∈ pr.definitelyErrored → ∃ p, p ∈ ps ∧ p.id = id ∧ out p = .err) ∧
    (∀ id, id ∈ pr.definitelyFalse → ∃ p, p ∈ ps ∧ p.id = id ∧ out p = .unsat) := by
  intro pr
  have S := core_spec m es req ps
  refine ⟨?_, ?_, ?_⟩
  · intro id hid
    unfold PartialResponse.definitelySatisfied at hid
    rcases List.mem_append.mp hid with h | h
    · rcases (S.sp id).mp h with h | ⟨p, hp, rfl, _, hs⟩
      · cases h
      · exact ⟨p, hp, rfl, sat_of_class m req es ps out hc hp hs⟩
    · rcases (S.sf id).mp h with h | ⟨p, hp, rfl, _, hs⟩
      · cases h
      · exact ⟨p, hp, rfl, sat_of_class m req es ps out hc hp hs⟩
  · intro id hid
    unfold PartialResponse.definitelyErrored at hid
    obtain ⟨⟨id', b⟩, hx, rfl⟩ := List.mem_map.mp hid
    obtain ⟨hx, hb⟩ := List.mem_filter.mp hx
    simp only at hb; subst hb
    rcases List.mem_append.mp hx with h | h
    · rcases (S.fp id' true).mp h with h | ⟨p, hp, rfl, _, hs⟩
      · cases h
      · rcases hs with ⟨hb, _⟩ | ⟨_, hs⟩
        · cases hb
        · have := hc p hp; rw [hs] at this; exact ⟨p, hp, rfl, this⟩
    · rcases (S.ff id' true).mp h with h | ⟨p, hp, rfl, _, hs⟩
      · cases h
      · rcases hs with ⟨hb, _⟩ | ⟨_, hs⟩
        · cases hb
        · have := hc p hp; rw [hs] at this; exact ⟨p, hp, rfl, this⟩
  · intro id hid
    unfold PartialResponse.definitelyFalse at hid
    obtain ⟨⟨id', b⟩, hx, rfl⟩ := List.mem_map.mp hid
    obtain ⟨hx, hb⟩ := List.mem_filter.mp hx
    simp only [Bool.not_eq_true'] at hb; subst hb
    rcases List.mem_append.mp hx with h | h
    · rcases (S.fp id' false).mp h with h | ⟨p, hp, rfl, _, hs⟩
      · cases h
      · rcases hs with ⟨_, hs⟩ | ⟨hb, _⟩
        · have := hc p hp; rw [hs] at this; exact ⟨p, hp, rfl, this⟩
        · cases hb
    · rcases (S.ff id' false).mp h with h | ⟨p, hp, rfl, _, hs⟩
      · cases h
      · rcases hs with ⟨_, hs⟩ | ⟨hb, _⟩
        · have := hc p hp; rw [hs] at this; exact ⟨p, hp, rfl, this⟩
        · cases hb

end

end Cedar
