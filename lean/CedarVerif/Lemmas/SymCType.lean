import CedarVerif.Lemmas.SymCompile
/-
C18: the symbolic compiler's OWN typing discipline on the fragment `SFrag2` (`ctype`), and the proof that it decides the
outcome class of `compile` exactly: `resTy (compile env e) = ctype … e` (`ctype_spec`).

`ctype` mirrors the type checks compiler.rs makes (`compile_app1/app2/if/and/or/attrs_of/has_attr/get_attr`,
`reducible_eq`) — NOT the validator's.  Those checks are not purely type-directed: `compile_if/and/or` first look at
whether the compiled guard is the CONSTANT `some true` / `some false`, and then never inspect the other operand's result.
On a literal environment the guard is such a constant exactly when `evaluate` gives that boolean (`compile_rel2`), so
`ctype` reads the guard's constant from `evaluate` (`guardConst`).
-/
namespace Cedar.SymC
open Cedar

/-- the type of `option_get t` given the type of `t` -/
def getOpt : TermType → TermType
  | .option ty => ty
  | ty => ty

/-- the type of `if_some g r` given the type of `r` -/
def optTy : TermType → TermType
  | .option ty => .option ty
  | ty => .option ty

def resTy : CResult → Except CErr TermType
  | .ok t => .ok t.typeOf
  | .error e => .error e

def tyMap (f : TermType → TermType) : Except CErr TermType → Except CErr TermType
  | .ok t => .ok (f t)
  | .error e => .error e

/-- the checks of `compile_app1` -/
def ctApp1 : UnaryOp → TermType → Except CErr TermType
  | .not, .bool => .ok (.option .bool)
  | .neg, .bitvec64 => .ok (.option .bitvec64)
  | _, _ => .error .typeError

/-- the checks of `compile_app2` (with `reducible_eq`) -/
def ctApp2 (op : BinaryOp) (ty1 ty2 : TermType) : Except CErr TermType :=
  match op, ty1, ty2 with
  | .eq, ty1, ty2 =>
    match reducibleEq ty1 ty2 with
    | .error e => .error e
    | .ok _ => .ok (.option .bool)
  | .less, .bitvec64, .bitvec64 => .ok (.option .bool)
  | .lessEq, .bitvec64, .bitvec64 => .ok (.option .bool)
  | .add, .bitvec64, .bitvec64 => .ok (.option .bitvec64)
  | .sub, .bitvec64, .bitvec64 => .ok (.option .bitvec64)
  | .mul, .bitvec64, .bitvec64 => .ok (.option .bitvec64)
  | .less, _, _ | .lessEq, _, _ | .add, _, _ | .sub, _, _ | .mul, _, _ => .error .typeError
  | _, _, _ => .error .outside

/-- the checks of `compile_has_attr` / `compile_attrs_of` -/
def ctHasAttr (ty : TermType) : Except CErr TermType :=
  match ty with
  | .entity _ => .error .outside
  | .recNil | .recCons _ _ _ => .ok (.option .bool)
  | _ => .error .typeError

/-- the checks of `compile_get_attr` / `compile_attrs_of` -/
def ctGetAttr (ty : TermType) (a : Attr) : Except CErr TermType :=
  match ty with
  | .entity _ => .error .outside
  | .recNil | .recCons _ _ _ =>
    match tyFind? ty a with
    | some fty => .ok (optTy fty)
    | none => .error .noSuchAttr
  | _ => .error .typeError

/-- the check of `compile_like` -/
def ctLike : TermType → Except CErr TermType
  | .string => .ok (.option .bool)
  | _ => .error .typeError

/-- the check of `compile_is` -/
def ctIs : TermType → Except CErr TermType
  | .entity _ => .ok (.option .bool)
  | _ => .error .typeError

/-- the guard of `if / && / ||` is the constant boolean `b` -/
def guardConst : Result Value → Option Bool
  | .ok (.prim (.bool b)) => some b
  | _ => none

/-- the compiler's typing discipline: `.ok ty` = the compiler accepts and the term has type `ty`; `.error c` = it
    returns that error.  Reads from `env` only types (of the request variables, of the context term, the entity-type
    table) and from `evaluate` only whether a guard is a constant. -/
def ctype (req : Request) (es : Entities) (senv : SlotEnv) (env : SymEnvLit) : Expr → Except CErr TermType
  | .lit (.bool _) => .ok (.option .bool)
  | .lit (.int _) => .ok (.option .bitvec64)
  | .lit (.string _) => .ok (.option .string)
  | .lit (.entityUID uid) => if env.isValidEntityUID uid then .ok (.option (.entity uid.ty)) else .error .typeError
  | .var .principal => .ok (.option (.entity env.principal.ty))
  | .var .action => .ok (.option (.entity env.action.ty))
  | .var .resource => .ok (.option (.entity env.resource.ty))
  | .var .context => if env.context.typeOf.isRecordType then .ok (.option env.context.typeOf) else .error .typeError
  | .ite c x y =>
    match ctype req es senv env c with
    | .error e => .error e
    | .ok tc =>
      match guardConst (evaluate req es senv c) with
      | some true => ctype req es senv env x
      | some false => ctype req es senv env y
      | none =>
        if tc = .option .bool then
          match ctype req es senv env x with
          | .error e => .error e
          | .ok tx =>
            match ctype req es senv env y with
            | .error e => .error e
            | .ok ty => if tx = ty then .ok (optTy tx) else .error .typeError
        else .error .typeError
  | .and a b =>
    match ctype req es senv env a with
    | .error e => .error e
    | .ok ta =>
      match guardConst (evaluate req es senv a) with
      | some false => .ok (.option .bool)
      | _ =>
        if ta = .option .bool then
          match ctype req es senv env b with
          | .error e => .error e
          | .ok tb => if tb = .option .bool then .ok (.option .bool) else .error .typeError
        else .error .typeError
  | .or a b =>
    match ctype req es senv env a with
    | .error e => .error e
    | .ok ta =>
      match guardConst (evaluate req es senv a) with
      | some true => .ok (.option .bool)
      | _ =>
        if ta = .option .bool then
          match ctype req es senv env b with
          | .error e => .error e
          | .ok tb => if tb = .option .bool then .ok (.option .bool) else .error .typeError
        else .error .typeError
  | .unaryApp op a =>
    match ctype req es senv env a with
    | .error e => .error e
    | .ok ta => tyMap optTy (ctApp1 op (getOpt ta))
  | .binaryApp op a b =>
    match ctype req es senv env a with
    | .error e => .error e
    | .ok ta =>
      match ctype req es senv env b with
      | .error e => .error e
      | .ok tb => tyMap optTy (ctApp2 op (getOpt ta) (getOpt tb))
  | .hasAttr a _ =>
    match ctype req es senv env a with
    | .error e => .error e
    | .ok ta => tyMap optTy (ctHasAttr (getOpt ta))
  | .getAttr a attr =>
    match ctype req es senv env a with
    | .error e => .error e
    | .ok ta => tyMap optTy (ctGetAttr (getOpt ta) attr)
  | .like a _ =>
    match ctype req es senv env a with
    | .error e => .error e
    | .ok ta => tyMap optTy (ctLike (getOpt ta))
  | .is a _ =>
    match ctype req es senv env a with
    | .error e => .error e
    | .ok ta => tyMap optTy (ctIs (getOpt ta))
  | _ => .error .outside

/-! ### types of the factory's results -/

def NoNot (x : Term) : Prop := ∀ a ty, x ≠ .app1 .not a ty

/-- `option_get` of a folded term: a literal, an `option_get` application, or a record -/
def Simple (x : Term) : Prop := (∃ p, x = .prim p) ∨ (∃ y ty, x = .app1 .optionGet y ty) ∨ x.isRecord = true

theorem Simple.noNot {x : Term} (h : Simple x) : NoNot x := by
  intro a ty e
  rcases h with ⟨p, rfl⟩ | ⟨y, ty', rfl⟩ | h
  · cases e
  · cases e
  · subst e; simp [Term.isRecord] at h

theorem Simple.notOpt {x : Term} (h : Simple x) : (∀ y, x ≠ .some y) ∧ (∀ ty, x ≠ .none ty) := by
  rcases h with ⟨p, rfl⟩ | ⟨y, ty', rfl⟩ | h
  · simp
  · simp
  · exact ⟨(isRecord_not_opt h).1, (isRecord_not_opt h).2.1⟩

theorem optTy_idem (ty : TermType) : optTy (optTy ty) = optTy ty := by cases ty <;> rfl

theorem fnot_typeOf {x : Term} (h : NoNot x) : (fnot x).typeOf = .bool := by
  unfold fnot
  split
  · rfl
  · exact absurd rfl (h _ _)
  · rfl

theorem fand_typeOf {a b : Term} (ha : a.typeOf = .bool) (hb : b.typeOf = .bool) : (fand a b).typeOf = .bool := by
  unfold fand
  split
  · exact ha
  · split
    · exact hb
    · split <;> rfl

theorem for_typeOf {a b : Term} (ha : a.typeOf = .bool) (hb : b.typeOf = .bool) : (for' a b).typeOf = .bool := by
  unfold for'
  split
  · exact ha
  · split
    · exact hb
    · split <;> rfl

theorem iteSimplify_typeOf {g a b : Term} (hg : g.typeOf = .bool) (hn : NoNot g) (hab : a.typeOf = b.typeOf) :
    (iteSimplify g a b).typeOf = a.typeOf := by
  unfold iteSimplify
  split
  · rfl
  · split
    · exact hab.symm
    · split
      · exact hg
      · rw [fnot_typeOf hn]; rfl
      · have : a.typeOf = .bool := by rw [hab]; rfl
        rw [fand_typeOf hg this, this]
      · have : b.typeOf = .bool := by rw [← hab]; rfl
        rw [for_typeOf hg this]; rfl
      · rfl

theorem fite_typeOf {g a b : Term} (hg : g.typeOf = .bool) (hn : NoNot g) (hab : a.typeOf = b.typeOf) :
    (fite g a b).typeOf = a.typeOf := by
  unfold fite
  split
  · simp only [Term.typeOf, TermType.option.injEq] at hab ⊢
    exact iteSimplify_typeOf hg hn hab
  · exact iteSimplify_typeOf hg hn hab

theorem ifFalse_typeOf (g t : Term) : (ifFalse g t).typeOf = .option t.typeOf := by
  simp only [ifFalse, noneOf, someOf, fite]
  unfold iteSimplify
  split
  · rfl
  · split
    · rfl
    · simp [Term.typeOf]

theorem ifSome_typeOf {g : Term} (hg : (∃ x, g = .some x) ∨ (∃ ty, g = .none ty)) (r : Term) :
    (ifSome g r).typeOf = optTy r.typeOf := by
  have hgn : isNone g = tTrue ∨ isNone g = tFalse := by
    rcases hg with ⟨x, rfl⟩ | ⟨ty, rfl⟩
    · right; exact isNone_some x
    · left; exact isNone_none ty
  unfold ifSome
  split
  · rename_i ty hty
    rw [hty]
    rcases hgn with h | h <;> rw [h]
    · rw [fite_true]; rfl
    · rw [fite_false]; exact hty
  · rename_i hnot
    rw [ifFalse_typeOf]
    cases hr : r.typeOf <;> simp [optTy]
    exact absurd hr (hnot _)

theorem optionGet_typeOf (t : Term) : (optionGet t).typeOf = getOpt t.typeOf := by
  unfold optionGet
  split
  · rfl
  · split
    · rename_i ty h; rw [h]; rfl
    · rename_i h
      cases ht : t.typeOf <;> simp [getOpt] <;> try rw [ht]
      exact absurd ht (h _)

theorem optionGet_none (ty : TermType) : optionGet (.none ty) = .app1 .optionGet (.none ty) ty := by
  simp [optionGet, Term.typeOf]

theorem bvneg_typeOf {x : Term} (h : Simple x) : (bvneg x).typeOf = x.typeOf := by
  rcases h with ⟨p, rfl⟩ | ⟨y, ty', rfl⟩ | h
  · cases p <;> rfl
  · rfl
  · cases x <;> simp [Term.isRecord] at h <;> rfl

theorem bvapp_typeOf (op : Op) (f : BitVec 64 → BitVec 64 → BitVec 64) (a b : Term) : (bvapp op f a b).typeOf = a.typeOf := by
  unfold bvapp; split <;> rfl

theorem bvcmp_typeOf (op : Op) (f : BitVec 64 → BitVec 64 → Bool) (a b : Term) : (bvcmp op f a b).typeOf = .bool := by
  unfold bvcmp; split <;> rfl

theorem eqSimplify_typeOf {a b : Term} (ha : NoNot a) (hb : NoNot b) : (eqSimplify a b).typeOf = .bool := by
  unfold eqSimplify
  split
  · rfl
  · split
    · rfl
    · split
      · rename_i h; simp only [Bool.and_eq_true, beq_iff_eq] at h; exact h.2
      · split
        · rename_i h; simp only [Bool.and_eq_true, beq_iff_eq] at h; exact h.2
        · split
          · exact fnot_typeOf hb
          · split
            · exact fnot_typeOf ha
            · rfl

theorem feq_typeOf {a b : Term} (ha : Simple a) (hb : Simple b) : (feq a b).typeOf = .bool := by
  unfold feq
  split
  · exact absurd rfl (ha.notOpt.1 _)
  · exact absurd rfl (ha.notOpt.1 _)
  · exact absurd rfl (ha.notOpt.2 _)
  · exact eqSimplify_typeOf ha.noNot hb.noNot

/-! ### `compile_app1` / `compile_app2` at the type level -/

theorem compileApp1_ty (op : UnaryOp) (hop : op ≠ .isEmpty) {x : Term} (hs : Simple x) :
    resTy (compileApp1 op x) = ctApp1 op x.typeOf := by
  cases op <;> (try (exact absurd rfl hop)) <;> cases hx : x.typeOf <;>
    simp [compileApp1, ctApp1, hx, resTy, someOf, Term.typeOf, ifFalse_typeOf, fnot_typeOf hs.noNot, bvneg_typeOf hs]

theorem compileApp2_ty (op : BinaryOp) (hop : op ≠ .contains ∧ op ≠ .containsAll ∧ op ≠ .containsAny)
    {x1 x2 : Term} (h1 : Simple x1) (h2 : Simple x2) :
    resTy (compileApp2 op x1 x2) = ctApp2 op x1.typeOf x2.typeOf := by
  cases op
  case contains => exact absurd rfl hop.1
  case containsAll => exact absurd rfl hop.2.1
  case containsAny => exact absurd rfl hop.2.2
  case eq =>
    simp only [compileApp2, ctApp2]
    cases hr : reducibleEq x1.typeOf x2.typeOf with
    | error e => rfl
    | ok b => cases b <;> simp [resTy, someOf, Term.typeOf, feq_typeOf h1 h2, TermPrim.typeOf]
  all_goals
    cases hx1 : x1.typeOf <;> cases hx2 : x2.typeOf <;>
      simp [compileApp2, ctApp2, hx1, hx2, resTy, someOf, Term.typeOf, ifFalse_typeOf, bvadd, bvsub, bvmul, bvslt, bvsle,
        bvapp_typeOf, bvcmp_typeOf]

/-! ### attributes -/

def NoApp3 (y : Term) : Prop := ∀ op g a b ty, y ≠ .app3 op g a b ty

/-- the fields of a record operand are literals / `some` / `none` (what `CtxOK` gives) -/
def FldOK (x : Term) : Prop := ∀ a ft, recFind? x a = some ft → NoApp3 ft

theorem Simple.noApp3 {x : Term} (h : Simple x) : NoApp3 x := by
  intro op g a b ty e
  rcases h with ⟨p, rfl⟩ | ⟨y, ty', rfl⟩ | h
  · cases e
  · cases e
  · subst e; simp [Term.isRecord] at h

theorem recordGet_typeOf {x : Term} {a : Attr} {fty : TermType} (h : tyFind? x.typeOf a = some fty) :
    (recordGet x a).typeOf = fty := by
  unfold recordGet
  split
  · rename_i hr
    have := tyFind_typeOf hr a
    rw [h] at this
    cases hf : recFind? x a with
    | none => simp [hf] at this
    | some ft => simp only [hf, Option.map_some, Option.some.injEq] at this; exact this.symm
  · simp [h, Term.typeOf]

theorem recordGet_noApp3 {x : Term} (hs : Simple x) (hf : FldOK x) (a : Attr) : NoApp3 (recordGet x a) := by
  unfold recordGet
  split
  · cases h : recFind? x a with
    | none => exact hs.noApp3
    | some ft => exact hf a ft h
  · cases h : tyFind? x.typeOf a with
    | none => exact hs.noApp3
    | some ty => intro op g a b ty' e; cases e

theorem eqSimplify_none_noNot (t : Term) (ty : TermType) (ht : NoNot t) : NoNot (eqSimplify t (.none ty)) := by
  unfold eqSimplify
  split
  · intro a ty' e; cases e
  · split
    · intro a ty' e; cases e
    · split
      · intro a ty' e; cases e
      · split
        · exact ht
        · split
          · rename_i h; simp [Term.typeOf] at h
          · split
            · rename_i h; simp at h
            · intro a ty' e; cases e

theorem isNone_noNot {y : Term} (h : NoApp3 y) (hn : NoNot y) : NoNot (isNone y) := by
  have hdef : NoNot (isNoneDefault y) ∨ (∃ x, y = .some x) := by
    by_cases hs : ∃ x, y = .some x
    · exact Or.inr hs
    · left
      unfold isNoneDefault
      split
      · rename_i ty _
        have : feq y (.none ty) = eqSimplify y (.none ty) := by
          unfold feq
          split <;> first | rfl | (exfalso; simp_all)
        rw [this]
        exact eqSimplify_none_noNot _ _ hn
      · intro a ty' e; cases e
  unfold isNone
  split
  · intro a ty' e; cases e
  · intro a ty' e; cases e
  · exact absurd rfl (h _ _ _ _ _)
  · rcases hdef with hd | ⟨x, rfl⟩
    · exact hd
    · rename_i hne _ ; exact absurd rfl (hne x)

theorem isSome_typeOf {y : Term} (h : NoApp3 y) (hn : NoNot y) : (isSome y).typeOf = .bool :=
  fnot_typeOf (isNone_noNot h hn)

theorem recordGet_noNot {x : Term} (hs : Simple x) (hf : ∀ a ft, recFind? x a = some ft → NoNot ft) (a : Attr) :
    NoNot (recordGet x a) := by
  unfold recordGet
  split
  · cases h : recFind? x a with
    | none => exact hs.noNot
    | some ft => exact hf a ft h
  · cases h : tyFind? x.typeOf a with
    | none => exact hs.noNot
    | some ty => intro a ty' e; cases e

theorem compileHasAttr_ty {x : Term} (hs : Simple x) (hf : FldOK x) (hf' : ∀ a ft, recFind? x a = some ft → NoNot ft)
    (a : Attr) : resTy (compileHasAttr x a) = ctHasAttr x.typeOf := by
  have hb := isSome_typeOf (recordGet_noApp3 hs hf a) (recordGet_noNot hs hf' a)
  unfold compileHasAttr compileAttrsOf
  cases hx : x.typeOf <;> simp [hx, ctHasAttr, resTy, TermType.isRecordType, tyFind?]
  case recNil => simp [someOf, Term.typeOf, TermPrim.typeOf]
  case recCons b fty rest =>
    generalize (if b = a then some fty else tyFind? rest a) = o
    cases o with
    | none => simp [someOf, Term.typeOf, TermPrim.typeOf]
    | some ty => by_cases ho : ty.isOptionType = true <;> simp [ho, someOf, Term.typeOf, TermPrim.typeOf, hb]

theorem compileGetAttr_ty {x : Term} (a : Attr) : resTy (compileGetAttr x a) = ctGetAttr x.typeOf a := by
  unfold compileGetAttr compileAttrsOf
  cases hx : x.typeOf <;> simp [hx, ctGetAttr, resTy, TermType.isRecordType, tyFind?]
  case recCons b fty rest =>
    have hg : ∀ ty, (if b = a then some fty else tyFind? rest a) = some ty → (recordGet x a).typeOf = ty := by
      intro ty h
      apply recordGet_typeOf
      rw [hx]; simpa [tyFind?] using h
    generalize (if b = a then some fty else tyFind? rest a) = o at hg ⊢
    cases o with
    | none => simp
    | some ty =>
      have := hg ty rfl
      cases ty <;> simp [TermType.isOptionType, someOf, Term.typeOf, this, optTy]

theorem compileLike_ty (x : Term) (p : Pattern) : resTy (compileLike x p) = ctLike x.typeOf := by
  have : (stringLike x p).typeOf = .bool := by unfold stringLike; split <;> rfl
  cases hx : x.typeOf <;> simp [compileLike, ctLike, hx, resTy, someOf, Term.typeOf, this]

theorem compileIs_ty (x : Term) (ety : EntityType) : resTy (compileIs x ety) = ctIs x.typeOf := by
  cases hx : x.typeOf <;> simp [compileIs, ctIs, hx, resTy, someOf, Term.typeOf, TermPrim.typeOf]

/-! ### what `Rel` (the invariant of `compile_rel2`) says about a compiled operand -/

theorem Rel.opnd {ctx : List (String × Value)} {ctxT : Term} {r : Result Value} {t1 : Term} (h : Rel ctx ctxT r t1) :
    ((∃ x, t1 = .some x) ∨ (∃ ty, t1 = .none ty)) ∧ Simple (optionGet t1) ∧ FldOK (optionGet t1) ∧
    (∀ a ft, recFind? (optionGet t1) a = some ft → NoNot ft) := by
  rcases h.cases with ⟨p, _, _, rfl⟩ | ⟨_, ty, _, rfl⟩ | ⟨_, rfl, hrec, hfld, _⟩
  · rw [optionGet_some]
    exact ⟨Or.inl ⟨_, rfl⟩, Or.inl ⟨_, rfl⟩, by intro a ft h; simp [recFind?] at h, by intro a ft h; simp [recFind?] at h⟩
  · rw [optionGet_none]
    exact ⟨Or.inr ⟨_, rfl⟩, Or.inr (Or.inl ⟨_, _, rfl⟩), by intro a ft h; simp [recFind?] at h,
      by intro a ft h; simp [recFind?] at h⟩
  · rw [optionGet_some]
    refine ⟨Or.inl ⟨_, rfl⟩, Or.inr (Or.inr hrec), ?_, ?_⟩
    · intro a ft h op g x y ty e
      rcases hfld a ft h with ⟨p, _, _, rfl | rfl⟩ | ⟨_, ty', rfl⟩ <;> cases e
    · intro a ft h x ty e
      rcases hfld a ft h with ⟨p, _, _, rfl | rfl⟩ | ⟨_, ty', rfl⟩ <;> cases e

theorem Rel.guard {ctx : List (String × Value)} {ctxT : Term} {r : Result Value} {t1 : Term} (h : Rel ctx ctxT r t1) :
    (∃ b, guardConst r = some b ∧ t1 = .some (.prim (.bool b))) ∨
    (guardConst r = none ∧ t1 = .none .bool) ∨
    (guardConst r = none ∧ t1.typeOf ≠ .option .bool ∧ ∀ r2 r3, compileIf t1 r2 r3 = .error .typeError ∧
      compileAnd t1 r2 = .error .typeError ∧ compileOr t1 r2 = .error .typeError) := by
  rcases h.cases with ⟨p, rfl, _, rfl⟩ | ⟨err, ty, rfl, rfl⟩ | ⟨rfl, rfl, hrec, _, _⟩
  · by_cases hb : ∃ b, p = .bool b
    · obtain ⟨b, rfl⟩ := hb
      exact Or.inl ⟨b, rfl, rfl⟩
    · refine Or.inr (Or.inr ⟨?_, ?_, fun r2 r3 => ⟨compileIf_nonbool (fun b h => hb ⟨b, h⟩) r2 r3,
        compileAnd_nonbool (fun b h => hb ⟨b, h⟩) r2, compileOr_nonbool (fun b h => hb ⟨b, h⟩) r2⟩⟩)
      · cases p <;> simp [guardConst] at hb ⊢
      · cases p <;> simp [litPrim, Term.typeOf, TermPrim.typeOf] at hb ⊢
  · by_cases hty : ty = .bool
    · subst hty; exact Or.inr (Or.inl ⟨rfl, rfl⟩)
    · refine Or.inr (Or.inr ⟨rfl, (by simpa [Term.typeOf] using hty), fun r2 r3 => ?_⟩)
      cases ty <;> simp [compileIf, compileAnd, compileOr, Term.typeOf] at hty ⊢
  · refine Or.inr (Or.inr ⟨rfl, ?_, fun r2 r3 => compileCond_record hrec r2 r3⟩)
    have := isRecord_typeOf hrec
    intro e
    simp only [Term.typeOf, TermType.option.injEq] at e
    rw [e] at this
    simp [TermType.isRecordType] at this

theorem cond_typeOf {t1 t2 t3 : Term} (h1 : t1 = .none .bool ∨ ∃ b, t1 = .some (.prim (.bool b)))
    (heq : t2.typeOf = t3.typeOf) : (ifSome t1 (fite (optionGet t1) t2 t3)).typeOf = optTy t2.typeOf := by
  rcases h1 with rfl | ⟨b, rfl⟩
  · rw [ifSome_typeOf (Or.inr ⟨_, rfl⟩), optionGet_none, fite_typeOf rfl (by intro a ty e; cases e) heq]
  · rw [ifSome_typeOf (Or.inl ⟨_, rfl⟩), optionGet_some, fite_typeOf rfl (by intro a ty e; cases e) heq]

theorem compileAnd_ty {t1 : Term} (h1 : t1 = .none .bool ∨ t1 = .some tTrue) (r2 : CResult) :
    resTy (compileAnd t1 r2) =
      match resTy r2 with
      | .error e => .error e
      | .ok tb => if tb = .option .bool then .ok (.option .bool) else .error .typeError := by
  have hc : t1 = .none .bool ∨ ∃ b, t1 = .some (.prim (.bool b)) := by
    rcases h1 with h | h
    · exact Or.inl h
    · exact Or.inr ⟨true, h⟩
  cases r2 with
  | error e => rcases h1 with rfl | rfl <;> simp [compileAnd, Term.typeOf, TermPrim.typeOf, resTy]
  | ok t2 =>
    by_cases heq : t2.typeOf = .option .bool
    · have := cond_typeOf (t3 := someOf tFalse) hc (by rw [heq]; rfl)
      rw [heq] at this
      rcases h1 with rfl | rfl <;> simp [compileAnd, Term.typeOf, TermPrim.typeOf, resTy, heq, this, optTy]
    · rcases h1 with rfl | rfl <;> simp [compileAnd, Term.typeOf, TermPrim.typeOf, resTy, heq]

theorem compileOr_ty {t1 : Term} (h1 : t1 = .none .bool ∨ t1 = .some tFalse) (r2 : CResult) :
    resTy (compileOr t1 r2) =
      match resTy r2 with
      | .error e => .error e
      | .ok tb => if tb = .option .bool then .ok (.option .bool) else .error .typeError := by
  have hc : t1 = .none .bool ∨ ∃ b, t1 = .some (.prim (.bool b)) := by
    rcases h1 with h | h
    · exact Or.inl h
    · exact Or.inr ⟨false, h⟩
  cases r2 with
  | error e => rcases h1 with rfl | rfl <;> simp [compileOr, Term.typeOf, TermPrim.typeOf, resTy]
  | ok t2 =>
    by_cases heq : t2.typeOf = .option .bool
    · have := cond_typeOf (t2 := someOf tTrue) (t3 := t2) hc (by rw [heq]; rfl)
      rcases h1 with rfl | rfl <;> simp [compileOr, Term.typeOf, TermPrim.typeOf, resTy, heq, optTy] <;>
        simpa [someOf, Term.typeOf, TermPrim.typeOf, optTy] using this
    · rcases h1 with rfl | rfl <;> simp [compileOr, Term.typeOf, TermPrim.typeOf, resTy, heq]

theorem compileIf_ty (r2 r3 : CResult) :
    resTy (compileIf (.none .bool) r2 r3) =
      match resTy r2 with
      | .error e => .error e
      | .ok tx =>
        match resTy r3 with
        | .error e => .error e
        | .ok ty => if tx = ty then .ok (optTy tx) else .error .typeError := by
  cases r2 with
  | error e => simp [compileIf, Term.typeOf, resTy]
  | ok t2 =>
    cases r3 with
    | error e => simp [compileIf, Term.typeOf, resTy]
    | ok t3 =>
      by_cases heq : t2.typeOf = t3.typeOf
      · have := cond_typeOf (t1 := .none .bool) (Or.inl rfl) heq
        simp [compileIf, Term.typeOf, resTy, heq, this]
      · simp [compileIf, Term.typeOf, resTy, heq]

/-! ### the induction -/

section
variable (req : Request) (es : Entities) (senv : SlotEnv) (etys : List (EntityType × Option (List String))) (ctxT : Term)
variable (hctx : ctxT.typeOf.isRecordType = true → CtxOK req.context ctxT)
include hctx

theorem unary_ty {op : UnaryOp} (hop : op ≠ .isEmpty) {a : Expr} (hfa : SFrag2 a)
    (ih : resTy (compile (litEnv2 req etys ctxT) a) = ctype req es senv (litEnv2 req etys ctxT) a) :
    resTy (compile (litEnv2 req etys ctxT) (.unaryApp op a)) = ctype req es senv (litEnv2 req etys ctxT) (.unaryApp op a) := by
  simp only [compile, ctype]
  rw [← ih]
  cases h1 : compile (litEnv2 req etys ctxT) a with
  | error e => simp [resTy]
  | ok t1 =>
    obtain ⟨hsh, hs, _, _⟩ := (compile_rel2 req es senv etys ctxT hctx hfa t1 h1).opnd
    simp only [resTy]
    rw [← optionGet_typeOf, ← compileApp1_ty op hop hs]
    cases compileApp1 op (optionGet t1) with
    | error e => simp [resTy, tyMap]
    | ok r => simp [resTy, tyMap, ifSome_typeOf hsh]

theorem binary_ty {op : BinaryOp} (hop : op ≠ .contains ∧ op ≠ .containsAll ∧ op ≠ .containsAny) {a b : Expr} (hfa : SFrag2 a) (hfb : SFrag2 b)
    (iha : resTy (compile (litEnv2 req etys ctxT) a) = ctype req es senv (litEnv2 req etys ctxT) a)
    (ihb : resTy (compile (litEnv2 req etys ctxT) b) = ctype req es senv (litEnv2 req etys ctxT) b) :
    resTy (compile (litEnv2 req etys ctxT) (.binaryApp op a b)) = ctype req es senv (litEnv2 req etys ctxT) (.binaryApp op a b) := by
  simp only [compile, ctype]
  rw [← iha, ← ihb]
  cases h1 : compile (litEnv2 req etys ctxT) a with
  | error e => simp [resTy]
  | ok t1 =>
    cases h2 : compile (litEnv2 req etys ctxT) b with
    | error e => simp [resTy]
    | ok t2 =>
      obtain ⟨hsh1, hs1, _, _⟩ := (compile_rel2 req es senv etys ctxT hctx hfa t1 h1).opnd
      obtain ⟨hsh2, hs2, _, _⟩ := (compile_rel2 req es senv etys ctxT hctx hfb t2 h2).opnd
      simp only [resTy]
      rw [← optionGet_typeOf, ← optionGet_typeOf, ← compileApp2_ty op hop hs1 hs2]
      cases compileApp2 op (optionGet t1) (optionGet t2) with
      | error e => simp [resTy, tyMap]
      | ok r => simp [resTy, tyMap, ifSome_typeOf hsh1, ifSome_typeOf hsh2, optTy_idem]

theorem hasAttr_ty {a : Expr} {attr : Attr} (hfa : SFrag2 a)
    (ih : resTy (compile (litEnv2 req etys ctxT) a) = ctype req es senv (litEnv2 req etys ctxT) a) :
    resTy (compile (litEnv2 req etys ctxT) (.hasAttr a attr)) = ctype req es senv (litEnv2 req etys ctxT) (.hasAttr a attr) := by
  simp only [compile, ctype]
  rw [← ih]
  cases h1 : compile (litEnv2 req etys ctxT) a with
  | error e => simp [resTy]
  | ok t1 =>
    obtain ⟨hsh, hs, hf, hf'⟩ := (compile_rel2 req es senv etys ctxT hctx hfa t1 h1).opnd
    simp only [resTy]
    rw [← optionGet_typeOf, ← compileHasAttr_ty hs hf hf' attr]
    cases compileHasAttr (optionGet t1) attr with
    | error e => simp [resTy, tyMap]
    | ok r => simp [resTy, tyMap, ifSome_typeOf hsh]

theorem getAttr_ty {a : Expr} {attr : Attr} (hfa : SFrag2 a)
    (ih : resTy (compile (litEnv2 req etys ctxT) a) = ctype req es senv (litEnv2 req etys ctxT) a) :
    resTy (compile (litEnv2 req etys ctxT) (.getAttr a attr)) = ctype req es senv (litEnv2 req etys ctxT) (.getAttr a attr) := by
  simp only [compile, ctype]
  rw [← ih]
  cases h1 : compile (litEnv2 req etys ctxT) a with
  | error e => simp [resTy]
  | ok t1 =>
    obtain ⟨hsh, _, _, _⟩ := (compile_rel2 req es senv etys ctxT hctx hfa t1 h1).opnd
    simp only [resTy]
    rw [← optionGet_typeOf, ← compileGetAttr_ty attr]
    cases compileGetAttr (optionGet t1) attr with
    | error e => simp [resTy, tyMap]
    | ok r => simp [resTy, tyMap, ifSome_typeOf hsh]

theorem like_ty {a : Expr} {p : Pattern} (hfa : SFrag2 a)
    (ih : resTy (compile (litEnv2 req etys ctxT) a) = ctype req es senv (litEnv2 req etys ctxT) a) :
    resTy (compile (litEnv2 req etys ctxT) (.like a p)) = ctype req es senv (litEnv2 req etys ctxT) (.like a p) := by
  simp only [compile, ctype]
  rw [← ih]
  cases h1 : compile (litEnv2 req etys ctxT) a with
  | error e => simp [resTy]
  | ok t1 =>
    obtain ⟨hsh, _, _, _⟩ := (compile_rel2 req es senv etys ctxT hctx hfa t1 h1).opnd
    simp only [resTy]
    rw [← optionGet_typeOf, ← compileLike_ty _ p]
    cases compileLike (optionGet t1) p with
    | error e => simp [resTy, tyMap]
    | ok r => simp [resTy, tyMap, ifSome_typeOf hsh]

theorem is_ty {a : Expr} {ety : EntityType} (hfa : SFrag2 a)
    (ih : resTy (compile (litEnv2 req etys ctxT) a) = ctype req es senv (litEnv2 req etys ctxT) a) :
    resTy (compile (litEnv2 req etys ctxT) (.is a ety)) = ctype req es senv (litEnv2 req etys ctxT) (.is a ety) := by
  simp only [compile, ctype]
  rw [← ih]
  cases h1 : compile (litEnv2 req etys ctxT) a with
  | error e => simp [resTy]
  | ok t1 =>
    obtain ⟨hsh, _, _, _⟩ := (compile_rel2 req es senv etys ctxT hctx hfa t1 h1).opnd
    simp only [resTy]
    rw [← optionGet_typeOf, ← compileIs_ty _ ety]
    cases compileIs (optionGet t1) ety with
    | error e => simp [resTy, tyMap]
    | ok r => simp [resTy, tyMap, ifSome_typeOf hsh]

/-- the compiler's outcome CLASS (accepted with a term of type `ty` / `TypeError` / `NoSuchAttribute` / outside the
    model) is exactly what its typing discipline `ctype` says -/
theorem ctype_spec {e : Expr} (hf : SFrag2 e) :
    resTy (compile (litEnv2 req etys ctxT) e) = ctype req es senv (litEnv2 req etys ctxT) e := by
  induction hf with
  | litBool b => rfl
  | litInt i h => rfl
  | litString s => rfl
  | litEntity uid =>
    simp only [compile, compilePrim, ctype]
    split <;> simp [resTy, someOf, Term.typeOf, TermPrim.typeOf]
  | principal => rfl
  | action => rfl
  | resource => rfl
  | context =>
    simp only [compile, compileVar, ctype]
    split <;> simp [resTy, someOf, Term.typeOf]
  | @ite c x y hc _ _ ihc ihx ihy =>
    simp only [compile, ctype]
    rw [← ihc, ← ihx, ← ihy]
    cases h1 : compile (litEnv2 req etys ctxT) c with
    | error e => simp [resTy]
    | ok t1 =>
      dsimp only
      rcases (compile_rel2 req es senv etys ctxT hctx hc t1 h1).guard with ⟨b, hg, rfl⟩ | ⟨hg, rfl⟩ | ⟨hg, hty, hcomp⟩
      · cases b <;> simp [resTy, hg, compileIf]
      · rw [compileIf_ty]
        simp [resTy, hg, Term.typeOf]
      · rw [(hcomp _ _).1]
        simp [resTy, hg, hty]
  | @and a b ha _ iha ihb =>
    simp only [compile, ctype]
    rw [← iha, ← ihb]
    cases h1 : compile (litEnv2 req etys ctxT) a with
    | error e => simp [resTy]
    | ok t1 =>
      dsimp only
      rcases (compile_rel2 req es senv etys ctxT hctx ha t1 h1).guard with ⟨b, hg, rfl⟩ | ⟨hg, rfl⟩ | ⟨hg, hty, hcomp⟩
      · cases b
        · simp [resTy, hg, compileAnd, Term.typeOf, TermPrim.typeOf]
        · rw [compileAnd_ty (Or.inr rfl)]
          simp [resTy, hg, Term.typeOf, TermPrim.typeOf]
      · rw [compileAnd_ty (Or.inl rfl)]
        simp [resTy, hg, Term.typeOf]
      · rw [(hcomp _ (.error .typeError)).2.1]
        simp [resTy, hg, hty]
  | @or a b ha _ iha ihb =>
    simp only [compile, ctype]
    rw [← iha, ← ihb]
    cases h1 : compile (litEnv2 req etys ctxT) a with
    | error e => simp [resTy]
    | ok t1 =>
      dsimp only
      rcases (compile_rel2 req es senv etys ctxT hctx ha t1 h1).guard with ⟨b, hg, rfl⟩ | ⟨hg, rfl⟩ | ⟨hg, hty, hcomp⟩
      · cases b
        · rw [compileOr_ty (Or.inr rfl)]
          simp [resTy, hg, Term.typeOf, TermPrim.typeOf]
        · simp [resTy, hg, compileOr, Term.typeOf, TermPrim.typeOf]
      · rw [compileOr_ty (Or.inl rfl)]
        simp [resTy, hg, Term.typeOf]
      · rw [(hcomp _ (.error .typeError)).2.2]
        simp [resTy, hg, hty]
  | not h ih => exact unary_ty req es senv etys ctxT hctx (by decide) h ih
  | neg h ih => exact unary_ty req es senv etys ctxT hctx (by decide) h ih
  | eq h1 h2 iha ihb => exact binary_ty req es senv etys ctxT hctx (by decide) h1 h2 iha ihb
  | less h1 h2 iha ihb => exact binary_ty req es senv etys ctxT hctx (by decide) h1 h2 iha ihb
  | lessEq h1 h2 iha ihb => exact binary_ty req es senv etys ctxT hctx (by decide) h1 h2 iha ihb
  | add h1 h2 iha ihb => exact binary_ty req es senv etys ctxT hctx (by decide) h1 h2 iha ihb
  | sub h1 h2 iha ihb => exact binary_ty req es senv etys ctxT hctx (by decide) h1 h2 iha ihb
  | mul h1 h2 iha ihb => exact binary_ty req es senv etys ctxT hctx (by decide) h1 h2 iha ihb
  | getAttr attr h ih => exact getAttr_ty req es senv etys ctxT hctx h ih
  | hasAttr attr h ih => exact hasAttr_ty req es senv etys ctxT hctx h ih
  | like p h ih => exact like_ty req es senv etys ctxT hctx h ih
  | is ety h ih => exact is_ty req es senv etys ctxT hctx h ih

end

end Cedar.SymC
