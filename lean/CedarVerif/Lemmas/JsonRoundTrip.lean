import CedarVerif.Lemmas.JsonBasic
import CedarVerif.Thm.C02
/-
C10, value level: serialising a well-formed value whose extension leaves round trip (`LeafOK`) yields a document
that parses back (escape-directed) to a `beq`-equal value; serialisation fails exactly on reserved keys.
-/
namespace Cedar
namespace CJson

abbrev ev (e : Expr) : Result Value := evaluate dummyReq [] [] e

inductive Rel2 {α β} (R : α → β → Prop) : List α → List β → Prop
  | nil : Rel2 R [] []
  | cons {a b as bs} : R a b → Rel2 R as bs → Rel2 R (a :: as) (b :: bs)

abbrev BeqList := Rel2 (fun a b : Value => Value.beq a b = true)
abbrev BeqKVs := Rel2 (fun (a b : String × Value) => a.1 = b.1 ∧ Value.beq a.2 b.2 = true)

/-- `c` is a faithful serialisation of `v`: the document deserialises to `c` again, calls no `unknown`, and
    converts + evaluates to a value equal to `v` -/
def RT (v : Value) (c : CJ) : Prop :=
  rawOk c.toJson = true ∧ CJ.ofRaw c.toJson = c ∧ c.callsUnknown = false ∧
  ∃ e, c.intoExpr = .ok e ∧ ∃ v', ev e = .ok v' ∧ Value.beq v v' = true

def RTList (vs : List Value) (cs : List CJ) : Prop :=
  rawOkList (CJ.toJsonList cs) = true ∧ CJ.ofRawList (CJ.toJsonList cs) = cs ∧ CJ.callsUnknownList cs = false ∧
  ∃ es, CJ.intoExprList cs = .ok es ∧ ∃ vs', evaluateList dummyReq [] [] es = .ok vs' ∧ BeqList vs vs'

def RTKVs (kvs : List (String × Value)) (cs : List (String × CJ)) : Prop :=
  rawOkKVs (CJ.toJsonKVs cs) = true ∧ CJ.ofRawKVs (CJ.toJsonKVs cs) = cs ∧ CJ.callsUnknownKVs cs = false ∧
  cs.map Prod.fst = kvs.map Prod.fst ∧
  ∃ es, CJ.intoExprKVs cs = .ok es ∧ ∃ vs', evaluateKVs dummyReq [] [] es = .ok vs' ∧ BeqKVs kvs vs'

/-- the extension value `x`, rendered by `ρ`, round trips -/
def LeafOK (ρ : Ext → String × List Expr) (x : Ext) : Prop :=
  ∃ c, fromValueWith ρ (.ext x) = .ok c ∧ RT (.ext x) c

theorem mem_mkSet {b : Value} {l : List Value} (h : b ∈ Value.mkSet l) : b ∈ l := by
  induction l with
  | nil => simp [Value.mkSet] at h
  | cons x xs ih =>
    simp only [Value.mkSet] at h
    split at h
    · exact List.mem_cons_of_mem _ (ih h)
    · rcases List.mem_cons.mp h with rfl | h
      · exact List.mem_cons_self ..
      · exact List.mem_cons_of_mem _ (ih h)

theorem elem_left_of_rel {vs vs' : List Value} (h : BeqList vs vs') {a : Value} (ha : a ∈ vs) :
    Value.elem a vs' = true := by
  induction h with
  | nil => cases ha
  | cons hab _ ih =>
    rw [Value.elem]
    rcases List.mem_cons.mp ha with rfl | ha
    · simp [hab]
    · simp [ih ha]

theorem elem_right_of_rel {vs vs' : List Value} (h : BeqList vs vs') {b : Value} (hb : b ∈ vs') :
    Value.elem b vs = true := by
  induction h with
  | nil => cases hb
  | @cons a b0 _ _ hab _ ih =>
    rw [Value.elem]
    rcases List.mem_cons.mp hb with rfl | hb
    · have : Value.beq b a = true := by rw [C02.eq_symm]; exact hab
      simp [this]
    · simp [ih hb]

theorem set_beq (vs vs' : List Value) (h : BeqList vs vs') :
    Value.beq (.set vs) (.set (Value.mkSet vs')) = true := by
  rw [Value.beq]
  simp only [Bool.and_eq_true, Value.subset_iff]
  constructor
  · intro a ha
    rw [C02.mkSet_mem]
    exact elem_left_of_rel h ha
  · intro b hb
    exact elem_right_of_rel h (mem_mkSet hb)

theorem beqKVs_of (kvs vs' : List (String × Value)) (h : BeqKVs kvs vs') : Value.beqKVs kvs vs' = true := by
  induction h with
  | nil => simp [Value.beqKVs]
  | @cons a b _ _ hab _ ih =>
    obtain ⟨k, v⟩ := a
    obtain ⟨k', v'⟩ := b
    simp only at hab
    rw [Value.beqKVs]
    simp [hab.1, hab.2, ih]

theorem BeqKVs.keys {kvs vs' : List (String × Value)} (h : BeqKVs kvs vs') :
    vs'.map Prod.fst = kvs.map Prod.fst := by
  induction h with
  | nil => rfl
  | cons hab _ ih => simp [hab.1, ih]

theorem hasReservedKey_keys {α β} (a : List (String × α)) (b : List (String × β))
    (h : a.map Prod.fst = b.map Prod.fst) : hasReservedKey a = hasReservedKey b := by
  induction a generalizing b with
  | nil => cases b <;> simp_all [hasReservedKey]
  | cons x xs ih =>
    cases b with
    | nil => simp at h
    | cons y ys =>
      simp only [List.map_cons, List.cons.injEq] at h
      have := ih ys h.2
      simp only [hasReservedKey, List.any_cons] at this ⊢
      rw [h.1, this]

theorem mkRecord_noReserved (cs : List (String × CJ)) (h : hasReservedKey cs = false) :
    CJ.mkRecord cs = .record cs := by
  unfold CJ.mkRecord
  split
  · rename_i k r
    have hk : (k == "__extn") = false ∧ (k == "__entity") = false := by
      simp [hasReservedKey, reservedKeys] at h
      simp [h]
    simp [hk.1, hk.2]
  · rename_i k s
    have hk : (k == "__expr") = false := by
      simp [hasReservedKey, reservedKeys] at h
      simp [h]
    simp [hk]
  · rfl

theorem rt_prim (p : Prim) (hwf : WF (.prim p)) : RT (.prim p) (CJ.ofPrim p) := by
  cases p with
  | bool b =>
    refine ⟨rfl, rfl, rfl, _, rfl, _, rfl, ?_⟩
    exact Value.beq_rfl _
  | int i =>
    refine ⟨?_, rfl, rfl, _, rfl, _, rfl, ?_⟩
    · simpa [CJ.ofPrim, CJ.toJson, rawOk, WF] using hwf
    · exact Value.beq_rfl _
  | string s =>
    refine ⟨rfl, rfl, rfl, _, rfl, _, rfl, ?_⟩
    exact Value.beq_rfl _
  | entityUID u =>
    have hv : validName u.ty = true := by simpa [WF] using hwf
    have h1 : rawOk (CJ.ofPrim (.entityUID u)).toJson = true := by
      simp [CJ.ofPrim, CJ.toJson, rawOk, rawOkKVs, hasDup]
    have h2 : CJ.ofRaw (CJ.ofPrim (.entityUID u)).toJson = CJ.ofPrim (.entityUID u) := by
      simp [CJ.ofPrim, CJ.toJson, CJ.ofRaw, CJ.ofRawKVs, sortKVs, insertKV, CJ.mkRecord, lookupKV]
    have h3 : (CJ.ofPrim (.entityUID u)).intoExpr = .ok (.lit (.entityUID u)) := by
      simp [CJ.ofPrim, CJ.intoExpr, hv]
    exact ⟨h1, h2, rfl, .lit (.entityUID u), h3, _, rfl, Value.beq_rfl _⟩

/-! ### the main induction -/

theorem keys_toJsonKVs (cs : List (String × CJ)) : (CJ.toJsonKVs cs).map Prod.fst = cs.map Prod.fst := by
  induction cs with
  | nil => rfl
  | cons p cs ih => obtain ⟨k, c⟩ := p; simp [CJ.toJsonKVs, ih]

theorem evalRecord_sorted (vs' : List (String × Value)) (hs : Sorted (vs'.map Prod.fst)) :
    vs'.foldl (fun acc kv => insertKV kv.1 kv.2 acc) [] = vs' := by
  have := foldl_insertKV_sorted vs' [] (by simpa using hs)
  simpa using this

mutual
theorem rt_value (ρ : Ext → String × List Expr) : ∀ (v : Value) (c : CJ),
    WF v → AllExt (LeafOK ρ) v → fromValueWith ρ v = .ok c → RT v c
  | .prim p, c, hwf, _, h => by
    simp only [fromValueWith, Except.ok.injEq] at h
    subst h
    exact rt_prim p hwf
  | .ext x, c, _, hx, h => by
    simp only [AllExt] at hx
    obtain ⟨c', hc', hrt⟩ := hx
    rw [hc'] at h
    cases h
    exact hrt
  | .set vs, c, hwf, hx, h => by
    simp only [fromValueWith, bind_ok] at h
    obtain ⟨cs, hcs, hc⟩ := h
    cases hc
    simp only [WF] at hwf
    simp only [AllExt] at hx
    obtain ⟨h1, h2, h3, es, h4, vs', h5, h6⟩ := rt_list ρ vs cs hwf hx hcs
    refine ⟨?_, ?_, ?_, .set es, ?_, .set (Value.mkSet vs'), ?_, set_beq vs vs' h6⟩
    · simpa [CJ.toJson, rawOk] using h1
    · simp [CJ.toJson, CJ.ofRaw, h2]
    · simpa [CJ.callsUnknown] using h3
    · simp [CJ.intoExpr, h4, bind, Except.bind]
    · simp [ev, evaluate, h5]
  | .record kvs, c, hwf, hx, h => by
    simp only [fromValueWith] at h
    split at h
    · cases h
    · rename_i hres
      simp only [bind_ok] at h
      obtain ⟨cs, hcs, hc⟩ := h
      cases hc
      simp only [WF] at hwf
      simp only [AllExt] at hx
      obtain ⟨h1, h2, h3, hkeys, es, h4, vs', h5, h6⟩ := rt_kvs ρ kvs cs hwf.1 hx hcs
      have hsorted : Sorted (cs.map Prod.fst) := by rw [hkeys]; exact hwf.2
      have hres' : hasReservedKey cs = false := by
        rw [hasReservedKey_keys cs kvs hkeys]; simpa using hres
      refine ⟨?_, ?_, ?_, .record es, ?_, .record vs', ?_, ?_⟩
      · simp only [CJ.toJson, rawOk, h1, Bool.true_and, Bool.not_eq_eq_eq_not, Bool.not_true]
        rw [keys_toJsonKVs]
        exact hasDup_sorted _ hsorted
      · simp only [CJ.toJson, CJ.ofRaw, h2]
        rw [sortKVs_sorted cs hsorted, mkRecord_noReserved cs hres']
      · simpa [CJ.callsUnknown] using h3
      · simp [CJ.intoExpr, h4, bind, Except.bind]
      · have hs' : Sorted (vs'.map Prod.fst) := by rw [BeqKVs.keys h6]; exact hwf.2
        simp [ev, evaluate, h5, evalRecord_sorted vs' hs']
      · rw [Value.beq]; exact beqKVs_of kvs vs' h6
theorem rt_list (ρ : Ext → String × List Expr) : ∀ (vs : List Value) (cs : List CJ),
    WFList vs → AllExtList (LeafOK ρ) vs → fromValueListWith ρ vs = .ok cs → RTList vs cs
  | [], cs, _, _, h => by
    simp only [fromValueListWith, Except.ok.injEq] at h
    subst h
    exact ⟨rfl, rfl, rfl, [], rfl, [], rfl, .nil⟩
  | v :: vs, cs, hwf, hx, h => by
    simp only [fromValueListWith, bind_ok] at h
    obtain ⟨c, hc, cs', hcs', hh⟩ := h
    cases hh
    simp only [WFList] at hwf
    simp only [AllExtList] at hx
    obtain ⟨a1, a2, a3, e, a4, v', a5, a6⟩ := rt_value ρ v c hwf.1 hx.1 hc
    obtain ⟨b1, b2, b3, es, b4, vs', b5, b6⟩ := rt_list ρ vs cs' hwf.2 hx.2 hcs'
    refine ⟨?_, ?_, ?_, e :: es, ?_, v' :: vs', ?_, .cons a6 b6⟩
    · simp [CJ.toJsonList, rawOkList, a1, b1]
    · simp [CJ.toJsonList, CJ.ofRawList, a2, b2]
    · simp [CJ.callsUnknownList, a3, b3]
    · simp [CJ.intoExprList, a4, b4, bind, Except.bind]
    · simp only [ev] at a5
      simp [evaluateList, a5, b5]
theorem rt_kvs (ρ : Ext → String × List Expr) : ∀ (kvs : List (String × Value)) (cs : List (String × CJ)),
    WFKVs kvs → AllExtKVs (LeafOK ρ) kvs → fromValueKVsWith ρ kvs = .ok cs → RTKVs kvs cs
  | [], cs, _, _, h => by
    simp only [fromValueKVsWith, Except.ok.injEq] at h
    subst h
    exact ⟨rfl, rfl, rfl, rfl, [], rfl, [], rfl, .nil⟩
  | (k, v) :: kvs, cs, hwf, hx, h => by
    simp only [fromValueKVsWith, bind_ok] at h
    obtain ⟨c, hc, cs', hcs', hh⟩ := h
    cases hh
    simp only [WFKVs] at hwf
    simp only [AllExtKVs] at hx
    obtain ⟨a1, a2, a3, e, a4, v', a5, a6⟩ := rt_value ρ v c hwf.1 hx.1 hc
    obtain ⟨b1, b2, b3, bk, es, b4, vs', b5, b6⟩ := rt_kvs ρ kvs cs' hwf.2 hx.2 hcs'
    refine ⟨?_, ?_, ?_, ?_, (k, e) :: es, ?_, (k, v') :: vs', ?_, .cons ⟨rfl, a6⟩ b6⟩
    · simp [CJ.toJsonKVs, rawOkKVs, a1, b1]
    · simp [CJ.toJsonKVs, CJ.ofRawKVs, a2, b2]
    · simp [CJ.callsUnknownKVs, a3, b3]
    · simp [bk]
    · simp [CJ.intoExprKVs, a4, b4, bind, Except.bind]
    · simp only [ev] at a5
      simp [evaluateKVs, a5, b5]
end

end CJson
end Cedar
