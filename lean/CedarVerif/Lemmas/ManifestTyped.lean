import CedarVerif.Lemmas.ManifestSlicer
/-
C17 helper lemmas, part 9: `to_typed`.  The manifest entry the slicer is run with is the type-annotated, pruned copy of the
trie the analysis computes.  For a store and request that conform to the schema as far as the trie looks (`ConfRoots`:
records and entities carry no attribute their type does not declare; record values sit at record types), the annotated trie
  * has `is_entity_type` annotations that agree with the data (`FlagsRoots`),
  * keeps unique children keys,
  * and a store covering it covers the un-annotated trie (the pruned children request nothing that exists).
-/
namespace Cedar.Manifest
open Cedar

theorem ancRoot_eq' (m : Entities) (req : Request) (root : EntityRoot) (t : AccessTrie) :
    ancRoot m req root t = ancValue m t (rootVal req root) := by
  obtain ⟨c, a, i, e⟩ := t
  cases root with
  | literal u => rfl
  | var x => cases x <;> rfl

/-- the type `to_typed` gives a root -/
def rootType (s : Schema) (rt : ReqType) : EntityRoot → M CedarType
  | .literal u => (match euidLiteralType s u with | some ty => .ok ty | none => .error .mismatched)
  | .var .action => (match euidLiteralType s rt.action with | some ty => .ok ty | none => .error .mismatched)
  | .var .principal => .ok (.entity [rt.principal])
  | .var .resource => .ok (.entity [rt.resource])
  | .var .context => (match s.action? rt.action with | some a => .ok a.context | none => .error .mismatched)

theorem toTypedRoots_cons (s : Schema) (rt : ReqType) (root : EntityRoot) (t : AccessTrie) (rest : RootAccessTrie) :
    toTypedRoots s rt ((root, t) :: rest) =
      match rootType s rt root with
      | .error e => .error e
      | .ok ty =>
        match AccessTrie.toTyped s rt t ty with
        | .error e => .error e
        | .ok t' => match toTypedRoots s rt rest with
          | .error e => .error e
          | .ok rest' => .ok ((root, t') :: rest') := by
  cases root with
  | literal u =>
    simp only [toTypedRoots, rootType]
    cases euidLiteralType s u <;> rfl
  | var v =>
    cases v
    · simp only [toTypedRoots, rootType]; rfl
    · simp only [toTypedRoots, rootType]
      cases euidLiteralType s rt.action <;> rfl
    · simp only [toTypedRoots, rootType]; rfl
    · simp only [toTypedRoots, rootType]
      cases s.action? rt.action <;> rfl

-- conformance of the data to the schema, as far as a trie looks: under a node of a type with attributes, the data has
-- only declared attributes (closed records / entity types), hereditarily; a record never sits at an entity type
mutual
def ConfV (s : Schema) (rt : ReqType) (es : Entities) (req : Request) : AccessTrie → CedarType → Value → Prop
  | .mk c a _ _, ty, v =>
    ConfRoots s rt es req a ∧
    (match v with
     | .record _ => isEntityTy ty = false
     | _ => True) ∧
    ∀ attrs, attrsOfType s ty = .ok (some attrs) →
      match v with
      | .prim (.entityUID u) => ∀ d, es.find? u = some d → ConfF s rt es req c attrs d.attrs
      | .record kvs => ConfF s rt es req c attrs kvs
      | _ => True
def ConfF (s : Schema) (rt : ReqType) (es : Entities) (req : Request) : Fields → Attrs → List (String × Value) → Prop
  | [], _, _ => True
  | (f, t) :: rest, attrs, kvs =>
    (∀ w, lookupKV kvs f = some w → ∃ q τ, Attrs.find? attrs f = some (q, τ) ∧ ConfV s rt es req t τ w) ∧
    ConfF s rt es req rest attrs kvs
def ConfRoots (s : Schema) (rt : ReqType) (es : Entities) (req : Request) : RootAccessTrie → Prop
  | [] => True
  | (root, t) :: rest =>
    (∀ ty, rootType s rt root = .ok ty → ConfV s rt es req t ty (rootVal req root)) ∧ ConfRoots s rt es req rest
end

/-! ## unique keys are preserved -/

theorem lookupField_toTypedFields (s : Schema) (rt : ReqType) (attrs : Attrs) (k : String) : ∀ (c c' : Fields),
    toTypedFields s rt attrs c = .ok c' → lookupField c k = none → lookupField c' k = none
  | [], c', h, _ => by
    simp only [toTypedFields, Except.ok.injEq] at h
    subst h; rfl
  | (f, t) :: rest, c', h, hl => by
    simp only [lookupField] at hl
    by_cases e : (f == k) = true
    · simp [e] at hl
    · simp only [e, Bool.false_eq_true, if_false] at hl
      rw [toTypedFields] at h
      cases hf : Attrs.find? attrs f with
      | none =>
        simp only [hf] at h
        exact lookupField_toTypedFields s rt attrs k rest c' h hl
      | some qt =>
        obtain ⟨q, fty⟩ := qt
        simp only [hf] at h
        cases ht : AccessTrie.toTyped s rt t fty with
        | error x => simp [ht] at h
        | ok t' =>
          simp only [ht] at h
          cases hr : toTypedFields s rt attrs rest with
          | error x => simp [hr] at h
          | ok rest' =>
            simp only [hr, Except.ok.injEq] at h
            subst h
            simp only [lookupField, e, Bool.false_eq_true, if_false]
            exact lookupField_toTypedFields s rt attrs k rest rest' hr hl

mutual
theorem toTyped_wf (s : Schema) (rt : ReqType) : ∀ (t : AccessTrie) (ty : CedarType) (t' : AccessTrie),
    AccessTrie.toTyped s rt t ty = .ok t' → AccessTrie.WF t → AccessTrie.WF t'
  | .mk c a i e, ty, t', h, hwf => by
    rw [AccessTrie.toTyped] at h
    simp only [AccessTrie.WF] at hwf
    cases ha : attrsOfType s ty with
    | error x => simp [ha] at h
    | ok oa =>
      cases oa with
      | none =>
        simp only [ha] at h
        split at h
        · cases h
        · cases hr : toTypedRoots s rt a with
          | error x => simp [hr] at h
          | ok a' =>
            simp only [hr, Except.ok.injEq] at h
            subst h
            simp [AccessTrie.WF, fieldsWF]
      | some attrs =>
        simp only [ha] at h
        cases hc : toTypedFields s rt attrs c with
        | error x => simp [hc] at h
        | ok c' =>
          simp only [hc] at h
          cases hr : toTypedRoots s rt a with
          | error x => simp [hr] at h
          | ok a' =>
            simp only [hr, Except.ok.injEq] at h
            subst h
            simp only [AccessTrie.WF]
            exact toTypedFields_wf s rt attrs c c' hc hwf
theorem toTypedFields_wf (s : Schema) (rt : ReqType) (attrs : Attrs) : ∀ (c c' : Fields),
    toTypedFields s rt attrs c = .ok c' → fieldsWF c → fieldsWF c'
  | [], c', h, _ => by
    simp only [toTypedFields, Except.ok.injEq] at h
    subst h; simp [fieldsWF]
  | (f, t) :: rest, c', h, hwf => by
    simp only [fieldsWF] at hwf
    rw [toTypedFields] at h
    cases hf : Attrs.find? attrs f with
    | none =>
      simp only [hf] at h
      exact toTypedFields_wf s rt attrs rest c' h hwf.2.2
    | some qt =>
      obtain ⟨q, fty⟩ := qt
      simp only [hf] at h
      cases ht : AccessTrie.toTyped s rt t fty with
      | error x => simp [ht] at h
      | ok t' =>
        simp only [ht] at h
        cases hr : toTypedFields s rt attrs rest with
        | error x => simp [hr] at h
        | ok rest' =>
          simp only [hr, Except.ok.injEq] at h
          subst h
          simp only [fieldsWF]
          exact ⟨lookupField_toTypedFields s rt attrs f rest rest' hr hwf.1, toTyped_wf s rt t fty t' ht hwf.2.1,
            toTypedFields_wf s rt attrs rest rest' hr hwf.2.2⟩
end

theorem toTypedRoots_wf (s : Schema) (rt : ReqType) : ∀ (g g' : RootAccessTrie),
    toTypedRoots s rt g = .ok g' → RootsWF g → RootsWF g'
  | [], g', h, _ => by
    simp only [toTypedRoots, Except.ok.injEq] at h
    subst h; simp [RootsWF]
  | (root, t) :: rest, g', h, hwf => by
    simp only [RootsWF] at hwf
    rw [toTypedRoots_cons] at h
    cases hty : rootType s rt root with
    | error x => simp [hty] at h
    | ok ty =>
      simp only [hty] at h
      cases ht : AccessTrie.toTyped s rt t ty with
      | error x => simp [ht] at h
      | ok t' =>
        simp only [ht] at h
        cases hr : toTypedRoots s rt rest with
        | error x => simp [hr] at h
        | ok rest' =>
          simp only [hr, Except.ok.injEq] at h
          subst h
          simp only [RootsWF]
          exact ⟨toTyped_wf s rt t ty t' ht hwf.1, toTypedRoots_wf s rt rest rest' hr hwf.2⟩

/-! ## the annotations agree with conformant data -/

section
variable (s : Schema) (rt : ReqType) (es : Entities) (req : Request)

mutual
theorem flagsV_typed : ∀ (t : AccessTrie) (ty : CedarType) (v : Value) (t' : AccessTrie),
    AccessTrie.toTyped s rt t ty = .ok t' → ConfV s rt es req t ty v → FlagsV es t' v
  | .mk c a i e, ty, v, t', h, hc => by
    rw [AccessTrie.toTyped] at h
    simp only [ConfV] at hc
    obtain ⟨_, hrec, hc⟩ := hc
    cases ha : attrsOfType s ty with
    | error x => simp [ha] at h
    | ok oa =>
      cases oa with
      | none =>
        simp only [ha] at h
        split at h
        · cases h
        · cases hr : toTypedRoots s rt a with
          | error x => simp [hr] at h
          | ok a' =>
            simp only [hr, Except.ok.injEq] at h
            subst h
            cases v with
            | prim p => cases p <;> simp [FlagsV, FlagsF]
            | record kvs => simp only [FlagsV, FlagsF, and_true]; exact hrec
            | set vs => simp [FlagsV]
            | ext x => simp [FlagsV]
      | some attrs =>
        simp only [ha] at h
        have hc := hc attrs ha
        cases hcf : toTypedFields s rt attrs c with
        | error x => simp [hcf] at h
        | ok c' =>
          simp only [hcf] at h
          cases hr : toTypedRoots s rt a with
          | error x => simp [hr] at h
          | ok a' =>
            simp only [hr, Except.ok.injEq] at h
            subst h
            cases v with
            | prim p =>
              cases p with
              | entityUID u =>
                simp only [FlagsV]
                intro d hd
                exact flagsF_typed c attrs d.attrs c' hcf (hc d hd)
              | bool b => simp [FlagsV]
              | int n => simp [FlagsV]
              | string s => simp [FlagsV]
            | record kvs =>
              simp only [FlagsV]
              exact ⟨hrec, flagsF_typed c attrs kvs c' hcf hc⟩
            | set vs => simp [FlagsV]
            | ext x => simp [FlagsV]
theorem flagsF_typed : ∀ (c : Fields) (attrs : Attrs) (kvs : List (String × Value)) (c' : Fields),
    toTypedFields s rt attrs c = .ok c' → ConfF s rt es req c attrs kvs → FlagsF es c' kvs
  | [], attrs, kvs, c', h, _ => by
    simp only [toTypedFields, Except.ok.injEq] at h
    subst h; simp [FlagsF]
  | (f, t) :: rest, attrs, kvs, c', h, hc => by
    simp only [ConfF] at hc
    rw [toTypedFields] at h
    cases hf : Attrs.find? attrs f with
    | none =>
      simp only [hf] at h
      exact flagsF_typed rest attrs kvs c' h hc.2
    | some qt =>
      obtain ⟨q, fty⟩ := qt
      simp only [hf] at h
      cases ht : AccessTrie.toTyped s rt t fty with
      | error x => simp [ht] at h
      | ok t' =>
        simp only [ht] at h
        cases hr : toTypedFields s rt attrs rest with
        | error x => simp [hr] at h
        | ok rest' =>
          simp only [hr, Except.ok.injEq] at h
          subst h
          simp only [FlagsF]
          refine ⟨?_, flagsF_typed rest attrs kvs rest' hr hc.2⟩
          intro w hw
          obtain ⟨q', τ, h1, h2⟩ := hc.1 w hw
          rw [hf] at h1
          cases h1
          exact flagsV_typed t fty w t' ht h2
end

theorem rootVal_of_rootUid {req : Request} {root : EntityRoot} {u : EntityUID} (h : rootUid req root = some u) :
    rootVal req root = .prim (.entityUID u) := by
  cases root with
  | literal u0 => simp only [rootUid, Option.some.injEq] at h; subst h; rfl
  | var v => cases v <;> simp only [rootUid, Option.some.injEq] at h <;> first | (subst h; rfl) | cases h

theorem rootVal_of_rootUid_none {req : Request} {root : EntityRoot} (h : rootUid req root = none) :
    rootVal req root = .record req.context := by
  cases root with
  | literal u0 => simp [rootUid] at h
  | var v => cases v <;> simp only [rootUid] at h <;> first | rfl | cases h

theorem flagsRoots_typed : ∀ (g g' : RootAccessTrie),
    toTypedRoots s rt g = .ok g' → ConfRoots s rt es req g → FlagsRoots es req g'
  | [], g', h, _ => by
    simp only [toTypedRoots, Except.ok.injEq] at h
    subst h; simp [FlagsRoots]
  | (root, t) :: rest, g', h, hc => by
    simp only [ConfRoots] at hc
    rw [toTypedRoots_cons] at h
    cases hty : rootType s rt root with
    | error x => simp [hty] at h
    | ok ty =>
      simp only [hty] at h
      cases ht : AccessTrie.toTyped s rt t ty with
      | error x => simp [ht] at h
      | ok t' =>
        simp only [ht] at h
        cases hr : toTypedRoots s rt rest with
        | error x => simp [hr] at h
        | ok rest' =>
          simp only [hr, Except.ok.injEq] at h
          subst h
          simp only [FlagsRoots]
          refine ⟨?_, flagsRoots_typed rest rest' hr hc.2⟩
          have hfv := flagsV_typed s rt es req t ty _ t' ht (hc.1 ty hty)
          cases hu : rootUid req root with
          | some u =>
            rw [rootVal_of_rootUid hu] at hfv
            exact hfv
          | none =>
            rw [rootVal_of_rootUid_none hu] at hfv
            obtain ⟨c', a', i', e'⟩ := t'
            simp only [FlagsV] at hfv
            exact hfv.2

/-! ## requested ancestors: the pruned trie requests the same ids over a sub-store of conformant data -/

variable (es' : Entities) (hsub : SubStore es es') (hctx : CtxWF req)
include hsub hctx

mutual
theorem ancValue_typed (x : EntityUID) : ∀ (t : AccessTrie) (ty : CedarType) (v v' : Value) (t' : AccessTrie),
    AccessTrie.toTyped s rt t ty = .ok t' → ConfV s rt es req t ty v → Trim v' v →
    x ∈ ancValue es' t v' → x ∈ ancValue es' t' v'
  | .mk c a i e, ty, v, v', t', h, hc, htr, hx => by
    rw [AccessTrie.toTyped] at h
    simp only [ConfV] at hc
    obtain ⟨_, _, hc⟩ := hc
    cases ha : attrsOfType s ty with
    | error x => simp [ha] at h
    | ok oa =>
      cases oa with
      | none =>
        simp only [ha] at h
        split at h
        · cases h
        · rename_i hce
          have hce : c = [] := by
            cases c with
            | nil => rfl
            | cons _ _ => simp at hce
          subst hce
          cases hr : toTypedRoots s rt a with
          | error x => simp [hr] at h
          | ok a' =>
            simp only [hr, Except.ok.injEq] at h
            subst h
            cases v' with
            | prim p => cases p <;> simpa [ancValue, ancFields] using hx
            | record kvs => simpa [ancValue, ancFields] using hx
            | set vs => simpa [ancValue] using hx
            | ext y => simpa [ancValue] using hx
      | some attrs =>
        simp only [ha] at h
        have hc := hc attrs ha
        cases hcf : toTypedFields s rt attrs c with
        | error x => simp [hcf] at h
        | ok c' =>
          simp only [hcf] at h
          cases hr : toTypedRoots s rt a with
          | error x => simp [hr] at h
          | ok a' =>
            simp only [hr, Except.ok.injEq] at h
            subst h
            cases v' with
            | prim p =>
              have hv : v = .prim p := by simpa [Trim] using htr
              subst hv
              cases p with
              | entityUID u =>
                simp only [ancValue, List.mem_append] at hx ⊢
                rcases hx with hx | hx
                · exact Or.inl hx
                · right
                  cases hd' : es'.find? u with
                  | none => simp [hd'] at hx
                  | some d' =>
                    simp only [hd'] at hx ⊢
                    obtain ⟨d, hd, htk, _⟩ := hsub u d' hd'
                    exact ancFields_typed x c attrs d.attrs d'.attrs c' hcf (hc d hd) htk hx
              | bool b => simpa [ancValue] using hx
              | int n => simpa [ancValue] using hx
              | string s => simpa [ancValue] using hx
            | record kvs' =>
              simp only [Trim] at htr
              obtain ⟨kvs, e, htk⟩ := htr
              subst e
              simp only [ancValue] at hx ⊢
              exact ancFields_typed x c attrs kvs kvs' c' hcf hc htk hx
            | set vs => simpa [ancValue] using hx
            | ext y => simpa [ancValue] using hx
theorem ancFields_typed (x : EntityUID) : ∀ (c : Fields) (attrs : Attrs) (kvs kvs' : List (String × Value)) (c' : Fields),
    toTypedFields s rt attrs c = .ok c' → ConfF s rt es req c attrs kvs → TrimKVs kvs' kvs →
    x ∈ ancFields es' c kvs' → x ∈ ancFields es' c' kvs'
  | [], attrs, kvs, kvs', c', h, _, _, hx => by simp [ancFields] at hx
  | (f, t) :: rest, attrs, kvs, kvs', c', h, hc, htk, hx => by
    simp only [ConfF] at hc
    rw [toTypedFields] at h
    simp only [ancFields, List.mem_append] at hx
    cases hf : Attrs.find? attrs f with
    | none =>
      simp only [hf] at h
      rcases hx with hx | hx
      · cases hl : lookupKV kvs' f with
        | none => simp [hl] at hx
        | some w' =>
          obtain ⟨w, hw, _⟩ := trimKVs_lookup kvs' kvs f w' htk hl
          obtain ⟨q, τ, h1, _⟩ := hc.1 w hw
          rw [hf] at h1
          cases h1
      · exact ancFields_typed x rest attrs kvs kvs' c' h hc.2 htk hx
    | some qt =>
      obtain ⟨q, fty⟩ := qt
      simp only [hf] at h
      cases ht : AccessTrie.toTyped s rt t fty with
      | error x => simp [ht] at h
      | ok t' =>
        simp only [ht] at h
        cases hr : toTypedFields s rt attrs rest with
        | error x => simp [hr] at h
        | ok rest' =>
          simp only [hr, Except.ok.injEq] at h
          subst h
          simp only [ancFields, List.mem_append]
          rcases hx with hx | hx
          · left
            cases hl : lookupKV kvs' f with
            | none => simp [hl] at hx
            | some w' =>
              simp only [hl] at hx ⊢
              obtain ⟨w, hw, htw⟩ := trimKVs_lookup kvs' kvs f w' htk hl
              obtain ⟨q', τ, h1, h2⟩ := hc.1 w hw
              rw [hf] at h1
              cases h1
              exact ancValue_typed x t fty w w' t' ht h2 htw hx
          · right
            exact ancFields_typed x rest attrs kvs kvs' rest' hr hc.2 htk hx
theorem ancRequest_typed (x : EntityUID) : ∀ (g g' : RootAccessTrie),
    toTypedRoots s rt g = .ok g' → ConfRoots s rt es req g →
    x ∈ ancRequest es' req g → x ∈ ancRequest es' req g'
  | [], g', h, _, hx => by simp [ancRequest] at hx
  | (root, t) :: rest, g', h, hc, hx => by
    simp only [ConfRoots] at hc
    rw [toTypedRoots_cons] at h
    cases hty : rootType s rt root with
    | error x => simp [hty] at h
    | ok ty =>
      simp only [hty] at h
      cases ht : AccessTrie.toTyped s rt t ty with
      | error x => simp [ht] at h
      | ok t' =>
        simp only [ht] at h
        cases hr : toTypedRoots s rt rest with
        | error x => simp [hr] at h
        | ok rest' =>
          simp only [hr, Except.ok.injEq] at h
          subst h
          rw [ancRequest_cons, List.mem_append] at hx ⊢
          rcases hx with hx | hx
          · left
            rw [ancRoot_eq'] at hx ⊢
            exact ancValue_typed x t ty _ _ t' ht (hc.1 ty hty) (trim_rootVal hctx root) hx
          · right
            exact ancRequest_typed x rest rest' hr hc.2 hx
end

/-! ## a store covering the annotated trie covers the trie -/

mutual
theorem coverV_untyped : ∀ (t : AccessTrie) (ty : CedarType) (v v' : Value) (t' : AccessTrie),
    AccessTrie.toTyped s rt t ty = .ok t' → ConfV s rt es req t ty v →
    CoverV es es' req t' v v' → CoverV es es' req t v v'
  | .mk c a i e, ty, v, v', t', h, hc, hcov => by
    rw [AccessTrie.toTyped] at h
    simp only [ConfV] at hc
    obtain ⟨hca, _, hc⟩ := hc
    cases ha : attrsOfType s ty with
    | error x => simp [ha] at h
    | ok oa =>
      cases oa with
      | none =>
        simp only [ha] at h
        split at h
        · cases h
        · rename_i hce
          have hce : c = [] := by
            cases c with
            | nil => rfl
            | cons _ _ => simp at hce
          subst hce
          cases hr : toTypedRoots s rt a with
          | error x => simp [hr] at h
          | ok a' =>
            simp only [hr, Except.ok.injEq] at h
            subst h
            cases v with
            | prim p =>
              cases p with
              | entityUID u =>
                simp only [CoverV] at hcov ⊢
                refine ⟨hcov.1, ?_⟩
                intro d hd
                obtain ⟨d', h1, h2, h3⟩ := hcov.2 d hd
                exact ⟨d', h1, h2, fun y hy => h3 y (ancRequest_typed s rt es req es' hsub hctx y a a' hr hca hy)⟩
              | bool b => simp [CoverV]
              | int n => simp [CoverV]
              | string s => simp [CoverV]
            | record kvs => simpa [CoverV] using hcov
            | set vs => simp [CoverV]
            | ext y => simp [CoverV]
      | some attrs =>
        simp only [ha] at h
        have hc := hc attrs ha
        cases hcf : toTypedFields s rt attrs c with
        | error x => simp [hcf] at h
        | ok c' =>
          simp only [hcf] at h
          cases hr : toTypedRoots s rt a with
          | error x => simp [hr] at h
          | ok a' =>
            simp only [hr, Except.ok.injEq] at h
            subst h
            cases v with
            | prim p =>
              cases p with
              | entityUID u =>
                simp only [CoverV] at hcov ⊢
                refine ⟨hcov.1, ?_⟩
                intro d hd
                obtain ⟨d', h1, h2, h3⟩ := hcov.2 d hd
                refine ⟨d', h1, coverF_untyped c attrs d.attrs d'.attrs c' hcf (hc d hd) h2, ?_⟩
                exact fun y hy => h3 y (ancRequest_typed s rt es req es' hsub hctx y a a' hr hca hy)
              | bool b => simp [CoverV]
              | int n => simp [CoverV]
              | string s => simp [CoverV]
            | record kvs =>
              simp only [CoverV] at hcov ⊢
              obtain ⟨kvs', e, h2⟩ := hcov
              exact ⟨kvs', e, coverF_untyped c attrs kvs kvs' c' hcf hc h2⟩
            | set vs => simp [CoverV]
            | ext y => simp [CoverV]
theorem coverF_untyped : ∀ (c : Fields) (attrs : Attrs) (kvs kvs' : List (String × Value)) (c' : Fields),
    toTypedFields s rt attrs c = .ok c' → ConfF s rt es req c attrs kvs →
    CoverF es es' req c' kvs kvs' → CoverF es es' req c kvs kvs'
  | [], attrs, kvs, kvs', c', h, _, _ => by simp [CoverF]
  | (f, t) :: rest, attrs, kvs, kvs', c', h, hc, hcov => by
    simp only [ConfF] at hc
    rw [toTypedFields] at h
    simp only [CoverF]
    cases hf : Attrs.find? attrs f with
    | none =>
      simp only [hf] at h
      refine ⟨?_, coverF_untyped rest attrs kvs kvs' c' h hc.2 hcov⟩
      intro w hw
      obtain ⟨q, τ, h1, _⟩ := hc.1 w hw
      rw [hf] at h1
      cases h1
    | some qt =>
      obtain ⟨q, fty⟩ := qt
      simp only [hf] at h
      cases ht : AccessTrie.toTyped s rt t fty with
      | error x => simp [ht] at h
      | ok t' =>
        simp only [ht] at h
        cases hr : toTypedFields s rt attrs rest with
        | error x => simp [hr] at h
        | ok rest' =>
          simp only [hr, Except.ok.injEq] at h
          subst h
          simp only [CoverF] at hcov
          refine ⟨?_, coverF_untyped rest attrs kvs kvs' rest' hr hc.2 hcov.2⟩
          intro w hw
          obtain ⟨w', hw1, hw2⟩ := hcov.1 w hw
          obtain ⟨q', τ, h1, h2⟩ := hc.1 w hw
          rw [hf] at h1
          cases h1
          exact ⟨w', hw1, coverV_untyped t fty w w' t' ht h2 hw2⟩
end

theorem coverRoots_untyped : ∀ (g g' : RootAccessTrie),
    toTypedRoots s rt g = .ok g' → ConfRoots s rt es req g →
    CoverRoots es es' req g' → CoverRoots es es' req g
  | [], g', _, _, _ => by simp [CoverRoots]
  | (root, t) :: rest, g', h, hc, hcov => by
    simp only [ConfRoots] at hc
    rw [toTypedRoots_cons] at h
    cases hty : rootType s rt root with
    | error x => simp [hty] at h
    | ok ty =>
      simp only [hty] at h
      cases ht : AccessTrie.toTyped s rt t ty with
      | error x => simp [ht] at h
      | ok t' =>
        simp only [ht] at h
        cases hr : toTypedRoots s rt rest with
        | error x => simp [hr] at h
        | ok rest' =>
          simp only [hr, Except.ok.injEq] at h
          subst h
          simp only [CoverRoots] at hcov ⊢
          exact ⟨coverV_untyped s rt es req es' hsub hctx t ty _ _ t' ht (hc.1 ty hty) hcov.1,
            coverRoots_untyped rest rest' hr hc.2 hcov.2⟩

end

end Cedar.Manifest
