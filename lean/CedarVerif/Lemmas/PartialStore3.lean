import CedarVerif.Lemmas.PartialStore2
/-
C13, partial stores and residual contexts: the main induction of the substitution form, generalised from
`.ofConcrete es` to a partial store `pes` completed by `es` (`StoreCompletes σ pes es`) and from value-or-missing
contexts to residual contexts (`Concretizes2`).  Same structure as `PartialSubst4.pinterp_sound2` (induction on the
recursion budget); the store-dependent arms (`in`, `getTag`, `hasTag`, `.`/`has` on an entity) and `context` are new.
-/
namespace Cedar
namespace PS

section
variable (σ : Mapper) (req : Request) (es : Entities) (env : SlotEnv)

variable (hctx : (Value.record req.context).Canon)
  (m0 : Mapper) (preq : PRequest) (pes : PEntities) (U : EntityUID → Prop) (hS : StoreCompletesOn U σ pes es) (hm : MapLE m0 σ)
  (hC : Concretizes2 σ es preq req)
  (hSI : StoreIn U pes) (hRI : ReqIn U preq) (hMI : MapIn U m0) (hVI : EnvIn U env)

include hctx hC in
theorem sound3_var (v : Var) (n : Nat) :
    Sound2 σ req es env (Y σ req es env (.var v)) (pinterp m0 preq pes env n (.var v)) := by
  rw [Y_var]
  cases n with
  | zero => simp [pinterp, Sound2]
  | succ n =>
    have entry : ∀ (en : UidEntry) (key : String) (uid : EntityUID), en.Conc σ key uid →
        Sound2 σ req es env (.ok (.prim (.entityUID uid))) (en.eval key) := by
      intro en key uid h
      cases en with
      | known u => simp only [UidEntry.Conc] at h; subst h; exact s2_val rfl trivial
      | unknown ty =>
        cases ty with
        | none =>
          simp only [UidEntry.Conc] at h
          refine s2_res ?_ ?_ (.unknown _ _ ⟨_, h, trivial, by intro t ht; cases ht⟩)
          · rw [Y_unknown σ req es env h trivial]; simp
          · intro name t hh; cases hh
        | some t =>
          simp only [UidEntry.Conc] at h
          refine s2_res ?_ ?_ (.unknown _ _ ⟨_, h.1, trivial, by intro t' ht; cases ht; simp [Value.typeOf, h.2]⟩)
          · rw [Y_unknown σ req es env h.1 trivial]; simp
          · intro name t' hh; cases hh; exact ⟨uid, rfl, h.2⟩
    cases v with
    | principal => simpa [pinterp, evaluate] using entry _ _ _ hC.principal
    | action => simpa [pinterp, evaluate] using entry _ _ _ hC.action
    | resource => simpa [pinterp, evaluate] using entry _ _ _ hC.resource
    | context =>
      have hc := hC.context
      unfold CtxCompletes at hc
      simp only [pinterp, evaluate]
      cases hpc : preq.context with
      | none =>
        rw [hpc] at hc; simp only at hc
        refine s2_res ?_ ?_ (.unknown _ _ ⟨_, hc, hctx, by intro t ht; cases ht⟩)
        · rw [Y_unknown σ req es env hc hctx]; simp
        · intro name t hh; cases hh
      | some c =>
        cases c with
        | value kvs => rw [hpc] at hc; simp only at hc; subst hc; exact s2_val rfl hctx
        | residual kvs =>
          rw [hpc] at hc; simp only at hc
          refine s2_res ?_ (typedOK_vacuous (by intro _ _ h; cases h)) hc.1
          rw [hc.2 req env]; simp

include hctx hS hm hC hSI hRI hMI hVI in
/-- **first-pass soundness, substitution form** on `Frag2 σ`, for a partial store completed by `es` ON the uids of `U`
    (closed world: expression, request, mapper, slot environment and store values mention only uids of `U`) and a possibly
    residual context -/
theorem pinterp_sound3_on : ∀ (n : Nat) (e : Expr), Frag2 σ e → EIn U e →
    Sound2 σ req es env (Y σ req es env e) (pinterp m0 preq pes env n e) := by
  intro n
  induction n with
  | zero => intro e _ _; simp [pinterp, Sound2]
  | succ n ih =>
  intro e hf hE
  have hin := pinterp_in hSI hRI hMI hVI n
  cases hf with
  | lit p => simp [pinterp, Sound2, Y, Expr.substUnk, evaluate, Value.Canon]
  | var v => exact sound3_var σ req es env hctx m0 preq pes hC v (n + 1)
  | unknown name ty h =>
    have := sound2_unknownToPV (req := req) (es := es) (env := env) hm h
    simp only [pinterp]
    exact this
  | slot s =>
    cases hl : env.lookup s <;> simp [pinterp, Y, Expr.substUnk, evaluate, hl, Sound2, Value.Canon]
  | @and a b hfa hfb =>
    have sa := ih a hfa (eIn_and.mp hE).1
    have sb := ih b hfb (eIn_and.mp hE).2
    simp only [pinterp]
    cases hxa : pinterp m0 preq pes env n a with
    | fuel => red; trivial
    | panic => red; trivial
    | err c => red; rw [hxa] at sa; obtain ⟨c', hc'⟩ := sa; simp only [Y] at hc'; exact s2_err c' (by simp [Y, Expr.substUnk, evaluate, hc'])
    | val v =>
      red
      rw [hxa] at sa; obtain ⟨hev, _⟩ := sa; simp only [Y] at hev
      cases hb : v.asBool with
      | error c => red; exact s2_err c (by simp [Y, Expr.substUnk, evaluate, hev, hb])
      | ok bv =>
        cases bv with
        | false => red; exact s2_val (by simp [Y, Expr.substUnk, evaluate, hev, hb]) trivial
        | true =>
          red
          cases hxb : pinterp m0 preq pes env n b with
          | fuel => red; trivial
          | panic => red; trivial
          | err c => red; rw [hxb] at sb; obtain ⟨c', hc'⟩ := sb; simp only [Y] at hc'; exact s2_err c' (by simp [Y, Expr.substUnk, evaluate, hev, hb, hc'])
          | val w =>
            red
            rw [hxb] at sb; obtain ⟨hevb, _⟩ := sb; simp only [Y] at hevb
            cases hw : w.asBool with
            | error c => red; exact s2_err c (by simp [Y, Expr.substUnk, evaluate, hev, hb, hevb, hw])
            | ok r => red; exact s2_val (by simp [Y, Expr.substUnk, evaluate, hev, hb, hevb, hw]) trivial
          | res rb =>
            red
            rw [hxb] at sb
            have hv := asBool_ok hb; subst hv
            refine s2_res ?_ (typedOK_vacuous (by intro _ _ h; cases h)) (.and (.lit _) sb.2.2)
            exact agree_and (by rw [Y_lit]; simp [Y, hev]) sb.1
    | res l =>
      red
      rw [hxa] at sa
      rw [bestEffort_eq]
      cases hB : Best (pinterp m0 preq pes env n b) b with
      | none => red; exact s2_stuck (best_none hB)
      | some X =>
        red
        obtain ⟨hX, hfX⟩ := best2 hfb sb hB
        exact s2_res (agree_and sa.1 hX) (typedOK_vacuous (by intro _ _ h; cases h)) (.and sa.2.2 hfX)
  | @or a b hfa hfb =>
    have sa := ih a hfa (eIn_or.mp hE).1
    have sb := ih b hfb (eIn_or.mp hE).2
    simp only [pinterp]
    cases hxa : pinterp m0 preq pes env n a with
    | fuel => red; trivial
    | panic => red; trivial
    | err c => red; rw [hxa] at sa; obtain ⟨c', hc'⟩ := sa; simp only [Y] at hc'; exact s2_err c' (by simp [Y, Expr.substUnk, evaluate, hc'])
    | val v =>
      red
      rw [hxa] at sa; obtain ⟨hev, _⟩ := sa; simp only [Y] at hev
      cases hb : v.asBool with
      | error c => red; exact s2_err c (by simp [Y, Expr.substUnk, evaluate, hev, hb])
      | ok bv =>
        cases bv with
        | true => red; exact s2_val (by simp [Y, Expr.substUnk, evaluate, hev, hb]) trivial
        | false =>
          red
          cases hxb : pinterp m0 preq pes env n b with
          | fuel => red; trivial
          | panic => red; trivial
          | err c => red; rw [hxb] at sb; obtain ⟨c', hc'⟩ := sb; simp only [Y] at hc'; exact s2_err c' (by simp [Y, Expr.substUnk, evaluate, hev, hb, hc'])
          | val w =>
            red
            rw [hxb] at sb; obtain ⟨hevb, _⟩ := sb; simp only [Y] at hevb
            cases hw : w.asBool with
            | error c => red; exact s2_err c (by simp [Y, Expr.substUnk, evaluate, hev, hb, hevb, hw])
            | ok r => red; exact s2_val (by simp [Y, Expr.substUnk, evaluate, hev, hb, hevb, hw]) trivial
          | res rb =>
            red
            rw [hxb] at sb
            have hv := asBool_ok hb; subst hv
            refine s2_res ?_ (typedOK_vacuous (by intro _ _ h; cases h)) (.or (.lit _) sb.2.2)
            exact agree_or (by rw [Y_lit]; simp [Y, hev]) sb.1
    | res l =>
      red
      rw [hxa] at sa
      rw [bestEffort_eq]
      cases hB : Best (pinterp m0 preq pes env n b) b with
      | none => red; exact s2_stuck (best_none hB)
      | some X =>
        red
        obtain ⟨hX, hfX⟩ := best2 hfb sb hB
        exact s2_res (agree_or sa.1 hX) (typedOK_vacuous (by intro _ _ h; cases h)) (.or sa.2.2 hfX)
  | @ite c t e hfc hft hfe =>
    have sc := ih c hfc (eIn_ite.mp hE).1
    have st := ih t hft (eIn_ite.mp hE).2.1
    have se := ih e hfe (eIn_ite.mp hE).2.2
    simp only [pinterp]
    cases hxc : pinterp m0 preq pes env n c with
    | fuel => red; trivial
    | panic => red; trivial
    | err c0 => red; rw [hxc] at sc; obtain ⟨c', hc'⟩ := sc; simp only [Y] at hc'; exact s2_err c' (by simp [Y, Expr.substUnk, evaluate, hc'])
    | val v =>
      red
      rw [hxc] at sc; obtain ⟨hev, _⟩ := sc; simp only [Y] at hev
      cases hb : v.asBool with
      | error c0 => red; exact s2_err c0 (by simp [Y, Expr.substUnk, evaluate, hev, hb])
      | ok bv =>
        cases bv with
        | true =>
          red
          have : Y σ req es env (.ite c t e) = Y σ req es env t := by simp [Y, Expr.substUnk, evaluate, hev, hb]
          rw [this]; exact st
        | false =>
          red
          have : Y σ req es env (.ite c t e) = Y σ req es env e := by simp [Y, Expr.substUnk, evaluate, hev, hb]
          rw [this]; exact se
    | res g =>
      red
      rw [hxc] at sc
      simp only [bestEffort_eq]
      cases hBt : Best (pinterp m0 preq pes env n t) t with
      | none => red; exact s2_stuck (best_none hBt)
      | some T =>
        red
        cases hBe : Best (pinterp m0 preq pes env n e) e with
        | none => red; exact s2_stuck (best_none hBe)
        | some E =>
          red
          obtain ⟨hT, hfT⟩ := best2 hft st hBt
          obtain ⟨hE, hfE⟩ := best2 hfe se hBe
          exact s2_res (agree_ite sc.1 hT hE) (typedOK_vacuous (by intro _ _ h; cases h)) (.ite sc.2.2 hfT hfE)
  | @unaryApp op a hfa =>
    have sa := ih a hfa (eIn_unary.mp hE)
    simp only [pinterp]
    cases hxa : pinterp m0 preq pes env n a with
    | fuel => red; trivial
    | panic => red; trivial
    | err c => red; rw [hxa] at sa; obtain ⟨c', hc'⟩ := sa; simp only [Y] at hc'; exact s2_err c' (by simp [Y, Expr.substUnk, evaluate, hc'])
    | val v =>
      red
      rw [hxa] at sa; obtain ⟨hev, _⟩ := sa; simp only [Y] at hev
      have : Y σ req es env (.unaryApp op a) = applyUnary op v := by simp [Y, Expr.substUnk, evaluate, hev]
      rw [this]; exact s2_ofResult (fun w hw => applyUnary_canon hw)
    | res l =>
      red
      rw [hxa] at sa
      exact s2_res (agree_unary op sa.1) (typedOK_vacuous (by intro _ _ h; cases h)) (.unaryApp op sa.2.2)
  | @binaryApp op a b hfa hfb =>
    have sa := ih a hfa (eIn_binary.mp hE).1
    have sb := ih b hfb (eIn_binary.mp hE).2
    simp only [pinterp]
    cases hxa : pinterp m0 preq pes env n a with
    | fuel => red; trivial
    | panic => red; trivial
    | err c => red; rw [hxa] at sa; obtain ⟨c', hc'⟩ := sa; simp only [Y] at hc'; exact s2_err c' (by simp [Y, Expr.substUnk, evaluate, hc'])
    | val v1 =>
      red
      rw [hxa] at sa; obtain ⟨hev, hd1⟩ := sa
      have hev' := hev; simp only [Y] at hev'
      cases hxb : pinterp m0 preq pes env n b with
      | fuel => red; trivial
      | panic => red; trivial
      | err c => red; rw [hxb] at sb; obtain ⟨c', hc'⟩ := sb; simp only [Y] at hc'; exact s2_err c' (by simp [Y, Expr.substUnk, evaluate, hev', hc'])
      | val v2 =>
        red
        rw [hxb] at sb; obtain ⟨hevb, hd2⟩ := sb; simp only [Y] at hevb
        have : Y σ req es env (.binaryApp op a b) = applyBinary es op v1 v2 := by simp [Y, Expr.substUnk, evaluate, hev', hevb]
        rw [this]
        exact papplyBinary_sound3_on hS op hd1 hd2 (by have := hin a (eIn_binary.mp hE).1; rw [hxa] at this; exact this)
      | res e2 =>
        red
        rw [hxb] at sb
        cases hsc : shortCircuitVR v1 e2 op with
        | some r =>
          red
          obtain ⟨u1, name, t, rfl, rfl, rfl, hne, rfl⟩ := shortCircuitVR_some hsc
          obtain ⟨u, hu, hty⟩ := sb.2.1 name t rfl
          simp only [Y] at hu
          have hbq := beq_uid_ne (u1 := u1) (u2 := u) (fun h => hne (h.trans hty))
          refine s2_val ?_ trivial
          simp [Y, Expr.substUnk, evaluate, hev', hu, applyBinary, hbq]
        | none =>
          red
          refine s2_res ?_ (typedOK_vacuous (by intro _ _ h; cases h)) (.binaryApp op (frag2_toExpr σ v1 hd1) sb.2.2)
          exact agree_binary op (by rw [hev, Y_toExpr σ req es env hd1]; simp) sb.1
    | res e1 =>
      red
      rw [hxa] at sa
      cases hxb : pinterp m0 preq pes env n b with
      | fuel => red; trivial
      | panic => red; trivial
      | err c =>
        red
        rw [hxb] at sb; obtain ⟨c', hc'⟩ := sb; simp only [Y] at hc'
        cases hea : evaluate req es env (a.substUnk σ) with
        | error ca => exact s2_err ca (by simp [Y, Expr.substUnk, evaluate, hea])
        | ok va => exact s2_err c' (by simp [Y, Expr.substUnk, evaluate, hea, hc'])
      | val v2 =>
        red
        rw [hxb] at sb; obtain ⟨hevb, hd2⟩ := sb
        have hevb' := hevb; simp only [Y] at hevb'
        cases hsc : shortCircuitRV e1 v2 op with
        | some r =>
          red
          obtain ⟨u2, name, t, rfl, rfl, rfl, hne, rfl⟩ := shortCircuitRV_some hsc
          obtain ⟨u, hu, hty⟩ := sa.2.1 name t rfl
          simp only [Y] at hu
          have hbq := beq_uid_ne (u1 := u) (u2 := u2) (fun h => hne (h ▸ hty))
          refine s2_val ?_ trivial
          simp [Y, Expr.substUnk, evaluate, hevb', hu, applyBinary, hbq]
        | none =>
          red
          refine s2_res ?_ (typedOK_vacuous (by intro _ _ h; cases h)) (.binaryApp op sa.2.2 (frag2_toExpr σ v2 hd2))
          exact agree_binary op sa.1 (by rw [hevb, Y_toExpr σ req es env hd2]; simp)
      | res e2 =>
        red
        rw [hxb] at sb
        cases hsc : shortCircuitRR e1 e2 op with
        | some r =>
          red
          obtain ⟨n1, t1, n2, t2, rfl, rfl, rfl, hne, rfl⟩ := shortCircuitRR_some hsc
          obtain ⟨ua, hua, htya⟩ := sa.2.1 n1 t1 rfl
          obtain ⟨ub, hub, htyb⟩ := sb.2.1 n2 t2 rfl
          simp only [Y] at hua hub
          have hbq := beq_uid_ne (u1 := ua) (u2 := ub) (by rw [htya, htyb]; exact hne)
          refine s2_val ?_ trivial
          simp [Y, Expr.substUnk, evaluate, hua, hub, applyBinary, hbq]
        | none =>
          red
          exact s2_res (agree_binary op sa.1 sb.1) (typedOK_vacuous (by intro _ _ h; cases h)) (.binaryApp op sa.2.2 sb.2.2)
  | @like e0 p hfe =>
    have se := ih e0 hfe (eIn_like.mp hE)
    simp only [pinterp]
    cases hxe : pinterp m0 preq pes env n e0 with
    | fuel => red; trivial
    | panic => red; trivial
    | err c => red; rw [hxe] at se; obtain ⟨c', hc'⟩ := se; simp only [Y] at hc'; exact s2_err c' (by simp [Y, Expr.substUnk, evaluate, hc'])
    | res r =>
      red
      rw [hxe] at se
      exact s2_res (agree_like p se.1) (typedOK_vacuous (by intro _ _ h; cases h)) (.like p se.2.2)
    | val v =>
      red
      rw [hxe] at se; obtain ⟨hev, _⟩ := se; simp only [Y] at hev
      cases hs : v.asString with
      | error c => red; exact s2_err c (by simp [Y, Expr.substUnk, evaluate, hev, hs])
      | ok s => red; exact s2_val (by simp [Y, Expr.substUnk, evaluate, hev, hs]) trivial
  | @is e0 ty hfe =>
    have se := ih e0 hfe (eIn_is.mp hE)
    simp only [pinterp]
    cases hxe : pinterp m0 preq pes env n e0 with
    | fuel => red; trivial
    | panic => red; trivial
    | err c => red; rw [hxe] at se; obtain ⟨c', hc'⟩ := se; simp only [Y] at hc'; exact s2_err c' (by simp [Y, Expr.substUnk, evaluate, hc'])
    | res r =>
      red
      rw [hxe] at se
      split
      · rename_i name t
        obtain ⟨u, hu, hty⟩ := se.2.1 name t rfl
        simp only [Y] at hu
        exact s2_val (by simp [Y, Expr.substUnk, evaluate, hu, Value.asEntity, hty]) trivial
      · exact s2_res (agree_is ty se.1) (typedOK_vacuous (by intro _ _ h; cases h)) (.is ty se.2.2)
    | val v =>
      red
      rw [hxe] at se; obtain ⟨hev, _⟩ := se; simp only [Y] at hev
      cases hs : v.asEntity with
      | error c => red; exact s2_err c (by simp [Y, Expr.substUnk, evaluate, hev, hs])
      | ok u => red; exact s2_val (by simp [Y, Expr.substUnk, evaluate, hev, hs]) trivial
  | @set xs hxs =>
    have hc := collect_sound2 (σ := σ) (req := req) (es := es) (env := env) (pinterp m0 preq pes env n) xs (fun x hx => ih x (hxs x hx) (eIn_set_mem hE hx))
    simp only [pinterp]
    cases hcc : collectPV (pinterp m0 preq pes env n) xs with
    | error r =>
      rw [hcc] at hc; red
      rcases hc with h | h | ⟨c, h, c', h2⟩
      · subst h; trivial
      · subst h; trivial
      · subst h; exact s2_err c' (by simp [Y, Expr.substUnk, evaluate, h2])
    | ok pvs =>
      rw [hcc] at hc; red
      cases hs : splitPV pvs with
      | inl vs =>
        red
        have hp := splitPV_inl hs; subst hp
        obtain ⟨he, hd⟩ := pvrel2_values hc
        exact s2_val (by simp [Y, Expr.substUnk, evaluate, he]) (mkSet_canon hd)
      | inr rs =>
        red
        have hp := splitPV_inr hs; subst hp
        obtain ⟨h1, h2⟩ := pvrel2_asExpr hc
        exact s2_res (agree_set h1) (typedOK_vacuous (by intro _ _ h; cases h)) (.set h2)
  | @call fn args hfn hxs =>
    have hc := collect_sound2 (σ := σ) (req := req) (es := es) (env := env) (pinterp m0 preq pes env n) args (fun x hx => ih x (hxs x hx) (eIn_call_mem hE hx))
    simp only [pinterp]
    cases hcc : collectPV (pinterp m0 preq pes env n) args with
    | error r =>
      rw [hcc] at hc; red
      rcases hc with h | h | ⟨c, h, c', h2⟩
      · subst h; trivial
      · subst h; trivial
      · subst h; exact s2_err c' (by simp [Y, Expr.substUnk, evaluate, h2])
    | ok pvs =>
      rw [hcc] at hc; red
      cases hs : splitPV pvs with
      | inl vs =>
        red
        have hp := splitPV_inl hs; subst hp
        obtain ⟨he, hd⟩ := pvrel2_values hc
        have : Y σ req es env (.call fn args) = callExt fn vs := by simp [Y, Expr.substUnk, evaluate, he]
        rw [this, pcallExt_ne_unknown hfn]
        exact s2_ofResult (fun w hw => callExt_canon hw)
      | inr rs =>
        red
        have hp := splitPV_inr hs; subst hp
        obtain ⟨h1, h2⟩ := pvrel2_asExpr hc
        exact s2_res (agree_call fn h1) (typedOK_vacuous (by intro _ _ h; cases h)) (.call fn hfn h2)
  | @record kvs hnd hkvs =>
    have hc := collectKVs_sound2 (σ := σ) (req := req) (es := es) (env := env) (pinterp m0 preq pes env n) kvs (fun kv hkv => ih kv.2 (hkvs kv hkv) (eIn_record_mem hE hkv))
    simp only [pinterp]
    cases hcc : collectPVKVs (pinterp m0 preq pes env n) kvs with
    | error r =>
      rw [hcc] at hc; red
      rcases hc with h | h | ⟨c, h, c', h2⟩
      · subst h; trivial
      · subst h; trivial
      · subst h; exact s2_err c' (by simp [Y, Expr.substUnk, evaluate, h2])
    | ok pkvs =>
      rw [hcc] at hc; red
      cases hs : splitPV (pkvs.map (·.2)) with
      | inl vs =>
        red
        obtain ⟨he, hd⟩ := pvrelKV2_values hc (splitPV_inl hs)
        refine s2_val (by simp [Y, Expr.substUnk, evaluate, he]) ?_
        apply record_canon
        intro p hp
        exact hd p.2 (List.of_mem_zip hp).2
      | inr rs =>
        red
        have hp := splitPV_inr hs; subst hp
        obtain ⟨h1, h2, h3⟩ := pvrelKV2_asExpr hc
        exact s2_res (agree_record h1) (typedOK_vacuous (by intro _ _ h; cases h)) (.record (by rw [h3]; exact hnd) h2)
  | @getAttr e0 attr hfe =>
    have se := ih e0 hfe (eIn_getAttr.mp hE)
    have hin0 := hin e0 (eIn_getAttr.mp hE)
    simp only [pinterp]
    cases hxe : pinterp m0 preq pes env n e0 with
    | fuel => red; trivial
    | panic => red; trivial
    | err c => red; rw [hxe] at se; obtain ⟨c', hc'⟩ := se; simp only [Y] at hc'; exact s2_err c' (by simp [Y, Expr.substUnk, evaluate, hc'])
    | res r =>
      red
      rw [hxe] at se
      obtain ⟨hag, _htok, hfr⟩ := se
      split
      · rename_i kvs
        cases hfr with
        | record hnd hcomp =>
        split
        · rename_i hproj
          obtain ⟨vR, hvR⟩ := proj_ok req es env (.record kvs) (.record hnd hcomp) hproj
          obtain ⟨R, rfl⟩ := Y_record_is_record hvR
          have hY0 : Y σ req es env e0 = .ok (.record R) := by
            rw [hvR] at hag
            cases hy : Y σ req es env e0 with
            | error c => rw [hy] at hag; simp at hag
            | ok w => rw [hy] at hag; simp at hag; rw [hag]
          simp only [Y] at hY0
          have hl := record_lookup hnd hvR attr
          split
          · rename_i hlk
            rw [hlk] at hl
            exact s2_err .attr (by simp [Y, Expr.substUnk, evaluate, hY0, hl])
          · rename_i e' hlk
            rw [hlk] at hl
            obtain ⟨v', hv', hlv⟩ := hl
            obtain ⟨k', hk'⟩ := mem_of_lookupKV hlk
            have s' := ih e' (hcomp _ hk') (by rw [hxe] at hin0; exact eIn_record_mem hin0 hk')
            have : Y σ req es env (.getAttr e0 attr) = Y σ req es env e' := by
              rw [hv']; simp [Y, Expr.substUnk, evaluate, hY0, hlv]
            rw [this]; exact s'
        · split
          · exact s2_res (agree_getAttr attr hag) (typedOK_vacuous (by intro _ _ h; cases h)) (.getAttr attr (.record hnd hcomp))
          · rename_i hany
            cases hy : Y σ req es env e0 with
            | error c => simp only [Y] at hy; exact s2_err c (by simp [Y, Expr.substUnk, evaluate, hy])
            | ok w =>
              rw [hy] at hag
              have hvR : Y σ req es env (.record kvs) = .ok w := by
                cases hr : Y σ req es env (.record kvs) with
                | error c => rw [hr] at hag; simp at hag
                | ok w' => rw [hr] at hag; simp at hag; rw [hag]
              obtain ⟨R, rfl⟩ := Y_record_is_record hvR
              have hl := record_lookup hnd hvR attr
              have hnone : lookupKV kvs attr = none := by
                have := any_key_eq kvs attr
                cases hlk : lookupKV kvs attr with
                | none => rfl
                | some x => rw [hlk] at this; simp only [Option.isSome_some] at this; exact absurd this hany
              rw [hnone] at hl
              simp only [Y] at hy
              exact s2_err .attr (by simp [Y, Expr.substUnk, evaluate, hy, hl])
      · exact s2_res (agree_getAttr attr hag) (typedOK_vacuous (by intro _ _ h; cases h)) (.getAttr attr hfr)
    | val v =>
      red
      rw [hxe] at se; obtain ⟨hev, hd⟩ := se; simp only [Y] at hev
      cases v with
      | set vs => red; exact s2_err .type (by simp [Y, Expr.substUnk, evaluate, hev])
      | ext x => red; exact s2_err .type (by simp [Y, Expr.substUnk, evaluate, hev])
      | record kvs =>
        red
        simp only [Value.Canon] at hd
        cases hl : lookupKV kvs attr with
        | none => red; exact s2_err .attr (by simp [Y, Expr.substUnk, evaluate, hev, hl])
        | some w => red; exact s2_val (by simp [Y, Expr.substUnk, evaluate, hev, hl]) (canonKVs_lookup hd.2 hl)
      | prim p =>
        cases p with
        | bool b => red; exact s2_err .type (by simp [Y, Expr.substUnk, evaluate, hev])
        | int i => red; exact s2_err .type (by simp [Y, Expr.substUnk, evaluate, hev])
        | string s => red; exact s2_err .type (by simp [Y, Expr.substUnk, evaluate, hev])
        | entityUID u =>
          red
          rcases entity_cases pes u with ⟨d, hf, hE⟩ | ⟨hf, hp, hE⟩ | ⟨hf, hp, hE⟩
          · rw [hE]; red
            obtain ⟨d', hf', _, hattrs, _⟩ := hS.data hf
            cases hl : lookupKV d.attrs attr with
            | none =>
              red
              exact s2_err .attr (by simp [Y, Expr.substUnk, evaluate, hev, hf', hattrs.get_none hl])
            | some pv =>
              obtain ⟨v, hv, hav⟩ := hattrs.get_some hl
              have hY : Y σ req es env (.getAttr e0 attr) = .ok v := by simp [Y, Expr.substUnk, evaluate, hev, hf', hv]
              rw [hY]
              have key := sound2_attrRes (req := req) (env := env) hm hav
              cases pv with
              | value w => exact key
              | residual r => cases r <;> exact key
          · rw [hE]; red
            exact s2_err .entity (by simp [Y, Expr.substUnk, evaluate, hev, hS.noSuch hf hp])
          · rw [hE]; red
            have hb := hS.bound hf hp (by rw [hxe] at hin0; exact hin0 u (by simp [Cedar.Tpe.valueUids]))
            refine s2_res ?_ (typedOK_vacuous (by intro _ _ h; cases h)) (.getAttr attr (.unknown _ _ (unkOK_of_bound hb)))
            refine agree_getAttr attr ?_
            rw [Y_bound req es env hb]
            simp [Y, hev]
  | @hasAttr e0 attr hfe =>
    have se := ih e0 hfe (eIn_hasAttr.mp hE)
    have hin0 := hin e0 (eIn_hasAttr.mp hE)
    simp only [pinterp]
    cases hxe : pinterp m0 preq pes env n e0 with
    | fuel => red; trivial
    | panic => red; trivial
    | err c => red; rw [hxe] at se; obtain ⟨c', hc'⟩ := se; simp only [Y] at hc'; exact s2_err c' (by simp [Y, Expr.substUnk, evaluate, hc'])
    | res r =>
      red
      rw [hxe] at se
      obtain ⟨hag, _htok, hfr⟩ := se
      split
      · rename_i kvs
        cases hfr with
        | record hnd hcomp =>
        split
        · rename_i hproj
          obtain ⟨vR, hvR⟩ := proj_ok req es env (.record kvs) (.record hnd hcomp) hproj
          obtain ⟨R, rfl⟩ := Y_record_is_record hvR
          have hY0 : Y σ req es env e0 = .ok (.record R) := by
            rw [hvR] at hag
            cases hy : Y σ req es env e0 with
            | error c => rw [hy] at hag; simp at hag
            | ok w => rw [hy] at hag; simp at hag; rw [hag]
          simp only [Y] at hY0
          have hl := record_lookup hnd hvR attr
          have hsome : (lookupKV R attr).isSome = kvs.any (fun kv => kv.1 == attr) := by
            rw [any_key_eq]
            cases hlk : lookupKV kvs attr with
            | none => rw [hlk] at hl; simp only at hl; rw [hl]; rfl
            | some x => rw [hlk] at hl; obtain ⟨v', _, hlv⟩ := hl; rw [hlv]; rfl
          exact s2_val (by simp [Y, Expr.substUnk, evaluate, hY0, hsome]) trivial
        · exact s2_res (agree_hasAttr attr hag) (typedOK_vacuous (by intro _ _ h; cases h)) (.hasAttr attr (.record hnd hcomp))
      · exact s2_res (agree_hasAttr attr hag) (typedOK_vacuous (by intro _ _ h; cases h)) (.hasAttr attr hfr)
    | val v =>
      red
      rw [hxe] at se; obtain ⟨hev, hd⟩ := se; simp only [Y] at hev
      cases v with
      | set vs => red; exact s2_err .type (by simp [Y, Expr.substUnk, evaluate, hev])
      | ext x => red; exact s2_err .type (by simp [Y, Expr.substUnk, evaluate, hev])
      | record kvs => red; exact s2_val (by simp [Y, Expr.substUnk, evaluate, hev]) trivial
      | prim p =>
        cases p with
        | bool b => red; exact s2_err .type (by simp [Y, Expr.substUnk, evaluate, hev])
        | int i => red; exact s2_err .type (by simp [Y, Expr.substUnk, evaluate, hev])
        | string s => red; exact s2_err .type (by simp [Y, Expr.substUnk, evaluate, hev])
        | entityUID u =>
          red
          rcases entity_cases pes u with ⟨d, hf, hE⟩ | ⟨hf, hp, hE⟩ | ⟨hf, hp, hE⟩
          · rw [hE]; red
            obtain ⟨d', hf', _, hattrs, _⟩ := hS.data hf
            exact s2_val (by simp [Y, Expr.substUnk, evaluate, hev, hf', hattrs.isSome attr]) trivial
          · rw [hE]; red
            exact s2_val (by simp [Y, Expr.substUnk, evaluate, hev, hS.noSuch hf hp]) trivial
          · rw [hE]; red
            have hb := hS.bound hf hp (by rw [hxe] at hin0; exact hin0 u (by simp [Cedar.Tpe.valueUids]))
            refine s2_res ?_ (typedOK_vacuous (by intro _ _ h; cases h)) (.hasAttr attr (.unknown _ _ (unkOK_of_bound hb)))
            refine agree_hasAttr attr ?_
            rw [Y_bound req es env hb]
            simp [Y, hev]

end

/-- **first-pass soundness, substitution form** on `Frag2 σ`, for a partial store completed by `es` and a possibly residual
    context (`StoreCompletes`: every missing uid of a `.partial()` store bound) — `pinterp_sound3_on` with `U` = everything -/
theorem pinterp_sound3 (σ : Mapper) (req : Request) (es : Entities) (env : SlotEnv) (hctx : (Value.record req.context).Canon)
    (m0 : Mapper) (preq : PRequest) (pes : PEntities) (hS : StoreCompletes σ pes es) (hm : MapLE m0 σ)
    (hC : Concretizes2 σ es preq req) (n : Nat) (e : Expr) (hf : Frag2 σ e) :
    Sound2 σ req es env (Y σ req es env e) (pinterp m0 preq pes env n e) :=
  pinterp_sound3_on σ req es env hctx m0 preq pes (fun _ => True) (storeCompletesOn_of hS) hm hC
    (fun _ _ _ => ⟨fun _ pv _ => by cases pv <;> exact fun _ _ => trivial, fun _ pv _ => by cases pv <;> exact fun _ _ => trivial⟩) ⟨by cases preq.principal <;> trivial, by cases preq.action <;> trivial,
      by cases preq.resource <;> trivial, by rcases preq.context with _ | c | c <;> first | trivial | exact fun _ _ => trivial⟩
    (fun _ _ _ _ _ => trivial) (fun _ _ _ => trivial) n e hf (fun _ _ => trivial)

end PS
end Cedar
