import CedarVerif.Lemmas.ManifestSlice
/-
C17 helper lemmas, part 2: the *specification of a slice* — `SubStore` (nothing invented) and `CoverRoots` (everything a trie
requests is present) — and its behaviour under trie union: a store covering `t₁ ∪ t₂` covers `t₁` and `t₂`.
-/
namespace Cedar.Manifest
open Cedar

/-! ## ancestor requests grow with the trie -/

theorem mem_ancFields_append (m : Entities) (kvs : List (String × Value)) (x : EntityUID) :
    ∀ (c1 c2 : Fields), x ∈ ancFields m (c1 ++ c2) kvs ↔ x ∈ ancFields m c1 kvs ∨ x ∈ ancFields m c2 kvs
  | [], c2 => by simp [ancFields]
  | (f, t) :: rest, c2 => by
    simp only [List.cons_append, ancFields, List.mem_append, mem_ancFields_append m kvs x rest c2, or_assoc]

theorem ancFields_replace_mono (m : Entities) (k : String) (t t' : AccessTrie) (kvs : List (String × Value)) (x : EntityUID)
    (hmono : ∀ w, x ∈ ancValue m t w → x ∈ ancValue m t' w) :
    ∀ c1 : Fields, lookupField c1 k = some t → x ∈ ancFields m c1 kvs → x ∈ ancFields m (replaceField k t' c1) kvs
  | [], h, _ => by simp [lookupField] at h
  | (k0, t0) :: rest, h, hx => by
    simp only [lookupField] at h
    simp only [replaceField]
    by_cases e : (k0 == k) = true
    · simp only [e, if_true, Option.some.injEq] at h
      have e' : k0 = k := by simpa using e
      subst e'; subst h
      simp only [beq_self_eq_true, if_true, ancFields, List.mem_append] at hx ⊢
      rcases hx with hx | hx
      · left
        cases hl : lookupKV kvs k0 with
        | none => simp [hl] at hx
        | some w => simp only [hl] at hx ⊢; exact hmono w hx
      · right; exact hx
    · simp only [e, Bool.false_eq_true, if_false] at h
      simp only [e, Bool.false_eq_true, if_false, ancFields, List.mem_append] at hx ⊢
      rcases hx with hx | hx
      · left; exact hx
      · right; exact ancFields_replace_mono m k t t' kvs x hmono rest h hx

theorem ancFields_replace_new (m : Entities) (k : String) (t t' : AccessTrie) (kvs : List (String × Value)) (x : EntityUID)
    (w : Value) (hl : lookupKV kvs k = some w) (hx : x ∈ ancValue m t' w) :
    ∀ c1 : Fields, lookupField c1 k = some t → x ∈ ancFields m (replaceField k t' c1) kvs
  | [], h => by simp [lookupField] at h
  | (k0, t0) :: rest, h => by
    simp only [lookupField] at h
    simp only [replaceField]
    by_cases e : (k0 == k) = true
    · simp only [e, if_true, ancFields, List.mem_append, hl]
      left; exact hx
    · simp only [e, Bool.false_eq_true, if_false] at h
      simp only [e, Bool.false_eq_true, if_false, ancFields, List.mem_append]
      right; exact ancFields_replace_new m k t t' kvs x w hl hx rest h

mutual
theorem ancValue_union (m : Entities) (x : EntityUID) : ∀ (t2 t1 : AccessTrie) (v : Value),
    (x ∈ ancValue m t1 v → x ∈ ancValue m (t1.union t2) v) ∧ (x ∈ ancValue m t2 v → x ∈ ancValue m (t1.union t2) v)
  | .mk c2 a2 i2 e2, .mk c1 a1 i1 e1, v => by
    simp only [AccessTrie.union]
    cases v with
    | prim p =>
      cases p with
      | entityUID u =>
        simp only [ancValue, List.mem_append]
        constructor
        · rintro (h | h)
          · left; cases i1 <;> simp_all
          · right
            cases hf : m.find? u with
            | none => simp [hf] at h
            | some d => simp only [hf] at h ⊢; exact (ancFields_union m x c2 c1 d.attrs).1 h
        · rintro (h | h)
          · left; cases i2 <;> cases i1 <;> simp_all
          · right
            cases hf : m.find? u with
            | none => simp [hf] at h
            | some d => simp only [hf] at h ⊢; exact (ancFields_union m x c2 c1 d.attrs).2 h
      | bool b => simp [ancValue]
      | int n => simp [ancValue]
      | string s => simp [ancValue]
    | set vs =>
      simp only [ancValue]
      constructor
      · intro h; cases i1 <;> simp_all
      · intro h; cases i2 <;> cases i1 <;> simp_all
    | record kvs =>
      simp only [ancValue]
      exact ancFields_union m x c2 c1 kvs
    | ext e => simp [ancValue]
theorem ancFields_union (m : Entities) (x : EntityUID) : ∀ (c2 c1 : Fields) (kvs : List (String × Value)),
    (x ∈ ancFields m c1 kvs → x ∈ ancFields m (unionFields c1 c2) kvs) ∧
    (x ∈ ancFields m c2 kvs → x ∈ ancFields m (unionFields c1 c2) kvs)
  | [], c1, kvs => by simp [unionFields, ancFields]
  | (k, v) :: rest, c1, kvs => by
    unfold unionFields
    cases h : lookupField c1 k with
    | none =>
      simp only
      have ih := ancFields_union m x rest (c1 ++ [(k, v)]) kvs
      constructor
      · intro hx
        exact ih.1 ((mem_ancFields_append m kvs x c1 [(k, v)]).2 (Or.inl hx))
      · intro hx
        simp only [ancFields, List.mem_append] at hx
        rcases hx with hx | hx
        · apply ih.1
          apply (mem_ancFields_append m kvs x c1 [(k, v)]).2
          right
          simp only [ancFields, List.mem_append]
          left; exact hx
        · exact ih.2 hx
    | some t =>
      simp only
      have ih := ancFields_union m x rest (replaceField k (t.union v) c1) kvs
      have hv := fun w => ancValue_union m x v t w
      constructor
      · intro hx
        exact ih.1 (ancFields_replace_mono m k t (t.union v) kvs x (fun w => (hv w).1) c1 h hx)
      · intro hx
        simp only [ancFields, List.mem_append] at hx
        rcases hx with hx | hx
        · cases hl : lookupKV kvs k with
          | none => simp [hl] at hx
          | some w =>
            simp only [hl] at hx
            exact ih.1 (ancFields_replace_new m k t (t.union v) kvs x w hl ((hv w).2 hx) c1 h)
        · exact ih.2 hx
end

/-- the contribution of one root to `ancRequest` -/
def ancRoot (m : Entities) (req : Request) (root : EntityRoot) (t : AccessTrie) : List EntityUID :=
  match rootUid req root with
  | some u => ancValue m t (.prim (.entityUID u))
  | none => ancFields m t.children req.context

theorem ancRequest_cons (m : Entities) (req : Request) (root : EntityRoot) (t : AccessTrie) (rest : RootAccessTrie) :
    ancRequest m req ((root, t) :: rest) = ancRoot m req root t ++ ancRequest m req rest := by
  rfl

theorem ancRoot_union (m : Entities) (req : Request) (x : EntityUID) (root : EntityRoot) (t1 t2 : AccessTrie) :
    (x ∈ ancRoot m req root t1 → x ∈ ancRoot m req root (t1.union t2)) ∧
    (x ∈ ancRoot m req root t2 → x ∈ ancRoot m req root (t1.union t2)) := by
  unfold ancRoot
  cases rootUid req root with
  | some u => exact ancValue_union m x t2 t1 _
  | none =>
    obtain ⟨c1, a1, i1, e1⟩ := t1
    obtain ⟨c2, a2, i2, e2⟩ := t2
    simp only [AccessTrie.union, AccessTrie.children]
    exact ancFields_union m x c2 c1 req.context

theorem mem_ancRequest_append (m : Entities) (req : Request) (x : EntityUID) :
    ∀ (c1 c2 : RootAccessTrie), x ∈ ancRequest m req (c1 ++ c2) ↔ x ∈ ancRequest m req c1 ∨ x ∈ ancRequest m req c2
  | [], c2 => by simp [ancRequest]
  | (r, t) :: rest, c2 => by
    simp only [List.cons_append, ancRequest_cons, List.mem_append, mem_ancRequest_append m req x rest c2, or_assoc]

theorem ancRequest_replace_mono (m : Entities) (req : Request) (k : EntityRoot) (t t' : AccessTrie) (x : EntityUID)
    (hmono : x ∈ ancRoot m req k t → x ∈ ancRoot m req k t') :
    ∀ c1 : RootAccessTrie, lookupRoot c1 k = some t → x ∈ ancRequest m req c1 → x ∈ ancRequest m req (replaceRoot k t' c1)
  | [], h, _ => by simp [lookupRoot] at h
  | (k0, t0) :: rest, h, hx => by
    simp only [lookupRoot] at h
    simp only [replaceRoot]
    by_cases e : (k0 == k) = true
    · simp only [e, if_true, Option.some.injEq] at h
      have e' : k0 = k := by simpa using e
      subst e'; subst h
      simp only [beq_self_eq_true, if_true, ancRequest_cons, List.mem_append] at hx ⊢
      rcases hx with hx | hx
      · left; exact hmono hx
      · right; exact hx
    · simp only [e, Bool.false_eq_true, if_false] at h
      simp only [e, Bool.false_eq_true, if_false, ancRequest_cons, List.mem_append] at hx ⊢
      rcases hx with hx | hx
      · left; exact hx
      · right; exact ancRequest_replace_mono m req k t t' x hmono rest h hx

theorem ancRequest_replace_new (m : Entities) (req : Request) (k : EntityRoot) (t t' : AccessTrie) (x : EntityUID)
    (hx : x ∈ ancRoot m req k t') :
    ∀ c1 : RootAccessTrie, lookupRoot c1 k = some t → x ∈ ancRequest m req (replaceRoot k t' c1)
  | [], h => by simp [lookupRoot] at h
  | (k0, t0) :: rest, h => by
    simp only [lookupRoot] at h
    simp only [replaceRoot]
    by_cases e : (k0 == k) = true
    · simp only [e, if_true, ancRequest_cons, List.mem_append]
      left; exact hx
    · simp only [e, Bool.false_eq_true, if_false] at h
      simp only [e, Bool.false_eq_true, if_false, ancRequest_cons, List.mem_append]
      right; exact ancRequest_replace_new m req k t t' x hx rest h

/-- a larger ancestors trie requests more ancestors -/
theorem ancRequest_union (m : Entities) (req : Request) (x : EntityUID) : ∀ (a2 a1 : RootAccessTrie),
    (x ∈ ancRequest m req a1 → x ∈ ancRequest m req (unionRoots a1 a2)) ∧
    (x ∈ ancRequest m req a2 → x ∈ ancRequest m req (unionRoots a1 a2))
  | [], a1 => by simp [unionRoots, ancRequest]
  | (k, v) :: rest, a1 => by
    unfold unionRoots
    cases h : lookupRoot a1 k with
    | none =>
      simp only
      have ih := ancRequest_union m req x rest (a1 ++ [(k, v)])
      constructor
      · intro hx
        exact ih.1 ((mem_ancRequest_append m req x a1 [(k, v)]).2 (Or.inl hx))
      · intro hx
        simp only [ancRequest_cons, List.mem_append] at hx
        rcases hx with hx | hx
        · apply ih.1
          apply (mem_ancRequest_append m req x a1 [(k, v)]).2
          right
          simp only [ancRequest_cons, List.mem_append]
          left; exact hx
        · exact ih.2 hx
    | some t =>
      simp only
      have ih := ancRequest_union m req x rest (replaceRoot k (t.union v) a1)
      have hv := ancRoot_union m req x k t v
      constructor
      · intro hx
        exact ih.1 (ancRequest_replace_mono m req k t (t.union v) x hv.1 a1 h hx)
      · intro hx
        simp only [ancRequest_cons, List.mem_append] at hx
        rcases hx with hx | hx
        · exact ih.1 (ancRequest_replace_new m req k t (t.union v) x (hv.2 hx) a1 h)
        · exact ih.2 hx

/-! ## the specification of a slice -/

/-- nothing is invented: every entity of the slice exists in the store, with trimmed attributes and a subset of its ancestors -/
def SubStore (es es' : Entities) : Prop :=
  ∀ u d', es'.find? u = some d' →
    ∃ d, es.find? u = some d ∧ TrimKVs d'.attrs d.attrs ∧ (∀ a, a ∈ d'.ancestors → a ∈ d.ancestors)

-- everything the trie requests of the value `v` (of the store `es`) is present in its copy `v'` (of the slice `es'`):
-- requested fields that exist are kept (recursively), referenced entities that exist are loaded (recursively), and the
-- requested ancestors that the entity has are kept
mutual
def CoverV (es es' : Entities) (req : Request) : AccessTrie → Value → Value → Prop
  | .mk c a _ _, v, v' =>
    match v with
    | .prim (.entityUID u) =>
      v' = v ∧ (∀ d, es.find? u = some d →
        ∃ d', es'.find? u = some d' ∧ CoverF es es' req c d.attrs d'.attrs ∧
          (∀ x, x ∈ ancRequest es' req a → x ∈ d.ancestors → x ∈ d'.ancestors))
    | .record kvs => ∃ kvs', v' = .record kvs' ∧ CoverF es es' req c kvs kvs'
    | _ => True
def CoverF (es es' : Entities) (req : Request) : Fields → List (String × Value) → List (String × Value) → Prop
  | [], _, _ => True
  | (f, t) :: rest, kvs, kvs' =>
    (∀ w, lookupKV kvs f = some w → ∃ w', lookupKV kvs' f = some w' ∧ CoverV es es' req t w w') ∧
    CoverF es es' req rest kvs kvs'
end

/-- the value a root denotes -/
def rootVal (req : Request) : EntityRoot → Value
  | .var .principal => .prim (.entityUID req.principal)
  | .var .action => .prim (.entityUID req.action)
  | .var .resource => .prim (.entityUID req.resource)
  | .var .context => .record req.context
  | .literal u => .prim (.entityUID u)

def CoverRoots (es es' : Entities) (req : Request) : RootAccessTrie → Prop
  | [] => True
  | (root, t) :: rest => CoverV es es' req t (rootVal req root) (rootVal req root) ∧ CoverRoots es es' req rest

/-! ## a store covering a union covers both parts -/

theorem coverF_append (es es' : Entities) (req : Request) (kvs kvs' : List (String × Value)) :
    ∀ (c1 c2 : Fields), CoverF es es' req (c1 ++ c2) kvs kvs' ↔ CoverF es es' req c1 kvs kvs' ∧ CoverF es es' req c2 kvs kvs'
  | [], c2 => by simp [CoverF]
  | (f, t) :: rest, c2 => by
    simp only [List.cons_append, CoverF, coverF_append es es' req kvs kvs' rest c2, and_assoc]

theorem coverF_replace (es es' : Entities) (req : Request) (k : String) (t t' : AccessTrie) (kvs kvs' : List (String × Value))
    (hmono : ∀ w w', CoverV es es' req t' w w' → CoverV es es' req t w w') :
    ∀ c1 : Fields, lookupField c1 k = some t → CoverF es es' req (replaceField k t' c1) kvs kvs' →
      CoverF es es' req c1 kvs kvs' ∧ (∀ w, lookupKV kvs k = some w → ∃ w', lookupKV kvs' k = some w' ∧ CoverV es es' req t' w w')
  | [], h, _ => by simp [lookupField] at h
  | (k0, t0) :: rest, h, hc => by
    simp only [lookupField] at h
    simp only [replaceField] at hc
    by_cases e : (k0 == k) = true
    · simp only [e, if_true, Option.some.injEq] at h
      have e' : k0 = k := by simpa using e
      subst e'; subst h
      simp only [beq_self_eq_true, if_true, CoverF] at hc ⊢
      refine ⟨⟨?_, hc.2⟩, hc.1⟩
      intro w hw
      obtain ⟨w', h1, h2⟩ := hc.1 w hw
      exact ⟨w', h1, hmono w w' h2⟩
    · simp only [e, Bool.false_eq_true, if_false] at h
      simp only [e, Bool.false_eq_true, if_false, CoverF] at hc ⊢
      obtain ⟨h1, h2⟩ := coverF_replace es es' req k t t' kvs kvs' hmono rest h hc.2
      exact ⟨⟨hc.1, h1⟩, h2⟩

mutual
theorem coverV_union (es es' : Entities) (req : Request) : ∀ (t2 t1 : AccessTrie) (v v' : Value),
    CoverV es es' req (t1.union t2) v v' → CoverV es es' req t1 v v' ∧ CoverV es es' req t2 v v'
  | .mk c2 a2 i2 e2, .mk c1 a1 i1 e1, v, v' => by
    simp only [AccessTrie.union]
    cases v with
    | prim p =>
      cases p with
      | entityUID u =>
        simp only [CoverV]
        rintro ⟨hv, h⟩
        refine ⟨⟨hv, ?_⟩, ⟨hv, ?_⟩⟩
        · intro d hd
          obtain ⟨d', h1, h2, h3⟩ := h d hd
          refine ⟨d', h1, (coverF_union es es' req c2 c1 d.attrs d'.attrs h2).1, ?_⟩
          intro x hx hxa
          exact h3 x ((ancRequest_union es' req x a2 a1).1 hx) hxa
        · intro d hd
          obtain ⟨d', h1, h2, h3⟩ := h d hd
          refine ⟨d', h1, (coverF_union es es' req c2 c1 d.attrs d'.attrs h2).2, ?_⟩
          intro x hx hxa
          exact h3 x ((ancRequest_union es' req x a2 a1).2 hx) hxa
      | bool b => simp [CoverV]
      | int n => simp [CoverV]
      | string s => simp [CoverV]
    | set vs => simp [CoverV]
    | record kvs =>
      simp only [CoverV]
      rintro ⟨kvs', hv, h⟩
      have := coverF_union es es' req c2 c1 kvs kvs' h
      exact ⟨⟨kvs', hv, this.1⟩, ⟨kvs', hv, this.2⟩⟩
    | ext e => simp [CoverV]
theorem coverF_union (es es' : Entities) (req : Request) : ∀ (c2 c1 : Fields) (kvs kvs' : List (String × Value)),
    CoverF es es' req (unionFields c1 c2) kvs kvs' → CoverF es es' req c1 kvs kvs' ∧ CoverF es es' req c2 kvs kvs'
  | [], c1, kvs, kvs' => by simp [unionFields, CoverF]
  | (k, v) :: rest, c1, kvs, kvs' => by
    unfold unionFields
    cases h : lookupField c1 k with
    | none =>
      simp only
      intro hc
      obtain ⟨h1, h2⟩ := coverF_union es es' req rest (c1 ++ [(k, v)]) kvs kvs' hc
      obtain ⟨h3, h4⟩ := (coverF_append es es' req kvs kvs' c1 [(k, v)]).1 h1
      simp only [CoverF] at h4 ⊢
      exact ⟨h3, h4.1, h2⟩
    | some t =>
      simp only
      intro hc
      obtain ⟨h1, h2⟩ := coverF_union es es' req rest (replaceField k (t.union v) c1) kvs kvs' hc
      obtain ⟨h3, h4⟩ := coverF_replace es es' req k t (t.union v) kvs kvs'
        (fun w w' hw => (coverV_union es es' req v t w w' hw).1) c1 h h1
      simp only [CoverF]
      refine ⟨h3, ?_, h2⟩
      intro w hw
      obtain ⟨w', e1, e2⟩ := h4 w hw
      exact ⟨w', e1, (coverV_union es es' req v t w w' e2).2⟩
end

theorem coverRoots_append (es es' : Entities) (req : Request) :
    ∀ (c1 c2 : RootAccessTrie), CoverRoots es es' req (c1 ++ c2) ↔ CoverRoots es es' req c1 ∧ CoverRoots es es' req c2
  | [], c2 => by simp [CoverRoots]
  | (f, t) :: rest, c2 => by
    simp only [List.cons_append, CoverRoots, coverRoots_append es es' req rest c2, and_assoc]

theorem coverRoots_replace (es es' : Entities) (req : Request) (k : EntityRoot) (t t' : AccessTrie)
    (hmono : CoverV es es' req t' (rootVal req k) (rootVal req k) → CoverV es es' req t (rootVal req k) (rootVal req k)) :
    ∀ c1 : RootAccessTrie, lookupRoot c1 k = some t → CoverRoots es es' req (replaceRoot k t' c1) →
      CoverRoots es es' req c1 ∧ CoverV es es' req t' (rootVal req k) (rootVal req k)
  | [], h, _ => by simp [lookupRoot] at h
  | (k0, t0) :: rest, h, hc => by
    simp only [lookupRoot] at h
    simp only [replaceRoot] at hc
    by_cases e : (k0 == k) = true
    · simp only [e, if_true, Option.some.injEq] at h
      have e' : k0 = k := by simpa using e
      subst e'; subst h
      simp only [beq_self_eq_true, if_true, CoverRoots] at hc ⊢
      exact ⟨⟨hmono hc.1, hc.2⟩, hc.1⟩
    · simp only [e, Bool.false_eq_true, if_false] at h
      simp only [e, Bool.false_eq_true, if_false, CoverRoots] at hc ⊢
      obtain ⟨h1, h2⟩ := coverRoots_replace es es' req k t t' hmono rest h hc.2
      exact ⟨⟨hc.1, h1⟩, h2⟩

/-- a store covering the union of two root tries covers each of them -/
theorem coverRoots_union (es es' : Entities) (req : Request) : ∀ (a2 a1 : RootAccessTrie),
    CoverRoots es es' req (unionRoots a1 a2) → CoverRoots es es' req a1 ∧ CoverRoots es es' req a2
  | [], a1 => by simp [unionRoots, CoverRoots]
  | (k, v) :: rest, a1 => by
    unfold unionRoots
    cases h : lookupRoot a1 k with
    | none =>
      simp only
      intro hc
      obtain ⟨h1, h2⟩ := coverRoots_union es es' req rest (a1 ++ [(k, v)]) hc
      obtain ⟨h3, h4⟩ := (coverRoots_append es es' req a1 [(k, v)]).1 h1
      simp only [CoverRoots] at h4 ⊢
      exact ⟨h3, h4.1, h2⟩
    | some t =>
      simp only
      intro hc
      obtain ⟨h1, h2⟩ := coverRoots_union es es' req rest (replaceRoot k (t.union v) a1) hc
      obtain ⟨h3, h4⟩ := coverRoots_replace es es' req k t (t.union v)
        (fun hw => (coverV_union es es' req v t _ _ hw).1) a1 h h1
      simp only [CoverRoots]
      exact ⟨h3, (coverV_union es es' req v t _ _ h4).2, h2⟩

end Cedar.Manifest
