import CedarVerif.Cedar.Authorizer
import CedarVerif.Lemmas.ManifestIn
/-
C17 helper lemmas, part 4: the induction over the core fragment.
-/
namespace Cedar.Manifest
open Cedar

/-- binary operators of the fragment -/
def FragOp (op : BinaryOp) : Prop :=
  op = .less ∨ op = .lessEq ∨ op = .add ∨ op = .sub ∨ op = .mul ∨
  op = .eq ∨ op = .contains ∨ op = .containsAll ∨ op = .containsAny ∨ op = .mem

/-- the fragment covered by the soundness proof: literals, variables, `.`/`has`, `&& || !`, `if`, unary `-`, `isEmpty`,
`== < <= + - *`, `in`, `contains containsAll containsAny`, `like`, `is`.  Outside: record / set literals, extension calls,
slots, unknowns (differential run only), tags (rejected by the analysis). -/
def InFrag : TExpr → Prop
  | .lit _ => True
  | .var _ => True
  | .ite c t e => InFrag c ∧ InFrag t ∧ InFrag e
  | .and a b => InFrag a ∧ InFrag b
  | .or a b => InFrag a ∧ InFrag b
  | .unaryApp _ _ a => InFrag a
  | .binaryApp op _ _ a b => FragOp op ∧ InFrag a ∧ InFrag b
  | .getAttr e _ => InFrag e
  | .hasAttr e _ => InFrag e
  | .like e _ => InFrag e
  | .is e _ => InFrag e
  | _ => False

def NonRec (r : Result Value) : Prop := ∀ kvs, r ≠ .ok (.record kvs)

/-- side condition: the operands of binary operators are not records (in the full store).  For strictly valid policies
this is the case whenever the annotated operand types are not record types (type soundness, C03). -/
def SafeOps (req : Request) (es : Entities) : TExpr → Prop
  | .ite c t e => SafeOps req es c ∧ SafeOps req es t ∧ SafeOps req es e
  | .and a b => SafeOps req es a ∧ SafeOps req es b
  | .or a b => SafeOps req es a ∧ SafeOps req es b
  | .unaryApp _ _ a => SafeOps req es a
  | .binaryApp _ _ _ a b =>
    NonRec (evaluate req es [] a.erase) ∧ NonRec (evaluate req es [] b.erase) ∧ SafeOps req es a ∧ SafeOps req es b
  | .getAttr e _ => SafeOps req es e
  | .hasAttr e _ => SafeOps req es e
  | .like e _ => SafeOps req es e
  | .is e _ => SafeOps req es e
  | _ => True

theorem trim_asBool {v' v : Value} (h : Trim v' v) : v'.asBool = v.asBool := by
  cases v with
  | record kvs => obtain ⟨kvs', e, _⟩ := trim_record_inv h; subst e; rfl
  | prim p => rw [trim_prim h]
  | set s => rw [trim_nonrecord h (by intro kvs; simp)]
  | ext x => rw [trim_nonrecord h (by intro kvs; simp)]

theorem trim_asInt {v' v : Value} (h : Trim v' v) : v'.asInt = v.asInt := by
  cases v with
  | record kvs => obtain ⟨kvs', e, _⟩ := trim_record_inv h; subst e; rfl
  | prim p => rw [trim_prim h]
  | set s => rw [trim_nonrecord h (by intro kvs; simp)]
  | ext x => rw [trim_nonrecord h (by intro kvs; simp)]

theorem trim_asString {v' v : Value} (h : Trim v' v) : v'.asString = v.asString := by
  cases v with
  | record kvs => obtain ⟨kvs', e, _⟩ := trim_record_inv h; subst e; rfl
  | prim p => rw [trim_prim h]
  | set s => rw [trim_nonrecord h (by intro kvs; simp)]
  | ext x => rw [trim_nonrecord h (by intro kvs; simp)]

theorem trim_asEntity {v' v : Value} (h : Trim v' v) : v'.asEntity = v.asEntity := by
  cases v with
  | record kvs => obtain ⟨kvs', e, _⟩ := trim_record_inv h; subst e; rfl
  | prim p => rw [trim_prim h]
  | set s => rw [trim_nonrecord h (by intro kvs; simp)]
  | ext x => rw [trim_nonrecord h (by intro kvs; simp)]

/-- results that are scalars agree as soon as they are equal -/
theorem rel_of_eq_scalar {es es' : Entities} {req : Request} {P : WPaths} {r : Result Value}
    (hs : ∀ v, r = .ok v → Scalar v) (hP : ∀ v v', Scalar v → PCover es es' req P v v') : Rel es es' req P r r := by
  cases r with
  | error x => rfl
  | ok v =>
    refine ⟨v, rfl, ?_, hP v v (hs v rfl)⟩
    cases v with
    | record kvs => exact absurd (hs _ rfl) (by simp [Scalar])
    | prim p => simp [Trim]
    | set s => simp [Trim]
    | ext x => simp [Trim]

theorem scalar_bool (b : Bool) : Scalar (.prim (.bool b)) := by simp [Scalar]

theorem applyUnary_scalar (op : UnaryOp) (v w : Value) (h : applyUnary op v = .ok w) : Scalar w := by
  cases op with
  | not =>
    simp only [applyUnary] at h
    cases hb : v.asBool with
    | error x => simp [hb, bind, Except.bind] at h
    | ok b => simp only [hb, bind, Except.bind, Except.ok.injEq] at h; subst h; simp [Scalar]
  | neg =>
    simp only [applyUnary] at h
    cases hb : v.asInt with
    | error x => simp [hb, bind, Except.bind] at h
    | ok i =>
      simp only [hb, bind, Except.bind, intOrErr] at h
      split at h
      · cases h; simp [Scalar]
      · cases h
  | isEmpty =>
    simp only [applyUnary] at h
    cases hb : v.asSet with
    | error x => simp [hb, bind, Except.bind] at h
    | ok s => simp only [hb, bind, Except.bind, Except.ok.injEq] at h; subst h; simp [Scalar]

theorem intOrErr_scalar (i : Int) (w : Value) (h : intOrErr i = .ok w) : Scalar w := by
  simp only [intOrErr] at h
  split at h
  · cases h; simp [Scalar]
  · cases h

theorem applyCmp_scalar (s : Bool) (v1 v2 w : Value) (h : applyCmp s v1 v2 = .ok w) : Scalar w := by
  unfold applyCmp at h
  cases s <;> simp only [Bool.false_eq_true, if_false, if_true] at h <;> split at h <;>
    first | (simp only [Except.ok.injEq] at h; subst h; simp [Scalar]) | simp at h

theorem arith_scalar (f : Int → Int → Int) (v1 v2 w : Value)
    (h : (do let a ← v1.asInt; let b ← v2.asInt; intOrErr (f a b)) = Except.ok w) : Scalar w := by
  cases ha : v1.asInt with
  | error x => simp [ha, bind, Except.bind] at h
  | ok a =>
    cases hb : v2.asInt with
    | error x => simp [ha, hb, bind, Except.bind] at h
    | ok b =>
      simp only [ha, hb, bind, Except.bind] at h
      exact intOrErr_scalar _ _ h

/-- `union empty empty`, `empty`, … : path sets that only describe scalars -/
theorem pcover_scalar_empty {es es' : Entities} {req : Request} (v v' : Value) (h : Scalar v) : PCover es es' req .empty v v' := h

theorem rootVal_var (req : Request) (x : Var) : evaluate req es [] (.var x) = .ok (rootVal req (.var x)) := by
  cases x <;> rfl

theorem trim_asSet {v' v : Value} (h : Trim v' v) : v'.asSet = v.asSet := by
  cases v with
  | record kvs => obtain ⟨kvs', e, _⟩ := trim_record_inv h; subst e; rfl
  | prim p => rw [trim_prim h]
  | set s => rw [trim_nonrecord h (by intro kvs; simp)]
  | ext x => rw [trim_nonrecord h (by intro kvs; simp)]

theorem applyUnary_trim' (op : UnaryOp) {v' v : Value} (h : Trim v' v) : applyUnary op v' = applyUnary op v := by
  cases op
  · simp only [applyUnary, trim_asBool h]
  · simp only [applyUnary, trim_asInt h]
  · simp only [applyUnary, trim_asSet h]

theorem setop_scalar {α} (x : Result α) (f : α → Bool) (w : Value)
    (h : (do let s ← x; Except.ok (Value.prim (Prim.bool (f s)))) = Except.ok w) : Scalar w := by
  cases x with
  | error e => simp [bind, Except.bind] at h
  | ok s => simp only [bind, Except.bind, Except.ok.injEq] at h; subst h; simp [Scalar]

theorem applyBinary_nonmem (es es' : Entities) (op : BinaryOp) (hop : FragOp op) (hne : op ≠ .mem) (v1 v2 : Value) :
    applyBinary es' op v1 v2 = applyBinary es op v1 v2 ∧ (∀ w, applyBinary es op v1 v2 = .ok w → Scalar w) := by
  rcases hop with e | e | e | e | e | e | e | e | e | e <;> subst e
  · exact ⟨rfl, fun w h => applyCmp_scalar _ _ _ _ h⟩
  · exact ⟨rfl, fun w h => applyCmp_scalar _ _ _ _ h⟩
  · exact ⟨rfl, fun w h => arith_scalar (· + ·) _ _ _ h⟩
  · exact ⟨rfl, fun w h => arith_scalar (· - ·) _ _ _ h⟩
  · exact ⟨rfl, fun w h => arith_scalar (· * ·) _ _ _ h⟩
  · refine ⟨rfl, ?_⟩
    intro w h; simp only [applyBinary, Except.ok.injEq] at h; subst h; simp [Scalar]
  · exact ⟨rfl, fun w h => setop_scalar v1.asSet (fun s => Value.elem v2 s) w h⟩
  · refine ⟨rfl, ?_⟩
    intro w h
    simp only [applyBinary] at h
    cases h1 : v1.asSet with
    | error e => simp [h1, bind, Except.bind] at h
    | ok s1 =>
      simp only [h1, bind, Except.bind] at h
      exact setop_scalar v2.asSet (fun s2 => Value.subset s2 s1) w h
  · refine ⟨rfl, ?_⟩
    intro w h
    simp only [applyBinary] at h
    cases h1 : v1.asSet with
    | error e => simp [h1, bind, Except.bind] at h
    | ok s1 =>
      simp only [h1, bind, Except.bind] at h
      exact setop_scalar v2.asSet (fun s2 => s1.any (Value.elem · s2)) w h
  · exact absurd rfl hne

theorem applyMem_scalar (es : Entities) (v1 v2 w : Value) (h : applyBinary es .mem v1 v2 = .ok w) : Scalar w := by
  simp only [applyBinary] at h
  cases h1 : v1.asEntity with
  | error e => simp [h1, bind, Except.bind] at h
  | ok u1 =>
    simp only [h1, bind, Except.bind] at h
    cases v2 with
    | prim p =>
      cases p with
      | entityUID u2 => simp only [Except.ok.injEq] at h; subst h; simp [Scalar]
      | bool b => simp at h
      | int n => simp at h
      | string s => simp at h
    | set vs =>
      simp only at h
      cases hr : asEntityList vs with
      | error e => simp [hr] at h
      | ok us => simp only [hr, Except.ok.injEq] at h; subst h; simp [Scalar]
    | record kvs => simp at h
    | ext y => simp at h

/-- what the analysis of a binary operator of the fragment computes: the operands' tries are part of the result's trie,
for `in` the left operand's paths are covered with the ancestors trie of the right operand's paths, and the result has
no dereferenceable paths -/
theorem binary_manifest {es es' : Entities} {req : Request} {op : BinaryOp} {ty1 ty2 : Option CedarType} {a b : TExpr} {r : Res}
    (hop : FragOp op) (hm : manifestOfExpr (.binaryApp op ty1 ty2 a b) = .ok r) :
    ∃ ra rb, manifestOfExpr a = .ok ra ∧ manifestOfExpr b = .ok rb ∧
      (CoverRoots es es' req r.global → CoverRoots es es' req ra.global ∧ CoverRoots es es' req rb.global ∧
        (op = .mem → PathsCov es es' req false rb.paths.toAncestorTrie ra.paths)) ∧
      (∀ v v', Scalar v → PCover es es' req r.paths v v') := by
  cases h1 : manifestOfExpr a with
  | error x => rcases hop with e | e | e | e | e | e | e | e | e | e <;> subst e <;> simp [manifestOfExpr, primPair, h1] at hm
  | ok ra =>
    cases h2 : manifestOfExpr b with
    | error x => rcases hop with e | e | e | e | e | e | e | e | e | e <;> subst e <;> simp [manifestOfExpr, primPair, h1, h2] at hm
    | ok rb =>
      refine ⟨ra, rb, rfl, rfl, ?_⟩
      have prim : ∀ (hm : primPair (.ok ra) (.ok rb) = .ok r) (hne : op ≠ .mem),
          (CoverRoots es es' req r.global → CoverRoots es es' req ra.global ∧ CoverRoots es es' req rb.global ∧
            (op = .mem → PathsCov es es' req false rb.paths.toAncestorTrie ra.paths)) ∧
          (∀ v v', Scalar v → PCover es es' req r.paths v v') := by
        intro hm hne
        simp only [primPair, Except.ok.injEq] at hm
        subst hm
        simp only [Res.union, Res.emptyPaths]
        refine ⟨fun hcr => ?_, fun v v' h => Or.inl h⟩
        obtain ⟨c1, c2⟩ := coverRoots_union es es' req _ _ hcr
        exact ⟨c1, c2, fun e => absurd e hne⟩
      have typed : ∀ (r1 : Res) (_hp : r1.paths = ra.paths)
          (_hr1 : CoverRoots es es' req r1.global → CoverRoots es es' req ra.global ∧
            (op = .mem → PathsCov es es' req false rb.paths.toAncestorTrie ra.paths))
          (t1 t2 : CedarType) (f1 f2 : Res), r1.fullTypeRequired t1 = .ok f1 → rb.fullTypeRequired t2 = .ok f2 →
          (CoverRoots es es' req (f1.union f2).emptyPaths.global → CoverRoots es es' req ra.global ∧ CoverRoots es es' req rb.global ∧
            (op = .mem → PathsCov es es' req false rb.paths.toAncestorTrie ra.paths)) ∧
          (∀ v v', Scalar v → PCover es es' req (f1.union f2).emptyPaths.paths v v') := by
        intro r1 hp hr1 t1 t2 f1 f2 hf1 hf2
        simp only [Res.fullTypeRequired] at hf1 hf2
        cases hp1 : r1.paths.fullTypeRequired t1 with
        | error x => simp [hp1] at hf1
        | ok p1 =>
          cases hp2 : rb.paths.fullTypeRequired t2 with
          | error x => simp [hp2] at hf2
          | ok p2 =>
            simp only [hp1, Except.ok.injEq] at hf1
            simp only [hp2, Except.ok.injEq] at hf2
            subst hf1; subst hf2
            simp only [Res.union, Res.emptyPaths]
            refine ⟨fun hcr => ?_, fun v v' h => h⟩
            obtain ⟨c1, c2⟩ := coverRoots_union es es' req _ _ hcr
            obtain ⟨c3, _⟩ := coverRoots_union es es' req _ _ c1
            obtain ⟨c4, c5⟩ := hr1 c3
            exact ⟨c4, (coverRoots_union es es' req _ _ c2).1, c5⟩
      rcases hop with e | e | e | e | e | e | e | e | e | e <;> subst e
      · exact prim (by simpa [manifestOfExpr, h1, h2] using hm) (by decide)
      · exact prim (by simpa [manifestOfExpr, h1, h2] using hm) (by decide)
      · exact prim (by simpa [manifestOfExpr, h1, h2] using hm) (by decide)
      · exact prim (by simpa [manifestOfExpr, h1, h2] using hm) (by decide)
      · exact prim (by simpa [manifestOfExpr, h1, h2] using hm) (by decide)
      all_goals
        simp only [manifestOfExpr, h1, h2] at hm
        cases ht1 : needTy ty1 with
        | error x => simp [ht1] at hm
        | ok t1 =>
          cases ht2 : needTy ty2 with
          | error x => simp [ht1, ht2] at hm
          | ok t2 =>
            simp only [ht1, ht2, show (BinaryOp.eq == BinaryOp.mem) = false from rfl,
              show (BinaryOp.contains == BinaryOp.mem) = false from rfl,
              show (BinaryOp.containsAll == BinaryOp.mem) = false from rfl,
              show (BinaryOp.containsAny == BinaryOp.mem) = false from rfl,
              show (BinaryOp.mem == BinaryOp.mem) = true from rfl, if_true, Bool.false_eq_true, if_false] at hm
            split at hm
            · simp at hm
            · rename_i f1 hf1
              split at hm
              · simp at hm
              · rename_i f2 hf2
                simp only [Except.ok.injEq] at hm
                subst hm
                first
                | exact typed ra rfl (fun h => ⟨h, fun e => absurd e (by decide)⟩) t1 t2 f1 f2 hf1 hf2
                | exact typed (ra.withAncestorsRequired rb.paths.toAncestorTrie) rfl
                    (fun h => by
                      obtain ⟨c4, c5⟩ := coverRoots_addWrapped es es' req false rb.paths.toAncestorTrie ra.paths ra.global h
                      exact ⟨c4, fun _ => c5⟩) t1 t2 f1 f2 hf1 hf2

theorem asBool_ok {v : Value} {b : Bool} (h : v.asBool = .ok b) : v = .prim (.bool b) := by
  cases v with
  | prim p => cases p <;> simp [Value.asBool] at h; subst h; rfl
  | record kvs => simp [Value.asBool] at h
  | set s => simp [Value.asBool] at h
  | ext x => simp [Value.asBool] at h

/-- `Sim req es e te`: over the full store `es`, `te` is a typed AST of `e` in the core fragment.  `te` has the shape of
`e`, EXCEPT where the typechecker short-circuits (typecheck.rs): `a && b` with `a` typed `False` and `a || b` with `a`
typed `True` become the typed `a`; `if c then t else e` with `c` typed `True` (`False`) becomes `if c then t else t`
(`if c then e else e`).  The semantic content of these typings is carried as premises (the decisive operand never
evaluates to the other boolean over the FULL store).  Sub-derivations are only demanded where evaluation over the full
store goes (`&&`, `||`, `if` are lazy), and operands of binary operators are not records (`NonRec`, as in `SafeOps`). -/
inductive Sim (req : Request) (es : Entities) : Expr → TExpr → Prop
  | lit (p : Prim) : Sim req es (.lit p) (.lit p)
  | var (x : Var) : Sim req es (.var x) (.var x)
  | ite {c t e : Expr} {tc tt te : TExpr} : Sim req es c tc →
      (evaluate req es [] c = .ok (.prim (.bool true)) → Sim req es t tt) →
      (evaluate req es [] c = .ok (.prim (.bool false)) → Sim req es e te) → Sim req es (.ite c t e) (.ite tc tt te)
  | iteTrue {c t e : Expr} {tc tt : TExpr} : Sim req es c tc →
      (∀ v, evaluate req es [] c = .ok v → v = .prim (.bool true)) →
      (evaluate req es [] c = .ok (.prim (.bool true)) → Sim req es t tt) → Sim req es (.ite c t e) (.ite tc tt tt)
  | iteFalse {c t e : Expr} {tc te : TExpr} : Sim req es c tc →
      (∀ v, evaluate req es [] c = .ok v → v = .prim (.bool false)) →
      (evaluate req es [] c = .ok (.prim (.bool false)) → Sim req es e te) → Sim req es (.ite c t e) (.ite tc te te)
  | and {a b : Expr} {ta tb : TExpr} : Sim req es a ta →
      (evaluate req es [] a = .ok (.prim (.bool true)) → Sim req es b tb) → Sim req es (.and a b) (.and ta tb)
  | andFalse {a b : Expr} {ta : TExpr} : Sim req es a ta →
      (∀ v, evaluate req es [] a = .ok v → v = .prim (.bool false)) → Sim req es (.and a b) ta
  | or {a b : Expr} {ta tb : TExpr} : Sim req es a ta →
      (evaluate req es [] a = .ok (.prim (.bool false)) → Sim req es b tb) → Sim req es (.or a b) (.or ta tb)
  | orTrue {a b : Expr} {ta : TExpr} : Sim req es a ta →
      (∀ v, evaluate req es [] a = .ok v → v = .prim (.bool true)) → Sim req es (.or a b) ta
  | unary (op : UnaryOp) (ty : Option CedarType) {a : Expr} {ta : TExpr} : Sim req es a ta →
      Sim req es (.unaryApp op a) (.unaryApp op ty ta)
  | binary (op : BinaryOp) (ty1 ty2 : Option CedarType) {a b : Expr} {ta tb : TExpr} : FragOp op →
      Sim req es a ta → Sim req es b tb →
      NonRec (evaluate req es [] a) → NonRec (evaluate req es [] b) →
      Sim req es (.binaryApp op a b) (.binaryApp op ty1 ty2 ta tb)
  | getAttr (attr : String) {e : Expr} {te : TExpr} : Sim req es e te → Sim req es (.getAttr e attr) (.getAttr te attr)
  | hasAttr (attr : String) {e : Expr} {te : TExpr} : Sim req es e te → Sim req es (.hasAttr e attr) (.hasAttr te attr)
  | like (p : Pattern) {e : Expr} {te : TExpr} : Sim req es e te → Sim req es (.like e p) (.like te p)
  | is (ty : EntityType) {e : Expr} {te : TExpr} : Sim req es e te → Sim req es (.is e ty) (.is te ty)
  /-- extension function calls (all extension functions have one or two arguments): the arguments are not records and the
  result is a scalar (both follow from the typing: argument types are `String` / extension types, result types are
  extension types, `Bool`, `Long`) -/
  | call1 (fn : String) {a : Expr} {ta : TExpr} : Sim req es a ta → NonRec (evaluate req es [] a) →
      (∀ w, evaluate req es [] (.call fn [a]) = .ok w → Scalar w) → Sim req es (.call fn [a]) (.call fn [ta])
  | call2 (fn : String) {a b : Expr} {ta tb : TExpr} : Sim req es a ta → Sim req es b tb →
      NonRec (evaluate req es [] a) → NonRec (evaluate req es [] b) →
      (∀ w, evaluate req es [] (.call fn [a, b]) = .ok w → Scalar w) → Sim req es (.call fn [a, b]) (.call fn [ta, tb])

section main
variable {es es' : Entities} {req : Request}

/-- SOUNDNESS OF THE ANALYSIS on the core fragment, for an expression `e` and a typed AST `te` of it (`Sim`): a sub-store
covering the trie of `te` evaluates `e` — the ORIGINAL expression, including the parts the typechecker dropped — as the
full store does. -/
theorem eval_sim (hsub : SubStore es es') (hctx : CtxWF req) {e : Expr} {te : TExpr} (hsim : Sim req es e te) :
    ∀ (r : Res), manifestOfExpr te = .ok r → CoverRoots es es' req r.global →
      Rel es es' req r.paths (evaluate req es [] e) (evaluate req es' [] e) := by
  induction hsim with
  | lit p =>
    intro r hm _
    cases p with
    | entityUID u =>
      simp only [manifestOfExpr, Except.ok.injEq] at hm
      subst hm
      simp only [evaluate, Rel, Res.fromRoot]
      exact ⟨_, rfl, by simp [Trim], by simp [PCover, walk, rootVal]⟩
    | bool b =>
      simp only [manifestOfExpr, Except.ok.injEq] at hm
      subst hm
      simp only [evaluate, Rel, Res.default]
      exact ⟨_, rfl, by simp [Trim], by simp [PCover, Scalar]⟩
    | int n =>
      simp only [manifestOfExpr, Except.ok.injEq] at hm
      subst hm
      simp only [evaluate, Rel, Res.default]
      exact ⟨_, rfl, by simp [Trim], by simp [PCover, Scalar]⟩
    | string s =>
      simp only [manifestOfExpr, Except.ok.injEq] at hm
      subst hm
      simp only [evaluate, Rel, Res.default]
      exact ⟨_, rfl, by simp [Trim], by simp [PCover, Scalar]⟩
  | var x =>
    intro r hm _
    simp only [manifestOfExpr, Except.ok.injEq] at hm
    subst hm
    simp only [rootVal_var, Rel, Res.fromRoot]
    exact ⟨_, rfl, trim_rootVal hctx (.var x), by simp [PCover, walk]⟩
  | @ite c t e tc tt te _ _ _ ihc iht ihe =>
    intro r hm hc
    simp only [manifestOfExpr] at hm
    cases h1 : manifestOfExpr tc with
    | error x => simp [h1] at hm
    | ok rc =>
      cases h2 : manifestOfExpr tt with
      | error x => simp [h1, h2] at hm
      | ok rt =>
        cases h3 : manifestOfExpr te with
        | error x => simp [h1, h2, h3] at hm
        | ok re =>
          simp only [h1, h2, h3, Except.ok.injEq] at hm
          subst hm
          simp only [Res.union, Res.emptyPaths] at hc ⊢
          obtain ⟨hc12, hc3⟩ := coverRoots_union es es' req _ _ hc
          obtain ⟨hc1, hc2⟩ := coverRoots_union es es' req _ _ hc12
          have ihc := ihc rc h1 hc1
          simp only [evaluate]
          cases hv : evaluate req es [] c with
          | error x =>
            simp only [hv, Rel] at ihc
            simp only [ihc]; rfl
          | ok v =>
            simp only [hv, Rel] at ihc
            obtain ⟨v', e1, e2, _⟩ := ihc
            simp only [e1, trim_asBool e2]
            cases hb : v.asBool with
            | error x => rfl
            | ok b =>
              have hvb := asBool_ok hb
              subst hvb
              cases b with
              | true => exact (iht hv rt h2 hc2).mono (fun _ _ h => Or.inl (Or.inr h))
              | false => exact (ihe hv re h3 hc3).mono (fun _ _ h => Or.inr h)
  | @iteTrue c t e tc tt _ htrue _ ihc iht =>
    intro r hm hc
    simp only [manifestOfExpr] at hm
    cases h1 : manifestOfExpr tc with
    | error x => simp [h1] at hm
    | ok rc =>
      cases h2 : manifestOfExpr tt with
      | error x => simp [h1, h2] at hm
      | ok rt =>
        simp only [h1, h2, Except.ok.injEq] at hm
        subst hm
        simp only [Res.union, Res.emptyPaths] at hc ⊢
        obtain ⟨hc12, _⟩ := coverRoots_union es es' req _ _ hc
        obtain ⟨hc1, hc2⟩ := coverRoots_union es es' req _ _ hc12
        have ihc := ihc rc h1 hc1
        simp only [evaluate]
        cases hv : evaluate req es [] c with
        | error x =>
          simp only [hv, Rel] at ihc
          simp only [ihc]; rfl
        | ok v =>
          have hvt := htrue v hv
          subst hvt
          simp only [hv, Rel] at ihc
          obtain ⟨v', e1, e2, _⟩ := ihc
          have := trim_prim e2
          subst this
          simp only [e1, Value.asBool]
          refine Rel.mono (Q := .union (.union .empty rt.paths) rt.paths) (iht hv rt h2 hc2) (fun _ _ h => Or.inr h)
  | @iteFalse c t e tc te _ hfalse _ ihc ihe =>
    intro r hm hc
    simp only [manifestOfExpr] at hm
    cases h1 : manifestOfExpr tc with
    | error x => simp [h1] at hm
    | ok rc =>
      cases h2 : manifestOfExpr te with
      | error x => simp [h1, h2] at hm
      | ok re =>
        simp only [h1, h2, Except.ok.injEq] at hm
        subst hm
        simp only [Res.union, Res.emptyPaths] at hc ⊢
        obtain ⟨hc12, _⟩ := coverRoots_union es es' req _ _ hc
        obtain ⟨hc1, hc2⟩ := coverRoots_union es es' req _ _ hc12
        have ihc := ihc rc h1 hc1
        simp only [evaluate]
        cases hv : evaluate req es [] c with
        | error x =>
          simp only [hv, Rel] at ihc
          simp only [ihc]; rfl
        | ok v =>
          have hvt := hfalse v hv
          subst hvt
          simp only [hv, Rel] at ihc
          obtain ⟨v', e1, e2, _⟩ := ihc
          have := trim_prim e2
          subst this
          simp only [e1, Value.asBool]
          refine Rel.mono (Q := .union (.union .empty re.paths) re.paths) (ihe hv re h2 hc2) (fun _ _ h => Or.inr h)
  | @and a b ta tb _ _ iha ihb =>
    intro r hm hc
    simp only [manifestOfExpr, primPair] at hm
    cases h1 : manifestOfExpr ta with
    | error x => simp [h1] at hm
    | ok ra =>
      cases h2 : manifestOfExpr tb with
      | error x => simp [h1, h2] at hm
      | ok rb =>
        simp only [h1, h2, Except.ok.injEq] at hm
        subst hm
        simp only [Res.union, Res.emptyPaths] at hc ⊢
        obtain ⟨hc1, hc2⟩ := coverRoots_union es es' req _ _ hc
        have iha := iha ra h1 hc1
        simp only [evaluate]
        cases hv : evaluate req es [] a with
        | error x =>
          simp only [hv, Rel] at iha
          simp only [iha]; rfl
        | ok v =>
          simp only [hv, Rel] at iha
          obtain ⟨v', e1, e2, _⟩ := iha
          simp only [e1, trim_asBool e2]
          cases hb : v.asBool with
          | error x => rfl
          | ok bv =>
            have hvb := asBool_ok hb
            subst hvb
            cases bv with
            | false => exact ⟨_, rfl, by simp [Trim], Or.inl (scalar_bool false)⟩
            | true =>
              have ihb := ihb hv rb h2 hc2
              simp only
              cases hw : evaluate req es [] b with
              | error x =>
                simp only [hw, Rel] at ihb
                simp only [ihb]; rfl
              | ok w =>
                simp only [hw, Rel] at ihb
                obtain ⟨w', f1, f2, _⟩ := ihb
                simp only [f1, trim_asBool f2]
                cases hb2 : w.asBool with
                | error x => rfl
                | ok b2 => exact ⟨_, rfl, by simp [Trim], Or.inl (scalar_bool b2)⟩
  | @andFalse a b ta _ hfalse iha =>
    intro r hm hc
    have iha := iha r hm hc
    simp only [evaluate]
    cases hv : evaluate req es [] a with
    | error x =>
      simp only [hv, Rel] at iha
      simp only [iha]; rfl
    | ok v =>
      have hvt := hfalse v hv
      subst hvt
      simp only [hv, Rel] at iha
      obtain ⟨v', e1, e2, e3⟩ := iha
      have := trim_prim e2
      subst this
      simp only [e1, Value.asBool]
      exact ⟨_, rfl, by simp [Trim], e3⟩
  | @or a b ta tb _ _ iha ihb =>
    intro r hm hc
    simp only [manifestOfExpr, primPair] at hm
    cases h1 : manifestOfExpr ta with
    | error x => simp [h1] at hm
    | ok ra =>
      cases h2 : manifestOfExpr tb with
      | error x => simp [h1, h2] at hm
      | ok rb =>
        simp only [h1, h2, Except.ok.injEq] at hm
        subst hm
        simp only [Res.union, Res.emptyPaths] at hc ⊢
        obtain ⟨hc1, hc2⟩ := coverRoots_union es es' req _ _ hc
        have iha := iha ra h1 hc1
        simp only [evaluate]
        cases hv : evaluate req es [] a with
        | error x =>
          simp only [hv, Rel] at iha
          simp only [iha]; rfl
        | ok v =>
          simp only [hv, Rel] at iha
          obtain ⟨v', e1, e2, _⟩ := iha
          simp only [e1, trim_asBool e2]
          cases hb : v.asBool with
          | error x => rfl
          | ok bv =>
            have hvb := asBool_ok hb
            subst hvb
            cases bv with
            | true => exact ⟨_, rfl, by simp [Trim], Or.inl (scalar_bool true)⟩
            | false =>
              have ihb := ihb hv rb h2 hc2
              simp only
              cases hw : evaluate req es [] b with
              | error x =>
                simp only [hw, Rel] at ihb
                simp only [ihb]; rfl
              | ok w =>
                simp only [hw, Rel] at ihb
                obtain ⟨w', f1, f2, _⟩ := ihb
                simp only [f1, trim_asBool f2]
                cases hb2 : w.asBool with
                | error x => rfl
                | ok b2 => exact ⟨_, rfl, by simp [Trim], Or.inl (scalar_bool b2)⟩
  | @orTrue a b ta _ htrue iha =>
    intro r hm hc
    have iha := iha r hm hc
    simp only [evaluate]
    cases hv : evaluate req es [] a with
    | error x =>
      simp only [hv, Rel] at iha
      simp only [iha]; rfl
    | ok v =>
      have hvt := htrue v hv
      subst hvt
      simp only [hv, Rel] at iha
      obtain ⟨v', e1, e2, e3⟩ := iha
      have := trim_prim e2
      subst this
      simp only [e1, Value.asBool]
      exact ⟨_, rfl, by simp [Trim], e3⟩
  | @unary op ty a ta _ iha =>
    intro r hm hc
    have hm' : ∃ ra, manifestOfExpr ta = .ok ra ∧ r.paths = .empty ∧
        (CoverRoots es es' req r.global → CoverRoots es es' req ra.global) := by
      cases h1 : manifestOfExpr ta with
      | error x =>
        cases op with
        | not => simp [manifestOfExpr, h1] at hm
        | neg => simp [manifestOfExpr, h1] at hm
        | isEmpty =>
          simp only [manifestOfExpr, h1] at hm
          cases ht : needTy ty <;> simp [ht] at hm
      | ok ra =>
        refine ⟨ra, rfl, ?_⟩
        cases op with
        | not => simp only [manifestOfExpr, h1, Except.ok.injEq] at hm; subst hm; exact ⟨rfl, fun h => h⟩
        | neg => simp only [manifestOfExpr, h1, Except.ok.injEq] at hm; subst hm; exact ⟨rfl, fun h => h⟩
        | isEmpty =>
          simp only [manifestOfExpr, h1] at hm
          cases ht : needTy ty with
          | error x => simp [ht] at hm
          | ok t =>
            simp only [ht, Res.fullTypeRequired] at hm
            cases hp : ra.paths.fullTypeRequired t with
            | error x => simp [hp] at hm
            | ok p =>
              simp only [hp, Except.ok.injEq] at hm
              subst hm
              exact ⟨rfl, fun h => (coverRoots_union es es' req _ _ h).1⟩
    obtain ⟨ra, h1, hpaths, hcov⟩ := hm'
    have iha := iha ra h1 (hcov hc)
    simp only [evaluate, hpaths]
    cases hv : evaluate req es [] a with
    | error x =>
      simp only [hv, Rel] at iha
      simp only [iha]; rfl
    | ok v =>
      simp only [hv, Rel] at iha
      obtain ⟨v', e1, e2, _⟩ := iha
      simp only [e1, applyUnary_trim' op e2]
      exact rel_of_eq_scalar (fun w h => applyUnary_scalar op v w h) (fun _ _ h => h)
  | @binary op ty1 ty2 a b ta tb hop _ _ hna hnb iha ihb =>
    intro r hm hc
    obtain ⟨ra, rb, h1, h2, hcov, hscal⟩ := binary_manifest (es := es) (es' := es') (req := req) hop hm
    obtain ⟨hc1, hc2, hmemcov⟩ := hcov hc
    have iha := iha ra h1 hc1
    have ihb := ihb rb h2 hc2
    simp only [evaluate]
    cases hv : evaluate req es [] a with
    | error x =>
      simp only [hv, Rel] at iha
      simp only [iha]; rfl
    | ok v =>
      simp only [hv, Rel] at iha
      obtain ⟨v', e1, e2, hpv⟩ := iha
      have ev : v' = v := trim_nonrecord e2 (fun kvs h => hna kvs (by rw [hv, h]))
      subst ev
      simp only [e1]
      cases hw : evaluate req es [] b with
      | error x =>
        simp only [hw, Rel] at ihb
        simp only [ihb]; rfl
      | ok w =>
        simp only [hw, Rel] at ihb
        obtain ⟨w', f1, f2, hpw⟩ := ihb
        have ew : w' = w := trim_nonrecord f2 (fun kvs h => hnb kvs (by rw [hw, h]))
        subst ew
        simp only [f1]
        by_cases hmem : op = .mem
        · subst hmem
          have key : applyBinary es' .mem v' w' = applyBinary es .mem v' w' := by
            apply applyMem_sliced
            intro u1 x e1 hx
            subst e1
            exact inE_sliced hsub hctx _ u1 x (anc_of_pcover x rb.paths [] w' hpw hx) ra.paths hpv (hmemcov rfl)
          rw [key]
          exact rel_of_eq_scalar (fun r hr => applyMem_scalar es v' w' r hr) hscal
        · obtain ⟨g1, g2⟩ := applyBinary_nonmem es es' op hop hmem v' w'
          rw [g1]
          exact rel_of_eq_scalar g2 hscal
  | @getAttr a e te _ ihe =>
    intro r hm hc
    simp only [manifestOfExpr] at hm
    cases h1 : manifestOfExpr te with
    | error x => simp [h1] at hm
    | ok re =>
      simp only [h1, Res.getOrHasAttr] at hm
      cases hp : re.paths.getOrHasAttr a with
      | error x => simp [hp] at hm
      | ok p' =>
        simp only [hp, Except.ok.injEq] at hm
        subst hm
        simp only at hc ⊢
        obtain ⟨hc1, hcov⟩ := coverRoots_addWrapped es es' req false [] p' re.global hc
        have ihe := ihe re h1 hc1
        simp only [evaluate_getAttr]
        cases hv : evaluate req es [] e with
        | error x =>
          simp only [hv, Rel] at ihe
          simp only [ihe]; rfl
        | ok v =>
          simp only [hv, Rel] at ihe
          obtain ⟨v', e1, e2, e3⟩ := ihe
          simp only [e1]
          exact (get_has_rel hsub hctx a re.paths p' v v' hp e3 e2 hcov).2
  | @hasAttr a e te _ ihe =>
    intro r hm hc
    simp only [manifestOfExpr] at hm
    cases h1 : manifestOfExpr te with
    | error x => simp [h1] at hm
    | ok re =>
      simp only [h1, Res.getOrHasAttr] at hm
      cases hp : re.paths.getOrHasAttr a with
      | error x => simp [hp] at hm
      | ok p' =>
        simp only [hp, Except.ok.injEq] at hm
        subst hm
        simp only [Res.emptyPaths] at hc ⊢
        obtain ⟨hc1, hcov⟩ := coverRoots_addWrapped es es' req false [] p' re.global hc
        have ihe := ihe re h1 hc1
        simp only [evaluate_hasAttr]
        cases hv : evaluate req es [] e with
        | error x =>
          simp only [hv, Rel] at ihe
          simp only [ihe]; rfl
        | ok v =>
          simp only [hv, Rel] at ihe
          obtain ⟨v', e1, e2, e3⟩ := ihe
          simp only [e1]
          rw [(get_has_rel hsub hctx a re.paths p' v v' hp e3 e2 hcov).1]
          refine rel_of_eq_scalar ?_ (fun _ _ h => h)
          intro w hw
          cases v with
          | record kvs => simp only [hasV, Except.ok.injEq] at hw; subst hw; simp [Scalar]
          | prim p =>
            cases p with
            | entityUID u =>
              simp only [hasV] at hw
              cases hfu : es.find? u with
              | none => simp only [hfu, Except.ok.injEq] at hw; subst hw; simp [Scalar]
              | some d => simp only [hfu, Except.ok.injEq] at hw; subst hw; simp [Scalar]
            | bool b => simp [hasV] at hw
            | int n => simp [hasV] at hw
            | string s => simp [hasV] at hw
          | set s => simp [hasV] at hw
          | ext x => simp [hasV] at hw
  | @like p e te _ ihe =>
    intro r hm hc
    simp only [manifestOfExpr] at hm
    cases h1 : manifestOfExpr te with
    | error x => simp [h1] at hm
    | ok re =>
      simp only [h1, Except.ok.injEq] at hm
      subst hm
      simp only [Res.emptyPaths] at hc ⊢
      have ihe := ihe re h1 hc
      simp only [evaluate]
      cases hv : evaluate req es [] e with
      | error x =>
        simp only [hv, Rel] at ihe
        simp only [ihe]; rfl
      | ok v =>
        simp only [hv, Rel] at ihe
        obtain ⟨v', e1, e2, _⟩ := ihe
        simp only [e1, trim_asString e2]
        cases hsv : v.asString with
        | error x => rfl
        | ok s => exact ⟨_, rfl, by simp [Trim], scalar_bool _⟩
  | @is ty e te _ ihe =>
    intro r hm hc
    simp only [manifestOfExpr] at hm
    cases h1 : manifestOfExpr te with
    | error x => simp [h1] at hm
    | ok re =>
      simp only [h1, Except.ok.injEq] at hm
      subst hm
      simp only [Res.emptyPaths] at hc ⊢
      have ihe := ihe re h1 hc
      simp only [evaluate]
      cases hv : evaluate req es [] e with
      | error x =>
        simp only [hv, Rel] at ihe
        simp only [ihe]; rfl
      | ok v =>
        simp only [hv, Rel] at ihe
        obtain ⟨v', e1, e2, _⟩ := ihe
        simp only [e1, trim_asEntity e2]
        cases hsv : v.asEntity with
        | error x => rfl
        | ok s => exact ⟨_, rfl, by simp [Trim], scalar_bool _⟩
  | @call1 fn a ta _ hna hscal iha =>
    intro r hm hc
    simp only [manifestOfExpr, manifestUnionList] at hm
    cases h1 : manifestOfExpr ta with
    | error x => simp [h1] at hm
    | ok ra =>
      simp only [h1, Except.ok.injEq] at hm
      subst hm
      simp only [Res.union, Res.default] at hc ⊢
      obtain ⟨_, hc1⟩ := coverRoots_union es es' req _ _ hc
      have iha := iha ra h1 hc1
      have hsc := hscal
      simp only [evaluate, evaluateList] at hsc ⊢
      cases hv : evaluate req es [] a with
      | error x =>
        simp only [hv, Rel] at iha
        simp only [iha]; rfl
      | ok v =>
        simp only [hv, Rel] at iha
        obtain ⟨v', e1, e2, _⟩ := iha
        have ev : v' = v := trim_nonrecord e2 (fun kvs h => hna kvs (by rw [hv, h]))
        subst ev
        simp only [e1]
        simp only [hv] at hsc
        exact rel_of_eq_scalar hsc (fun _ _ h => Or.inl h)
  | @call2 fn a b ta tb _ _ hna hnb hscal iha ihb =>
    intro r hm hc
    simp only [manifestOfExpr, manifestUnionList] at hm
    cases h1 : manifestOfExpr ta with
    | error x => simp [h1] at hm
    | ok ra =>
      cases h2 : manifestOfExpr tb with
      | error x => simp [h1, h2] at hm
      | ok rb =>
        simp only [h1, h2, Except.ok.injEq] at hm
        subst hm
        simp only [Res.union, Res.default] at hc ⊢
        obtain ⟨hc12, hc2⟩ := coverRoots_union es es' req _ _ hc
        obtain ⟨_, hc1⟩ := coverRoots_union es es' req _ _ hc12
        have iha := iha ra h1 hc1
        have ihb := ihb rb h2 hc2
        have hsc := hscal
        simp only [evaluate, evaluateList] at hsc ⊢
        cases hv : evaluate req es [] a with
        | error x =>
          simp only [hv, Rel] at iha
          simp only [iha]; rfl
        | ok v =>
          simp only [hv, Rel] at iha
          obtain ⟨v', e1, e2, _⟩ := iha
          have ev : v' = v := trim_nonrecord e2 (fun kvs h => hna kvs (by rw [hv, h]))
          subst ev
          simp only [e1]
          cases hw : evaluate req es [] b with
          | error x =>
            simp only [hw, Rel] at ihb
            simp only [ihb]; rfl
          | ok w =>
            simp only [hw, Rel] at ihb
            obtain ⟨w', f1, f2, _⟩ := ihb
            have ew : w' = w := trim_nonrecord f2 (fun kvs h => hnb kvs (by rw [hw, h]))
            subst ew
            simp only [f1]
            simp only [hv, hw] at hsc
            exact rel_of_eq_scalar hsc (fun _ _ h => Or.inl (Or.inl h))

/-- a typed AST in the fragment whose binary operands are never records is a typed AST of its own erasure -/
theorem sim_of_safe : ∀ (e : TExpr), InFrag e → SafeOps req es e → Sim req es e.erase e
  | .lit p, _, _ => by simp only [TExpr.erase]; exact .lit p
  | .var x, _, _ => by simp only [TExpr.erase]; exact .var x
  | .ite c t e, hf, hs => by
    simp only [InFrag] at hf
    simp only [SafeOps] at hs
    simp only [TExpr.erase]
    exact .ite (sim_of_safe c hf.1 hs.1) (fun _ => sim_of_safe t hf.2.1 hs.2.1) (fun _ => sim_of_safe e hf.2.2 hs.2.2)
  | .and a b, hf, hs => by
    simp only [InFrag] at hf
    simp only [SafeOps] at hs
    simp only [TExpr.erase]
    exact .and (sim_of_safe a hf.1 hs.1) (fun _ => sim_of_safe b hf.2 hs.2)
  | .or a b, hf, hs => by
    simp only [InFrag] at hf
    simp only [SafeOps] at hs
    simp only [TExpr.erase]
    exact .or (sim_of_safe a hf.1 hs.1) (fun _ => sim_of_safe b hf.2 hs.2)
  | .unaryApp op ty a, hf, hs => by
    simp only [InFrag] at hf
    simp only [SafeOps] at hs
    simp only [TExpr.erase]
    exact .unary op ty (sim_of_safe a hf hs)
  | .binaryApp op ty1 ty2 a b, hf, hs => by
    simp only [InFrag] at hf
    simp only [SafeOps] at hs
    simp only [TExpr.erase]
    exact .binary op ty1 ty2 hf.1 (sim_of_safe a hf.2.1 hs.2.2.1) (sim_of_safe b hf.2.2 hs.2.2.2) hs.1 hs.2.1
  | .getAttr e a, hf, hs => by
    simp only [InFrag] at hf
    simp only [SafeOps] at hs
    simp only [TExpr.erase]
    exact .getAttr a (sim_of_safe e hf hs)
  | .hasAttr e a, hf, hs => by
    simp only [InFrag] at hf
    simp only [SafeOps] at hs
    simp only [TExpr.erase]
    exact .hasAttr a (sim_of_safe e hf hs)
  | .like e p, hf, hs => by
    simp only [InFrag] at hf
    simp only [SafeOps] at hs
    simp only [TExpr.erase]
    exact .like p (sim_of_safe e hf hs)
  | .is e ty, hf, hs => by
    simp only [InFrag] at hf
    simp only [SafeOps] at hs
    simp only [TExpr.erase]
    exact .is ty (sim_of_safe e hf hs)
  | .slot _, hf, _ => by simp [InFrag] at hf
  | .unknown _, hf, _ => by simp [InFrag] at hf
  | .call _ _, hf, _ => by simp [InFrag] at hf
  | .set _, hf, _ => by simp [InFrag] at hf
  | .record _, hf, _ => by simp [InFrag] at hf

/-- soundness of the analysis on the core fragment (typed AST whose erasure is the evaluated expression) -/
theorem eval_sliced (hsub : SubStore es es') (hctx : CtxWF req) (e : TExpr) (r : Res) (hf : InFrag e)
    (hs : SafeOps req es e) (hm : manifestOfExpr e = .ok r) (hc : CoverRoots es es' req r.global) :
    Rel es es' req r.paths (evaluate req es [] e.erase) (evaluate req es' [] e.erase) :=
  eval_sim hsub hctx (sim_of_safe e hf hs) r hm hc

end main

end Cedar.Manifest

namespace Cedar.Manifest
open Cedar

/-- the response depends on the store only through the policies' outcomes -/
theorem isAuthorized_congr (req : Request) (es es' : Entities) (ps : List Policy)
    (h : ∀ p, p ∈ ps → p.outcome req es' = p.outcome req es) :
    isAuthorized req es' ps = isAuthorized req es ps := by
  have key : ∀ (ps : List Policy) (b : Buckets), (∀ p, p ∈ ps → p.outcome req es' = p.outcome req es) →
      ps.foldl (Buckets.step req es') b = ps.foldl (Buckets.step req es) b := by
    intro ps
    induction ps with
    | nil => intro b _; rfl
    | cons p ps ih =>
      intro b hp
      have h1 : Buckets.step req es' b p = Buckets.step req es b p := by
        simp only [Buckets.step, hp p (by simp)]
      simp only [List.foldl_cons, h1]
      exact ih _ (fun q hq => hp q (by simp [hq]))
  simp only [isAuthorized, key ps {} h]

/-- the trie of a policy set (for one request type): the union of the policies' tries, in order -/
def unionAll (gs : List RootAccessTrie) : RootAccessTrie := gs.foldl unionRoots []

theorem coverRoots_foldl (es es' : Entities) (req : Request) : ∀ (gs : List RootAccessTrie) (acc : RootAccessTrie),
    CoverRoots es es' req (gs.foldl unionRoots acc) → CoverRoots es es' req acc ∧ ∀ g, g ∈ gs → CoverRoots es es' req g
  | [], acc, h => ⟨h, by simp⟩
  | g :: gs, acc, h => by
    simp only [List.foldl_cons] at h
    obtain ⟨h1, h2⟩ := coverRoots_foldl es es' req gs _ h
    obtain ⟨h3, h4⟩ := coverRoots_union es es' req g acc h1
    refine ⟨h3, ?_⟩
    intro g' hg'
    simp only [List.mem_cons] at hg'
    rcases hg' with e | e
    · subst e; exact h4
    · exact h2 g' e

/-- a store covering the trie of the whole set covers the trie of each policy -/
theorem coverRoots_unionAll (es es' : Entities) (req : Request) (gs : List RootAccessTrie)
    (h : CoverRoots es es' req (unionAll gs)) : ∀ g, g ∈ gs → CoverRoots es es' req g :=
  (coverRoots_foldl es es' req gs [] h).2

/-- `Policy::outcome` as a function of the evaluation result -/
def outcomeOf (r : Result Value) : Outcome :=
  match r with
  | .error _ => .err
  | .ok v => match v.asBool with
    | .ok true => .sat
    | .ok false => .unsat
    | .error _ => .err

theorem outcome_eq_outcomeOf (p : Policy) (req : Request) (es : Entities) :
    p.outcome req es = outcomeOf (evaluate req es p.env p.condition) := by
  unfold Policy.outcome outcomeOf
  cases evaluate req es p.env p.condition with
  | error x => rfl
  | ok v => cases v.asBool with
    | error x => rfl
    | ok b => cases b <;> rfl

/-- related results have the same policy outcome -/
theorem outcome_of_rel {es es' : Entities} {req : Request} {P : WPaths} {r r' : Result Value} (h : Rel es es' req P r r') :
    outcomeOf r' = outcomeOf r := by
  cases r with
  | error x => simp only [Rel] at h; subst h; rfl
  | ok v =>
    obtain ⟨v', e1, e2, _⟩ := h
    subst e1
    simp only [outcomeOf, trim_asBool e2]

end Cedar.Manifest
