import CedarVerif.Cedar.Json.Value
/-
C10 / C07, IPv6 literals, part 2: the arithmetic / list side of `Display for Ipv6Addr` —
`zeroRun` returns a run of zero segments inside the list, and the eight segments of an address put together with
`groupsToNat` give the address back.
-/
namespace Cedar
namespace CJson
open Ext Ext.IPAddr

/-! ### `zeroRun` -/

/-- the loop body of `zeroRun` -/
def v6_runStep (st : Nat × Nat × Nat × Nat × Nat) (seg : Nat) : Nat × Nat × Nat × Nat × Nat :=
  let (i, ls, ll, cs, cl) := st
  if seg = 0 then
    let cs := if cl = 0 then i else cs
    let cl := cl + 1
    if cl > ll then (i + 1, cs, cl, cs, cl) else (i + 1, ls, ll, cs, cl)
  else (i + 1, ls, ll, 0, 0)

theorem zeroRun_eq (segs : List Nat) :
    zeroRun segs = ((segs.foldl v6_runStep (0, 0, 0, 0, 0)).2.1, (segs.foldl v6_runStep (0, 0, 0, 0, 0)).2.2.1) := rfl

/-- loop invariant: `(i, ls, ll, cs, cl)` after the prefix `pre` -/
structure v6_RunInv (pre : List Nat) (st : Nat × Nat × Nat × Nat × Nat) : Prop where
  idx : st.1 = pre.length
  best : st.2.1 + st.2.2.1 ≤ pre.length
  bestZ : ∀ j, st.2.1 ≤ j → j < st.2.1 + st.2.2.1 → pre[j]? = some 0
  cur : 0 < st.2.2.2.2 → st.2.2.2.1 + st.2.2.2.2 = pre.length
  curZ : 0 < st.2.2.2.2 → ∀ j, st.2.2.2.1 ≤ j → j < pre.length → pre[j]? = some 0

theorem v6_get_snoc_lt (pre : List Nat) (seg j : Nat) (h : j < pre.length) : (pre ++ [seg])[j]? = pre[j]? :=
  List.getElem?_append_left h

theorem v6_get_snoc_zero (pre : List Nat) (j : Nat) (h : j < pre.length + 1)
    (hz : j < pre.length → pre[j]? = some 0) : (pre ++ [0])[j]? = some 0 := by
  by_cases hj : j < pre.length
  · rw [v6_get_snoc_lt pre 0 j hj]; exact hz hj
  · have : j = pre.length := by omega
    subst this; simp

theorem v6_RunInv_step (pre : List Nat) (st : Nat × Nat × Nat × Nat × Nat) (seg : Nat) (h : v6_RunInv pre st) :
    v6_RunInv (pre ++ [seg]) (v6_runStep st seg) := by
  obtain ⟨i, ls, ll, cs, cl⟩ := st
  obtain ⟨hidx, hbest, hbestZ, hcur, hcurZ⟩ := h
  simp only at hidx hbest hbestZ hcur hcurZ
  have hbestZ' : ∀ j, ls ≤ j → j < ls + ll → (pre ++ [seg])[j]? = some 0 := by
    intro j h1 h2
    rw [v6_get_snoc_lt pre seg j (by omega)]; exact hbestZ j h1 h2
  simp only [v6_runStep]
  by_cases hseg : seg = 0
  · subst hseg
    simp only [if_true]
    -- the current run after this segment
    have hcs : (if cl = 0 then i else cs) + (cl + 1) = pre.length + 1 := by
      by_cases h0 : cl = 0
      · simp only [h0, if_true]; omega
      · simp only [h0, if_false]; have := hcur (by omega); omega
    have hcsZ : ∀ j, (if cl = 0 then i else cs) ≤ j → j < pre.length + 1 → (pre ++ [0])[j]? = some 0 := by
      intro j h1 h2
      apply v6_get_snoc_zero pre j h2
      intro hj
      by_cases h0 : cl = 0
      · simp only [h0, if_true] at h1; omega
      · simp only [h0, if_false] at h1; exact hcurZ (by omega) j h1 hj
    by_cases hgt : cl + 1 > ll
    · simp only [hgt, if_true]
      refine ⟨by simp [hidx], by simp; omega, ?_, ?_, ?_⟩
      · intro j h1 h2; exact hcsZ j h1 (by simp only at h2; omega)
      · intro _; simp; omega
      · intro _ j h1 h2; exact hcsZ j h1 (by simpa using h2)
    · simp only [hgt, if_false]
      refine ⟨by simp [hidx], by simp; omega, hbestZ', ?_, ?_⟩
      · intro _; simp; omega
      · intro _ j h1 h2; exact hcsZ j h1 (by simpa using h2)
  · simp only [hseg, if_false]
    refine ⟨by simp [hidx], by simp; omega, hbestZ', ?_, ?_⟩
    · intro h0; simp at h0
    · intro h0; simp at h0

theorem v6_RunInv_foldl (rest : List Nat) : ∀ (pre : List Nat) (st : Nat × Nat × Nat × Nat × Nat),
    v6_RunInv pre st → v6_RunInv (pre ++ rest) (rest.foldl v6_runStep st) := by
  induction rest with
  | nil => intro pre st h; simpa using h
  | cons seg rest ih =>
    intro pre st h
    have := ih (pre ++ [seg]) (v6_runStep st seg) (v6_RunInv_step pre st seg h)
    simpa using this

theorem v6_RunInv_init : v6_RunInv [] (0, 0, 0, 0, 0) :=
  ⟨rfl, by simp, by intro j _ h; simp at h, by intro h; simp at h, by intro h; simp at h⟩

/-- a stretch of zeros inside a list, cut out -/
theorem v6_split_zero (segs : List Nat) (s l : Nat) (_h1 : s + l ≤ segs.length)
    (hz : ∀ j, s ≤ j → j < s + l → segs[j]? = some 0) :
    segs = segs.take s ++ (List.replicate l 0 ++ segs.drop (s + l)) := by
  have e1 : (segs.drop s).take l = List.replicate l 0 := by
    apply List.ext_getElem?
    intro k
    rw [List.getElem?_take, List.getElem?_replicate]
    by_cases hk : k < l
    · simp only [hk, if_true, List.getElem?_drop]
      exact hz (s + k) (by omega) (by omega)
    · simp only [hk, if_false]
  have e2 : (segs.drop s).drop l = segs.drop (s + l) := by
    rw [List.drop_drop]
  calc segs = segs.take s ++ segs.drop s := (List.take_append_drop s segs).symm
    _ = segs.take s ++ ((segs.drop s).take l ++ (segs.drop s).drop l) := by rw [List.take_append_drop l (segs.drop s)]
    _ = _ := by rw [e1, e2]

/-- **`zeroRun`** returns a run of zeros lying inside the list -/
theorem zeroRun_spec (segs : List Nat) :
    (zeroRun segs).1 + (zeroRun segs).2 ≤ segs.length ∧
      segs = segs.take (zeroRun segs).1 ++
        (List.replicate (zeroRun segs).2 0 ++ segs.drop ((zeroRun segs).1 + (zeroRun segs).2)) := by
  have h := v6_RunInv_foldl segs [] (0, 0, 0, 0, 0) v6_RunInv_init
  rw [List.nil_append] at h
  rw [zeroRun_eq]
  exact ⟨h.best, v6_split_zero segs _ _ h.best h.bestZ⟩

example : zeroRun [1, 0, 0, 2, 0, 0, 0, 3] = (4, 3) := by decide
example : zeroRun [0, 0, 1, 0, 0, 2, 3, 4] = (0, 2) := by decide

/-! ### the eight segments -/

theorem v6_div_pow (a k : Nat) : a / 65536 ^ (k + 1) = a / 65536 ^ k / 65536 := by
  rw [Nat.pow_succ, Nat.div_div_eq_div_mul]

theorem v6Segments_length (a : Nat) : (v6Segments a).length = 8 := rfl

theorem v6Segments_lt (a g : Nat) (h : g ∈ v6Segments a) : g < 65536 := by
  simp only [v6Segments, List.mem_cons, List.not_mem_nil, or_false] at h
  rcases h with rfl | rfl | rfl | rfl | rfl | rfl | rfl | rfl <;> exact Nat.mod_lt _ (by decide)

/-- the segments of a 128-bit number put together again -/
theorem groupsToNat_v6Segments (a : Nat) (ha : a < 2 ^ 128) : groupsToNat (v6Segments a) = a := by
  have h7 : a / 65536 ^ 7 = a / 65536 ^ 6 / 65536 := v6_div_pow a 6
  have h6 : a / 65536 ^ 6 = a / 65536 ^ 5 / 65536 := v6_div_pow a 5
  have h5 : a / 65536 ^ 5 = a / 65536 ^ 4 / 65536 := v6_div_pow a 4
  have h4 : a / 65536 ^ 4 = a / 65536 ^ 3 / 65536 := v6_div_pow a 3
  have h3 : a / 65536 ^ 3 = a / 65536 ^ 2 / 65536 := v6_div_pow a 2
  have h2 : a / 65536 ^ 2 = a / 65536 / 65536 := by
    have := v6_div_pow a 1
    rwa [Nat.pow_one] at this
  have hp : (2 : Nat) ^ 128 = 340282366920938463463374607431768211456 := by decide
  rw [hp] at ha
  simp only [v6Segments, groupsToNat, List.foldl_cons, List.foldl_nil]
  rw [h7, h6, h5, h4, h3, h2]
  clear h7 h6 h5 h4 h3 h2
  omega

end CJson
end Cedar
