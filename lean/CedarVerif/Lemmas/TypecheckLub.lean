import CedarVerif.Lemmas.TypecheckSub
/-
C03: least upper bounds in strict mode — every instance of either argument is an instance of the bound; the bound of
two types that mention single entity types only does so too.
-/
namespace Cedar.C03

open Cedar

/-- the rows of `Type::least_upper_bound` in strict mode -/
inductive LubCase : CedarType → CedarType → CedarType → Prop
  | sub_l {a b} : isSubtype .strict a b = true → LubCase a b b
  | sub_r {a b} : isSubtype .strict b a = true → LubCase a b a
  | bool {x y} : LubCase (.bool x) (.bool y) (.bool .anyBool)
  | anySet {x y} : LubCase (.set x) (.set y) (.set none)
  | set {e0 e1 t} : lub .strict e0 e1 = some t → LubCase (.set (some e0)) (.set (some e1)) (.set (some t))
  | record {a0 o0 a1 o1 attrs} : sameKeys a0 a1 = true → lubAttrsStrict .strict a0 a1 = some attrs →
      LubCase (.record a0 o0) (.record a1 o1)
        (.record attrs (o0 || o1 || !(a0.all (fun a => (attrs.map (·.1)).contains a.1) && a1.all (fun a => (attrs.map (·.1)).contains a.1))))

theorem lub_cases {a b c : CedarType} (h : lub .strict a b = some c) : LubCase a b c := by
  rw [lub.eq_def] at h
  simp only at h
  split at h
  · rename_i hs; cases h; exact .sub_l hs
  · split at h
    · rename_i hs; cases h; exact .sub_r hs
    · split at h
      · cases h; exact .bool
      · cases h; exact .anySet
      · cases h; exact .anySet
      · rename_i e0 e1 _ _
        cases hl : lub .strict e0 e1 with
        | none => rw [hl] at h; cases h
        | some t => rw [hl] at h; cases h; exact .set hl
      · rename_i a0 o0 a1 o1 _ _
        simp only [ValidationMode.isStrict, if_true] at h
        by_cases hk : sameKeys a0 a1 = true
        · rw [if_pos hk] at h
          cases hl : lubAttrsStrict .strict a0 a1 with
          | none => rw [hl] at h; cases h
          | some attrs => rw [hl] at h; cases h; exact .record hk hl
        · rw [if_neg hk] at h; cases h
      · simp [ValidationMode.isStrict] at h
      · simp [ValidationMode.isStrict] at h
      · simp [ValidationMode.isStrict] at h
      · cases h

theorem lubAttrsStrict_spec {a1 : Attrs} : ∀ {a0 attrs : Attrs}, lubAttrsStrict .strict a0 a1 = some attrs →
    attrs.map (·.1) = a0.map (·.1) ∧
    (∀ k r t, Attrs.find? attrs k = some (r, t) →
      ∃ t0 t1, Attrs.find? a0 k = some (r, t0) ∧ Attrs.find? a1 k = some (r, t1) ∧ lub .strict t0 t1 = some t) ∧
    (∀ k r t, (k, r, t) ∈ attrs → ∃ t0 t1, (k, r, t0) ∈ a0 ∧ (k, r, t1) ∈ a1 ∧ lub .strict t0 t1 = some t)
  | [], attrs, h => by
    simp only [lubAttrsStrict, Option.some.injEq] at h
    subst h
    exact ⟨rfl, fun k r t hf => by simp [Attrs.find?] at hf, fun k r t hm => by cases hm⟩
  | (k0, r0, t0) :: rest, attrs, h => by
    simp only [lubAttrsStrict] at h
    cases hf1 : Attrs.find? a1 k0 with
    | none => rw [hf1] at h; cases h
    | some qt =>
      obtain ⟨r1, t1⟩ := qt
      rw [hf1] at h
      simp only at h
      cases hl : lub .strict t0 t1 with
      | none => rw [hl] at h; simp at h
      | some t =>
        cases hr : lubAttrsStrict .strict rest a1 with
        | none => rw [hl, hr] at h; simp at h
        | some rest' =>
          rw [hl, hr] at h
          simp only at h
          split at h
          · rename_i hreq
            simp only [beq_iff_eq] at hreq
            subst hreq
            simp only [Bool.and_self, Option.some.injEq] at h
            subst h
            obtain ⟨ih1, ih2, ih3⟩ := lubAttrsStrict_spec hr
            refine ⟨by simp [ih1], ?_, ?_⟩
            · intro k r t' hf
              simp only [Attrs.find?] at hf
              split at hf
              · rename_i hk
                simp only [Option.some.injEq, Prod.mk.injEq] at hf
                obtain ⟨rfl, rfl⟩ := hf
                simp only [beq_iff_eq] at hk
                subst hk
                exact ⟨t0, t1, by simp [Attrs.find?], hf1, hl⟩
              · rename_i hk
                obtain ⟨t0', t1', h1, h2, h3⟩ := ih2 k r t' hf
                exact ⟨t0', t1', by simp only [Attrs.find?, hk]; exact h1, h2, h3⟩
            · intro k r t' hm
              rcases List.mem_cons.mp hm with heq | hm'
              · simp only [Prod.mk.injEq] at heq
                obtain ⟨rfl, rfl, rfl⟩ := heq
                exact ⟨t0, t1, List.mem_cons_self, find_mem hf1, hl⟩
              · obtain ⟨t0', t1', h1, h2, h3⟩ := ih3 k r t' hm'
                exact ⟨t0', t1', List.mem_cons_of_mem _ h1, h2, h3⟩
          · cases h

theorem inst_record_lub {kvs : List (String × Value)} {a0 a1 attrs : Attrs} {o0 o1 : Bool}
    (hk : sameKeys a0 a1 = true) (hl : lubAttrsStrict .strict a0 a1 = some attrs)
    (h2 : ∀ k v, (k, v) ∈ kvs → Attrs.find? a0 k = none → (o0 || o1) = true)
    (h3 : ∀ k t, (k, true, t) ∈ attrs → ∃ v, (k, v) ∈ kvs)
    (h1 : ∀ k v, (k, v) ∈ kvs → ∀ r t, Attrs.find? attrs k = some (r, t) → InstanceOfType v t) :
    InstanceOfType (.record kvs) (.record attrs (o0 || o1 || !(a0.all (fun a => (attrs.map (·.1)).contains a.1) && a1.all (fun a => (attrs.map (·.1)).contains a.1)))) := by
  have _ := hk
  obtain ⟨hkeys, _, _⟩ := lubAttrsStrict_spec hl
  refine .record kvs attrs _ h1 ?_ h3
  intro k v hkv hf
  have : Attrs.find? a0 k = none := by rw [find_none_iff] at hf ⊢; rw [← hkeys]; exact hf
  rw [h2 k v hkv this]; rfl

theorem lub_inst_l {v : Value} {a : CedarType} (hi : InstanceOfType v a) :
    ∀ b c, lub .strict a b = some c → InstanceOfType v c := by
  induction hi with
  | anyBool x =>
    intro b c h; cases lub_cases h
    case sub_l hs => exact isSubtype_inst (.anyBool x) _ hs
    case sub_r hs => exact .anyBool x
    case bool => exact .anyBool x
  | tt =>
    intro b c h; cases lub_cases h
    case sub_l hs => exact isSubtype_inst .tt _ hs
    case sub_r hs => exact .tt
    case bool => exact .anyBool _
  | ff =>
    intro b c h; cases lub_cases h
    case sub_l hs => exact isSubtype_inst .ff _ hs
    case sub_r hs => exact .ff
    case bool => exact .anyBool _
  | long i =>
    intro b c h; cases lub_cases h
    case sub_l hs => exact isSubtype_inst (.long i) _ hs
    case sub_r hs => exact .long i
  | string i =>
    intro b c h; cases lub_cases h
    case sub_l hs => exact isSubtype_inst (.string i) _ hs
    case sub_r hs => exact .string i
  | entity u l hm =>
    intro b c h; cases lub_cases h
    case sub_l hs => exact isSubtype_inst (.entity u l hm) _ hs
    case sub_r hs => exact .entity u l hm
  | anyEntity u =>
    intro b c h; cases lub_cases h
    case sub_l hs => exact isSubtype_inst (.anyEntity u) _ hs
    case sub_r hs => exact .anyEntity u
  | ext x =>
    intro b c h; cases lub_cases h
    case sub_l hs => exact isSubtype_inst (.ext x) _ hs
    case sub_r hs => exact .ext x
  | anySet vs =>
    intro b c h; cases lub_cases h
    case sub_l hs => exact isSubtype_inst (.anySet vs) _ hs
    case sub_r hs => exact .anySet vs
    case anySet => exact .anySet vs
  | set vs t hall ih =>
    intro b c h; cases lub_cases h
    case sub_l hs => exact isSubtype_inst (.set vs t hall) _ hs
    case sub_r hs => exact .set vs t hall
    case anySet => exact .anySet vs
    case set hl => exact .set vs _ (fun v hv => ih v hv _ _ hl)
  | record kvs attrs o h1 h2 h3 ih =>
    intro b c h; cases lub_cases h
    case sub_l hs => exact isSubtype_inst (.record kvs attrs o h1 h2 h3) _ hs
    case sub_r hs => exact .record kvs attrs o h1 h2 h3
    case record a1 o1 attrs' hk hl =>
      obtain ⟨_, hfind, hmem⟩ := lubAttrsStrict_spec hl
      refine inst_record_lub hk hl ?_ ?_ ?_
      · intro k v hkv hf; rw [h2 k v hkv hf]; rfl
      · intro k t hm
        obtain ⟨t0, _, hm0, _, _⟩ := hmem k true t hm
        exact h3 k t0 hm0
      · intro k v hkv r t hf
        obtain ⟨t0, t1, hf0, _, hlt⟩ := hfind k r t hf
        exact ih k v hkv r t0 hf0 t1 t hlt

theorem lub_inst_r {v : Value} {b : CedarType} (hi : InstanceOfType v b) :
    ∀ a c, lub .strict a b = some c → InstanceOfType v c := by
  induction hi with
  | anyBool x =>
    intro a c h; cases lub_cases h
    case sub_r hs => exact isSubtype_inst (.anyBool x) _ hs
    case sub_l hs => exact .anyBool x
    case bool => exact .anyBool x
  | tt =>
    intro a c h; cases lub_cases h
    case sub_r hs => exact isSubtype_inst .tt _ hs
    case sub_l hs => exact .tt
    case bool => exact .anyBool _
  | ff =>
    intro a c h; cases lub_cases h
    case sub_r hs => exact isSubtype_inst .ff _ hs
    case sub_l hs => exact .ff
    case bool => exact .anyBool _
  | long i =>
    intro a c h; cases lub_cases h
    case sub_r hs => exact isSubtype_inst (.long i) _ hs
    case sub_l hs => exact .long i
  | string i =>
    intro a c h; cases lub_cases h
    case sub_r hs => exact isSubtype_inst (.string i) _ hs
    case sub_l hs => exact .string i
  | entity u l hm =>
    intro a c h; cases lub_cases h
    case sub_r hs => exact isSubtype_inst (.entity u l hm) _ hs
    case sub_l hs => exact .entity u l hm
  | anyEntity u =>
    intro a c h; cases lub_cases h
    case sub_r hs => exact isSubtype_inst (.anyEntity u) _ hs
    case sub_l hs => exact .anyEntity u
  | ext x =>
    intro a c h; cases lub_cases h
    case sub_r hs => exact isSubtype_inst (.ext x) _ hs
    case sub_l hs => exact .ext x
  | anySet vs =>
    intro a c h; cases lub_cases h
    case sub_r hs => exact isSubtype_inst (.anySet vs) _ hs
    case sub_l hs => exact .anySet vs
    case anySet => exact .anySet vs
  | set vs t hall ih =>
    intro a c h; cases lub_cases h
    case sub_r hs => exact isSubtype_inst (.set vs t hall) _ hs
    case sub_l hs => exact .set vs t hall
    case anySet => exact .anySet vs
    case set hl => exact .set vs _ (fun v hv => ih v hv _ _ hl)
  | record kvs attrs o h1 h2 h3 ih =>
    intro a c h; cases lub_cases h
    case sub_r hs => exact isSubtype_inst (.record kvs attrs o h1 h2 h3) _ hs
    case sub_l hs => exact .record kvs attrs o h1 h2 h3
    case record a0 o0 attrs' hk hl =>
      obtain ⟨_, hfind, hmem⟩ := lubAttrsStrict_spec hl
      refine inst_record_lub hk hl ?_ ?_ ?_
      · intro k v hkv hf
        rw [h2 k v hkv ((sameKeys_find_none hk).mp hf)]; simp
      · intro k t hm
        obtain ⟨_, t1, _, hm1, _⟩ := hmem k true t hm
        exact h3 k t1 hm1
      · intro k v hkv r t hf
        obtain ⟨t0, t1, _, hf1, hlt⟩ := hfind k r t hf
        exact ih k v hkv r t1 hf1 t0 t hlt

theorem lub_tt {a b : CedarType} (h : lub .strict a b = some (.bool .tt)) :
    (a = .bool .tt ∨ a = .never) ∧ (b = .bool .tt ∨ b = .never) := by
  generalize hc : CedarType.bool .tt = c at h
  cases lub_cases h
  case sub_l hs => subst hc; exact ⟨subtype_tt hs, Or.inl rfl⟩
  case sub_r hs => subst hc; exact ⟨Or.inl rfl, subtype_tt hs⟩
  all_goals cases hc

theorem monoAttrs_iff {attrs : Attrs} : monoAttrs attrs = true ↔ ∀ k r t, (k, r, t) ∈ attrs → t.mono = true := by
  induction attrs with
  | nil => simp [monoAttrs]
  | cons a rest ih =>
    obtain ⟨k, r, t⟩ := a
    simp only [monoAttrs, Bool.and_eq_true, ih, List.mem_cons, Prod.mk.injEq]
    constructor
    · rintro ⟨h1, h2⟩ k' r' t' (⟨_, _, rfl⟩ | hm)
      · exact h1
      · exact h2 k' r' t' hm
    · intro h
      exact ⟨h k r t (Or.inl ⟨rfl, rfl, rfl⟩), fun k' r' t' hm => h k' r' t' (Or.inr hm)⟩

theorem subtype_mono {a b : CedarType} (hs : isSubtype .strict a b = true) (ha : a.mono = true) : b ≠ .never := by
  intro hb; subst hb
  cases a <;> simp [isSubtype, CedarType.mono] at hs ha

theorem lub_mono_aux : ∀ (n : Nat) (a b c : CedarType), sizeOf a < n → lub .strict a b = some c → a.mono = true → b.mono = true →
    c.mono = true := by
  intro n
  induction n with
  | zero => intro a b c hn; omega
  | succ n ih =>
    intro a b c hn h ha hb
    cases lub_cases h
    case sub_l hs => exact hb
    case sub_r hs => exact ha
    case bool => rfl
    case anySet => rfl
    case set e0 e1 t hl =>
      simp only [CedarType.mono] at ha hb ⊢
      refine ih e0 e1 t ?_ hl ha hb
      simp at hn; omega
    case record a0 o0 a1 o1 attrs hk hl =>
      simp only [CedarType.mono] at ha hb ⊢
      obtain ⟨_, _, hmem⟩ := lubAttrsStrict_spec hl
      rw [monoAttrs_iff] at ha hb ⊢
      intro k r t hm
      obtain ⟨t0, t1, hm0, hm1, hlt⟩ := hmem k r t hm
      refine ih t0 t1 t ?_ hlt (ha k r t0 hm0) (hb k r t1 hm1)
      have := List.sizeOf_lt_of_mem hm0
      simp at this hn
      omega

/-- the strict least upper bound of two types without entity-type unions / `Never` has none either -/
theorem lub_mono {a b c : CedarType} (h : lub .strict a b = some c) (ha : a.mono = true) (hb : b.mono = true) : c.mono = true :=
  lub_mono_aux (sizeOf a + 1) a b c (Nat.lt_succ_self _) h ha hb

/-! ### `reduce_to_least_upper_bound` -/

theorem lub_never_l {b c : CedarType} (h : lub .strict .never b = some c) : c = b := by
  rw [lub.eq_def] at h
  simp [isSubtype] at h
  exact h.symm

theorem foldl_lub_none (ts : List CedarType) :
    ts.foldl (fun acc t => acc.bind (fun a => lub .strict a t)) none = none := by
  induction ts with
  | nil => rfl
  | cons t ts ih => simpa using ih

theorem foldl_lub_spec : ∀ (ts : List CedarType) (acc τ : CedarType),
    ts.foldl (fun acc t => acc.bind (fun a => lub .strict a t)) (some acc) = some τ →
    (∀ v, InstanceOfType v acc → InstanceOfType v τ) ∧ (∀ t, t ∈ ts → ∀ v, InstanceOfType v t → InstanceOfType v τ) ∧
    (acc.mono = true → (∀ t, t ∈ ts → t.mono = true) → τ.mono = true)
  | [], acc, τ, h => by
    simp only [List.foldl_nil, Option.some.injEq] at h
    subst h
    exact ⟨fun v hv => hv, fun t ht => (by cases ht), fun h _ => h⟩
  | t :: ts, acc, τ, h => by
    simp only [List.foldl_cons, Option.bind_some] at h
    cases hl : lub .strict acc t with
    | none => rw [hl, foldl_lub_none] at h; cases h
    | some acc' =>
      rw [hl] at h
      obtain ⟨h1, h2, h3⟩ := foldl_lub_spec ts acc' τ h
      refine ⟨fun v hv => h1 v (lub_inst_l hv _ _ hl), ?_, ?_⟩
      · intro t' ht' v hv
        rcases List.mem_cons.mp ht' with rfl | ht'
        · exact h1 v (lub_inst_r hv _ _ hl)
        · exact h2 t' ht' v hv
      · intro hm hall
        exact h3 (lub_mono hl hm (hall t List.mem_cons_self)) (fun t' ht' => hall t' (List.mem_cons_of_mem _ ht'))

/-- `lubAll` of a non-empty list: every element type is below the result, which is `mono` if all elements are -/
theorem lubAll_spec {ts : List CedarType} {τ : CedarType} (h : lubAll .strict ts = some τ) (hne : ts ≠ []) :
    (∀ t, t ∈ ts → ∀ v, InstanceOfType v t → InstanceOfType v τ) ∧ ((∀ t, t ∈ ts → t.mono = true) → τ.mono = true) := by
  cases ts with
  | nil => exact (hne rfl).elim
  | cons t ts =>
    unfold lubAll at h
    simp only [List.foldl_cons, Option.bind_some] at h
    cases hl : lub .strict .never t with
    | none => rw [hl, foldl_lub_none] at h; cases h
    | some acc =>
      rw [hl] at h
      have := lub_never_l hl; subst this
      obtain ⟨h1, h2, h3⟩ := foldl_lub_spec ts acc τ h
      refine ⟨?_, fun hall => h3 (hall acc List.mem_cons_self) (fun t' ht' => hall t' (List.mem_cons_of_mem _ ht'))⟩
      intro t' ht' v hv
      rcases List.mem_cons.mp ht' with rfl | ht'
      · exact h1 v hv
      · exact h2 t' ht' v hv

end Cedar.C03
