import CedarVerif.Lemmas.TCCycle
import CedarVerif.Lemmas.TCFrom
/-
Lemmas for C04, part 8: an ACCEPTED add/upsert has an acyclic parent graph.
`Frame s0 s1 t`: every record of the store handed to `repair_tc` that is not touched is a record of the
original store (which satisfies the invariant). This is all the cycle check needs from the bookkeeping of
`add_entities` / `upsert_entities` (any batch, repeated uids included): untouched records are then complete
for the new parent graph and have no self-edge, so `repairTc_accepts_acyclic` applies.
-/
namespace Cedar.TC
set_option linter.unusedSectionVars false

variable {α : Type} [DecidableEq α]

/-- an untouched record is an unchanged record of the original store -/
def Frame (s0 s1 : Store α) (t : List α) : Prop :=
  ∀ x n, get s1 x = some n → x ∉ t → get s0 x = some n

/-- from an old record none of whose ancestors is touched, reachability is the old reachability -/
theorem Frame.reach_old {s0 s1 : Store α} {t : List α} (h0 : StoreInv s0) (hf : Frame s0 s1 t) :
    ∀ x y, Reach (shape s1) x y → ∀ n, get s1 x = some n → get s0 x = some n → (∀ a, a ∈ n.out → a ∉ t) →
      Reach (shape s0) x y := by
  intro x y hr
  induction hr with
  | edge hpx hy =>
    intro n hn1 hn0 _
    rw [shape_some hn1] at hpx; cases hpx
    exact Reach.edge (shape_some hn0) hy
  | @step x' y' z ps hpx hz hzy ih =>
    intro n hn1 hn0 hnt
    rw [shape_some hn1] at hpx; cases hpx
    have hzout : z ∈ n.out := mem_out.mpr (Or.inl hz)
    obtain ⟨pz, hpz⟩ := hzy.src_some
    obtain ⟨nz, hnz, _⟩ := shape_some_inv hpz
    have hnz0 : get s0 z = some nz := hf z nz hnz (hnt z hzout)
    have hsub : ∀ a, a ∈ nz.out → a ∉ t := by
      intro a ha
      apply hnt
      have h1 : Reach (shape s0) z a := (h0.exact z nz hnz0 a).mp ha
      exact (h0.exact x' n hn0 a).mpr (Reach.step (shape_some hn0) hz h1)
    exact Reach.step (shape_some hn0) hz (ih nz hnz hnz0 hsub)

/-- records left untouched by the pass are complete for the new parent graph -/
theorem Frame.untouched_complete {s0 s1 : Store α} {t : List α} (h0 : StoreInv s0) (hf : Frame s0 s1 t) :
    ∀ k, k ∈ keys s1 → k ∉ touchPass s1 t → Complete (shape s1) s1 k := by
  intro k _ hkt n hn y hr
  have hkt0 : k ∉ t := fun h => hkt (touchPass_sub s1 t k h)
  have hn0 := hf k n hn hkt0
  have hnt := touchPass_untouched s1 t k n (get_some_mem hn) hkt
  exact (h0.exact k n hn0 y).mpr (hf.reach_old h0 k y hr n hn hn0 hnt)

/-- … and have no self-edge -/
theorem Frame.untouched_noself {s0 s1 : Store α} {t : List α} (h0 : StoreInv s0) (hf : Frame s0 s1 t) :
    ∀ k n, get s1 k = some n → k ∉ touchPass s1 t → k ∉ n.out := by
  intro k n hn hkt hk
  have hkt0 : k ∉ t := fun h => hkt (touchPass_sub s1 t k h)
  have hn0 := hf k n hn hkt0
  exact h0.acyclic k ((h0.exact k n hn0 k).mp hk)

/-- the cycle check after the touched pass is complete: acceptance implies acyclicity -/
theorem Frame.accepts_acyclic {s0 s1 s' : Store α} {t : List α} (h0 : StoreInv s0) (hf : Frame s0 s1 t)
    (hok : repairTc (touchPass s1 t) s1 = .ok s') : ∀ x, ¬ Reach (shape s1) x x :=
  repairTc_accepts_acyclic s1 s' _ (hf.untouched_complete h0) (hf.untouched_noself h0) hok

/-- … and a cyclic parent graph is rejected with `cycle` -/
theorem Frame.rejects_cyclic {s0 s1 : Store α} {t : List α} (h0 : StoreInv s0) (hf : Frame s0 s1 t)
    (hc : ∃ x, Reach (shape s1) x x) : repairTc (touchPass s1 t) s1 = .error .cycle :=
  repairTc_complete s1 _ (hf.untouched_complete h0) (hf.untouched_noself h0) hc

theorem shape_eq_of_pg {s s' : Store α} (h : parentGraph s' = parentGraph s) : shape s' = shape s := by
  funext x; rw [← pg_get, ← pg_get, h]

/-! ### `add_entities` -/

theorem addLoop_frame (s : Store α) (es : List (α × Node α)) (hp : PureBatch es) (s1 : Store α) (t : List α)
    (hl : addLoop s [] es = .ok (s1, t)) : Frame s s1 t := by
  obtain ⟨l1, l2, _, _⟩ := addLoop_spec es s [] s1 t hl hp
  intro x n hx hxt
  cases hgs : get s x with
  | none => exact absurd (l2 x n hgs hx).2 hxt
  | some n0 =>
    have := l1 x n0 hgs
    rw [this] at hx; cases hx; rfl

/-- COMPLETENESS of the cycle check of `add_entities`: a batch whose resulting parent graph is cyclic is
    rejected with `cycle` -/
theorem addEntities_cyclic (s : Store α) (es : List (α × Node α)) (hinv : StoreInv s) (hp : PureBatch es)
    (s1 : Store α) (t : List α) (hl : addLoop s [] es = .ok (s1, t)) (hc : ∃ x, Reach (shape s1) x x) :
    addEntities .compute s es = .error .cycle := by
  unfold addEntities
  rw [hl]
  simp only [finish, if_true]
  exact (addLoop_frame s es hp s1 t hl).rejects_cyclic hinv hc

/-! ### `upsert_entities`, arbitrary batches -/

theorem upsertOne_frame {s0 : Store α} {st : Store α × List α} (e : α × Node α)
    (h : Frame s0 st.1 st.2) : Frame s0 (upsertOne st e).1 (upsertOne st e).2 := by
  obtain ⟨s, t⟩ := st
  cases hold : get s e.1 with
  | none =>
    simp only [upsertOne, hold]
    intro x n hx hxt
    have hxt' : x ∉ t := fun h' => hxt (tinsert_sub _ _ _ h')
    have hxe : e.1 ≠ x := fun h' => hxt (h' ▸ tinsert_self _ _)
    rw [get_append_single] at hx
    cases hgx : get s x with
    | none => rw [hgx] at hx; simp [hxe] at hx
    | some m => rw [hgx] at hx; cases hx; exact h x _ hgx hxt'
  | some old =>
    rw [upsertOne_some hold]
    simp only
    intro x n hx hxt
    have hk1 : x ≠ e.1 := fun e' => hxt (e' ▸ tinsert_self _ _)
    have hk2 := ups_touch_untouched e.1 s t x (fun h' => hxt (tinsert_sub _ _ _ h'))
    rw [get_set_other _ _ _ _ hk1, get_map_node' s _ (upsNode e.1 old.out) (fun _ => rfl)] at hx
    cases hg : get s x with
    | none => rw [hg] at hx; cases hx
    | some m =>
      rw [hg] at hx
      simp only [Option.map_some, Option.some.injEq] at hx
      have hun : e.1 ∉ m.out := hk2.2 m (get_some_mem hg) hk1
      have hnn : upsNode e.1 old.out x m = m := by unfold upsNode; simp [hun]
      rw [hnn] at hx
      subst hx
      exact h x m hg hk2.1

theorem upsertFold_frame {s0 : Store α} : ∀ (es : List (α × Node α)) (st : Store α × List α),
    Frame s0 st.1 st.2 → Frame s0 (es.foldl upsertOne st).1 (es.foldl upsertOne st).2 := by
  intro es
  induction es with
  | nil => intro st h; exact h
  | cons e es ih =>
    intro st h
    simp only [List.foldl_cons]
    exact ih _ (upsertOne_frame e h)

theorem frame_init (s : Store α) : Frame s s [] := fun _ _ hx _ => hx

/-- COMPLETENESS of the cycle check of `upsert_entities` (any batch): a cyclic resulting parent graph is
    rejected with `cycle` -/
theorem upsertApply_cyclic (s : Store α) (es : List (α × Node α)) (hinv : StoreInv s)
    (hc : ∃ x, Reach (shape (es.foldl upsertOne (s, [])).1) x x) :
    upsertApply .compute s es = .error .cycle := by
  unfold upsertApply
  simp only [finish, if_true]
  exact (upsertFold_frame es (s, []) (frame_init s)).rejects_cyclic hinv hc

/-- an accepted pure operation yields an acyclic parent graph -/
theorem applyOp_acyclic (s : Store α) (o : Op α) (s' : Store α) (hinv : StoreInv s)
    (hpure : match o with
      | .from m es => m = .compute ∧ PureBatch es
      | .add m es => m = .compute ∧ PureBatch es
      | .upsert m _ => m = .compute
      | .remove m _ => m = .compute)
    (hok : applyOp s o = .ok s') : ∀ x, ¬ Reach (shape s') x x := by
  cases o with
  | «from» m es =>
    obtain ⟨rfl, hpb⟩ := hpure
    exact (fromEntities_inv es s' hpb hok).acyclic
  | remove m us =>
    have hm : m = .compute := hpure
    subst hm
    obtain ⟨s'', h', hi, _⟩ := removeEntities_ok s us hinv
    simp only [applyOp] at hok
    rw [h'] at hok; cases hok; exact hi.acyclic
  | add m es =>
    obtain ⟨rfl, hpb⟩ := hpure
    simp only [applyOp] at hok
    cases hl : addLoop s [] es with
    | error e => simp [addEntities, hl] at hok
    | ok st =>
      obtain ⟨s1, t⟩ := st
      have hrep : repairTc (touchPass s1 t) s1 = .ok s' := by
        simpa [addEntities, hl, finish] using hok
      rw [shape_eq_of_pg (repairTc_pg hrep)]
      exact (addLoop_frame s es hpb s1 t hl).accepts_acyclic hinv hrep
  | upsert m es =>
    have hm : m = .compute := hpure
    subst hm
    simp only [applyOp, upsertEntities] at hok
    generalize dedupLastAtFirstPos es = es at hok
    have hrep : repairTc (touchPass (es.foldl upsertOne (s, [])).1 (es.foldl upsertOne (s, [])).2)
        (es.foldl upsertOne (s, [])).1 = .ok s' := by
      simpa [upsertApply, finish] using hok
    rw [shape_eq_of_pg (repairTc_pg hrep)]
    exact (upsertFold_frame es (s, []) (frame_init s)).accepts_acyclic hinv hrep

end Cedar.TC
