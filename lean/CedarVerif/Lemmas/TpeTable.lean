import CedarVerif.Cedar.Tpe
import CedarVerif.Thm.C01
/- C14 helpers: the decision table of `tpe::Response::new` over arbitrary residual-policy lists (the same five rows
   as `PartialResponse::decision`, `Cedar.Table.decide`), bucket membership, well-formedness of responses built by
   `Tpe.isAuthorized`. -/
namespace Cedar.Tpe
open Cedar

/-- what a bucket promises about the final outcome of a policy on a completion -/
def Class.Consistent : Class → Outcome → Prop
  | .tt, o => o = .sat
  | .ff, o => o = .unsat
  | .err, o => o = .err
  | .res, _ => True

/-- the concrete authorizer's decision from final per-policy outcomes (C01 `allow_iff`, as a definition) -/
def decisionOf (rs : List ResidualPolicy) (out : ResidualPolicy → Outcome) : Decision :=
  if rs.any (fun p => p.effect == .permit && out p == .sat) && !rs.any (fun p => p.effect == .forbid && out p == .sat)
  then .allow else .deny

theorem flag_true {r : Response} {eff : Effect} {c : Class} :
    r.flag eff c = true ↔ ∃ rp, rp ∈ r.residuals ∧ rp.effect = eff ∧ rp.residual.cls = c := by
  simp [Response.flag, List.any_eq_true]

theorem flag_false {r : Response} {eff : Effect} {c : Class} :
    r.flag eff c = false ↔ ∀ rp, rp ∈ r.residuals → rp.effect = eff → rp.residual.cls ≠ c := by
  simp [Response.flag, List.any_eq_false]

theorem mem_bucket {r : Response} {eff : Effect} {c : Class} {rp : ResidualPolicy} :
    rp ∈ r.bucket eff c ↔ rp ∈ r.residuals ∧ rp.effect = eff ∧ rp.residual.cls = c := by
  simp [Response.bucket, List.mem_filter]

theorem any_sat_true {rs : List ResidualPolicy} {out : ResidualPolicy → Outcome} {eff : Effect} :
    rs.any (fun p => p.effect == eff && out p == .sat) = true ↔ ∃ rp, rp ∈ rs ∧ rp.effect = eff ∧ out rp = .sat := by
  simp [List.any_eq_true]

theorem any_sat_false {rs : List ResidualPolicy} {out : ResidualPolicy → Outcome} {eff : Effect} :
    rs.any (fun p => p.effect == eff && out p == .sat) = false ↔ ∀ rp, rp ∈ rs → rp.effect = eff → out rp ≠ .sat := by
  simp [List.any_eq_false]

/-- a policy that ends up satisfied sits in the `true` or in the `residual` bucket -/
theorem sat_cls {c : Class} {o : Outcome} (h : c.Consistent o) (ho : o = .sat) : c = .tt ∨ c = .res := by
  cases c <;> simp_all [Class.Consistent]

/-- **the table lemma** (DESIGN appendix C) for `tpe::Response`: a definite decision is the decision of every
    completion of the residual policies to final outcomes that respects the definite buckets -/
theorem table_sound_core (r : Response) (out : ResidualPolicy → Outcome)
    (hc : ∀ rp, rp ∈ r.residuals → rp.residual.cls.Consistent (out rp)) :
    ∀ d, r.decision = some d → decisionOf r.residuals out = d := by
  intro d hd
  unfold Response.decision at hd
  cases htf : r.flag .forbid .tt <;> cases htp : r.flag .permit .tt <;>
    cases hrp : r.flag .permit .res <;> cases hrf : r.flag .forbid .res <;>
    simp only [htf, htp, hrp, hrf, Table.decide] at hd <;> try (cases hd)
  all_goals first
    | -- a true forbid: deny
      (obtain ⟨rp, hm, he, hcl⟩ := flag_true.mp htf
       have hs : out rp = .sat := by have := hc rp hm; rw [hcl] at this; exact this
       have : r.residuals.any (fun p => p.effect == .forbid && out p == .sat) = true := any_sat_true.mpr ⟨rp, hm, he, hs⟩
       simp [decisionOf, this])
    | -- no true and no residual permit: deny
      (have : r.residuals.any (fun p => p.effect == .permit && out p == .sat) = false := by
         apply any_sat_false.mpr
         intro rp hm he hs
         rcases sat_cls (hc rp hm) hs with h | h
         · exact flag_false.mp htp rp hm he h
         · exact flag_false.mp hrp rp hm he h
       simp [decisionOf, this])
    | -- a true permit, no true and no residual forbid: allow
      (obtain ⟨rp, hm, he, hcl⟩ := flag_true.mp htp
       have hs : out rp = .sat := by have := hc rp hm; rw [hcl] at this; exact this
       have h1 : r.residuals.any (fun p => p.effect == .permit && out p == .sat) = true := any_sat_true.mpr ⟨rp, hm, he, hs⟩
       have h2 : r.residuals.any (fun p => p.effect == .forbid && out p == .sat) = false := by
         apply any_sat_false.mpr
         intro rp hm he hs
         rcases sat_cls (hc rp hm) hs with h | h
         · exact flag_false.mp htf rp hm he h
         · exact flag_false.mp hrf rp hm he h
       simp [decisionOf, h1, h2])

/-- no residual bucket ⇒ the table decides (`Response::new`: "guaranteed to arrive at a decision if all the residuals
    are not `Partial`") -/
theorem decides_of_no_residual (r : Response) (hp : r.flag .permit .res = false) (hf : r.flag .forbid .res = false) :
    ∃ d, r.decision = some d := by
  unfold Response.decision
  cases r.flag .forbid .tt <;> cases r.flag .permit .tt <;> simp [hp, hf, Table.decide]

/-- effect and id of a residual policy are those of its original (true of every response `Tpe.isAuthorized` builds) -/
def Response.WF (r : Response) : Prop := ∀ rp, rp ∈ r.residuals → rp.effect = rp.original.effect ∧ rp.id = rp.original.id

theorem mapM?_spec {α β} {f : α → Option β} {xs : List α} {ys : List β} (h : mapM? f xs = some ys) :
    ys.length = xs.length ∧ ∀ y, y ∈ ys → ∃ x, x ∈ xs ∧ f x = some y := by
  induction xs generalizing ys with
  | nil => simp [mapM?] at h; subst h; simp
  | cons x xs ih =>
    simp only [mapM?] at h
    cases hx : f x <;> cases hxs : mapM? f xs <;> simp [hx, hxs] at h
    subst h
    obtain ⟨h1, h2⟩ := ih hxs
    refine ⟨by simp [h1], ?_⟩
    intro y hy
    rcases List.mem_cons.mp hy with rfl | hy
    · exact ⟨x, by simp, hx⟩
    · obtain ⟨x', hx', hf⟩ := h2 y hy; exact ⟨x', by simp [hx'], hf⟩

theorem mapM?_map {α β γ} {f : α → Option β} {g : β → γ} {g' : α → γ} (hg : ∀ x y, f x = some y → g y = g' x)
    {xs : List α} {ys : List β} (h : mapM? f xs = some ys) : ys.map g = xs.map g' := by
  induction xs generalizing ys with
  | nil => simp [mapM?] at h; subst h; rfl
  | cons x xs ih =>
    simp only [mapM?] at h
    cases hx : f x <;> cases hxs : mapM? f xs <;> simp [hx, hxs] at h
    subst h
    simp [hg x _ hx, ih hxs]

theorem isAuthorized_wf {req : PRequest} {es : PEntities} {tps : List TPolicy} {r : Response}
    (h : isAuthorized req es tps = some r) : r.WF := by
  unfold isAuthorized at h
  cases hm : mapM? (residualPolicyOf req es) tps <;> simp [hm] at h
  subst h
  intro rp hrp
  obtain ⟨tp, _, hf⟩ := (mapM?_spec hm).2 rp hrp
  unfold residualPolicyOf at hf
  cases ho : Residual.ofExpr tp.typed <;> simp [ho] at hf
  subst hf; exact ⟨rfl, rfl⟩

/-- `policy_set()` of a response built by `Tpe.isAuthorized` is the list of the input policies -/
theorem isAuthorized_policySet {req : PRequest} {es : PEntities} {tps : List TPolicy} {r : Response}
    (h : isAuthorized req es tps = some r) : r.policySet = tps.map (·.policy) := by
  unfold isAuthorized at h
  cases hm : mapM? (residualPolicyOf req es) tps <;> simp [hm] at h
  subst h
  unfold Response.policySet
  apply mapM?_map (f := residualPolicyOf req es) _ hm
  intro tp rp hf
  unfold residualPolicyOf at hf
  cases ho : Residual.ofExpr tp.typed <;> simp [ho] at hf
  subst hf; rfl

/-- the concrete authorizer's decision over the originals, as `decisionOf` -/
theorem concrete_decision_eq (r : Response) (hwf : r.WF) (req : Request) (es : Entities) :
    (Cedar.isAuthorized req es r.policySet).decision = decisionOf r.residuals (fun rp => rp.original.outcome req es) := by
  have key := Cedar.C01.allow_iff req es r.policySet
  have hP : (∃ p, p ∈ r.policySet ∧ p.effect = .permit ∧ Cedar.Sat req es p) ↔
      r.residuals.any (fun p => p.effect == .permit && p.original.outcome req es == .sat) = true := by
    rw [any_sat_true]
    constructor
    · rintro ⟨p, hp, he, hs⟩
      obtain ⟨rp, hrp, rfl⟩ := List.mem_map.mp hp
      exact ⟨rp, hrp, by rw [(hwf rp hrp).1]; exact he, hs⟩
    · rintro ⟨rp, hrp, he, hs⟩
      exact ⟨rp.original, List.mem_map.mpr ⟨rp, hrp, rfl⟩, by rw [← (hwf rp hrp).1]; exact he, hs⟩
  have hF : (∃ p, p ∈ r.policySet ∧ p.effect = .forbid ∧ Cedar.Sat req es p) ↔
      r.residuals.any (fun p => p.effect == .forbid && p.original.outcome req es == .sat) = true := by
    rw [any_sat_true]
    constructor
    · rintro ⟨p, hp, he, hs⟩
      obtain ⟨rp, hrp, rfl⟩ := List.mem_map.mp hp
      exact ⟨rp, hrp, by rw [(hwf rp hrp).1]; exact he, hs⟩
    · rintro ⟨rp, hrp, he, hs⟩
      exact ⟨rp.original, List.mem_map.mpr ⟨rp, hrp, rfl⟩, by rw [← (hwf rp hrp).1]; exact he, hs⟩
  rw [hP, hF] at key
  unfold decisionOf
  cases hd : (Cedar.isAuthorized req es r.policySet).decision
  · have := key.mp hd
    simp [this.1, this.2]
  · cases h1 : r.residuals.any (fun p => p.effect == .permit && p.original.outcome req es == .sat) <;>
      cases h2 : r.residuals.any (fun p => p.effect == .forbid && p.original.outcome req es == .sat) <;> simp
    have := key.mpr ⟨h1, by simp [h2]⟩
    rw [hd] at this; cases this

end Cedar.Tpe
