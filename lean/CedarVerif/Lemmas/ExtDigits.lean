import CedarVerif.Cedar.Ext
/-
Helper lemmas about ASCII digit runs (`isDigit`, `spanDigits`, `natOfDigits`, `checkedI64`)
used by the C07 exactness theorems.
-/
namespace Cedar.Ext

/-- all characters are ASCII digits -/
def allDigits (ds : List Char) : Bool := ds.all isDigit

theorem isDigit_iff (c : Char) : isDigit c = true ↔ 48 ≤ c.toNat ∧ c.toNat ≤ 57 := by
  simp only [isDigit, Bool.and_eq_true, decide_eq_true_eq]
  have e0 : ('0':Char).val.toNat = 48 := by decide
  have e9 : ('9':Char).val.toNat = 57 := by decide
  constructor
  · rintro ⟨h1, h2⟩
    have a1 : ('0':Char).val.toNat ≤ c.val.toNat := UInt32.le_iff_toNat_le.mp (Char.le_def.mp h1)
    have a2 : c.val.toNat ≤ ('9':Char).val.toNat := UInt32.le_iff_toNat_le.mp (Char.le_def.mp h2)
    show 48 ≤ c.val.toNat ∧ c.val.toNat ≤ 57
    omega
  · intro h
    have h' : 48 ≤ c.val.toNat ∧ c.val.toNat ≤ 57 := h
    exact ⟨Char.le_def.mpr (UInt32.le_iff_toNat_le.mpr (by omega)),
           Char.le_def.mpr (UInt32.le_iff_toNat_le.mpr (by omega))⟩

theorem digitVal_le (c : Char) (h : isDigit c = true) : digitVal c ≤ 9 := by
  have := (isDigit_iff c).mp h
  simp only [digitVal]; omega

theorem isDigit_ne {c d : Char} (h : isDigit c = true) (hd : isDigit d = false) : c ≠ d := by
  intro e; subst e; simp [h] at hd

@[simp] theorem allDigits_nil : allDigits [] = true := rfl
@[simp] theorem allDigits_cons (c : Char) (cs : List Char) :
    allDigits (c :: cs) = (isDigit c && allDigits cs) := by simp [allDigits]
theorem allDigits_append (a b : List Char) : allDigits (a ++ b) = (allDigits a && allDigits b) := by
  simp [allDigits]

/-- `r` does not start with an ASCII digit -/
def noDigitHead (r : List Char) : Prop := ∀ c r', r = c :: r' → isDigit c = false

theorem noDigitHead_nil : noDigitHead [] := by intro c r' h; cases h
theorem noDigitHead_cons {c : Char} {r : List Char} (h : isDigit c = false) : noDigitHead (c :: r) := by
  intro c' r' e; cases e; exact h

/-- `spanDigits` on a digit run followed by something that does not start with a digit -/
theorem spanDigits_append (ds r : List Char) (hd : allDigits ds = true) (hr : noDigitHead r) :
    spanDigits (ds ++ r) = (ds, r) := by
  induction ds with
  | nil =>
    cases r with
    | nil => rfl
    | cons c r' => simp [spanDigits, hr c r' rfl]
  | cons c cs ih =>
    simp only [allDigits_cons, Bool.and_eq_true] at hd
    simp [spanDigits, hd.1, ih hd.2]

/-- characterisation of the result of `spanDigits` -/
theorem spanDigits_spec (s : List Char) :
    s = (spanDigits s).1 ++ (spanDigits s).2 ∧ allDigits (spanDigits s).1 = true ∧
    noDigitHead (spanDigits s).2 := by
  induction s with
  | nil => exact ⟨rfl, rfl, noDigitHead_nil⟩
  | cons c cs ih =>
    by_cases hc : isDigit c = true
    · simp only [spanDigits, hc, if_true]
      obtain ⟨h1, h2, h3⟩ := ih
      refine ⟨?_, ?_, h3⟩
      · simp only [List.cons_append]; rw [← h1]
      · simp [hc, h2]
    · simp only [Bool.not_eq_true] at hc
      simp only [spanDigits, hc]
      exact ⟨rfl, rfl, noDigitHead_cons hc⟩

theorem spanDigits_eq_iff (s ds r : List Char) :
    spanDigits s = (ds, r) ↔ s = ds ++ r ∧ allDigits ds = true ∧ noDigitHead r := by
  constructor
  · intro h
    have := spanDigits_spec s
    rw [h] at this; exact this
  · rintro ⟨rfl, h2, h3⟩; exact spanDigits_append ds r h2 h3

theorem foldl_digits_lt (ds : List Char) (hd : allDigits ds = true) :
    ∀ acc : Nat, ds.foldl (fun acc c => acc * 10 + digitVal c) acc < (acc + 1) * 10 ^ ds.length := by
  induction ds with
  | nil => intro acc; simp
  | cons c cs ih =>
    intro acc
    simp only [allDigits_cons, Bool.and_eq_true] at hd
    have h9 := digitVal_le c hd.1
    have := ih hd.2 (acc * 10 + digitVal c)
    simp only [List.foldl_cons, List.length_cons]
    calc _ < (acc * 10 + digitVal c + 1) * 10 ^ cs.length := this
      _ ≤ ((acc + 1) * 10) * 10 ^ cs.length := Nat.mul_le_mul_right _ (by omega)
      _ = (acc + 1) * 10 ^ (cs.length + 1) := by rw [Nat.pow_succ, Nat.mul_assoc, Nat.mul_comm 10]

theorem natOfDigits_lt (ds : List Char) (hd : allDigits ds = true) : natOfDigits ds < 10 ^ ds.length := by
  have := foldl_digits_lt ds hd 0
  simpa [natOfDigits] using this

theorem checkedI64_some {i : Int} (h : inI64 i = true) : checkedI64 i = some i := by simp [checkedI64, h]
theorem checkedI64_none {i : Int} (h : inI64 i = false) : checkedI64 i = none := by simp [checkedI64, h]

theorem inI64_iff (i : Int) : inI64 i = true ↔ -9223372036854775808 ≤ i ∧ i ≤ 9223372036854775807 := by
  simp only [inI64, i64Min, i64Max, Bool.and_eq_true]
  constructor
  · rintro ⟨a, b⟩; exact ⟨of_decide_eq_true a, of_decide_eq_true b⟩
  · rintro ⟨a, b⟩; exact ⟨decide_eq_true a, decide_eq_true b⟩

theorem inI64_false_iff (i : Int) : inI64 i = false ↔ ¬ (-9223372036854775808 ≤ i ∧ i ≤ 9223372036854775807) := by
  rw [← inI64_iff]; simp

end Cedar.Ext
