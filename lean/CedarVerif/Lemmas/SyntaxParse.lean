import CedarVerif.Lemmas.SyntaxEscape
import CedarVerif.Cedar.Syntax.Parse
/-
Helper lemmas for C05 `parse_print_partial`: precedence-climbing facts about the model parser.
`tokLevel t` = the lowest grammar level that consumes `t` when it follows a complete operand
(0 Member/Name path, 2 Mult, 3 Add, 4 Relation, 5 And, 6 Or, 7 nobody).
-/
namespace Cedar.Syntax
open Cedar

def tokLevel : Token → Nat
  | .dot | .lparen | .lbrack | .dcolon => 0
  | .star | .slash | .percent => 2
  | .plus | .minus => 3
  | .lt | .le | .ge | .gt | .neq | .eqeq | .eq => 4
  | .ident s => if s = "in" ∨ s = "has" ∨ s = "like" ∨ s = "is" then 4 else 7
  | .andand => 5
  | .oror => 6
  | _ => 7

def headLv : List Token → Nat
  | [] => 7
  | t :: _ => tokLevel t

theorem multOp_none {t : Token} (h : 2 < tokLevel t) : multOp t = none := by
  cases t <;> simp_all [tokLevel, multOp]
theorem addOp_none {t : Token} (h : 3 < tokLevel t) : addOp t = none := by
  cases t <;> simp_all [tokLevel, addOp]
theorem andOp_none {t : Token} (h : 5 < tokLevel t) : andOp t = none := by
  cases t <;> simp_all [tokLevel, andOp]
theorem orOp_none {t : Token} (h : 6 < tokLevel t) : orOp t = none := by
  cases t <;> simp_all [tokLevel, orOp]
theorem relOp_none {t : Token} (h : 4 < tokLevel t) : relOp t = none := by
  cases t <;> simp_all [tokLevel, relOp]
  all_goals (split at h <;> simp_all)
theorem not_kw {t : Token} (h : 4 < tokLevel t) : t ≠ .ident "has" ∧ t ≠ .ident "like" ∧ t ≠ .ident "is" := by
  refine ⟨?_, ?_, ?_⟩ <;> (intro hc; subst hc; simp [tokLevel] at h)

theorem pathRest_stop {ts : List Token} (h : 1 ≤ headLv ts) : pathRest ts = ([], ts) := by
  cases ts with
  | nil => rfl
  | cons t r => cases t <;> simp_all [pathRest, headLv, tokLevel]

theorem accesses_stop (pe : P EOS) (n : Nat) {ts : List Token} (h : 1 ≤ headLv ts) : accesses pe n ts = some ([], ts) := by
  cases ts with
  | nil => cases n <;> simp [accesses]
  | cons t r => cases n <;> cases t <;> simp_all [accesses, headLv, tokLevel]

/-! ### lifting a result through the levels above it -/

theorem chain_lift {opd : P EOS} {opOf : OpOf} {ts r : List Token} {s : EOS}
    (h : opd ts = some (s, r)) (hr : ∀ t r', r = t :: r' → opOf t = none) :
    chainLevel opd opOf ts = some (s, r) := by
  unfold chainLevel
  rw [h]
  cases r with
  | nil => rfl
  | cons t r' => simp [hr t r' rfl]

theorem to_mult {pe : P EOS} {ts r : List Token} {s : EOS} (h : unary pe ts = some (s, r)) (hr : 2 < headLv r) :
    mult pe ts = some (s, r) :=
  chain_lift h (fun t r' e => by subst e; exact multOp_none hr)

theorem to_add {pe : P EOS} {ts r : List Token} {s : EOS} (h : mult pe ts = some (s, r)) (hr : 3 < headLv r) :
    add pe ts = some (s, r) :=
  chain_lift h (fun t r' e => by subst e; exact addOp_none hr)

theorem to_relation {pe : P EOS} {ts r : List Token} {s : EOS} (h : add pe ts = some (s, r)) (hr : 4 < headLv r) :
    relation pe ts = some (s, r) := by
  unfold relation
  rw [h]
  cases r with
  | nil => rfl
  | cons t r' =>
    have hk := not_kw (t := t) hr
    simp [hk.1, hk.2.1, hk.2.2, relOp_none (t := t) hr]

theorem to_and {pe : P EOS} {ts r : List Token} {s : EOS} (h : relation pe ts = some (s, r)) (hr : 5 < headLv r) :
    andLevel pe ts = some (s, r) :=
  chain_lift h (fun t r' e => by subst e; exact andOp_none hr)

theorem to_or {pe : P EOS} {ts r : List Token} {s : EOS} (h : andLevel pe ts = some (s, r)) (hr : 6 < headLv r) :
    orLevel pe ts = some (s, r) :=
  chain_lift h (fun t r' e => by subst e; exact orOp_none hr)

/-- the first token of an operand / of a non-`if` expression -/
def startsPlain : List Token → Bool
  | .bang :: _ | .minus :: _ => false
  | .ident s :: _ => s != "if"
  | _ => true

theorem to_unary {pe : P EOS} {ts : List Token} (hs : startsPlain ts = true) : unary pe ts = member pe ts := by
  unfold unary
  cases ts with
  | nil => rfl
  | cons t r => cases t <;> simp_all [startsPlain]

theorem to_expr {pe : P EOS} {ts : List Token} (hs : ∀ r, ts ≠ .ident "if" :: r) : exprLevel pe ts = orLevel pe ts := by
  unfold exprLevel
  split
  · rename_i ts1; exact absurd rfl (hs ts1)
  · rfl

theorem add_to_top {pe : P EOS} {ts r : List Token} {s : EOS} (h : add pe ts = some (s, r)) (hr : headLv r = 7)
    (hs : ∀ r, ts ≠ .ident "if" :: r) : exprLevel pe ts = some (s, r) := by
  rw [to_expr hs]
  exact to_or (to_and (to_relation h (by omega)) (by omega)) (by omega)

theorem unary_to_add {pe : P EOS} {ts r : List Token} {s : EOS} (h : unary pe ts = some (s, r)) (hr : 3 < headLv r) :
    add pe ts = some (s, r) := to_add (to_mult h (by omega)) hr

/-! ### one binary operator at a chain level -/

theorem chain_one {opd : P EOS} {opOf : OpOf} {tok : Token} {g : Expr → Expr → Expr} {A B rest : List Token}
    {sa sb : EOS} {a b : Expr}
    (hop : opOf tok = some (some g))
    (ha : opd (A ++ tok :: (B ++ rest)) = some (sa, tok :: (B ++ rest))) (hsa : sa.toExpr = some a)
    (hb : opd (B ++ rest) = some (sb, rest)) (hsb : sb.toExpr = some b)
    (hrest : ∀ t r, rest = t :: r → opOf t = none) :
    chainLevel opd opOf (A ++ tok :: (B ++ rest)) = some (.expr (g a b), rest) := by
  unfold chainLevel
  rw [ha]
  simp only [hop, Option.isSome_some, if_true, hsa, List.length_cons]
  rw [chainLoop]
  simp only [hop, hb, hsb]
  cases rest with
  | nil => simp [chainLoop]
  | cons t r =>
    have := hrest t r rfl
    cases hn : (B ++ t :: r).length <;> simp [chainLoop, this]

end Cedar.Syntax
