import CedarVerif.Lemmas.ManifestLoad
/-
C17 helper lemmas, part 8: THE SLICER MEETS ITS SPECIFICATION.  For a trie whose children maps have unique keys (`RootsWF`:
they are hash maps in Rust) and whose `is_entity_type` annotations agree with the data (`FlagsRoots`: a node annotated as
entity-typed never sits on a record value — `prune_child_entity_dereferences` drops the children of such nodes), the
store computed by `sliceStorePure` is a sub-store of the full store and covers the trie.
-/
namespace Cedar.Manifest
open Cedar

mutual
theorem trim_trans : ∀ (a b c : Value), Trim a b → Trim b c → Trim a c
  | .record kvs', b, c, h1, h2 => by
    simp only [Trim] at h1
    obtain ⟨kvsb, e, h1⟩ := h1
    subst e
    simp only [Trim] at h2 ⊢
    obtain ⟨kvsc, e, h2⟩ := h2
    exact ⟨kvsc, e, trimKVs_trans kvs' kvsb kvsc h1 h2⟩
  | .prim p, b, c, h1, h2 => by simp only [Trim] at h1; subst h1; exact h2
  | .set s, b, c, h1, h2 => by simp only [Trim] at h1; subst h1; exact h2
  | .ext x, b, c, h1, h2 => by simp only [Trim] at h1; subst h1; exact h2
theorem trimKVs_trans : ∀ (a b c : List (String × Value)), TrimKVs a b → TrimKVs b c → TrimKVs a c
  | [], _, _, _, _ => by simp [TrimKVs]
  | (k, v') :: rest, b, c, h1, h2 => by
    simp only [TrimKVs] at h1 ⊢
    obtain ⟨⟨vb, hl, ht⟩, hr⟩ := h1
    obtain ⟨vc, hl2, ht2⟩ := trimKVs_lookup b c k vb h2 hl
    exact ⟨⟨vc, hl2, trim_trans v' vb vc ht ht2⟩, trimKVs_trans rest b c hr h2⟩
end

/-! ## representation invariant: children maps have unique keys -/

mutual
def AccessTrie.WF : AccessTrie → Prop
  | .mk c _ _ _ => fieldsWF c
def fieldsWF : Fields → Prop
  | [] => True
  | (k, t) :: rest => lookupField rest k = none ∧ AccessTrie.WF t ∧ fieldsWF rest
end

def RootsWF : RootAccessTrie → Prop
  | [] => True
  | (_, t) :: rest => AccessTrie.WF t ∧ RootsWF rest

theorem fieldsWF_mem : ∀ (c : Fields) (f : String) (t : AccessTrie), fieldsWF c → (f, t) ∈ c →
    lookupField c f = some t ∧ AccessTrie.WF t
  | [], _, _, _, h => by simp at h
  | (k0, t0) :: rest, f, t, hwf, hm => by
    simp only [fieldsWF] at hwf
    simp only [List.mem_cons, Prod.mk.injEq] at hm
    rcases hm with ⟨e1, e2⟩ | hm
    · subst e1; subst e2
      simp [lookupField, hwf.2.1]
    · obtain ⟨h1, h2⟩ := fieldsWF_mem rest f t hwf.2.2 hm
      refine ⟨?_, h2⟩
      simp only [lookupField]
      by_cases e : k0 = f
      · subst e; rw [hwf.1] at h1; cases h1
      · have e' : (k0 == f) = false := by simpa using e
        simp only [e', Bool.false_eq_true, if_false]
        exact h1

theorem lookupField_pruneFields : ∀ (c : Fields) (f : String),
    lookupField (pruneFields c) f = (lookupField c f).map pruneEntityDeref
  | [], f => by simp [pruneFields, lookupField]
  | (k0, t0) :: rest, f => by
    simp only [pruneFields, lookupField]
    by_cases e : (k0 == f) = true
    · simp [e]
    · simp only [e, Bool.false_eq_true, if_false]
      exact lookupField_pruneFields rest f

/-! ## the type annotations agree with the data -/

-- a node annotated `is_entity_type` is never applied to a record (hereditarily, following entity references through the
-- store as the slicer does)
mutual
def FlagsV (es : Entities) : AccessTrie → Value → Prop
  | .mk c _ _ e, v =>
    match v with
    | .prim (.entityUID u) => ∀ d, es.find? u = some d → FlagsF es c d.attrs
    | .record kvs => e = false ∧ FlagsF es c kvs
    | _ => True
def FlagsF (es : Entities) : Fields → List (String × Value) → Prop
  | [], _ => True
  | (f, t) :: rest, kvs => (∀ w, lookupKV kvs f = some w → FlagsV es t w) ∧ FlagsF es rest kvs
end

def FlagsRoots (es : Entities) (req : Request) : RootAccessTrie → Prop
  | [] => True
  | (root, t) :: rest =>
    (match rootUid req root with
     | some u => FlagsV es t (.prim (.entityUID u))
     | none => FlagsF es t.children req.context) ∧ FlagsRoots es req rest

/-! ## cover -/

section cover
variable (es es' : Entities) (req : Request) (reqs : List (EntityUID × AccessTrie))
/- what the loading loop guarantees for each request it processed -/
variable (hserved : ∀ u tr, (u, tr) ∈ reqs → ∀ d, es.find? u = some d →
    ∃ d', es'.find? u = some d' ∧ Le (.record (sliceEntity tr d).attrs) (.record d'.attrs) ∧
      (∀ x, x ∈ ancRequest es' req tr.ancestors → x ∈ d.ancestors → x ∈ d'.ancestors))
include hserved

mutual
theorem coverV_main : ∀ (t : AccessTrie) (w s w' : Value), AccessTrie.WF t → FlagsV es t w →
    (s = w ∨ s = sliceVal (pruneEntityDeref t) w) → (∀ r, r ∈ expandValue es t s → r ∈ reqs) →
    Le (sliceVal (pruneEntityDeref t) w) w' → CoverV es es' req t w w'
  | .mk c a i e, w, s, w', hwf, hfl, hs, hex, hle => by
    simp only [AccessTrie.WF] at hwf
    cases w with
    | prim p =>
      cases p with
      | entityUID u =>
        have hs' : s = .prim (.entityUID u) := by
          rcases hs with hs | hs
          · exact hs
          · simpa [sliceVal, pruneEntityDeref] using hs
        subst hs'
        have hw' : w' = .prim (.entityUID u) := by
          apply le_nonrecord (by intro kvs; simp) (y := w')
          simpa [sliceVal, pruneEntityDeref] using hle
        simp only [CoverV]
        refine ⟨hw', ?_⟩
        intro d hd
        simp only [FlagsV] at hfl
        simp only [expandValue, hd, List.mem_cons] at hex
        obtain ⟨d', h1, h2, h3⟩ := hserved u (.mk c a i e) (hex _ (Or.inl rfl)) d hd
        refine ⟨d', h1, ?_, h3⟩
        apply coverF_main c d.attrs (sliceFields (pruneFields c) d.attrs) d'.attrs c hwf (hfl d hd) (fun _ _ h => h)
        · intro f t wf hm hl
          obtain ⟨hlf, _⟩ := fieldsWF_mem c f t hwf hm
          refine ⟨_, ?_, Or.inr rfl⟩
          rw [lookup_sliceFields, lookupField_pruneFields, hlf]
          simp [hl]
        · intro r hr
          exact hex r (Or.inr hr)
        · intro f t wf hm hl
          obtain ⟨hlf, _⟩ := fieldsWF_mem c f t hwf hm
          have hl2 : lookupKV (sliceEntity (.mk c a i e) d).attrs f = some (sliceVal (pruneEntityDeref t) wf) := by
            simp only [sliceEntity, pruneChildEntityDeref, AccessTrie.children]
            rw [lookup_sliceFields, lookupField_pruneFields, hlf]
            simp [hl]
          obtain ⟨ky, y', e1, e2, e3⟩ := le_lookup h2 hl2
          cases e1
          exact ⟨y', e2, e3⟩
      | bool b => simp [CoverV]
      | int n => simp [CoverV]
      | string s => simp [CoverV]
    | record kvs =>
      simp only [FlagsV] at hfl
      obtain ⟨he, hfl⟩ := hfl
      subst he
      simp only [pruneEntityDeref, Bool.false_eq_true, if_false, sliceVal] at hle hs
      obtain ⟨kvs', e⟩ := le_record_inv hle
      subst e
      simp only [CoverV]
      refine ⟨kvs', rfl, ?_⟩
      rcases hs with hs | hs
      · subst hs
        simp only [expandValue] at hex
        apply coverF_main c kvs kvs kvs' c hwf hfl (fun _ _ h => h)
        · intro f t wf _ hl
          exact ⟨wf, hl, Or.inl rfl⟩
        · exact hex
        · intro f t wf hm hl
          obtain ⟨hlf, _⟩ := fieldsWF_mem c f t hwf hm
          have hl2 : lookupKV (sliceFields (pruneFields c) kvs) f = some (sliceVal (pruneEntityDeref t) wf) := by
            rw [lookup_sliceFields, lookupField_pruneFields, hlf]
            simp [hl]
          obtain ⟨ky, y', e1, e2, e3⟩ := le_lookup hle hl2
          cases e1
          exact ⟨y', e2, e3⟩
      · subst hs
        simp only [expandValue] at hex
        apply coverF_main c kvs (sliceFields (pruneFields c) kvs) kvs' c hwf hfl (fun _ _ h => h)
        · intro f t wf hm hl
          obtain ⟨hlf, _⟩ := fieldsWF_mem c f t hwf hm
          refine ⟨_, ?_, Or.inr rfl⟩
          rw [lookup_sliceFields, lookupField_pruneFields, hlf]
          simp [hl]
        · exact hex
        · intro f t wf hm hl
          obtain ⟨hlf, _⟩ := fieldsWF_mem c f t hwf hm
          have hl2 : lookupKV (sliceFields (pruneFields c) kvs) f = some (sliceVal (pruneEntityDeref t) wf) := by
            rw [lookup_sliceFields, lookupField_pruneFields, hlf]
            simp [hl]
          obtain ⟨ky, y', e1, e2, e3⟩ := le_lookup hle hl2
          cases e1
          exact ⟨y', e2, e3⟩
    | set vs => simp [CoverV]
    | ext x => simp [CoverV]
/-- `c` is a suffix (`hsuf`) of the children map `c0` whose entries the hypotheses talk about -/
theorem coverF_main : ∀ (c : Fields) (kvs S kvs' : List (String × Value)) (c0 : Fields), fieldsWF c0 → FlagsF es c kvs →
    (∀ f t, (f, t) ∈ c → (f, t) ∈ c0) →
    (∀ f t w, (f, t) ∈ c0 → lookupKV kvs f = some w →
      ∃ s, lookupKV S f = some s ∧ (s = w ∨ s = sliceVal (pruneEntityDeref t) w)) →
    (∀ r, r ∈ expandFields es c S → r ∈ reqs) →
    (∀ f t w, (f, t) ∈ c0 → lookupKV kvs f = some w →
      ∃ w', lookupKV kvs' f = some w' ∧ Le (sliceVal (pruneEntityDeref t) w) w') →
    CoverF es es' req c kvs kvs'
  | [], _, _, _, _, _, _, _, _, _, _ => by simp [CoverF]
  | (f, t) :: rest, kvs, S, kvs', c0, hwf, hfl, hsuf, h1, hex, h3 => by
    simp only [FlagsF] at hfl
    simp only [CoverF]
    have hm : (f, t) ∈ c0 := hsuf f t (by simp)
    refine ⟨?_, coverF_main rest kvs S kvs' c0 hwf hfl.2 (fun f' t' h => hsuf f' t' (by simp [h])) h1 ?_ h3⟩
    · intro w hw
      obtain ⟨s, hs1, hs2⟩ := h1 f t w hm hw
      obtain ⟨w', hw1, hw2⟩ := h3 f t w hm hw
      refine ⟨w', hw1, coverV_main t w s w' (fieldsWF_mem c0 f t hwf hm).2 (hfl.1 w hw) hs2 ?_ hw2⟩
      intro r hr
      apply hex
      simp only [expandFields, hs1, List.mem_append]
      exact Or.inl hr
    · intro r hr
      apply hex
      simp only [expandFields, List.mem_append]
      exact Or.inr hr
end

theorem coverRoots_main : ∀ (g : RootAccessTrie), RootsWF g → FlagsRoots es req g →
    (∀ r, r ∈ allRequests es req g → r ∈ reqs) → CoverRoots es es' req g
  | [], _, _, _ => by simp [CoverRoots]
  | (root, t) :: rest, hwf, hfl, hex => by
    simp only [RootsWF] at hwf
    simp only [FlagsRoots] at hfl
    simp only [CoverRoots]
    refine ⟨?_, coverRoots_main rest hwf.2 hfl.2 ?_⟩
    · cases hr : rootUid req root with
      | some u =>
        have hv : rootVal req root = .prim (.entityUID u) := by
          cases root with
          | literal u0 => simp only [rootUid, Option.some.injEq] at hr; subst hr; rfl
          | var v => cases v <;> simp only [rootUid, Option.some.injEq] at hr <;> first | (subst hr; rfl) | cases hr
        rw [hv]
        simp only [hr] at hfl
        obtain ⟨c, a, i, e⟩ := t
        apply coverV_main es es' req reqs hserved (.mk c a i e) _ (.prim (.entityUID u)) _ hwf.1 hfl.1 (Or.inl rfl)
        · intro r hr'
          apply hex
          simp only [allRequests, hr, List.mem_append]
          exact Or.inl hr'
        · simp only [pruneEntityDeref, sliceVal]
          exact Le.refl _
      | none =>
        have hv : rootVal req root = .record req.context := by
          cases root with
          | literal u0 => simp [rootUid] at hr
          | var v => cases v <;> simp only [rootUid] at hr <;> first | rfl | cases hr
        rw [hv]
        simp only [hr] at hfl
        obtain ⟨c, a, i, e⟩ := t
        simp only [CoverV, AccessTrie.children, AccessTrie.WF] at hfl hwf ⊢
        refine ⟨req.context, rfl, ?_⟩
        apply coverF_main es es' req reqs hserved c req.context req.context req.context c hwf.1 hfl.1 (fun _ _ h => h)
        · intro f t w _ hl
          exact ⟨w, hl, Or.inl rfl⟩
        · intro r hr'
          apply hex
          simp only [allRequests, hr, List.mem_append, AccessTrie.children]
          exact Or.inl hr'
        · intro f t w _ hl
          refine ⟨w, hl, ?_⟩
          intro b hb
          exact trim_trans b _ w hb (sliceVal_trim _ w)
    · intro r hr
      apply hex
      simp only [allRequests, List.mem_append]
      exact Or.inr hr

end cover

/-- THE SLICER MEETS ITS SPECIFICATION (pure result): nothing invented, everything requested present. -/
theorem sliceStorePure_meets_spec (t : RootAccessTrie) (req : Request) (es : Entities) (hwf : RootsWF t) (hfl : FlagsRoots es req t) :
    SubStore es (sliceStorePure t req es) ∧ CoverRoots es (sliceStorePure t req es) req t := by
  refine ⟨sliceStorePure_sub t req es, ?_⟩
  exact coverRoots_main es (sliceStorePure t req es) req (allRequests es req t)
    (fun u tr hm d hd => sliceStorePure_served t req es u tr hm d hd) t hwf hfl (fun _ h => h)

end Cedar.Manifest
