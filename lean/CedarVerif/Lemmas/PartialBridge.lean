import CedarVerif.Lemmas.PartialSound5
import CedarVerif.Lemmas.PartialReauth
/- From expression-level soundness (`pinterp_sound_frag`) to the policy-level agreement `PolicyAgrees` that
   `reauthorize_eq_fresh` needs, for static policies whose condition lies in the fragment. -/
namespace Cedar

/-- `Policy.outcome` as a function of the evaluation result -/
def outcomeOf (y : Result Value) : Outcome :=
  match y with
  | .error _ => .err
  | .ok v => match v.asBool with
    | .ok true => .sat
    | .ok false => .unsat
    | .error _ => .err

theorem outcome_eq (p : Policy) (req : Request) (es : Entities) :
    p.outcome req es = outcomeOf (evaluate req es p.env p.condition) := by
  unfold Policy.outcome outcomeOf
  cases evaluate req es p.env p.condition <;> rfl

/-- class of a partial-interpretation outcome, as `partialEvaluate` computes it -/
def classOf (x : PRes) : PolicyResult :=
  match x with
  | .val v => match v.asBool with
    | .ok true => .sat
    | .ok false => .unsat
    | .error _ => .err
  | .res e => .residual e
  | .err _ => .err
  | .fuel => .stuck
  | .panic => .stuck

theorem partialEvaluate_eq (m : Mapper) (req : PRequest) (es : PEntities) (p : Policy) :
    partialEvaluate m req es p = classOf (pinterp m req es p.env defaultFuel p.condition) := by
  unfold partialEvaluate classOf
  cases pinterp m req es p.env defaultFuel p.condition <;> rfl

theorem asBool_bool (b : Bool) : (Value.prim (.bool b)).asBool = .ok b := rfl

theorem outcomeOf_wrap (req : Request) (es : Entities) (env : SlotEnv) (X : Expr) :
    outcomeOf (evaluate req es env (.and (.lit (.bool true)) X)) = outcomeOf (evaluate req es env X) := by
  cases h : evaluate req es env X with
  | error c => simp [evaluate, h, outcomeOf, asBool_bool]
  | ok v =>
    cases hb : v.asBool with
    | error c => simp [evaluate, h, outcomeOf, asBool_bool, hb]
    | ok b => cases b <;> simp [evaluate, h, outcomeOf, asBool_bool, hb]

theorem outcomeOf_residualCondition (req : Request) (es : Entities) (env : SlotEnv) (X : Expr) :
    outcomeOf (evaluate req es env (residualCondition X)) = outcomeOf (evaluate req es env X) := by
  unfold residualCondition
  rw [outcomeOf_wrap, outcomeOf_wrap, outcomeOf_wrap]

/-- a non-stuck, non-residual outcome that agrees with `y` has the class of `y` up to "is satisfied" -/
theorem class_of_sem {x : PRes} {y : Result Value} (h : Sem x y) (hns : classOf x ≠ .stuck) :
    SatAgrees (classOf x) (outcomeOf y) := by
  rcases h with h | h | ⟨v, h, hy⟩ | ⟨c, c', h, hy⟩
  · subst h; exact (hns rfl).elim
  · subst h; exact (hns rfl).elim
  · subst h; subst hy
    simp only [classOf, outcomeOf]
    cases hb : v.asBool with
    | error c => simp [SatAgrees]
    | ok b => cases b <;> simp [SatAgrees]
  · subst h; subst hy; simp [classOf, outcomeOf, SatAgrees]

section
variable (σ : Mapper) (req : Request) (es : Entities)

theorem sem_residualCondition {r cond : Expr} (m : Mapper) (preq : PRequest) (pes : PEntities) (env : SlotEnv)
    (h : ∀ n, Sem (pinterp m preq pes env n r) (evaluate req es env cond)) :
    ∀ n, Sem (pinterp m preq pes env n (residualCondition r)) (evaluate req es env (residualCondition cond)) := by
  unfold residualCondition
  have hl : ∀ n, Sem (pinterp m preq pes env n (.lit (.bool true))) (evaluate req es env (.lit (.bool true))) := by
    intro n; simpa [evaluate] using sem_lit (.bool true) m preq pes env n
  exact sem_and m preq pes env req es hl (sem_and m preq pes env req es hl (sem_and m preq pes env req es hl h))

/-- `agrees_wrap` for an arbitrary second-pass store -/
theorem agrees_wrap_on (pes2 : PEntities) (id : String) (eff : Effect) {X cond' : Expr}
    (hsem : ∀ n, Sem (pinterp σ (.ofConcrete req) pes2 [] n X) (evaluate req es [] cond'))
    (hns : partialEvaluate σ (.ofConcrete req) pes2
      { id := id, effect := eff, condition := residualCondition X, env := [] } ≠ .stuck) :
    SatAgrees (partialEvaluate σ (.ofConcrete req) pes2
      { id := id, effect := eff, condition := residualCondition X, env := [] }) (outcomeOf (evaluate req es [] cond')) := by
  rw [partialEvaluate_eq] at hns ⊢
  simp only at hns ⊢
  have h1 := sem_residualCondition req es σ (.ofConcrete req) pes2 [] hsem defaultFuel
  have h2 := class_of_sem h1 hns
  rw [outcomeOf_residualCondition] at h2
  exact h2

/-- the residual policy built from `X`, re-evaluated with σ, has the class of any `cond'` that `X` agrees with -/
theorem agrees_wrap (id : String) (eff : Effect) {X cond' : Expr}
    (hsem : ∀ n, Sem (pinterp σ (.ofConcrete req) (.ofConcrete es) [] n X) (evaluate req es [] cond'))
    (hns : partialEvaluate σ (.ofConcrete req) (.ofConcrete es)
      { id := id, effect := eff, condition := residualCondition X, env := [] } ≠ .stuck) :
    SatAgrees (partialEvaluate σ (.ofConcrete req) (.ofConcrete es)
      { id := id, effect := eff, condition := residualCondition X, env := [] }) (outcomeOf (evaluate req es [] cond')) := by
  rw [partialEvaluate_eq] at hns ⊢
  simp only at hns ⊢
  have h1 := sem_residualCondition req es σ (.ofConcrete req) (.ofConcrete es) [] hsem defaultFuel
  have h2 := class_of_sem h1 hns
  rw [outcomeOf_residualCondition] at h2
  exact h2

theorem transfer {c : PolicyResult} {A B : Outcome} (hAB : A = .sat ↔ B = .sat) (h : SatAgrees c A) : SatAgrees c B := by
  cases c with
  | sat => exact hAB.mp h
  | unsat => exact fun hb => h (hAB.mpr hb)
  | err => exact fun hb => h (hAB.mpr hb)
  | residual e => exact h
  | stuck => exact h

theorem policyAgrees_of_frag (hctx : (Value.record req.context).DRT) (hstore : StoreDRT es)
    (preq : PRequest) (hC : Concretizes σ preq req) (p : Policy) (henv : p.env = []) (hf : Frag p.condition)
    (hns2 : ∀ q, residualPolicy (partialEvaluate [] preq (.ofConcrete es) p) p = some q →
      partialEvaluate σ (.ofConcrete req) (.ofConcrete es) q ≠ .stuck)
    (hns1 : partialEvaluate [] preq (.ofConcrete es) p ≠ .stuck) :
    PolicyAgrees σ preq (.ofConcrete es) req es p := by
  have hS := pinterp_sound_frag σ req es [] hctx hstore hf [] preq defaultFuel hC
  have hout : p.outcome req es = outcomeOf (evaluate req es [] p.condition) := by rw [outcome_eq, henv]
  have hpe : partialEvaluate [] preq (.ofConcrete es) p = classOf (pinterp [] preq (.ofConcrete es) [] defaultFuel p.condition) := by
    rw [partialEvaluate_eq, henv]
  have hlitT : ∀ n, Sem (pinterp σ (.ofConcrete req) (.ofConcrete es) [] n (.lit (.bool true))) (evaluate req es [] (.lit (.bool true))) := by
    intro n; simpa [evaluate] using sem_lit (.bool true) σ (.ofConcrete req) (.ofConcrete es) [] n
  have hlitF : ∀ n, Sem (pinterp σ (.ofConcrete req) (.ofConcrete es) [] n (.lit (.bool false))) (evaluate req es [] (.lit (.bool false))) := by
    intro n; simpa [evaluate] using sem_lit (.bool false) σ (.ofConcrete req) (.ofConcrete es) [] n
  have oT : outcomeOf (evaluate req es [] (.lit (.bool true))) = .sat := by simp [evaluate, outcomeOf, Value.asBool]
  have oF : outcomeOf (evaluate req es [] (.lit (.bool false))) = .unsat := by simp [evaluate, outcomeOf, Value.asBool]
  rw [hpe] at hns2 hns1
  unfold PolicyAgrees
  rw [hpe]
  cases hx : pinterp [] preq (.ofConcrete es) [] defaultFuel p.condition with
  | fuel => rw [hx] at hns1; exact (hns1 rfl).elim
  | panic => rw [hx] at hns1; exact (hns1 rfl).elim
  | err c =>
    rw [hx] at hS hns2
    obtain ⟨c', hc'⟩ := hS
    refine ⟨_, rfl, ?_⟩
    have h := agrees_wrap σ req es p.id p.effect hlitF (hns2 _ rfl)
    refine transfer ?_ h
    rw [hout, hc', oF]; simp [outcomeOf]
  | res r =>
    rw [hx] at hS hns2
    refine ⟨_, rfl, ?_⟩
    have h := agrees_wrap σ req es p.id p.effect hS.2.2 (hns2 _ rfl)
    rw [hout]; exact h
  | val v =>
    rw [hx] at hS hns2
    obtain ⟨hev, _⟩ := hS
    simp only [classOf] at hns2 ⊢
    cases hb : v.asBool with
    | error c =>
      rw [hb] at hns2
      refine ⟨_, rfl, ?_⟩
      have h := agrees_wrap σ req es p.id p.effect hlitF (hns2 _ rfl)
      refine transfer ?_ h
      rw [hout, hev, oF]; simp [outcomeOf, hb]
    | ok b =>
      cases b with
      | true =>
        rw [hb] at hns2
        refine ⟨_, rfl, ?_⟩
        have h := agrees_wrap σ req es p.id p.effect hlitT (hns2 _ rfl)
        refine transfer ?_ h
        rw [hout, hev, oT]; simp [outcomeOf, hb]
      | false =>
        rw [hb] at hns2
        refine ⟨_, rfl, ?_⟩
        have h := agrees_wrap σ req es p.id p.effect hlitF (hns2 _ rfl)
        refine transfer ?_ h
        rw [hout, hev, oF]; simp [outcomeOf, hb]

end

end Cedar
