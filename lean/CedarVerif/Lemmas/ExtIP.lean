import CedarVerif.Lemmas.ExtDigits
/-
IP ranges: network / broadcast arithmetic, the CIDR-block predicate, and the correspondence between the model's
`/`-and-`*` formulation and the Rust bit-mask formulation.
-/
namespace Cedar.Ext.IPAddr

/-- `x` lies in the CIDR block of `(addr, pl)`: it has the same leading `pl` bits -/
def inBlock (v6 : Bool) (addr pl x : Nat) : Prop :=
  x / 2 ^ (width v6 - pl) = addr / 2 ^ (width v6 - pl)

instance (v6 : Bool) (addr pl x : Nat) : Decidable (inBlock v6 addr pl x) := by unfold inBlock; infer_instance

theorem div_eq_iff' (x q h : Nat) (hh : 0 < h) : x / h = q ↔ q * h ≤ x ∧ x ≤ q * h + (h - 1) := by
  have e : (q + 1) * h = q * h + h := by rw [Nat.add_mul, Nat.one_mul]
  constructor
  · rintro rfl
    have h1 := Nat.div_mul_le_self x h
    have h2 := Nat.div_add_mod x h
    have h3 := Nat.mod_lt x hh
    have h4 : h * (x / h) = x / h * h := Nat.mul_comm _ _
    omega
  · rintro ⟨h1, h2⟩
    have a : q ≤ x / h := (Nat.le_div_iff_mul_le hh).mpr h1
    have b : x / h < q + 1 := (Nat.div_lt_iff_lt_mul hh).mpr (by omega)
    omega

theorem network_le (v6 : Bool) (addr pl : Nat) : network v6 addr pl ≤ addr := by
  simp only [network]; exact Nat.div_mul_le_self _ _

theorem le_broadcast (v6 : Bool) (addr pl : Nat) : addr ≤ broadcast v6 addr pl := by
  simp only [broadcast]
  have hh : 0 < 2 ^ (width v6 - pl) := Nat.two_pow_pos _
  exact ((div_eq_iff' addr _ _ hh).mp rfl).2

theorem network_le_broadcast (v6 : Bool) (addr pl : Nat) : network v6 addr pl ≤ broadcast v6 addr pl :=
  Nat.le_trans (network_le v6 addr pl) (le_broadcast v6 addr pl)

/-- the block of `(addr, pl)` is exactly the interval `[network, broadcast]` -/
theorem inBlock_iff (v6 : Bool) (addr pl x : Nat) :
    inBlock v6 addr pl x ↔ network v6 addr pl ≤ x ∧ x ≤ broadcast v6 addr pl := by
  have hh : 0 < 2 ^ (width v6 - pl) := Nat.two_pow_pos _
  simp only [inBlock, network, broadcast]
  exact div_eq_iff' x _ _ hh

theorem inBlock_self (v6 : Bool) (addr pl : Nat) : inBlock v6 addr pl addr := rfl

/-! ### bit-mask formulation (Rust: `addr & netmask(prefix)`, `addr | hostmask(prefix)`) -/

/-- `u{w}::MAX.checked_shl(w - p).unwrap_or(0)` (the shift is `None` when the amount is ≥ the bit width) -/
def rustNetmask (w p : Nat) : Nat := if w - p < w then ((2 ^ w - 1) <<< (w - p)) % 2 ^ w else 0

/-- `u{w}::MAX.checked_shr(p).unwrap_or(0)` -/
def rustHostmask (w p : Nat) : Nat := if p < w then (2 ^ w - 1) >>> p else 0

theorem testBit_of_lt_two_pow {a w i : Nat} (ha : a < 2 ^ w) (hi : w ≤ i) : a.testBit i = false :=
  Nat.testBit_lt_two_pow (Nat.lt_of_lt_of_le ha (Nat.pow_le_pow_right (by decide) hi))

theorem network_eq_and (v6 : Bool) (addr pl : Nat) (ha : addr < 2 ^ width v6) (hp : pl ≤ width v6) :
    network v6 addr pl = addr &&& rustNetmask (width v6) pl := by
  simp only [network, rustNetmask]
  generalize width v6 = w at *
  by_cases h0 : w - pl < w
  · rw [if_pos h0]
    apply Nat.eq_of_testBit_eq
    intro i
    rw [← Nat.shiftRight_eq_div_pow, ← Nat.shiftLeft_eq]
    simp only [Nat.testBit_shiftLeft, Nat.testBit_shiftRight, Nat.testBit_and, Nat.testBit_mod_two_pow,
      Nat.testBit_two_pow_sub_one]
    by_cases hik : w - pl ≤ i
    · have e : w - pl + (i - (w - pl)) = i := by omega
      rw [e]
      by_cases hiw : i < w
      · have : i - (w - pl) < w := by omega
        simp [hik, hiw, this]
      · rw [testBit_of_lt_two_pow ha (by omega)]; simp
    · simp [hik]
  · rw [if_neg h0]
    have : w - pl = w := by omega
    rw [this, Nat.div_eq_of_lt ha]; simp

theorem hostmask_eq (w p : Nat) (hp : p ≤ w) : rustHostmask w p = 2 ^ (w - p) - 1 := by
  unfold rustHostmask
  by_cases h : p < w
  · rw [if_pos h]
    apply Nat.eq_of_testBit_eq
    intro i
    simp only [Nat.testBit_shiftRight, Nat.testBit_two_pow_sub_one]
    rw [decide_eq_decide]
    omega
  · rw [if_neg h]
    have : w - p = 0 := by omega
    rw [this]

theorem broadcast_eq_or (v6 : Bool) (addr pl : Nat) (hp : pl ≤ width v6) :
    broadcast v6 addr pl = addr ||| rustHostmask (width v6) pl := by
  rw [hostmask_eq _ _ hp]
  simp only [broadcast]
  generalize width v6 - pl = k
  apply Nat.eq_of_testBit_eq
  intro j
  have hlt : 2 ^ k - 1 < 2 ^ k := Nat.sub_lt (Nat.two_pow_pos _) (by decide)
  rw [Nat.mul_comm, Nat.testBit_two_pow_mul_add _ hlt]
  simp only [Nat.testBit_or, Nat.testBit_two_pow_sub_one]
  by_cases hj : j < k
  · simp [hj]
  · rw [if_neg hj, ← Nat.shiftRight_eq_div_pow, Nat.testBit_shiftRight]
    have e : k + (j - k) = j := by omega
    rw [e]; simp [hj]

/-! ### standard CIDR containment -/

theorem pow_split (w pa pb : Nat) (hba : pb ≤ pa) (ha : pa ≤ w) :
    2 ^ (w - pb) = 2 ^ (w - pa) * 2 ^ (pa - pb) := by
  rw [← Nat.pow_add]; congr 1; omega

/-- standard CIDR containment: block(a/pa) ⊆ block(b/pb) iff `pb ≤ pa` and `a`, `b` agree on the first `pb` bits -/
theorem subset_iff_prefix (v6 : Bool) (a pa b pb : Nat) (hpa : pa ≤ width v6) (hpb : pb ≤ width v6) :
    (∀ x, inBlock v6 a pa x → inBlock v6 b pb x) ↔
      pb ≤ pa ∧ a / 2 ^ (width v6 - pb) = b / 2 ^ (width v6 - pb) := by
  simp only [inBlock]
  generalize width v6 = w at *
  constructor
  · intro h
    have h1 := h a rfl
    refine ⟨?_, h1⟩
    by_cases hc : pb ≤ pa
    · exact hc
    · exfalso
      have hk : 2 ^ (w - pa) = 2 ^ (w - pb) * 2 ^ (pb - pa) := by
        rw [← Nat.pow_add]; congr 1; omega
      have h2 : 2 ^ 1 ≤ 2 ^ (pb - pa) := Nat.pow_le_pow_right (by decide) (by omega)
      have h3 : 2 ^ (w - pb) * 2 ^ 1 ≤ 2 ^ (w - pb) * 2 ^ (pb - pa) := Nat.mul_le_mul_left _ h2
      have hpos : 0 < 2 ^ (w - pb) := Nat.two_pow_pos _
      have hposa : 0 < 2 ^ (w - pa) := Nat.two_pow_pos _
      generalize hKa : 2 ^ (w - pa) = Ka at *
      generalize hKb : 2 ^ (w - pb) = Kb at *
      generalize 2 ^ (pb - pa) = M at *
      have hx1 : (a / Ka * Ka) / Ka = a / Ka := Nat.mul_div_cancel _ hposa
      have hx2 : (a / Ka * Ka + Kb) / Ka = a / Ka := by
        apply (div_eq_iff' _ _ _ hposa).mpr
        constructor <;> omega
      have e1 := h _ hx1
      have e2 := h _ hx2
      have e3 : (a / Ka * Ka + Kb) / Kb = (a / Ka * Ka) / Kb + 1 := Nat.add_div_right _ hpos
      omega
  · rintro ⟨hle, he⟩ x hx
    have hk := pow_split w pa pb hle hpa
    rw [hk] at he ⊢
    rw [← he, ← Nat.div_div_eq_div_mul, ← Nat.div_div_eq_div_mul, hx]

end Cedar.Ext.IPAddr
