import CedarVerif.Lemmas.PolicySetMerge
/-
C08 helper lemmas, part 12: `merge_policyset` preserves the invariant of API-built sets, for any renaming that is
fresh, injective and covers exactly the conflicts (`RenOK`); part 13 shows that `mergeRenaming` is such a renaming.
-/
namespace Cedar
open LHM

namespace PolicySet

/-- the invariant of sets built through the public API: well-formed, no slot-less bare template, and a static
policy's template has no slots -/
structure Strict (ps : PolicySet) : Prop where
  wf : ps.WF
  nb : ps.NoBareStatic
  ss : ∀ k p, ps.links.get? k = some p → p.link = none → p.template.slots = []

def isBound (ps : PolicySet) (k : String) : Prop :=
  (ps.templates.get? k).isSome = true ∨ (ps.links.get? k).isSome = true

/-- the four conditions under which `merge_policyset` renames an id of `other` -/
def Conflict (A B : PolicySet) (k : String) : Prop :=
  (∃ t t', B.templates.get? k = some t ∧ A.templates.get? k = some t' ∧ t'.beq t = false) ∨
  (∃ p p', B.links.get? k = some p ∧ A.links.get? k = some p' ∧ p'.beq p = false) ∨
  (∃ t, B.templates.get? k = some t ∧ t.isStatic = false ∧ (A.links.get? k).isSome = true) ∨
  (∃ p, B.links.get? k = some p ∧ p.isStatic = false ∧ (A.templates.get? k).isSome = true)

/-- what the merge needs from the renaming: exactly the conflicting ids are renamed, to fresh and distinct ids -/
structure RenOK (A B : PolicySet) (ren : LHM String) : Prop where
  trig : ∀ k, Conflict A B k ↔ ren.get? k ≠ none
  freshA : ∀ k n, ren.get? k = some n → ¬ A.isBound n
  freshB : ∀ k n, ren.get? k = some n → ¬ B.isBound n
  inj : ∀ k k' n, ren.get? k = some n → ren.get? k' = some n → k = k'

theorem Conflict.boundB {A B : PolicySet} {k : String} (h : Conflict A B k) : B.isBound k := by
  rcases h with ⟨t, _, h, _⟩ | ⟨p, _, h, _⟩ | ⟨t, h, _⟩ | ⟨p, h, _⟩
  · exact Or.inl (by simp [h])
  · exact Or.inr (by simp [h])
  · exact Or.inl (by simp [h])
  · exact Or.inr (by simp [h])

theorem renamed_none {ren : LHM String} {k : String} (h : ren.get? k = none) : renamed ren k = k := by
  unfold renamed; rw [h]

theorem renamed_some {ren : LHM String} {k n : String} (h : ren.get? k = some n) : renamed ren k = n := by
  unfold renamed; rw [h]

namespace RenOK

variable {A B : PolicySet} {ren : LHM String}

theorem none_of_not_boundB (ok : RenOK A B ren) {n : String} (h : ¬ B.isBound n) : ren.get? n = none := by
  cases hg : ren.get? n with
  | none => rfl
  | some m => exact absurd ((ok.trig n).mpr (by simp [hg])).boundB h

theorem rho_inj (ok : RenOK A B ren) {k k' : String} (hk : B.isBound k) (hk' : B.isBound k')
    (h : renamed ren k = renamed ren k') : k = k' := by
  cases h1 : ren.get? k with
  | none =>
    cases h2 : ren.get? k' with
    | none => rw [renamed_none h1, renamed_none h2] at h; exact h
    | some n' =>
      rw [renamed_none h1, renamed_some h2] at h
      subst h
      exact absurd hk (ok.freshB k' _ h2)
  | some n =>
    cases h2 : ren.get? k' with
    | none =>
      rw [renamed_some h1, renamed_none h2] at h
      subst h
      exact absurd hk' (ok.freshB k _ h1)
    | some n' =>
      rw [renamed_some h1, renamed_some h2] at h
      subst h
      exact ok.inj k k' n h1 h2

theorem none_of_boundA (ok : RenOK A B ren) {k : String} (h : A.isBound (renamed ren k)) : ren.get? k = none := by
  cases h1 : ren.get? k with
  | none => rfl
  | some n => rw [renamed_some h1] at h; exact absurd h (ok.freshA k n h1)

theorem r1 (ok : RenOK A B ren) {k : String} {t t' : Template} (hb : B.templates.get? k = some t)
    (ha : A.templates.get? k = some t') (hr : ren.get? k = none) : t' = t := by
  cases hq : t'.beq t with
  | true => exact Template.beq_eq hq
  | false => exact absurd hr ((ok.trig k).mp (Or.inl ⟨t, t', hb, ha, hq⟩))

theorem r2 (ok : RenOK A B ren) {k : String} {p p' : TPolicy} (hb : B.links.get? k = some p)
    (ha : A.links.get? k = some p') (hr : ren.get? k = none) : p' = p := by
  cases hq : p'.beq p with
  | true => exact TPolicy.beq_eq hq
  | false => exact absurd hr ((ok.trig k).mp (Or.inr (Or.inl ⟨p, p', hb, ha, hq⟩)))

theorem r3 (ok : RenOK A B ren) {k : String} {t : Template} (hb : B.templates.get? k = some t)
    (hs : t.slots ≠ []) (ha : (A.links.get? k).isSome = true) : ren.get? k ≠ none := by
  apply (ok.trig k).mp
  refine Or.inr (Or.inr (Or.inl ⟨t, hb, ?_, ha⟩))
  unfold Template.isStatic
  cases hh : t.slots with
  | nil => exact absurd hh hs
  | cons a l => rfl

theorem r4 (ok : RenOK A B ren) {k : String} {p : TPolicy} (hb : B.links.get? k = some p)
    (hs : p.link ≠ none) (ha : (A.templates.get? k).isSome = true) : ren.get? k ≠ none := by
  apply (ok.trig k).mp
  refine Or.inr (Or.inr (Or.inr ⟨p, hb, ?_, ha⟩))
  unfold TPolicy.isStatic
  cases hh : p.link with
  | none => exact absurd hh hs
  | some l => rfl

end RenOK

/-! ### lookups in a map built by folding `insert` of the renamed entries of `B` over `A` -/

theorem union_get? {α} (ρ : String → String) (g : String → α → α) (A B U : LHM α)
    (hin : ∀ k v, B.get? k = some v → U.get? (ρ k) = some (g k v))
    (hout : ∀ x, (∀ k, (B.get? k).isSome = true → ρ k ≠ x) → U.get? x = A.get? x)
    (inj : ∀ k k', (B.get? k).isSome = true → (B.get? k').isSome = true → ρ k = ρ k' → k = k')
    (agree : ∀ k v a, B.get? k = some v → A.get? (ρ k) = some a → g k v = a) (x : String) (v : α) :
    U.get? x = some v ↔ A.get? x = some v ∨ ∃ k v0, B.get? k = some v0 ∧ ρ k = x ∧ v = g k v0 := by
  by_cases hx : ∃ k, (B.get? k).isSome = true ∧ ρ k = x
  · obtain ⟨k, hk, rfl⟩ := hx
    cases hv0 : B.get? k with
    | none => rw [hv0] at hk; cases hk
    | some v0 =>
      rw [hin k v0 hv0]
      constructor
      · intro h; cases h; exact Or.inr ⟨k, v0, hv0, rfl, rfl⟩
      · rintro (h | ⟨k', v0', hk', he, rfl⟩)
        · rw [agree k v0 v hv0 h]
        · have := inj k' k (by simp [hk']) hk he
          subst this
          rw [hv0] at hk'; cases hk'; rfl
  · rw [hout x (fun k hk e => hx ⟨k, hk, e⟩)]
    constructor
    · intro h; exact Or.inl h
    · rintro (h | ⟨k, v0, hk, he, _⟩)
      · exact h
      · exact absurd ⟨k, by simp [hk], he⟩ hx


/-! ### the stored entries -/

theorem tren_none {ren : LHM String} {k : String} (t : Template) (h : ren.get? k = none) : tren ren k t = t := by
  unfold tren; rw [h]

theorem tren_id (ren : LHM String) (k : String) (t : Template) (h : t.id = k) : (tren ren k t).id = renamed ren k := by
  unfold tren renamed
  cases ren.get? k with
  | none => exact h
  | some n => rfl

theorem tren_slots (ren : LHM String) (k : String) (t : Template) : (tren ren k t).slots = t.slots := by
  unfold tren
  cases ren.get? k <;> rfl

/-- the policy stored for `other`'s policy `k`: its template renamed as the template map renames it, its link id
(if any) renamed as `k` is -/
theorem pren_spec {A B : PolicySet} {ren : LHM String} (ok : RenOK A B ren) (wfB : B.WF) {k : String} {p : TPolicy}
    (hp : B.links.get? k = some p) :
    pren ren k p = { template := tren ren p.template.id p.template, link := p.link.map (fun _ => renamed ren k),
                     values := p.values } := by
  have hid := wfB.lKey k p hp
  unfold TPolicy.id at hid
  obtain ⟨tm, lk, vals⟩ := p
  cases lk with
  | none =>
    simp only at hid
    subst hid
    unfold pren tren
    cases hr : ren.get? tm.id with
    | none => simp [hr]
    | some n =>
      have hn : ren.get? n = none := ok.none_of_not_boundB (ok.freshB _ n hr)
      have hid2 : (tm.newId n).id = n := rfl
      simp [hr, TPolicy.newId, hid2, hn]
  | some l =>
    simp only at hid
    subst hid
    unfold pren tren renamed
    cases hr : ren.get? l with
    | none =>
      cases ht : ren.get? tm.id with
      | none => simp [hr, ht]
      | some nt => simp [hr, ht, TPolicy.isStatic]
    | some n =>
      cases ht : ren.get? tm.id with
      | none => simp [hr, ht, TPolicy.newId]
      | some nt => simp [hr, ht, TPolicy.newId, TPolicy.isStatic]

theorem mem_mren (ren : LHM String) (s : List String) (cur : Option (List String)) (x : String) :
    x ∈ mren ren s cur ↔ (∃ s0, cur = some s0 ∧ x ∈ s0) ∨ ∃ y, y ∈ s ∧ renamed ren y = x := by
  unfold mren
  have gen : ∀ (s acc : List String), x ∈ s.foldl (fun s pid => lhsInsert s (renamed ren pid)) acc ↔
      x ∈ acc ∨ ∃ y, y ∈ s ∧ renamed ren y = x := by
    intro s
    induction s with
    | nil => intro acc; simp
    | cons a rest ih =>
      intro acc
      simp only [List.foldl_cons, ih, mem_lhsInsert, List.mem_cons]
      constructor
      · rintro ((h | h) | ⟨y, hy, he⟩)
        · exact Or.inl h
        · exact Or.inr ⟨a, Or.inl rfl, h.symm⟩
        · exact Or.inr ⟨y, Or.inr hy, he⟩
      · rintro (h | ⟨y, (rfl | hy), he⟩)
        · exact Or.inl (Or.inl h)
        · exact Or.inl (Or.inr he.symm)
        · exact Or.inr ⟨y, hy, he⟩
  rw [gen]
  cases cur with
  | none => simp
  | some s0 => simp


/-! ### the merged maps -/

section
variable {A B : PolicySet} {ren : LHM String}

theorem checkBinding_congr {t t' : Template} (h : t.slots = t'.slots) (v : SlotVals) :
    t.checkBinding v = t'.checkBinding v := by
  unfold Template.checkBinding; rw [h]

theorem isSome_iff_exists {α} (o : Option α) : o.isSome = true ↔ ∃ v, o = some v := by
  cases o <;> simp

theorem U_templates (ok : RenOK A B ren) (wfB : B.WF) (x : String) (t : Template) :
    (mergeCore A B ren).templates.get? x = some t ↔
      A.templates.get? x = some t ∨ ∃ k t0, B.templates.get? k = some t0 ∧ renamed ren k = x ∧ t = tren ren k t0 := by
  obtain ⟨hin, hout, _⟩ := LHM.foldl_insStep (renamed ren) (fun k t (_ : Option Template) => tren ren k t)
    B.templates A.templates wfB.tNodup (fun k k' hk hk' => ok.rho_inj (Or.inl hk) (Or.inl hk'))
  refine union_get? (renamed ren) (tren ren) A.templates B.templates _ hin hout
    (fun k k' hk hk' => ok.rho_inj (Or.inl hk) (Or.inl hk')) ?_ x t
  intro k v a hb ha
  have hr := ok.none_of_boundA (k := k) (Or.inl (by simp [ha]))
  rw [renamed_none hr] at ha
  rw [tren_none _ hr]; exact (ok.r1 hb ha hr).symm

/-- a policy stored under the same id on both sides and not renamed is stored unchanged -/
theorem pren_unrenamed (ok : RenOK A B ren) (wfA : A.WF) (wfB : B.WF) {k : String} {p : TPolicy}
    (hb : B.links.get? k = some p) (ha : A.links.get? k = some p) (hr : ren.get? k = none) : pren ren k p = p := by
  rw [pren_spec ok wfB hb, renamed_none hr]
  have hid := wfB.lKey k p hb
  unfold TPolicy.id at hid
  obtain ⟨tm, lk, vals⟩ := p
  cases lk with
  | none =>
    simp only at hid
    subst hid
    simp [tren_none _ hr]
  | some l =>
    simp only at hid
    subst hid
    have htn : ren.get? tm.id = none := by
      cases hg : ren.get? tm.id with
      | none => rfl
      | some n =>
        exfalso
        have hBT := wfB.lTemplate l _ hb
        have hAT := wfA.lTemplate l _ ha
        have hBL := wfB.staticOne l _ hb (by simp)
        have hAL := wfA.staticOne l _ ha (by simp)
        simp only at hBT hAT hBL hAL
        rcases (ok.trig tm.id).mpr (by simp [hg]) with ⟨t, t', h1, h2, h3⟩ | ⟨q, q', h1, _⟩ | ⟨t, _, _, h3⟩ | ⟨q, h1, _⟩
        · rw [hBT] at h1; rw [hAT] at h2; cases h1; cases h2
          rw [Template.beq_refl] at h3; cases h3
        · rw [hBL] at h1; cases h1
        · rw [hAL] at h3; cases h3
        · rw [hBL] at h1; cases h1
    simp [tren_none _ htn]

theorem U_links (ok : RenOK A B ren) (wfA : A.WF) (wfB : B.WF) (x : String) (p : TPolicy) :
    (mergeCore A B ren).links.get? x = some p ↔
      A.links.get? x = some p ∨ ∃ k p0, B.links.get? k = some p0 ∧ renamed ren k = x ∧ p = pren ren k p0 := by
  obtain ⟨hin, hout, _⟩ := LHM.foldl_insStep (renamed ren) (fun k p (_ : Option TPolicy) => pren ren k p)
    B.links A.links wfB.lNodup (fun k k' hk hk' => ok.rho_inj (Or.inr hk) (Or.inr hk'))
  refine union_get? (renamed ren) (pren ren) A.links B.links _ hin hout
    (fun k k' hk hk' => ok.rho_inj (Or.inr hk) (Or.inr hk')) ?_ x p
  intro k v a hb ha
  have hr := ok.none_of_boundA (k := k) (Or.inr (by simp [ha]))
  rw [renamed_none hr] at ha
  have := ok.r2 hb ha hr
  subst this
  exact pren_unrenamed ok wfA wfB hb ha hr

theorem U_templates_some (ok : RenOK A B ren) (wfB : B.WF) (x : String) :
    ((mergeCore A B ren).templates.get? x).isSome = true ↔
      (A.templates.get? x).isSome = true ∨ ∃ k, (B.templates.get? k).isSome = true ∧ renamed ren k = x := by
  simp only [isSome_iff_exists, U_templates ok wfB]
  constructor
  · rintro ⟨t, (h | ⟨k, t0, hk, he, _⟩)⟩
    · exact Or.inl ⟨t, h⟩
    · exact Or.inr ⟨k, ⟨t0, hk⟩, he⟩
  · rintro (⟨t, h⟩ | ⟨k, ⟨t0, hk⟩, he⟩)
    · exact ⟨t, Or.inl h⟩
    · exact ⟨_, Or.inr ⟨k, t0, hk, he, rfl⟩⟩

theorem boundB_of_t2l (wfB : B.WF) {k : String} (h : (B.t2l.get? k).isSome = true) : B.isBound k :=
  Or.inl (by rw [← wfB.mKeys]; exact h)

theorem U_t2l (ok : RenOK A B ren) (wfB : B.WF) (x : String) :
    (((mergeCore A B ren).t2l.get? x).isSome = true ↔
      (A.t2l.get? x).isSome = true ∨ ∃ k, (B.t2l.get? k).isSome = true ∧ renamed ren k = x) ∧
    (∀ s, (mergeCore A B ren).t2l.get? x = some s → ∀ id, id ∈ s ↔
      (∃ s0, A.t2l.get? x = some s0 ∧ id ∈ s0) ∨
      (∃ k s0, B.t2l.get? k = some s0 ∧ renamed ren k = x ∧ ∃ y, y ∈ s0 ∧ renamed ren y = id)) := by
  have hinj : ∀ k k', (B.t2l.get? k).isSome = true → (B.t2l.get? k').isSome = true →
      renamed ren k = renamed ren k' → k = k' :=
    fun k k' hk hk' => ok.rho_inj (boundB_of_t2l wfB hk) (boundB_of_t2l wfB hk')
  obtain ⟨hin, hout, _⟩ := LHM.foldl_insStep (renamed ren) (fun (_ : String) s cur => mren ren s cur)
    B.t2l A.t2l wfB.mNodup hinj
  by_cases hx : ∃ k, (B.t2l.get? k).isSome = true ∧ renamed ren k = x
  · obtain ⟨k, hk, rfl⟩ := hx
    obtain ⟨s0, hs0⟩ := (isSome_iff_exists _).mp hk
    have hU : (mergeCore A B ren).t2l.get? (renamed ren k) = some (mren ren s0 (A.t2l.get? (renamed ren k))) :=
      hin k s0 hs0
    refine ⟨?_, ?_⟩
    · rw [hU]; simp only [Option.isSome_some, true_iff]; exact Or.inr ⟨k, hk, rfl⟩
    · intro s hs id
      rw [hU] at hs; cases hs
      rw [mem_mren]
      constructor
      · rintro (h | h)
        · exact Or.inl h
        · exact Or.inr ⟨k, s0, hs0, rfl, h⟩
      · rintro (h | ⟨k', s0', hk', he, h⟩)
        · exact Or.inl h
        · have := hinj k' k (by simp [hk']) hk he
          subst this
          rw [hs0] at hk'; cases hk'
          exact Or.inr h
  · have hU : (mergeCore A B ren).t2l.get? x = A.t2l.get? x := hout x (fun k hk e => hx ⟨k, hk, e⟩)
    refine ⟨?_, ?_⟩
    · rw [hU]
      constructor
      · intro h; exact Or.inl h
      · rintro (h | h)
        · exact h
        · exact absurd h hx
    · intro s hs id
      rw [hU] at hs
      constructor
      · intro h; exact Or.inl ⟨s, hs, h⟩
      · rintro (⟨s0, h0, h⟩ | ⟨k, s0, hk, he, _⟩)
        · rw [hs] at h0; cases h0; exact h
        · exact absurd ⟨k, by simp [hk], he⟩ hx

end

end PolicySet
end Cedar
