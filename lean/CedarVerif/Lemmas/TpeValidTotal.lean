import CedarVerif.Lemmas.TpeValid2
/-
C14 / C15 bridge to C03: `try_from_typed_expr` does not fail on the typed AST of a static policy — `annotate` answers only
where no `unknown` occurs, and an expression of the fragment of an UNLINKED environment contains no slot — so
`tpe::is_authorized` / `policy_residual_map` (`isAuthorized`, `initState`) succeed on validated static policies.
-/
namespace Cedar.Tpe.Valid
open Cedar Cedar.Tpe Cedar.C03
open Cedar.Level (TExpr annotate annotateList annotateKVs eraseList eraseKVs)

variable {m : ValidationMode} {s : Schema} {env : RequestEnv}

mutual
theorem annot_ofExpr_some (hp : env.principalSlot = none) (hr : env.resourceSlot = none) :
    ∀ (e : Expr), InFragmentM m env e = true → ∀ (caps : Capabilities) (te : TExpr), annotate m s env e caps = .ok te →
      ∃ R, Residual.ofExpr te.erase = some R
  | .lit p, _, caps, te, ha => by
    simp only [annotate, Except.ok.injEq] at ha; subst ha
    exact ⟨_, rfl⟩
  | .var v, _, caps, te, ha => by
    simp only [annotate, Except.ok.injEq] at ha; subst ha
    exact ⟨_, rfl⟩
  | .slot sid, hf, caps, te, ha => by
    cases sid <;> simp [InFragmentM, hp, hr] at hf
  | .unknown _ _, _, caps, te, ha => by simp [annotate] at ha
  | .ite c t e, hf, caps, te, ha => by
    simp only [InFragmentM, Bool.and_eq_true] at hf
    obtain ⟨⟨⟨hfc, hft⟩, hfe⟩, _⟩ := hf
    simp only [annotate] at ha
    cases htc : typeOf m s env c caps with
    | error err => simp [htc] at ha
    | ok pc =>
      obtain ⟨τc, cc⟩ := pc
      cases hac : annotate m s env c caps with
      | error err => simp [htc, hac] at ha
      | ok tc =>
        simp only [htc, hac] at ha
        obtain ⟨rc, hrc⟩ := annot_ofExpr_some hp hr c hfc caps tc hac
        split at ha
        · cases hat : annotate m s env t (caps.union cc) with
          | error err => simp [hat] at ha
          | ok tt =>
            simp only [hat, Except.ok.injEq] at ha; subst ha
            obtain ⟨rt, hrt⟩ := annot_ofExpr_some hp hr t hft _ tt hat
            exact ⟨_, by simp only [TExpr.erase, Residual.ofExpr, hrc, hrt] <;> rfl⟩
        · split at ha
          · cases hae : annotate m s env e caps with
            | error err => simp [hae] at ha
            | ok te' =>
              simp only [hae, Except.ok.injEq] at ha; subst ha
              obtain ⟨re, hre⟩ := annot_ofExpr_some hp hr e hfe _ te' hae
              exact ⟨_, by simp only [TExpr.erase, Residual.ofExpr, hrc, hre] <;> rfl⟩
          · cases hat : annotate m s env t (caps.union cc) with
            | error err => simp [hat] at ha
            | ok tt =>
              cases hae : annotate m s env e caps with
              | error err => simp [hat, hae] at ha
              | ok te' =>
                simp only [hat, hae, Except.ok.injEq] at ha; subst ha
                obtain ⟨rt, hrt⟩ := annot_ofExpr_some hp hr t hft _ tt hat
                obtain ⟨re, hre⟩ := annot_ofExpr_some hp hr e hfe _ te' hae
                exact ⟨_, by simp only [TExpr.erase, Residual.ofExpr, hrc, hrt, hre] <;> rfl⟩
  | .and a b, hf, caps, te, ha => by
    simp only [InFragmentM, Bool.and_eq_true] at hf
    simp only [annotate] at ha
    cases hta : typeOf m s env a caps with
    | error err => simp [hta] at ha
    | ok pa =>
      obtain ⟨τa, ca⟩ := pa
      cases haa : annotate m s env a caps with
      | error err => simp [hta, haa] at ha
      | ok ta =>
        simp only [hta, haa] at ha
        obtain ⟨ra, hra⟩ := annot_ofExpr_some hp hr a hf.1 caps ta haa
        split at ha
        · simp only [Except.ok.injEq] at ha; subst ha; exact ⟨ra, hra⟩
        · cases hab : annotate m s env b (caps.union ca) with
          | error err => simp [hab] at ha
          | ok tb =>
            simp only [hab, Except.ok.injEq] at ha; subst ha
            obtain ⟨rb, hrb⟩ := annot_ofExpr_some hp hr b hf.2 _ tb hab
            exact ⟨_, by simp only [TExpr.erase, Residual.ofExpr, hra, hrb] <;> rfl⟩
  | .or a b, hf, caps, te, ha => by
    simp only [InFragmentM, Bool.and_eq_true] at hf
    simp only [annotate] at ha
    cases hta : typeOf m s env a caps with
    | error err => simp [hta] at ha
    | ok pa =>
      obtain ⟨τa, ca⟩ := pa
      cases haa : annotate m s env a caps with
      | error err => simp [hta, haa] at ha
      | ok ta =>
        simp only [hta, haa] at ha
        obtain ⟨ra, hra⟩ := annot_ofExpr_some hp hr a hf.1 caps ta haa
        split at ha
        · simp only [Except.ok.injEq] at ha; subst ha; exact ⟨ra, hra⟩
        · cases hab : annotate m s env b caps with
          | error err => simp [hab] at ha
          | ok tb =>
            simp only [hab, Except.ok.injEq] at ha; subst ha
            obtain ⟨rb, hrb⟩ := annot_ofExpr_some hp hr b hf.2 _ tb hab
            exact ⟨_, by simp only [TExpr.erase, Residual.ofExpr, hra, hrb] <;> rfl⟩
  | .unaryApp op a, hf, caps, te, ha => by
    simp only [InFragmentM] at hf
    simp only [annotate] at ha
    cases haa : annotate m s env a caps with
    | error err => simp [haa] at ha
    | ok ta =>
      simp only [haa, Except.ok.injEq] at ha; subst ha
      obtain ⟨ra, hra⟩ := annot_ofExpr_some hp hr a hf caps ta haa
      exact ⟨_, by simp only [TExpr.erase, Residual.ofExpr, hra, Option.map_some] <;> rfl⟩
  | .binaryApp op a b, hf, caps, te, ha => by
    simp only [InFragmentM, Bool.and_eq_true] at hf
    simp only [annotate] at ha
    cases haa : annotate m s env a caps with
    | error err => simp [haa] at ha
    | ok ta =>
      cases hab : annotate m s env b caps with
      | error err => simp [haa, hab] at ha
      | ok tb =>
        simp only [haa, hab, Except.ok.injEq] at ha; subst ha
        obtain ⟨ra, hra⟩ := annot_ofExpr_some hp hr a hf.1.2 caps ta haa
        obtain ⟨rb, hrb⟩ := annot_ofExpr_some hp hr b hf.2 caps tb hab
        exact ⟨_, by simp only [TExpr.erase, Residual.ofExpr, hra, hrb] <;> rfl⟩
  | .call fn args, hf, caps, te, ha => by
    simp only [InFragmentM] at hf
    simp only [annotate] at ha
    cases hl : annotateList m s env args caps with
    | error err => simp [hl] at ha
    | ok ts =>
      simp only [hl, Except.ok.injEq] at ha; subst ha
      obtain ⟨rs, hrs⟩ := annot_ofExprList_some hp hr args hf caps ts hl
      exact ⟨_, by simp only [TExpr.erase, Residual.ofExpr, hrs, Option.map_some] <;> rfl⟩
  | .getAttr e a, hf, caps, te, ha => by
    simp only [InFragmentM] at hf
    simp only [annotate] at ha
    cases hte : typeOf m s env e caps with
    | error err => simp [hte] at ha
    | ok pe =>
      cases hae : annotate m s env e caps with
      | error err => simp [hte, hae] at ha
      | ok te' =>
        simp only [hte, hae, Except.ok.injEq] at ha; subst ha
        obtain ⟨re, hre⟩ := annot_ofExpr_some hp hr e hf caps te' hae
        exact ⟨_, by simp only [TExpr.erase, Residual.ofExpr, hre, Option.map_some] <;> rfl⟩
  | .hasAttr e a, hf, caps, te, ha => by
    simp only [InFragmentM] at hf
    simp only [annotate] at ha
    cases hte : typeOf m s env e caps with
    | error err => simp [hte] at ha
    | ok pe =>
      cases hae : annotate m s env e caps with
      | error err => simp [hte, hae] at ha
      | ok te' =>
        simp only [hte, hae, Except.ok.injEq] at ha; subst ha
        obtain ⟨re, hre⟩ := annot_ofExpr_some hp hr e hf caps te' hae
        exact ⟨_, by simp only [TExpr.erase, Residual.ofExpr, hre, Option.map_some] <;> rfl⟩
  | .like e p, hf, caps, te, ha => by
    simp only [InFragmentM] at hf
    simp only [annotate] at ha
    cases hae : annotate m s env e caps with
    | error err => simp [hae] at ha
    | ok te' =>
      simp only [hae, Except.ok.injEq] at ha; subst ha
      obtain ⟨re, hre⟩ := annot_ofExpr_some hp hr e hf caps te' hae
      exact ⟨_, by simp only [TExpr.erase, Residual.ofExpr, hre, Option.map_some] <;> rfl⟩
  | .is e ty, hf, caps, te, ha => by
    simp only [InFragmentM] at hf
    simp only [annotate] at ha
    cases hae : annotate m s env e caps with
    | error err => simp [hae] at ha
    | ok te' =>
      simp only [hae, Except.ok.injEq] at ha; subst ha
      obtain ⟨re, hre⟩ := annot_ofExpr_some hp hr e hf caps te' hae
      exact ⟨_, by simp only [TExpr.erase, Residual.ofExpr, hre, Option.map_some] <;> rfl⟩
  | .set xs, hf, caps, te, ha => by
    simp only [InFragmentM, Bool.and_eq_true] at hf
    simp only [annotate] at ha
    cases hl : annotateList m s env xs caps with
    | error err => simp [hl] at ha
    | ok ts =>
      simp only [hl, Except.ok.injEq] at ha; subst ha
      obtain ⟨rs, hrs⟩ := annot_ofExprList_some hp hr xs hf.1 caps ts hl
      exact ⟨_, by simp only [TExpr.erase, Residual.ofExpr, hrs, Option.map_some] <;> rfl⟩
  | .record kvs, hf, caps, te, ha => by
    simp only [InFragmentM, Bool.and_eq_true] at hf
    simp only [annotate] at ha
    cases hl : annotateKVs m s env kvs caps with
    | error err => simp [hl] at ha
    | ok ts =>
      simp only [hl, Except.ok.injEq] at ha; subst ha
      obtain ⟨rs, hrs⟩ := annot_ofExprKVs_some hp hr kvs hf.1 caps ts hl
      exact ⟨_, by simp only [TExpr.erase, Residual.ofExpr, hrs, Option.map_some] <;> rfl⟩
theorem annot_ofExprList_some (hp : env.principalSlot = none) (hr : env.resourceSlot = none) :
    ∀ (es : List Expr), InFragmentMList m env es = true → ∀ (caps : Capabilities) (ts : List TExpr),
      annotateList m s env es caps = .ok ts → ∃ rs, Residual.ofExprList (eraseList ts) = some rs
  | [], _, caps, ts, ha => by
    simp only [annotateList, Except.ok.injEq] at ha; subst ha
    exact ⟨[], rfl⟩
  | e :: es, hf, caps, ts, ha => by
    simp only [InFragmentMList, Bool.and_eq_true] at hf
    simp only [annotateList] at ha
    cases ha1 : annotate m s env e caps with
    | error err => simp [ha1] at ha
    | ok t =>
      cases ha2 : annotateList m s env es caps with
      | error err => simp [ha1, ha2] at ha
      | ok ts' =>
        simp only [ha1, ha2, Except.ok.injEq] at ha; subst ha
        obtain ⟨r, hr1⟩ := annot_ofExpr_some hp hr e hf.1 caps t ha1
        obtain ⟨rs, hr2⟩ := annot_ofExprList_some hp hr es hf.2 caps ts' ha2
        exact ⟨r :: rs, by simp only [eraseList, Residual.ofExprList, hr1, hr2] <;> rfl⟩
theorem annot_ofExprKVs_some (hp : env.principalSlot = none) (hr : env.resourceSlot = none) :
    ∀ (es : List (String × Expr)), InFragmentMKVs m env es = true → ∀ (caps : Capabilities) (ts : List (String × TExpr)),
      annotateKVs m s env es caps = .ok ts → ∃ rs, Residual.ofExprKVs (eraseKVs ts) = some rs
  | [], _, caps, ts, ha => by
    simp only [annotateKVs, Except.ok.injEq] at ha; subst ha
    exact ⟨[], rfl⟩
  | (k, e) :: es, hf, caps, ts, ha => by
    simp only [InFragmentMKVs, Bool.and_eq_true] at hf
    simp only [annotateKVs] at ha
    cases ha1 : annotate m s env e caps with
    | error err => simp [ha1] at ha
    | ok t =>
      cases ha2 : annotateKVs m s env es caps with
      | error err => simp [ha1, ha2] at ha
      | ok ts' =>
        simp only [ha1, ha2, Except.ok.injEq] at ha; subst ha
        obtain ⟨r, hr1⟩ := annot_ofExpr_some hp hr e hf.1 caps t ha1
        obtain ⟨rs, hr2⟩ := annot_ofExprKVs_some hp hr es hf.2 caps ts' ha2
        exact ⟨(k, r) :: rs, by simp only [eraseKVs, Residual.ofExprKVs, hr1, hr2] <;> rfl⟩
end

/-- `mapM?` succeeds when every element does -/
theorem mapM?_some {α β : Type} {f : α → Option β} : ∀ (l : List α), (∀ x, x ∈ l → ∃ y, f x = some y) → ∃ ys, mapM? f l = some ys
  | [], _ => ⟨[], rfl⟩
  | x :: xs, h => by
    obtain ⟨y, hy⟩ := h x List.mem_cons_self
    obtain ⟨ys, hys⟩ := mapM?_some xs (fun z hz => h z (List.mem_cons_of_mem _ hz))
    exact ⟨y :: ys, by simp only [mapM?, hy, hys] <;> rfl⟩

/-- **`tpe::is_authorized` does not fail on validated static policies** (no `TpeError`) -/
theorem valid_isAuthorized_some {s : Schema} {env : RequestEnv} {tps : List TPolicy} (hV : ValidTyped s env tps)
    (hp : env.principalSlot = none) (hr : env.resourceSlot = none) (preq : PRequest) (pes : PEntities) :
    ∃ resp, isAuthorized preq pes tps = some resp := by
  obtain ⟨rs, hrs⟩ := mapM?_some (f := residualPolicyOf preq pes) tps (by
    intro tp htp
    obtain ⟨te, hte, hty⟩ := hV.typed tp htp
    obtain ⟨R, hR⟩ := annot_ofExpr_some hp hr tp.policy.condition ((hV.valid tp htp).frag env) [] te hte
    exact ⟨_, by simp only [residualPolicyOf, hty, hR, Option.map_some] <;> rfl⟩)
  exact ⟨_, by simp only [isAuthorized, hrs, Option.map_some] <;> rfl⟩

/-- `policy_residual_map` of the batched evaluator does not fail on validated static policies -/
theorem valid_initState_some {s : Schema} {env : RequestEnv} {tps : List TPolicy} (hV : ValidTyped s env tps)
    (hp : env.principalSlot = none) (hr : env.resourceSlot = none) (preq : PRequest) :
    ∃ st0, Batched.initState preq tps = some st0 := by
  obtain ⟨resp, h⟩ := valid_isAuthorized_some hV hp hr preq []
  unfold isAuthorized at h
  cases hm : mapM? (residualPolicyOf preq ([] : PEntities)) tps with
  | none => simp [hm] at h
  | some rs => exact ⟨_, by simp only [Batched.initState, hm, Option.map_some] <;> rfl⟩

/-- the environment of a partial request is the environment of every request with its types and action -/
theorem EnvOfPartial.envOf_types {s : Schema} {env : RequestEnv} {preq : PRequest} {q : Request} (h : EnvOfPartial s env preq)
    (hp : q.principal.ty = preq.principal.ty) (ha : q.action = preq.action) (hr : q.resource.ty = preq.resource.ty) :
    EnvOf s env q := by
  obtain ⟨a, hact, hctx⟩ := h.context
  refine ⟨⟨?_, ?_, ?_, a, ?_, hctx⟩, h.pslot, h.rslot⟩
  · rw [h.principal, hp]
  · rw [h.action, ha]
  · rw [h.resource, hr]
  · rw [ha]; exact hact

/-- the environment of a request is the environment of the partial request the batched evaluator starts from -/
theorem EnvOf.ofPrequest {s : Schema} {env : RequestEnv} {q : Request} (h : EnvOf s env q) :
    EnvOfPartial s env (Batched.prequestOf q) := by
  obtain ⟨⟨h1, h2, h3, a, ha, h4⟩, hp, hr⟩ := h
  exact ⟨h1, h2, h3, ⟨a, ha, h4⟩, hp, hr⟩

/-- `ValidStatic` from the premises in C03's vocabulary: distinct record keys (Rust's `ExprKind::Record` is a map), no slot
(`SlotsLinked` in an environment without slot types), accepted by the strict typechecker -/
theorem validStatic_of {s : Schema} {p : Policy} (hst : p.env = []) (hk : RecordKeysDistinct p.condition = true)
    (hsl : ∀ env, SlotsLinked env p.condition = true) {vs : List (RequestEnv × Verdict)}
    (hcp : checkPolicy .strict s .absent .absent p.condition = some vs) (hacc : accepted vs = true) : ValidStatic s p :=
  ⟨hst, fun env => inFragment2_of env p.condition hk (hsl env), ⟨vs, hcp, hacc⟩⟩

end Cedar.Tpe.Valid
