import CedarVerif.Cedar.Syntax.Escape
/-
Helper lemmas for C05: `unescape ∘ escape = id` for every choice of the `mustEscape` predicate.
-/
namespace Cedar.Syntax
open Cedar

/-- value of a digit string continuing from `v` (what the loop of `unicode_escape` accumulates) -/
def hexValue (v : Nat) (ds : List Char) : Nat := ds.foldl (fun a d => a * 16 + (hexVal d).getD 0) v

def IsHexDigitChar (c : Char) : Prop := ∃ k, k < 16 ∧ c = hexDigitChar k

theorem hexVal_hexDigitChar : ∀ k, k < 16 → hexVal (hexDigitChar k) = some k := by
  have h : ∀ k : Fin 16, hexVal (hexDigitChar k.val) = some k.val := by decide
  intro k hk; exact h ⟨k, hk⟩

theorem hexDigitChar_ne : ∀ k, k < 16 → hexDigitChar k ≠ '_' ∧ hexDigitChar k ≠ '}' := by
  have h : ∀ k : Fin 16, hexDigitChar k.val ≠ '_' ∧ hexDigitChar k.val ≠ '}' := by decide
  intro k hk; exact h ⟨k, hk⟩

theorem hexDigits_spec : ∀ f n, n < 16 ^ f → 1 ≤ f →
    (∀ d ∈ hexDigits f n, IsHexDigitChar d) ∧ 1 ≤ (hexDigits f n).length ∧ (hexDigits f n).length ≤ f ∧
    hexValue 0 (hexDigits f n) = n := by
  intro f
  induction f with
  | zero => intro n _ h; omega
  | succ f ih =>
    intro n hn _
    unfold hexDigits
    by_cases h16 : n < 16
    · simp only [h16, if_true]
      refine ⟨?_, by simp, by simp, ?_⟩
      · intro d hd; simp at hd; exact ⟨n, h16, hd⟩
      · simp [hexValue, hexVal_hexDigitChar n h16]
    · simp only [h16, if_false]
      have hf : 1 ≤ f := by
        cases f with
        | zero => simp at hn; omega
        | succ f => omega
      have hdiv : n / 16 < 16 ^ f := by
        rw [Nat.pow_succ] at hn
        exact Nat.div_lt_of_lt_mul (by rw [Nat.mul_comm]; exact hn)
      obtain ⟨h1, h2, h3, h4⟩ := ih (n / 16) hdiv hf
      have hm : n % 16 < 16 := Nat.mod_lt _ (by decide)
      refine ⟨?_, by simp, by simp; omega, ?_⟩
      · intro d hd
        rw [List.mem_append] at hd
        cases hd with
        | inl h => exact h1 d h
        | inr h => simp at h; exact ⟨n % 16, hm, h⟩
      · unfold hexValue at h4 ⊢
        rw [List.foldl_append, h4]
        simp [hexVal_hexDigitChar _ hm]
        omega

theorem charOfCode_toNat (c : Char) : charOfCode c.toNat = .ok c := by
  have hv := c.valid
  have : c.toNat = c.val.toNat := rfl
  unfold charOfCode
  rw [Char.ofNat_toNat]
  have hv' : c.toNat < 55296 ∨ 57343 < c.toNat ∧ c.toNat < 1114112 := hv
  have h1 : ¬ c.toNat > 0x10FFFF := by omega
  have h2 : ¬ (0xD800 ≤ c.toNat ∧ c.toNat ≤ 0xDFFF) := by omega
  simp [h1, h2]

/-- the digit loop on a well-formed tail -/
theorem unescapeUni_digits (pat : Bool) (rest : List Char) :
    ∀ (ds : List Char) (v nd : Nat), (∀ d ∈ ds, IsHexDigitChar d) → nd + ds.length ≤ 6 →
      unescapeUni pat v nd (ds ++ '}' :: rest) =
        match charOfCode (hexValue v ds) with
        | .error e => .error e
        | .ok ch => (unescapeGo pat rest).map (elemOf pat ch :: ·) := by
  intro ds
  induction ds with
  | nil =>
    intro v nd _ hlen
    simp only [List.nil_append, hexValue, List.foldl_nil]
    rw [unescapeUni]
    have : ¬ nd > 6 := by simp at hlen; omega
    simp [this]
    all_goals (cases charOfCode v <;> rfl)
  | cons d ds ih =>
    intro v nd hd hlen
    obtain ⟨k, hk, rfl⟩ := hd _ (List.mem_cons_self)
    have hne := hexDigitChar_ne k hk
    simp only [List.cons_append]
    rw [unescapeUni]
    simp only [hne.1, hne.2, if_false, hexVal_hexDigitChar k hk]
    have hnd : ¬ nd + 1 > 6 := by simp at hlen; omega
    simp only [hnd, if_false]
    rw [ih (v * 16 + k) (nd + 1) (fun d h => hd d (List.mem_cons_of_mem _ h)) (by simp at hlen ⊢; omega)]
    simp [hexValue, hexVal_hexDigitChar k hk]

theorem unescapeEsc_unicode (pat : Bool) (c : Char) (rest : List Char) :
    unescapeEsc pat ('u' :: '{' :: (hexDigits 6 c.toNat ++ '}' :: rest)) = (unescapeGo pat rest).map (elemOf pat c :: ·) := by
  have hlt : c.toNat < 16 ^ 6 := by
    have hv : c.toNat < 55296 ∨ 57343 < c.toNat ∧ c.toNat < 1114112 := c.valid
    omega
  obtain ⟨h1, h2, h3, h4⟩ := hexDigits_spec 6 c.toNat hlt (by decide)
  generalize hexDigits 6 c.toNat = l at h1 h2 h3 h4
  match l, h2 with
  | d :: ds, _ =>
    obtain ⟨k, hk, rfl⟩ := h1 _ (List.mem_cons_self)
    have hne := hexDigitChar_ne k hk
    simp only [List.cons_append]
    rw [unescapeEsc]
    simp only [show ¬ ('u' = '\n') by decide, show ¬ ('u' = '0') by decide, show ¬ ('u' = '"') by decide,
      show ¬ ('u' = 'n') by decide, show ¬ ('u' = 'r') by decide, show ¬ ('u' = 't') by decide,
      show ¬ ('u' = '\\') by decide, show ¬ ('u' = '\'') by decide, show ¬ ('u' = 'x') by decide, if_false, if_true,
      hne.1, hne.2, hexVal_hexDigitChar k hk]
    rw [unescapeUni_digits pat rest ds k 1 (fun d h => h1 d (List.mem_cons_of_mem _ h)) (by simp at h3; omega)]
    have hval : hexValue k ds = c.toNat := by
      rw [← h4]; simp [hexValue, hexVal_hexDigitChar k hk]
    rw [hval, charOfCode_toNat]

/-- the seven characters `escape_debug` always writes with a backslash -/
def isSpecial (c : Char) : Bool :=
  c = '\x00' || c = '\t' || c = '\r' || c = '\n' || c = '\\' || c = '"' || c = '\''

/-- one escaped character is read back as itself; in pattern mode a bare `*` is excluded (it is printed `\*`) -/
theorem unescapeGo_escapeChar (pat : Bool) (esc : Bool) (c : Char) (rest : List Char) (hstar : ¬ (pat = true ∧ c = '*')) :
    unescapeGo pat (escapeChar esc c ++ rest) = (unescapeGo pat rest).map (.char c :: ·) := by
  unfold escapeChar
  by_cases h0 : c = '\x00'
  · subst h0; simp [unescapeGo, unescapeEsc]
  by_cases h1 : c = '\t'
  · subst h1; simp [unescapeGo, unescapeEsc]
  by_cases h2 : c = '\r'
  · subst h2; simp [unescapeGo, unescapeEsc]
  by_cases h3 : c = '\n'
  · subst h3; simp [unescapeGo, unescapeEsc]
  by_cases h4 : c = '\\'
  · subst h4; simp [unescapeGo, unescapeEsc]
  by_cases h5 : c = '"'
  · subst h5; simp [unescapeGo, unescapeEsc]
  by_cases h6 : c = '\''
  · subst h6; simp [unescapeGo, unescapeEsc]
  simp only [h0, h1, h2, h3, h4, h5, h6, if_false]
  have hel : elemOf pat c = .char c := by
    unfold elemOf
    cases pat with
    | false => simp
    | true => simp at hstar; simp [hstar]
  cases esc with
  | true =>
    simp only [if_true, List.cons_append]
    rw [unescapeGo]
    rw [List.append_assoc, ← hel]
    exact unescapeEsc_unicode pat c rest
  | false =>
    simp only [Bool.false_eq_true, if_false, List.cons_append, List.nil_append]
    rw [unescapeGo]
    · simp only [h5, h2, if_false]
      rw [hel]
    · intro hc; exact h4 hc

theorem unescapeGo_escapeStrAt (me : Nat → Char → Bool) : ∀ (s : List Char) (i : Nat),
    unescapeGo false (escapeStrAt me i s) = .ok (s.map .char) := by
  intro s
  induction s with
  | nil => intro i; simp [escapeStrAt, unescapeGo]
  | cons c cs ih =>
    intro i
    rw [escapeStrAt, unescapeGo_escapeChar false _ c _ (by simp), ih]
    rfl

theorem patChars_map_char (s : List Char) : patChars (s.map .char) = s := by
  induction s with
  | nil => rfl
  | cons c cs ih => simp [patChars, ih]

theorem unescapeGo_escapePattern (me : Char → Bool) : ∀ (p : Pattern),
    unescapeGo true (escapePattern me p) = .ok p := by
  intro p
  induction p with
  | nil => simp [escapePattern, unescapeGo]
  | cons e ps ih =>
    cases e with
    | star =>
      rw [escapePattern, unescapeGo]
      · simp [ih, elemOf]; rfl
      · decide
    | char c =>
      rw [escapePattern]
      by_cases hc : c = '*'
      · subst hc
        simp only [if_true, List.cons_append, List.nil_append]
        simp [unescapeGo, unescapeEsc, ih, Except.map]
      · simp only [hc, if_false]
        rw [unescapeGo_escapeChar true _ c _ (by simp [hc]), ih]
        rfl

end Cedar.Syntax
