import CedarVerif.Lemmas.ManifestFull
/-
C17 helper lemmas, part 13: the induction over the fragment WITH RECORD AND SET LITERALS and WITHOUT the `NoRecOps` side
condition.  `SimL` extends `Sim` (Lemmas/ManifestEval.lean): record / set literal nodes; the operands of
`== in contains containsAll containsAny` and of `isEmpty` may be anything of the annotated type (`TypedRes`: type
soundness) — the analysis requests their full type and the slice holds them whole (`full_eq`); the operands of
`< <= + - *` and of extension functions are scalars (`ScalarRes`: their types are `Long` / extension types / `String`).
`eval_simL` is the soundness of the analysis for `SimL`.
-/
namespace Cedar.Manifest
open Cedar Cedar.C03

def ScalarRes (r : Result Value) : Prop := ∀ v, r = .ok v → Scalar v

/-- the result has the annotated type, a closed type with distinct attribute names -/
def TypedRes (r : Result Value) (ty : Option CedarType) : Prop :=
  ∃ τ, ty = some τ ∧ cn τ = true ∧ ∀ v, r = .ok v → InstanceOfType v τ

def ArithOp (op : BinaryOp) : Prop := op = .less ∨ op = .lessEq ∨ op = .add ∨ op = .sub ∨ op = .mul
def FullOp (op : BinaryOp) : Prop := op = .eq ∨ op = .contains ∨ op = .containsAll ∨ op = .containsAny ∨ op = .mem

theorem ArithOp.frag {op : BinaryOp} (h : ArithOp op) : FragOp op := by
  rcases h with e | e | e | e | e <;> subst e <;> simp [FragOp]
theorem FullOp.frag {op : BinaryOp} (h : FullOp op) : FragOp op := by
  rcases h with e | e | e | e | e <;> subst e <;> simp [FragOp]
theorem ArithOp.ne_mem {op : BinaryOp} (h : ArithOp op) : op ≠ .mem := by
  rcases h with e | e | e | e | e <;> subst e <;> decide

/-- `SimL req es e te`: over the full store `es`, `te` is a typed AST of `e` (see `Sim`), in the fragment with literals. -/
inductive SimL (req : Request) (es : Entities) : Expr → TExpr → Prop
  | lit (p : Prim) : SimL req es (.lit p) (.lit p)
  | var (x : Var) : SimL req es (.var x) (.var x)
  | ite {c t e : Expr} {tc tt te : TExpr} : SimL req es c tc →
      (evaluate req es [] c = .ok (.prim (.bool true)) → SimL req es t tt) →
      (evaluate req es [] c = .ok (.prim (.bool false)) → SimL req es e te) → SimL req es (.ite c t e) (.ite tc tt te)
  | iteTrue {c t e : Expr} {tc tt : TExpr} : SimL req es c tc →
      (∀ v, evaluate req es [] c = .ok v → v = .prim (.bool true)) →
      (evaluate req es [] c = .ok (.prim (.bool true)) → SimL req es t tt) → SimL req es (.ite c t e) (.ite tc tt tt)
  | iteFalse {c t e : Expr} {tc te : TExpr} : SimL req es c tc →
      (∀ v, evaluate req es [] c = .ok v → v = .prim (.bool false)) →
      (evaluate req es [] c = .ok (.prim (.bool false)) → SimL req es e te) → SimL req es (.ite c t e) (.ite tc te te)
  | and {a b : Expr} {ta tb : TExpr} : SimL req es a ta →
      (evaluate req es [] a = .ok (.prim (.bool true)) → SimL req es b tb) → SimL req es (.and a b) (.and ta tb)
  | andFalse {a b : Expr} {ta : TExpr} : SimL req es a ta →
      (∀ v, evaluate req es [] a = .ok v → v = .prim (.bool false)) → SimL req es (.and a b) ta
  | or {a b : Expr} {ta tb : TExpr} : SimL req es a ta →
      (evaluate req es [] a = .ok (.prim (.bool false)) → SimL req es b tb) → SimL req es (.or a b) (.or ta tb)
  | orTrue {a b : Expr} {ta : TExpr} : SimL req es a ta →
      (∀ v, evaluate req es [] a = .ok v → v = .prim (.bool true)) → SimL req es (.or a b) ta
  | unary (op : UnaryOp) (ty : Option CedarType) {a : Expr} {ta : TExpr} : op ≠ .isEmpty → SimL req es a ta →
      SimL req es (.unaryApp op a) (.unaryApp op ty ta)
  | isEmpty (ty : Option CedarType) {a : Expr} {ta : TExpr} : SimL req es a ta → TypedRes (evaluate req es [] a) ty →
      SimL req es (.unaryApp .isEmpty a) (.unaryApp .isEmpty ty ta)
  | arith (op : BinaryOp) (ty1 ty2 : Option CedarType) {a b : Expr} {ta tb : TExpr} : ArithOp op →
      SimL req es a ta → SimL req es b tb →
      ScalarRes (evaluate req es [] a) → ScalarRes (evaluate req es [] b) →
      SimL req es (.binaryApp op a b) (.binaryApp op ty1 ty2 ta tb)
  | full (op : BinaryOp) (ty1 ty2 : Option CedarType) {a b : Expr} {ta tb : TExpr} : FullOp op →
      SimL req es a ta → SimL req es b tb →
      TypedRes (evaluate req es [] a) ty1 → TypedRes (evaluate req es [] b) ty2 →
      SimL req es (.binaryApp op a b) (.binaryApp op ty1 ty2 ta tb)
  | getAttr (attr : String) {e : Expr} {te : TExpr} : SimL req es e te → SimL req es (.getAttr e attr) (.getAttr te attr)
  | hasAttr (attr : String) {e : Expr} {te : TExpr} : SimL req es e te → SimL req es (.hasAttr e attr) (.hasAttr te attr)
  | like (p : Pattern) {e : Expr} {te : TExpr} : SimL req es e te → SimL req es (.like e p) (.like te p)
  | is (ty : EntityType) {e : Expr} {te : TExpr} : SimL req es e te → SimL req es (.is e ty) (.is te ty)
  | call1 (fn : String) {a : Expr} {ta : TExpr} : SimL req es a ta → ScalarRes (evaluate req es [] a) →
      (∀ w, evaluate req es [] (.call fn [a]) = .ok w → Scalar w) → SimL req es (.call fn [a]) (.call fn [ta])
  | call2 (fn : String) {a b : Expr} {ta tb : TExpr} : SimL req es a ta → SimL req es b tb →
      ScalarRes (evaluate req es [] a) → ScalarRes (evaluate req es [] b) →
      (∀ w, evaluate req es [] (.call fn [a, b]) = .ok w → Scalar w) → SimL req es (.call fn [a, b]) (.call fn [ta, tb])
  /-- set literal: element by element -/
  | set {xs : List Expr} {txs : List TExpr} : xs.length = txs.length →
      (∀ x tx, (x, tx) ∈ xs.zip txs → SimL req es x tx) → SimL req es (.set xs) (.set txs)
  /-- record literal with distinct keys (the parser and `Expr::record` reject duplicates): field by field -/
  | record {kvs : List (String × Expr)} {tkvs : List (String × TExpr)} : (kvs.map (·.1)).Nodup →
      kvs.map (·.1) = tkvs.map (·.1) →
      (∀ x tx, (x, tx) ∈ (kvs.map (·.2)).zip (tkvs.map (·.2)) → SimL req es x tx) → SimL req es (.record kvs) (.record tkvs)

/-! ## pointwise relations on lists -/

def AllRel (R : Value → Value → Prop) : List Value → List Value → Prop
  | [], [] => True
  | a :: as, b :: bs => R a b ∧ AllRel R as bs
  | _, _ => False

theorem allRel_idx {R : Value → Value → Prop} : ∀ (ws ws' : List Value), AllRel R ws ws' →
    ws.length = ws'.length ∧ ∀ (i : Nat) (h : i < ws.length) (h' : i < ws'.length), R ws[i] ws'[i]
  | [], [], _ => ⟨rfl, fun i h _ => absurd h (by simp)⟩
  | [], _ :: _, h => by simp [AllRel] at h
  | _ :: _, [], h => by simp [AllRel] at h
  | a :: as, b :: bs, h => by
    simp only [AllRel] at h
    obtain ⟨h1, h2⟩ := allRel_idx as bs h.2
    refine ⟨by simp [h1], ?_⟩
    intro i hi hi'
    cases i with
    | zero => exact h.1
    | succ j => simpa using h2 j (by simpa using hi) (by simpa using hi')

theorem allRel_mono {R Q : Value → Value → Prop} (hrq : ∀ v v', R v v' → Q v v') : ∀ (ws ws' : List Value),
    AllRel R ws ws' → AllRel Q ws ws'
  | [], [], _ => trivial
  | [], _ :: _, h => by simp [AllRel] at h
  | _ :: _, [], h => by simp [AllRel] at h
  | a :: as, b :: bs, h => by
    simp only [AllRel] at h ⊢
    exact ⟨hrq _ _ h.1, allRel_mono hrq as bs h.2⟩

def KVRel (es es' : Entities) (req : Request) : List (String × WPaths) → List (String × Value) → List (String × Value) → Prop
  | [], [], [] => True
  | (k, p) :: ps, (k1, w) :: vs, (k2, w') :: vs' => k1 = k ∧ k2 = k ∧ VRel es es' req p w w' ∧ KVRel es es' req ps vs vs'
  | _, _, _ => False

theorem lookupW_none_of_not_mem : ∀ (ps : List (String × WPaths)) (k : String), k ∉ ps.map (·.1) → lookupW ps k = none
  | [], _, _ => rfl
  | (k0, p0) :: rest, k, h => by
    simp only [List.map_cons, List.mem_cons, not_or] at h
    have : (k0 == k) = false := by
      simp only [beq_eq_false_iff_ne, ne_eq]; exact fun e => h.1 e.symm
    simp only [lookupW, this, Bool.false_eq_true, if_false]
    exact lookupW_none_of_not_mem rest k h.2

theorem lookupW_mem : ∀ (ps : List (String × WPaths)) (k : String) (p : WPaths), lookupW ps k = some p → k ∈ ps.map (·.1)
  | [], _, _, h => by simp [lookupW] at h
  | (k0, p0) :: rest, k, p, h => by
    simp only [lookupW] at h
    by_cases e : (k0 == k) = true
    · have : k0 = k := by simpa using e
      simp [this]
    · simp only [e] at h
      simp [lookupW_mem rest k p h]

theorem lookupW_some_of_mem : ∀ (ps : List (String × WPaths)) (k : String) (p : WPaths), (k, p) ∈ ps →
    ∃ p', lookupW ps k = some p'
  | [], _, _, h => by cases h
  | (kq, pq) :: qs, k, p, h => by
    simp only [lookupW]
    by_cases e : (kq == k) = true
    · exact ⟨pq, by simp [e]⟩
    · simp only [e, Bool.false_eq_true, if_false]
      simp only [List.mem_cons, Prod.mk.injEq] at h
      rcases h with ⟨rfl, _⟩ | h
      · simp at e
      · exact lookupW_some_of_mem qs k p h

theorem lookupKV_none_of_not_mem {α} : ∀ (vs : List (String × α)) (k : String), k ∉ vs.map (·.1) → lookupKV vs k = none
  | [], _, _ => rfl
  | (k0, p0) :: rest, k, h => by
    simp only [List.map_cons, List.mem_cons, not_or] at h
    have : (k0 == k) = false := by
      simp only [beq_eq_false_iff_ne, ne_eq]; exact fun e => h.1 e.symm
    simp only [lookupKV, this, Bool.false_eq_true, if_false]
    exact lookupKV_none_of_not_mem rest k h.2

theorem kvRel_keys {es es' : Entities} {req : Request} : ∀ (ps : List (String × WPaths)) (vs vs' : List (String × Value)),
    KVRel es es' req ps vs vs' → vs.map (·.1) = ps.map (·.1) ∧ vs'.map (·.1) = ps.map (·.1)
  | [], [], [], _ => ⟨rfl, rfl⟩
  | [], [], _ :: _, h => by simp [KVRel] at h
  | [], _ :: _, _, h => by simp [KVRel] at h
  | _ :: _, [], _, h => by simp [KVRel] at h
  | _ :: _, _ :: _, [], h => by simp [KVRel] at h
  | (k, p) :: ps, (k1, w) :: vs, (k2, w') :: vs', h => by
    simp only [KVRel] at h
    obtain ⟨e1, e2, _, hr⟩ := h
    obtain ⟨h1, h2⟩ := kvRel_keys ps vs vs' hr
    simp [e1, e2, h1, h2]

/-- the fields of a record literal's value, by lookup -/
theorem vrelF_of_kvRel {es es' : Entities} {req : Request} : ∀ (ps : List (String × WPaths)) (vs vs' : List (String × Value)),
    KVRel es es' req ps vs vs' → (ps.map (·.1)).Nodup → ∀ (K K' : List (String × Value)),
    (∀ k w, lookupKV vs k = some w → lookupKV K k = some w) → (∀ k w, lookupKV vs' k = some w → lookupKV K' k = some w) →
    VRelF es es' req ps K K'
  | [], _, _, _, _, _, _, _, _ => trivial
  | _ :: _, [], _, h, _, _, _, _, _ => by simp [KVRel] at h
  | _ :: _, _ :: _, [], h, _, _, _, _, _ => by simp [KVRel] at h
  | (k, p) :: ps, (k1, w) :: vs, (k2, w') :: vs', h, hnd, K, K', hK, hK' => by
    simp only [KVRel] at h
    obtain ⟨e1, e2, hrel, hr⟩ := h
    subst e1; subst e2
    simp only [List.map_cons, List.nodup_cons] at hnd
    obtain ⟨hk1, hk2⟩ := kvRel_keys ps vs vs' hr
    simp only [VRelF]
    refine ⟨⟨w, w', hK k2 w (by simp [lookupKV]), hK' k2 w' (by simp [lookupKV]), hrel⟩, ?_⟩
    apply vrelF_of_kvRel ps vs vs' hr hnd.2 K K'
    · intro k0 w0 hl
      apply hK
      have hm : k0 ∈ ps.map (·.1) := by rw [← hk1]; exact List.mem_map.2 ⟨(k0, w0), lookupKV_mem' hl, rfl⟩
      have : (k2 == k0) = false := by
        simp only [beq_eq_false_iff_ne, ne_eq]; intro e; subst e; exact hnd.1 hm
      simp only [lookupKV, this, Bool.false_eq_true, if_false]
      exact hl
    · intro k0 w0 hl
      apply hK'
      have hm : k0 ∈ ps.map (·.1) := by rw [← hk2]; exact List.mem_map.2 ⟨(k0, w0), lookupKV_mem' hl, rfl⟩
      have : (k2 == k0) = false := by
        simp only [beq_eq_false_iff_ne, ne_eq]; intro e; subst e; exact hnd.1 hm
      simp only [lookupKV, this, Bool.false_eq_true, if_false]
      exact hl

section lemmas
variable {es es' : Entities} {req : Request}

theorem relL_of_eq_scalar {P : WPaths} {r : Result Value} (hs : ∀ v, r = .ok v → Scalar v)
    (hP : ∀ v, Scalar v → VRel es es' req P v v) : RelL es es' req P r r := by
  cases r with
  | error x => rfl
  | ok v => exact ⟨v, rfl, hP v (hs v rfl)⟩

theorem applyUnary_vrel (op : UnaryOp) (hne : op ≠ .isEmpty) {P : WPaths} {v v' : Value} (h : VRel es es' req P v v') :
    applyUnary op v' = applyUnary op v := by
  cases op
  · simp only [applyUnary, vrel_asBool h]
  · simp only [applyUnary, vrel_asInt h]
  · exact absurd rfl hne

/-- `.a` / `has a` on values denoted by wrapped paths -/
theorem get_has_vrel (hsub : SubStore es es') (hctx : CtxWF req) (a : String) :
    ∀ (P P' : WPaths) (v v' : Value), P.getOrHasAttr a = .ok P' → VRel es es' req P v v' →
      PathsCov es es' req false [] P' →
      hasV es' v' a = hasV es v a ∧ RelL es es' req P' (getV es v a) (getV es' v' a)
  | .path root fs, P', v, v', hp, hr, hcov => by
    obtain ⟨hh, hg⟩ := get_has_rel hsub hctx a (.path root fs) P' v v' hp ⟨hr.1, hr.2.1⟩ hr.2.2 hcov
    refine ⟨hh, ?_⟩
    simp only [WPaths.getOrHasAttr, Except.ok.injEq] at hp
    subst hp
    cases hgv : getV es v a with
    | error x => rw [hgv] at hg; exact hg
    | ok w =>
      rw [hgv] at hg
      obtain ⟨w', e1, e2, e3⟩ := hg
      exact ⟨w', e1, e3.1, e3.2, e2⟩
  | .union p q, P', v, v', hp, hr, hcov => by
    simp only [WPaths.getOrHasAttr] at hp
    cases hp1 : WPaths.getOrHasAttr a p with
    | error x => simp [hp1] at hp
    | ok p' =>
      cases hq1 : WPaths.getOrHasAttr a q with
      | error x => simp [hp1, hq1] at hp
      | ok q' =>
        simp only [hp1, hq1, Except.ok.injEq] at hp
        subst hp
        simp only [PathsCov] at hcov
        rcases hr with hr | hr
        · obtain ⟨hh, hg⟩ := get_has_vrel hsub hctx a p p' v v' hp1 hr hcov.1
          exact ⟨hh, hg.mono (fun _ _ h => Or.inl h)⟩
        · obtain ⟨hh, hg⟩ := get_has_vrel hsub hctx a q q' v v' hq1 hr hcov.2
          exact ⟨hh, hg.mono (fun _ _ h => Or.inr h)⟩
  | .empty, P', v, v', hp, hr, _ => by
    obtain ⟨hs, e⟩ := hr
    subst e
    have ht : Trim v' v' := by
      cases v' with
      | record kvs => simp [Scalar] at hs
      | prim p => simp [Trim]
      | set s => simp [Trim]
      | ext x => simp [Trim]
    obtain ⟨h1, h2, h3⟩ := scalar_get_has (es := es) (es' := es') hs ht a
    refine ⟨h1, ?_⟩
    rw [h2, h3]; rfl
  | .record pkvs, P', v, v', hp, hr, _ => by
    obtain ⟨kvs, kvs', e1, e2, _, _, hnone, hF⟩ := hr
    subst e1; subst e2
    simp only [WPaths.getOrHasAttr] at hp
    cases hw : lookupW pkvs a with
    | none =>
      obtain ⟨l1, l2⟩ := hnone a hw
      simp only [hw, Except.ok.injEq] at hp
      subst hp
      refine ⟨by simp only [hasV, l1, l2], ?_⟩
      simp only [getV, l1, l2]
      rfl
    | some f =>
      simp only [hw, Except.ok.injEq] at hp
      subst hp
      obtain ⟨w, w', l1, l2, hrel⟩ := vrelF_lookup pkvs kvs kvs' a f hF hw
      refine ⟨by simp [hasV, l1, l2], ?_⟩
      simp only [getV, l1, l2]
      exact ⟨w', rfl, hrel⟩
  | .set p, _, _, _, hp, _, _ => by simp [WPaths.getOrHasAttr] at hp

theorem mem_mkSet' : ∀ (ws : List Value) (x : Value), x ∈ Value.mkSet ws → x ∈ ws
  | [], _, h => by simp [Value.mkSet] at h
  | v :: vs, x, h => by
    simp only [Value.mkSet] at h
    split at h
    · exact List.mem_cons_of_mem _ (mem_mkSet' vs x h)
    · simp only [List.mem_cons] at h
      rcases h with rfl | h
      · simp
      · exact List.mem_cons_of_mem _ (mem_mkSet' vs x h)

theorem mem_entityElems : ∀ (vs : List Value) (x : EntityUID), x ∈ entityElems vs → Value.prim (.entityUID x) ∈ vs
  | [], _, h => by simp [entityElems] at h
  | v :: vs, x, h => by
    cases v with
    | prim p =>
      cases p with
      | entityUID u =>
        simp only [entityElems, List.mem_cons] at h
        rcases h with rfl | h
        · simp
        · exact List.mem_cons_of_mem _ (mem_entityElems vs x h)
      | bool b => simp only [entityElems] at h; exact List.mem_cons_of_mem _ (mem_entityElems vs x h)
      | int b => simp only [entityElems] at h; exact List.mem_cons_of_mem _ (mem_entityElems vs x h)
      | string b => simp only [entityElems] at h; exact List.mem_cons_of_mem _ (mem_entityElems vs x h)
    | set s => simp only [entityElems] at h; exact List.mem_cons_of_mem _ (mem_entityElems vs x h)
    | record s => simp only [entityElems] at h; exact List.mem_cons_of_mem _ (mem_entityElems vs x h)
    | ext s => simp only [entityElems] at h; exact List.mem_cons_of_mem _ (mem_entityElems vs x h)

/-- the ancestors trie built from the right operand's wrapped paths requests what the right operand denotes -/
theorem anc_of_vrel (x : EntityUID) : ∀ (P : WPaths) (g : RootAccessTrie) (v v' : Value), VRel es es' req P v v' →
    x ∈ memTargets v → x ∈ ancRequest es' req (addWrapped g true [] P)
  | .path root fs, g, v, v', hr, hx => by
    have e : v' = v := by
      cases v with
      | record kvs => simp [memTargets] at hx
      | prim p => exact trim_prim hr.2.2
      | set s => exact trim_nonrecord hr.2.2 (by intro kvs; simp)
      | ext y => simp [memTargets] at hx
    subst e
    exact anc_of_pcover x (.path root fs) g v' ⟨hr.1, hr.2.1⟩ hx
  | .union a b, g, v, v', hr, hx => by
    simp only [addWrapped]
    rcases hr with hr | hr
    · exact anc_mono_addWrapped es' req x true [] b _ (anc_of_vrel x a g v v' hr hx)
    · exact anc_of_vrel x b _ v v' hr hx
  | .empty, g, v, v', hr, hx => by
    exfalso
    obtain ⟨hs, _⟩ := hr
    cases v with
    | prim p => cases p <;> simp_all [memTargets, Scalar]
    | set vs => simp [Scalar] at hs
    | record kvs => simp [memTargets] at hx
    | ext y => simp [memTargets] at hx
  | .record kvs, _, v, _, hr, hx => by
    obtain ⟨a, b, e1, _⟩ := hr
    subst e1
    simp [memTargets] at hx
  | .set p, g, v, v', hr, hx => by
    obtain ⟨ws, ws', e1, e2, hlen, hall⟩ := hr
    subst e1
    simp only [memTargets] at hx
    have hm := mem_mkSet' ws _ (mem_entityElems _ x hx)
    obtain ⟨i, hi, hget⟩ := List.getElem_of_mem hm
    have hrel := hall i hi (by omega)
    rw [hget] at hrel
    simp only [addWrapped]
    exact anc_of_vrel x p g _ _ hrel (by simp [memTargets])

/-- analysis of `< <= + - *` -/
theorem arith_manifest {op : BinaryOp} {ty1 ty2 : Option CedarType} {a b : TExpr} {r : Res}
    (hop : ArithOp op) (hm : manifestOfExpr (.binaryApp op ty1 ty2 a b) = .ok r) :
    ∃ ra rb, manifestOfExpr a = .ok ra ∧ manifestOfExpr b = .ok rb ∧ r.paths = .union .empty .empty ∧
      (CoverRoots es es' req r.global → CoverRoots es es' req ra.global ∧ CoverRoots es es' req rb.global) := by
  have key : primPair (manifestOfExpr a) (manifestOfExpr b) = .ok r := by
    rcases hop with e | e | e | e | e <;> subst e <;> simpa [manifestOfExpr] using hm
  cases h1 : manifestOfExpr a with
  | error x => simp [primPair, h1] at key
  | ok ra =>
    cases h2 : manifestOfExpr b with
    | error x => simp [primPair, h1, h2] at key
    | ok rb =>
      simp only [primPair, h1, h2, Except.ok.injEq] at key
      subst key
      refine ⟨ra, rb, rfl, rfl, rfl, ?_⟩
      intro hc
      exact coverRoots_union es es' req _ _ hc

/-- analysis of `== in contains containsAll containsAny`: both operands' full types are requested -/
theorem full_manifest {op : BinaryOp} {ty1 ty2 : Option CedarType} {a b : TExpr} {r : Res}
    (hop : FullOp op) (hm : manifestOfExpr (.binaryApp op ty1 ty2 a b) = .ok r) :
    ∃ ra rb t1 t2 p1 p2, manifestOfExpr a = .ok ra ∧ manifestOfExpr b = .ok rb ∧ ty1 = some t1 ∧ ty2 = some t2 ∧
      ra.paths.fullTypeRequired t1 = .ok p1 ∧ rb.paths.fullTypeRequired t2 = .ok p2 ∧ r.paths = .empty ∧
      (CoverRoots es es' req r.global → CoverRoots es es' req ra.global ∧ CoverRoots es es' req rb.global ∧
        CoverRoots es es' req p1 ∧ CoverRoots es es' req p2 ∧
        (op = .mem → PathsCov es es' req false rb.paths.toAncestorTrie ra.paths)) := by
  cases h1 : manifestOfExpr a with
  | error x => rcases hop with e | e | e | e | e <;> subst e <;> simp [manifestOfExpr, h1] at hm
  | ok ra =>
    cases h2 : manifestOfExpr b with
    | error x => rcases hop with e | e | e | e | e <;> subst e <;> simp [manifestOfExpr, h1, h2] at hm
    | ok rb =>
      cases ty1 with
      | none => rcases hop with e | e | e | e | e <;> subst e <;> simp [manifestOfExpr, h1, h2, needTy] at hm
      | some t1 =>
        cases ty2 with
        | none => rcases hop with e | e | e | e | e <;> subst e <;> simp [manifestOfExpr, h1, h2, needTy] at hm
        | some t2 =>
          -- the common tail, for a first operand `r1` with the paths of `ra`
          have tail : ∀ (r1 : Res), r1.paths = ra.paths →
              (CoverRoots es es' req r1.global → CoverRoots es es' req ra.global ∧
                (op = .mem → PathsCov es es' req false rb.paths.toAncestorTrie ra.paths)) →
              ∀ (f1 f2 : Res), r1.fullTypeRequired t1 = .ok f1 → rb.fullTypeRequired t2 = .ok f2 →
              ∃ p1 p2, ra.paths.fullTypeRequired t1 = .ok p1 ∧ rb.paths.fullTypeRequired t2 = .ok p2 ∧
                (f1.union f2).emptyPaths.paths = .empty ∧
                (CoverRoots es es' req (f1.union f2).emptyPaths.global → CoverRoots es es' req ra.global ∧
                  CoverRoots es es' req rb.global ∧ CoverRoots es es' req p1 ∧ CoverRoots es es' req p2 ∧
                  (op = .mem → PathsCov es es' req false rb.paths.toAncestorTrie ra.paths)) := by
            intro r1 hp hr1 f1 f2 hf1 hf2
            simp only [Res.fullTypeRequired, hp] at hf1 hf2
            cases hp1 : ra.paths.fullTypeRequired t1 with
            | error x => simp [hp1] at hf1
            | ok p1 =>
              cases hp2 : rb.paths.fullTypeRequired t2 with
              | error x => simp [hp2] at hf2
              | ok p2 =>
                simp only [hp1, Except.ok.injEq] at hf1
                simp only [hp2, Except.ok.injEq] at hf2
                subst hf1; subst hf2
                refine ⟨p1, p2, rfl, rfl, rfl, ?_⟩
                simp only [Res.union, Res.emptyPaths]
                intro hcr
                obtain ⟨c1, c2⟩ := coverRoots_union es es' req _ _ hcr
                obtain ⟨c3, c3'⟩ := coverRoots_union es es' req _ _ c1
                obtain ⟨c4, c4'⟩ := coverRoots_union es es' req _ _ c2
                obtain ⟨c5, c6⟩ := hr1 c3
                exact ⟨c5, c4, c3', c4', c6⟩
          rcases hop with e | e | e | e | e <;> subst e
          all_goals
            simp only [manifestOfExpr, h1, h2, needTy, show (BinaryOp.eq == BinaryOp.mem) = false from rfl,
              show (BinaryOp.contains == BinaryOp.mem) = false from rfl,
              show (BinaryOp.containsAll == BinaryOp.mem) = false from rfl,
              show (BinaryOp.containsAny == BinaryOp.mem) = false from rfl,
              show (BinaryOp.mem == BinaryOp.mem) = true from rfl, if_true, Bool.false_eq_true, if_false] at hm
            split at hm
            · simp at hm
            rename_i f1 hf1
            split at hm
            · simp at hm
            rename_i f2 hf2
            simp only [Except.ok.injEq] at hm
            subst hm
          · obtain ⟨p1, p2, g1, g2, g3, g4⟩ := tail ra rfl (fun h => ⟨h, fun e => absurd e (by decide)⟩) f1 f2 hf1 hf2
            exact ⟨ra, rb, t1, t2, p1, p2, rfl, rfl, rfl, rfl, g1, g2, g3, g4⟩
          · obtain ⟨p1, p2, g1, g2, g3, g4⟩ := tail ra rfl (fun h => ⟨h, fun e => absurd e (by decide)⟩) f1 f2 hf1 hf2
            exact ⟨ra, rb, t1, t2, p1, p2, rfl, rfl, rfl, rfl, g1, g2, g3, g4⟩
          · obtain ⟨p1, p2, g1, g2, g3, g4⟩ := tail ra rfl (fun h => ⟨h, fun e => absurd e (by decide)⟩) f1 f2 hf1 hf2
            exact ⟨ra, rb, t1, t2, p1, p2, rfl, rfl, rfl, rfl, g1, g2, g3, g4⟩
          · obtain ⟨p1, p2, g1, g2, g3, g4⟩ := tail ra rfl (fun h => ⟨h, fun e => absurd e (by decide)⟩) f1 f2 hf1 hf2
            exact ⟨ra, rb, t1, t2, p1, p2, rfl, rfl, rfl, rfl, g1, g2, g3, g4⟩
          · obtain ⟨p1, p2, g1, g2, g3, g4⟩ := tail (ra.withAncestorsRequired rb.paths.toAncestorTrie) rfl
              (fun h => by
                obtain ⟨c4, c5⟩ := coverRoots_addWrapped es es' req false rb.paths.toAncestorTrie ra.paths ra.global h
                exact ⟨c4, fun _ => c5⟩) f1 f2 hf1 hf2
            exact ⟨ra, rb, t1, t2, p1, p2, rfl, rfl, rfl, rfl, g1, g2, g3, g4⟩

end lemmas

/-! ## the induction -/

section main
variable {es es' : Entities} {req : Request}

/-- elements of a set literal / arguments, one by one -/
theorem evalList_simL (xs : List Expr) : ∀ (txs : List TExpr) (acc r : Res), xs.length = txs.length →
    (∀ x tx, (x, tx) ∈ xs.zip txs → ∀ (r : Res), manifestOfExpr tx = .ok r → CoverRoots es es' req r.global →
      RelL es es' req r.paths (evaluate req es [] x) (evaluate req es' [] x)) →
    manifestUnionList acc txs = .ok r → CoverRoots es es' req r.global →
    CoverRoots es es' req acc.global ∧ (∀ v v', VRel es es' req acc.paths v v' → VRel es es' req r.paths v v') ∧
    (match evaluateList req es [] xs with
     | .error x => evaluateList req es' [] xs = .error x
     | .ok ws => ∃ ws', evaluateList req es' [] xs = .ok ws' ∧ AllRel (VRel es es' req r.paths) ws ws') := by
  induction xs with
  | nil =>
    intro txs acc r hl _ hm hc
    cases txs with
    | cons _ _ => simp at hl
    | nil =>
      simp only [manifestUnionList, Except.ok.injEq] at hm
      subst hm
      exact ⟨hc, fun _ _ h => h, by simp [evaluateList, AllRel]⟩
  | cons x xs ih =>
    intro txs acc r hl IH hm hc
    cases txs with
    | nil => simp at hl
    | cons tx txs =>
      simp only [manifestUnionList] at hm
      cases h1 : manifestOfExpr tx with
      | error e => simp [h1] at hm
      | ok rx =>
        simp only [h1] at hm
        obtain ⟨c1, m1, hev⟩ := ih txs (acc.union rx) r (by simpa using hl)
          (fun y ty hy => IH y ty (by simp [List.zip_cons_cons, hy])) hm hc
        simp only [Res.union] at c1 m1
        obtain ⟨c2, c3⟩ := coverRoots_union es es' req _ _ c1
        refine ⟨c2, fun v v' h => m1 v v' (Or.inl h), ?_⟩
        have hx := IH x tx (by simp [List.zip_cons_cons]) rx h1 c3
        simp only [evaluateList]
        cases hv : evaluate req es [] x with
        | error e =>
          simp only [hv, RelL] at hx
          simp only [hx]
        | ok v =>
          simp only [hv, RelL] at hx
          obtain ⟨v', e1, e2⟩ := hx
          simp only [e1]
          cases hvs : evaluateList req es [] xs with
          | error e =>
            simp only [hvs] at hev
            simp only [hev]
          | ok ws =>
            simp only [hvs] at hev
            obtain ⟨ws', f1, f2⟩ := hev
            simp only [f1]
            exact ⟨v' :: ws', rfl, m1 v v' (Or.inr e2), f2⟩

/-- fields of a record literal, one by one -/
theorem evalKVs_simL (kvs : List (String × Expr)) : ∀ (tkvs : List (String × TExpr)) (g : RootAccessTrie)
    (ps : List (String × WPaths)), kvs.map (·.1) = tkvs.map (·.1) →
    (∀ x tx, (x, tx) ∈ (kvs.map (·.2)).zip (tkvs.map (·.2)) → ∀ (r : Res), manifestOfExpr tx = .ok r →
      CoverRoots es es' req r.global → RelL es es' req r.paths (evaluate req es [] x) (evaluate req es' [] x)) →
    manifestRecord tkvs = .ok (g, ps) → CoverRoots es es' req g →
    ps.map (·.1) = kvs.map (·.1) ∧
    (match evaluateKVs req es [] kvs with
     | .error x => evaluateKVs req es' [] kvs = .error x
     | .ok vs => ∃ vs', evaluateKVs req es' [] kvs = .ok vs' ∧ KVRel es es' req ps vs vs') := by
  induction kvs with
  | nil =>
    intro tkvs g ps hk _ hm _
    cases tkvs with
    | cons _ _ => simp at hk
    | nil =>
      simp only [manifestRecord, Except.ok.injEq, Prod.mk.injEq] at hm
      obtain ⟨_, e⟩ := hm
      subst e
      exact ⟨rfl, by simp [evaluateKVs, KVRel]⟩
  | cons kx kvs ih =>
    intro tkvs g ps hk IH hm hc
    obtain ⟨k, x⟩ := kx
    cases tkvs with
    | nil => simp at hk
    | cons ktx tkvs =>
      obtain ⟨k', tx⟩ := ktx
      simp only [List.map_cons, List.cons.injEq] at hk
      obtain ⟨ek, hk⟩ := hk
      subst ek
      simp only [manifestRecord] at hm
      cases h1 : manifestOfExpr tx with
      | error e => simp [h1] at hm
      | ok rx =>
        simp only [h1] at hm
        cases h2 : manifestRecord tkvs with
        | error e => simp [h2] at hm
        | ok gp =>
          obtain ⟨g2, ps2⟩ := gp
          simp only [h2, Except.ok.injEq, Prod.mk.injEq] at hm
          obtain ⟨eg, eps⟩ := hm
          subst eg; subst eps
          obtain ⟨c1, c2⟩ := coverRoots_union es es' req _ _ hc
          obtain ⟨hkeys, hev⟩ := ih tkvs g2 ps2 hk
            (fun y ty hy => IH y ty (by simp [List.zip_cons_cons, hy])) h2 c2
          refine ⟨by simp [hkeys], ?_⟩
          have hx := IH x tx (by simp [List.zip_cons_cons]) rx h1 c1
          simp only [evaluateKVs]
          cases hv : evaluate req es [] x with
          | error e =>
            simp only [hv, RelL] at hx
            simp only [hx]
          | ok v =>
            simp only [hv, RelL] at hx
            obtain ⟨v', e1, e2⟩ := hx
            simp only [e1]
            cases hvs : evaluateKVs req es [] kvs with
            | error e =>
              simp only [hvs] at hev
              simp only [hev]
            | ok ws =>
              simp only [hvs] at hev
              obtain ⟨ws', f1, f2⟩ := hev
              simp only [f1]
              exact ⟨(k, v') :: ws', rfl, rfl, rfl, e2, f2⟩

/-- SOUNDNESS OF THE ANALYSIS, fragment with record / set literals and whole-value operands: a sub-store covering the trie
of the typed AST `te` evaluates `e` as the full store does. -/
theorem eval_simL (hsub : SubStore es es') (hst : SortedStore es) (hst' : SortedStore es') (hreq : SortedReq req)
    {e : Expr} {te : TExpr} (hsim : SimL req es e te) :
    ∀ (r : Res), manifestOfExpr te = .ok r → CoverRoots es es' req r.global →
      RelL es es' req r.paths (evaluate req es [] e) (evaluate req es' [] e) := by
  have hctx : CtxWF req := ctxWF_of_sorted hreq
  induction hsim with
  | lit p =>
    intro r hm _
    cases p with
    | entityUID u =>
      simp only [manifestOfExpr, Except.ok.injEq] at hm
      subst hm
      simp only [evaluate, RelL, Res.fromRoot]
      exact ⟨_, rfl, by simp [VRel, walk, rootVal, Trim]⟩
    | bool b =>
      simp only [manifestOfExpr, Except.ok.injEq] at hm
      subst hm
      simp only [evaluate, RelL, Res.default]
      exact ⟨_, rfl, by simp [VRel, Scalar]⟩
    | int n =>
      simp only [manifestOfExpr, Except.ok.injEq] at hm
      subst hm
      simp only [evaluate, RelL, Res.default]
      exact ⟨_, rfl, by simp [VRel, Scalar]⟩
    | string s =>
      simp only [manifestOfExpr, Except.ok.injEq] at hm
      subst hm
      simp only [evaluate, RelL, Res.default]
      exact ⟨_, rfl, by simp [VRel, Scalar]⟩
  | var x =>
    intro r hm _
    simp only [manifestOfExpr, Except.ok.injEq] at hm
    subst hm
    simp only [rootVal_var, RelL, Res.fromRoot]
    exact ⟨_, rfl, by simp only [VRel, walk]; exact ⟨trivial, trivial, trim_rootVal hctx (.var x)⟩⟩
  | @ite c t e tc tt te _ _ _ ihc iht ihe =>
    intro r hm hc
    simp only [manifestOfExpr] at hm
    cases h1 : manifestOfExpr tc with
    | error x => simp [h1] at hm
    | ok rc =>
      cases h2 : manifestOfExpr tt with
      | error x => simp [h1, h2] at hm
      | ok rt =>
        cases h3 : manifestOfExpr te with
        | error x => simp [h1, h2, h3] at hm
        | ok re =>
          simp only [h1, h2, h3, Except.ok.injEq] at hm
          subst hm
          simp only [Res.union, Res.emptyPaths] at hc ⊢
          obtain ⟨hc12, hc3⟩ := coverRoots_union es es' req _ _ hc
          obtain ⟨hc1, hc2⟩ := coverRoots_union es es' req _ _ hc12
          have ihc := ihc rc h1 hc1
          simp only [evaluate]
          cases hv : evaluate req es [] c with
          | error x =>
            simp only [hv, RelL] at ihc
            simp only [ihc]; rfl
          | ok v =>
            simp only [hv, RelL] at ihc
            obtain ⟨v', e1, e2⟩ := ihc
            simp only [e1, vrel_asBool e2]
            cases hb : v.asBool with
            | error x => rfl
            | ok b =>
              have hvb := asBool_ok hb
              subst hvb
              cases b with
              | true => exact (iht hv rt h2 hc2).mono (fun _ _ h => Or.inl (Or.inr h))
              | false => exact (ihe hv re h3 hc3).mono (fun _ _ h => Or.inr h)
  | @iteTrue c t e tc tt _ htrue _ ihc iht =>
    intro r hm hc
    simp only [manifestOfExpr] at hm
    cases h1 : manifestOfExpr tc with
    | error x => simp [h1] at hm
    | ok rc =>
      cases h2 : manifestOfExpr tt with
      | error x => simp [h1, h2] at hm
      | ok rt =>
        simp only [h1, h2, Except.ok.injEq] at hm
        subst hm
        simp only [Res.union, Res.emptyPaths] at hc ⊢
        obtain ⟨hc12, _⟩ := coverRoots_union es es' req _ _ hc
        obtain ⟨hc1, hc2⟩ := coverRoots_union es es' req _ _ hc12
        have ihc := ihc rc h1 hc1
        simp only [evaluate]
        cases hv : evaluate req es [] c with
        | error x =>
          simp only [hv, RelL] at ihc
          simp only [ihc]; rfl
        | ok v =>
          have hvt := htrue v hv
          subst hvt
          simp only [hv, RelL] at ihc
          obtain ⟨v', e1, e2⟩ := ihc
          have := vrel_prim e2
          subst this
          simp only [e1, Value.asBool]
          refine RelL.mono (Q := .union (.union .empty rt.paths) rt.paths) (iht hv rt h2 hc2) (fun _ _ h => Or.inr h)
  | @iteFalse c t e tc te _ hfalse _ ihc ihe =>
    intro r hm hc
    simp only [manifestOfExpr] at hm
    cases h1 : manifestOfExpr tc with
    | error x => simp [h1] at hm
    | ok rc =>
      cases h2 : manifestOfExpr te with
      | error x => simp [h1, h2] at hm
      | ok re =>
        simp only [h1, h2, Except.ok.injEq] at hm
        subst hm
        simp only [Res.union, Res.emptyPaths] at hc ⊢
        obtain ⟨hc12, _⟩ := coverRoots_union es es' req _ _ hc
        obtain ⟨hc1, hc2⟩ := coverRoots_union es es' req _ _ hc12
        have ihc := ihc rc h1 hc1
        simp only [evaluate]
        cases hv : evaluate req es [] c with
        | error x =>
          simp only [hv, RelL] at ihc
          simp only [ihc]; rfl
        | ok v =>
          have hvt := hfalse v hv
          subst hvt
          simp only [hv, RelL] at ihc
          obtain ⟨v', e1, e2⟩ := ihc
          have := vrel_prim e2
          subst this
          simp only [e1, Value.asBool]
          refine RelL.mono (Q := .union (.union .empty re.paths) re.paths) (ihe hv re h2 hc2) (fun _ _ h => Or.inr h)
  | @and a b ta tb _ _ iha ihb =>
    intro r hm hc
    simp only [manifestOfExpr, primPair] at hm
    cases h1 : manifestOfExpr ta with
    | error x => simp [h1] at hm
    | ok ra =>
      cases h2 : manifestOfExpr tb with
      | error x => simp [h1, h2] at hm
      | ok rb =>
        simp only [h1, h2, Except.ok.injEq] at hm
        subst hm
        simp only [Res.union, Res.emptyPaths] at hc ⊢
        obtain ⟨hc1, hc2⟩ := coverRoots_union es es' req _ _ hc
        have iha := iha ra h1 hc1
        simp only [evaluate]
        cases hv : evaluate req es [] a with
        | error x =>
          simp only [hv, RelL] at iha
          simp only [iha]; rfl
        | ok v =>
          simp only [hv, RelL] at iha
          obtain ⟨v', e1, e2⟩ := iha
          simp only [e1, vrel_asBool e2]
          cases hb : v.asBool with
          | error x => rfl
          | ok bv =>
            have hvb := asBool_ok hb
            subst hvb
            cases bv with
            | false => exact ⟨_, rfl, Or.inl ⟨scalar_bool false, rfl⟩⟩
            | true =>
              have ihb := ihb hv rb h2 hc2
              simp only
              cases hw : evaluate req es [] b with
              | error x =>
                simp only [hw, RelL] at ihb
                simp only [ihb]; rfl
              | ok w =>
                simp only [hw, RelL] at ihb
                obtain ⟨w', f1, f2⟩ := ihb
                simp only [f1, vrel_asBool f2]
                cases hb2 : w.asBool with
                | error x => rfl
                | ok b2 => exact ⟨_, rfl, Or.inl ⟨scalar_bool b2, rfl⟩⟩
  | @andFalse a b ta _ hfalse iha =>
    intro r hm hc
    have iha := iha r hm hc
    simp only [evaluate]
    cases hv : evaluate req es [] a with
    | error x =>
      simp only [hv, RelL] at iha
      simp only [iha]; rfl
    | ok v =>
      have hvt := hfalse v hv
      subst hvt
      simp only [hv, RelL] at iha
      obtain ⟨v', e1, e3⟩ := iha
      have := vrel_prim e3
      subst this
      simp only [e1, Value.asBool]
      exact ⟨_, rfl, e3⟩
  | @or a b ta tb _ _ iha ihb =>
    intro r hm hc
    simp only [manifestOfExpr, primPair] at hm
    cases h1 : manifestOfExpr ta with
    | error x => simp [h1] at hm
    | ok ra =>
      cases h2 : manifestOfExpr tb with
      | error x => simp [h1, h2] at hm
      | ok rb =>
        simp only [h1, h2, Except.ok.injEq] at hm
        subst hm
        simp only [Res.union, Res.emptyPaths] at hc ⊢
        obtain ⟨hc1, hc2⟩ := coverRoots_union es es' req _ _ hc
        have iha := iha ra h1 hc1
        simp only [evaluate]
        cases hv : evaluate req es [] a with
        | error x =>
          simp only [hv, RelL] at iha
          simp only [iha]; rfl
        | ok v =>
          simp only [hv, RelL] at iha
          obtain ⟨v', e1, e2⟩ := iha
          simp only [e1, vrel_asBool e2]
          cases hb : v.asBool with
          | error x => rfl
          | ok bv =>
            have hvb := asBool_ok hb
            subst hvb
            cases bv with
            | true => exact ⟨_, rfl, Or.inl ⟨scalar_bool true, rfl⟩⟩
            | false =>
              have ihb := ihb hv rb h2 hc2
              simp only
              cases hw : evaluate req es [] b with
              | error x =>
                simp only [hw, RelL] at ihb
                simp only [ihb]; rfl
              | ok w =>
                simp only [hw, RelL] at ihb
                obtain ⟨w', f1, f2⟩ := ihb
                simp only [f1, vrel_asBool f2]
                cases hb2 : w.asBool with
                | error x => rfl
                | ok b2 => exact ⟨_, rfl, Or.inl ⟨scalar_bool b2, rfl⟩⟩
  | @orTrue a b ta _ htrue iha =>
    intro r hm hc
    have iha := iha r hm hc
    simp only [evaluate]
    cases hv : evaluate req es [] a with
    | error x =>
      simp only [hv, RelL] at iha
      simp only [iha]; rfl
    | ok v =>
      have hvt := htrue v hv
      subst hvt
      simp only [hv, RelL] at iha
      obtain ⟨v', e1, e3⟩ := iha
      have := vrel_prim e3
      subst this
      simp only [e1, Value.asBool]
      exact ⟨_, rfl, e3⟩
  | @unary op ty a ta hne _ iha =>
    intro r hm hc
    have hm' : ∃ ra, manifestOfExpr ta = .ok ra ∧ r = ra.emptyPaths := by
      cases h1 : manifestOfExpr ta with
      | error x => cases op <;> first | exact absurd rfl hne | simp [manifestOfExpr, h1] at hm
      | ok ra =>
        refine ⟨ra, rfl, ?_⟩
        cases op with
        | not => simp only [manifestOfExpr, h1, Except.ok.injEq] at hm; exact hm.symm
        | neg => simp only [manifestOfExpr, h1, Except.ok.injEq] at hm; exact hm.symm
        | isEmpty => exact absurd rfl hne
    obtain ⟨ra, h1, hr⟩ := hm'
    subst hr
    have iha := iha ra h1 hc
    simp only [evaluate, Res.emptyPaths]
    cases hv : evaluate req es [] a with
    | error x =>
      simp only [hv, RelL] at iha
      simp only [iha]; rfl
    | ok v =>
      simp only [hv, RelL] at iha
      obtain ⟨v', e1, e2⟩ := iha
      simp only [e1, applyUnary_vrel op hne e2]
      exact relL_of_eq_scalar (fun w h => applyUnary_scalar op v w h) (fun _ h => ⟨h, rfl⟩)
  | @isEmpty ty a ta _ hty iha =>
    intro r hm hc
    obtain ⟨τ, eτ, hcn, htyp⟩ := hty
    subst eτ
    simp only [manifestOfExpr, needTy] at hm
    cases h1 : manifestOfExpr ta with
    | error x => simp [h1] at hm
    | ok ra =>
      simp only [h1, Res.fullTypeRequired] at hm
      cases hp : ra.paths.fullTypeRequired τ with
      | error x => simp [hp] at hm
      | ok p =>
        simp only [hp, Except.ok.injEq] at hm
        subst hm
        simp only [Res.emptyPaths] at hc ⊢
        obtain ⟨hc1, hc2⟩ := coverRoots_union es es' req _ _ hc
        have iha := iha ra h1 hc1
        simp only [evaluate]
        cases hv : evaluate req es [] a with
        | error x =>
          simp only [hv, RelL] at iha
          simp only [iha]; rfl
        | ok v =>
          simp only [hv, RelL] at iha
          obtain ⟨v', e1, e2⟩ := iha
          have ev : v' = v := full_eq hsub hst hst' hreq ra.paths τ p v v' hcn hp hc2 e2 (htyp v hv)
          subst ev
          simp only [e1]
          exact relL_of_eq_scalar (fun w h => applyUnary_scalar .isEmpty v' w h) (fun _ h => ⟨h, rfl⟩)
  | @arith op ty1 ty2 a b ta tb hop _ _ hsa hsb iha ihb =>
    intro r hm hc
    obtain ⟨ra, rb, h1, h2, hpaths, hcov⟩ := arith_manifest (es := es) (es' := es') (req := req) hop hm
    obtain ⟨hc1, hc2⟩ := hcov hc
    have iha := iha ra h1 hc1
    have ihb := ihb rb h2 hc2
    simp only [evaluate, hpaths]
    cases hv : evaluate req es [] a with
    | error x =>
      simp only [hv, RelL] at iha
      simp only [iha]; rfl
    | ok v =>
      simp only [hv, RelL] at iha
      obtain ⟨v', e1, e2⟩ := iha
      have ev : v' = v := vrel_scalar e2 (hsa v hv)
      subst ev
      simp only [e1]
      cases hw : evaluate req es [] b with
      | error x =>
        simp only [hw, RelL] at ihb
        simp only [ihb]; rfl
      | ok w =>
        simp only [hw, RelL] at ihb
        obtain ⟨w', f1, f2⟩ := ihb
        have ew : w' = w := vrel_scalar f2 (hsb w hw)
        subst ew
        simp only [f1]
        obtain ⟨g1, g2⟩ := applyBinary_nonmem es es' op hop.frag hop.ne_mem v' w'
        rw [g1]
        exact relL_of_eq_scalar g2 (fun _ h => Or.inl ⟨h, rfl⟩)
  | @full op ty1 ty2 a b ta tb hop _ _ hta htb iha ihb =>
    intro r hm hc
    obtain ⟨ra, rb, t1, t2, p1, p2, h1, h2, et1, et2, hp1, hp2, hpaths, hcov⟩ :=
      full_manifest (es := es) (es' := es') (req := req) hop hm
    obtain ⟨hc1, hc2, hcp1, hcp2, hmemcov⟩ := hcov hc
    obtain ⟨τ1, eτ1, hcn1, htyp1⟩ := hta
    obtain ⟨τ2, eτ2, hcn2, htyp2⟩ := htb
    rw [et1] at eτ1; cases eτ1
    rw [et2] at eτ2; cases eτ2
    have iha := iha ra h1 hc1
    have ihb := ihb rb h2 hc2
    simp only [evaluate, hpaths]
    cases hv : evaluate req es [] a with
    | error x =>
      simp only [hv, RelL] at iha
      simp only [iha]; rfl
    | ok v =>
      simp only [hv, RelL] at iha
      obtain ⟨v', e1, e2⟩ := iha
      have ev : v' = v := full_eq hsub hst hst' hreq ra.paths t1 p1 v v' hcn1 hp1 hcp1 e2 (htyp1 v hv)
      subst ev
      simp only [e1]
      cases hw : evaluate req es [] b with
      | error x =>
        simp only [hw, RelL] at ihb
        simp only [ihb]; rfl
      | ok w =>
        simp only [hw, RelL] at ihb
        obtain ⟨w', f1, f2⟩ := ihb
        have ew : w' = w := full_eq hsub hst hst' hreq rb.paths t2 p2 w w' hcn2 hp2 hcp2 f2 (htyp2 w hw)
        subst ew
        simp only [f1]
        by_cases hmem : op = .mem
        · subst hmem
          have key : applyBinary es' .mem v' w' = applyBinary es .mem v' w' := by
            apply applyMem_sliced
            intro u1 x e1 hx
            subst e1
            exact inE_sliced hsub hctx _ u1 x (anc_of_vrel x rb.paths [] w' w' f2 hx) ra.paths
              (pcover_of_vrel_entity u1 ra.paths _ e2) (hmemcov rfl)
          rw [key]
          exact relL_of_eq_scalar (fun r hr => applyMem_scalar es v' w' r hr) (fun _ h => ⟨h, rfl⟩)
        · obtain ⟨g1, g2⟩ := applyBinary_nonmem es es' op hop.frag hmem v' w'
          rw [g1]
          exact relL_of_eq_scalar g2 (fun _ h => ⟨h, rfl⟩)
  | @getAttr a e te _ ihe =>
    intro r hm hc
    simp only [manifestOfExpr] at hm
    cases h1 : manifestOfExpr te with
    | error x => simp [h1] at hm
    | ok re =>
      simp only [h1, Res.getOrHasAttr] at hm
      cases hp : re.paths.getOrHasAttr a with
      | error x => simp [hp] at hm
      | ok p' =>
        simp only [hp, Except.ok.injEq] at hm
        subst hm
        simp only at hc ⊢
        obtain ⟨hc1, hcov⟩ := coverRoots_addWrapped es es' req false [] p' re.global hc
        have ihe := ihe re h1 hc1
        simp only [evaluate_getAttr]
        cases hv : evaluate req es [] e with
        | error x =>
          simp only [hv, RelL] at ihe
          simp only [ihe]; rfl
        | ok v =>
          simp only [hv, RelL] at ihe
          obtain ⟨v', e1, e2⟩ := ihe
          simp only [e1]
          exact (get_has_vrel hsub hctx a re.paths p' v v' hp e2 hcov).2
  | @hasAttr a e te _ ihe =>
    intro r hm hc
    simp only [manifestOfExpr] at hm
    cases h1 : manifestOfExpr te with
    | error x => simp [h1] at hm
    | ok re =>
      simp only [h1, Res.getOrHasAttr] at hm
      cases hp : re.paths.getOrHasAttr a with
      | error x => simp [hp] at hm
      | ok p' =>
        simp only [hp, Except.ok.injEq] at hm
        subst hm
        simp only [Res.emptyPaths] at hc ⊢
        obtain ⟨hc1, hcov⟩ := coverRoots_addWrapped es es' req false [] p' re.global hc
        have ihe := ihe re h1 hc1
        simp only [evaluate_hasAttr]
        cases hv : evaluate req es [] e with
        | error x =>
          simp only [hv, RelL] at ihe
          simp only [ihe]; rfl
        | ok v =>
          simp only [hv, RelL] at ihe
          obtain ⟨v', e1, e2⟩ := ihe
          simp only [e1]
          rw [(get_has_vrel hsub hctx a re.paths p' v v' hp e2 hcov).1]
          refine relL_of_eq_scalar ?_ (fun _ h => ⟨h, rfl⟩)
          intro w hw
          cases v with
          | record kvs => simp only [hasV, Except.ok.injEq] at hw; subst hw; simp [Scalar]
          | prim p =>
            cases p with
            | entityUID u =>
              simp only [hasV] at hw
              cases hfu : es.find? u with
              | none => simp only [hfu, Except.ok.injEq] at hw; subst hw; simp [Scalar]
              | some d => simp only [hfu, Except.ok.injEq] at hw; subst hw; simp [Scalar]
            | bool b => simp [hasV] at hw
            | int n => simp [hasV] at hw
            | string s => simp [hasV] at hw
          | set s => simp [hasV] at hw
          | ext x => simp [hasV] at hw
  | @like p e te _ ihe =>
    intro r hm hc
    simp only [manifestOfExpr] at hm
    cases h1 : manifestOfExpr te with
    | error x => simp [h1] at hm
    | ok re =>
      simp only [h1, Except.ok.injEq] at hm
      subst hm
      simp only [Res.emptyPaths] at hc ⊢
      have ihe := ihe re h1 hc
      simp only [evaluate]
      cases hv : evaluate req es [] e with
      | error x =>
        simp only [hv, RelL] at ihe
        simp only [ihe]; rfl
      | ok v =>
        simp only [hv, RelL] at ihe
        obtain ⟨v', e1, e2⟩ := ihe
        simp only [e1, vrel_asString e2]
        cases hsv : v.asString with
        | error x => rfl
        | ok s => exact ⟨_, rfl, scalar_bool _, rfl⟩
  | @is ty e te _ ihe =>
    intro r hm hc
    simp only [manifestOfExpr] at hm
    cases h1 : manifestOfExpr te with
    | error x => simp [h1] at hm
    | ok re =>
      simp only [h1, Except.ok.injEq] at hm
      subst hm
      simp only [Res.emptyPaths] at hc ⊢
      have ihe := ihe re h1 hc
      simp only [evaluate]
      cases hv : evaluate req es [] e with
      | error x =>
        simp only [hv, RelL] at ihe
        simp only [ihe]; rfl
      | ok v =>
        simp only [hv, RelL] at ihe
        obtain ⟨v', e1, e2⟩ := ihe
        simp only [e1, vrel_asEntity e2]
        cases hsv : v.asEntity with
        | error x => rfl
        | ok s => exact ⟨_, rfl, scalar_bool _, rfl⟩
  | @call1 fn a ta _ hna hscal iha =>
    intro r hm hc
    simp only [manifestOfExpr, manifestUnionList] at hm
    cases h1 : manifestOfExpr ta with
    | error x => simp [h1] at hm
    | ok ra =>
      simp only [h1, Except.ok.injEq] at hm
      subst hm
      simp only [Res.union, Res.default] at hc ⊢
      obtain ⟨_, hc1⟩ := coverRoots_union es es' req _ _ hc
      have iha := iha ra h1 hc1
      have hsc := hscal
      simp only [evaluate, evaluateList] at hsc ⊢
      cases hv : evaluate req es [] a with
      | error x =>
        simp only [hv, RelL] at iha
        simp only [iha]; rfl
      | ok v =>
        simp only [hv, RelL] at iha
        obtain ⟨v', e1, e2⟩ := iha
        have ev : v' = v := vrel_scalar e2 (hna v hv)
        subst ev
        simp only [e1]
        simp only [hv] at hsc
        exact relL_of_eq_scalar hsc (fun _ h => Or.inl ⟨h, rfl⟩)
  | @call2 fn a b ta tb _ _ hna hnb hscal iha ihb =>
    intro r hm hc
    simp only [manifestOfExpr, manifestUnionList] at hm
    cases h1 : manifestOfExpr ta with
    | error x => simp [h1] at hm
    | ok ra =>
      cases h2 : manifestOfExpr tb with
      | error x => simp [h1, h2] at hm
      | ok rb =>
        simp only [h1, h2, Except.ok.injEq] at hm
        subst hm
        simp only [Res.union, Res.default] at hc ⊢
        obtain ⟨hc12, hc2⟩ := coverRoots_union es es' req _ _ hc
        obtain ⟨_, hc1⟩ := coverRoots_union es es' req _ _ hc12
        have iha := iha ra h1 hc1
        have ihb := ihb rb h2 hc2
        have hsc := hscal
        simp only [evaluate, evaluateList] at hsc ⊢
        cases hv : evaluate req es [] a with
        | error x =>
          simp only [hv, RelL] at iha
          simp only [iha]; rfl
        | ok v =>
          simp only [hv, RelL] at iha
          obtain ⟨v', e1, e2⟩ := iha
          have ev : v' = v := vrel_scalar e2 (hna v hv)
          subst ev
          simp only [e1]
          cases hw : evaluate req es [] b with
          | error x =>
            simp only [hw, RelL] at ihb
            simp only [ihb]; rfl
          | ok w =>
            simp only [hw, RelL] at ihb
            obtain ⟨w', f1, f2⟩ := ihb
            have ew : w' = w := vrel_scalar f2 (hnb w hw)
            subst ew
            simp only [f1]
            simp only [hv, hw] at hsc
            exact relL_of_eq_scalar hsc (fun _ h => Or.inl (Or.inl ⟨h, rfl⟩))
  | @set xs txs hlen _ ih =>
    intro r hm hc
    simp only [manifestOfExpr] at hm
    cases h1 : manifestUnionList Res.default txs with
    | error x => simp [h1] at hm
    | ok r0 =>
      simp only [h1, Except.ok.injEq] at hm
      subst hm
      simp only at hc ⊢
      obtain ⟨_, _, hev⟩ := evalList_simL xs txs Res.default r0 hlen ih h1 hc
      simp only [evaluate]
      cases hvs : evaluateList req es [] xs with
      | error x =>
        simp only [hvs] at hev
        simp only [hev]; rfl
      | ok ws =>
        simp only [hvs] at hev
        obtain ⟨ws', f1, f2⟩ := hev
        simp only [f1]
        obtain ⟨g1, g2⟩ := allRel_idx ws ws' f2
        exact ⟨_, rfl, ws, ws', rfl, rfl, g1, g2⟩
  | @record kvs tkvs hnd hkeys _ ih =>
    intro r hm hc
    simp only [manifestOfExpr] at hm
    cases h1 : manifestRecord tkvs with
    | error x => simp [h1] at hm
    | ok gp =>
      obtain ⟨g, ps⟩ := gp
      simp only [h1, Except.ok.injEq] at hm
      subst hm
      simp only at hc ⊢
      obtain ⟨hpk, hev⟩ := evalKVs_simL kvs tkvs g ps hkeys ih h1 hc
      simp only [evaluate]
      cases hvs : evaluateKVs req es [] kvs with
      | error x =>
        simp only [hvs] at hev
        simp only [hev]; rfl
      | ok vs =>
        simp only [hvs] at hev
        obtain ⟨vs', f1, f2⟩ := hev
        simp only [f1]
        obtain ⟨k1, k2⟩ := kvRel_keys ps vs vs' f2
        have hndp : (ps.map (·.1)).Nodup := by rw [hpk]; exact hnd
        have hnd1 : (vs.map (·.1)).Nodup := by rw [k1]; exact hndp
        have hnd2 : (vs'.map (·.1)).Nodup := by rw [k2]; exact hndp
        have L1 : ∀ k, lookupKV (vs.foldl (fun acc kv => insertKV kv.1 kv.2 acc) []) k = lookupKV vs k := by
          intro k; rw [lookupKV_foldl vs [] k hnd1]; cases lookupKV vs k <;> simp [lookupKV]
        have L2 : ∀ k, lookupKV (vs'.foldl (fun acc kv => insertKV kv.1 kv.2 acc) []) k = lookupKV vs' k := by
          intro k; rw [lookupKV_foldl vs' [] k hnd2]; cases lookupKV vs' k <;> simp [lookupKV]
        refine ⟨_, rfl, _, _, rfl, rfl, ksorted_foldl vs [] trivial, ksorted_foldl vs' [] trivial, ?_, ?_⟩
        · intro k hk
          have hnm : k ∉ ps.map (·.1) := by
            intro hmem
            obtain ⟨⟨k0, p0⟩, hm0, e0⟩ := List.mem_map.1 hmem
            simp only at e0; subst e0
            have := lookupW_some_of_mem ps k0 p0 hm0
            obtain ⟨p, hp⟩ := this
            rw [hk] at hp; cases hp
          rw [L1, L2]
          exact ⟨lookupKV_none_of_not_mem vs k (by rw [k1]; exact hnm), lookupKV_none_of_not_mem vs' k (by rw [k2]; exact hnm)⟩
        · exact vrelF_of_kvRel ps vs vs' f2 hndp _ _ (fun k w h => by rw [L1]; exact h) (fun k w h => by rw [L2]; exact h)

/-- related results have the same policy outcome -/
theorem outcome_of_relL {P : WPaths} {r r' : Result Value} (h : RelL es es' req P r r') : outcomeOf r' = outcomeOf r := by
  cases r with
  | error x => simp only [RelL] at h; subst h; rfl
  | ok v =>
    obtain ⟨v', e1, e2⟩ := h
    subst e1
    simp only [outcomeOf, vrel_asBool e2]

end main

end Cedar.Manifest
