import CedarVerif.Cedar.Validation.Conformance
/-
Helper lemmas for C11 (schema conformance): the value checkers against `InstanceOfType`, agreement of the
`SchemaType` checker with the `Type` checker on schematic types, uid validation, `Except` plumbing.
-/
namespace Cedar

theorem typecheckValues_iff_all (vs : List Value) (t : CedarType) :
    typecheckValues vs t = true ↔ ∀ v, v ∈ vs → typecheckValue v t = true := by
  induction vs with
  | nil => simp [typecheckValues]
  | cons v vs ih => simp [typecheckValues, ih]

theorem typecheckFields_iff_all (kvs : List (String × Value)) (attrs : Attrs) (o : Bool) :
    typecheckFields kvs attrs o = true ↔
      ∀ k v, (k, v) ∈ kvs →
        (∀ r t, Attrs.find? attrs k = some (r, t) → typecheckValue v t = true) ∧
        (Attrs.find? attrs k = none → o = true) := by
  induction kvs with
  | nil => simp [typecheckFields]
  | cons kv kvs ih =>
    obtain ⟨k, v⟩ := kv
    simp only [typecheckFields, Bool.and_eq_true, ih, List.mem_cons, Prod.mk.injEq]
    constructor
    · rintro ⟨h1, h2⟩ k' v' (⟨rfl, rfl⟩ | hm)
      · cases hf : Attrs.find? attrs k' with
        | none => simp [hf] at h1; simp [h1]
        | some rt => obtain ⟨r, t⟩ := rt; simp [hf] at h1; simp [h1]
      · exact h2 k' v' hm
    · intro h
      refine ⟨?_, fun k' v' hm => h k' v' (Or.inr hm)⟩
      have := h k v (Or.inl ⟨rfl, rfl⟩)
      cases hf : Attrs.find? attrs k with
      | none => simp [this.2 hf]
      | some rt => obtain ⟨r, t⟩ := rt; simp [this.1 r t hf]

theorem requiredPresent_iff (attrs : Attrs) (kvs : List (String × Value)) :
    requiredPresent attrs kvs = true ↔ ∀ k t, (k, true, t) ∈ attrs → ∃ v, (k, v) ∈ kvs := by
  unfold requiredPresent
  simp only [List.all_eq_true, Bool.or_eq_true, Bool.not_eq_true', List.any_eq_true, beq_iff_eq]
  constructor
  · intro h k t hm
    rcases h (k, true, t) hm with h | ⟨kv, hkv, he⟩
    · simp at h
    · obtain ⟨k', v⟩ := kv; simp at he; subst he; exact ⟨v, hkv⟩
  · rintro h ⟨k, r, t⟩ hm
    cases r with
    | false => left; rfl
    | true => right; obtain ⟨v, hv⟩ := h k t hm; exact ⟨(k, v), hv, rfl⟩

theorem mem_sizeOf_lt {v : Value} {vs : List Value} (h : v ∈ vs) : sizeOf v < sizeOf (Value.set vs) := by
  have := List.sizeOf_lt_of_mem h
  simp; omega

theorem mem_kvs_sizeOf_lt {k : String} {v : Value} {kvs : List (String × Value)} (h : (k, v) ∈ kvs) :
    sizeOf v < sizeOf (Value.record kvs) := by
  have := List.sizeOf_lt_of_mem h
  simp at this ⊢; omega

theorem typecheckValue_sound_aux : ∀ (n : Nat) (v : Value) (t : CedarType),
    sizeOf v < n → typecheckValue v t = true → InstanceOfType v t := by
  intro n
  induction n with
  | zero => intro v t h; omega
  | succ n ih =>
    intro v t hn h
    cases v with
    | prim p =>
      cases p with
      | bool b =>
        cases t with
        | bool bt =>
          cases bt with
          | anyBool => exact .anyBool b
          | tt => simp [typecheckValue] at h; subst h; exact .tt
          | ff => simp [typecheckValue] at h; subst h; exact .ff
        | _ => simp [typecheckValue] at h
      | int i =>
        cases t with
        | long => exact .long i
        | _ => simp [typecheckValue] at h
      | string s =>
        cases t with
        | string => exact .string s
        | _ => simp [typecheckValue] at h
      | entityUID u =>
        cases t with
        | entity lub => simp [typecheckValue] at h; exact .entity u _ h
        | anyEntity => exact .anyEntity u
        | _ => simp [typecheckValue] at h
    | ext x =>
      cases t with
      | ext n => simp [typecheckValue] at h; subst h; exact .ext x
      | _ => simp [typecheckValue] at h
    | set vs =>
      cases t with
      | set el =>
        cases el with
        | none => exact .anySet vs
        | some t =>
          simp only [typecheckValue, typecheckValues_iff_all] at h
          exact .set vs t (fun v hv => ih v t (by have := mem_sizeOf_lt hv; omega) (h v hv))
      | _ => simp [typecheckValue] at h
    | record kvs =>
      cases t with
      | record attrs o =>
        simp only [typecheckValue, Bool.and_eq_true] at h
        rw [typecheckFields_iff_all, requiredPresent_iff] at h
        refine .record kvs attrs o ?_ ?_ h.2
        · intro k v hm r t hf
          exact ih v t (by have := mem_kvs_sizeOf_lt hm; omega) ((h.1 k v hm).1 r t hf)
        · intro k v hm hf
          exact (h.1 k v hm).2 hf
      | _ => simp [typecheckValue] at h

theorem typecheckValue_complete {v : Value} {t : CedarType} (h : InstanceOfType v t) : typecheckValue v t = true := by
  induction h with
  | anyBool b => simp [typecheckValue]
  | tt => simp [typecheckValue]
  | ff => simp [typecheckValue]
  | long i => simp [typecheckValue]
  | string s => simp [typecheckValue]
  | entity u lub hm => simp [typecheckValue, hm]
  | anyEntity u => simp [typecheckValue]
  | ext x => simp [typecheckValue]
  | anySet vs => simp [typecheckValue]
  | set vs t _ ih => simp [typecheckValue, typecheckValues_iff_all]; exact ih
  | record kvs attrs o _ h2 h3 ih =>
    simp only [typecheckValue, Bool.and_eq_true]
    rw [typecheckFields_iff_all, requiredPresent_iff]
    exact ⟨fun k v hm => ⟨fun r t hf => ih k v hm r t hf, h2 k v hm⟩, h3⟩

theorem checkValues_iff_all (vs : List Value) (t : SchemaType) :
    checkValues vs t = true ↔ ∀ v, v ∈ vs → checkValue v t = true := by
  induction vs with
  | nil => simp [checkValues]
  | cons v vs ih => simp [checkValues, ih]

theorem checkFields_iff_all (kvs : List (String × Value)) (attrs : SchemaAttrs) (o : Bool) :
    checkFields kvs attrs o = true ↔
      ∀ k v, (k, v) ∈ kvs →
        (∀ r t, SchemaAttrs.find? attrs k = some (r, t) → checkValue v t = true) ∧
        (SchemaAttrs.find? attrs k = none → o = true) := by
  induction kvs with
  | nil => simp [checkFields]
  | cons kv kvs ih =>
    obtain ⟨k, v⟩ := kv
    simp only [checkFields, Bool.and_eq_true, ih, List.mem_cons, Prod.mk.injEq]
    constructor
    · rintro ⟨h1, h2⟩ k' v' (⟨rfl, rfl⟩ | hm)
      · cases hf : SchemaAttrs.find? attrs k' with
        | none => simp [hf] at h1; simp [h1]
        | some rt => obtain ⟨r, t⟩ := rt; simp [hf] at h1; simp [h1]
      · exact h2 k' v' hm
    · intro h
      refine ⟨?_, fun k' v' hm => h k' v' (Or.inr hm)⟩
      have := h k v (Or.inl ⟨rfl, rfl⟩)
      cases hf : SchemaAttrs.find? attrs k with
      | none => simp [this.2 hf]
      | some rt => obtain ⟨r, t⟩ := rt; simp [this.1 r t hf]

/-- the converted attribute list has the same names and required flags, and pointwise converted types -/
theorem attrsToSchema_find {attrs : Attrs} {sattrs : SchemaAttrs} (h : attrsToSchema? attrs = some sattrs) (k : String) :
    (Attrs.find? attrs k = none → SchemaAttrs.find? sattrs k = none) ∧
    (∀ r t, Attrs.find? attrs k = some (r, t) →
      ∃ s, SchemaAttrs.find? sattrs k = some (r, s) ∧ CedarType.toSchemaType? t = some s) := by
  induction attrs generalizing sattrs with
  | nil => simp [attrsToSchema?] at h; subst h; simp [Attrs.find?, SchemaAttrs.find?]
  | cons a rest ih =>
    obtain ⟨k', r', t'⟩ := a
    simp only [attrsToSchema?] at h
    cases ht : CedarType.toSchemaType? t' with
    | none => simp [ht] at h
    | some s' =>
      cases hr : attrsToSchema? rest with
      | none => simp [ht, hr] at h
      | some rest' =>
        simp [ht, hr] at h; subst h
        simp only [Attrs.find?, SchemaAttrs.find?]
        by_cases hk : k' = k
        · subst hk; simp [ht]
        · rw [show (k' == k) = false from by simp [hk]]
          simp only [Bool.false_eq_true, ↓reduceIte]
          exact ih hr

theorem attrsToSchema_required {attrs : Attrs} {sattrs : SchemaAttrs} (h : attrsToSchema? attrs = some sattrs)
    (kvs : List (String × Value)) : schemaRequiredPresent sattrs kvs = requiredPresent attrs kvs := by
  induction attrs generalizing sattrs with
  | nil => simp [attrsToSchema?] at h; subst h; rfl
  | cons a rest ih =>
    obtain ⟨k', r', t'⟩ := a
    simp only [attrsToSchema?] at h
    cases ht : CedarType.toSchemaType? t' with
    | none => simp [ht] at h
    | some s' =>
      cases hr : attrsToSchema? rest with
      | none => simp [ht, hr] at h
      | some rest' =>
        simp [ht, hr] at h; subst h
        have := ih hr
        simp only [schemaRequiredPresent, requiredPresent, List.all_cons] at this ⊢
        rw [this]

theorem attrsSchematic_find {attrs : Attrs} (h : attrsSchematic attrs = true) {k : String} {r : Bool} {t : CedarType}
    (hf : Attrs.find? attrs k = some (r, t)) : t.schematic = true := by
  induction attrs with
  | nil => simp [Attrs.find?] at hf
  | cons a rest ih =>
    obtain ⟨k', r', t'⟩ := a
    simp only [attrsSchematic, Bool.and_eq_true] at h
    simp only [Attrs.find?] at hf
    by_cases hk : k' = k
    · simp [hk] at hf; obtain ⟨_, rfl⟩ := hf; exact h.1
    · simp [hk] at hf; exact ih h.2 hf

/-- on schematic types the `SchemaType` checker and the `Type` checker agree -/
theorem checkValue_eq_typecheckValue_aux : ∀ (n : Nat) (v : Value) (τ : CedarType) (σ : SchemaType),
    sizeOf v < n → τ.schematic = true → τ.toSchemaType? = some σ → checkValue v σ = typecheckValue v τ := by
  intro n
  induction n with
  | zero => intro v τ σ h; omega
  | succ n ih =>
    intro v τ σ hn hs hσ
    cases τ with
    | never => simp [CedarType.schematic] at hs
    | anyEntity => simp [CedarType.schematic] at hs
    | bool b =>
      cases b <;> simp [CedarType.schematic] at hs
      simp [CedarType.toSchemaType?] at hσ; subst hσ
      cases v with
      | prim p => cases p <;> simp [checkValue, typecheckValue]
      | _ => simp [checkValue, typecheckValue]
    | long =>
      simp [CedarType.toSchemaType?] at hσ; subst hσ
      cases v with
      | prim p => cases p <;> simp [checkValue, typecheckValue]
      | _ => simp [checkValue, typecheckValue]
    | string =>
      simp [CedarType.toSchemaType?] at hσ; subst hσ
      cases v with
      | prim p => cases p <;> simp [checkValue, typecheckValue]
      | _ => simp [checkValue, typecheckValue]
    | ext nm =>
      simp [CedarType.toSchemaType?] at hσ; subst hσ
      cases v with
      | prim p => cases p <;> simp [checkValue, typecheckValue]
      | _ => simp [checkValue, typecheckValue]
    | entity lub =>
      match lub, hs, hσ with
      | [e], _, hσ =>
        simp [CedarType.toSchemaType?] at hσ; subst hσ
        cases v with
        | prim p => cases p <;> simp [checkValue, typecheckValue] <;> (rw [Bool.eq_iff_iff]; simp)
        | _ => simp [checkValue, typecheckValue]
      | [], hs, _ => simp [CedarType.schematic] at hs
      | _ :: _ :: _, hs, _ => simp [CedarType.schematic] at hs
    | set el =>
      cases el with
      | none => simp [CedarType.schematic] at hs
      | some t =>
        simp only [CedarType.schematic] at hs
        simp only [CedarType.toSchemaType?, Option.map_eq_some_iff] at hσ
        obtain ⟨s, hs', rfl⟩ := hσ
        cases v with
        | prim p => cases p <;> simp [checkValue, typecheckValue]
        | ext x => simp [checkValue, typecheckValue]
        | record kvs => simp [checkValue, typecheckValue]
        | set vs =>
          simp only [checkValue, typecheckValue]
          rw [Bool.eq_iff_iff, checkValues_iff_all, typecheckValues_iff_all]
          constructor
          · intro h v hv; rw [← ih v t s (by have := mem_sizeOf_lt hv; omega) hs hs']; exact h v hv
          · intro h v hv; rw [ih v t s (by have := mem_sizeOf_lt hv; omega) hs hs']; exact h v hv
    | record attrs o =>
      simp only [CedarType.schematic] at hs
      simp only [CedarType.toSchemaType?, Option.map_eq_some_iff] at hσ
      obtain ⟨sattrs, hsa, rfl⟩ := hσ
      cases v with
      | prim p => cases p <;> simp [checkValue, typecheckValue]
      | ext x => simp [checkValue, typecheckValue]
      | set vs => simp [checkValue, typecheckValue]
      | record kvs =>
        simp only [checkValue, typecheckValue]
        rw [attrsToSchema_required hsa, Bool.and_comm]
        congr 1
        rw [Bool.eq_iff_iff, checkFields_iff_all, typecheckFields_iff_all]
        constructor
        · intro h k v hm
          have hf := attrsToSchema_find hsa k
          refine ⟨fun r t hft => ?_, fun hn => (h k v hm).2 (hf.1 hn)⟩
          obtain ⟨s, hfs, hts⟩ := hf.2 r t hft
          rw [← ih v t s (by have := mem_kvs_sizeOf_lt hm; omega) (attrsSchematic_find hs hft) hts]
          exact (h k v hm).1 r s hfs
        · intro h k v hm
          have hf := attrsToSchema_find hsa k
          constructor
          · intro r s hfs
            cases hft : Attrs.find? attrs k with
            | none => rw [hf.1 hft] at hfs; cases hfs
            | some rt =>
              obtain ⟨r', t⟩ := rt
              obtain ⟨s', hfs', hts⟩ := hf.2 r' t hft
              rw [hfs'] at hfs; cases hfs
              rw [ih v t s (by have := mem_kvs_sizeOf_lt hm; omega) (attrsSchematic_find hs hft) hts]
              exact (h k v hm).1 r t hft
          · intro hn
            cases hft : Attrs.find? attrs k with
            | none => exact (h k v hm).2 hft
            | some rt =>
              obtain ⟨r', t⟩ := rt
              obtain ⟨s', hfs', _⟩ := hf.2 r' t hft
              rw [hfs'] at hn; cases hn


theorem bind_ok_iff {ε : Type} (x : Except ε Unit) (f : Unit → Except ε Unit) :
    (x >>= f) = .ok () ↔ x = .ok () ∧ f () = .ok () := by
  cases x with
  | error e => simp [bind, Except.bind]
  | ok u => cases u; simp [bind, Except.bind]

theorem ite_ok_iff {ε : Type} (c : Prop) [Decidable c] (e : ε) :
    (if c then (Except.ok () : Except ε Unit) else .error e) = .ok () ↔ c := by
  by_cases h : c <;> simp [h]

theorem validEnumId_iff (s : Schema) (u : EntityUID) :
    validEnumId s u = true ↔ ∀ et ids, s.entityType? u.ty = some et → et.enumIds = some ids → u.eid ∈ ids := by
  unfold validEnumId
  cases h1 : s.entityType? u.ty with
  | none => simp
  | some et =>
    cases h2 : et.enumIds with
    | none =>
      simp only [h2, true_iff]
      rintro et' ids h; cases h; rw [h2]; intro h; cases h
    | some ids =>
      simp only [h2, List.contains_iff_mem]
      constructor
      · rintro h et' ids' he; cases he; rw [h2]; intro hi; cases hi; exact h
      · intro h; exact h et ids rfl h2

theorem declaredIfAction_iff (s : Schema) (u : EntityUID) :
    declaredIfAction s u = true ↔ (isActionType u.ty = true → ∃ a, s.action? u = some a) := by
  unfold declaredIfAction
  cases h : s.action? u <;> simp

theorem validateEuid_iff (s : Schema) (u : EntityUID) : validateEuid s u = .ok () ↔ ValidUid s u := by
  unfold validateEuid ValidUid
  rw [← validEnumId_iff, ← declaredIfAction_iff]
  cases validEnumId s u <;> cases declaredIfAction s u <;> simp

theorem validateEuids_iff (s : Schema) (us : List EntityUID) :
    validateEuids s us = .ok () ↔ ∀ u, u ∈ us → ValidUid s u := by
  induction us with
  | nil => simp [validateEuids]
  | cons u us ih => simp only [validateEuids, bind_ok_iff, validateEuid_iff, ih, List.mem_cons]; simp

mutual
theorem schematic_conv : ∀ τ : CedarType, τ.schematic = true → ∃ σ, τ.toSchemaType? = some σ
  | .never, h => by simp [CedarType.schematic] at h
  | .anyEntity, h => by simp [CedarType.schematic] at h
  | .bool .anyBool, _ => ⟨_, rfl⟩
  | .bool .tt, h => by simp [CedarType.schematic] at h
  | .bool .ff, h => by simp [CedarType.schematic] at h
  | .long, _ => ⟨_, rfl⟩
  | .string, _ => ⟨_, rfl⟩
  | .ext _, _ => ⟨_, rfl⟩
  | .entity [], h => by simp [CedarType.schematic] at h
  | .entity [_], _ => ⟨_, rfl⟩
  | .entity (_ :: _ :: _), h => by simp [CedarType.schematic] at h
  | .set none, h => by simp [CedarType.schematic] at h
  | .set (some t), h => by
    simp only [CedarType.schematic] at h
    obtain ⟨σ, hσ⟩ := schematic_conv t h
    exact ⟨.set σ, by simp [CedarType.toSchemaType?, hσ]⟩
  | .record attrs o, h => by
    simp only [CedarType.schematic] at h
    obtain ⟨sa, hsa⟩ := attrsSchematic_conv attrs h
    exact ⟨.record sa o, by simp [CedarType.toSchemaType?, hsa]⟩
theorem attrsSchematic_conv : ∀ attrs : List (String × Bool × CedarType), attrsSchematic attrs = true →
    ∃ sa, attrsToSchema? attrs = some sa
  | [], _ => ⟨[], rfl⟩
  | (k, r, t) :: rest, h => by
    simp only [attrsSchematic, Bool.and_eq_true] at h
    obtain ⟨σ, hσ⟩ := schematic_conv t h.1
    obtain ⟨sa, hsa⟩ := attrsSchematic_conv rest h.2
    exact ⟨(k, r, σ) :: sa, by simp [attrsToSchema?, hσ, hsa]⟩
end



theorem typecheckValue_iff_instanceOf (v : Value) (t : CedarType) : typecheckValue v t = true ↔ InstanceOfType v t :=
  ⟨typecheckValue_sound_aux (sizeOf v + 1) v t (Nat.lt_succ_self _), typecheckValue_complete⟩

theorem checkAttrValue_iff {τ : CedarType} (hs : τ.schematic = true) (v : Value) :
    checkAttrValue τ v = .ok () ↔ InstanceOfType v τ := by
  obtain ⟨σ, hσ⟩ := schematic_conv τ hs
  unfold checkAttrValue
  rw [hσ]
  simp only [ite_ok_iff]
  rw [checkValue_eq_typecheckValue_aux (sizeOf v + 1) v τ σ (Nat.lt_succ_self _) hs hσ, typecheckValue_iff_instanceOf]

theorem checkOneAttr_iff (et : EntityTypeEntry) (hs : attrsSchematic et.attrs = true) (k : String) (v : Value) :
    checkOneAttr et k v = .ok () ↔
      (∀ r t, Attrs.find? et.attrs k = some (r, t) → InstanceOfType v t) ∧
      (Attrs.find? et.attrs k = none → et.isOpen = true) := by
  unfold checkOneAttr
  cases hf : Attrs.find? et.attrs k with
  | none => simp [ite_ok_iff]
  | some rt =>
    obtain ⟨r, t⟩ := rt
    simp only [checkAttrValue_iff (attrsSchematic_find hs hf)]
    constructor
    · intro h; exact ⟨fun r' t' he => by cases he; exact h, fun he => by cases he⟩
    · intro h; exact h.1 r t rfl

theorem validateAttrs_iff (s : Schema) (et : EntityTypeEntry) (hs : attrsSchematic et.attrs = true)
    (attrs : List (String × Value)) :
    validateAttrs s et attrs = .ok () ↔
      ∀ k v, (k, v) ∈ attrs →
        (∀ r t, Attrs.find? et.attrs k = some (r, t) → InstanceOfType v t) ∧
        (Attrs.find? et.attrs k = none → et.isOpen = true) ∧
        (∀ u, u ∈ v.euids → ValidUid s u) := by
  induction attrs with
  | nil => simp [validateAttrs]
  | cons kv rest ih =>
    obtain ⟨k, v⟩ := kv
    simp only [validateAttrs, bind_ok_iff, ih, validateEuids_iff, checkOneAttr_iff et hs, List.mem_cons, Prod.mk.injEq]
    constructor
    · rintro ⟨⟨h1, h1'⟩, h2, h3⟩ k' v' (⟨rfl, rfl⟩ | hm)
      · exact ⟨h1, h1', h2⟩
      · exact h3 k' v' hm
    · intro h
      have h0 := h k v (Or.inl ⟨rfl, rfl⟩)
      exact ⟨⟨h0.1, h0.2.1⟩, h0.2.2, fun k' v' hm => h k' v' (Or.inr hm)⟩

theorem requiredAll_iff (et : EntityTypeEntry) (attrs : List (String × Value)) :
    (et.requiredAttrs.all (fun a => attrs.any (fun kv => kv.1 == a))) = true ↔
      ∀ k t, (k, true, t) ∈ et.attrs → ∃ v, (k, v) ∈ attrs := by
  unfold EntityTypeEntry.requiredAttrs
  simp only [List.all_eq_true, List.mem_map, List.mem_filter, List.any_eq_true, beq_iff_eq]
  constructor
  · intro h k t hm
    obtain ⟨kv, hkv, he⟩ := h k ⟨(k, true, t), ⟨hm, rfl⟩, rfl⟩
    obtain ⟨k', v⟩ := kv; simp at he; subst he; exact ⟨v, hkv⟩
  · rintro h a ⟨⟨k, r, t⟩, ⟨hm, hr⟩, rfl⟩
    simp at hr; subst hr
    obtain ⟨v, hv⟩ := h k t hm
    exact ⟨(k, v), hv, rfl⟩

theorem validateAncestors_iff (s : Schema) (ty : EntityType) (anc : List EntityUID) :
    validateAncestors s ty anc = .ok () ↔
      ∀ a, a ∈ anc → ValidUid s a ∧ a.ty ∈ s.allowedParentTypes ty := by
  induction anc with
  | nil => simp [validateAncestors]
  | cons a rest ih =>
    simp only [validateAncestors, checkAncestorType, bind_ok_iff, ih, validateEuid_iff, ite_ok_iff, List.mem_cons, List.contains_iff_mem]
    constructor
    · rintro ⟨h1, h2, h3⟩ a' (rfl | hm)
      · exact ⟨h1, h2⟩
      · exact h3 a' hm
    · intro h
      exact ⟨(h a (Or.inl rfl)).1, (h a (Or.inl rfl)).2, fun a' hm => h a' (Or.inr hm)⟩

theorem checkTagValues_iff {τ : CedarType} (hs : τ.schematic = true) (tags : List (String × Value)) :
    checkTagValues τ tags = .ok () ↔ ∀ k v, (k, v) ∈ tags → InstanceOfType v τ := by
  induction tags with
  | nil => simp [checkTagValues]
  | cons kv rest ih =>
    obtain ⟨k, v⟩ := kv
    simp only [checkTagValues, bind_ok_iff, ih, checkAttrValue_iff hs, List.mem_cons, Prod.mk.injEq]
    constructor
    · rintro ⟨h1, h2⟩ k' v' (⟨rfl, rfl⟩ | hm)
      · exact h1
      · exact h2 k' v' hm
    · intro h; exact ⟨h k v (Or.inl ⟨rfl, rfl⟩), fun k' v' hm => h k' v' (Or.inr hm)⟩

theorem validateTagEuids_iff (s : Schema) (tags : List (String × Value)) :
    validateTagEuids s tags = .ok () ↔ ∀ k v, (k, v) ∈ tags → ∀ u, u ∈ v.euids → ValidUid s u := by
  induction tags with
  | nil => simp [validateTagEuids]
  | cons kv rest ih =>
    obtain ⟨k, v⟩ := kv
    simp only [validateTagEuids, bind_ok_iff, ih, validateEuids_iff, List.mem_cons, Prod.mk.injEq]
    constructor
    · rintro ⟨h1, h2⟩ k' v' (⟨rfl, rfl⟩ | hm)
      · exact h1
      · exact h2 k' v' hm
    · intro h; exact ⟨h k v (Or.inl ⟨rfl, rfl⟩), fun k' v' hm => h k' v' (Or.inr hm)⟩

theorem validateTags_iff (s : Schema) (et : EntityTypeEntry)
    (hs : ∀ t, et.tags = some t → t.schematic = true) (tags : List (String × Value)) :
    validateTags s et tags = .ok () ↔
      (∀ k v, (k, v) ∈ tags → ∃ t, et.tags = some t ∧ InstanceOfType v t) ∧
      (∀ k v, (k, v) ∈ tags → ∀ u, u ∈ v.euids → ValidUid s u) := by
  unfold validateTags
  simp only [bind_ok_iff, validateTagEuids_iff]
  apply and_congr_left'
  unfold checkTagTypes
  cases ht : et.tags with
  | none =>
    simp only [ite_ok_iff, List.isEmpty_iff]
    constructor
    · rintro rfl k v hm; cases hm
    · intro h
      cases tags with
      | nil => rfl
      | cons kv rest => obtain ⟨k, v⟩ := kv; obtain ⟨t, ht', _⟩ := h k v (List.mem_cons_self ..); cases ht'
  | some τ =>
    obtain ⟨σ, hσ⟩ := schematic_conv τ (hs τ ht)
    simp only [hσ, checkTagValues_iff (hs τ ht)]
    constructor
    · intro h k v hm; exact ⟨τ, rfl, h k v hm⟩
    · intro h k v hm; obtain ⟨t, ht', hi⟩ := h k v hm; cases ht'; exact hi

theorem sameUidSet_iff (a b : List EntityUID) : sameUidSet a b = true ↔ ∀ u, u ∈ a ↔ u ∈ b := by
  unfold sameUidSet
  simp only [Bool.and_eq_true, List.all_eq_true, List.contains_iff_mem]
  constructor
  · rintro ⟨h1, h2⟩ u; exact ⟨h1 u, h2 u⟩
  · intro h; exact ⟨fun u hu => (h u).mp hu, fun u hu => (h u).mpr hu⟩

theorem entityType?_mem {s : Schema} {ty : EntityType} {et : EntityTypeEntry} (h : s.entityType? ty = some et) :
    ∃ n, (n, et) ∈ s.ets := by
  unfold Schema.entityType? at h
  cases hf : s.ets.find? (fun p => p.1 == ty) with
  | none => simp [hf] at h
  | some p => simp [hf] at h; subst h; exact ⟨p.1, List.mem_of_find?_eq_some hf⟩

theorem schematic_entry {s : Schema} (hs : s.schematic = true) {ty : EntityType} {et : EntityTypeEntry}
    (h : s.entityType? ty = some et) :
    attrsSchematic et.attrs = true ∧ ∀ t, et.tags = some t → t.schematic = true := by
  obtain ⟨n, hm⟩ := entityType?_mem h
  unfold Schema.schematic at hs
  rw [List.all_eq_true] at hs
  have := hs (n, et) hm
  simp only [Bool.and_eq_true] at this
  refine ⟨this.1, fun t ht => ?_⟩
  have h2 := this.2
  rw [ht] at h2; exact h2


theorem liftEuid_ok_iff (x : Except EntityViolation Unit) : liftEuid x = .ok () ↔ x = .ok () := by
  cases x with
  | ok u => cases u; simp [liftEuid]
  | error e => cases e <;> simp [liftEuid]

theorem checkScopeEntity_iff (s : Schema) (u : EntityUID) (e : RequestViolation) :
    checkScopeEntity s u e = .ok () ↔ (∃ et, s.entityType? u.ty = some et) ∧ validEnumId s u = true := by
  unfold checkScopeEntity
  cases h : s.entityType? u.ty with
  | none => simp
  | some et => simp [ite_ok_iff]

theorem checkApplies_iff (s : Schema) (p a r : EntityUID) :
    checkApplies s p a r = .ok () ↔ ∃ act, s.action? a = some act ∧ p.ty ∈ act.principals ∧ r.ty ∈ act.resources := by
  unfold checkApplies
  cases h : s.action? a with
  | none => simp
  | some act =>
    by_cases hp : act.principals.contains p.ty = true
    · by_cases hr : act.resources.contains r.ty = true
      · simp only [hp, hr, if_true]; simp at hp hr; simp [hp, hr]
      · simp only [hp, hr, if_true]; simp at hp hr; simp [hr]
    · simp only [hp]; simp at hp; simp [hp]



/-- Boolean view of an outcome (for closed computations: `Except` has no `DecidableEq`) -/
def isOkB {ε : Type} : Except ε Unit → Bool
  | .ok _ => true
  | .error _ => false

theorem ok_iff_isOkB {ε : Type} (x : Except ε Unit) : x = .ok () ↔ isOkB x = true := by
  cases x with
  | ok u => cases u; simp [isOkB]
  | error e => simp [isOkB]

end Cedar
