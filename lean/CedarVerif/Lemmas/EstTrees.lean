import CedarVerif.Cedar.Est.Trees
import CedarVerif.Lemmas.Est
/-
Helper lemmas for C06: round trips through the PST and protobuf tree models (expression level).
-/
namespace Cedar.Pst
open Cedar Cedar.Est

theorem toAst_call (fn : String) (as : List PExpr) : toAst (mkCall fn as) = .call fn (toAsts as) := by
  unfold mkCall
  match as with
  | [] => simp [toAst, toAsts]
  | [a] => simp only []; split <;> simp [toAst, toAsts]
  | [a, b] => simp only []; split <;> simp [toAst, toAsts]
  | a :: b :: c :: rest => simp [toAst, toAsts]

mutual
theorem toAst_ofAstT : (e : Expr) → WF e → toAst (ofAstT e) = e
  | .lit _, _ => by simp [ofAstT, toAst]
  | .var _, _ => by simp [ofAstT, toAst]
  | .slot _, _ => by simp [ofAstT, toAst]
  | .unknown _ _, h => absurd h (by simp [WF])
  | .ite c t e, h => by
    have h : WF c ∧ WF t ∧ WF e := h
    simp [ofAstT, toAst, toAst_ofAstT c h.1, toAst_ofAstT t h.2.1, toAst_ofAstT e h.2.2]
  | .and a b, h => by
    have h : WF a ∧ WF b ∧ (isBoolLit a && isBoolLit b) = false := h
    simp [ofAstT, toAst, toAst_ofAstT a h.1, toAst_ofAstT b h.2.1, mkAnd_of_not_lits a b h.2.2]
  | .or a b, h => by
    have h : WF a ∧ WF b ∧ (isBoolLit a && isBoolLit b) = false := h
    simp [ofAstT, toAst, toAst_ofAstT a h.1, toAst_ofAstT b h.2.1, mkOr_of_not_lits a b h.2.2]
  | .unaryApp op a, h => by
    have h : WF a := h
    simp [ofAstT, toAst, toAst_ofAstT a h]
  | .binaryApp op a b, h => by
    have h : WF a ∧ WF b := h
    simp [ofAstT, toAst, toAst_ofAstT a h.1, toAst_ofAstT b h.2]
  | .call fn args, h => by
    have h : isKnownExt fn = true ∧ WFs args := h
    simp only [ofAstT]
    rw [toAst_call fn (ofAstTs args), toAsts_ofAstTs args h.2]
  | .getAttr e a, h => by
    have h : WF e := h
    simp [ofAstT, toAst, toAst_ofAstT e h]
  | .hasAttr e a, h => by
    have h : WF e := h
    simp [ofAstT, toAst, toAst_ofAstT e h, extendedHas, extHasFold]
  | .like e p, h => by
    have h : WF e := h
    simp [ofAstT, toAst, toAst_ofAstT e h]
  | .is e ty, h => by
    have h : WF e ∧ validName ty = true := h
    simp [ofAstT, toAst, toAst_ofAstT e h.1]
  | .set es, h => by
    have h : WFs es := h
    simp [ofAstT, toAst, toAsts_ofAstTs es h]
  | .record kvs, h => by
    have h : WFKVs kvs ∧ SortedKeys kvs := h
    simp [ofAstT, toAst, toAstKVs_ofAstTKVs kvs h.1]
theorem toAsts_ofAstTs : (es : List Expr) → WFs es → toAsts (ofAstTs es) = es
  | [], _ => by simp [ofAstTs, toAsts]
  | e :: es, h => by
    have h : WF e ∧ WFs es := h
    simp [ofAstTs, toAsts, toAst_ofAstT e h.1, toAsts_ofAstTs es h.2]
theorem toAstKVs_ofAstTKVs : (kvs : List (String × Expr)) → WFKVs kvs → toAstKVs (ofAstTKVs kvs) = kvs
  | [], _ => by simp [ofAstTKVs, toAstKVs]
  | (k, e) :: kvs, h => by
    have h : WF e ∧ WFKVs kvs := h
    simp [ofAstTKVs, toAstKVs, toAst_ofAstT e h.1, toAstKVs_ofAstTKVs kvs h.2]
end

end Cedar.Pst

namespace Cedar.Proto
open Cedar Cedar.Est

theorem record_eq (kvs : List (String × Expr))
    (h : toAstFields (ofAstTKVs kvs) = kvs.map (fun p => (p.1, (Except.ok p.2 : R Expr))))
    (hs : SortedKeys kvs) : recordOf (toAstFields (ofAstTKVs kvs)) = .ok (.record kvs) := by
  rw [h]
  simp [recordOf, seqKVs_map_ok, bind, Except.bind, sortKVs_sorted kvs hs]

mutual
theorem toAst_ofAstT : (e : Expr) → WF e → toAst (ofAstT e) = .ok e
  | .lit _, _ => by simp [ofAstT, toAst]
  | .var _, _ => by simp [ofAstT, toAst]
  | .slot _, _ => by simp [ofAstT, toAst]
  | .unknown _ _, h => absurd h (by simp [WF])
  | .ite c t e, h => by
    have h : WF c ∧ WF t ∧ WF e := h
    simp [ofAstT, toAst, toAst_ofAstT c h.1, toAst_ofAstT t h.2.1, toAst_ofAstT e h.2.2, bind, Except.bind]
  | .and a b, h => by
    have h : WF a ∧ WF b ∧ (isBoolLit a && isBoolLit b) = false := h
    simp [ofAstT, toAst, toAst_ofAstT a h.1, toAst_ofAstT b h.2.1, mkAnd_of_not_lits a b h.2.2, bind, Except.bind]
  | .or a b, h => by
    have h : WF a ∧ WF b ∧ (isBoolLit a && isBoolLit b) = false := h
    simp [ofAstT, toAst, toAst_ofAstT a h.1, toAst_ofAstT b h.2.1, mkOr_of_not_lits a b h.2.2, bind, Except.bind]
  | .unaryApp op a, h => by
    have h : WF a := h
    simp [ofAstT, toAst, toAst_ofAstT a h, bind, Except.bind]
  | .binaryApp op a b, h => by
    have h : WF a ∧ WF b := h
    simp [ofAstT, toAst, toAst_ofAstT a h.1, toAst_ofAstT b h.2, bind, Except.bind]
  | .call fn args, h => by
    have h : isKnownExt fn = true ∧ WFs args := h
    simp [ofAstT, toAst, toAsts_ofAstTs args h.2, bind, Except.bind]
  | .getAttr e a, h => by
    have h : WF e := h
    simp [ofAstT, toAst, toAst_ofAstT e h, bind, Except.bind]
  | .hasAttr e a, h => by
    have h : WF e := h
    simp [ofAstT, toAst, toAst_ofAstT e h, bind, Except.bind]
  | .like e p, h => by
    have h : WF e := h
    simp [ofAstT, toAst, toAst_ofAstT e h, bind, Except.bind]
  | .is e ty, h => by
    have h : WF e ∧ validName ty = true := h
    simp [ofAstT, toAst, toAst_ofAstT e h.1, bind, Except.bind]
  | .set es, h => by
    have h : WFs es := h
    simp [ofAstT, toAst, toAsts_ofAstTs es h, bind, Except.bind]
  | .record kvs, h => by
    have h : WFKVs kvs ∧ SortedKeys kvs := h
    simp [ofAstT, toAst, record_eq kvs (toAstFields_ofAstTKVs kvs h.1) h.2]
theorem toAsts_ofAstTs : (es : List Expr) → WFs es → toAsts (ofAstTs es) = .ok es
  | [], _ => by simp [ofAstTs, toAsts]
  | e :: es, h => by
    have h : WF e ∧ WFs es := h
    simp [ofAstTs, toAsts, toAst_ofAstT e h.1, toAsts_ofAstTs es h.2, bind, Except.bind]
theorem toAstFields_ofAstTKVs : (kvs : List (String × Expr)) → WFKVs kvs →
    toAstFields (ofAstTKVs kvs) = kvs.map (fun p => (p.1, (Except.ok p.2 : R Expr)))
  | [], _ => by simp [ofAstTKVs, toAstFields]
  | (k, e) :: kvs, h => by
    have h : WF e ∧ WFKVs kvs := h
    simp [ofAstTKVs, toAstFields, toAst_ofAstT e h.1, toAstFields_ofAstTKVs kvs h.2]
end

mutual
theorem noPanic : (e : Expr) → WF e → (ofAstT e).hasPanic = false
  | .lit _, _ => by simp [ofAstT, Msg.hasPanic]
  | .var _, _ => by simp [ofAstT, Msg.hasPanic]
  | .slot _, _ => by simp [ofAstT, Msg.hasPanic]
  | .unknown _ _, h => absurd h (by simp [WF])
  | .ite c t e, h => by
    have h : WF c ∧ WF t ∧ WF e := h
    simp [ofAstT, Msg.hasPanic, noPanic c h.1, noPanic t h.2.1, noPanic e h.2.2]
  | .and a b, h => by
    have h : WF a ∧ WF b ∧ (isBoolLit a && isBoolLit b) = false := h
    simp [ofAstT, Msg.hasPanic, noPanic a h.1, noPanic b h.2.1]
  | .or a b, h => by
    have h : WF a ∧ WF b ∧ (isBoolLit a && isBoolLit b) = false := h
    simp [ofAstT, Msg.hasPanic, noPanic a h.1, noPanic b h.2.1]
  | .unaryApp op a, h => by
    have h : WF a := h
    simp [ofAstT, Msg.hasPanic, noPanic a h]
  | .binaryApp op a b, h => by
    have h : WF a ∧ WF b := h
    simp [ofAstT, Msg.hasPanic, noPanic a h.1, noPanic b h.2]
  | .call fn args, h => by
    have h : isKnownExt fn = true ∧ WFs args := h
    simp [ofAstT, Msg.hasPanic, noPanics args h.2]
  | .getAttr e a, h => by
    have h : WF e := h
    simp [ofAstT, Msg.hasPanic, noPanic e h]
  | .hasAttr e a, h => by
    have h : WF e := h
    simp [ofAstT, Msg.hasPanic, noPanic e h]
  | .like e p, h => by
    have h : WF e := h
    simp [ofAstT, Msg.hasPanic, noPanic e h]
  | .is e ty, h => by
    have h : WF e ∧ validName ty = true := h
    simp [ofAstT, Msg.hasPanic, noPanic e h.1]
  | .set es, h => by
    have h : WFs es := h
    simp [ofAstT, Msg.hasPanic, noPanics es h]
  | .record kvs, h => by
    have h : WFKVs kvs ∧ SortedKeys kvs := h
    simp [ofAstT, Msg.hasPanic, noPanicKVs kvs h.1]
theorem noPanics : (es : List Expr) → WFs es → Msg.hasPanicList (ofAstTs es) = false
  | [], _ => by simp [ofAstTs, Msg.hasPanicList]
  | e :: es, h => by
    have h : WF e ∧ WFs es := h
    simp [ofAstTs, Msg.hasPanicList, noPanic e h.1, noPanics es h.2]
theorem noPanicKVs : (kvs : List (String × Expr)) → WFKVs kvs → Msg.hasPanicKVs (ofAstTKVs kvs) = false
  | [], _ => by simp [ofAstTKVs, Msg.hasPanicKVs]
  | (k, e) :: kvs, h => by
    have h : WF e ∧ WFKVs kvs := h
    simp [ofAstTKVs, Msg.hasPanicKVs, noPanic e h.1, noPanicKVs kvs h.2]
end

end Cedar.Proto
