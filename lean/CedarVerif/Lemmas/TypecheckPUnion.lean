import CedarVerif.Lemmas.TypecheckPSound
/-
C03, permissive mode: the rules for `has` `.` `hasTag` `getTag` `in` `<` on operands of ARBITRARY static type — entity-type
unions (`User ⊔ Group`), `AnyEntity`, joined record types — and the type invariant of the full permissive induction:
`OkTy τ` = record keys are distinct everywhere inside `τ` (`ndTy`) and `Never` occurs only as the element type of a set
(`nnTy`).  `SchemaND s`: the record types the schema declares have distinct keys (Rust: `Attributes` is a `BTreeMap`).
-/
namespace Cedar.C03

open Cedar

/-! ### `Never` occurs only as a set element type -/

def isNeverB : CedarType → Bool
  | .never => true
  | _ => false

mutual
def nnTy : CedarType → Bool
  | .never => false
  | .set (some t) => isNeverB t || nnTy t
  | .record attrs _ => nnAttrs attrs
  | _ => true
def nnAttrs : List (String × Bool × CedarType) → Bool
  | [] => true
  | (_, _, t) :: rest => nnTy t && nnAttrs rest
end

/-- `Never` or a type without `Never` outside set elements -/
def nqTy (t : CedarType) : Bool := isNeverB t || nnTy t

theorem nnAttrs_iff {attrs : Attrs} : nnAttrs attrs = true ↔ ∀ k r t, (k, r, t) ∈ attrs → nnTy t = true := by
  induction attrs with
  | nil => simp [nnAttrs]
  | cons a rest ih =>
    obtain ⟨k, r, t⟩ := a
    simp only [nnAttrs, Bool.and_eq_true, ih, List.mem_cons, Prod.mk.injEq]
    constructor
    · rintro ⟨h1, h2⟩ k' r' t' (⟨rfl, rfl, rfl⟩ | hm)
      · exact h1
      · exact h2 k' r' t' hm
    · intro h
      exact ⟨h k r t (Or.inl ⟨rfl, rfl, rfl⟩), fun k' r' t' hm => h k' r' t' (Or.inr hm)⟩

theorem nn_ne_never {τ : CedarType} (h : nnTy τ = true) : τ ≠ .never := by
  intro h'; rw [h'] at h; simp [nnTy] at h

theorem nn_nq {τ : CedarType} (h : nnTy τ = true) : nqTy τ = true := by simp [nqTy, h]

mutual
theorem mono_nn : ∀ (t : CedarType), t.mono = true → nnTy t = true
  | .never, h => by simp [CedarType.mono] at h
  | .set (some t), h => by
    simp only [CedarType.mono] at h
    simp only [nnTy, Bool.or_eq_true]
    exact Or.inr (mono_nn t h)
  | .set none, _ => rfl
  | .record attrs o, h => by
    simp only [CedarType.mono] at h
    simp only [nnTy]
    exact monoAttrs_nn attrs h
  | .bool _, _ => rfl
  | .long, _ => rfl
  | .string, _ => rfl
  | .entity _, _ => rfl
  | .anyEntity, _ => rfl
  | .ext _, _ => rfl
theorem monoAttrs_nn : ∀ (attrs : List (String × Bool × CedarType)), monoAttrs attrs = true → nnAttrs attrs = true
  | [], _ => rfl
  | (_, _, t) :: rest, h => by
    simp only [monoAttrs, Bool.and_eq_true] at h
    simp only [nnAttrs, Bool.and_eq_true]
    exact ⟨mono_nn t h.1, monoAttrs_nn rest h.2⟩
end

theorem plub_never_l {b c : CedarType} (h : lub .permissive .never b = some c) : c = b := by
  rw [lub.eq_def] at h
  simp [isSubtype] at h
  exact h.symm

theorem subtype_never_r {a : CedarType} (ha : a ≠ .never) : isSubtype .permissive a .never = false := by
  cases a <;> simp [isSubtype] at ha ⊢

theorem plub_never_r {a c : CedarType} (ha : a ≠ .never) (h : lub .permissive a .never = some c) : c = a := by
  rw [lub.eq_def] at h
  simp [isSubtype, subtype_never_r ha] at h
  exact h.symm

theorem isNeverB_eq {t : CedarType} (h : isNeverB t = true) : t = .never := by
  cases t <;> simp [isNeverB] at h ⊢

theorem plub_nn_aux : ∀ (n : Nat) (a b c : CedarType), sizeOf a < n → lub .permissive a b = some c →
    (nqTy a = true → nqTy b = true → nqTy c = true) ∧ (nnTy a = true → nnTy b = true → nnTy c = true) := by
  intro n
  induction n with
  | zero => intro a b c hn; omega
  | succ n ih =>
    intro a b c hn h
    have h2 : nnTy a = true → nnTy b = true → nnTy c = true := by
      intro ha hb
      cases plub_cases h
      case sub_l hs => exact hb
      case sub_r hs => exact ha
      case bool => rfl
      case anySet => rfl
      case entity => rfl
      case anyL => rfl
      case anyR => rfl
      case set e0 e1 t hl =>
        simp only [nnTy] at ha hb ⊢
        refine (ih e0 e1 t ?_ hl).1 ha hb
        simp at hn; omega
      case record a0 o0 a1 o1 =>
        simp only [nnTy] at ha hb ⊢
        rw [nnAttrs_iff] at ha hb ⊢
        intro k r t hm
        obtain ⟨r0, t0, r1, t1, hm0, hf1, hlt, _⟩ := lubAttrsPerm_mem k r t hm
        refine (ih t0 t1 t ?_ hlt).2 (ha k r0 t0 hm0) (hb k r1 t1 (find_mem hf1))
        have := List.sizeOf_lt_of_mem hm0
        simp at this hn
        omega
    refine ⟨fun ha hb => ?_, h2⟩
    simp only [nqTy, Bool.or_eq_true] at ha hb
    rcases ha with ha | ha
    · have := isNeverB_eq ha; subst this
      rw [plub_never_l h]; simp [nqTy, hb]
    · rcases hb with hb | hb
      · have := isNeverB_eq hb; subst this
        rw [plub_never_r (nn_ne_never ha) h]; exact nn_nq ha
      · exact nn_nq (h2 ha hb)

theorem plub_nn {a b c : CedarType} (h : lub .permissive a b = some c) (ha : nnTy a = true) (hb : nnTy b = true) :
    nnTy c = true := (plub_nn_aux (sizeOf a + 1) a b c (Nat.lt_succ_self _) h).2 ha hb

theorem plub_nq_nn {a b c : CedarType} (h : lub .permissive a b = some c) (ha : nqTy a = true) (hb : nnTy b = true) :
    nnTy c = true := by
  simp only [nqTy, Bool.or_eq_true] at ha
  rcases ha with ha | ha
  · have := isNeverB_eq ha; subst this
    rw [plub_never_l h]; exact hb
  · exact plub_nn h ha hb

theorem foldl_plub_nn : ∀ (ts : List CedarType) (acc τ : CedarType),
    ts.foldl (fun acc t => acc.bind (fun a => lub .permissive a t)) (some acc) = some τ →
    (∀ t, t ∈ ts → nnTy t = true) → nqTy acc = true →
    nqTy τ = true ∧ ((nnTy acc = true ∨ ts ≠ []) → nnTy τ = true)
  | [], acc, τ, h, _, ha => by
    simp only [List.foldl_nil, Option.some.injEq] at h
    subst h
    exact ⟨ha, fun h => h.elim id (fun h => (h rfl).elim)⟩
  | t :: ts, acc, τ, h, hall, ha => by
    simp only [List.foldl_cons, Option.bind_some] at h
    cases hl : lub .permissive acc t with
    | none => rw [hl, foldl_plub_none] at h; cases h
    | some acc' =>
      rw [hl] at h
      have hn' := plub_nq_nn hl ha (hall t List.mem_cons_self)
      obtain ⟨h1, h2⟩ := foldl_plub_nn ts acc' τ h (fun t' ht' => hall t' (List.mem_cons_of_mem _ ht')) (nn_nq hn')
      exact ⟨h1, fun _ => h2 (Or.inl hn')⟩

theorem lubAll_perm_nn {ts : List CedarType} {τ : CedarType} (h : lubAll .permissive ts = some τ)
    (hall : ∀ t, t ∈ ts → nnTy t = true) : nqTy τ = true ∧ (ts ≠ [] → nnTy τ = true) := by
  unfold lubAll at h
  obtain ⟨h1, h2⟩ := foldl_plub_nn ts .never τ h hall rfl
  exact ⟨h1, fun hne => h2 (Or.inr hne)⟩

/-! ### the type invariant of the permissive induction -/

def OkTy (τ : CedarType) : Prop := ndTy τ = true ∧ nnTy τ = true

theorem OkTy.ne_never {τ : CedarType} (h : OkTy τ) : τ ≠ .never := nn_ne_never h.2

theorem okTy_bool (bt : BoolType) : OkTy (.bool bt) := ⟨rfl, rfl⟩

theorem plub_ok {a b c : CedarType} (h : lub .permissive a b = some c) (ha : OkTy a) (hb : OkTy b) : OkTy c :=
  ⟨plub_nd h ha.1 hb.1, plub_nn h ha.2 hb.2⟩

theorem andType_ok {τa τb : CedarType} (ha : OkTy τa) (hb : OkTy τb) : OkTy (andType τa τb) := by
  unfold andType
  split <;> first | assumption | exact okTy_bool _

theorem orType_ok {τa τb : CedarType} (ha : OkTy τa) (hb : OkTy τb) : OkTy (orType τa τb) := by
  unfold orType
  split <;> first | assumption | exact okTy_bool _

/-- the record types a schema declares have distinct keys, everywhere inside (Rust: `Attributes` is a `BTreeMap`) -/
structure SchemaND (s : Schema) : Prop where
  et_nd : ∀ T et, s.entityType? T = some et →
    ndTy (.record et.attrs false) = true ∧ ∀ t, et.tags = some t → ndTy t = true
  act_nd : ∀ u a, s.action? u = some a → ndTy a.context = true

theorem find_ok {attrs : Attrs} {o : Bool} {a : String} {r : Bool} {t : CedarType} (h : OkTy (.record attrs o))
    (hf : Attrs.find? attrs a = some (r, t)) : OkTy t := by
  obtain ⟨h1, h2⟩ := h
  simp only [nnTy] at h2
  exact ⟨(ndTy_record h1).2 _ _ _ (find_mem hf), nnAttrs_iff.mp h2 _ _ _ (find_mem hf)⟩

/-! ### attributes of an entity-type union -/

def attrsOfTy (s : Schema) (t : EntityType) : Attrs :=
  match s.entityType? t with
  | some et => et.attrs
  | none => []

theorem lubAttrs_cons (s : Schema) (t : EntityType) (rest : List EntityType) :
    lubAttrs s (t :: rest) =
      rest.foldl (fun acc t' => lubAttrsPermissive .permissive acc (attrsOfTy s t')) (attrsOfTy s t) := rfl

theorem lubAttrs_single' (s : Schema) (T : EntityType) : lubAttrs s [T] = attrsOfTy s T := rfl

theorem attrsOfTy_nd {s : Schema} (hND : SchemaND s) (T : EntityType) : ndTy (.record (attrsOfTy s T) false) = true := by
  unfold attrsOfTy
  cases h : s.entityType? T with
  | none => rfl
  | some et => exact (hND.et_nd T et h).1

theorem attrsOfTy_nn {s : Schema} (hWF : SchemaWF s) (T : EntityType) : nnAttrs (attrsOfTy s T) = true := by
  unfold attrsOfTy
  cases h : s.entityType? T with
  | none => rfl
  | some et => exact monoAttrs_nn _ (hWF.et_mono T et h).1

theorem lubAttrsPerm_nd {a0 a1 : Attrs} (h0 : ndTy (.record a0 false) = true) (h1 : ndTy (.record a1 false) = true) :
    ndTy (.record (lubAttrsPermissive .permissive a0 a1) false) = true := by
  obtain ⟨hn0, ht0⟩ := ndTy_record h0
  obtain ⟨_, ht1⟩ := ndTy_record h1
  simp only [ndTy, Bool.and_eq_true, decide_eq_true_eq]
  refine ⟨ndAttrs_iff.mpr ?_, List.Nodup.sublist (lubAttrsPerm_sublist a0) hn0⟩
  intro k r t hm
  obtain ⟨r0, t0, r1, t1, hm0, hf1, hlt, _⟩ := lubAttrsPerm_mem k r t hm
  exact plub_nd hlt (ht0 k r0 t0 hm0) (ht1 k r1 t1 (find_mem hf1))

theorem lubAttrsPerm_nn {a0 a1 : Attrs} (h0 : nnAttrs a0 = true) (h1 : nnAttrs a1 = true) :
    nnAttrs (lubAttrsPermissive .permissive a0 a1) = true := by
  rw [nnAttrs_iff] at h0 h1 ⊢
  intro k r t hm
  obtain ⟨r0, t0, r1, t1, hm0, hf1, hlt, _⟩ := lubAttrsPerm_mem k r t hm
  exact plub_nn hlt (h0 k r0 t0 hm0) (h1 k r1 t1 (find_mem hf1))

/-- an attribute of the folded map is an attribute of the accumulator and of every folded entity type, with a subtype
and at least the same requiredness -/
theorem foldl_lubAttrs_find {s : Schema} (hND : SchemaND s) {a : String} {req : Bool} {τa : CedarType} :
    ∀ (rest : List EntityType) (acc : Attrs), ndTy (.record acc false) = true →
    Attrs.find? (rest.foldl (fun acc t' => lubAttrsPermissive .permissive acc (attrsOfTy s t')) acc) a = some (req, τa) →
    (∃ r t, Attrs.find? acc a = some (r, t) ∧ (req = true → r = true) ∧ ∀ v, InstanceOfType v t → InstanceOfType v τa) ∧
    ∀ T, T ∈ rest → ∃ r t, Attrs.find? (attrsOfTy s T) a = some (r, t) ∧ (req = true → r = true) ∧
      ∀ v, InstanceOfType v t → InstanceOfType v τa
  | [], acc, _, h => ⟨⟨req, τa, h, id, fun _ hv => hv⟩, fun T hT => by cases hT⟩
  | T :: rest, acc, hacc, h => by
    simp only [List.foldl_cons] at h
    have hacc' := lubAttrsPerm_nd hacc (attrsOfTy_nd hND T)
    obtain ⟨⟨r', t', hf', hr', hsub'⟩, hrest⟩ := foldl_lubAttrs_find hND rest _ hacc' h
    obtain ⟨r0, t0, r1, t1, hm0, hf1, hlt, hreq⟩ := lubAttrsPerm_mem a r' t' (find_mem hf')
    obtain ⟨hn0, ht0⟩ := ndTy_record hacc
    have hf0 := find_of_mem_nodup hn0 hm0
    have hrr : req = true → r0 = true ∧ r1 = true := by
      intro hq
      have := hr' hq
      rw [this] at hreq
      simpa using hreq.symm
    refine ⟨⟨r0, t0, hf0, fun hq => (hrr hq).1, fun v hv => hsub' v (plub_inst_l hv _ _ (ht0 _ _ _ hm0) hlt)⟩, ?_⟩
    intro T' hT'
    rcases List.mem_cons.mp hT' with rfl | hT'
    · exact ⟨r1, t1, hf1, fun hq => (hrr hq).2, fun v hv => hsub' v (plub_inst_r hv _ _ hlt)⟩
    · exact hrest T' hT'

theorem lubAttrs_find_mem {s : Schema} (hND : SchemaND s) {l : List EntityType} {a : String} {req : Bool} {τa : CedarType}
    (h : Attrs.find? (lubAttrs s l) a = some (req, τa)) :
    ∀ T, T ∈ l → ∃ r t, Attrs.find? (lubAttrs s [T]) a = some (r, t) ∧ (req = true → r = true) ∧
      ∀ v, InstanceOfType v t → InstanceOfType v τa := by
  cases l with
  | nil => intro T hT; cases hT
  | cons t rest =>
    rw [lubAttrs_cons] at h
    obtain ⟨h1, h2⟩ := foldl_lubAttrs_find hND rest _ (attrsOfTy_nd hND t) h
    intro T hT
    rw [lubAttrs_single']
    rcases List.mem_cons.mp hT with rfl | hT
    · exact h1
    · exact h2 T hT

theorem foldl_lubAttrs_ok {s : Schema} (hWF : SchemaWF s) (hND : SchemaND s) :
    ∀ (rest : List EntityType) (acc : Attrs), OkTy (.record acc false) →
      OkTy (.record (rest.foldl (fun acc t' => lubAttrsPermissive .permissive acc (attrsOfTy s t')) acc) false)
  | [], _, h => h
  | T :: rest, acc, h => by
    simp only [List.foldl_cons]
    refine foldl_lubAttrs_ok hWF hND rest _ ⟨lubAttrsPerm_nd h.1 (attrsOfTy_nd hND T), ?_⟩
    have h2 := h.2
    simp only [nnTy] at h2 ⊢
    exact lubAttrsPerm_nn h2 (attrsOfTy_nn hWF T)

theorem lubAttrs_ok {s : Schema} (hWF : SchemaWF s) (hND : SchemaND s) (l : List EntityType) :
    OkTy (.record (lubAttrs s l) false) := by
  cases l with
  | nil => exact ⟨rfl, rfl⟩
  | cons t rest =>
    rw [lubAttrs_cons]
    exact foldl_lubAttrs_ok hWF hND rest _ ⟨attrsOfTy_nd hND t, by simp only [nnTy]; exact attrsOfTy_nn hWF t⟩

theorem lookupAttr_ok {s : Schema} (hWF : SchemaWF s) (hND : SchemaND s) {τe : CedarType} {a : String} {req : Bool}
    {τa : CedarType} (hok : OkTy τe) (h : lookupAttr s τe a = some (req, τa)) : OkTy τa := by
  cases τe <;> simp only [lookupAttr] at h <;> try (cases h)
  · exact find_ok hok h
  · exact find_ok (lubAttrs_ok hWF hND _) h

theorem mayHaveAttr_union_false {s : Schema} {l : List EntityType} {a : String}
    (h : mayHaveAttr s (.entity l) a = false) :
    ∀ T, T ∈ l → mayHaveAttr s (.entity [T]) a = false ∧ Attrs.find? (lubAttrs s [T]) a = none := by
  intro T hT
  simp only [mayHaveAttr, lubHasOpenAttrs, Bool.or_eq_false_iff, List.any_eq_false] at h
  have h1 := h.1 T hT
  have h2 := h.2 T hT
  refine ⟨?_, ?_⟩
  · simp only [mayHaveAttr, lubHasOpenAttrs, List.any_cons, List.any_nil, Bool.or_false, Bool.or_eq_false_iff]
    exact ⟨by simpa using h1, by simpa using h2⟩
  · rw [lubAttrs_single]
    cases het : s.entityType? T with
    | none => rfl
    | some et =>
      rw [het] at h2
      simp only at h2 ⊢
      cases hf : Attrs.find? et.attrs a with
      | none => rfl
      | some q => rw [hf] at h2; simp at h2

/-! ### `has` / `.` on an operand of any type -/

theorem hasAttr_eval_any {w : World} {e : Expr} {a : String} {v : Value} {τe : CedarType}
    (hv : w.eval e = .ok v) (hi : InstanceOfType v τe)
    (hshape : (∃ l, τe = .entity l) ∨ ∃ attrs o, τe = .record attrs o) :
    ∃ p : Bool, w.eval (.hasAttr e a) = .ok (.prim (.bool p)) ∧
      ((∃ kvs, v = .record kvs ∧ p = (lookupKV kvs a).isSome) ∨
       (∃ u, v = .prim (.entityUID u) ∧ w.es.find? u = none ∧ p = false) ∨
       (∃ u d, v = .prim (.entityUID u) ∧ w.es.find? u = some d ∧ p = (lookupKV d.attrs a).isSome)) := by
  rcases hshape with ⟨l, rfl⟩ | ⟨attrs, o, rfl⟩
  · cases hi with
    | entity u _ hm =>
      cases hf : w.es.find? u with
      | none => exact ⟨false, by simp [evaluate, hv, hf], Or.inr (Or.inl ⟨u, rfl, hf, rfl⟩)⟩
      | some d => exact ⟨_, by simp [evaluate, hv, hf], Or.inr (Or.inr ⟨u, d, rfl, hf, rfl⟩)⟩
  · obtain ⟨kvs, rfl⟩ := inst_record hi
    exact ⟨_, by simp [evaluate, hv], Or.inl ⟨kvs, rfl, rfl⟩⟩

theorem Good.weaken_nil {w : World} {e : Expr} {t t' : CedarType} (g : Good w e t [])
    (h : ∀ v, InstanceOfType v t → InstanceOfType v t') : Good w e t' [] := by
  refine ⟨?_, fun _ => capsHold_nil w⟩
  rcases g.1 with he | ⟨v, hv, hi, hc⟩
  · exact Or.inl he
  · exact Or.inr ⟨v, hv, h v hi, hc⟩

theorem getAttr_good_any {s : Schema} {w : World} {e : Expr} {a : String} {caps : Capabilities}
    {τe τa : CedarType} {ce : Capabilities} {req : Bool}
    (hWF : SchemaWF s) (hND : SchemaND s) (hst : StoreConforms s w.es) (hc : CapsHold w caps)
    (se : TySound w e τe ce)
    (hshape : τe = .never ∨ (∃ l, τe = .entity l) ∨ ∃ attrs o, τe = .record attrs o)
    (hl : lookupAttr s τe a = some (req, τa)) (hcond : (req || caps.has (Capability.attr e a)) = true) :
    Good w (.getAttr e a) τa [] := by
  rcases se with ⟨err, he, hp⟩ | ⟨v, hv, hi, _⟩
  · exact Good.err (by simp [evaluate, he]) hp
  · rcases hshape with rfl | ⟨l, rfl⟩ | ⟨attrs, o, rfl⟩
    · exact (inst_never hi).elim
    · -- an entity of one of the member types: the singleton-type rule, then subtyping
      cases hi with
      | entity u _ hm =>
        simp only [lookupAttr] at hl
        obtain ⟨r0, t0, hf0, hr, hsub⟩ := lubAttrs_find_mem hND hl _ hm
        have hcond' : (r0 || caps.has (Capability.attr e a)) = true := by
          rcases Bool.or_eq_true _ _ |>.mp hcond with hq | hcap
          · rw [hr hq]; rfl
          · rw [hcap]; simp
        have g := getAttr_good (m := .permissive) (τe := .entity [u.ty]) (ce := ce) hWF hst hc
          (Or.inr ⟨_, hv, .entity u [u.ty] (by simp), fun h => by cases h⟩) rfl (Or.inr (Or.inl ⟨_, rfl⟩))
          (by simpa only [lookupAttr] using hf0) hcond'
        exact Good.weaken_nil g hsub
    · obtain ⟨kvs, rfl⟩ := inst_record hi
      simp only [lookupAttr] at hl
      obtain ⟨h1, h2⟩ := record_get hi hl
      have hp : w.eval (.hasAttr e a) = .ok (.prim (.bool (lookupKV kvs a).isSome)) := by simp [evaluate, hv]
      have hpres : (lookupKV kvs a).isSome = true := by
        rcases Bool.or_eq_true _ _ |>.mp hcond with hr | hcap
        · exact h2 hr
        · exact cap_attr_true hc hcap hp
      cases hlk : lookupKV kvs a with
      | none => rw [hlk] at hpres; cases hpres
      | some v' => exact Good.value (by simp [evaluate, hv, hlk]) (h1 v' hlk)

theorem hasAttr_good_any {s : Schema} {w : World} {e : Expr} {a : String} {caps : Capabilities}
    {τe τ : CedarType} {ce c' : Capabilities}
    (hWF : SchemaWF s) (hst : StoreConforms s w.es) (hc : CapsHold w caps)
    (se : TySound w e τe ce)
    (hshape : τe = .never ∨ (∃ l, τe = .entity l) ∨ ∃ attrs o, τe = .record attrs o)
    (h : (match lookupAttr s τe a with
      | some (true, _) =>
        (.ok (if τe.isRecord || caps.has (Capability.attr e a) then .bool .tt else boolT, [Capability.attr e a]) : TcResult)
      | some (false, _) =>
        .ok (if caps.has (Capability.attr e a) then .bool .tt else boolT, [Capability.attr e a])
      | none => ok (if mayHaveAttr s τe a then boolT else .bool .ff)) = .ok (τ, c')) :
    Good w (.hasAttr e a) τ c' := by
  have hshape_out : (∃ bt, τ = .bool bt) ∧ (c' = [Capability.attr e a] ∨ c' = []) := by
    split at h
    · simp only [Except.ok.injEq, Prod.mk.injEq] at h; obtain ⟨rfl, rfl⟩ := h
      exact ⟨ite_bool _, Or.inl rfl⟩
    · simp only [Except.ok.injEq, Prod.mk.injEq] at h; obtain ⟨rfl, rfl⟩ := h
      exact ⟨ite_bool _, Or.inl rfl⟩
    · simp only [ok, Except.ok.injEq, Prod.mk.injEq] at h; obtain ⟨rfl, rfl⟩ := h
      exact ⟨by split; exact ⟨_, rfl⟩; exact ⟨_, rfl⟩, Or.inr rfl⟩
  obtain ⟨⟨bt, hbt⟩, hcs⟩ := hshape_out
  suffices hs : TySound w (.hasAttr e a) τ c' by
    refine ⟨hs, fun htt => ?_⟩
    rcases hcs with rfl | rfl
    · rw [htt] at hs; exact capHolds_attr (sound_tt hs)
    · exact capsHold_nil w
  have hcaps_of_true : w.eval (.hasAttr e a) = .ok (.prim (.bool true)) → CapsHold w c' := by
    intro ht
    rcases hcs with rfl | rfl
    · exact capHolds_attr (Or.inl ht)
    · exact capsHold_nil w
  rcases se with ⟨err, he, hp⟩ | ⟨v, hv, hi, _⟩
  · exact TySound.of_err (hasAttr_err he) hp
  · rcases hshape with rfl | hshape
    · exact (inst_never hi).elim
    · obtain ⟨p, hp, hcases⟩ := hasAttr_eval_any (a := a) hv hi hshape
      refine TySound.of_bool hp ?_ (fun hpt => hcaps_of_true (by rw [hp, hpt]))
      split at h
      · rename_i τa hl
        simp only [Except.ok.injEq, Prod.mk.injEq] at h; obtain ⟨rfl, _⟩ := h
        split
        · rename_i hcond
          have : p = true := by
            rcases Bool.or_eq_true _ _ |>.mp hcond with hr | hcap
            · rcases hshape with ⟨l, rfl⟩ | ⟨attrs, o, rfl⟩
              · simp [CedarType.isRecord] at hr
              · obtain ⟨kvs, rfl⟩ := inst_record hi
                rcases hcases with ⟨kvs', hk, rfl⟩ | ⟨u, hu, _⟩ | ⟨u, d, hu, _⟩
                · cases hk
                  simp only [lookupAttr] at hl
                  exact (record_get hi hl).2 rfl
                · cases hu
                · cases hu
            · exact cap_attr_true hc hcap hp
          rw [this]; rfl
        · simp [boolInst, boolT]
      · simp only [Except.ok.injEq, Prod.mk.injEq] at h; obtain ⟨rfl, _⟩ := h
        split
        · rename_i hcap
          rw [cap_attr_true hc hcap hp]; rfl
        · simp [boolInst, boolT]
      · rename_i hl
        simp only [ok, Except.ok.injEq, Prod.mk.injEq] at h; obtain ⟨rfl, _⟩ := h
        split
        · simp [boolInst, boolT]
        · rename_i hmay
          simp only [Bool.not_eq_true] at hmay
          have : p = false := by
            rcases hcases with ⟨kvs, rfl, rfl⟩ | ⟨u, rfl, hf, rfl⟩ | ⟨u, d, rfl, hf, rfl⟩
            · rcases hshape with ⟨l, rfl⟩ | ⟨attrs, o, rfl⟩
              · cases hi
              · simp only [lookupAttr] at hl
                simp only [mayHaveAttr, hl, Option.isSome_none, Bool.or_false] at hmay
                subst hmay
                rw [record_no_attr hi hl]; rfl
            · rfl
            · rcases hshape with ⟨l, rfl⟩ | ⟨attrs, o, rfl⟩
              · cases hi with
                | entity _ _ hm =>
                  obtain ⟨h1, h2⟩ := mayHaveAttr_union_false hmay _ hm
                  rw [entity_no_attr hWF (hst _ _ hf) h2 h1]; rfl
              · cases hi
          rw [this]; rfl

/-! ### tags of an entity-type union -/

theorem mem_tagTypes {s : Schema} {l : List EntityType} {T : EntityType} {et : EntityTypeEntry} {t : CedarType}
    (hT : T ∈ l) (het : s.entityType? T = some et) (ht : et.tags = some t) : t ∈ tagTypes s l := by
  unfold tagTypes
  exact List.mem_filterMap.mpr ⟨T, hT, by simp [het, ht]⟩

theorem tagTypes_mem {s : Schema} {l : List EntityType} {t : CedarType} (h : t ∈ tagTypes s l) :
    ∃ T et, s.entityType? T = some et ∧ et.tags = some t := by
  unfold tagTypes at h
  obtain ⟨T, _, hT⟩ := List.mem_filterMap.mp h
  cases het : s.entityType? T with
  | none => rw [het] at hT; cases hT
  | some et => rw [het] at hT; exact ⟨T, et, het, hT⟩

theorem hasTag_good_any {s : Schema} {w : World} {a b : Expr} {caps : Capabilities} {l : List EntityType} {τb : CedarType}
    {ca cb : Capabilities} (hst : StoreConforms s w.es) (hc : CapsHold w caps)
    (sa : TySound w a (.entity l) ca) (sb : TySound w b τb cb) (hτb : τb = .never ∨ τb = .string) :
    Good w (.binaryApp .hasTag a b)
      (if (tagTypes s l).isEmpty then .bool .ff else if caps.has (Capability.tag a b) then .bool .tt else boolT)
      [Capability.tag a b] := by
  suffices hs : TySound w (.binaryApp .hasTag a b)
      (if (tagTypes s l).isEmpty then .bool .ff else if caps.has (Capability.tag a b) then .bool .tt else boolT)
      [Capability.tag a b] by
    refine ⟨hs, fun htt => ?_⟩
    rw [htt] at hs
    exact capHolds_tag (sound_tt hs)
  rcases sa with ⟨err, he, hp⟩ | ⟨v1, hv1, hi1, _⟩
  · exact TySound.of_err (by simp [evaluate, he]) hp
  · cases hi1 with
    | entity u _ hm =>
      rcases sb with ⟨err, he, hp⟩ | ⟨v2, hv2, hi2, _⟩
      · exact TySound.of_err (by simp only [World.eval] at hv1 he; simp [evaluate, hv1, he]) hp
      · obtain ⟨k, rfl⟩ := inst_string hi2 hτb
        have hev := hasTag_eval hv1 hv2
        have hfalse : (tagTypes s l).isEmpty = true → ∀ p, w.eval (.binaryApp .hasTag a b) = .ok (.prim (.bool p)) →
            p = false := by
          intro hempty p hp
          rw [hev] at hp
          simp only [Except.ok.injEq, Value.prim.injEq, Prim.bool.injEq] at hp
          cases hf : w.es.find? u with
          | none => rw [hf] at hp; exact hp.symm
          | some d =>
            rw [hf] at hp; simp only at hp
            cases hl : lookupKV d.tags k with
            | none => rw [hl] at hp; exact hp.symm
            | some v =>
              obtain ⟨et, t, het, ht, _⟩ := entity_tag (hst _ _ hf) hl
              have hmem := mem_tagTypes hm het ht
              rw [List.isEmpty_iff] at hempty
              rw [hempty] at hmem; cases hmem
        obtain ⟨p, hp⟩ : ∃ p, w.eval (.binaryApp .hasTag a b) = .ok (.prim (.bool p)) := ⟨_, hev⟩
        refine TySound.of_bool hp ?_ (fun hpt => capHolds_tag (Or.inl (by rw [hp, hpt])))
        by_cases hempty : (tagTypes s l).isEmpty = true
        · rw [if_pos hempty, hfalse hempty p hp]; rfl
        · rw [if_neg hempty]
          by_cases hcap : caps.has (Capability.tag a b) = true
          · rw [if_pos hcap, cap_tag_true hc hcap hp]; rfl
          · rw [if_neg hcap]; simp [boolInst, boolT]

theorem getTag_good_any {s : Schema} {w : World} {a b : Expr} {caps : Capabilities} {l : List EntityType} {τb τ : CedarType}
    {ca cb c' : Capabilities} (hWF : SchemaWF s) (hND : SchemaND s)
    (h : (if caps.has (Capability.tag a b) = true then
            (match tagTypes s l with
             | [] => (.error .fail : TcResult)
             | ts => match lubAll .permissive ts with
               | some τ => ok τ
               | none => .error .fail)
          else .error .fail) = .ok (τ, c')) :
    OkTy τ ∧ (StoreConforms s w.es → CapsHold w caps →
      TySound w a (.entity l) ca → TySound w b τb cb → (τb = .never ∨ τb = .string) →
      Good w (.binaryApp .getTag a b) τ c') := by
  split at h
  · rename_i hcap
    split at h
    · cases h
    · rename_i hne
      cases hlub : lubAll .permissive (tagTypes s l) with
      | none => rw [hlub] at h; cases h
      | some τ' =>
        rw [hlub] at h
        simp only [ok, Except.ok.injEq, Prod.mk.injEq] at h
        obtain ⟨rfl, rfl⟩ := h
        have hnd : ∀ t, t ∈ tagTypes s l → ndTy t = true := by
          intro t ht
          obtain ⟨T, et, het, htag⟩ := tagTypes_mem ht
          exact (hND.et_nd T et het).2 t htag
        have hnn : ∀ t, t ∈ tagTypes s l → nnTy t = true := by
          intro t ht
          obtain ⟨T, et, het, htag⟩ := tagTypes_mem ht
          exact mono_nn _ ((hWF.et_mono T et het).2 t htag)
        obtain ⟨hsub, hndτ⟩ := lubAll_perm_spec hlub hnd
        refine ⟨⟨hndτ, (lubAll_perm_nn hlub hnn).2 (fun h0 => hne h0)⟩, fun hst hc sa sb hτb => ?_⟩
        rcases sa with ⟨err, he, hp⟩ | ⟨v1, hv1, hi1, _⟩
        · exact Good.err (by simp [evaluate, he]) hp
        · cases hi1 with
          | entity u _ hm =>
            rcases sb with ⟨err, he, hp⟩ | ⟨v2, hv2, hi2, _⟩
            · exact Good.err (by simp only [World.eval] at hv1 he; simp [evaluate, hv1, he]) hp
            · obtain ⟨k, rfl⟩ := inst_string hi2 hτb
              have hev := hasTag_eval hv1 hv2
              have hp := cap_tag_true hc hcap hev
              simp only [World.eval] at hv1 hv2
              cases hf : w.es.find? u with
              | none =>
                exact Good.err (err := .entity) (by simp [evaluate, hv1, hv2, applyBinary, Value.asEntity, Value.asString, bind, Except.bind, hf]) (Or.inl rfl)
              | some d =>
                rw [hf] at hp; simp only at hp
                cases hl : lookupKV d.tags k with
                | none => rw [hl] at hp; cases hp
                | some v =>
                  obtain ⟨et', t', het', ht', hi⟩ := entity_tag (hst _ _ hf) hl
                  exact Good.value (v := v) (by simp [evaluate, hv1, hv2, applyBinary, Value.asEntity, Value.asString, bind, Except.bind, hf, hl])
                    (hsub t' (mem_tagTypes hm het' ht') v hi)
  · cases h

/-! ### `in` on operands of any entity type -/

theorem inst_entityish {v : Value} {τ : CedarType} (hi : InstanceOfType v τ)
    (hτ : τ = .never ∨ τ = .anyEntity ∨ ∃ l, τ = .entity l) :
    ∃ u, v = .prim (.entityUID u) ∧ ∀ l, τ = .entity l → u.ty ∈ l := by
  rcases hτ with rfl | rfl | ⟨l, rfl⟩
  · exact (inst_never hi).elim
  · cases hi with
    | anyEntity u => exact ⟨u, rfl, fun l h => by cases h⟩
  · cases hi with
    | entity u _ hm => exact ⟨u, rfl, fun l' h => by cases h; exact hm⟩

theorem shape_in_rhs_any {τb : CedarType}
    (hs : [CedarType.set (some .anyEntity), CedarType.anyEntity].any (fun t => isSubtype .permissive τb t) = true) :
    (τb = .never ∨ τb = .anyEntity ∨ ∃ l, τb = .entity l) ∨
    ∃ el, τb = .set (some el) ∧ (el = .never ∨ el = .anyEntity ∨ ∃ l, el = .entity l) := by
  simp only [List.any_cons, List.any_nil, Bool.or_false, Bool.or_eq_true] at hs
  cases τb <;> simp [isSubtype] at hs
  · exact Or.inl (Or.inl rfl)
  · rename_i el
    cases el with
    | none => simp [isSubtype] at hs
    | some x =>
      refine Or.inr ⟨x, rfl, ?_⟩
      cases x <;> simp [isSubtype] at hs
      · exact Or.inl rfl
      · exact Or.inr (Or.inr ⟨_, rfl⟩)
      · exact Or.inr (Or.inl rfl)
  · exact Or.inl (Or.inr (Or.inr ⟨_, rfl⟩))
  · exact Or.inl (Or.inr (Or.inl rfl))

theorem uids_of_entityish {el : CedarType} (hel : el = .never ∨ el = .anyEntity ∨ ∃ l, el = .entity l) :
    ∀ (vs : List Value), (∀ v, v ∈ vs → InstanceOfType v el) →
    ∃ us : List EntityUID, vs = us.map (fun u => Value.prim (.entityUID u)) ∧ ∀ u, u ∈ us → ∀ l, el = .entity l → u.ty ∈ l
  | [], _ => ⟨[], rfl, fun u hu => by cases hu⟩
  | v :: vs, h => by
    obtain ⟨u, rfl, hT⟩ := inst_entityish (h v List.mem_cons_self) hel
    obtain ⟨us, rfl, hus⟩ := uids_of_entityish hel vs (fun v' hv' => h v' (List.mem_cons_of_mem _ hv'))
    refine ⟨u :: us, rfl, ?_⟩
    intro u' hu'
    rcases List.mem_cons.mp hu' with rfl | hu'
    · exact hT
    · exact hus u' hu'

theorem anyDesc_false {s : Schema} {l r : List EntityType} {x y : EntityType} (h : anyDescendantOf s l r = false)
    (hx : x ∈ l) (hy : y ∈ r) : mayBeDescendant s x y = false := by
  unfold anyDescendantOf at h
  rw [List.any_eq_false] at h
  have h1 := h x hx
  simp only [Bool.not_eq_true] at h1
  rw [List.any_eq_false] at h1
  simpa using h1 y hy

/-- the general `in` rule for operands of any entity type (unions, `AnyEntity`, sets of these, `Set<Never>`) -/
theorem inGeneral_good_any {s : Schema} {w : World} {a b : Expr} {τa τb τ : CedarType} {ca cb c' : Capabilities}
    (hWF : SchemaWF2 s) (hst : StoreConforms s w.es)
    (sa : TySound w a τa ca) (sb : TySound w b τb cb)
    (hτa : τa = .never ∨ τa = .anyEntity ∨ ∃ l, τa = .entity l)
    (hτb : (τb = .never ∨ τb = .anyEntity ∨ ∃ l, τb = .entity l) ∨
      ∃ el, τb = .set (some el) ∧ (el = .never ∨ el = .anyEntity ∨ ∃ l, el = .entity l))
    (h : typeOfInGeneral s τa τb = .ok (τ, c')) : Good w (.binaryApp .mem a b) τ c' := by
  have := typeOfInGeneral_caps h; subst this
  rcases sa with ⟨err, he, hp⟩ | ⟨v1, hv1, hi1, _⟩
  · exact Good.err (by simp [evaluate, he]) hp
  · obtain ⟨u1, rfl, hT1⟩ := inst_entityish hi1 hτa
    rcases sb with ⟨err, he, hp⟩ | ⟨v2, hv2, hi2, _⟩
    · exact Good.err (by simp only [World.eval] at hv1 he; simp [evaluate, hv1, he]) hp
    · simp only [World.eval] at hv1 hv2
      rcases hτb with hτb | ⟨el, rfl, hel⟩
      · obtain ⟨u2, rfl, hT2⟩ := inst_entityish hi2 hτb
        have hev : w.eval (.binaryApp .mem a b) = .ok (.prim (.bool (inE w.es u1 u2))) := by
          simp [evaluate, hv1, hv2, applyBinary, Value.asEntity, bind, Except.bind]
        unfold typeOfInGeneral at h
        split at h
        · rename_i l r hr
          split at h
          · rename_i hnd
            simp only [ok, Except.ok.injEq, Prod.mk.injEq, and_true] at h; subst h
            have hr' : τb = .entity r := by
              rcases hτb with rfl | rfl | ⟨l', rfl⟩ <;> simp [rhsEntityLub] at hr
              rw [hr]
            have := inE_false (u1 := u1) (u2 := u2) hWF hst
              (anyDesc_false (by simpa using hnd) (hT1 _ rfl) (hT2 _ hr'))
            rw [this] at hev
            exact Good.value hev .ff
          · simp only [ok, Except.ok.injEq, Prod.mk.injEq, and_true] at h; subst h
            exact Good.value hev (.anyBool _)
        · simp only [ok, Except.ok.injEq, Prod.mk.injEq, and_true] at h; subst h
          exact Good.value hev (.anyBool _)
      · obtain ⟨vs, rfl⟩ := inst_set hi2
        obtain ⟨us, rfl, hus⟩ := uids_of_entityish hel vs (inst_set_mem hi2)
        have hev : w.eval (.binaryApp .mem a b) = .ok (.prim (.bool (us.any (inE w.es u1 ·)))) := by
          simp [evaluate, hv1, hv2, applyBinary, Value.asEntity, asEntityList_map, bind, Except.bind]
        unfold typeOfInGeneral at h
        split at h
        · rename_i l r hr
          split at h
          · rename_i hnd
            simp only [ok, Except.ok.injEq, Prod.mk.injEq, and_true] at h; subst h
            have hr' : el = .entity r := by
              rcases hel with rfl | rfl | ⟨l', rfl⟩ <;> simp [rhsEntityLub] at hr
              rw [hr]
            have : us.any (inE w.es u1 ·) = false := by
              rw [List.any_eq_false]
              intro u hu
              have := inE_false (u1 := u1) (u2 := u) hWF hst
                (anyDesc_false (by simpa using hnd) (hT1 _ rfl) (hus u hu _ hr'))
              simp [this]
            rw [this] at hev
            exact Good.value hev .ff
          · simp only [ok, Except.ok.injEq, Prod.mk.injEq, and_true] at h; subst h
            exact Good.value hev (.anyBool _)
        · simp only [ok, Except.ok.injEq, Prod.mk.injEq, and_true] at h; subst h
          exact Good.value hev (.anyBool _)

/-! ### `<` `<=`: the operand types are comparable, hence flat -/

theorem cmp_good_any {w : World} {op : BinaryOp} {a b : Expr} {τa τb τ : CedarType} {ca cb c' : Capabilities}
    (hop : op = .less ∨ op = .lessEq) (sa : TySound w a τa ca) (sb : TySound w b τb cb)
    (ha : τa ≠ .never) (hb : τb ≠ .never) (h : cmpType τa τb = .ok (τ, c')) :
    τ = boolT ∧ Good w (.binaryApp op a b) τ c' := by
  obtain ⟨h1, _, hshape⟩ := cmpType_inv h ha hb
  refine ⟨h1, ?_⟩
  rcases hshape with ⟨rfl, rfl⟩ | ⟨rfl, rfl⟩ | ⟨rfl, rfl⟩ <;> exact cmp_good hop sa sb rfl rfl h

end Cedar.C03
