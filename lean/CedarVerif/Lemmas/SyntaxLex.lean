import CedarVerif.Cedar.Syntax.Lex
/-
C05, lexer: `lex (render ts) = some ts` for token lists of lexer-producible tokens (`TokOK`), tokens separated by single spaces.
-/
namespace Cedar.Syntax

/-- what may follow a token in `render`: nothing or a space -/
def SepOK (R : List Char) : Prop := R = [] ∨ ∃ R', R = ' ' :: R'

theorem spanC_append (p : Char → Bool) (hsp : p ' ' = false) : ∀ (a : List Char) (R : List Char), (∀ x ∈ a, p x = true) → SepOK R →
    spanC p (a ++ R) = (a, R)
  | [], R, _, hR => by
    rcases hR with rfl | ⟨R', rfl⟩
    · rfl
    · simp [spanC, hsp]
  | x :: a, R, ha, hR => by
    have ih := spanC_append p hsp a R (fun y hy => ha y (by simp [hy])) hR
    simp [spanC, ha x (by simp), ih]

/-! ### numbers -/

theorem digitChar_facts : ∀ k : Fin 10, isDig (Nat.digitChar k) = true ∧ isIdStart (Nat.digitChar k) = false ∧
    (Nat.digitChar k).toNat - 48 = k.val := by decide

theorem digitsVal_snoc (l : List Char) (c : Char) : digitsVal (l ++ [c]) = digitsVal l * 10 + (c.toNat - 48) := by
  simp [digitsVal, List.foldl_append]

theorem toDigits_facts : ∀ (k n : Nat), n ≤ k → digitsVal (Nat.toDigits 10 n) = n ∧
    ∀ c ∈ Nat.toDigits 10 n, isDig c = true ∧ isIdStart c = false := by
  intro k
  induction k with
  | zero =>
    intro n hn
    obtain rfl : n = 0 := by omega
    refine ⟨by decide, by decide⟩
  | succ k ih =>
    intro n hn
    rw [Nat.toDigits_eq_if (by decide)]
    split
    · rename_i hlt
      have := digitChar_facts ⟨n, hlt⟩
      refine ⟨?_, ?_⟩
      · simp only [digitsVal, List.foldl_cons, List.foldl_nil, Nat.zero_mul, Nat.zero_add]; exact this.2.2
      · intro c hc; simp only [List.mem_singleton] at hc; subst hc; exact ⟨this.1, this.2.1⟩
    · rename_i hge
      obtain ⟨h1, h2⟩ := ih (n / 10) (by omega)
      have := digitChar_facts ⟨n % 10, Nat.mod_lt _ (by omega)⟩
      refine ⟨?_, ?_⟩
      · rw [digitsVal_snoc, h1, this.2.2]; simp only; omega
      · intro c hc
        rcases List.mem_append.mp hc with hc | hc
        · exact h2 c hc
        · simp only [List.mem_singleton] at hc; subst hc; exact ⟨this.1, this.2.1⟩

theorem lexStep_num (n : Nat) (c : Char) (a R : List Char) (h : Nat.toDigits 10 n = c :: a) (hR : SepOK R) :
    lexStep c (a ++ R) = .tok (.num n) R := by
  obtain ⟨h1, h2⟩ := toDigits_facts n n (Nat.le_refl _)
  rw [h] at h1 h2
  have hc := h2 c (by simp)
  unfold lexStep
  simp only [hc.2, hc.1, Bool.false_eq_true, if_false, if_true,
    spanC_append isDig (by decide) a R (fun x hx => (h2 x (by simp [hx])).1) hR, h1]

/-! ### identifiers and slots -/

theorem lexStep_ident (s : String) (c : Char) (a R : List Char) (h : s.toList = c :: a) (hok : isIdentChars s.toList = true)
    (hR : SepOK R) : lexStep c (a ++ R) = .tok (.ident s) R := by
  rw [h] at hok
  simp only [isIdentChars, Bool.and_eq_true, List.all_eq_true] at hok
  unfold lexStep
  simp only [hok.1, if_true, spanC_append isIdCont (by decide) a R hok.2 hR, ← h, String.ofList_toList]

theorem lexStep_slot (s : String) (a R : List Char) (h : s.toList = '?' :: a) (hok : isIdentChars a = true)
    (hR : SepOK R) : lexStep '?' (a ++ R) = .tok (.slot s) R := by
  cases a with
  | nil => simp [isIdentChars] at hok
  | cons d a =>
    simp only [isIdentChars, Bool.and_eq_true, List.all_eq_true] at hok
    unfold lexStep
    have e1 : isIdStart '?' = false := by decide
    have e2 : isDig '?' = false := by decide
    have e3 : ('?' = '"') = False := by decide
    simp only [e1, e2, e3, Bool.false_eq_true, if_false, if_true, List.cons_append, hok.1,
      spanC_append isIdCont (by decide) a R hok.2 hR, ← h, String.ofList_toList]

/-! ### string literals -/

theorem strBody_quote (R : List Char) : strBody ('"' :: R) = some ([], R) := by
  unfold strBody; simp

theorem strBody_raw : ∀ (k : Nat) (raw : List Char), raw.length ≤ k → rawOK raw = true → ∀ R,
    strBody (raw ++ '"' :: R) = some (raw, R) := by
  intro k
  induction k with
  | zero =>
    intro raw hk _ R
    obtain rfl : raw = [] := List.eq_nil_of_length_eq_zero (by omega)
    exact strBody_quote R
  | succ k ih =>
    intro raw hk hok R
    cases raw with
    | nil => exact strBody_quote R
    | cons c cs =>
      unfold rawOK at hok
      simp only [List.cons_append]
      unfold strBody
      split at hok
      · cases hok
      · rename_i hq
        simp only [hq, if_false]
        split at hok
        · rename_i hb
          simp only [hb, if_true]
          cases cs with
          | nil => cases hok
          | cons d ds =>
            simp only [Bool.and_eq_true, bne_iff_ne, ne_eq] at hok
            simp only [List.length_cons] at hk
            simp only [List.cons_append, hok.1, if_false, ih ds (by omega) hok.2 R, Option.map_some]
        · rename_i hb
          simp only [hb, if_false]
          simp only [List.length_cons] at hk
          simp only [ih cs (by omega) hok R, Option.map_some]

theorem lexStep_str (raw R : List Char) (hok : rawOK raw = true) :
    lexStep '"' (raw ++ '"' :: R) = .tok (.str raw) R := by
  unfold lexStep
  have e1 : isIdStart '"' = false := by decide
  have e2 : isDig '"' = false := by decide
  simp only [e1, e2, Bool.false_eq_true, if_false, if_true, strBody_raw raw.length raw (Nat.le_refl _) hok R]

/-! ### one token -/

theorem lexStep_tok (t : Token) (hok : TokOK t = true) (c : Char) (cs R : List Char) (h : tokChars t = c :: cs) (hR : SepOK R) :
    lexStep c (cs ++ R) = .tok t R := by
  cases t with
  | ident s => exact lexStep_ident s c cs R h hok hR
  | num n => exact lexStep_num n c cs R h hR
  | str raw =>
    simp only [tokChars, List.cons.injEq] at h
    obtain ⟨rfl, rfl⟩ := h
    simp only [List.append_assoc, List.cons_append, List.nil_append]
    exact lexStep_str raw R hok
  | slot s =>
    simp only [tokChars] at h
    simp only [TokOK, h, Bool.and_eq_true, decide_eq_true_eq] at hok
    obtain ⟨rfl, hid⟩ := hok
    exact lexStep_slot s cs R h hid hR
  | _ =>
    simp only [tokChars, List.cons.injEq] at h
    obtain ⟨rfl, rfl⟩ := h
    rcases hR with rfl | ⟨R', rfl⟩ <;> rfl

theorem tokChars_ne_nil (t : Token) (hok : TokOK t = true) : ∃ c cs, tokChars t = c :: cs := by
  cases t with
  | ident s =>
    simp only [TokOK] at hok
    cases h : s.toList with
    | nil => simp [h, isIdentChars] at hok
    | cons c cs => exact ⟨c, cs, h⟩
  | num n =>
    cases h : Nat.toDigits 10 n with
    | nil => exact absurd h Nat.toDigits_ne_nil
    | cons c cs => exact ⟨c, cs, h⟩
  | slot s =>
    simp only [TokOK] at hok
    cases h : s.toList with
    | nil => simp [h] at hok
    | cons c cs => exact ⟨c, cs, h⟩
  | _ => exact ⟨_, _, rfl⟩

theorem sepOK_renderTail (ts : List Token) : SepOK (renderTail ts) := by
  cases ts with
  | nil => exact .inl rfl
  | cons t ts => exact .inr ⟨_, rfl⟩

theorem lexFuel_renderTail : ∀ (ts : List Token), (∀ t ∈ ts, TokOK t = true) → ∀ f, (renderTail ts).length < f →
    lexFuel f (renderTail ts) = some ts
  | [], _, f, hf => by
    obtain ⟨f', rfl⟩ : ∃ f', f = f' + 1 := ⟨f - 1, by omega⟩
    rfl
  | t :: ts, hok, f, hf => by
    obtain ⟨c, cs, hc⟩ := tokChars_ne_nil t (hok t (by simp))
    simp only [renderTail, hc, List.length_cons, List.length_append, List.cons_append] at hf ⊢
    obtain ⟨f', rfl⟩ : ∃ f', f = f' + 2 := ⟨f - 2, by omega⟩
    have hsp : lexStep ' ' (c :: (cs ++ renderTail ts)) = .skip (c :: (cs ++ renderTail ts)) := by
      have hne : isCommentStart ' ' (c :: (cs ++ renderTail ts)) = false := by simp [isCommentStart]
      unfold lexStep
      have e1 : isIdStart ' ' = false := by decide
      have e2 : isDig ' ' = false := by decide
      have e3 : (' ' = '"') = False := by decide
      have e4 : (' ' = '?') = False := by decide
      have e5 : isWs ' ' = true := by decide
      simp only [e1, e2, e3, e4, e5, hne, Bool.false_eq_true, if_false, if_true]
    have ih := lexFuel_renderTail ts (fun x hx => hok x (by simp [hx])) f' (by omega)
    simp only [lexFuel, hsp, lexStep_tok t (hok t (by simp)) c cs _ hc (sepOK_renderTail ts), ih, Option.map_some]

theorem lexFuel_render (ts : List Token) (hok : ∀ t ∈ ts, TokOK t = true) (f : Nat) (hf : (render ts).length < f) :
    lexFuel f (render ts) = some ts := by
  cases ts with
  | nil =>
    obtain ⟨f', rfl⟩ : ∃ f', f = f' + 1 := ⟨f - 1, by omega⟩
    rfl
  | cons t ts =>
    obtain ⟨c, cs, hc⟩ := tokChars_ne_nil t (hok t (by simp))
    simp only [render, hc, List.length_cons, List.length_append, List.cons_append] at hf ⊢
    obtain ⟨f', rfl⟩ : ∃ f', f = f' + 1 := ⟨f - 1, by omega⟩
    have ih := lexFuel_renderTail ts (fun x hx => hok x (by simp [hx])) f' (by omega)
    simp only [lexFuel, lexStep_tok t (hok t (by simp)) c cs _ hc (sepOK_renderTail ts), ih, Option.map_some]

/-! ### printer-produced string tokens are lexable -/

theorem rawOK_append : ∀ (k : Nat) (a b : List Char), a.length ≤ k → rawOK a = true → rawOK b = true → rawOK (a ++ b) = true := by
  intro k
  induction k with
  | zero =>
    intro a b hk _ hb
    obtain rfl : a = [] := List.eq_nil_of_length_eq_zero (by omega)
    exact hb
  | succ k ih =>
    intro a b hk ha hb
    cases a with
    | nil => exact hb
    | cons c cs =>
      unfold rawOK at ha
      simp only [List.cons_append]
      unfold rawOK
      split at ha
      · cases ha
      · rename_i hq
        simp only [hq, if_false]
        split at ha
        · rename_i hbs
          simp only [hbs, if_true]
          cases cs with
          | nil => cases ha
          | cons d ds =>
            simp only [Bool.and_eq_true] at ha
            simp only [List.length_cons] at hk
            simp only [List.cons_append, ha.1, Bool.true_and, ih ds b (by omega) ha.2 hb]
        · rename_i hbs
          simp only [hbs, if_false]
          simp only [List.length_cons] at hk
          exact ih cs b (by omega) ha hb

end Cedar.Syntax
