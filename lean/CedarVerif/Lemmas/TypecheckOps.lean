import CedarVerif.Lemmas.TypecheckLub
/-
C03: soundness of `<`/`<=`, the set operators, set literals and record literals (strict mode).
-/
namespace Cedar.C03

open Cedar

/-! ### inversion of `InstanceOfType` -/

theorem inst_ext {v : Value} {n : String} (h : InstanceOfType v (.ext n)) : ∃ x, v = .ext x ∧ x.typeName = n := by
  cases h; exact ⟨_, rfl, rfl⟩

theorem inst_set {v : Value} {e : Option CedarType} (h : InstanceOfType v (.set e)) : ∃ vs, v = .set vs := by
  cases h <;> exact ⟨_, rfl⟩

theorem inst_set_mem {vs : List Value} {t : CedarType} (h : InstanceOfType (.set vs) (.set (some t))) :
    ∀ v, v ∈ vs → InstanceOfType v t := by
  cases h with
  | set _ _ hall => exact hall

theorem _root_.Cedar.TySound.set_cases {w : World} {e : Expr} {τ : CedarType} {c : Capabilities} (h : TySound w e τ c)
    (hτ : τ = .never ∨ ∃ el, τ = .set el) :
    (∃ err, w.eval e = .error err ∧ Permitted err) ∨ ∃ vs, w.eval e = .ok (.set vs) ∧ InstanceOfType (.set vs) τ := by
  rcases h with he | ⟨v, hv, hi, _⟩
  · exact Or.inl he
  · rcases hτ with rfl | ⟨el, rfl⟩
    · exact (inst_never hi).elim
    · obtain ⟨vs, rfl⟩ := inst_set hi
      exact Or.inr ⟨vs, hv, hi⟩

/-! ### `<` and `<=` -/

theorem beq_long {t : CedarType} (h : CedarType.beq .long t = true) : t = .long := by
  cases t <;> simp [CedarType.beq] at h; rfl

theorem beq_ext {n : String} {t : CedarType} (h : CedarType.beq (.ext n) t = true) : t = .ext n := by
  cases t <;> simp [CedarType.beq] at h; rw [h]

theorem cmpType_inv {τa τb τ : CedarType} {c : Capabilities} (h : cmpType τa τb = .ok (τ, c))
    (ha : τa ≠ .never) (hb : τb ≠ .never) :
    τ = boolT ∧ c = [] ∧ ((τa = .long ∧ τb = .long) ∨ (τa = .ext "datetime" ∧ τb = .ext "datetime") ∨
      (τa = .ext "duration" ∧ τb = .ext "duration")) := by
  unfold cmpType at h
  split at h
  · exact (ha rfl).elim
  · exact (ha rfl).elim
  · exact (hb rfl).elim
  · split at h
    · rename_i hc
      simp only [ok, Except.ok.injEq, Prod.mk.injEq] at h
      simp only [Bool.and_eq_true] at hc
      refine ⟨h.1.symm, h.2.symm, ?_⟩
      obtain ⟨hbeq, hcmp⟩ := hc
      cases τa <;> simp only [isComparable, Bool.false_eq_true] at hcmp
      · exact Or.inl ⟨rfl, beq_long hbeq⟩
      · simp only [Bool.or_eq_true, beq_iff_eq] at hcmp
        have := beq_ext hbeq
        rcases hcmp with rfl | rfl
        · exact Or.inr (Or.inl ⟨rfl, this⟩)
        · exact Or.inr (Or.inr ⟨rfl, this⟩)
    · cases h

theorem cmp_good {w : World} {op : BinaryOp} {a b : Expr} {τa τb τ : CedarType} {ca cb c' : Capabilities}
    (hop : op = .less ∨ op = .lessEq) (sa : TySound w a τa ca) (sb : TySound w b τb cb)
    (ha : τa.mono = true) (hb : τb.mono = true) (h : cmpType τa τb = .ok (τ, c')) :
    Good w (.binaryApp op a b) τ c' := by
  have hna : τa ≠ .never := by intro h; rw [h] at ha; simp [CedarType.mono] at ha
  have hnb : τb ≠ .never := by intro h; rw [h] at hb; simp [CedarType.mono] at hb
  obtain ⟨rfl, rfl, hshape⟩ := cmpType_inv h hna hnb
  rcases sa with ⟨err, he, hp⟩ | ⟨v1, hv1, hi1, _⟩
  · exact Good.err (by simp [evaluate, he]) hp
  · rcases sb with ⟨err, he, hp⟩ | ⟨v2, hv2, hi2, _⟩
    · exact Good.err (by simp [evaluate, hv1, he]) hp
    · rcases hshape with ⟨rfl, rfl⟩ | ⟨rfl, rfl⟩ | ⟨rfl, rfl⟩
      · cases hi1; cases hi2
        rcases hop with rfl | rfl
        · exact Good.value (by simp only [World.eval, evaluate, hv1, hv2, applyBinary, applyCmp]; rfl) (.anyBool _)
        · exact Good.value (by simp only [World.eval, evaluate, hv1, hv2, applyBinary, applyCmp]; rfl) (.anyBool _)
      · obtain ⟨x1, rfl, h1⟩ := inst_ext hi1
        obtain ⟨x2, rfl, h2⟩ := inst_ext hi2
        cases x1 <;> simp [Ext.typeName] at h1
        cases x2 <;> simp [Ext.typeName] at h2
        rcases hop with rfl | rfl
        · exact Good.value (by simp only [World.eval, evaluate, hv1, hv2, applyBinary, applyCmp]; rfl) (.anyBool _)
        · exact Good.value (by simp only [World.eval, evaluate, hv1, hv2, applyBinary, applyCmp]; rfl) (.anyBool _)
      · obtain ⟨x1, rfl, h1⟩ := inst_ext hi1
        obtain ⟨x2, rfl, h2⟩ := inst_ext hi2
        cases x1 <;> simp [Ext.typeName] at h1
        cases x2 <;> simp [Ext.typeName] at h2
        rcases hop with rfl | rfl
        · exact Good.value (by simp only [World.eval, evaluate, hv1, hv2, applyBinary, applyCmp]; rfl) (.anyBool _)
        · exact Good.value (by simp only [World.eval, evaluate, hv1, hv2, applyBinary, applyCmp]; rfl) (.anyBool _)

/-! ### `isEmpty`, `contains`, `containsAll`, `containsAny` -/

theorem isEmpty_good {w : World} {a : Expr} {τa : CedarType} {ca : Capabilities}
    (sa : TySound w a τa ca) (hτ : τa = .never ∨ ∃ el, τa = .set el) : Good w (.unaryApp .isEmpty a) boolT [] := by
  rcases sa.set_cases hτ with ⟨err, he, hp⟩ | ⟨vs, hv, _⟩
  · exact Good.err (by simp [evaluate, he]) hp
  · exact Good.value (v := .prim (.bool vs.isEmpty))
      (by simp [evaluate, hv, applyUnary, Value.asSet, bind, Except.bind]) (.anyBool _)

theorem contains_good {w : World} {a b : Expr} {τa τb : CedarType} {ca cb : Capabilities}
    (sa : TySound w a τa ca) (hτ : τa = .never ∨ ∃ el, τa = .set el) (sb : TySound w b τb cb) :
    Good w (.binaryApp .contains a b) boolT [] := by
  rcases sa.set_cases hτ with ⟨err, he, hp⟩ | ⟨vs, hv, _⟩
  · exact Good.err (by simp [evaluate, he]) hp
  · rcases sb with ⟨err, he, hp⟩ | ⟨v2, hv2, _, _⟩
    · exact Good.err (by simp [evaluate, hv, he]) hp
    · exact Good.value (v := .prim (.bool (Value.elem v2 vs)))
        (by simp [evaluate, hv, hv2, applyBinary, Value.asSet, bind, Except.bind]) (.anyBool _)

theorem containsAll_good {w : World} {a b : Expr} {τa τb : CedarType} {ca cb : Capabilities}
    (sa : TySound w a τa ca) (hτa : τa = .never ∨ ∃ el, τa = .set el)
    (sb : TySound w b τb cb) (hτb : τb = .never ∨ ∃ el, τb = .set el) :
    Good w (.binaryApp .containsAll a b) boolT [] := by
  rcases sa.set_cases hτa with ⟨err, he, hp⟩ | ⟨vs, hv, _⟩
  · exact Good.err (by simp [evaluate, he]) hp
  · rcases sb.set_cases hτb with ⟨err, he, hp⟩ | ⟨vs2, hv2, _⟩
    · exact Good.err (by simp [evaluate, hv, he]) hp
    · exact Good.value (v := .prim (.bool (Value.subset vs2 vs)))
        (by simp [evaluate, hv, hv2, applyBinary, Value.asSet, bind, Except.bind]) (.anyBool _)

theorem containsAny_good {w : World} {a b : Expr} {τa τb : CedarType} {ca cb : Capabilities}
    (sa : TySound w a τa ca) (hτa : τa = .never ∨ ∃ el, τa = .set el)
    (sb : TySound w b τb cb) (hτb : τb = .never ∨ ∃ el, τb = .set el) :
    Good w (.binaryApp .containsAny a b) boolT [] := by
  rcases sa.set_cases hτa with ⟨err, he, hp⟩ | ⟨vs, hv, _⟩
  · exact Good.err (by simp [evaluate, he]) hp
  · rcases sb.set_cases hτb with ⟨err, he, hp⟩ | ⟨vs2, hv2, _⟩
    · exact Good.err (by simp [evaluate, hv, he]) hp
    · exact Good.value (v := .prim (.bool (vs.any (Value.elem · vs2))))
        (by simp [evaluate, hv, hv2, applyBinary, Value.asSet, bind, Except.bind]) (.anyBool _)

/-! ### lists of expressions -/

/-- pointwise relation of two lists (core has no `List.Forall₂`) -/
inductive Forall2 {α β : Type} (R : α → β → Prop) : List α → List β → Prop
  | nil : Forall2 R [] []
  | cons {a b l1 l2} : R a b → Forall2 R l1 l2 → Forall2 R (a :: l1) (b :: l2)

/-- all elements evaluate (to values of the listed types), or the first failure is a permitted error -/
def ListGood (w : World) (es : List Expr) (τs : List CedarType) : Prop :=
  (∃ err, evaluateList w.q w.es w.sl es = .error err ∧ Permitted err) ∨
  ∃ vs, evaluateList w.q w.es w.sl es = .ok vs ∧ Forall2 InstanceOfType vs τs

def KVsGood (w : World) (kvs : List (String × Expr)) (attrs : Attrs) : Prop :=
  (∃ err, evaluateKVs w.q w.es w.sl kvs = .error err ∧ Permitted err) ∨
  ∃ vs, evaluateKVs w.q w.es w.sl kvs = .ok vs ∧
    Forall2 (fun (kv : String × Value) (a : AttrDecl) => kv.1 = a.1 ∧ a.2.1 = true ∧ InstanceOfType kv.2 a.2.2) vs attrs

theorem typeOfList_cons {m : ValidationMode} {s : Schema} {env : RequestEnv} {e : Expr} {es : List Expr} {caps : Capabilities}
    {τs : List CedarType} (h : typeOfList m s env (e :: es) caps = .ok τs) :
    ∃ τ c τs', typeOf m s env e caps = .ok (τ, c) ∧ typeOfList m s env es caps = .ok τs' ∧ τs = τ :: τs' := by
  simp only [typeOfList] at h
  split at h <;> try (cases h)
  rename_i τ c τs' h1 h2
  exact ⟨τ, c, τs', h1, h2, rfl⟩

theorem typeOfKVs_cons {m : ValidationMode} {s : Schema} {env : RequestEnv} {k : String} {e : Expr} {es : List (String × Expr)}
    {caps : Capabilities} {attrs : Attrs} (h : typeOfKVs m s env ((k, e) :: es) caps = .ok attrs) :
    ∃ τ c attrs', typeOf m s env e caps = .ok (τ, c) ∧ typeOfKVs m s env es caps = .ok attrs' ∧ attrs = (k, true, τ) :: attrs' := by
  simp only [typeOfKVs] at h
  split at h <;> try (cases h)
  rename_i τ c attrs' h1 h2
  exact ⟨τ, c, attrs', h1, h2, rfl⟩

theorem listGood_nil (w : World) : ListGood w [] [] := Or.inr ⟨[], by simp [evaluateList], .nil⟩

theorem listGood_cons {w : World} {e : Expr} {es : List Expr} {τ : CedarType} {τs : List CedarType} {c : Capabilities}
    (he : TySound w e τ c) (hes : ListGood w es τs) : ListGood w (e :: es) (τ :: τs) := by
  rcases he with ⟨err, he, hp⟩ | ⟨v, hv, hi, _⟩
  · exact Or.inl ⟨err, by simp only [World.eval] at he; simp [evaluateList, he], hp⟩
  · simp only [World.eval] at hv
    rcases hes with ⟨err, he, hp⟩ | ⟨vs, hvs, hall⟩
    · exact Or.inl ⟨err, by simp [evaluateList, hv, he], hp⟩
    · exact Or.inr ⟨v :: vs, by simp [evaluateList, hv, hvs], .cons hi hall⟩

theorem kvsGood_nil (w : World) : KVsGood w [] [] := Or.inr ⟨[], by simp [evaluateKVs], .nil⟩

theorem kvsGood_cons {w : World} {k : String} {e : Expr} {es : List (String × Expr)} {τ : CedarType} {attrs : Attrs} {c : Capabilities}
    (he : TySound w e τ c) (hes : KVsGood w es attrs) : KVsGood w ((k, e) :: es) ((k, true, τ) :: attrs) := by
  rcases he with ⟨err, he, hp⟩ | ⟨v, hv, hi, _⟩
  · exact Or.inl ⟨err, by simp only [World.eval] at he; simp [evaluateKVs, he], hp⟩
  · simp only [World.eval] at hv
    rcases hes with ⟨err, he, hp⟩ | ⟨vs, hvs, hall⟩
    · exact Or.inl ⟨err, by simp [evaluateKVs, hv, he], hp⟩
    · exact Or.inr ⟨(k, v) :: vs, by simp [evaluateKVs, hv, hvs], .cons ⟨rfl, rfl, hi⟩ hall⟩

theorem forall2_mem_l {α β : Type} {R : α → β → Prop} {l1 : List α} {l2 : List β} (h : Forall2 R l1 l2) :
    ∀ x, x ∈ l1 → ∃ y, y ∈ l2 ∧ R x y := by
  induction h with
  | nil => intro x hx; cases hx
  | cons hr _ ih =>
    intro x hx
    rcases List.mem_cons.mp hx with rfl | hx
    · exact ⟨_, List.mem_cons_self, hr⟩
    · obtain ⟨y, hy, hxy⟩ := ih x hx
      exact ⟨y, List.mem_cons_of_mem _ hy, hxy⟩

theorem forall2_mem_r {α β : Type} {R : α → β → Prop} {l1 : List α} {l2 : List β} (h : Forall2 R l1 l2) :
    ∀ y, y ∈ l2 → ∃ x, x ∈ l1 ∧ R x y := by
  induction h with
  | nil => intro x hx; cases hx
  | cons hr _ ih =>
    intro y hy
    rcases List.mem_cons.mp hy with rfl | hy
    · exact ⟨_, List.mem_cons_self, hr⟩
    · obtain ⟨x, hx, hxy⟩ := ih y hy
      exact ⟨x, List.mem_cons_of_mem _ hx, hxy⟩

/-! ### set literals -/

theorem mkSet_subset : ∀ (vs : List Value) (v : Value), v ∈ Value.mkSet vs → v ∈ vs
  | [], v, h => by simp [Value.mkSet] at h
  | x :: xs, v, h => by
    simp only [Value.mkSet] at h
    split at h
    · exact List.mem_cons_of_mem _ (mkSet_subset xs v h)
    · rcases List.mem_cons.mp h with rfl | h
      · exact List.mem_cons_self
      · exact List.mem_cons_of_mem _ (mkSet_subset xs v h)

theorem set_good {w : World} {es : List Expr} {τs : List CedarType} {τ : CedarType}
    (hl : ListGood w es τs) (hne : τs ≠ []) (h : lubAll .strict τs = some τ) : Good w (.set es) (.set (some τ)) [] := by
  rcases hl with ⟨err, he, hp⟩ | ⟨vs, hvs, hall⟩
  · exact Good.err (by simp [evaluate, he]) hp
  · refine Good.value (v := .set (Value.mkSet vs)) (by simp [evaluate, hvs]) (.set _ _ ?_)
    intro v hv
    obtain ⟨t, ht, hvt⟩ := forall2_mem_l hall v (mkSet_subset vs v hv)
    exact (lubAll_spec h hne).1 t ht v hvt

/-! ### set literals of flat elements (any mode) -/

theorem lub_never_l' {m : ValidationMode} {b c : CedarType} (h : lub m .never b = some c) : c = b := by
  rw [lub.eq_def] at h
  simp [isSubtype] at h
  exact h.symm

theorem foldl_lub_none' {m : ValidationMode} (ts : List CedarType) :
    ts.foldl (fun acc t => acc.bind (fun a => lub m a t)) none = none := by
  induction ts with
  | nil => rfl
  | cons t ts ih => simpa using ih

theorem foldl_lub_flat_spec {m : ValidationMode} : ∀ (ts : List CedarType) (acc τ : CedarType),
    ts.foldl (fun acc t => acc.bind (fun a => lub m a t)) (some acc) = some τ →
    acc.flat = true → acc ≠ .never → (∀ t, t ∈ ts → t.flat = true ∧ t ≠ .never) →
    (∀ v, InstanceOfType v acc → InstanceOfType v τ) ∧ (∀ t, t ∈ ts → ∀ v, InstanceOfType v t → InstanceOfType v τ) ∧
    τ.flat = true ∧ τ ≠ .never
  | [], acc, τ, h, hf, hn, _ => by
    simp only [List.foldl_nil, Option.some.injEq] at h
    subst h
    exact ⟨fun v hv => hv, fun t ht => (by cases ht), hf, hn⟩
  | t :: ts, acc, τ, h, hf, hn, hall => by
    simp only [List.foldl_cons, Option.bind_some] at h
    cases hl : lub m acc t with
    | none => rw [hl, foldl_lub_none'] at h; cases h
    | some acc' =>
      rw [hl] at h
      obtain ⟨hlt, hle, hshape, _⟩ := lub_flat hl (Or.inl hf)
      obtain ⟨htf, htn⟩ := hall t List.mem_cons_self
      have hf' : acc'.flat = true := by
        rcases hshape with rfl | rfl | rfl
        · exact hf
        · exact htf
        · rfl
      have hn' : acc' ≠ .never := by
        rcases hshape with rfl | rfl | rfl
        · exact hn
        · exact htn
        · intro h; cases h
      obtain ⟨h1, h2, h3, h4⟩ := foldl_lub_flat_spec ts acc' τ h hf' hn' (fun t' ht' => hall t' (List.mem_cons_of_mem _ ht'))
      refine ⟨fun v hv => h1 v (hlt v hv), ?_, h3, h4⟩
      intro t' ht' v hv
      rcases List.mem_cons.mp ht' with rfl | ht'
      · exact h1 v (hle v hv)
      · exact h2 t' ht' v hv

theorem flat_mono {τ : CedarType} (hf : τ.flat = true) (hn : τ ≠ .never) : τ.mono = true := by
  cases τ <;> simp [CedarType.flat] at hf <;> first | rfl | exact (hn rfl).elim

/-- `lubAll` (any mode) of a non-empty list of flat types other than `Never` -/
theorem lubAll_flat_spec {m : ValidationMode} {ts : List CedarType} {τ : CedarType} (h : lubAll m ts = some τ) (hne : ts ≠ [])
    (hall : ∀ t, t ∈ ts → t.flat = true ∧ t ≠ .never) :
    (∀ t, t ∈ ts → ∀ v, InstanceOfType v t → InstanceOfType v τ) ∧ τ.mono = true := by
  cases ts with
  | nil => exact (hne rfl).elim
  | cons t ts =>
    unfold lubAll at h
    simp only [List.foldl_cons, Option.bind_some] at h
    cases hl : lub m .never t with
    | none => rw [hl, foldl_lub_none'] at h; cases h
    | some acc =>
      rw [hl] at h
      have := lub_never_l' hl; subst this
      obtain ⟨htf, htn⟩ := hall acc List.mem_cons_self
      obtain ⟨h1, h2, h3, h4⟩ := foldl_lub_flat_spec ts acc τ h htf htn (fun t' ht' => hall t' (List.mem_cons_of_mem _ ht'))
      refine ⟨?_, flat_mono h3 h4⟩
      intro t' ht' v hv
      rcases List.mem_cons.mp ht' with rfl | ht'
      · exact h1 v hv
      · exact h2 t' ht' v hv

theorem set_good_flat {m : ValidationMode} {w : World} {es : List Expr} {τs : List CedarType} {τ : CedarType}
    (hl : ListGood w es τs) (hne : τs ≠ []) (hall : ∀ t, t ∈ τs → t.flat = true ∧ t ≠ .never)
    (h : lubAll m τs = some τ) : Good w (.set es) (.set (some τ)) [] := by
  rcases hl with ⟨err, he, hp⟩ | ⟨vs, hvs, hinst⟩
  · exact Good.err (by simp [evaluate, he]) hp
  · refine Good.value (v := .set (Value.mkSet vs)) (by simp [evaluate, hvs]) (.set _ _ ?_)
    intro v hv
    obtain ⟨t, ht, hvt⟩ := forall2_mem_l hinst v (mkSet_subset vs v hv)
    exact (lubAll_flat_spec h hne hall).1 t ht v hvt

/-! ### record literals -/

theorem insertKV_mem {α : Type} {k : String} {v : α} : ∀ {l : List (String × α)} {x : String × α},
    x ∈ insertKV k v l → x = (k, v) ∨ x ∈ l
  | [], x, h => by simp [insertKV] at h; exact Or.inl h
  | (k', v') :: rest, x, h => by
    simp only [insertKV] at h
    split at h
    · rcases List.mem_cons.mp h with h | h
      · exact Or.inl h
      · exact Or.inr h
    · split at h
      · rcases List.mem_cons.mp h with h | h
        · exact Or.inl h
        · exact Or.inr (List.mem_cons_of_mem _ h)
      · rcases List.mem_cons.mp h with h | h
        · exact Or.inr (h ▸ List.mem_cons_self)
        · rcases insertKV_mem h with h | h
          · exact Or.inl h
          · exact Or.inr (List.mem_cons_of_mem _ h)

theorem insertKV_self {α : Type} {k : String} {v : α} : ∀ (l : List (String × α)), (k, v) ∈ insertKV k v l
  | [] => by simp [insertKV]
  | (k', v') :: rest => by
    simp only [insertKV]
    split
    · exact List.mem_cons_self
    · split
      · exact List.mem_cons_self
      · exact List.mem_cons_of_mem _ (insertKV_self rest)

theorem insertKV_keeps {α : Type} {k : String} {v : α} : ∀ (l : List (String × α)) (k' : String) (v' : α),
    (k', v') ∈ l → ∃ v'', (k', v'') ∈ insertKV k v l
  | [], k', v', h => by cases h
  | (k0, v0) :: rest, k', v', h => by
    simp only [insertKV]
    split
    · exact ⟨v', List.mem_cons_of_mem _ h⟩
    · split
      · rename_i hk
        simp only [beq_iff_eq] at hk
        rcases List.mem_cons.mp h with h | h
        · simp only [Prod.mk.injEq] at h
          exact ⟨v, by rw [h.1, ← hk]; exact List.mem_cons_self⟩
        · exact ⟨v', List.mem_cons_of_mem _ h⟩
      · rcases List.mem_cons.mp h with h | h
        · exact ⟨v', by rw [h]; exact List.mem_cons_self⟩
        · obtain ⟨v'', h''⟩ := insertKV_keeps rest k' v' h
          exact ⟨v'', List.mem_cons_of_mem _ h''⟩

theorem foldl_insertKV_mem {α : Type} : ∀ (vs acc : List (String × α)) (x : String × α),
    x ∈ vs.foldl (fun acc kv => insertKV kv.1 kv.2 acc) acc → x ∈ acc ∨ x ∈ vs
  | [], acc, x, h => Or.inl h
  | kv :: vs, acc, x, h => by
    simp only [List.foldl_cons] at h
    rcases foldl_insertKV_mem vs _ x h with h | h
    · rcases insertKV_mem h with h | h
      · exact Or.inr (h ▸ List.mem_cons_self)
      · exact Or.inl h
    · exact Or.inr (List.mem_cons_of_mem _ h)

theorem foldl_insertKV_keeps {α : Type} : ∀ (vs acc : List (String × α)) (k : String) (v : α),
    ((k, v) ∈ acc ∨ (k, v) ∈ vs) → ∃ v', (k, v') ∈ vs.foldl (fun acc kv => insertKV kv.1 kv.2 acc) acc
  | [], acc, k, v, h => by
    rcases h with h | h
    · exact ⟨v, h⟩
    · cases h
  | kv :: vs, acc, k, v, h => by
    simp only [List.foldl_cons]
    rcases h with h | h
    · obtain ⟨v', h'⟩ := insertKV_keeps (k := kv.1) (v := kv.2) acc k v h
      exact foldl_insertKV_keeps vs _ k v' (Or.inl h')
    · rcases List.mem_cons.mp h with h | h
      · subst h
        exact foldl_insertKV_keeps vs _ k v (Or.inl (insertKV_self acc))
      · exact foldl_insertKV_keeps vs _ k v (Or.inr h)

theorem find_of_nodup : ∀ {attrs : Attrs} {k : String} {r : Bool} {t : CedarType}, (attrs.map (·.1)).Nodup → (k, r, t) ∈ attrs →
    Attrs.find? attrs k = some (r, t)
  | [], _, _, _, _, h => by cases h
  | (k0, r0, t0) :: rest, k, r, t, hn, h => by
    simp only [List.map_cons, List.nodup_cons] at hn
    simp only [Attrs.find?]
    rcases List.mem_cons.mp h with h | h
    · simp only [Prod.mk.injEq] at h
      obtain ⟨rfl, rfl, rfl⟩ := h
      simp
    · have hne : k0 ≠ k := by
        intro heq; subst heq
        exact hn.1 (List.mem_map.mpr ⟨_, h, rfl⟩)
      have : (k0 == k) = false := by simpa using hne
      rw [this]
      exact find_of_nodup hn.2 h

theorem typeOfKVs_keys {m : ValidationMode} {s : Schema} {env : RequestEnv} {caps : Capabilities} :
    ∀ {kvs : List (String × Expr)} {attrs : Attrs}, typeOfKVs m s env kvs caps = .ok attrs → attrs.map (·.1) = kvs.map (·.1)
  | [], attrs, h => by simp only [typeOfKVs, Except.ok.injEq] at h; subst h; rfl
  | (k, e) :: es, attrs, h => by
    obtain ⟨τ, c, attrs', _, h2, rfl⟩ := typeOfKVs_cons h
    simp [typeOfKVs_keys h2]

theorem record_good {w : World} {kvs : List (String × Expr)} {attrs : Attrs}
    (hl : KVsGood w kvs attrs) (hn : (attrs.map (·.1)).Nodup) : Good w (.record kvs) (.record attrs false) [] := by
  rcases hl with ⟨err, he, hp⟩ | ⟨vs, hvs, hall⟩
  · exact Good.err (by simp [evaluate, he]) hp
  · refine Good.value (v := .record (vs.foldl (fun acc kv => insertKV kv.1 kv.2 acc) [])) (by simp [evaluate, hvs])
      (.record _ _ _ ?_ ?_ ?_)
    · intro k v hkv r t hf
      rcases foldl_insertKV_mem vs [] (k, v) hkv with h | h
      · cases h
      · obtain ⟨a, ha, hk, hr, hi⟩ := forall2_mem_l hall (k, v) h
        obtain ⟨k', r', t'⟩ := a
        simp only at hk hr hi
        subst hk
        rw [find_of_nodup hn ha] at hf
        cases hf
        exact hi
    · intro k v hkv hf
      rcases foldl_insertKV_mem vs [] (k, v) hkv with h | h
      · cases h
      · obtain ⟨a, ha, hk, _, _⟩ := forall2_mem_l hall (k, v) h
        simp only at hk
        rw [find_none_iff] at hf
        exact (hf (List.mem_map.mpr ⟨a, ha, hk.symm⟩)).elim
    · intro k t hm
      obtain ⟨kv, hkv, hk, _, _⟩ := forall2_mem_r hall (k, true, t) hm
      obtain ⟨k', v⟩ := kv
      simp only at hk
      subst hk
      exact foldl_insertKV_keeps vs [] k' v (Or.inr hkv)

end Cedar.C03
