import CedarVerif.Lemmas.PolicySetMergeThm
/-
C08 helper lemmas, part 15: the public API layer's `merge`: its `get(pid).unwrap()`s are unreachable, its own maps stay
the projections of the merged core set, the invariant of the API layer is preserved.
-/
namespace Cedar
open LHM

/-- the fold step of the API's `merge`: under the renamed id, unless present, store what the merged core set has -/
def absentStep {α β} (ρ : String → String) (src : LHM α) (acc : Option (LHM α)) (e : String × β) : Option (LHM α) :=
  match acc with
  | none => none
  | some m =>
    if m.contains (ρ e.1) then some m
    else match src.get? (ρ e.1) with
      | some p => some (m.insert (ρ e.1) p)
      | none => none

theorem foldl_absentStep {α β} (ρ : String → String) (src : LHM α) :
    ∀ (l : List (String × β)) (m0 : LHM α), (∀ e, e ∈ l → (src.get? (ρ e.1)).isSome = true) →
    ∃ m, l.foldl (absentStep ρ src) (some m0) = some m ∧
      (∀ x v, m0.get? x = some v → m.get? x = some v) ∧
      (∀ x, m0.get? x = none → (∃ e, e ∈ l ∧ ρ e.1 = x) → m.get? x = src.get? x) ∧
      (∀ x, m0.get? x = none → (∀ e, e ∈ l → ρ e.1 ≠ x) → m.get? x = none) := by
  intro l
  induction l with
  | nil =>
    intro m0 _
    refine ⟨m0, rfl, fun _ _ h => h, ?_, fun _ h _ => h⟩
    rintro x _ ⟨e, he, _⟩
    cases he
  | cons e rest ih =>
    intro m0 hsrc
    simp only [List.foldl_cons]
    have hrest : ∀ e', e' ∈ rest → (src.get? (ρ e'.1)).isSome = true := fun e' he' => hsrc e' (List.mem_cons_of_mem _ he')
    by_cases hc : m0.contains (ρ e.1) = true
    · have hstep : absentStep ρ src (some m0) e = some m0 := by simp [absentStep, hc]
      rw [hstep]
      obtain ⟨m, hm, h1, h2, h3⟩ := ih m0 hrest
      refine ⟨m, hm, h1, ?_, ?_⟩
      · intro x hx ⟨e', he', hρ⟩
        rcases List.mem_cons.mp he' with rfl | he'
        · rw [contains_eq, hρ, hx] at hc; cases hc
        · exact h2 x hx ⟨e', he', hρ⟩
      · intro x hx hne
        exact h3 x hx (fun e' he' => hne e' (List.mem_cons_of_mem _ he'))
    · have hc' : m0.get? (ρ e.1) = none := (contains_false _ _).mp (by simpa using hc)
      obtain ⟨p, hp⟩ : ∃ p, src.get? (ρ e.1) = some p := by
        have := hsrc e (List.mem_cons_self ..)
        cases hg : src.get? (ρ e.1) with
        | none => rw [hg] at this; cases this
        | some p => exact ⟨p, rfl⟩
      have hstep : absentStep ρ src (some m0) e = some (m0.insert (ρ e.1) p) := by
        simp [absentStep, hc, hp]
      rw [hstep]
      obtain ⟨m, hm, h1, h2, h3⟩ := ih (m0.insert (ρ e.1) p) hrest
      refine ⟨m, hm, ?_, ?_, ?_⟩
      · intro x v hx
        apply h1
        rw [get?_insert]
        have : x ≠ ρ e.1 := by intro e'; rw [e', hc'] at hx; cases hx
        simp only [this, if_false]; exact hx
      · intro x hx ⟨e', he', hρ⟩
        by_cases hxe : x = ρ e.1
        · rw [hxe, h1 (ρ e.1) p (by simp [get?_insert]), hp]
        · apply h2 x (by rw [get?_insert]; simp only [hxe, if_false]; exact hx)
          rcases List.mem_cons.mp he' with rfl | he'
          · exact absurd hρ.symm hxe
          · exact ⟨e', he', hρ⟩
      · intro x hx hne
        have hxe : x ≠ ρ e.1 := fun e' => hne e (List.mem_cons_self ..) e'.symm
        exact h3 x (by rw [get?_insert]; simp only [hxe, if_false]; exact hx)
          (fun e' he' => hne e' (List.mem_cons_of_mem _ he'))

end Cedar

namespace Cedar
open LHM PolicySet

/-- the invariant of the public API layer: core set well-formed with the API envelope, API maps = projections -/
structure ApiPolicySet.Inv (s : ApiPolicySet) : Prop where
  wf : s.WF
  proj : s.Proj
  ss : s.ast.StaticSlotless

theorem ApiPolicySet.Inv.strict {s : ApiPolicySet} (h : s.Inv) : s.ast.Strict := ⟨h.wf.ast, h.wf.nb, h.ss⟩

theorem ApiPolicySet.inv_empty : ApiPolicySet.Inv {} :=
  ⟨ApiPolicySet.wf_empty, ApiPolicySet.proj_empty, by intro k p h; simp at h⟩

theorem ApiPolicySet.applyOp_inv (s : ApiPolicySet) (op : ApiOp) (h : s.Inv) (wt : op.wellTyped) : (s.applyOp op).ps.Inv :=
  ⟨ApiPolicySet.applyOp_wf s op h.wf wt, ApiPolicySet.applyOp_proj s op h.wf h.proj,
   ApiPolicySet.applyOp_strict s op h.wf wt h.ss⟩

/-- the API's `merge`, its successful path written with `absentStep` -/
theorem ApiPolicySet.merge_eq (s other : ApiPolicySet) (rd : Bool) :
    s.merge other rd =
      match (s.ast.merge other.ast rd).err with
      | some e => { ps := { s with ast := (s.ast.merge other.ast rd).ps }, err := some (ApiPolicySet.coreErr e) }
      | none =>
        match other.policies.foldl (absentStep (renamed (s.ast.merge other.ast rd).rename) (s.ast.merge other.ast rd).ps.links) (some s.policies),
              other.templates.foldl (absentStep (renamed (s.ast.merge other.ast rd).rename) (s.ast.merge other.ast rd).ps.templates) (some s.templates) with
        | some policies, some templates =>
          { ps := { ast := (s.ast.merge other.ast rd).ps, policies := policies, templates := templates },
            rename := (s.ast.merge other.ast rd).rename }
        | _, _ => { ps := { s with ast := (s.ast.merge other.ast rd).ps }, err := some (.panic "merge: get(pid).unwrap()") } := by
  unfold ApiPolicySet.merge
  simp only
  cases (s.ast.merge other.ast rd).err with
  | some e => rfl
  | none =>
    simp only
    rw [foldl_congr' _ (absentStep (renamed (s.ast.merge other.ast rd).rename) (s.ast.merge other.ast rd).ps.links) ?_ other.policies,
        foldl_congr' _ (absentStep (renamed (s.ast.merge other.ast rd).rename) (s.ast.merge other.ast rd).ps.templates) ?_ other.templates]
    · rfl
    · intro acc e
      cases acc with
      | none => rfl
      | some m =>
        unfold absentStep
        simp only
        split
        · rfl
        · cases hg : LHM.get? (s.ast.merge other.ast rd).ps.templates (renamed (s.ast.merge other.ast rd).rename e.1) <;> first | rfl | simp only [hg]
    · intro acc e
      cases acc with
      | none => rfl
      | some m =>
        unfold absentStep
        simp only
        split
        · rfl
        · cases hg : LHM.get? (s.ast.merge other.ast rd).ps.links (renamed (s.ast.merge other.ast rd).rename e.1) <;> first | rfl | simp only [hg]

end Cedar

namespace Cedar
open LHM PolicySet

/-- the API's `merge` preserves the invariant of the API layer, never reaches its `unwrap`s, and a failed merge
changes nothing -/
theorem ApiPolicySet.merge_inv (s other : ApiPolicySet) (rd : Bool) (hs : s.Inv) (ho : other.Inv) :
    (s.merge other rd).ps.Inv ∧ (∀ m, (s.merge other rd).err ≠ some (.panic m)) ∧
    ((s.merge other rd).err ≠ none → (s.merge other rd).ps = s) ∧
    ((s.merge other rd).err = none ↔ (s.ast.merge other.ast rd).err = none) := by
  rw [ApiPolicySet.merge_eq]
  cases herr : (s.ast.merge other.ast rd).err with
  | some e =>
    simp only
    have hun := (PolicySet.merge_fail_unchanged s.ast other.ast rd (by simp [herr]))
    have hsame : ({ s with ast := (s.ast.merge other.ast rd).ps } : ApiPolicySet) = s := by
      rw [hun.1]
    rw [hsame]
    refine ⟨hs, ?_, fun _ => rfl, by simp⟩
    intro m
    rw [herr] at hun
    have : e = .occupied := by simpa using hun.2
    subst this
    simp [ApiPolicySet.coreErr]
  | none =>
    simp only
    obtain ⟨hU, hren⟩ := PolicySet.merge_ok s.ast other.ast rd herr
    have sA := hs.strict
    have sB := ho.strict
    have ok := PolicySet.mergeRenaming_ok s.ast other.ast sB.wf.tNodup sB.wf.lNodup
    have sU := PolicySet.mergeCore_strict sA sB ok
    rw [hU, hren]
    have UT := U_templates ok sB.wf
    have UL := U_links ok sA.wf sB.wf
    have AsubT : ∀ x t, s.ast.templates.get? x = some t →
        (mergeCore s.ast other.ast (mergeRenaming s.ast other.ast)).templates.get? x = some t :=
      fun x t h => (UT x t).mpr (Or.inl h)
    have AsubL : ∀ x p, s.ast.links.get? x = some p →
        (mergeCore s.ast other.ast (mergeRenaming s.ast other.ast)).links.get? x = some p :=
      fun x p h => (UL x p).mpr (Or.inl h)
    have BinT : ∀ k t0, other.ast.templates.get? k = some t0 →
        (mergeCore s.ast other.ast (mergeRenaming s.ast other.ast)).templates.get? (renamed (mergeRenaming s.ast other.ast) k) =
          some (tren (mergeRenaming s.ast other.ast) k t0) :=
      fun k t0 h => (UT _ _).mpr (Or.inr ⟨k, t0, h, rfl, rfl⟩)
    have BinL : ∀ k p0, other.ast.links.get? k = some p0 →
        (mergeCore s.ast other.ast (mergeRenaming s.ast other.ast)).links.get? (renamed (mergeRenaming s.ast other.ast) k) =
          some (pren (mergeRenaming s.ast other.ast) k p0) :=
      fun k p0 h => (UL _ _).mpr (Or.inr ⟨k, p0, h, rfl, rfl⟩)
    -- the two folds succeed
    obtain ⟨mP, hmP, p1, p2, p3⟩ := foldl_absentStep (renamed (mergeRenaming s.ast other.ast))
      (mergeCore s.ast other.ast (mergeRenaming s.ast other.ast)).links other.policies s.policies
      (by
        rintro ⟨k, p⟩ he
        have h1 := get?_isSome_of_mem _ _ _ he
        rw [ho.proj.pol] at h1
        obtain ⟨p0, hp0⟩ := (isSome_iff_exists _).mp h1
        simp [BinL k p0 hp0])
    obtain ⟨mT, hmT, t1, t2, t3⟩ := foldl_absentStep (renamed (mergeRenaming s.ast other.ast))
      (mergeCore s.ast other.ast (mergeRenaming s.ast other.ast)).templates other.templates s.templates
      (by
        rintro ⟨k, t⟩ he
        have h1 := get?_isSome_of_mem _ _ _ he
        obtain ⟨t0, ht0⟩ := (isSome_iff_exists _).mp h1
        simp [BinT k t0 ((ho.proj.tmpl k t0).mp ht0).1])
    rw [hmP, hmT]
    simp only
    -- the projections
    have hpol : ∀ x, mP.get? x = (mergeCore s.ast other.ast (mergeRenaming s.ast other.ast)).links.get? x := by
      intro x
      cases hsx : s.policies.get? x with
      | some v =>
        rw [p1 x v hsx]
        rw [hs.proj.pol] at hsx
        exact (AsubL x v hsx).symm
      | none =>
        by_cases hex : ∃ e, e ∈ other.policies ∧ renamed (mergeRenaming s.ast other.ast) e.1 = x
        · exact p2 x hsx hex
        · rw [p3 x hsx (fun e he hρ => hex ⟨e, he, hρ⟩)]
          cases hq : (mergeCore s.ast other.ast (mergeRenaming s.ast other.ast)).links.get? x with
          | none => rfl
          | some q =>
            exfalso
            rcases (UL x q).mp hq with h | ⟨k, p0, hb, hρ, _⟩
            · rw [← hs.proj.pol, hsx] at h; cases h
            · rw [← ho.proj.pol] at hb
              exact hex ⟨(k, p0), mem_of_get? _ _ _ hb, hρ⟩
    have htmpl : ∀ x t, mT.get? x = some t ↔
        ((mergeCore s.ast other.ast (mergeRenaming s.ast other.ast)).templates.get? x = some t ∧
         (mergeCore s.ast other.ast (mergeRenaming s.ast other.ast)).links.get? x = none) := by
      intro x t
      cases hsx : s.templates.get? x with
      | some t' =>
        rw [t1 x t' hsx]
        obtain ⟨hAT, hAL⟩ := (hs.proj.tmpl x t').mp hsx
        have hUT := AsubT x t' hAT
        have hULn : (mergeCore s.ast other.ast (mergeRenaming s.ast other.ast)).links.get? x = none := by
          cases hq : (mergeCore s.ast other.ast (mergeRenaming s.ast other.ast)).links.get? x with
          | none => rfl
          | some q =>
            exfalso
            rcases (UL x q).mp hq with h | ⟨k, q0, hb, hρ, _⟩
            · rw [hAL] at h; cases h
            · have hr := ok.none_of_boundA (k := k) (Or.inl (by rw [hρ]; simp [hAT]))
              rw [renamed_none hr] at hρ
              subst hρ
              by_cases hql : q0.link = none
              · have hid := sB.wf.lKey _ q0 hb
                unfold TPolicy.id at hid
                rw [hql] at hid
                simp only at hid
                have hBT := sB.wf.lTemplate _ q0 hb
                rw [hid] at hBT
                have := ok.r1 hBT hAT hr
                have hsl := sA.nb _ _ hAT hAL
                rw [this] at hsl
                exact hsl (sB.ss _ q0 hb hql)
              · exact ok.r4 hb hql (by simp [hAT]) hr
        constructor
        · intro h; cases h; exact ⟨hUT, hULn⟩
        · rintro ⟨h, _⟩; rw [hUT] at h; exact h
      | none =>
        constructor
        · intro hm
          by_cases hex : ∃ e, e ∈ other.templates ∧ renamed (mergeRenaming s.ast other.ast) e.1 = x
          · rw [t2 x hsx hex] at hm
            refine ⟨hm, ?_⟩
            obtain ⟨⟨k, t0'⟩, he, hρ⟩ := hex
            simp only at hρ
            obtain ⟨t0, ht0⟩ := (isSome_iff_exists _).mp (get?_isSome_of_mem _ _ _ he)
            obtain ⟨hBT, hBL⟩ := (ho.proj.tmpl k t0).mp ht0
            cases hq : (mergeCore s.ast other.ast (mergeRenaming s.ast other.ast)).links.get? x with
            | none => rfl
            | some q =>
              exfalso
              rcases (UL x q).mp hq with h | ⟨k', q0, hb, hρ', _⟩
              · have hr := ok.none_of_boundA (k := k) (Or.inr (by rw [hρ]; simp [h]))
                rw [renamed_none hr] at hρ
                subst hρ
                exact ok.r3 hBT (sB.nb _ _ hBT hBL) (by simp [h]) hr
              · have := ok.rho_inj (Or.inr (by simp [hb])) (Or.inl (by simp [hBT])) (hρ'.trans hρ.symm)
                subst this
                rw [hBL] at hb; cases hb
          · rw [t3 x hsx (fun e he hρ => hex ⟨e, he, hρ⟩)] at hm; cases hm
        · rintro ⟨hUT, hULn⟩
          rcases (UT x t).mp hUT with h | ⟨k, t0, hb, hρ, _⟩
          · have hAL : s.ast.links.get? x = none := by
              cases hq : s.ast.links.get? x with
              | none => rfl
              | some q => rw [AsubL x q hq] at hULn; cases hULn
            rw [(hs.proj.tmpl x t).mpr ⟨h, hAL⟩] at hsx; cases hsx
          · have hBL : other.ast.links.get? k = none := by
              cases hq : other.ast.links.get? k with
              | none => rfl
              | some q => rw [← hρ, BinL k q hq] at hULn; cases hULn
            have hot := (ho.proj.tmpl k t0).mpr ⟨hb, hBL⟩
            rw [t2 x hsx ⟨(k, t0), mem_of_get? _ _ _ hot, hρ⟩]
            exact hUT
    refine ⟨⟨⟨sU.wf, sU.nb, ?_⟩, ⟨hpol, htmpl⟩, sU.ss⟩, by intro m; simp, by simp, by simp⟩
    intro k hk
    obtain ⟨t, ht⟩ := (isSome_iff_exists _).mp hk
    obtain ⟨h1, h2⟩ := (htmpl k t).mp ht
    exact ⟨h2, by simp [h1]⟩

end Cedar

namespace Cedar

/-- the states of the public `PolicySet` reachable from the empty set by add, add_template, link, unlink,
remove_static, remove_template (successful or failed) and `merge` of two reachable sets (with or without renaming) -/
inductive ApiReachable : ApiPolicySet → Prop
  | empty : ApiReachable {}
  | op {s : ApiPolicySet} (o : ApiOp) : ApiReachable s → o.wellTyped → ApiReachable (s.applyOp o).ps
  | merge {s other : ApiPolicySet} (rd : Bool) : ApiReachable s → ApiReachable other → ApiReachable (s.merge other rd).ps

theorem ApiReachable.inv {s : ApiPolicySet} (h : ApiReachable s) : s.Inv := by
  induction h with
  | empty => exact ApiPolicySet.inv_empty
  | op o _ wt ih => exact ApiPolicySet.applyOp_inv _ o ih wt
  | merge rd _ _ ih1 ih2 => exact (ApiPolicySet.merge_inv _ _ rd ih1 ih2).1

end Cedar
