import CedarVerif.Lemmas.JsonDigits
import CedarVerif.Lemmas.JsonRoundTrip
/-
C10: the canonical renderings of duration, datetime and decimal values parse back to the same value
(`ExtRoundTrip` for three of the four extension types; ipaddr stays a hypothesis).
-/
namespace Cedar
namespace CJson
open Ext

theorem digit_not_special {c : Char} (h : isDigit c = true) :
    c ≠ '-' ∧ c ≠ '.' ∧ c ≠ 'm' ∧ c ≠ 's' ∧ c ≠ 'd' ∧ c ≠ 'h' := by
  simp only [isDigit, Bool.and_eq_true, decide_eq_true_eq] at h
  refine ⟨?_, ?_, ?_, ?_, ?_, ?_⟩ <;> (intro he; subst he; revert h; decide)

theorem span_ms (D : List Char) (hd : ∀ c, c ∈ D → isDigit c = true) :
    spanDigits (D ++ ['m', 's']) = (D, ['m', 's']) :=
  spanDigits_append D _ hd (by intro c r h; cases h; decide)

theorem readUnits_ms (D : List Char) (hne : D ≠ []) (hd : ∀ c, c ∈ D → isDigit c = true) :
    Duration.readUnit ['d'] false (D ++ ['m', 's']) = (none, D ++ ['m', 's']) ∧
    Duration.readUnit ['h'] false (D ++ ['m', 's']) = (none, D ++ ['m', 's']) ∧
    Duration.readUnit ['m'] true (D ++ ['m', 's']) = (none, D ++ ['m', 's']) ∧
    Duration.readUnit ['s'] false (D ++ ['m', 's']) = (none, D ++ ['m', 's']) ∧
    Duration.readUnit ['m', 's'] false (D ++ ['m', 's']) = (some (natOfDigits D), []) := by
  have hem : D.isEmpty = false := by cases D <;> simp_all
  refine ⟨?_, ?_, ?_, ?_, ?_⟩ <;>
    simp [Duration.readUnit, span_ms D hd, hem, List.isPrefixOf]

theorem duration_split_pos (D : List Char) (hne : D ≠ []) (hd : ∀ c, c ∈ D → isDigit c = true) :
    Duration.split (D ++ ['m', 's']) = some (false, none, none, none, none, some (natOfDigits D)) := by
  obtain ⟨r1, r2, r3, r4, r5⟩ := readUnits_ms D hne hd
  obtain ⟨d, D', rfl⟩ : ∃ d D', D = d :: D' := by cases D with | nil => exact absurd rfl hne | cons d D' => exact ⟨d, D', rfl⟩
  have hd0 := (digit_not_special (hd d (List.mem_cons_self ..))).1
  unfold Duration.split
  have e1 : ((d :: D' ++ ['m', 's']).isEmpty || (d :: D' ++ ['m', 's']) == ['-']) = false := by
    simp [hd0]
  rw [e1]
  simp only [Bool.false_eq_true, if_false]
  split
  · rename_i heq
    simp only [List.cons_append, List.cons.injEq] at heq
    exact absurd heq.1 hd0
  · simp only [r1, r2, r3, r4, r5]
    simp

theorem duration_split_neg (D : List Char) (hne : D ≠ []) (hd : ∀ c, c ∈ D → isDigit c = true) :
    Duration.split ('-' :: (D ++ ['m', 's'])) = some (true, none, none, none, none, some (natOfDigits D)) := by
  obtain ⟨r1, r2, r3, r4, r5⟩ := readUnits_ms D hne hd
  unfold Duration.split
  have e1 : (('-' :: (D ++ ['m', 's'])).isEmpty || ('-' :: (D ++ ['m', 's'])) == ['-']) = false := by
    cases D with
    | nil => exact absurd rfl hne
    | cons d D' => simp
  rw [e1]
  simp only [Bool.false_eq_true, if_false, r1, r2, r3, r4, r5]
  simp

theorem checkedI64_of {i : Int} (h : inI64 i = true) : checkedI64 i = some i := by simp [checkedI64, h]

theorem inI64_zero : inI64 0 = true := by decide

theorem duration_arith (neg : Bool) (N : Nat) (ms : Int) (hms : inI64 ms = true)
    (hN : (if neg then -(N : Int) else (N : Int)) = ms) (hu : N ≤ Duration.u64Max) :
    Duration.arith neg none none none none (some N) = some ms := by
  have c0 : checkedI64 ((0 : Nat) : Int) = some 0 := by decide
  have op : ∀ mul : Int, Duration.checkedOp neg ms 0 mul = some ms := by
    intro mul
    simp only [Duration.checkedOp, c0, bind, Option.bind]
    have : checkedI64 (0 * mul) = some 0 := by simp [checkedI64_of inI64_zero]
    rw [this]
    cases neg <;> simp [checkedI64_of hms]
  simp only [Duration.arith, Duration.getNumber, hu, if_true, bind, Option.bind, hN, checkedI64_of hms, op]

theorem inI64_bounds {ms : Int} (h : inI64 ms = true) :
    -9223372036854775808 ≤ ms ∧ ms ≤ 9223372036854775807 := by
  simp only [inI64, i64Min, i64Max, Bool.and_eq_true] at h
  exact ⟨of_decide_eq_true h.1, of_decide_eq_true h.2⟩

theorem inI64_of {i : Int} (h1 : -9223372036854775808 ≤ i) (h2 : i ≤ 9223372036854775807) : inI64 i = true := by
  unfold inI64 i64Min i64Max
  rw [Bool.and_eq_true]
  exact ⟨decide_eq_true h1, decide_eq_true h2⟩

theorem natAbs_le_u64 (ms : Int) (h : inI64 ms = true) : ms.natAbs ≤ Duration.u64Max := by
  have := inI64_bounds h
  simp only [Duration.u64Max]
  omega

/-- `duration("<ms>ms")` parses back to `ms` -/
theorem duration_parse_render (ms : Int) (h : inI64 ms = true) :
    Duration.parse (String.ofList (renderDuration ms)) = some ms := by
  obtain ⟨hne, hdig, hval⟩ := decDigits_spec ms.natAbs
  simp only [Duration.parse, String.toList_ofList, renderDuration, intDigits]
  by_cases hneg : ms < 0
  · simp only [hneg, if_true, List.cons_append]
    rw [duration_split_neg _ hne hdig]
    simp only [hval]
    exact duration_arith true _ ms h (by simp; omega) (natAbs_le_u64 ms h)
  · simp only [hneg, if_false]
    rw [duration_split_pos _ hne hdig]
    simp only [hval]
    exact duration_arith false _ ms h (by simp; omega) (natAbs_le_u64 ms h)


/-! ### leaves -/

theorem rt_single (fn s : String) (x : Ext) (hfn : validName fn = true) (hunk : (fn == "unknown") = false)
    (hev : callExt fn [.prim (.string s)] = .ok (.ext x)) :
    RT (.ext x) (.extnSingle fn (.str s)) := by
  have h1 : rawOk (CJ.extnSingle fn (.str s)).toJson = true := by
    simp [CJ.toJson, rawOk, rawOkKVs, hasDup]
  have h2 : CJ.ofRaw (CJ.extnSingle fn (.str s)).toJson = .extnSingle fn (.str s) := by
    simp [CJ.toJson, CJ.ofRaw, CJ.ofRawKVs, sortKVs, insertKV, CJ.mkRecord, lookupKV]
  have h3 : (CJ.extnSingle fn (.str s)).callsUnknown = false := by
    simp [CJ.callsUnknown, hunk]
  have h4 : (CJ.extnSingle fn (.str s)).intoExpr = .ok (.call fn [.lit (.string s)]) := by
    simp [CJ.intoExpr, hfn, bind, Except.bind]
  have h5 : ev (.call fn [.lit (.string s)]) = .ok (.ext x) := by
    simp [ev, evaluate, evaluateList, hev]
  exact ⟨h1, h2, h3, _, h4, _, h5, Value.beq_rfl _⟩

theorem callExt_duration (ms : Int) (h : inI64 ms = true) :
    callExt "duration" [.prim (.string (String.ofList (renderDuration ms)))] = .ok (.ext (.duration ms)) := by
  simp [callExt, extFnArity, callExt1, Value.asString, duration_parse_render ms h, optToExt, bind, Except.bind]

/-- `ExtRoundTrip` for durations -/
theorem leaf_duration (ms : Int) (h : inI64 ms = true) : LeafOK canonRepr (.duration ms) := by
  refine ⟨.extnSingle "duration" (.str (String.ofList (renderDuration ms))), ?_, ?_⟩
  · simp [fromValueWith, canonRepr, litS, fromExprList, fromExpr, CJ.ofPrim, bind, Except.bind]
  · exact rt_single _ _ _ (by decide) (by decide) (callExt_duration ms h)

theorem parse_epoch : Datetime.parse "1970-01-01" = some 0 := by decide +kernel

theorem callExt_epoch : callExt "datetime" [.prim (.string "1970-01-01")] = .ok (.ext (.datetime 0)) := by
  simp [callExt, extFnArity, callExt1, Value.asString, parse_epoch, optToExt, bind, Except.bind]

/-- `ExtRoundTrip` for datetimes: `offset(datetime("1970-01-01"), duration("<ms>ms"))` -/
theorem leaf_datetime (ms : Int) (h : inI64 ms = true) : LeafOK canonRepr (.datetime ms) := by
  let s := String.ofList (renderDuration ms)
  let c : CJ := .extnMulti "offset" [.extnSingle "datetime" (.str "1970-01-01"), .extnSingle "duration" (.str s)]
  refine ⟨c, ?_, ?_⟩
  · simp [c, s, fromValueWith, canonRepr, litS, fromExprList, fromExpr, CJ.ofPrim, bind, Except.bind]
  · have h1 : rawOk c.toJson = true := by
      simp [c, CJ.toJson, CJ.toJsonList, rawOk, rawOkKVs, rawOkList, hasDup]
    have h2 : CJ.ofRaw c.toJson = c := by
      simp [c, CJ.toJson, CJ.toJsonList, CJ.ofRaw, CJ.ofRawKVs, CJ.ofRawList, sortKVs, insertKV, CJ.mkRecord, lookupKV]
    have h3 : c.callsUnknown = false := by
      simp [c, CJ.callsUnknown, CJ.callsUnknownList]
    have v1 : validName "offset" = true := by decide
    have v2 : validName "datetime" = true := by decide
    have v3 : validName "duration" = true := by decide
    have h4 : c.intoExpr = .ok (.call "offset" [.call "datetime" [.lit (.string "1970-01-01")], .call "duration" [.lit (.string s)]]) := by
      simp [c, CJ.intoExpr, CJ.intoExprList, v1, v2, v3, bind, Except.bind]
    have h5 : ev (.call "offset" [.call "datetime" [.lit (.string "1970-01-01")], .call "duration" [.lit (.string s)]])
        = .ok (.ext (.datetime ms)) := by
      have hoff : callExt "offset" [.ext (.datetime 0), .ext (.duration ms)] = .ok (.ext (.datetime ms)) := by
        simp [callExt, extFnArity, callExt2, Value.asDatetime, Value.asDuration, Datetime.offset, checkedI64_of h, optToExt,
          bind, Except.bind]
      simp [ev, evaluate, evaluateList, callExt_epoch, callExt_duration ms h, s, hoff]
    exact ⟨h1, h2, h3, _, h4, _, h5, Value.beq_rfl _⟩


/-! ### decimal -/

theorem pad4_spec (m : Nat) (h : m < 10000) :
    (∀ c, c ∈ pad4 m → isDigit c = true) ∧ natOfDigits (pad4 m) = m ∧ (pad4 m).length = 4 := by
  have d3 := digitChar_props (m / 1000 % 10) (Nat.mod_lt _ (by omega))
  have d2 := digitChar_props (m / 100 % 10) (Nat.mod_lt _ (by omega))
  have d1 := digitChar_props (m / 10 % 10) (Nat.mod_lt _ (by omega))
  have d0 := digitChar_props (m % 10) (Nat.mod_lt _ (by omega))
  refine ⟨?_, ?_, rfl⟩
  · intro c hc
    simp only [pad4, List.mem_cons, List.not_mem_nil, or_false] at hc
    rcases hc with rfl | rfl | rfl | rfl
    · exact d3.1
    · exact d2.1
    · exact d1.1
    · exact d0.1
  · simp only [natOfDigits, pad4, List.foldl_cons, List.foldl_nil, d3.2, d2.2, d1.2, d0.2]
    omega

theorem decimal_split (neg : Bool) (ip fp : List Char) (hip : ip ≠ []) (hfp : fp ≠ [])
    (hdi : ∀ c, c ∈ ip → isDigit c = true) (hdf : ∀ c, c ∈ fp → isDigit c = true) :
    Decimal.split ((if neg then ['-'] else []) ++ ip ++ ['.'] ++ fp) = some (neg, ip, fp) := by
  have s1 : spanDigits (ip ++ '.' :: fp) = (ip, '.' :: fp) :=
    spanDigits_append ip _ hdi (by intro c r h; cases h; decide)
  have s2 : spanDigits fp = (fp, []) := by
    have := spanDigits_append fp [] hdf (by intro c r h; cases h)
    simpa using this
  have e1 : ip.isEmpty = false := by cases ip <;> simp_all
  have e2 : fp.isEmpty = false := by cases fp <;> simp_all
  unfold Decimal.split
  cases neg with
  | true =>
    simp only [if_true, List.cons_append, List.nil_append, List.append_assoc]
    simp [s1, s2, e1, e2]
  | false =>
    obtain ⟨d, ip', rfl⟩ : ∃ d ip', ip = d :: ip' := by
      cases ip with | nil => exact absurd rfl hip | cons d ip' => exact ⟨d, ip', rfl⟩
    have hd0 := (digit_not_special (hdi d (List.mem_cons_self ..))).1
    simp only [Bool.false_eq_true, if_false, List.nil_append, List.append_assoc, List.cons_append] at s1 ⊢
    simp [Decimal.split, hd0, s1, s2, e2]

/-- `decimal("<canonical rendering of v>")` parses back to `v` -/
theorem decimal_parse_render (v : Int) (h : inI64 v = true) :
    Decimal.parse (String.ofList (renderDecimal v)) = some v := by
  obtain ⟨hne, hdig, hval⟩ := decDigits_spec (v.natAbs / 10000)
  obtain ⟨pdig, pval, plen⟩ := pad4_spec (v.natAbs % 10000) (Nat.mod_lt _ (by omega))
  have hb := inI64_bounds h
  have hsplit := decimal_split (decide (v < 0)) (decDigits (v.natAbs / 10000)) (pad4 (v.natAbs % 10000)) hne
    (by simp [pad4]) hdig pdig
  have hrender : renderDecimal v = (if decide (v < 0) = true then ['-'] else []) ++ decDigits (v.natAbs / 10000) ++ ['.'] ++ pad4 (v.natAbs % 10000) := by
    simp [renderDecimal]
  simp only [Decimal.parse, String.toList_ofList, hrender, hsplit, hval, pval, plen]
  simp only [Decimal.arith, bind, Option.bind]
  by_cases hneg : v < 0
  · have hn : (v.natAbs : Int) = -v := Int.ofNat_natAbs_of_nonpos (by omega)
    generalize v.natAbs = n at *
    have a1 : inI64 (-((n : Int) / 10000)) = true := by apply inI64_of <;> omega
    have a2 : inI64 (-((n : Int) / 10000) * 10000) = true := by apply inI64_of <;> omega
    have a3 : inI64 ((n : Int) % 10000) = true := by apply inI64_of <;> omega
    have a5 : -((n : Int) / 10000) * 10000 - (n : Int) % 10000 = v := by omega
    simp [hneg, checkedI64_of a1, checkedI64_of a2, checkedI64_of a3, a5, checkedI64_of h]
  · have hn : (v.natAbs : Int) = v := Int.natAbs_of_nonneg (by omega)
    generalize v.natAbs = n at *
    have a1 : inI64 ((n : Int) / 10000) = true := by apply inI64_of <;> omega
    have a2 : inI64 ((n : Int) / 10000 * 10000) = true := by apply inI64_of <;> omega
    have a3 : inI64 ((n : Int) % 10000) = true := by apply inI64_of <;> omega
    have a5 : (n : Int) / 10000 * 10000 + (n : Int) % 10000 = v := by omega
    simp [hneg, checkedI64_of a1, checkedI64_of a2, checkedI64_of a3, a5, checkedI64_of h]

theorem callExt_decimal (v : Int) (h : inI64 v = true) :
    callExt "decimal" [.prim (.string (String.ofList (renderDecimal v)))] = .ok (.ext (.decimal v)) := by
  simp [callExt, extFnArity, callExt1, Value.asString, decimal_parse_render v h, optToExt, bind, Except.bind]

/-- `ExtRoundTrip` for decimals -/
theorem leaf_decimal (v : Int) (h : inI64 v = true) : LeafOK canonRepr (.decimal v) := by
  refine ⟨.extnSingle "decimal" (.str (String.ofList (renderDecimal v))), ?_, ?_⟩
  · simp [fromValueWith, canonRepr, litS, fromExprList, fromExpr, CJ.ofPrim, bind, Except.bind]
  · exact rt_single _ _ _ (by decide) (by decide) (callExt_decimal v h)

end CJson
end Cedar
