import CedarVerif.Lemmas.TpeSound3
/- C14 helpers: the remaining arms of `interpret` — the binary operators that consult the store (`in` with known /
   unknown ancestors and the entity-set case, `getTag` / `hasTag` with tags `None` ≠ empty) and the n-ary nodes
   (extension calls, set and record constructors). -/
namespace Cedar.Tpe
open Cedar

variable {preq : PRequest} {pes : PEntities} {req : Request} {es : Entities}

/-! ### the `BinaryApp` arm as a function of the interpreted operands -/

def binaryResult (pes : PEntities) (ty : Ty) (op : BinaryOp) (A B : Residual) : Residual :=
  match A, B with
  | .concrete v1 t1, .concrete v2 t2 => interpretBinary pes ty op v1 v2 (.concrete v1 t1) (.concrete v2 t2)
  | .error _, _ => .error ty
  | _, .error _ => .error ty
  | a1, a2 => .part (.binaryApp op a1 a2) ty

theorem interpretKind_binary (ty : Ty) (op : BinaryOp) (x y : Residual) :
    interpretKind preq pes ty (.binaryApp op x y) = binaryResult pes ty op (interpret preq pes x) (interpret preq pes y) := by
  rw [interpretKind]
  unfold binaryResult
  cases interpret preq pes x <;> cases interpret preq pes y <;> rfl

theorem any_mem_lemma (uids : List EntityUID) (u1 : EntityUID) (f : EntityUID → Bool) :
    (uids.contains u1 || uids.any f) = uids.any (fun u => u1 == u || f u) := by
  induction uids with
  | nil => rfl
  | cons a l ih =>
    simp only [List.contains_cons, List.any_cons, ← ih]
    cases (u1 == a) <;> cases (f a) <;> cases (l.contains u1) <;> cases (l.any f) <;> rfl

theorem eval_resid_concrete (ty : Ty) (op : BinaryOp) (v1 v2 : Value) (t1 t2 : Ty) :
    (Residual.part (.binaryApp op (.concrete v1 t1) (.concrete v2 t2)) ty).eval req es = applyBinary es op v1 v2 := by
  simp [Residual.eval, RKind.eval, bindR]

/-- the `(Concrete, Concrete)` arm of `BinaryApp` is sound: `in` (entity / entity set, ancestors known or not),
    `getTag` / `hasTag` (tags known or not), and the store-free operators -/
theorem interpretBinary_sound (hC : Completes preq pes req es) (ty : Ty) (op : BinaryOp) (v1 v2 : Value) (t1 t2 : Ty) :
    Agree ((interpretBinary pes ty op v1 v2 (.concrete v1 t1) (.concrete v2 t2)).eval req es) (applyBinary es op v1 v2) := by
  by_cases hop : storeFreeOp op = true
  · rw [interpretBinary_storeFree (es := es) hop]; exact agree_ofResult ty req es _
  · cases op <;> simp [storeFreeOp] at hop
    · -- `in`
      unfold interpretBinary
      simp only
      cases h1 : v1.asEntity with
      | error e => simp [applyBinary, h1, bind, Except.bind, Residual.eval, Agree]
      | ok u1 =>
        have hv1 : v1 = .prim (.entityUID u1) := by
          cases v1 with
          | prim p => cases p <;> simp [Value.asEntity] at h1; subst h1; rfl
          | _ => simp [Value.asEntity] at h1
        subst hv1
        simp only
        cases v2 with
        | prim p =>
          cases p with
          | entityUID u2 =>
            simp only [Value.asEntity, applyBinary, bind, Except.bind]
            by_cases heq : u1 = u2
            · subst heq; simp [mkBool, Residual.eval, Agree, inE]
            · have hne : (u1 == u2) = false := by simpa using heq
              simp only [hne, Bool.false_eq_true, if_false]
              cases ha : pes.ancestors? u1 with
              | none =>
                simp only
                rw [eval_resid_concrete]
                simp [applyBinary, Value.asEntity, bind, Except.bind, Agree]
              | some anc =>
                obtain ⟨d, hd, hda⟩ := hC.ancestors u1 anc ha
                have hda' : ∀ x, x ∈ anc ↔ x ∈ d.ancestors := fun x => by simpa using hda x
                simp [mkBool, Residual.eval, Agree, inE, hne, hd, hda']
          | bool b => simp [Value.asEntity, asEntitySet, Value.asSet, applyBinary, bind, Except.bind, Residual.eval, Agree]
          | int i => simp [Value.asEntity, asEntitySet, Value.asSet, applyBinary, bind, Except.bind, Residual.eval, Agree]
          | string s => simp [Value.asEntity, asEntitySet, Value.asSet, applyBinary, bind, Except.bind, Residual.eval, Agree]
        | record kvs => simp [Value.asEntity, asEntitySet, Value.asSet, applyBinary, bind, Except.bind, Residual.eval, Agree]
        | ext x => simp [Value.asEntity, asEntitySet, Value.asSet, applyBinary, bind, Except.bind, Residual.eval, Agree]
        | set vs =>
          simp only [Value.asEntity, asEntitySet, Value.asSet, applyBinary, bind, Except.bind]
          cases hl : asEntityList vs with
          | error e => simp [Residual.eval, Agree]
          | ok uids =>
            simp only
            cases ha : pes.ancestors? u1 with
            | none =>
              simp only [Bool.or_false, Option.isNone_none, Bool.and_true]
              by_cases hc : uids.contains u1 = true
              · have : uids.any (fun x => inE es u1 x) = true := by
                  have h3 : uids.any (fun u => u1 == u || false) = true := by rw [← any_mem_lemma, hc]; rfl
                  rw [List.any_eq_true] at h3 ⊢
                  obtain ⟨x, hx, hx2⟩ := h3
                  simp only [Bool.or_false] at hx2
                  exact ⟨x, hx, by simp [inE, hx2]⟩
                have hc' : u1 ∈ uids := by simpa using hc
                simp [hc', mkBool, Residual.eval, Agree, this]
              · simp only [hc, Bool.false_eq_true, if_false]
                by_cases hemp : uids.isEmpty = true
                · have : uids = [] := by simpa using hemp
                  subst this
                  simp [mkBool, Residual.eval, Agree]
                · simp only [hemp, Bool.not_false, if_true]
                  rw [eval_resid_concrete]
                  simp [applyBinary, Value.asEntity, bind, Except.bind, hl, Agree]
            | some anc =>
              obtain ⟨d, hd, hda⟩ := hC.ancestors u1 anc ha
              have key : (uids.contains u1 || uids.any (fun u2 => anc.contains u2)) = uids.any (fun x => inE es u1 x) := by
                rw [any_mem_lemma]
                congr 1
                funext u
                simp only [inE, hd]
                rw [hda]
              simp only [Option.isNone_some, Bool.and_false, Bool.false_eq_true, if_false, key]
              cases uids.any (fun x => inE es u1 x) <;> simp [mkBool, Residual.eval, Agree]
    · -- `getTag`
      unfold interpretBinary
      simp only
      cases h1 : v1.asEntity with
      | error e => simp [applyBinary, h1, bind, Except.bind, Residual.eval, Agree]
      | ok u =>
        cases h2 : v2.asString with
        | error e => simp [applyBinary, h1, h2, bind, Except.bind, Residual.eval, Agree]
        | ok tag =>
          simp only
          cases ht : pes.tags? u with
          | none =>
            simp only
            rw [eval_resid_concrete]
            exact Agree.rfl' _
          | some tags =>
            obtain ⟨d, hd, hdt⟩ := hC.tags u tags ht
            simp only [applyBinary, h1, h2, bind, Except.bind, hd, hdt]
            cases lookupKV tags tag <;> simp [Residual.eval, Agree]
    · -- `hasTag`
      unfold interpretBinary
      simp only
      cases h1 : v1.asEntity with
      | error e => simp [applyBinary, h1, bind, Except.bind, Residual.eval, Agree]
      | ok u =>
        cases h2 : v2.asString with
        | error e => simp [applyBinary, h1, h2, bind, Except.bind, Residual.eval, Agree]
        | ok tag =>
          simp only
          cases ht : pes.tags? u with
          | none =>
            simp only
            rw [eval_resid_concrete]
            exact Agree.rfl' _
          | some tags =>
            obtain ⟨d, hd, hdt⟩ := hC.tags u tags ht
            simp [applyBinary, h1, h2, bind, Except.bind, hd, hdt, mkBool, Residual.eval, Agree]

/-- the whole `BinaryApp` arm -/
theorem binary_arm (hC : Completes preq pes req es) (ty : Ty) (op : BinaryOp) (A B : Residual) (x y : Result Value)
    (hA : Agree (A.eval req es) x) (hB : Agree (B.eval req es) y) :
    Agree ((binaryResult pes ty op A B).eval req es) (bindR x (fun v1 => bindR y (fun v2 => applyBinary es op v1 v2))) := by
  have generic : Agree ((Residual.part (.binaryApp op A B) ty).eval req es)
      (bindR x (fun v1 => bindR y (fun v2 => applyBinary es op v1 v2))) := by
    simp only [Residual.eval, RKind.eval]
    exact bindR_congr2 (fun v1 v2 => applyBinary es op v1 v2) hA hB
  have errR : (∃ e', y = .error e') →
      Agree (Except.error ErrClass.ext) (bindR x (fun v1 => bindR y (fun v2 => applyBinary es op v1 v2))) := by
    rintro ⟨e', rfl⟩
    cases x <;> simp [bindR, Agree]
  cases A with
  | error t =>
    obtain ⟨e', rfl⟩ := agree_err_left (by simpa [Residual.eval] using hA)
    simp [binaryResult, Residual.eval, bindR, Agree]
  | concrete v1 t1 =>
    cases B with
    | error t => exact errR (agree_err_left (by simpa [Residual.eval] using hB))
    | concrete v2 t2 =>
      have hx : x = .ok v1 := agree_ok_left (by simpa [Residual.eval] using hA)
      have hy : y = .ok v2 := agree_ok_left (by simpa [Residual.eval] using hB)
      subst hx; subst hy
      simp only [binaryResult, bindR]
      exact interpretBinary_sound hC ty op v1 v2 t1 t2
    | part k t => exact generic
  | part k t =>
    cases B with
    | error t2 => exact errR (agree_err_left (by simpa [Residual.eval] using hB))
    | concrete v2 t2 => exact generic
    | part k2 t2 => exact generic

/-! ### n-ary nodes: extension calls and set constructors -/

/-- agreement of list results: equal lists, or both errors -/
def AgreeL {α} (x y : Result (List α)) : Prop :=
  match x, y with
  | .ok v, .ok w => v = w
  | .error _, .error _ => True
  | _, _ => False

theorem AgreeL.rfl' {α} (x : Result (List α)) : AgreeL x x := by cases x <;> simp [AgreeL]

theorem agreeL_cases {α} {x y : Result (List α)} (h : AgreeL x y) :
    (∃ v, x = .ok v ∧ y = .ok v) ∨ (∃ e e', x = .error e ∧ y = .error e') := by
  cases x <;> cases y <;> simp_all [AgreeL]

theorem evalList_cons_congr {a b : Residual} {as bs : List Residual}
    (h : Agree (a.eval req es) (b.eval req es)) (ht : AgreeL (Residual.evalList req es as) (Residual.evalList req es bs)) :
    AgreeL (Residual.evalList req es (a :: as)) (Residual.evalList req es (b :: bs)) := by
  simp only [Residual.evalList]
  rcases agree_cases h with ⟨v, h1, h2⟩ | ⟨e, e', h1, h2⟩
  · rw [h1, h2]
    rcases agreeL_cases ht with ⟨vs, g1, g2⟩ | ⟨e, e', g1, g2⟩ <;> simp [g1, g2, AgreeL]
  · simp [h1, h2, AgreeL]

theorem evalList_interp (args : List Residual)
    (h : ∀ r, r ∈ args → Agree ((interpret preq pes r).eval req es) (r.eval req es)) :
    AgreeL (Residual.evalList req es (interpretList preq pes args)) (Residual.evalList req es args) := by
  induction args with
  | nil => simp [interpretList, Residual.evalList, AgreeL]
  | cons a as ih =>
    rw [interpretList]
    exact evalList_cons_congr (h a (by simp)) (ih (fun r hr => h r (by simp [hr])))

theorem allConcrete_evalList {rs : List Residual} {vals : List Value} (h : allConcrete rs = some vals) :
    Residual.evalList req es rs = .ok vals := by
  induction rs generalizing vals with
  | nil => simp [allConcrete] at h; subst h; rfl
  | cons r rs ih =>
    cases r with
    | concrete v t =>
      simp only [allConcrete, Option.map_eq_some_iff] at h
      obtain ⟨vs, hvs, rfl⟩ := h
      simp [Residual.evalList, Residual.eval, ih hvs]
    | part k t => simp [allConcrete] at h
    | error t => simp [allConcrete] at h

theorem anyError_evalList {rs : List Residual} (h : rs.any Residual.isError = true) :
    ∃ e, Residual.evalList req es rs = .error e := by
  induction rs with
  | nil => simp at h
  | cons r rs ih =>
    simp only [List.any_cons, Bool.or_eq_true] at h
    simp only [Residual.evalList]
    cases hr : r.eval req es with
    | error e => exact ⟨e, rfl⟩
    | ok v =>
      rcases h with h | h
      · cases r <;> simp [Residual.isError] at h
        simp [Residual.eval] at hr
      · obtain ⟨e, he⟩ := ih h
        exact ⟨e, by simp [he]⟩

/-- the shape shared by the `ExtensionFunctionApp` and `Set` arms -/
def listResult (ty : Ty) (rs : List Residual) (onVals : List Value → Residual) (mk : List Residual → RKind) : Residual :=
  match allConcrete rs with
  | some vals => onVals vals
  | none => if rs.any Residual.isError then .error ty else .part (mk rs) ty

theorem interpretKind_call (ty : Ty) (fn : String) (args : List Residual) :
    interpretKind preq pes ty (.call fn args) =
      listResult ty (interpretList preq pes args) (fun vals => ofResult ty (callExt fn vals)) (.call fn) := by
  rw [interpretKind]; rfl

theorem interpretKind_set (ty : Ty) (xs : List Residual) :
    interpretKind preq pes ty (.set xs) =
      listResult ty (interpretList preq pes xs) (fun vals => .concrete (.set (Value.mkSet vals)) ty) .set := by
  rw [interpretKind]; rfl

def liftL {α} (X : Result (List α)) (f : List α → Result Value) : Result Value :=
  match X with
  | .error e => .error e
  | .ok vs => f vs

theorem list_arm (ty : Ty) (rs : List Residual) (onVals : List Value → Residual) (mk : List Residual → RKind)
    (f : List Value → Result Value) (X : Result (List Value))
    (hrs : AgreeL (Residual.evalList req es rs) X)
    (hon : ∀ vals, Agree ((onVals vals).eval req es) (f vals))
    (hmk : ∀ rs, (mk rs).eval req es = liftL (Residual.evalList req es rs) f) :
    Agree ((listResult ty rs onVals mk).eval req es) (liftL X f) := by
  unfold listResult
  cases hac : allConcrete rs with
  | some vals =>
    simp only
    rw [allConcrete_evalList hac] at hrs
    rcases agreeL_cases hrs with ⟨v, h1, h2⟩ | ⟨e, e', h1, h2⟩
    · cases h1; rw [h2]; exact hon vals
    · cases h1
  | none =>
    simp only
    split
    · rename_i hany
      obtain ⟨e, he⟩ := anyError_evalList (req := req) (es := es) hany
      rw [he] at hrs
      rcases agreeL_cases hrs with ⟨v, h1, h2⟩ | ⟨e, e', h1, h2⟩
      · cases h1
      · rw [h2]; simp [Residual.eval, liftL, Agree]
    · simp only [Residual.eval, hmk]
      rcases agreeL_cases hrs with ⟨v, h1, h2⟩ | ⟨e, e', h1, h2⟩
      · rw [h1, h2]; exact Agree.rfl' _
      · rw [h1, h2]; simp [liftL, Agree]

/-! ### record constructors -/

theorem evalKVs_cons_congr {k : String} {a b : Residual} {as bs : List (String × Residual)}
    (h : Agree (a.eval req es) (b.eval req es)) (ht : AgreeL (Residual.evalKVs req es as) (Residual.evalKVs req es bs)) :
    AgreeL (Residual.evalKVs req es ((k, a) :: as)) (Residual.evalKVs req es ((k, b) :: bs)) := by
  simp only [Residual.evalKVs]
  rcases agree_cases h with ⟨v, h1, h2⟩ | ⟨e, e', h1, h2⟩
  · rw [h1, h2]
    rcases agreeL_cases ht with ⟨vs, g1, g2⟩ | ⟨e, e', g1, g2⟩ <;> simp [g1, g2, AgreeL]
  · simp [h1, h2, AgreeL]

theorem evalKVs_interp (kvs : List (String × Residual))
    (h : ∀ kv, kv ∈ kvs → Agree ((interpret preq pes kv.2).eval req es) (kv.2.eval req es)) :
    AgreeL (Residual.evalKVs req es (interpretKVs preq pes kvs)) (Residual.evalKVs req es kvs) := by
  induction kvs with
  | nil => simp [interpretKVs, Residual.evalKVs, AgreeL]
  | cons a as ih =>
    obtain ⟨k, r⟩ := a
    rw [interpretKVs]
    exact evalKVs_cons_congr (h (k, r) (by simp)) (ih (fun kv hkv => h kv (by simp [hkv])))

theorem allConcreteKVs_evalKVs {rs : List (String × Residual)} {vals : List (String × Value)} (h : allConcreteKVs rs = some vals) :
    Residual.evalKVs req es rs = .ok vals := by
  induction rs generalizing vals with
  | nil => simp [allConcreteKVs] at h; subst h; rfl
  | cons kr rs ih =>
    obtain ⟨k, r⟩ := kr
    cases r with
    | concrete v t =>
      simp only [allConcreteKVs, Option.map_eq_some_iff] at h
      obtain ⟨vs, hvs, rfl⟩ := h
      simp [Residual.evalKVs, Residual.eval, ih hvs]
    | part k t => simp [allConcreteKVs] at h
    | error t => simp [allConcreteKVs] at h

theorem anyErrorKVs_evalKVs {rs : List (String × Residual)} (h : rs.any (fun kv => kv.2.isError) = true) :
    ∃ e, Residual.evalKVs req es rs = .error e := by
  induction rs with
  | nil => simp at h
  | cons kr rs ih =>
    obtain ⟨k, r⟩ := kr
    simp only [List.any_cons, Bool.or_eq_true] at h
    simp only [Residual.evalKVs]
    cases hr : r.eval req es with
    | error e => exact ⟨e, rfl⟩
    | ok v =>
      rcases h with h | h
      · cases r <;> simp [Residual.isError] at h
        simp [Residual.eval] at hr
      · obtain ⟨e, he⟩ := ih h
        exact ⟨e, by simp [he]⟩

def recordOf (vals : List (String × Value)) : Value := .record (vals.foldl (fun acc kv => insertKV kv.1 kv.2 acc) [])

def recordResult (ty : Ty) (rs : List (String × Residual)) : Residual :=
  match allConcreteKVs rs with
  | some vals => .concrete (recordOf vals) ty
  | none => if rs.any (fun kv => kv.2.isError) then .error ty else .part (.record rs) ty

theorem interpretKind_record (ty : Ty) (kvs : List (String × Residual)) :
    interpretKind preq pes ty (.record kvs) = recordResult ty (interpretKVs preq pes kvs) := by
  rw [interpretKind]; rfl

theorem record_arm (ty : Ty) (rs : List (String × Residual)) (X : Result (List (String × Value)))
    (hrs : AgreeL (Residual.evalKVs req es rs) X) :
    Agree ((recordResult ty rs).eval req es) (liftL X (fun vs => .ok (recordOf vs))) := by
  unfold recordResult
  cases hac : allConcreteKVs rs with
  | some vals =>
    simp only
    rw [allConcreteKVs_evalKVs hac] at hrs
    rcases agreeL_cases hrs with ⟨v, h1, h2⟩ | ⟨e, e', h1, h2⟩
    · cases h1; rw [h2]; simp [Residual.eval, liftL, Agree]
    · cases h1
  | none =>
    simp only
    split
    · rename_i hany
      obtain ⟨e, he⟩ := anyErrorKVs_evalKVs (req := req) (es := es) hany
      rw [he] at hrs
      rcases agreeL_cases hrs with ⟨v, h1, h2⟩ | ⟨e, e', h1, h2⟩
      · cases h1
      · rw [h2]; simp [Residual.eval, liftL, Agree]
    · simp only [Residual.eval, RKind.eval]
      rcases agreeL_cases hrs with ⟨v, h1, h2⟩ | ⟨e, e', h1, h2⟩
      · rw [h1, h2]; simp [liftL, recordOf, Agree]
      · rw [h1, h2]; simp [liftL, Agree]

theorem eval_call (fn : String) (rs : List Residual) :
    (RKind.call fn rs).eval req es = liftL (Residual.evalList req es rs) (callExt fn) := by
  simp only [RKind.eval, liftL]
  cases Residual.evalList req es rs <;> rfl

theorem eval_set (rs : List Residual) :
    (RKind.set rs).eval req es = liftL (Residual.evalList req es rs) (fun vs => .ok (.set (Value.mkSet vs))) := by
  simp only [RKind.eval, liftL]
  cases Residual.evalList req es rs <;> rfl

theorem eval_record (rs : List (String × Residual)) :
    (RKind.record rs).eval req es = liftL (Residual.evalKVs req es rs) (fun vs => .ok (recordOf vs)) := by
  simp only [RKind.eval, liftL, recordOf]
  cases Residual.evalKVs req es rs <;> rfl

end Cedar.Tpe
