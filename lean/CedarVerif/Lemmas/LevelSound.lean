import CedarVerif.Lemmas.LevelSoundDefs
/-
C16 helper: soundness of the level checker on the typed AST, by mutual structural induction over the whole checker.
  `check_sound`  : no level errors at maximum level n  ⇒  the expression evaluates over the level-n slice as over the store;
  `deref_sound`  : the same for a dereference target, plus the KEY INVARIANT: the value of a target of level k (projected
                   along the access path) only contains entity uids within k hops of the request.
Hypotheses: `Kinds` (the kind annotations agree with the run-time values — what typechecker soundness provides) and
`req.action = act` (the request is for the environment's action: the action-literal exception).
-/
namespace Cedar.Level
open Cedar Cedar.Slice

variable {req : Request} {es : Entities} {sl : SlotEnv} {n : Nat} {act : EntityUID}

theorem within_roots_principal (req : Request) (es : Entities) : req.principal ∈ reach es req 0 := by simp [reach, roots]
theorem within_roots_action (req : Request) (es : Entities) : req.action ∈ reach es req 0 := by simp [reach, roots]
theorem within_roots_resource (req : Request) (es : Entities) : req.resource ∈ reach es req 0 := by simp [reach, roots]
theorem within_roots_context (req : Request) (es : Entities) {u : EntityUID} (h : u ∈ uidsOfKVs req.context) :
    u ∈ reach es req 0 := by simp [reach, roots, h]

/-- a value known to lie within `k < n` hops, used where an entity is dereferenced -/
theorem entityWithin_of_within {v : Value} {k : Nat} {p : List String} (h : Within req es k (projL v p)) (hk : k ≤ n) :
    EntityWithin req es n v := by
  intro u hu
  subst hu
  exact reach_mono hk (h u (by simp [projL_prim, uidsOf]))

mutual
theorem check_sound (hact : req.action = act) :
    ∀ (te : TExpr), Kinds req es sl te → checkExpr n act te = [] →
      evaluate req (atLevel n req es) sl te.erase = evaluate req es sl te.erase
  | .lit _ => by intro _ _; simp [TExpr.erase, evaluate]
  | .var v => by intro _ _; cases v <;> simp [TExpr.erase, evaluate]
  | .slot _ => by intro _ _; simp [TExpr.erase, evaluate]
  | .unknown _ _ => by intro _ _; simp [TExpr.erase, evaluate]
  | .ite c t e => by
      intro hk hc
      simp only [Kinds] at hk
      simp only [checkExpr, List.append_eq_nil_iff] at hc
      simp only [TExpr.erase, evaluate, check_sound hact c hk.1 hc.1]
      cases hcv : evaluate req es sl c.erase with
      | error _ => rfl
      | ok cv =>
        simp only
        cases hb : cv.asBool with
        | error _ => rfl
        | ok b =>
          have hcv' := hcv
          rw [asBool_ok hb] at hcv'
          cases b with
          | true => exact check_sound hact t (hk.2.1 hcv') hc.2.1
          | false => exact check_sound hact e (hk.2.2 hcv') hc.2.2
  | .and a b => by
      intro hk hc
      simp only [Kinds] at hk
      simp only [checkExpr, List.append_eq_nil_iff] at hc
      simp only [TExpr.erase, evaluate, check_sound hact a hk.1 hc.1]
      cases hav : evaluate req es sl a.erase with
      | error _ => rfl
      | ok av =>
        simp only
        cases hb : av.asBool with
        | error _ => rfl
        | ok bb =>
          have hav' := hav
          rw [asBool_ok hb] at hav'
          cases bb with
          | false => rfl
          | true => simp only [check_sound hact b (hk.2 hav') hc.2]
  | .or a b => by
      intro hk hc
      simp only [Kinds] at hk
      simp only [checkExpr, List.append_eq_nil_iff] at hc
      simp only [TExpr.erase, evaluate, check_sound hact a hk.1 hc.1]
      cases hav : evaluate req es sl a.erase with
      | error _ => rfl
      | ok av =>
        simp only
        cases hb : av.asBool with
        | error _ => rfl
        | ok bb =>
          have hav' := hav
          rw [asBool_ok hb] at hav'
          cases bb with
          | true => rfl
          | false => simp only [check_sound hact b (hk.2 hav') hc.2]
  | .unaryApp _ a => by
      intro hk hc
      simp only [Kinds] at hk
      simp only [checkExpr] at hc
      simp only [TExpr.erase, evaluate, check_sound hact a hk hc]
  | .binaryApp op a b => by
      intro hk hc
      simp only [Kinds] at hk
      simp only [checkExpr] at hc
      simp only [TExpr.erase, evaluate]
      by_cases hop : isDerefOp op = true
      · simp only [hop, if_true, List.append_eq_nil_iff] at hc
        obtain ⟨h1, h2, h3⟩ := hc
        have hlt := exceeds_nil_iff.mp h2
        obtain ⟨ea, inva⟩ := deref_sound hact a [] hk.1 h1 hlt
        rw [ea, check_sound hact b hk.2 h3]
        cases hva : evaluate req es sl a.erase with
        | error _ => rfl
        | ok v1 =>
          cases hvb : evaluate req es sl b.erase with
          | error _ => rfl
          | ok v2 => exact applyBinary_deref (entityWithin_of_within (inva v1 hva) (Nat.le_of_lt hlt)) v2
      · have hop' : isDerefOp op = false := by simpa using hop
        simp only [hop', Bool.false_eq_true, if_false, List.append_eq_nil_iff] at hc
        rw [check_sound hact a hk.1 hc.1, check_sound hact b hk.2 hc.2]
        cases evaluate req es sl a.erase with
        | error _ => rfl
        | ok v1 =>
          cases evaluate req es sl b.erase with
          | error _ => rfl
          | ok v2 => exact applyBinary_noDeref hop' _ _ v1 v2
  | .call _ args => by
      intro hk hc
      simp only [Kinds] at hk
      simp only [checkExpr] at hc
      simp only [TExpr.erase, evaluate, checkList_sound hact args hk hc]
  | .getAttr k e attr => by
      intro hk hc
      simp only [Kinds] at hk
      simp only [TExpr.erase]
      rw [evaluate_getAttr, evaluate_getAttr]
      cases k with
      | entity =>
        simp only [checkExpr, List.append_eq_nil_iff] at hc
        have hlt := exceeds_nil_iff.mp hc.2
        obtain ⟨ee, inv⟩ := deref_sound hact e [] hk.1 hc.1 hlt
        rw [ee]
        cases hv : evaluate req es sl e.erase with
        | error _ => rfl
        | ok v => exact getAttrV_atLevel (entityWithin_of_within (inv v hv) (Nat.le_of_lt hlt)) attr
      | record =>
        simp only [checkExpr] at hc
        rw [check_sound hact e hk.1 hc]
        cases hv : evaluate req es sl e.erase with
        | error _ => rfl
        | ok v =>
          have hm := hk.2 v hv
          cases v with
          | record kvs => rfl
          | prim _ => simp [TKind.matches] at hm
          | set _ => simp [TKind.matches] at hm
          | ext _ => simp [TKind.matches] at hm
      | other => simp [checkExpr] at hc
  | .hasAttr k e attr => by
      intro hk hc
      simp only [Kinds] at hk
      simp only [TExpr.erase]
      rw [evaluate_hasAttr, evaluate_hasAttr]
      cases k with
      | entity =>
        simp only [checkExpr, List.append_eq_nil_iff] at hc
        have hlt := exceeds_nil_iff.mp hc.2
        obtain ⟨ee, inv⟩ := deref_sound hact e [] hk.1 hc.1 hlt
        rw [ee]
        cases hv : evaluate req es sl e.erase with
        | error _ => rfl
        | ok v => exact hasAttrV_atLevel (entityWithin_of_within (inv v hv) (Nat.le_of_lt hlt)) attr
      | record =>
        simp only [checkExpr] at hc
        rw [check_sound hact e hk.1 hc]
        cases hv : evaluate req es sl e.erase with
        | error _ => rfl
        | ok v =>
          have hm := hk.2 v hv
          cases v with
          | record kvs => rfl
          | prim _ => simp [TKind.matches] at hm
          | set _ => simp [TKind.matches] at hm
          | ext _ => simp [TKind.matches] at hm
      | other => simp [checkExpr] at hc
  | .like e _ => by
      intro hk hc
      simp only [Kinds] at hk
      simp only [checkExpr] at hc
      simp only [TExpr.erase, evaluate, check_sound hact e hk hc]
  | .is e _ => by
      intro hk hc
      simp only [Kinds] at hk
      simp only [checkExpr] at hc
      simp only [TExpr.erase, evaluate, check_sound hact e hk hc]
  | .set xs => by
      intro hk hc
      simp only [Kinds] at hk
      simp only [checkExpr] at hc
      simp only [TExpr.erase, evaluate, checkList_sound hact xs hk hc]
  | .record kvs => by
      intro hk hc
      simp only [Kinds] at hk
      simp only [checkExpr] at hc
      simp only [TExpr.erase, evaluate, checkKVs_sound hact kvs hk hc]
theorem checkList_sound (hact : req.action = act) :
    ∀ (xs : List TExpr), KindsList req es sl xs → checkList n act xs = [] →
      evaluateList req (atLevel n req es) sl (eraseList xs) = evaluateList req es sl (eraseList xs)
  | [] => by intro _ _; simp [eraseList, evaluateList]
  | e :: xs => by
      intro hk hc
      simp only [KindsList] at hk
      simp only [checkList, List.append_eq_nil_iff] at hc
      simp only [eraseList, evaluateList, check_sound hact e hk.1 hc.1, checkList_sound hact xs hk.2 hc.2]
theorem checkKVs_sound (hact : req.action = act) :
    ∀ (kvs : List (String × TExpr)), KindsKVs req es sl kvs → checkKVs n act kvs = [] →
      evaluateKVs req (atLevel n req es) sl (eraseKVs kvs) = evaluateKVs req es sl (eraseKVs kvs)
  | [] => by intro _ _; simp [eraseKVs, evaluateKVs]
  | (k, e) :: xs => by
      intro hk hc
      simp only [KindsKVs] at hk
      simp only [checkKVs, List.append_eq_nil_iff] at hc
      simp only [eraseKVs, evaluateKVs, check_sound hact e hk.1 hc.1, checkKVs_sound hact xs hk.2 hc.2]
theorem deref_sound (hact : req.action = act) :
    ∀ (te : TExpr) (p : List String), Kinds req es sl te → derefErrs n act te p = [] → derefLevel act te p < n →
      evaluate req (atLevel n req es) sl te.erase = evaluate req es sl te.erase ∧
      ∀ v, evaluate req es sl te.erase = .ok v → Within req es (derefLevel act te p) (projL v p)
  | .var v, p => by
      intro _ _ _
      refine ⟨by cases v <;> simp [TExpr.erase, evaluate], ?_⟩
      intro val hval u hu
      simp only [derefLevel]
      cases v with
      | principal =>
        simp only [TExpr.erase, evaluate, Except.ok.injEq] at hval
        subst hval
        simp only [projL_prim, uidsOf, List.mem_singleton] at hu
        subst hu; exact within_roots_principal req es
      | action =>
        simp only [TExpr.erase, evaluate, Except.ok.injEq] at hval
        subst hval
        simp only [projL_prim, uidsOf, List.mem_singleton] at hu
        subst hu; exact within_roots_action req es
      | resource =>
        simp only [TExpr.erase, evaluate, Except.ok.injEq] at hval
        subst hval
        simp only [projL_prim, uidsOf, List.mem_singleton] at hu
        subst hu; exact within_roots_resource req es
      | context =>
        simp only [TExpr.erase, evaluate, Except.ok.injEq] at hval
        subst hval
        have := uidsOf_projL p _ u hu
        simp only [uidsOf] at this
        exact within_roots_context req es this
  | .slot _, _ => by intro _ hc _; simp [derefErrs] at hc
  | .lit l, p => by
      intro _ hc _
      refine ⟨by simp [TExpr.erase, evaluate], ?_⟩
      cases l with
      | entityUID u =>
        simp only [derefErrs] at hc
        have hua : u = act := by
          by_cases h : (u == act) = true
          · simpa using h
          · simp [h] at hc
        intro val hval w hw
        simp only [TExpr.erase, evaluate, Except.ok.injEq] at hval
        subst hval
        simp only [projL_prim, uidsOf, List.mem_singleton] at hw
        subst hw
        simp only [derefLevel]
        rw [hua, ← hact]
        exact within_roots_action req es
      | bool _ => simp [derefErrs] at hc
      | int _ => simp [derefErrs] at hc
      | string _ => simp [derefErrs] at hc
  | .ite c t e, p => by
      intro hk hc hl
      simp only [Kinds] at hk
      simp only [derefErrs, List.append_eq_nil_iff] at hc
      simp only [derefLevel] at hl ⊢
      have hlt : derefLevel act t p < n := by omega
      have hle : derefLevel act e p < n := by omega
      have ec := check_sound hact c hk.1 hc.1
      simp only [TExpr.erase, evaluate, ec]
      cases hcv : evaluate req es sl c.erase with
      | error _ => exact ⟨rfl, by intro v h; cases h⟩
      | ok cv =>
        simp only
        cases hb : cv.asBool with
        | error _ => exact ⟨rfl, by intro v h; cases h⟩
        | ok b =>
          have hcv' := hcv
          rw [asBool_ok hb] at hcv'
          cases b with
          | true =>
            obtain ⟨et, invt⟩ := deref_sound hact t p (hk.2.1 hcv') hc.2.1 hlt
            exact ⟨et, fun val hval => (invt val hval).mono (Nat.le_max_left _ _)⟩
          | false =>
            obtain ⟨ee, inve⟩ := deref_sound hact e p (hk.2.2 hcv') hc.2.2 hle
            exact ⟨ee, fun val hval => (inve val hval).mono (Nat.le_max_right _ _)⟩
  | .getAttr k e attr, p => by
      intro hk hc hl
      simp only [Kinds] at hk
      simp only [TExpr.erase]
      rw [evaluate_getAttr, evaluate_getAttr]
      cases k with
      | entity =>
        simp only [derefErrs] at hc
        simp only [derefLevel] at hl ⊢
        obtain ⟨ee, inv⟩ := deref_sound hact e p hk.1 hc (by omega)
        rw [ee]
        cases hv : evaluate req es sl e.erase with
        | error _ => exact ⟨rfl, by intro v h; cases h⟩
        | ok ve =>
          have hm := hk.2 ve hv
          cases ve with
          | record _ => simp [TKind.matches] at hm
          | set _ => simp [TKind.matches] at hm
          | ext _ => simp [TKind.matches] at hm
          | prim pr =>
            cases pr with
            | bool _ => simp [TKind.matches] at hm
            | int _ => simp [TKind.matches] at hm
            | string _ => simp [TKind.matches] at hm
            | entityUID u =>
              have hu : u ∈ reach es req (derefLevel act e p) := inv _ hv u (by simp [projL_prim, uidsOf])
              have hw : EntityWithin req es n (.prim (.entityUID u)) := by
                intro u' hu'
                cases hu'
                exact reach_mono (by omega) hu
              refine ⟨getAttrV_atLevel hw attr, ?_⟩
              intro val hval w hwm
              simp only [getAttrV] at hval
              cases hd : es.find? u with
              | none => simp [hd] at hval
              | some d =>
                simp only [hd] at hval
                cases hlk : lookupKV d.attrs attr with
                | none => simp [hlk] at hval
                | some x =>
                  simp only [hlk, Except.ok.injEq] at hval
                  subst hval
                  exact reach_step hu (successors_attr hd hlk (uidsOf_projL p _ w hwm))
      | record =>
        simp only [derefErrs] at hc
        simp only [derefLevel] at hl ⊢
        obtain ⟨ee, inv⟩ := deref_sound hact e (attr :: p) hk.1 hc hl
        rw [ee]
        cases hv : evaluate req es sl e.erase with
        | error _ => exact ⟨rfl, by intro v h; cases h⟩
        | ok ve =>
          have hm := hk.2 ve hv
          cases ve with
          | prim _ => simp [TKind.matches] at hm
          | set _ => simp [TKind.matches] at hm
          | ext _ => simp [TKind.matches] at hm
          | record kvs =>
            refine ⟨rfl, ?_⟩
            intro val hval
            simp only [getAttrV] at hval
            cases hlk : lookupKV kvs attr with
            | none => simp [hlk] at hval
            | some x =>
              simp only [hlk, Except.ok.injEq] at hval
              subst hval
              have := inv _ hv
              simp only [projL, hlk] at this
              exact this
      | other => simp [derefErrs] at hc
  | .binaryApp op a b, p => by
      intro hk hc hl
      simp only [Kinds] at hk
      cases op with
      | getTag =>
        simp only [derefErrs, List.append_eq_nil_iff] at hc
        simp only [derefLevel] at hl ⊢
        obtain ⟨ea, inva⟩ := deref_sound hact a p hk.1 hc.1 (by omega)
        have eb := check_sound hact b hk.2 hc.2
        simp only [TExpr.erase, evaluate, ea, eb]
        cases hva : evaluate req es sl a.erase with
        | error _ => exact ⟨rfl, by intro v h; cases h⟩
        | ok v1 =>
          cases hvb : evaluate req es sl b.erase with
          | error _ => exact ⟨rfl, by intro v h; cases h⟩
          | ok v2 =>
            simp only
            have hw : EntityWithin req es n v1 := entityWithin_of_within (inva v1 hva) (by omega)
            refine ⟨applyBinary_deref hw v2, ?_⟩
            intro val hval w hwm
            cases v1 with
            | record _ => simp [applyBinary, Value.asEntity, bind, Except.bind] at hval
            | set _ => simp [applyBinary, Value.asEntity, bind, Except.bind] at hval
            | ext _ => simp [applyBinary, Value.asEntity, bind, Except.bind] at hval
            | prim pr =>
              cases pr with
              | bool _ => simp [applyBinary, Value.asEntity, bind, Except.bind] at hval
              | int _ => simp [applyBinary, Value.asEntity, bind, Except.bind] at hval
              | string _ => simp [applyBinary, Value.asEntity, bind, Except.bind] at hval
              | entityUID u =>
                have hu : u ∈ reach es req (derefLevel act a p) := inva _ hva u (by simp [projL_prim, uidsOf])
                simp only [applyBinary, Value.asEntity, bind, Except.bind] at hval
                cases hs : v2.asString with
                | error _ => simp [hs] at hval
                | ok t =>
                  simp only [hs] at hval
                  cases hd : es.find? u with
                  | none => simp [hd] at hval
                  | some d =>
                    simp only [hd] at hval
                    cases hlk : lookupKV d.tags t with
                    | none => simp [hlk] at hval
                    | some x =>
                      simp only [hlk, Except.ok.injEq] at hval
                      subst hval
                      exact reach_step hu (successors_tag hd hlk (uidsOf_projL p _ w hwm))
      | eq => simp [derefErrs] at hc
      | less => simp [derefErrs] at hc
      | lessEq => simp [derefErrs] at hc
      | add => simp [derefErrs] at hc
      | sub => simp [derefErrs] at hc
      | mul => simp [derefErrs] at hc
      | mem => simp [derefErrs] at hc
      | contains => simp [derefErrs] at hc
      | containsAll => simp [derefErrs] at hc
      | containsAny => simp [derefErrs] at hc
      | hasTag => simp [derefErrs] at hc
  | .record kvs, p => by
      intro hk hc hl
      simp only [Kinds] at hk
      cases p with
      | nil => simp [derefErrs] at hc
      | cons a p' =>
        simp only [derefErrs] at hc
        cases hkey : hasKey a kvs with
        | false => simp [hkey] at hc
        | true =>
          simp only [hkey, if_true] at hc
          cases hlv : derefLevelKVs act a p' kvs with
          | none => rw [(derefLevelKVs_none_iff act a p' kvs).mp hlv] at hkey; cases hkey
          | some l =>
            simp only [derefLevel, hlv] at hl ⊢
            obtain ⟨ekvs, inv⟩ := derefKVs_sound hact a p' kvs hk hc l hlv hl
            refine ⟨by simp only [TExpr.erase, evaluate, ekvs], ?_⟩
            intro val hval
            simp only [TExpr.erase, evaluate] at hval
            cases hvs : evaluateKVs req es sl (eraseKVs kvs) with
            | error _ => simp [hvs] at hval
            | ok vs =>
              simp only [hvs, Except.ok.injEq] at hval
              subst hval
              simp only [projL, lookupKV_foldl_insertKV]
              cases hlast : lastKV a vs with
              | none =>
                simp only [lookupKV]
                intro u hu
                simp [uidsOf, uidsOfKVs] at hu
              | some x => exact inv vs hvs x hlast
  | .unknown _ _, _ => by intro _ hc _; simp [derefErrs] at hc
  | .and _ _, _ => by intro _ hc _; simp [derefErrs] at hc
  | .or _ _, _ => by intro _ hc _; simp [derefErrs] at hc
  | .unaryApp _ _, _ => by intro _ hc _; simp [derefErrs] at hc
  | .call _ _, _ => by intro _ hc _; simp [derefErrs] at hc
  | .hasAttr _ _ _, _ => by intro _ hc _; simp [derefErrs] at hc
  | .like _ _, _ => by intro _ hc _; simp [derefErrs] at hc
  | .is _ _, _ => by intro _ hc _; simp [derefErrs] at hc
  | .set _, _ => by intro _ hc _; simp [derefErrs] at hc
theorem derefKVs_sound (hact : req.action = act) (a : String) (p : List String) :
    ∀ (kvs : List (String × TExpr)), KindsKVs req es sl kvs → derefErrsKVs n act a p kvs = [] →
      ∀ l, derefLevelKVs act a p kvs = some l → l < n →
      evaluateKVs req (atLevel n req es) sl (eraseKVs kvs) = evaluateKVs req es sl (eraseKVs kvs) ∧
      ∀ vs, evaluateKVs req es sl (eraseKVs kvs) = .ok vs → ∀ x, lastKV a vs = some x → Within req es l (projL x p)
  | [] => by intro _ _ l hl; simp [derefLevelKVs] at hl
  | (k, e) :: rest => by
      intro hk hc l hlv hl
      simp only [KindsKVs] at hk
      simp only [derefErrsKVs, List.append_eq_nil_iff] at hc
      simp only [derefLevelKVs] at hlv
      cases hkey : hasKey a rest with
      | true =>
        -- the accessed binding is further right; this one is an ordinary expression
        simp only [hkey, Bool.not_true, Bool.and_false, Bool.false_eq_true, if_false] at hc
        cases hr : derefLevelKVs act a p rest with
        | none => rw [(derefLevelKVs_none_iff act a p rest).mp hr] at hkey; cases hkey
        | some l' =>
          simp only [hr, Option.some.injEq] at hlv
          subst hlv
          obtain ⟨er, invr⟩ := derefKVs_sound hact a p rest hk.2 hc.2 l' hr hl
          have ee := check_sound hact e hk.1 hc.1
          refine ⟨by simp only [eraseKVs, evaluateKVs, ee, er], ?_⟩
          intro vs hvs x hx
          simp only [eraseKVs] at hvs
          obtain ⟨v, vs', _, h2, h3⟩ := evaluateKVs_cons_ok hvs
          subst h3
          obtain ⟨x', hx'⟩ := lastKV_of_hasKey (req := req) (es := es) (sl := sl) a rest vs' h2 hkey
          simp only [lastKV, hx', Option.some.injEq] at hx
          subst hx
          exact invr vs' h2 x' hx'
      | false =>
        have hr := (derefLevelKVs_none_iff act a p rest).mpr hkey
        simp only [hr] at hlv
        have hka : (k == a) = true := by
          by_cases h : (k == a) = true
          · exact h
          · simp [h] at hlv
        simp only [hka, if_true, Option.some.injEq] at hlv
        subst hlv
        simp only [hka, hkey, Bool.not_false, Bool.and_self, if_true] at hc
        obtain ⟨ee, inve⟩ := deref_sound hact e p hk.1 hc.1 hl
        have hrest : checkKVs n act rest = [] := by rw [← derefErrsKVs_noKey n act a p rest hkey]; exact hc.2
        have er := checkKVs_sound hact rest hk.2 hrest
        refine ⟨by simp only [eraseKVs, evaluateKVs, ee, er], ?_⟩
        intro vs hvs x hx
        simp only [eraseKVs] at hvs
        obtain ⟨v, vs', h1, h2, h3⟩ := evaluateKVs_cons_ok hvs
        subst h3
        have hnone := lastKV_of_noKey (req := req) (es := es) (sl := sl) a rest vs' h2 hkey
        simp only [lastKV, hnone, hka, if_true, Option.some.injEq] at hx
        subst hx
        exact inve v h1
end

end Cedar.Level
