import CedarVerif.Lemmas.TpeSound2
/- C14 helpers: completions consistent with partial inputs, the proved fragment of `interpret`, its soundness. -/
namespace Cedar.Tpe
open Cedar

/-- a concrete request / store is a completion of the partial ones (`check_consistency`: known parts are equal;
    every entity of the partial store exists; known ancestor sets are equal as sets) -/
structure Completes (preq : PRequest) (pes : PEntities) (req : Request) (es : Entities) : Prop where
  principal : ∀ u, preq.principal.uid? = some u → req.principal = u
  resource : ∀ u, preq.resource.uid? = some u → req.resource = u
  ptype : req.principal.ty = preq.principal.ty
  rtype : req.resource.ty = preq.resource.ty
  action : req.action = preq.action
  context : ∀ c, preq.context = some c → req.context = c
  attrs : ∀ u a, pes.attrs? u = some a → ∃ d, es.find? u = some d ∧ d.attrs = a
  ancestors : ∀ u n, pes.ancestors? u = some n → ∃ d, es.find? u = some d ∧ ∀ x, n.contains x = d.ancestors.contains x
  tags : ∀ u t, pes.tags? u = some t → ∃ d, es.find? u = some d ∧ d.tags = t

def storeFreeOp : BinaryOp → Bool
  | .mem | .getTag | .hasTag => false
  | _ => true

section
variable (preq : PRequest) (pes : PEntities) (req : Request) (es : Entities)

/-- an operand of `&&` / `||` is a boolean whenever it evaluates (validation: the operands have type Bool) -/
def OpBool (r : Residual) : Prop := ∀ v, (interpret preq pes r).eval req es = .ok v → ∃ b, v = .prim (.bool b)

/-- **the hypothesis about the can-error analysis**: a residual that `can_error_assuming_well_formed` declares
    error-free does not error on the completion (this is where TPE leans on validation) -/
def ErrFreeSound (r : Residual) : Prop := (interpret preq pes r).canError = false → ∃ v, (interpret preq pes r).eval req es = .ok v

/-- the residuals on which soundness of `interpret` is proved: EVERY constructor of `Residual` / `ResidualKind`; the
    only side conditions sit on the `&&` / `||` nodes (`OpBool`, `ErrFreeSound`) -/
inductive Frag : Residual → Prop
  | concrete (v ty) : Frag (.concrete v ty)
  | error (ty) : Frag (.error ty)
  | var (x ty) : Frag (.part (.var x) ty)
  | and {l r ty} : Frag l → Frag r → OpBool preq pes req es l → OpBool preq pes req es r → ErrFreeSound preq pes req es l →
      Frag (.part (.and l r) ty)
  | or {l r ty} : Frag l → Frag r → OpBool preq pes req es l → OpBool preq pes req es r → ErrFreeSound preq pes req es l →
      Frag (.part (.or l r) ty)
  | ite {c t e ty} : Frag c → Frag t → Frag e → Frag (.part (.ite c t e) ty)
  | unary {op a ty} : Frag a → Frag (.part (.unaryApp op a) ty)
  | binary {op a b ty} : Frag a → Frag b → Frag (.part (.binaryApp op a b) ty)
  | call {fn args ty} : (∀ r, r ∈ args → Frag r) → Frag (.part (.call fn args) ty)
  | set {xs ty} : (∀ r, r ∈ xs → Frag r) → Frag (.part (.set xs) ty)
  | record {kvs ty} : (∀ kv, kv ∈ kvs → Frag kv.2) → Frag (.part (.record kvs) ty)
  | getAttr {e a ty} : Frag e → Frag (.part (.getAttr e a) ty)
  | hasAttr {e a ty} : Frag e → Frag (.part (.hasAttr e a) ty)
  | like {e p ty} : Frag e → Frag (.part (.like e p) ty)
  | is {e ety ty} : Frag e → Frag (.part (.is e ety) ty)

variable {preq pes req es}

theorem interpretBinary_storeFree {op : BinaryOp} (h : storeFreeOp op = true) (ty : Ty) (v1 v2 : Value) (a1 a2 : Residual) :
    interpretBinary pes ty op v1 v2 a1 a2 = ofResult ty (applyBinary es op v1 v2) := by
  cases op <;> first | (simp [storeFreeOp] at h; done) | rfl

theorem sound_var (hC : Completes preq pes req es) (x : Var) (ty : Ty) :
    Agree ((interpretKind preq pes ty (.var x)).eval req es) ((RKind.var x).eval req es) := by
  cases x
  · rw [interpretKind]
    cases hu : preq.principal.uid? with
    | none => simp [Residual.eval, RKind.eval, Agree]
    | some u => simp [Residual.eval, RKind.eval, Agree, hC.principal u hu]
  · simp [interpretKind, Residual.eval, RKind.eval, Agree, hC.action]
  · rw [interpretKind]
    cases hu : preq.resource.uid? with
    | none => simp [Residual.eval, RKind.eval, Agree]
    | some u => simp [Residual.eval, RKind.eval, Agree, hC.resource u hu]
  · rw [interpretKind]
    cases hc : preq.context with
    | none => simp [Residual.eval, RKind.eval, Agree]
    | some c => simp [Residual.eval, RKind.eval, Agree, hC.context c hc]

/-- arms of the shape "interpret the operand; concrete ⇒ apply `f`; partial ⇒ rebuild; error ⇒ error" -/
theorem sound_unaryLike (ty : Ty) (E : Residual) (x : Result Value) (f : Value → Result Value)
    (mk : Residual → RKind) (hmk : ∀ r, (mk r).eval req es = bindR (r.eval req es) f)
    (hE : Agree (E.eval req es) x) (res : Residual)
    (hres : res = match E with
      | .concrete v _ => ofResult ty (f v)
      | .part k kty => .part (mk (.part k kty)) ty
      | .error _ => .error ty) :
    Agree (res.eval req es) (bindR x f) := by
  subst hres
  cases E with
  | concrete v t =>
    have hx : x = .ok v := agree_ok_left (by simpa [Residual.eval] using hE)
    subst hx
    exact agree_ofResult ty req es (f v)
  | part k kty =>
    simp only [Residual.eval, hmk]
    exact bindR_congr f hE
  | error t =>
    obtain ⟨e', rfl⟩ := agree_err_left (by simpa [Residual.eval] using hE)
    simp [Residual.eval, bindR, Agree]

end
end Cedar.Tpe
