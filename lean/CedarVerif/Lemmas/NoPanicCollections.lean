import CedarVerif.Cedar.NoPanic.Collections
import CedarVerif.Lemmas.JsonBasic
/-
C20 lemmas for `Cedar/NoPanic/Collections.lean`: the partition invariant of `FromIterator<Value> for Set` and the
key-uniqueness invariant behind `Expr::record(..).expect(..)`.
-/
namespace Cedar
namespace NoPanic

/-! ### `Value.mkSet` only drops elements -/

theorem mkSet_mem {x : Value} : ∀ {l : List Value}, x ∈ Value.mkSet l → x ∈ l
  | [], h => by simp [Value.mkSet] at h
  | v :: vs, h => by
    simp only [Value.mkSet] at h
    split at h
    · exact List.mem_cons_of_mem _ (mkSet_mem h)
    · rcases List.mem_cons.mp h with rfl | h
      · exact List.mem_cons_self ..
      · exact List.mem_cons_of_mem _ (mkSet_mem h)

theorem elem_ne_nil {v : Value} {l : List Value} (h : Value.elem v l = true) : l ≠ [] := by
  intro hl; subst hl; simp [Value.elem] at h

theorem mkSet_isEmpty : ∀ (l : List Value), (Value.mkSet l).isEmpty = l.isEmpty
  | [] => by simp [Value.mkSet]
  | v :: vs => by
    simp only [Value.mkSet, List.isEmpty_cons]
    split
    · rename_i h
      cases hm : Value.mkSet vs with
      | nil => rw [hm] at h; simp [Value.elem] at h
      | cons a as => rfl
    · rfl

/-! ### `litsOf` on a list of literals -/

theorem litsOf_of_all_lit : ∀ (l : List Value), (∀ v ∈ l, isLit v = true) → ∃ ps, litsOf l = some ps
  | [], _ => ⟨[], rfl⟩
  | v :: vs, h => by
    obtain ⟨ps, hps⟩ := litsOf_of_all_lit vs (fun w hw => h w (List.mem_cons_of_mem _ hw))
    have hv := h v (List.mem_cons_self ..)
    cases v with
    | prim p => exact ⟨p :: ps, by simp [litsOf, hps]⟩
    | set _ => simp [isLit] at hv
    | record _ => simp [isLit] at hv
    | ext _ => simp [isLit] at hv

/-- the partition invariant: every element of `literals` matches `ValueKind::Lit` -/
theorem literals_all_lit (vs : List Value) : ∀ v ∈ Value.mkSet (vs.filter isLit), isLit v = true := by
  intro v hv
  have := mkSet_mem hv
  exact (List.mem_filter.mp this).2

theorem nonLiterals_all_nonlit (vs : List Value) : ∀ v ∈ Value.mkSet (vs.filter (fun v => !isLit v)), isLit v = false := by
  intro v hv
  have := (List.mem_filter.mp (mkSet_mem hv)).2
  simpa using this

theorem setFromIter_built (vs : List Value) : ∃ s, setFromIter vs = .built s := by
  unfold setFromIter
  simp only []
  split
  · obtain ⟨ps, hps⟩ := litsOf_of_all_lit _ (literals_all_lit vs)
    rw [hps]
    exact ⟨_, rfl⟩
  · exact ⟨_, rfl⟩

/-! ### the result satisfies the `FastRepr` invariant of `Set` -/

theorem allLits_map_prim : ∀ (ps : List Prim), allLits? (ps.map Value.prim) = some ps
  | [] => rfl
  | p :: ps => by simp [allLits?, Value.asLit?, allLits_map_prim ps]

theorem allLits_cons_nonlit {v : Value} (h : isLit v = false) (rest : List Value) : allLits? (v :: rest) = none := by
  cases v with
  | prim p => simp [isLit] at h
  | set _ => simp [allLits?, Value.asLit?]
  | record _ => simp [allLits?, Value.asLit?]
  | ext _ => simp [allLits?, Value.asLit?]

theorem setFromIter_fastRepr (vs : List Value) (s : SetRepr) (h : setFromIter vs = .built s) : s.FastRepr := by
  unfold setFromIter at h
  simp only [] at h
  split at h
  · split at h
    · cases h
    · injection h with h
      subst h
      exact (allLits_map_prim _).symm
  · rename_i hne
    injection h with h
    subst h
    unfold SetRepr.FastRepr
    simp only []
    cases hm : Value.mkSet (vs.filter (fun v => !isLit v)) with
    | nil => rw [hm] at hne; simp at hne
    | cons a as =>
      have ha : isLit a = false := nonLiterals_all_nonlit vs a (by rw [hm]; exact List.mem_cons_self ..)
      exact (allLits_cons_nonlit ha _).symm

/-- `fast` is populated exactly when every element of the iterator is a literal -/
theorem setFromIter_fast_iff (vs : List Value) (s : SetRepr) (h : setFromIter vs = .built s) :
    s.fast.isSome = vs.all isLit := by
  unfold setFromIter at h
  simp only [] at h
  rw [mkSet_isEmpty] at h
  split at h
  · rename_i he
    split at h
    · cases h
    · injection h with h
      subst h
      simp only [Option.isSome_some]
      symm
      rw [List.all_eq_true]
      intro v hv
      cases hl : isLit v with
      | true => rfl
      | false =>
        have : v ∈ vs.filter (fun v => !isLit v) := List.mem_filter.mpr ⟨hv, by simp [hl]⟩
        rw [List.isEmpty_iff.mp he] at this
        cases this
  · rename_i hne
    injection h with h
    subst h
    simp only [Option.isSome_none]
    symm
    cases hf : vs.filter (fun v => !isLit v) with
    | nil => rw [hf] at hne; simp at hne
    | cons a as =>
      have ha : a ∈ vs.filter (fun v => !isLit v) := by rw [hf]; exact List.mem_cons_self ..
      obtain ⟨h1, h2⟩ := List.mem_filter.mp ha
      rw [List.all_eq_false]
      exact ⟨a, h1, by simpa using h2⟩

/-! ### `ExprBuilder::record` never sees an occupied entry when the keys are pairwise distinct -/

theorem lookupKV_none_iff {α} (k : String) : ∀ (l : List (String × α)), lookupKV l k = none ↔ k ∉ l.map (·.1)
  | [] => by simp [lookupKV]
  | (k', v) :: rest => by
    simp only [lookupKV, List.map_cons, List.mem_cons, not_or]
    by_cases h : k' = k
    · subst h; simp
    · have h' : (k' == k) = false := by simpa using h
      simp only [h', Bool.false_eq_true, if_false, lookupKV_none_iff k rest]
      constructor
      · intro hr; exact ⟨fun he => h he.symm, hr⟩
      · intro hr; exact hr.2

theorem keys_insertKV {α} (k : String) (v : α) : ∀ (l : List (String × α)) (x : String),
    x ∈ (insertKV k v l).map (·.1) ↔ x = k ∨ x ∈ l.map (·.1)
  | [], x => by simp [insertKV]
  | (k', v') :: rest, x => by
    unfold insertKV
    by_cases h1 : k < k'
    · simp [h1]
    · simp only [h1, if_false]
      by_cases h2 : k = k'
      · subst h2; simp
      · have h2' : (k == k') = false := by simpa using h2
        simp only [h2', Bool.false_eq_true, if_false, List.map_cons, List.mem_cons, keys_insertKV k v rest x]
        constructor
        · rintro (h | h | h)
          · exact Or.inr (Or.inl h)
          · exact Or.inl h
          · exact Or.inr (Or.inr h)
        · rintro (h | h | h)
          · exact Or.inr (Or.inl h)
          · exact Or.inl h
          · exact Or.inr (Or.inr h)

theorem exprRecordGo_ok : ∀ (pairs map : List (String × Expr)),
    (pairs.map (·.1)).Nodup → (∀ k ∈ pairs.map (·.1), k ∉ map.map (·.1)) →
    exprRecordGo pairs map = .ok (pairs.foldl (fun acc kv => insertKV kv.1 kv.2 acc) map)
  | [], map, _, _ => rfl
  | (k, v) :: rest, map, hnd, hdis => by
    have hk : lookupKV map k = none := (lookupKV_none_iff k map).mpr (hdis k (by simp))
    simp only [exprRecordGo, hk, List.foldl_cons]
    simp only [List.map_cons, List.nodup_cons] at hnd
    apply exprRecordGo_ok rest (insertKV k v map) hnd.2
    intro k' hk' hmem
    rcases (keys_insertKV k v map k').mp hmem with rfl | hm
    · exact hnd.1 hk'
    · exact hdis k' (List.mem_cons_of_mem _ hk') hm

theorem exprRecord_ok (pairs : List (String × Expr)) (h : (pairs.map (·.1)).Nodup) :
    exprRecord pairs = .ok (pairs.foldl (fun acc kv => insertKV kv.1 kv.2 acc) []) :=
  exprRecordGo_ok pairs [] h (by simp)

/-- and the `Occupied` arm is real: a repeated key is refused -/
theorem exprRecordGo_dup : ∀ (pairs map : List (String × Expr)) (k : String),
    k ∈ pairs.map (·.1) → k ∈ map.map (·.1) → ∃ k', exprRecordGo pairs map = .error k'
  | [], _, _, h, _ => by simp at h
  | (k0, v) :: rest, map, k, h1, h2 => by
    simp only [exprRecordGo]
    cases hl : lookupKV map k0 with
    | some _ => exact ⟨k0, rfl⟩
    | none =>
      simp only []
      have hk0 : k0 ∉ map.map (·.1) := (lookupKV_none_iff k0 map).mp hl
      simp only [List.map_cons, List.mem_cons] at h1
      rcases h1 with rfl | h1
      · exact absurd h2 hk0
      · exact exprRecordGo_dup rest _ k h1 ((keys_insertKV k0 v map k).mpr (Or.inr h2))

/-! ### `split` keeps the length, so `names.zip(rs)` has exactly the keys `names` -/

theorem splitPV_length : ∀ (pvs : List PartialValue),
    match splitPV pvs with
    | .inl vs => vs.length = pvs.length
    | .inr rs => rs.length = pvs.length
  | [] => by simp [splitPV]
  | .value v :: rest => by
    have ih := splitPV_length rest
    simp only [splitPV]
    cases h : splitPV rest with
    | inl vs => rw [h] at ih; simp only [] at ih ⊢; simp [ih]
    | inr rs => rw [h] at ih; simp only [] at ih ⊢; simp [ih]
  | .residual e :: rest => by simp [splitPV]

theorem zip_keys {β} : ∀ (names : List String) (xs : List β) (_ : xs.length = names.length),
    (names.zip xs).map (·.1) = names
  | [], _, _ => by simp
  | n :: ns, [], h => by simp at h
  | n :: ns, x :: xs, h => by
    simp only [List.zip_cons_cons, List.map_cons, List.cons.injEq, true_and]
    exact zip_keys ns xs (by simpa using h)

theorem recordArm_safe (map : List (String × PartialValue)) (h : (map.map (·.1)).Nodup) :
    ∀ site, recordArm map ≠ .panic site := by
  intro site
  unfold recordArm
  simp only []
  have hl := splitPV_length (map.map (·.2))
  cases hs : splitPV (map.map (·.2)) with
  | inl vs => simp
  | inr rs =>
    rw [hs] at hl
    simp only [List.length_map] at hl
    have hk : ((map.map (·.1)).zip rs).map (·.1) = map.map (·.1) :=
      zip_keys _ rs (by simpa using hl)
    simp only [exprRecord_ok _ (by rw [hk]; exact h)]
    exact fun h => RecOutcome.noConfusion h

/-- strictly ascending keys (the iteration order of the input `BTreeMap`): the residual is the zipped list itself, i.e.
what `Cedar/Partial.lean` (`pinterp`, `rinterp`) returns without naming the site -/
theorem recordArm_residual_sorted (map : List (String × PartialValue)) (h : CJson.Sorted (map.map (·.1)))
    (rs : List Expr) (hs : splitPV (map.map (·.2)) = .inr rs) :
    recordArm map = .residual ((map.map (·.1)).zip rs) := by
  unfold recordArm
  simp only [hs]
  have hl := splitPV_length (map.map (·.2))
  rw [hs] at hl
  simp only [List.length_map] at hl
  have hk : ((map.map (·.1)).zip rs).map (·.1) = map.map (·.1) :=
    zip_keys _ rs (by simpa using hl)
  have hnd : (((map.map (·.1)).zip rs).map (·.1)).Nodup := by
    rw [hk]
    clear hk hl hs
    generalize map.map (·.1) = ks at h
    induction ks with
    | nil => exact List.nodup_nil
    | cons k rest ih => exact List.nodup_cons.mpr ⟨CJson.Sorted.not_mem h, ih h.2⟩
  rw [exprRecord_ok _ hnd]
  simp only []
  congr 1
  have := CJson.foldl_insertKV_sorted ((map.map (·.1)).zip rs) [] (by simpa [hk] using h)
  simpa using this

/-- the `names` the arm zips with are the keys of the record expression's `BTreeMap`, whatever the fields evaluate to -/
theorem collectPVKVs_keys (f : Expr → PRes) : ∀ (kvs : List (String × Expr)) (pkvs : List (String × PartialValue)),
    collectPVKVs f kvs = .ok pkvs → pkvs.map (·.1) = kvs.map (·.1)
  | [], pkvs, h => by simp [collectPVKVs] at h; subst h; rfl
  | (k, x) :: xs, pkvs, h => by
    simp only [collectPVKVs] at h
    split at h
    · cases hc : collectPVKVs f xs with
      | error e => rw [hc] at h; simp [Except.map] at h
      | ok r =>
        rw [hc] at h
        simp only [Except.map] at h
        injection h with h
        subst h
        simp [collectPVKVs_keys f xs r hc]
    · cases hc : collectPVKVs f xs with
      | error e => rw [hc] at h; simp [Except.map] at h
      | ok r =>
        rw [hc] at h
        simp only [Except.map] at h
        injection h with h
        subst h
        simp [collectPVKVs_keys f xs r hc]
    · cases h

end NoPanic
end Cedar
