import CedarVerif.Lemmas.PartialSound2
/- On a concrete request and a concrete store, partial interpretation of a fragment expression never leaves a residual. -/
namespace Cedar

theorem collectPV_noRes (f : Expr → PRes) (xs : List Expr) (h : ∀ x, x ∈ xs → ∀ r, f x ≠ .res r) :
    match collectPV f xs with
    | .ok pvs => ∃ vs : List Value, pvs = vs.map PartialValue.value
    | .error r => ∀ r', r ≠ .res r' := by
  induction xs with
  | nil => exact ⟨[], rfl⟩
  | cons x xs ih =>
    have ih' := ih (fun y hy => h y (List.mem_cons_of_mem _ hy))
    have hx := h x (List.mem_cons_self ..)
    simp only [collectPV]
    cases hfx : f x with
    | val v =>
      simp only
      cases hc : collectPV f xs with
      | error r => rw [hc] at ih'; simpa [Except.map] using ih'
      | ok pvs =>
        rw [hc] at ih'
        obtain ⟨vs, hp⟩ := ih'
        exact ⟨v :: vs, by simp [Except.map, hp]⟩
    | res r => exact absurd hfx (hx r)
    | err c => intro r'; simp
    | fuel => intro r'; simp
    | panic => intro r'; simp

theorem collectPVKVs_noRes (f : Expr → PRes) (kvs : List (String × Expr)) (h : ∀ kv, kv ∈ kvs → ∀ r, f kv.2 ≠ .res r) :
    match collectPVKVs f kvs with
    | .ok pkvs => ∃ vs : List (String × Value), pkvs = vs.map (fun kv => (kv.1, PartialValue.value kv.2))
    | .error r => ∀ r', r ≠ .res r' := by
  induction kvs with
  | nil => exact ⟨[], rfl⟩
  | cons kv kvs ih =>
    obtain ⟨k, x⟩ := kv
    have ih' := ih (fun y hy => h y (List.mem_cons_of_mem _ hy))
    have hx := h (k, x) (List.mem_cons_self ..)
    simp only [collectPVKVs]
    cases hfx : f x with
    | val v =>
      simp only
      cases hc : collectPVKVs f kvs with
      | error r => rw [hc] at ih'; simpa [Except.map] using ih'
      | ok pvs =>
        rw [hc] at ih'
        obtain ⟨vs, hp⟩ := ih'
        exact ⟨(k, v) :: vs, by simp [Except.map, hp]⟩
    | res r => exact absurd hfx (hx r)
    | err c => intro r'; simp
    | fuel => intro r'; simp
    | panic => intro r'; simp

theorem noRes {e : Expr} (hf : Frag e) (req : Request) (es : Entities) (env : SlotEnv) :
    ∀ (m : Mapper) (n : Nat) (r : Expr), pinterp m (.ofConcrete req) (.ofConcrete es) env n e ≠ .res r := by
  induction hf with
  | lit p => intro m n r; cases n <;> simp [pinterp]
  | var v => intro m n r; cases n <;> cases v <;> simp [pinterp, PRequest.ofConcrete, UidEntry.eval]
  | slot s =>
    intro m n r
    cases n with
    | zero => simp [pinterp]
    | succ n => simp only [pinterp]; split <;> simp
  | ite _ _ _ ihc iht ihe =>
    intro m n r
    cases n with
    | zero => simp [pinterp]
    | succ n =>
      have h1 := ihc m n; have h2 := iht m n; have h3 := ihe m n
      simp only [pinterp, bestEffort]
      repeat' split
      all_goals simp_all
  | and _ _ iha ihb =>
    intro m n r
    cases n with
    | zero => simp [pinterp]
    | succ n =>
      have h1 := iha m n; have h2 := ihb m n
      simp only [pinterp, bestEffort]
      repeat' split
      all_goals simp_all
  | or _ _ iha ihb =>
    intro m n r
    cases n with
    | zero => simp [pinterp]
    | succ n =>
      have h1 := iha m n; have h2 := ihb m n
      simp only [pinterp, bestEffort]
      repeat' split
      all_goals simp_all
  | unaryApp op _ iha =>
    intro m n r
    cases n with
    | zero => simp [pinterp]
    | succ n =>
      have h1 := iha m n
      simp only [pinterp]
      split
      · cases applyUnary op _ <;> simp [PRes.ofResult]
      · simp_all
      · simp_all
  | binaryApp op _ _ iha ihb =>
    intro m n r
    cases n with
    | zero => simp [pinterp]
    | succ n =>
      have h1 := iha m n; have h2 := ihb m n
      simp only [pinterp]
      split
      · split
        · rw [papplyBinary_ofConcrete]; cases applyBinary es op _ _ <;> simp [PRes.ofResult]
        · simp_all
        · simp_all
      · simp_all
      · simp_all
  | getAttr a _ _ ihe =>
    intro m n r
    cases n with
    | zero => simp [pinterp]
    | succ n =>
      have h1 := ihe m n
      simp only [pinterp]
      split
      · simp_all
      · split <;> simp
      · rename_i u _
        rw [entity_ofConcrete]
        cases hf : es.find? u with
        | none => simp
        | some d => simp only [attrs_ofConcrete]; cases lookupKV d.attrs a <;> simp
      · simp
      · simp_all
  | hasAttr a _ _ ihe =>
    intro m n r
    cases n with
    | zero => simp [pinterp]
    | succ n =>
      have h1 := ihe m n
      simp only [pinterp]
      split
      · simp
      · rename_i u _
        rw [entity_ofConcrete]
        cases hf : es.find? u <;> simp
      · simp
      · simp_all
      · simp_all
  | like p _ ihe =>
    intro m n r
    cases n with
    | zero => simp [pinterp]
    | succ n =>
      have h1 := ihe m n
      simp only [pinterp]
      repeat' split
      all_goals simp_all
  | is ty _ ihe =>
    intro m n r
    cases n with
    | zero => simp [pinterp]
    | succ n =>
      have h1 := ihe m n
      simp only [pinterp]
      repeat' split
      all_goals simp_all
  | @set xs _ ih =>
    intro m n r
    cases n with
    | zero => simp [pinterp]
    | succ n =>
      have hc := collectPV_noRes (pinterp m (.ofConcrete req) (.ofConcrete es) env n) xs (fun x hx r => ih x hx m n r)
      simp only [pinterp]
      cases hcc : collectPV (pinterp m (.ofConcrete req) (.ofConcrete es) env n) xs with
      | error r' => rw [hcc] at hc; exact hc r
      | ok pvs =>
        rw [hcc] at hc
        obtain ⟨vs, hp⟩ := hc
        simp [hp, splitPV_values]
  | @call fn args hfn _ _ ih =>
    intro m n r
    cases n with
    | zero => simp [pinterp]
    | succ n =>
      have hc := collectPV_noRes (pinterp m (.ofConcrete req) (.ofConcrete es) env n) args (fun x hx r => ih x hx m n r)
      simp only [pinterp]
      cases hcc : collectPV (pinterp m (.ofConcrete req) (.ofConcrete es) env n) args with
      | error r' => rw [hcc] at hc; exact hc r
      | ok pvs =>
        rw [hcc] at hc
        obtain ⟨vs, hp⟩ := hc
        simp only [hp, splitPV_values, pcallExt_ne_unknown hfn]
        cases callExt fn vs <;> simp [PRes.ofResult]
  | @record kvs _ ih =>
    intro m n r
    cases n with
    | zero => simp [pinterp]
    | succ n =>
      have hc := collectPVKVs_noRes (pinterp m (.ofConcrete req) (.ofConcrete es) env n) kvs (fun kv hkv r => ih kv hkv m n r)
      simp only [pinterp]
      cases hcc : collectPVKVs (pinterp m (.ofConcrete req) (.ofConcrete es) env n) kvs with
      | error r' => rw [hcc] at hc; exact hc r
      | ok pkvs =>
        rw [hcc] at hc
        obtain ⟨vs, hp⟩ := hc
        have h1 : pkvs.map (·.2) = (vs.map Prod.snd).map PartialValue.value := by
          rw [hp]; simp [List.map_map, Function.comp_def]
        simp only [h1, splitPV_values]
        simp

end Cedar
