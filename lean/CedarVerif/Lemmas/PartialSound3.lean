import CedarVerif.Lemmas.PartialSound2
/- On a concrete request and a concrete store, partial interpretation of a fragment expression never leaves a residual. -/
namespace Cedar

theorem noRes {e : Expr} (hf : Frag e) (req : Request) (es : Entities) (env : SlotEnv) :
    ∀ (m : Mapper) (n : Nat) (r : Expr), pinterp m (.ofConcrete req) (.ofConcrete es) env n e ≠ .res r := by
  induction hf with
  | lit p => intro m n r; cases n <;> simp [pinterp]
  | var v => intro m n r; cases n <;> cases v <;> simp [pinterp, PRequest.ofConcrete, UidEntry.eval]
  | slot s =>
    intro m n r
    cases n with
    | zero => simp [pinterp]
    | succ n => simp only [pinterp]; split <;> simp
  | ite _ _ _ ihc iht ihe =>
    intro m n r
    cases n with
    | zero => simp [pinterp]
    | succ n =>
      have h1 := ihc m n; have h2 := iht m n; have h3 := ihe m n
      simp only [pinterp, bestEffort]
      repeat' split
      all_goals simp_all
  | and _ _ iha ihb =>
    intro m n r
    cases n with
    | zero => simp [pinterp]
    | succ n =>
      have h1 := iha m n; have h2 := ihb m n
      simp only [pinterp, bestEffort]
      repeat' split
      all_goals simp_all
  | or _ _ iha ihb =>
    intro m n r
    cases n with
    | zero => simp [pinterp]
    | succ n =>
      have h1 := iha m n; have h2 := ihb m n
      simp only [pinterp, bestEffort]
      repeat' split
      all_goals simp_all
  | unaryApp op _ iha =>
    intro m n r
    cases n with
    | zero => simp [pinterp]
    | succ n =>
      have h1 := iha m n
      simp only [pinterp]
      split
      · cases applyUnary op _ <;> simp [PRes.ofResult]
      · simp_all
      · simp_all
  | binaryApp op hop _ _ iha ihb =>
    intro m n r
    cases n with
    | zero => simp [pinterp]
    | succ n =>
      have h1 := iha m n; have h2 := ihb m n
      simp only [pinterp]
      split
      · split
        · rw [papplyBinary_storeFree _ es op hop]; cases applyBinary es op _ _ <;> simp [PRes.ofResult]
        · simp_all
        · simp_all
      · simp_all
      · simp_all
  | getAttr a _ ihe =>
    intro m n r
    cases n with
    | zero => simp [pinterp]
    | succ n =>
      have h1 := ihe m n
      simp only [pinterp]
      split
      · simp_all
      · split <;> simp
      · rename_i u _
        rw [entity_ofConcrete]
        cases hf : es.find? u with
        | none => simp
        | some d => simp only [attrs_ofConcrete]; cases lookupKV d.attrs a <;> simp
      · simp
      · simp_all
  | hasAttr a _ ihe =>
    intro m n r
    cases n with
    | zero => simp [pinterp]
    | succ n =>
      have h1 := ihe m n
      simp only [pinterp]
      split
      · simp
      · rename_i u _
        rw [entity_ofConcrete]
        cases hf : es.find? u <;> simp
      · simp
      · simp_all
      · simp_all
  | like p _ ihe =>
    intro m n r
    cases n with
    | zero => simp [pinterp]
    | succ n =>
      have h1 := ihe m n
      simp only [pinterp]
      repeat' split
      all_goals simp_all
  | is ty _ ihe =>
    intro m n r
    cases n with
    | zero => simp [pinterp]
    | succ n =>
      have h1 := ihe m n
      simp only [pinterp]
      repeat' split
      all_goals simp_all

end Cedar
