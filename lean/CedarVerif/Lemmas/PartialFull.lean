import CedarVerif.Cedar.Partial
/- Vocabulary of the *full* statement of C13's `pinterp_sound` (all expressions, residual contexts, unknown
   attribute values, partial stores): unknown occurrences, type-respecting substitutions, completions. -/
namespace Cedar

-- all unknowns (name, annotation) occurring in an expression
mutual
def Expr.unknowns : Expr → List (String × Option TyAnn)
  | .unknown n ty => [(n, ty)]
  | .lit _ => []
  | .var _ => []
  | .slot _ => []
  | .ite c t e => c.unknowns ++ t.unknowns ++ e.unknowns
  | .and a b => a.unknowns ++ b.unknowns
  | .or a b => a.unknowns ++ b.unknowns
  | .unaryApp _ a => a.unknowns
  | .binaryApp _ a b => a.unknowns ++ b.unknowns
  | .call _ args => Expr.unknownsList args
  | .getAttr e _ => e.unknowns
  | .hasAttr e _ => e.unknowns
  | .like e _ => e.unknowns
  | .is e _ => e.unknowns
  | .set xs => Expr.unknownsList xs
  | .record kvs => Expr.unknownsKVs kvs
def Expr.unknownsList : List Expr → List (String × Option TyAnn)
  | [] => []
  | x :: xs => x.unknowns ++ Expr.unknownsList xs
def Expr.unknownsKVs : List (String × Expr) → List (String × Option TyAnn)
  | [] => []
  | (_, x) :: xs => x.unknowns ++ Expr.unknownsKVs xs
end

def UidEntry.unknowns (key : String) : UidEntry → List (String × Option TyAnn)
  | .known _ => []
  | .unknown none => [(key, none)]
  | .unknown (some t) => [(key, some (.entity t))]

def PRequest.unknowns (r : PRequest) : List (String × Option TyAnn) :=
  r.principal.unknowns "principal" ++ r.action.unknowns "action" ++ r.resource.unknowns "resource" ++
  (match r.context with
   | none => [("context", none)]
   | some (.value _) => []
   | some (.residual kvs) => Expr.unknownsKVs kvs)

def pkvUnknowns : List (String × PartialValue) → List (String × Option TyAnn)
  | [] => []
  | (_, .value _) :: r => pkvUnknowns r
  | (_, .residual e) :: r => e.unknowns ++ pkvUnknowns r

def PEntities.unknowns (es : PEntities) : List (String × Option TyAnn) :=
  es.ents.flatMap (fun ud => pkvUnknowns ud.2.attrs ++ pkvUnknowns ud.2.tags)

/-- the substitution maps every *typed* unknown of the list to a value of the declared kind -/
def RespectsTypes (σ : Mapper) (us : List (String × Option TyAnn)) : Prop :=
  ∀ n t v, (n, some t) ∈ us → lookupKV σ n = some v → v.typeOf = t

def UidEntry.ConcFull (σ : Mapper) (key : String) (entry : UidEntry) (uid : EntityUID) : Prop :=
  match entry with
  | .known u => u = uid
  | .unknown _ => lookupKV σ key = some (.prim (.entityUID uid))

/-- `req` is `preq` with its unknowns substituted by σ (a residual context is substituted and re-evaluated as
    `Context::substitute` does) -/
def ConcretizesFull (σ : Mapper) (preq : PRequest) (req : Request) : Prop :=
  preq.principal.ConcFull σ "principal" req.principal ∧ preq.action.ConcFull σ "action" req.action ∧
  preq.resource.ConcFull σ "resource" req.resource ∧
  (match preq.context with
   | some (.value kvs) => kvs = req.context
   | none => lookupKV σ "context" = some (.record req.context)
   | some (.residual kvs) => ∃ n, rinterp n (Expr.substUnk σ (.record kvs)) = .val (.record req.context))

def AttrCompletes (σ : Mapper) (pv : PartialValue) (v : Value) : Prop :=
  match pv with
  | .value w => w = v
  | .residual r => ∃ n, rinterp n (r.substUnk σ) = .val v

def AttrsComplete (σ : Mapper) : List (String × PartialValue) → List (String × Value) → Prop
  | [], [] => True
  | (k, pv) :: r, (k', v) :: r' => k = k' ∧ AttrCompletes σ pv v ∧ AttrsComplete σ r r'
  | _, _ => False

/-- the concrete store `es` completes the partial store `pes` under σ: present entities keep their data with
    unknown attribute values substituted; an entity missing from a `.partial()` store is the value of the
    unknown the store creates for it; a concrete-mode store is not extended -/
def StoreCompletes (σ : Mapper) (pes : PEntities) (es : Entities) : Prop :=
  ∀ u, match PEntities.find? pes.ents u with
    | some d => ∃ d', es.find? u = some d' ∧ d'.ancestors = d.ancestors ∧
        AttrsComplete σ d.attrs d'.attrs ∧ AttrsComplete σ d.tags d'.tags
    | none => if pes.partialMode then lookupKV σ (uidName u) = some (.prim (.entityUID u)) else es.find? u = none

/-- equal values (modulo set order/duplicates: `Value.beq`), or both errors -/
def ResultAgree (x y : Result Value) : Prop :=
  (∃ v w, x = .ok v ∧ y = .ok w ∧ Value.beq v w = true) ∨ (∃ c c', x = .error c ∧ y = .error c')

end Cedar
