import CedarVerif.Cedar.Manifest
/-
C17 helper lemmas, part 1: the order on access tries, "trimmed value", and what `slice_val` / `slice_entity` keep.
-/
namespace Cedar.Manifest
open Cedar

/-! ## lookups in key-sorted association lists -/

theorem lookupKV_insertKV {α} (k k' : String) (v : α) (l : List (String × α)) :
    lookupKV (insertKV k v l) k' = if k == k' then some v else lookupKV l k' := by
  induction l with
  | nil => simp [insertKV, lookupKV]
  | cons hd tl ih =>
    obtain ⟨k0, v0⟩ := hd
    unfold insertKV
    by_cases h1 : k < k0
    · simp [h1, lookupKV]
    · simp only [h1, if_false]
      by_cases h2 : k = k0
      · subst h2
        simp only [beq_self_eq_true, if_true, lookupKV]
        by_cases h : k = k' <;> simp [h]
      · have h2' : (k == k0) = false := by simpa using h2
        simp only [h2']
        by_cases h3 : k0 = k' <;> by_cases h4 : k = k' <;> simp_all [lookupKV]

/-! ## the order on tries: `t₁ ≤ t₂` iff `t₂` requests everything `t₁` requests -/

mutual
def AccessTrie.le : AccessTrie → AccessTrie → Prop
  | .mk c1 a1 i1 _, t2 => fieldsLe c1 t2.children ∧ rootsLe a1 t2.ancestors ∧ (i1 = true → t2.isAncestor = true)
def fieldsLe : Fields → Fields → Prop
  | [], _ => True
  | (k, t) :: rest, c2 => (∃ t2, lookupField c2 k = some t2 ∧ AccessTrie.le t t2) ∧ fieldsLe rest c2
def rootsLe : RootAccessTrie → RootAccessTrie → Prop
  | [], _ => True
  | (k, t) :: rest, c2 => (∃ t2, lookupRoot c2 k = some t2 ∧ AccessTrie.le t t2) ∧ rootsLe rest c2
end

theorem fieldsLe_lookup : ∀ (c1 c2 : Fields) (k : String) (t : AccessTrie),
    fieldsLe c1 c2 → lookupField c1 k = some t → ∃ t2, lookupField c2 k = some t2 ∧ AccessTrie.le t t2
  | [], _, _, _, _, h => by simp [lookupField] at h
  | (k0, t0) :: rest, c2, k, t, hle, h => by
    simp only [fieldsLe] at hle
    simp only [lookupField] at h
    by_cases e : (k0 == k) = true
    · simp only [e, if_true, Option.some.injEq] at h
      have e' : k0 = k := by simpa using e
      subst e'; subst h
      exact hle.1
    · simp only [e] at h
      exact fieldsLe_lookup rest c2 k t hle.2 h

theorem rootsLe_lookup : ∀ (c1 c2 : RootAccessTrie) (k : EntityRoot) (t : AccessTrie),
    rootsLe c1 c2 → lookupRoot c1 k = some t → ∃ t2, lookupRoot c2 k = some t2 ∧ AccessTrie.le t t2
  | [], _, _, _, _, h => by simp [lookupRoot] at h
  | (k0, t0) :: rest, c2, k, t, hle, h => by
    simp only [rootsLe] at hle
    simp only [lookupRoot] at h
    by_cases e : (k0 == k) = true
    · simp only [e, if_true, Option.some.injEq] at h
      have e' : k0 = k := by simpa using e
      subst e'; subst h
      exact hle.1
    · simp only [e] at h
      exact rootsLe_lookup rest c2 k t hle.2 h

/-! ## trimmed values: `Trim v' v` iff `v'` is `v` with record fields dropped (not inside sets) -/

mutual
def Trim : Value → Value → Prop
  | .record kvs', v => ∃ kvs, v = .record kvs ∧ TrimKVs kvs' kvs
  | .prim p, v => v = .prim p
  | .set s, v => v = .set s
  | .ext x, v => v = .ext x
def TrimKVs : List (String × Value) → List (String × Value) → Prop
  | [], _ => True
  | (k, v') :: rest, kvs => (∃ v, lookupKV kvs k = some v ∧ Trim v' v) ∧ TrimKVs rest kvs
end

theorem trim_nonrecord {v' v : Value} (h : Trim v' v) (hv : ∀ kvs, v ≠ .record kvs) : v' = v := by
  cases v' with
  | record kvs' => simp only [Trim] at h; obtain ⟨kvs, e, _⟩ := h; exact absurd e (hv kvs)
  | prim p => simp only [Trim] at h; exact h.symm
  | set s => simp only [Trim] at h; exact h.symm
  | ext x => simp only [Trim] at h; exact h.symm

theorem trimKVs_lookup : ∀ (kvs' kvs : List (String × Value)) (k : String) (w' : Value),
    TrimKVs kvs' kvs → lookupKV kvs' k = some w' → ∃ w, lookupKV kvs k = some w ∧ Trim w' w
  | [], _, _, _, _, h => by simp [lookupKV] at h
  | (k0, v0) :: rest, kvs, k, w', ht, h => by
    simp only [TrimKVs] at ht
    simp only [lookupKV] at h
    by_cases e : (k0 == k) = true
    · simp only [e, if_true, Option.some.injEq] at h
      have e' : k0 = k := by simpa using e
      subst e'; subst h
      exact ht.1
    · simp only [e] at h
      exact trimKVs_lookup rest kvs k w' ht.2 h

theorem trimKVs_mem : ∀ (kvs' kvs : List (String × Value)), TrimKVs kvs' kvs →
    ∀ k w', (k, w') ∈ kvs' → ∃ w, lookupKV kvs k = some w ∧ Trim w' w
  | [], _, _, _, _, h => by simp at h
  | (k0, v0) :: rest, kvs, ht, k, w', h => by
    simp only [TrimKVs] at ht
    simp only [List.mem_cons, Prod.mk.injEq] at h
    rcases h with ⟨e1, e2⟩ | h
    · subst e1; subst e2; exact ht.1
    · exact trimKVs_mem rest kvs ht.2 k w' h

/-- pointwise characterisation: enough to trim every binding that a lookup can see -/
theorem trimKVs_of_lookup : ∀ (kvs' kvs : List (String × Value)),
    (∀ k w', (k, w') ∈ kvs' → ∃ w, lookupKV kvs k = some w ∧ Trim w' w) → TrimKVs kvs' kvs
  | [], _, _ => by simp [TrimKVs]
  | (k0, v0) :: rest, kvs, h => by
    simp only [TrimKVs]
    refine ⟨h k0 v0 (by simp), trimKVs_of_lookup rest kvs (fun k w' hm => h k w' (by simp [hm]))⟩

theorem mem_insertKV {α} (k : String) (v : α) : ∀ (l : List (String × α)) (x : String × α),
    x ∈ insertKV k v l → x = (k, v) ∨ x ∈ l
  | [], x, h => by simp [insertKV] at h; exact Or.inl h
  | (k0, v0) :: rest, x, h => by
    unfold insertKV at h
    split at h
    · simp only [List.mem_cons] at h
      rcases h with h | h | h
      · exact Or.inl h
      · exact Or.inr (by simp [h])
      · exact Or.inr (by simp [h])
    · split at h
      · simp only [List.mem_cons] at h
        rcases h with h | h
        · exact Or.inl h
        · exact Or.inr (by simp [h])
      · simp only [List.mem_cons] at h
        rcases h with h | h
        · exact Or.inr (by simp [h])
        · rcases mem_insertKV k v rest x h with h | h
          · exact Or.inl h
          · exact Or.inr (by simp [h])

/-! ## `slice_val` / `slice_entity`: what is kept -/

/-- the attributes of a slice, by lookup: exactly the requested fields that exist, each sliced by its sub-trie -/
theorem lookup_sliceFields : ∀ (c : Fields) (kvs : List (String × Value)) (k : String),
    lookupKV (sliceFields c kvs) k =
      match lookupField c k with
      | some t => (lookupKV kvs k).map (sliceVal t)
      | none => none
  | [], kvs, k => by simp [sliceFields, lookupKV, lookupField]
  | (f, t) :: rest, kvs, k => by
    have ih := lookup_sliceFields rest kvs k
    unfold sliceFields
    simp only [lookupField]
    cases hv : lookupKV kvs f with
    | none =>
      simp only [ih]
      by_cases e : (f == k) = true
      · have e' : f = k := by simpa using e
        subst e'
        simp only [beq_self_eq_true, if_true, hv, Option.map_none]
        cases lookupField rest f <;> simp [hv]
      · simp only [e]
        simp
    | some v =>
      simp only [lookupKV_insertKV, ih]
      by_cases e : (f == k) = true
      · have e' : f = k := by simpa using e
        subst e'
        simp [hv]
      · simp only [e]
        simp

mutual
/-- a slice is a trimmed copy of the value -/
theorem sliceVal_trim : ∀ (t : AccessTrie) (v : Value), Trim (sliceVal t v) v
  | .mk c a i e, v => by
    cases v with
    | record kvs =>
      simp only [sliceVal, Trim]
      exact ⟨kvs, rfl, sliceFields_trim c kvs⟩
    | prim p => simp [sliceVal, Trim]
    | set s => simp [sliceVal, Trim]
    | ext x => simp [sliceVal, Trim]
theorem sliceFields_trim : ∀ (c : Fields) (kvs : List (String × Value)), TrimKVs (sliceFields c kvs) kvs
  | [], kvs => by simp [sliceFields, TrimKVs]
  | (f, t) :: rest, kvs => by
    unfold sliceFields
    cases hv : lookupKV kvs f with
    | none => exact sliceFields_trim rest kvs
    | some v =>
      simp only
      apply trimKVs_of_lookup
      intro k w' hm
      rcases mem_insertKV f (sliceVal t v) _ _ hm with h | h
      · cases h
        exact ⟨v, hv, sliceVal_trim t v⟩
      · -- a binding of the recursive result
        have ht := sliceFields_trim rest kvs
        exact trimKVs_mem _ _ ht k w' h
end

end Cedar.Manifest

namespace Cedar.Manifest
open Cedar

/-! ## monotonicity of slicing in the trie -/

theorem mem_sliceFields : ∀ (c : Fields) (kvs : List (String × Value)) (k : String) (w' : Value),
    (k, w') ∈ sliceFields c kvs → ∃ t v, (k, t) ∈ c ∧ lookupKV kvs k = some v ∧ w' = sliceVal t v
  | [], _, _, _, h => by simp [sliceFields] at h
  | (f, t) :: rest, kvs, k, w', h => by
    unfold sliceFields at h
    cases hv : lookupKV kvs f with
    | none =>
      simp only [hv] at h
      obtain ⟨t', v, h1, h2, h3⟩ := mem_sliceFields rest kvs k w' h
      exact ⟨t', v, by simp [h1], h2, h3⟩
    | some v =>
      simp only [hv] at h
      rcases mem_insertKV f (sliceVal t v) _ _ h with h | h
      · cases h
        exact ⟨t, v, by simp, hv, rfl⟩
      · obtain ⟨t', v', h1, h2, h3⟩ := mem_sliceFields rest kvs k w' h
        exact ⟨t', v', by simp [h1], h2, h3⟩

mutual
/-- a larger trie keeps more of a value -/
theorem sliceVal_mono : ∀ (t1 t2 : AccessTrie) (v : Value), AccessTrie.le t1 t2 → Trim (sliceVal t1 v) (sliceVal t2 v)
  | .mk c1 a1 i1 e1, .mk c2 a2 i2 e2, v, hle => by
    simp only [AccessTrie.le, AccessTrie.children] at hle
    cases v with
    | record kvs =>
      simp only [sliceVal, Trim]
      exact ⟨_, rfl, trimKVs_of_lookup _ _ (sliceFields_mono c1 c2 kvs hle.1)⟩
    | prim p => simp [sliceVal, Trim]
    | set s => simp [sliceVal, Trim]
    | ext x => simp [sliceVal, Trim]
theorem sliceFields_mono : ∀ (c1 c2 : Fields) (kvs : List (String × Value)), fieldsLe c1 c2 →
    ∀ k w', (k, w') ∈ sliceFields c1 kvs → ∃ w, lookupKV (sliceFields c2 kvs) k = some w ∧ Trim w' w
  | [], _, _, _, _, _, h => by simp [sliceFields] at h
  | (f, t) :: rest, c2, kvs, hle, k, w', h => by
    simp only [fieldsLe] at hle
    unfold sliceFields at h
    cases hv : lookupKV kvs f with
    | none =>
      simp only [hv] at h
      exact sliceFields_mono rest c2 kvs hle.2 k w' h
    | some v =>
      simp only [hv] at h
      rcases mem_insertKV f (sliceVal t v) _ _ h with h | h
      · cases h
        obtain ⟨t2, h1, h2⟩ := hle.1
        refine ⟨sliceVal t2 v, ?_, sliceVal_mono t t2 v h2⟩
        rw [lookup_sliceFields, h1, hv]; rfl
      · exact sliceFields_mono rest c2 kvs hle.2 k w' h
end

/-! ## requested paths survive slicing -/

/-- the sub-trie a path of fields leads to -/
def subtrie : AccessTrie → List String → Option AccessTrie
  | t, [] => some t
  | t, f :: fs =>
    match lookupField t.children f with
    | some t' => subtrie t' fs
    | none => none

/-- projecting record fields along a path -/
def project : Value → List String → Option Value
  | v, [] => some v
  | .record kvs, f :: fs =>
    match lookupKV kvs f with
    | some w => project w fs
    | none => none
  | _, _ :: _ => none

/-- every path the trie lists leads, in the slice, to the slice (by the sub-trie) of what it leads to in the value -/
theorem project_sliceVal : ∀ (fs : List String) (t t' : AccessTrie) (v : Value), subtrie t fs = some t' →
    project (sliceVal t v) fs = (project v fs).map (sliceVal t')
  | [], t, t', v, h => by
    simp only [subtrie, Option.some.injEq] at h
    subst h
    simp [project]
  | f :: fs, .mk c a i e, t', v, h => by
    simp only [subtrie, AccessTrie.children] at h
    cases hl : lookupField c f with
    | none => simp [hl] at h
    | some t1 =>
      simp only [hl] at h
      cases v with
      | record kvs =>
        simp only [sliceVal, project, lookup_sliceFields, hl]
        cases hk : lookupKV kvs f with
        | none => simp
        | some w => simpa using project_sliceVal fs t1 t' w h
      | prim p => simp [sliceVal, project]
      | set s => simp [sliceVal, project]
      | ext x => simp [sliceVal, project]

/-- a leaf value that is not a record is kept unchanged -/
theorem sliceVal_nonrecord (t : AccessTrie) (v : Value) (h : ∀ kvs, v ≠ .record kvs) : sliceVal t v = v := by
  obtain ⟨c, a, i, e⟩ := t
  cases v with
  | record kvs => exact absurd rfl (h kvs)
  | prim p => rfl
  | set s => rfl
  | ext x => rfl

end Cedar.Manifest
