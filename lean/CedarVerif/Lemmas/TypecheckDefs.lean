import CedarVerif.Cedar.Validation.Typecheck
import CedarVerif.Cedar.Validation.Conformance
import CedarVerif.Cedar.Eval
import CedarVerif.Lemmas.TypecheckBeq
/-
Vocabulary of the C03 soundness statement: permitted errors, when a capability holds, the soundness invariant,
well-formedness of a resolved schema, the proved fragment.  (Definitions only + their basic lemmas.)
-/
namespace Cedar

/-- the error classes a validated policy may still raise -/
def Permitted (e : ErrClass) : Prop := e = .entity ∨ e = .overflow ∨ e = .ext

/-- evaluation context -/
structure World where
  q : Request
  es : Entities
  sl : SlotEnv

abbrev World.eval (w : World) (e : Expr) : Result Value := evaluate w.q w.es w.sl e

/-- the guard expression a capability stands for: `e has a` / `e.hasTag(k)` -/
def Capability.guard : Capability → Option Expr
  | ⟨on, .lit (.string a), .attr⟩ => some (.hasAttr on a)
  | ⟨on, k, .tag⟩ => some (.binaryApp .hasTag on k)
  | _ => none

/-- `g` evaluates to `true`, or fails with a permitted error -/
def TrueOrPermitted (w : World) (g : Expr) : Prop :=
  w.eval g = .ok (.prim (.bool true)) ∨ ∃ err, w.eval g = .error err ∧ Permitted err

/-- A capability *holds* if its guard is true **or fails with a permitted error** (the second disjunct is forced by
the Rust rule for `||`, which keeps the capabilities of an operand typed `True` that may never be evaluated; it is
harmless because a capability is only used by an access on the same expression, which then fails the same way). -/
def CapHolds (w : World) (c : Capability) : Prop := ∀ g, c.guard = some g → TrueOrPermitted w g

def CapsHold (w : World) (cs : Capabilities) : Prop := ∀ c, c ∈ cs → CapHolds w c

/-- the soundness invariant for one expression: a permitted error, or a value of the static type whose truth
implies the output capabilities -/
def TySound (w : World) (e : Expr) (τ : CedarType) (c' : Capabilities) : Prop :=
  (∃ err, w.eval e = .error err ∧ Permitted err) ∨
  (∃ v, w.eval e = .ok v ∧ InstanceOfType v τ ∧ (v = .prim (.bool true) → CapsHold w c'))

-- every entity type inside the type is a single entity type and `Never` does not occur (true of every type a schema declares)
mutual
def CedarType.mono : CedarType → Bool
  | .set (some t) => CedarType.mono t
  | .record attrs _ => monoAttrs attrs
  | .entity [_] => true
  | .entity _ => false
  | .anyEntity => false
  | .never => false
  | _ => true
def monoAttrs : List (String × Bool × CedarType) → Bool
  | [] => true
  | (_, _, t) :: rest => CedarType.mono t && monoAttrs rest
end

/-- what the soundness proof uses of a resolved schema (all true of every schema Rust constructs) -/
structure SchemaWF (s : Schema) : Prop where
  et_mono : ∀ T et, s.entityType? T = some et → monoAttrs et.attrs = true ∧ ∀ t, et.tags = some t → t.mono = true
  act_wf : ∀ u a, s.action? u = some a → a.context.mono = true ∧ a.attrs = []
  no_action_etype : ∀ T, isActionType T = true → s.entityType? T = none

/-- `env` is the request environment of `q` in `s` -/
def EnvMatches (s : Schema) (env : RequestEnv) (q : Request) : Prop :=
  env.principal = q.principal.ty ∧ env.action = q.action ∧ env.resource = q.resource.ty ∧
  ∃ a, s.action? q.action = some a ∧ env.context = a.context

/-- every entity of the store conforms to the schema -/
def StoreConforms (s : Schema) (es : Entities) : Prop :=
  ∀ uid d, es.find? uid = some d → ConformsEntity s uid d

/-- types that are never/bool/long/string/extension -/
def CedarType.flat : CedarType → Bool
  | .never | .bool _ | .long | .string | .ext _ => true
  | _ => false

/-- expressions whose static type is flat whatever the environment -/
def FlatExpr : Expr → Bool
  | .lit (.bool _) | .lit (.int _) | .lit (.string _) => true
  | .and _ _ | .or _ _ | .hasAttr _ _ | .like _ _ | .is _ _ => true
  | .unaryApp op _ => op == .not || op == .neg
  | .binaryApp op _ _ => op == .add || op == .sub || op == .mul || op == .eq
  | _ => false

/-- THE PROVED FRAGMENT of `typeOf_sound`: literals (incl. entity uids), the four variables, `&&`, `||`, `!`,
`if` (with at least one branch of a syntactically flat kind, so that the least upper bound is one of the two branch
types or `Bool`), unary `-`, `+ - *`, `==`, `has` and `.` on records and
entities (required / optional attributes, capabilities, absent entities), `like`, `is`.
Outside: `< <=`, `in`, `isEmpty`, `contains*`, tags, set / record literals, extension calls, slots, unknowns. -/
def InFragment : Expr → Bool
  | .lit _ => true
  | .var _ => true
  | .ite c t e => InFragment c && InFragment t && InFragment e && (FlatExpr t || FlatExpr e)
  | .and a b => InFragment a && InFragment b
  | .or a b => InFragment a && InFragment b
  | .unaryApp op a => (op == .not || op == .neg) && InFragment a
  | .binaryApp op a b =>
    (op == .add || op == .sub || op == .mul || op == .eq) && InFragment a && InFragment b
  | .getAttr e _ => InFragment e
  | .hasAttr e _ => InFragment e
  | .like e _ => InFragment e
  | .is e _ => InFragment e
  | _ => false

/-! ### capabilities -/

theorem caps_mem_of_has {cs : Capabilities} {c : Capability} (h : cs.has c = true) : c ∈ cs := by
  unfold Capabilities.has at h
  rw [List.any_eq_true] at h
  obtain ⟨c', hm, hb⟩ := h
  rw [← Capability.beq_eq hb]; exact hm

theorem capsHold_nil (w : World) : CapsHold w [] := by
  intro c h; cases h

theorem capsHold_union {w : World} {a b : Capabilities} : CapsHold w (a.union b) ↔ CapsHold w a ∧ CapsHold w b := by
  unfold CapsHold Capabilities.union
  constructor
  · intro h
    exact ⟨fun c hc => h c (List.mem_append_left _ hc), fun c hc => h c (List.mem_append_right _ hc)⟩
  · rintro ⟨h1, h2⟩ c hc
    rcases List.mem_append.mp hc with hc | hc
    · exact h1 c hc
    · exact h2 c hc

theorem capsHold_inter_left {w : World} {a b : Capabilities} (h : CapsHold w a) : CapsHold w (a.inter b) := by
  intro c hc
  exact h c (List.mem_filter.mp hc).1

theorem capsHold_inter_right {w : World} {a b : Capabilities} (h : CapsHold w b) : CapsHold w (a.inter b) := by
  intro c hc
  exact h c (caps_mem_of_has (List.mem_filter.mp hc).2)

theorem capsHold_singleton {w : World} {c : Capability} (h : CapHolds w c) : CapsHold w [c] := by
  intro c' hc
  rw [List.mem_singleton] at hc
  rw [hc]; exact h

theorem capsHold_has {w : World} {cs : Capabilities} {c : Capability} (h : CapsHold w cs) (hc : cs.has c = true) :
    CapHolds w c := h c (caps_mem_of_has hc)

end Cedar
