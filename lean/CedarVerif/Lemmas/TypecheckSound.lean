import CedarVerif.Lemmas.TypecheckDefs
/-
Soundness of the typechecker model on the proved fragment (`InFragment`): helper lemmas and the induction.
-/
namespace Cedar

/-! ### booleans -/

def boolInst (x : Bool) : CedarType → Bool
  | .bool .anyBool => true
  | .bool .tt => x
  | .bool .ff => !x
  | _ => false

theorem inst_bool_iff {x : Bool} {τ : CedarType} : InstanceOfType (.prim (.bool x)) τ ↔ boolInst x τ = true := by
  constructor
  · intro h; cases h <;> simp [boolInst]
  · intro h
    cases τ with
    | bool b => cases b <;> cases x <;> simp [boolInst] at h ⊢ <;> constructor
    | _ => simp [boolInst] at h

def Boolish (τ : CedarType) : Prop := τ = .never ∨ ∃ bt, τ = .bool bt

theorem inst_never {v : Value} (h : InstanceOfType v .never) : False := by cases h

theorem inst_boolish {v : Value} {τ : CedarType} (h : InstanceOfType v τ) (hτ : Boolish τ) : ∃ b, v = .prim (.bool b) := by
  rcases hτ with rfl | ⟨bt, rfl⟩
  · exact (inst_never h).elim
  · cases h <;> exact ⟨_, rfl⟩

theorem inst_long {v : Value} {τ : CedarType} (h : InstanceOfType v τ) (hτ : τ = .never ∨ τ = .long) : ∃ i, v = .prim (.int i) := by
  rcases hτ with rfl | rfl
  · exact (inst_never h).elim
  · cases h; exact ⟨_, rfl⟩

theorem inst_string {v : Value} {τ : CedarType} (h : InstanceOfType v τ) (hτ : τ = .never ∨ τ = .string) : ∃ i, v = .prim (.string i) := by
  rcases hτ with rfl | rfl
  · exact (inst_never h).elim
  · cases h; exact ⟨_, rfl⟩

/-! ### `expect_type` -/

theorem expectOneOf_ok {r : TcResult} {expected : List CedarType} {τ : CedarType} {c : Capabilities}
    (h : expectOneOf r expected = .ok (τ, c)) :
    r = .ok (τ, c) ∧ expected.any (fun t => isSubtype .permissive τ t) = true := by
  unfold expectOneOf at h
  cases r with
  | error e => simp at h
  | ok p =>
    obtain ⟨τ', c''⟩ := p
    simp only at h
    split at h
    · rename_i hs
      simp only [Except.ok.injEq, Prod.mk.injEq] at h
      obtain ⟨rfl, rfl⟩ := h
      exact ⟨rfl, hs⟩
    · cases h

theorem subtype_bool {τ : CedarType} (h : [boolT].any (fun t => isSubtype .permissive τ t) = true) : Boolish τ := by
  simp only [List.any_cons, List.any_nil, Bool.or_false, boolT] at h
  cases τ <;> simp [isSubtype] at h
  · exact Or.inl rfl
  · exact Or.inr ⟨_, rfl⟩

theorem subtype_long {τ : CedarType} (h : [CedarType.long].any (fun t => isSubtype .permissive τ t) = true) : τ = .never ∨ τ = .long := by
  simp only [List.any_cons, List.any_nil, Bool.or_false] at h
  cases τ <;> simp [isSubtype] at h
  · exact Or.inl rfl
  · exact Or.inr rfl

theorem subtype_string {τ : CedarType} (h : [CedarType.string].any (fun t => isSubtype .permissive τ t) = true) : τ = .never ∨ τ = .string := by
  simp only [List.any_cons, List.any_nil, Bool.or_false] at h
  cases τ <;> simp [isSubtype] at h
  · exact Or.inl rfl
  · exact Or.inr rfl

theorem subtype_anySet {τ : CedarType} (h : [CedarType.set none].any (fun t => isSubtype .permissive τ t) = true) :
    τ = .never ∨ ∃ e, τ = .set e := by
  simp only [List.any_cons, List.any_nil, Bool.or_false] at h
  cases τ <;> simp [isSubtype] at h
  · exact Or.inl rfl
  · exact Or.inr ⟨_, rfl⟩

theorem subtype_anyEntity {τ : CedarType} (h : [CedarType.anyEntity].any (fun t => isSubtype .permissive τ t) = true) :
    τ = .never ∨ τ = .anyEntity ∨ ∃ l, τ = .entity l := by
  simp only [List.any_cons, List.any_nil, Bool.or_false] at h
  cases τ <;> simp [isSubtype] at h
  · exact Or.inl rfl
  · exact Or.inr (Or.inr ⟨_, rfl⟩)
  · exact Or.inr (Or.inl rfl)

theorem subtype_entityOrRecord {τ : CedarType} (h : [CedarType.anyEntity, anyRecord].any (fun t => isSubtype .permissive τ t) = true) :
    τ = .never ∨ τ = .anyEntity ∨ (∃ l, τ = .entity l) ∨ ∃ a o, τ = .record a o := by
  simp only [List.any_cons, List.any_nil, Bool.or_false, anyRecord] at h
  cases τ <;> simp [isSubtype] at h
  · exact Or.inl rfl
  · exact Or.inr (Or.inr (Or.inr ⟨_, _, rfl⟩))
  · exact Or.inr (Or.inr (Or.inl ⟨_, rfl⟩))
  · exact Or.inr (Or.inl rfl)

/-! ### soundness of the boolean connectives (rule tables) -/

theorem TySound.bool_cases {w : World} {e : Expr} {τ : CedarType} {c : Capabilities} (h : TySound w e τ c) (hτ : Boolish τ) :
    (∃ err, w.eval e = .error err ∧ Permitted err) ∨
    ∃ b, w.eval e = .ok (.prim (.bool b)) ∧ boolInst b τ = true ∧ (b = true → CapsHold w c) := by
  rcases h with he | ⟨v, hv, hi, hc⟩
  · exact Or.inl he
  · obtain ⟨b, rfl⟩ := inst_boolish hi hτ
    exact Or.inr ⟨b, hv, inst_bool_iff.mp hi, fun hb => hc (by rw [hb])⟩

theorem TySound.of_err {w : World} {e : Expr} {τ : CedarType} {c : Capabilities} {err : ErrClass}
    (h : w.eval e = .error err) (hp : Permitted err) : TySound w e τ c := Or.inl ⟨err, h, hp⟩

theorem TySound.of_bool {w : World} {e : Expr} {τ : CedarType} {c : Capabilities} {b : Bool}
    (h : w.eval e = .ok (.prim (.bool b))) (hi : boolInst b τ = true) (hc : b = true → CapsHold w c) : TySound w e τ c :=
  Or.inr ⟨_, h, inst_bool_iff.mpr hi, fun hv => hc (by simpa using hv)⟩

theorem and_sound {w : World} {a b : Expr} {τa τb τ : CedarType} {ca cb c' : Capabilities}
    (ha : TySound w a τa ca) (hτa : Boolish τa)
    (hb : CapsHold w ca → TySound w b τb cb) (hτb : Boolish τb)
    (hτ : ∀ x y : Bool, boolInst x τa = true → (x = true → boolInst y τb = true) → boolInst (x && y) τ = true)
    (hcaps : CapsHold w ca → CapsHold w cb → CapsHold w c') : TySound w (.and a b) τ c' := by
  rcases ha.bool_cases hτa with ⟨err, he, hp⟩ | ⟨x, hx, hix, hcx⟩
  · exact TySound.of_err (by simp [evaluate, he]) hp
  · cases x with
    | false =>
      refine TySound.of_bool (b := false) (by simp [evaluate, hx, Value.asBool]) ?_ (fun h => by cases h)
      simpa using hτ false false hix (fun h => by cases h)
    | true =>
      have hca := hcx rfl
      rcases (hb hca).bool_cases hτb with ⟨err, he, hp⟩ | ⟨y, hy, hiy, hcy⟩
      · exact TySound.of_err (by simp [evaluate, hx, he, Value.asBool]) hp
      · refine TySound.of_bool (b := y) (by simp [evaluate, hx, hy, Value.asBool]) ?_ (fun h => hcaps hca (hcy h))
        simpa using hτ true y hix (fun _ => hiy)

theorem or_sound {w : World} {a b : Expr} {τa τb τ : CedarType} {ca cb c' : Capabilities}
    (ha : TySound w a τa ca) (hτa : Boolish τa)
    (hb : TySound w b τb cb) (hτb : Boolish τb)
    (hτ : ∀ x y : Bool, boolInst x τa = true → (x = false → boolInst y τb = true) → boolInst (x || y) τ = true)
    (hcL : boolInst true τa = true → CapsHold w ca → CapsHold w c')
    (hcR : boolInst true τb = true → CapsHold w cb → CapsHold w c') : TySound w (.or a b) τ c' := by
  rcases ha.bool_cases hτa with ⟨err, he, hp⟩ | ⟨x, hx, hix, hcx⟩
  · exact TySound.of_err (by simp [evaluate, he]) hp
  · cases x with
    | true =>
      refine TySound.of_bool (b := true) (by simp [evaluate, hx, Value.asBool]) ?_ (fun _ => hcL hix (hcx rfl))
      simpa using hτ true false hix (fun h => by cases h)
    | false =>
      rcases hb.bool_cases hτb with ⟨err, he, hp⟩ | ⟨y, hy, hiy, hcy⟩
      · exact TySound.of_err (by simp [evaluate, hx, he, Value.asBool]) hp
      · refine TySound.of_bool (b := y) (by simp [evaluate, hx, hy, Value.asBool]) ?_ (fun h => ?_)
        · simpa using hτ false y hix (fun _ => hiy)
        · subst h; exact hcR hiy (hcy rfl)

theorem andType_inst {τa τb : CedarType} (ha : Boolish τa) (hb : Boolish τb) (x y : Bool)
    (hx : boolInst x τa = true) (hy : x = true → boolInst y τb = true) : boolInst (x && y) (andType τa τb) = true := by
  rcases ha with rfl | ⟨ba, rfl⟩
  · simp [boolInst] at hx
  · rcases hb with rfl | ⟨bb, rfl⟩
    · cases x
      · cases ba <;> simp_all [boolInst, andType, boolT]
      · simp [boolInst] at hy
    · cases ba <;> cases bb <;> cases x <;> cases y <;> simp_all [boolInst, andType, boolT]

theorem andType_tt {τa τb : CedarType} (h : andType τa τb = .bool .tt) (ha : Boolish τa) (hb : Boolish τb) :
    τa = .bool .tt ∧ τb = .bool .tt := by
  rcases ha with rfl | ⟨ba, rfl⟩ <;> rcases hb with rfl | ⟨bb, rfl⟩
  · simp [andType, boolT] at h
  · cases bb <;> simp [andType, boolT] at h
  · cases ba <;> simp [andType, boolT] at h
  · cases ba <;> cases bb <;> simp [andType, boolT] at h ⊢

theorem andCaps_hold {w : World} {τa τb : CedarType} {ca cb : Capabilities} (h1 : CapsHold w ca) (h2 : CapsHold w cb) :
    CapsHold w (andCaps τa τb ca cb) := by
  unfold andCaps
  split
  · exact capsHold_nil w
  · exact capsHold_union.mpr ⟨h1, h2⟩
  · exact capsHold_union.mpr ⟨h2, h2⟩
  · exact capsHold_union.mpr ⟨h1, h2⟩

theorem orType_inst {τa τb : CedarType} (ha : Boolish τa) (hb : Boolish τb) (x y : Bool)
    (hx : boolInst x τa = true) (hy : x = false → boolInst y τb = true) : boolInst (x || y) (orType τa τb) = true := by
  rcases ha with rfl | ⟨ba, rfl⟩
  · simp [boolInst] at hx
  · rcases hb with rfl | ⟨bb, rfl⟩
    · cases x
      · simp [boolInst] at hy
      · cases ba <;> simp_all [boolInst, orType, boolT]
    · cases ba <;> cases bb <;> cases x <;> cases y <;> simp_all [boolInst, orType, boolT]

theorem orType_tt {τa τb : CedarType} (h : orType τa τb = .bool .tt) (ha : Boolish τa) (hb : Boolish τb) :
    τb = .bool .tt ∨ (τb = .bool .ff ∧ τa = .bool .tt) := by
  rcases ha with rfl | ⟨ba, rfl⟩ <;> rcases hb with rfl | ⟨bb, rfl⟩
  · simp [orType, boolT] at h
  · cases bb <;> simp [orType, boolT] at h ⊢
  · cases ba <;> simp [orType, boolT] at h
  · cases ba <;> cases bb <;> simp [orType, boolT] at h ⊢

theorem andType_boolish {τa τb : CedarType} (ha : Boolish τa) (hb : Boolish τb) : Boolish (andType τa τb) := by
  unfold andType
  split
  · exact Or.inr ⟨_, rfl⟩
  · exact ha
  · exact hb
  · exact Or.inr ⟨_, rfl⟩

theorem orType_boolish {τa τb : CedarType} (ha : Boolish τa) (hb : Boolish τb) : Boolish (orType τa τb) := by
  unfold orType
  split
  · exact Or.inr ⟨_, rfl⟩
  · exact ha
  · exact hb
  · exact Or.inr ⟨_, rfl⟩

/-! ### least upper bounds with a flat side -/

theorem subtype_flat_sound {m : ValidationMode} {a b : CedarType} {v : Value} (hs : isSubtype m a b = true)
    (hf : a.flat = true ∨ b.flat = true) (hi : InstanceOfType v a) : InstanceOfType v b := by
  cases a <;> cases b <;> simp [isSubtype, CedarType.flat] at hs hf <;> try (exact (inst_never hi).elim)
  all_goals first
    | exact hi
    | (subst hs; exact hi)
    | (rcases hs with rfl | rfl <;> first | exact hi | (cases hi <;> constructor))

theorem subtype_tt {m : ValidationMode} {a : CedarType} (h : isSubtype m a (.bool .tt) = true) : a = .bool .tt ∨ a = .never := by
  cases a <;> simp [isSubtype] at h
  · exact Or.inr rfl
  · exact Or.inl (by rw [h])

theorem lub_flat {m : ValidationMode} {a b c : CedarType} (h : lub m a b = some c) (hf : a.flat = true ∨ b.flat = true) :
    (∀ v, InstanceOfType v a → InstanceOfType v c) ∧ (∀ v, InstanceOfType v b → InstanceOfType v c) ∧
    (c = a ∨ c = b ∨ c = .bool .anyBool) ∧
    (c = .bool .tt → (a = .bool .tt ∨ a = .never) ∧ (b = .bool .tt ∨ b = .never)) := by
  rw [lub.eq_def] at h
  simp only at h
  split at h
  · rename_i hs
    cases h
    exact ⟨fun v hi => subtype_flat_sound hs hf hi, fun v hi => hi, Or.inr (Or.inl rfl), fun hc => ⟨subtype_tt (hc ▸ hs), Or.inl hc⟩⟩
  · split at h
    · rename_i hs
      cases h
      exact ⟨fun v hi => hi, fun v hi => subtype_flat_sound hs (by rcases hf with h | h; exact Or.inr h; exact Or.inl h) hi, Or.inl rfl, fun hc => ⟨Or.inl hc, subtype_tt (hc ▸ hs)⟩⟩
    · have key : ∃ x y, a = .bool x ∧ b = .bool y ∧ c = .bool .anyBool := by
        rcases hf with hf | hf
        · cases a <;> simp [CedarType.flat] at hf <;> cases b <;> simp at h <;> exact ⟨_, _, rfl, rfl, h.symm⟩
        · cases b <;> simp [CedarType.flat] at hf <;> cases a <;> simp at h <;> exact ⟨_, _, rfl, rfl, h.symm⟩
      obtain ⟨x, y, rfl, rfl, rfl⟩ := key
      refine ⟨fun v hi => ?_, fun v hi => ?_, Or.inr (Or.inr rfl), fun hc => by cases hc⟩ <;> (cases hi <;> constructor)

/-! ### records and entities -/

theorem lookupKV_mem {α : Type} {kvs : List (String × α)} {k : String} {v : α} (h : lookupKV kvs k = some v) : (k, v) ∈ kvs := by
  induction kvs with
  | nil => simp [lookupKV] at h
  | cons kv rest ih =>
    obtain ⟨k', v'⟩ := kv
    simp only [lookupKV] at h
    split at h
    · rename_i hk
      simp only [beq_iff_eq] at hk
      cases h; subst hk; exact List.mem_cons_self
    · exact List.mem_cons_of_mem _ (ih h)

theorem mem_lookupKV {α : Type} {kvs : List (String × α)} {k : String} {v : α} (h : (k, v) ∈ kvs) : (lookupKV kvs k).isSome = true := by
  induction kvs with
  | nil => cases h
  | cons kv rest ih =>
    obtain ⟨k', v'⟩ := kv
    simp only [lookupKV]
    split
    · rfl
    · rename_i hk
      rcases List.mem_cons.mp h with h | h
      · simp only [Prod.mk.injEq] at h; simp [h.1] at hk
      · exact ih h

theorem find_mem {attrs : Attrs} {k : String} {r : Bool} {t : CedarType} (h : Attrs.find? attrs k = some (r, t)) : (k, r, t) ∈ attrs := by
  induction attrs with
  | nil => simp [Attrs.find?] at h
  | cons a rest ih =>
    obtain ⟨k', qt⟩ := a
    simp only [Attrs.find?] at h
    split at h
    · rename_i hk
      simp only [beq_iff_eq] at hk
      cases h; subst hk; exact List.mem_cons_self
    · exact List.mem_cons_of_mem _ (ih h)

theorem mono_find {attrs : Attrs} {k : String} {r : Bool} {t : CedarType} (hm : monoAttrs attrs = true)
    (h : Attrs.find? attrs k = some (r, t)) : t.mono = true := by
  induction attrs with
  | nil => simp [Attrs.find?] at h
  | cons a rest ih =>
    obtain ⟨k', r', t'⟩ := a
    simp only [monoAttrs, Bool.and_eq_true] at hm
    simp only [Attrs.find?] at h
    split at h
    · cases h; exact hm.1
    · exact ih hm.2 h

theorem record_get {kvs : List (String × Value)} {attrs : Attrs} {o : Bool} {a : String} {req : Bool} {τa : CedarType}
    (hi : InstanceOfType (.record kvs) (.record attrs o)) (hf : Attrs.find? attrs a = some (req, τa)) :
    (∀ v, lookupKV kvs a = some v → InstanceOfType v τa) ∧ (req = true → (lookupKV kvs a).isSome = true) := by
  cases hi with
  | record _ _ _ h1 h2 h3 =>
    refine ⟨fun v hv => h1 a v (lookupKV_mem hv) req τa hf, fun hr => ?_⟩
    subst hr
    obtain ⟨v, hv⟩ := h3 a τa (find_mem hf)
    exact mem_lookupKV hv

theorem record_no_attr {kvs : List (String × Value)} {attrs : Attrs} {a : String}
    (hi : InstanceOfType (.record kvs) (.record attrs false)) (hf : Attrs.find? attrs a = none) : lookupKV kvs a = none := by
  cases hi with
  | record _ _ _ h1 h2 h3 =>
    cases hl : lookupKV kvs a with
    | none => rfl
    | some v => have := h2 a v (lookupKV_mem hl) hf; cases this

theorem lubAttrs_single (s : Schema) (T : EntityType) :
    lubAttrs s [T] = (match s.entityType? T with | some et => et.attrs | none => []) := by
  cases h : s.entityType? T <;> simp [lubAttrs, h]

theorem entity_get {s : Schema} {u : EntityUID} {d : EntityData} {a : String} {req : Bool} {τa : CedarType}
    (hWF : SchemaWF s) (hc : ConformsEntity s u d) (hf : Attrs.find? (lubAttrs s [u.ty]) a = some (req, τa)) :
    (∀ v, lookupKV d.attrs a = some v → InstanceOfType v τa) ∧ (req = true → (lookupKV d.attrs a).isSome = true) ∧
    τa.mono = true := by
  rw [lubAttrs_single] at hf
  cases het : s.entityType? u.ty with
  | none => rw [het] at hf; simp [Attrs.find?] at hf
  | some et =>
    rw [het] at hf
    simp only at hf
    have hna : ¬ isActionType u.ty = true := by
      intro h; rw [hWF.no_action_etype _ h] at het; cases het
    unfold ConformsEntity at hc
    rw [if_neg hna] at hc
    obtain ⟨et', het', _, hreq, htyped, _⟩ := hc
    rw [het] at het'; cases het'
    refine ⟨fun v hv => htyped a v (lookupKV_mem hv) req τa hf, fun hr => ?_, mono_find (hWF.et_mono _ _ het).1 hf⟩
    subst hr
    obtain ⟨v, hv⟩ := hreq a τa (find_mem hf)
    exact mem_lookupKV hv

theorem entity_no_attr {s : Schema} {u : EntityUID} {d : EntityData} {a : String}
    (hWF : SchemaWF s) (hc : ConformsEntity s u d) (hf : Attrs.find? (lubAttrs s [u.ty]) a = none)
    (hno : mayHaveAttr s (.entity [u.ty]) a = false) : lookupKV d.attrs a = none := by
  unfold ConformsEntity at hc
  by_cases hact : isActionType u.ty = true
  · rw [if_pos hact] at hc
    obtain ⟨act, hact', hbeq, _⟩ := hc
    rw [(hWF.act_wf _ _ hact').2] at hbeq
    cases hd : d.attrs with
    | nil => simp [lookupKV]
    | cons kv rest => rw [hd] at hbeq; simp [Value.beqKVs] at hbeq
  · rw [if_neg hact] at hc
    obtain ⟨et, het, _, _, _, hopen, _⟩ := hc
    rw [lubAttrs_single, het] at hf
    simp only at hf
    cases hl : lookupKV d.attrs a with
    | none => rfl
    | some v =>
      have ho := hopen a v (lookupKV_mem hl) hf
      simp [mayHaveAttr, lubHasOpenAttrs, het, ho, hact] at hno

/-! ### operators -/

theorem both_ok {ra rb : TcResult} {k : CedarType → Capabilities → CedarType → Capabilities → TcResult} {x : CedarType × Capabilities}
    (h : both ra rb k = .ok x) : ∃ τa ca τb cb, ra = .ok (τa, ca) ∧ rb = .ok (τb, cb) ∧ k τa ca τb cb = .ok x := by
  unfold both at h
  split at h
  · exact ⟨_, _, _, _, rfl, rfl, h⟩
  all_goals cases h

/-- the three-part invariant -/
def Good (w : World) (e : Expr) (τ : CedarType) (c' : Capabilities) : Prop :=
  TySound w e τ c' ∧ (τ = .bool .tt → CapsHold w c')

theorem sound_tt {w : World} {g : Expr} {c : Capabilities} (h : TySound w g (.bool .tt) c) : TrueOrPermitted w g := by
  rcases h with he | ⟨v, hv, hi, _⟩
  · exact Or.inr he
  · cases hi; exact Or.inl hv

theorem Good.value {w : World} {e : Expr} {v : Value} {τ : CedarType} (hv : w.eval e = .ok v) (hi : InstanceOfType v τ) :
    Good w e τ [] :=
  ⟨Or.inr ⟨v, hv, hi, fun _ => capsHold_nil w⟩, fun _ => capsHold_nil w⟩

theorem Good.err {w : World} {e : Expr} {err : ErrClass} {τ : CedarType} (he : w.eval e = .error err) (hp : Permitted err) :
    Good w e τ [] :=
  ⟨Or.inl ⟨err, he, hp⟩, fun _ => capsHold_nil w⟩

theorem euidLiteralType_some {s : Schema} {u : EntityUID} {τ : CedarType} (h : euidLiteralType s u = some τ) : τ = .entity [u.ty] := by
  unfold euidLiteralType at h
  split at h
  · cases ha : s.action? u <;> simp [ha] at h; exact h.symm
  · cases ha : s.entityType? u.ty <;> simp [ha] at h; exact h.symm

theorem not_sound {w : World} {a : Expr} {τa τ : CedarType} {ca : Capabilities} (ha : TySound w a τa ca) (hb : Boolish τa)
    (hτ : ∀ x : Bool, boolInst x τa = true → boolInst (!x) τ = true) : TySound w (.unaryApp .not a) τ [] := by
  rcases ha.bool_cases hb with ⟨err, he, hp⟩ | ⟨x, hx, hix, _⟩
  · exact TySound.of_err (by simp [evaluate, he]) hp
  · exact TySound.of_bool (b := !x) (by simp [evaluate, hx, applyUnary, Value.asBool, bind, Except.bind]) (hτ x hix) (fun _ => capsHold_nil w)

theorem TySound.long_cases {w : World} {e : Expr} {τ : CedarType} {c : Capabilities} (h : TySound w e τ c) (hτ : τ = .never ∨ τ = .long) :
    (∃ err, w.eval e = .error err ∧ Permitted err) ∨ ∃ i, w.eval e = .ok (.prim (.int i)) := by
  rcases h with he | ⟨v, hv, hi, _⟩
  · exact Or.inl he
  · obtain ⟨i, rfl⟩ := inst_long hi hτ
    exact Or.inr ⟨i, hv⟩

theorem intOrErr_sound (i : Int) : (intOrErr i = .error .overflow) ∨ intOrErr i = .ok (.prim (.int i)) := by
  unfold intOrErr; split <;> simp

theorem arith_sound {w : World} {op : BinaryOp} {a b : Expr} {τa τb : CedarType} {ca cb : Capabilities}
    (hop : op = .add ∨ op = .sub ∨ op = .mul)
    (ha : TySound w a τa ca) (hτa : τa = .never ∨ τa = .long) (hb : TySound w b τb cb) (hτb : τb = .never ∨ τb = .long) :
    Good w (.binaryApp op a b) .long [] := by
  rcases ha.long_cases hτa with ⟨err, he, hp⟩ | ⟨i, hi⟩
  · exact Good.err (by simp [evaluate, he]) hp
  · rcases hb.long_cases hτb with ⟨err, he, hp⟩ | ⟨j, hj⟩
    · exact Good.err (by simp [evaluate, hi, he]) hp
    · rcases hop with rfl | rfl | rfl
      · rcases intOrErr_sound (i + j) with h | h
        · exact Good.err (by simp [evaluate, hi, hj, applyBinary, Value.asInt, h, bind, Except.bind]) (Or.inr (Or.inl rfl))
        · exact Good.value (v := _) (by simp only [World.eval, evaluate, hi, hj, applyBinary, Value.asInt, bind, Except.bind]; exact h) (InstanceOfType.long _)
      · rcases intOrErr_sound (i - j) with h | h
        · exact Good.err (by simp [evaluate, hi, hj, applyBinary, Value.asInt, h, bind, Except.bind]) (Or.inr (Or.inl rfl))
        · exact Good.value (v := _) (by simp only [World.eval, evaluate, hi, hj, applyBinary, Value.asInt, bind, Except.bind]; exact h) (InstanceOfType.long _)
      · rcases intOrErr_sound (i * j) with h | h
        · exact Good.err (by simp [evaluate, hi, hj, applyBinary, Value.asInt, h, bind, Except.bind]) (Or.inr (Or.inl rfl))
        · exact Good.value (v := _) (by simp only [World.eval, evaluate, hi, hj, applyBinary, Value.asInt, bind, Except.bind]; exact h) (InstanceOfType.long _)

theorem neg_sound {w : World} {a : Expr} {τa : CedarType} {ca : Capabilities}
    (ha : TySound w a τa ca) (hτa : τa = .never ∨ τa = .long) : Good w (.unaryApp .neg a) .long [] := by
  rcases ha.long_cases hτa with ⟨err, he, hp⟩ | ⟨i, hi⟩
  · exact Good.err (by simp [evaluate, he]) hp
  · rcases intOrErr_sound (-i) with h | h
    · exact Good.err (by simp [evaluate, hi, applyUnary, Value.asInt, h, bind, Except.bind]) (Or.inr (Or.inl rfl))
    · exact Good.value (v := _) (by simp only [World.eval, evaluate, hi, applyUnary, Value.asInt, bind, Except.bind]; exact h) (InstanceOfType.long _)

/-! ### attribute access -/

theorem mono_entity {l : List EntityType} (h : (CedarType.entity l).mono = true) : ∃ T, l = [T] := by
  cases l with
  | nil => simp [CedarType.mono] at h
  | cons T r => cases r with
    | nil => exact ⟨T, rfl⟩
    | cons _ _ => simp [CedarType.mono] at h

theorem lookupAttr_mono {s : Schema} {τe : CedarType} {a : String} {req : Bool} {τa : CedarType} (hWF : SchemaWF s)
    (hm : τe.mono = true) (h : lookupAttr s τe a = some (req, τa)) : τa.mono = true := by
  cases τe <;> simp only [lookupAttr] at h <;> try (cases h)
  · exact mono_find (by simpa [CedarType.mono] using hm) h
  · obtain ⟨T, rfl⟩ := mono_entity hm
    rw [lubAttrs_single] at h
    cases het : s.entityType? T with
    | none => rw [het] at h; simp [Attrs.find?] at h
    | some et => rw [het] at h; exact mono_find (hWF.et_mono _ _ het).1 h

theorem inst_entity_single {v : Value} {T : EntityType} (h : InstanceOfType v (.entity [T])) : ∃ u : EntityUID, v = .prim (.entityUID u) ∧ u.ty = T := by
  cases h with
  | entity u _ hm => exact ⟨u, rfl, by simpa using hm⟩

theorem inst_record {v : Value} {attrs : Attrs} {o : Bool} (h : InstanceOfType v (.record attrs o)) : ∃ kvs, v = .record kvs := by
  cases h; exact ⟨_, rfl⟩

/-- what `e has a` evaluates to, given a well-typed operand -/
theorem hasAttr_eval {s : Schema} {w : World} {e : Expr} {a : String} {v : Value} {τe : CedarType}
    (hv : w.eval e = .ok v) (hi : InstanceOfType v τe) (hm : τe.mono = true)
    (hshape : (∃ l, τe = .entity l) ∨ ∃ attrs o, τe = .record attrs o) :
    ∃ p : Bool, w.eval (.hasAttr e a) = .ok (.prim (.bool p)) ∧
      ((∃ kvs, v = .record kvs ∧ p = (lookupKV kvs a).isSome) ∨
       (∃ u, v = .prim (.entityUID u) ∧ w.es.find? u = none ∧ p = false) ∨
       (∃ u d, v = .prim (.entityUID u) ∧ w.es.find? u = some d ∧ p = (lookupKV d.attrs a).isSome)) := by
  rcases hshape with ⟨l, rfl⟩ | ⟨attrs, o, rfl⟩
  · obtain ⟨T, rfl⟩ := mono_entity hm
    obtain ⟨u, rfl, _⟩ := inst_entity_single hi
    cases hf : w.es.find? u with
    | none => exact ⟨false, by simp [evaluate, hv, hf], Or.inr (Or.inl ⟨u, rfl, hf, rfl⟩)⟩
    | some d => exact ⟨_, by simp [evaluate, hv, hf], Or.inr (Or.inr ⟨u, d, rfl, hf, rfl⟩)⟩
  · obtain ⟨kvs, rfl⟩ := inst_record hi
    exact ⟨_, by simp [evaluate, hv], Or.inl ⟨kvs, rfl, rfl⟩⟩

theorem hasAttr_err {w : World} {e : Expr} {a : String} {err : ErrClass} (he : w.eval e = .error err) :
    w.eval (.hasAttr e a) = .error err := by simp [evaluate, he]

theorem cap_attr_guard (e : Expr) (a : String) : (Capability.attr e a).guard = some (.hasAttr e a) := rfl

theorem capHolds_attr {w : World} {e : Expr} {a : String} (h : TrueOrPermitted w (.hasAttr e a)) : CapsHold w [Capability.attr e a] := by
  apply capsHold_singleton
  intro g hg
  rw [cap_attr_guard] at hg
  cases hg; exact h

/-- with the capability `(e, a)` and a value for `e`, `e has a` is true -/
theorem cap_attr_true {w : World} {e : Expr} {a : String} {caps : Capabilities} {p : Bool} (hc : CapsHold w caps)
    (hcap : caps.has (Capability.attr e a) = true) (hp : w.eval (.hasAttr e a) = .ok (.prim (.bool p))) : p = true := by
  have := capsHold_has hc hcap _ (cap_attr_guard e a)
  rcases this with h | ⟨err, h, _⟩
  · rw [hp] at h; simpa using h
  · rw [hp] at h; cases h

theorem ite_bool (c : Prop) [Decidable c] : ∃ bt, (if c then CedarType.bool .tt else boolT) = .bool bt := by
  by_cases hc : c <;> simp [hc, boolT]

theorem getAttr_good {m : ValidationMode} {s : Schema} {w : World} {e : Expr} {a : String} {caps : Capabilities}
    {τe τa : CedarType} {ce : Capabilities} {req : Bool}
    (hWF : SchemaWF s) (hst : StoreConforms s w.es) (hc : CapsHold w caps)
    (se : TySound w e τe ce) (hme : τe.mono = true)
    (hshape : τe = .never ∨ (∃ l, τe = .entity l) ∨ ∃ attrs o, τe = .record attrs o)
    (hl : lookupAttr s τe a = some (req, τa)) (hcond : (req || caps.has (Capability.attr e a)) = true) :
    Good w (.getAttr e a) τa [] := by
  have _ := m
  rcases se with ⟨err, he, hp⟩ | ⟨v, hv, hi, _⟩
  · exact Good.err (by simp [evaluate, he]) hp
  · rcases hshape with rfl | hshape
    · exact (inst_never hi).elim
    · obtain ⟨p, hp, hcases⟩ := hasAttr_eval (s := s) (a := a) hv hi hme hshape
      rcases hcases with ⟨kvs, rfl, rfl⟩ | ⟨u, rfl, hf, rfl⟩ | ⟨u, d, rfl, hf, rfl⟩
      · -- record
        rcases hshape with ⟨l, rfl⟩ | ⟨attrs, o, rfl⟩
        · cases hi
        · simp only [lookupAttr] at hl
          obtain ⟨h1, h2⟩ := record_get hi hl
          have hpres : (lookupKV kvs a).isSome = true := by
            rcases Bool.or_eq_true _ _ |>.mp hcond with hr | hcap
            · exact h2 hr
            · exact cap_attr_true hc hcap hp
          cases hlk : lookupKV kvs a with
          | none => rw [hlk] at hpres; cases hpres
          | some v' => exact Good.value (by simp [evaluate, hv, hlk]) (h1 v' hlk)
      · -- absent entity
        exact Good.err (by simp [evaluate, hv, hf]) (Or.inl rfl)
      · -- present entity
        rcases hshape with ⟨l, rfl⟩ | ⟨attrs, o, rfl⟩
        · obtain ⟨T, rfl⟩ := mono_entity hme
          obtain ⟨u', hu', hT⟩ := inst_entity_single hi
          cases hu'; subst hT
          simp only [lookupAttr] at hl
          obtain ⟨h1, h2, _⟩ := entity_get hWF (hst _ _ hf) hl
          have hpres : (lookupKV d.attrs a).isSome = true := by
            rcases Bool.or_eq_true _ _ |>.mp hcond with hr | hcap
            · exact h2 hr
            · exact cap_attr_true hc hcap hp
          cases hlk : lookupKV d.attrs a with
          | none => rw [hlk] at hpres; cases hpres
          | some v' => exact Good.value (by simp [evaluate, hv, hf, hlk]) (h1 v' hlk)
        · cases hi

theorem hasAttr_good {s : Schema} {w : World} {e : Expr} {a : String} {caps : Capabilities}
    {τe τ : CedarType} {ce c' : Capabilities}
    (hWF : SchemaWF s) (hst : StoreConforms s w.es) (hc : CapsHold w caps)
    (se : TySound w e τe ce) (hme : τe.mono = true)
    (hshape : τe = .never ∨ (∃ l, τe = .entity l) ∨ ∃ attrs o, τe = .record attrs o)
    (h : (match lookupAttr s τe a with
      | some (true, _) =>
        (.ok (if τe.isRecord || caps.has (Capability.attr e a) then .bool .tt else boolT, [Capability.attr e a]) : TcResult)
      | some (false, _) =>
        .ok (if caps.has (Capability.attr e a) then .bool .tt else boolT, [Capability.attr e a])
      | none => ok (if mayHaveAttr s τe a then boolT else .bool .ff)) = .ok (τ, c')) :
    Good w (.hasAttr e a) τ c' := by
  -- the result type is boolean and the capabilities are `[(e, a)]` or `[]`
  have hshape_out : (∃ bt, τ = .bool bt) ∧ (c' = [Capability.attr e a] ∨ c' = []) := by
    split at h
    · simp only [Except.ok.injEq, Prod.mk.injEq] at h; obtain ⟨rfl, rfl⟩ := h
      exact ⟨ite_bool _, Or.inl rfl⟩
    · simp only [Except.ok.injEq, Prod.mk.injEq] at h; obtain ⟨rfl, rfl⟩ := h
      exact ⟨ite_bool _, Or.inl rfl⟩
    · simp only [ok, Except.ok.injEq, Prod.mk.injEq] at h; obtain ⟨rfl, rfl⟩ := h
      exact ⟨by split; exact ⟨_, rfl⟩; exact ⟨_, rfl⟩, Or.inr rfl⟩
  obtain ⟨⟨bt, hbt⟩, hcs⟩ := hshape_out
  -- it suffices to show soundness: the clause for `True` follows
  suffices hs : TySound w (.hasAttr e a) τ c' by
    refine ⟨hs, fun htt => ?_⟩
    rcases hcs with rfl | rfl
    · rw [htt] at hs; exact capHolds_attr (sound_tt hs)
    · exact capsHold_nil w
  have hcaps_of_true : w.eval (.hasAttr e a) = .ok (.prim (.bool true)) → CapsHold w c' := by
    intro ht
    rcases hcs with rfl | rfl
    · exact capHolds_attr (Or.inl ht)
    · exact capsHold_nil w
  rcases se with ⟨err, he, hp⟩ | ⟨v, hv, hi, _⟩
  · exact TySound.of_err (hasAttr_err he) hp
  · rcases hshape with rfl | hshape
    · exact (inst_never hi).elim
    · obtain ⟨p, hp, hcases⟩ := hasAttr_eval (s := s) (a := a) hv hi hme hshape
      refine TySound.of_bool hp ?_ (fun hpt => hcaps_of_true (by rw [hp, hpt]))
      -- the value `p` inhabits the boolean type computed
      split at h
      · -- required attribute
        rename_i τa hl
        simp only [Except.ok.injEq, Prod.mk.injEq] at h; obtain ⟨rfl, _⟩ := h
        split
        · rename_i hcond
          -- typed True: a record (required attribute present) or the capability
          have : p = true := by
            rcases Bool.or_eq_true _ _ |>.mp hcond with hr | hcap
            · rcases hshape with ⟨l, rfl⟩ | ⟨attrs, o, rfl⟩
              · simp [CedarType.isRecord] at hr
              · obtain ⟨kvs, rfl⟩ := inst_record hi
                rcases hcases with ⟨kvs', hk, rfl⟩ | ⟨u, hu, _⟩ | ⟨u, d, hu, _⟩
                · cases hk
                  simp only [lookupAttr] at hl
                  exact (record_get hi hl).2 rfl
                · cases hu
                · cases hu
            · exact cap_attr_true hc hcap hp
          rw [this]; rfl
        · simp [boolInst, boolT]
      · -- optional attribute
        simp only [Except.ok.injEq, Prod.mk.injEq] at h; obtain ⟨rfl, _⟩ := h
        split
        · rename_i hcap
          rw [cap_attr_true hc hcap hp]; rfl
        · simp [boolInst, boolT]
      · -- undeclared attribute
        rename_i hl
        simp only [ok, Except.ok.injEq, Prod.mk.injEq] at h; obtain ⟨rfl, _⟩ := h
        split
        · simp [boolInst, boolT]
        · rename_i hmay
          simp only [Bool.not_eq_true] at hmay
          -- definitely absent
          have : p = false := by
            rcases hcases with ⟨kvs, rfl, rfl⟩ | ⟨u, rfl, hf, rfl⟩ | ⟨u, d, rfl, hf, rfl⟩
            · rcases hshape with ⟨l, rfl⟩ | ⟨attrs, o, rfl⟩
              · cases hi
              · simp only [lookupAttr] at hl
                simp only [mayHaveAttr, hl, Option.isSome_none, Bool.or_false] at hmay
                subst hmay
                rw [record_no_attr hi hl]; rfl
            · rfl
            · rcases hshape with ⟨l, rfl⟩ | ⟨attrs, o, rfl⟩
              · obtain ⟨T, rfl⟩ := mono_entity hme
                obtain ⟨u', hu', hT⟩ := inst_entity_single hi
                cases hu'; subst hT
                simp only [lookupAttr] at hl
                rw [entity_no_attr hWF (hst _ _ hf) hl hmay]; rfl
              · cases hi
          rw [this]; rfl

/-! ### equality -/

theorem eqType_bool (env : RequestEnv) (a b : Expr) (τa τb : CedarType) : ∃ bt, eqType env a b τa τb = .bool bt := by
  unfold eqType
  split
  · exact ⟨_, rfl⟩
  · split
    · exact ⟨_, rfl⟩
    · exact ⟨_, rfl⟩

theorem asLiteral_eval {s : Schema} {env : RequestEnv} {w : World} {a : Expr} {la : Prim} (henv : EnvMatches s env w.q)
    (h : asLiteral env a = some la) : w.eval a = .ok (.prim la) := by
  unfold asLiteral at h
  split at h
  · cases h; simp [evaluate]
  · cases h; simp [evaluate, henv.2.1]
  · cases h

theorem eq_good {s : Schema} {env : RequestEnv} {w : World} {a b : Expr} {τa τb : CedarType} {ca cb : Capabilities}
    (henv : EnvMatches s env w.q) (sa : TySound w a τa ca) (sb : TySound w b τb cb)
    (hma : τa.mono = true) (hmb : τb.mono = true) : Good w (.binaryApp .eq a b) (eqType env a b τa τb) [] := by
  rcases sa with ⟨err, he, hp⟩ | ⟨v1, hv1, hi1, _⟩
  · exact Good.err (by simp [evaluate, he]) hp
  · rcases sb with ⟨err, he, hp⟩ | ⟨v2, hv2, hi2, _⟩
    · exact Good.err (by simp [evaluate, hv1, he]) hp
    · refine Good.value (v := .prim (.bool (Value.beq v1 v2))) (by simp [evaluate, hv1, hv2, applyBinary]) (inst_bool_iff.mpr ?_)
      unfold eqType
      split
      · rename_i hdis
        cases τa <;> cases τb <;> simp only [typesDisjoint, Bool.false_eq_true] at hdis
        rename_i l0 l1
        obtain ⟨T0, rfl⟩ := mono_entity hma
        obtain ⟨T1, rfl⟩ := mono_entity hmb
        obtain ⟨u1, rfl, h1⟩ := inst_entity_single hi1
        obtain ⟨u2, rfl, h2⟩ := inst_entity_single hi2
        have hne : u1 ≠ u2 := by
          intro h; subst h; subst h1; subst h2
          simp at hdis
        simp [Value.beq, boolInst, hne]
      · split
        · rename_i la lb hla hlb
          have e1 := asLiteral_eval henv hla
          have e2 := asLiteral_eval henv hlb
          rw [hv1] at e1; rw [hv2] at e2
          cases e1; cases e2
          by_cases hl : la = lb
          · subst hl; simp [Value.beq, boolInst]
          · simp [Value.beq, boolInst, hl]
        · simp [boolInst, boolT]


/-! ### the induction -/

theorem isFalse_eq {τ : CedarType} (h : τ.isFalse = true) : τ = .bool .ff := by
  cases τ <;> simp [CedarType.isFalse] at h
  rename_i b; cases b <;> simp [CedarType.isFalse] at h; rfl

theorem isTrue_eq {τ : CedarType} (h : τ.isTrue = true) : τ = .bool .tt := by
  cases τ <;> simp [CedarType.isTrue] at h
  rename_i b; cases b <;> simp [CedarType.isTrue] at h; rfl

theorem flat_typeOf {m : ValidationMode} {s : Schema} {env : RequestEnv} {e : Expr} {caps : Capabilities} {τ : CedarType}
    {c : Capabilities} (hf : FlatExpr e = true) (h : typeOf m s env e caps = .ok (τ, c)) : τ.flat = true := by
  cases e <;> simp only [FlatExpr, Bool.false_eq_true] at hf
  case lit p =>
    cases p <;> simp only [FlatExpr, Bool.false_eq_true] at hf
    · rename_i b; cases b <;> simp only [typeOf, ok, Except.ok.injEq, Prod.mk.injEq] at h <;> (rw [← h.1]; rfl)
    · simp only [typeOf, ok, Except.ok.injEq, Prod.mk.injEq] at h; rw [← h.1]; rfl
    · simp only [typeOf, ok, Except.ok.injEq, Prod.mk.injEq] at h; rw [← h.1]; rfl
  case and a b =>
    simp only [typeOf] at h
    cases hA : expectOneOf (typeOf m s env a caps) [boolT] with
    | error err => rw [hA] at h; cases h
    | ok pa =>
      obtain ⟨τa, ca⟩ := pa
      rw [hA] at h; simp only at h
      have hba := subtype_bool (expectOneOf_ok hA).2
      split at h
      · simp only [ok, Except.ok.injEq, Prod.mk.injEq] at h; rw [← h.1]; rfl
      · cases hB : expectOneOf (typeOf m s env b (caps.union ca)) [boolT] with
        | error err => rw [hB] at h; cases h
        | ok pb =>
          obtain ⟨τb, cb⟩ := pb
          rw [hB] at h; simp only [Except.ok.injEq, Prod.mk.injEq] at h
          have hbb := subtype_bool (expectOneOf_ok hB).2
          rw [← h.1]
          rcases andType_boolish hba hbb with hx | ⟨bt, hx⟩ <;> rw [hx] <;> rfl
  case or a b =>
    simp only [typeOf] at h
    cases hA : expectOneOf (typeOf m s env a caps) [boolT] with
    | error err => rw [hA] at h; cases h
    | ok pa =>
      obtain ⟨τa, ca⟩ := pa
      rw [hA] at h; simp only at h
      have hba := subtype_bool (expectOneOf_ok hA).2
      split at h
      · simp only [Except.ok.injEq, Prod.mk.injEq] at h; rw [← h.1]; rfl
      · cases hB : expectOneOf (typeOf m s env b caps) [boolT] with
        | error err => rw [hB] at h; cases h
        | ok pb =>
          obtain ⟨τb, cb⟩ := pb
          rw [hB] at h; simp only [Except.ok.injEq, Prod.mk.injEq] at h
          have hbb := subtype_bool (expectOneOf_ok hB).2
          rw [← h.1]
          rcases orType_boolish hba hbb with hx | ⟨bt, hx⟩ <;> rw [hx] <;> rfl
  case unaryApp op a =>
    cases op <;> (try simp at hf)
    · simp only [typeOf] at h
      split at h <;> simp only [ok, Except.ok.injEq, Prod.mk.injEq, reduceCtorEq] at h <;> (rw [← h.1]; rfl)
    · simp only [typeOf] at h
      split at h <;> simp only [ok, Except.ok.injEq, Prod.mk.injEq, reduceCtorEq] at h <;> (rw [← h.1]; rfl)
  case binaryApp op a b =>
    cases op <;> (try simp at hf)
    all_goals
      simp only [typeOf] at h
      obtain ⟨τa', _, τb', _, _, _, hk⟩ := both_ok h
      first
        | (simp only [ok, Except.ok.injEq, Prod.mk.injEq] at hk; rw [← hk.1]; rfl)
        | (split at hk
           · cases hk
           · simp only [ok, Except.ok.injEq, Prod.mk.injEq] at hk
             obtain ⟨bt, hbt⟩ := eqType_bool env a b τa' τb'
             rw [← hk.1, hbt]; rfl)
  case like e pat =>
    simp only [typeOf] at h
    split at h <;> simp only [ok, Except.ok.injEq, Prod.mk.injEq, reduceCtorEq] at h <;> (rw [← h.1]; rfl)
  case is e ty =>
    simp only [typeOf] at h
    split at h <;> simp only [ok, Except.ok.injEq, Prod.mk.injEq, reduceCtorEq] at h
    · rw [← h.1]; split; rfl; split <;> rfl
    · rw [← h.1]; rfl
  case hasAttr e a =>
    simp only [typeOf] at h
    cases hE : expectOneOf (typeOf m s env e caps) [.anyEntity, anyRecord] with
    | error err => rw [hE] at h; cases h
    | ok pe =>
      obtain ⟨τe, ce⟩ := pe
      rw [hE] at h
      split at h
      · cases h
      · cases h
      · split at h <;> simp only [ok, Except.ok.injEq, Prod.mk.injEq] at h <;> (rw [← h.1]; split <;> rfl)

theorem bool_of_boolish_mono {τ : CedarType} (hb : Boolish τ) (hm : τ.mono = true) : ∃ bt, τ = .bool bt := by
  rcases hb with rfl | h
  · simp [CedarType.mono] at hm
  · exact h

theorem andType_mono {τa τb : CedarType} (ha : ∃ x, τa = .bool x) (hb : ∃ y, τb = .bool y) : (andType τa τb).mono = true := by
  obtain ⟨x, rfl⟩ := ha; obtain ⟨y, rfl⟩ := hb; cases x <;> cases y <;> rfl

theorem orType_mono {τa τb : CedarType} (ha : ∃ x, τa = .bool x) (hb : ∃ y, τb = .bool y) : (orType τa τb).mono = true := by
  obtain ⟨x, rfl⟩ := ha; obtain ⟨y, rfl⟩ := hb; cases x <;> cases y <;> rfl

/-- types assigned in the fragment mention single entity types only and never `Never` -/
theorem typeOf_mono {m : ValidationMode} {s : Schema} {env : RequestEnv} {q : Request}
    (hWF : SchemaWF s) (henv : EnvMatches s env q) :
    ∀ (e : Expr), InFragment e = true → ∀ (caps : Capabilities) (τ : CedarType) (c' : Capabilities),
      typeOf m s env e caps = .ok (τ, c') → τ.mono = true
  | .lit p, _, caps, τ, c', h => by
    cases p with
    | bool b => cases b <;> simp only [typeOf, ok, Except.ok.injEq, Prod.mk.injEq] at h <;> (rw [← h.1]; rfl)
    | int i => simp only [typeOf, ok, Except.ok.injEq, Prod.mk.injEq] at h; rw [← h.1]; rfl
    | string str => simp only [typeOf, ok, Except.ok.injEq, Prod.mk.injEq] at h; rw [← h.1]; rfl
    | entityUID u =>
      simp only [typeOf] at h
      cases hl : euidLiteralType s u with
      | none => rw [hl] at h; cases h
      | some τ' =>
        rw [hl] at h
        simp only [ok, Except.ok.injEq, Prod.mk.injEq] at h
        rw [← h.1, euidLiteralType_some hl]; rfl
  | .var v, _, caps, τ, c', h => by
    obtain ⟨_, _, _, act, hact, hctx⟩ := henv
    cases v with
    | principal => simp only [typeOf, ok, Except.ok.injEq, Prod.mk.injEq] at h; rw [← h.1]; rfl
    | resource => simp only [typeOf, ok, Except.ok.injEq, Prod.mk.injEq] at h; rw [← h.1]; rfl
    | action =>
      simp only [typeOf] at h
      cases hl : euidLiteralType s env.action with
      | none => rw [hl] at h; cases h
      | some τ' =>
        rw [hl] at h
        simp only [ok, Except.ok.injEq, Prod.mk.injEq] at h
        rw [← h.1, euidLiteralType_some hl]; rfl
    | context =>
      simp only [typeOf, ok, Except.ok.injEq, Prod.mk.injEq] at h
      rw [← h.1, hctx]; exact (hWF.act_wf _ _ hact).1
  | .and a b, hf, caps, τ, c', h => by
    simp only [InFragment, Bool.and_eq_true] at hf
    simp only [typeOf] at h
    cases hA : expectOneOf (typeOf m s env a caps) [boolT] with
    | error err => rw [hA] at h; cases h
    | ok pa =>
      obtain ⟨τa, ca⟩ := pa
      rw [hA] at h; simp only at h
      obtain ⟨hta, hsa⟩ := expectOneOf_ok hA
      have hba := bool_of_boolish_mono (subtype_bool hsa) (typeOf_mono hWF henv a hf.1 caps τa ca hta)
      split at h
      · simp only [ok, Except.ok.injEq, Prod.mk.injEq] at h; rw [← h.1]; rfl
      · cases hB : expectOneOf (typeOf m s env b (caps.union ca)) [boolT] with
        | error err => rw [hB] at h; cases h
        | ok pb =>
          obtain ⟨τb, cb⟩ := pb
          rw [hB] at h; simp only [Except.ok.injEq, Prod.mk.injEq] at h
          obtain ⟨htb, hsb⟩ := expectOneOf_ok hB
          have hbb := bool_of_boolish_mono (subtype_bool hsb) (typeOf_mono hWF henv b hf.2 _ τb cb htb)
          rw [← h.1]; exact andType_mono hba hbb
  | .or a b, hf, caps, τ, c', h => by
    simp only [InFragment, Bool.and_eq_true] at hf
    simp only [typeOf] at h
    cases hA : expectOneOf (typeOf m s env a caps) [boolT] with
    | error err => rw [hA] at h; cases h
    | ok pa =>
      obtain ⟨τa, ca⟩ := pa
      rw [hA] at h; simp only at h
      obtain ⟨hta, hsa⟩ := expectOneOf_ok hA
      have hba := bool_of_boolish_mono (subtype_bool hsa) (typeOf_mono hWF henv a hf.1 caps τa ca hta)
      split at h
      · simp only [Except.ok.injEq, Prod.mk.injEq] at h; rw [← h.1]; rfl
      · cases hB : expectOneOf (typeOf m s env b caps) [boolT] with
        | error err => rw [hB] at h; cases h
        | ok pb =>
          obtain ⟨τb, cb⟩ := pb
          rw [hB] at h; simp only [Except.ok.injEq, Prod.mk.injEq] at h
          obtain ⟨htb, hsb⟩ := expectOneOf_ok hB
          have hbb := bool_of_boolish_mono (subtype_bool hsb) (typeOf_mono hWF henv b hf.2 _ τb cb htb)
          rw [← h.1]; exact orType_mono hba hbb
  | .ite c t e, hf, caps, τ, c', h => by
    simp only [InFragment, Bool.and_eq_true, Bool.or_eq_true] at hf
    obtain ⟨⟨⟨hfc, hft⟩, hfe⟩, hflat⟩ := hf
    simp only [typeOf] at h
    cases hC : expectOneOf (typeOf m s env c caps) [boolT] with
    | error err => rw [hC] at h; cases h
    | ok pc =>
      obtain ⟨τc, cc⟩ := pc
      rw [hC] at h; simp only at h
      split at h
      · cases hT : typeOf m s env t (caps.union cc) with
        | error err => rw [hT] at h; cases h
        | ok pt =>
          obtain ⟨τt, ct⟩ := pt
          rw [hT] at h; simp only [Except.ok.injEq, Prod.mk.injEq] at h
          rw [← h.1]; exact typeOf_mono hWF henv t hft _ τt ct hT
      · split at h
        · exact typeOf_mono hWF henv e hfe caps τ c' h
        · obtain ⟨τt, ct, τe, ce, hT, hE, hk⟩ := both_ok h
          cases hl : lub m τt τe with
          | none => rw [hl] at hk; cases hk
          | some τl =>
            rw [hl] at hk
            simp only [Except.ok.injEq, Prod.mk.injEq] at hk
            rw [← hk.1]
            have hflat' : τt.flat = true ∨ τe.flat = true := by
              rcases hflat with hf | hf
              · exact Or.inl (flat_typeOf hf hT)
              · exact Or.inr (flat_typeOf hf hE)
            obtain ⟨_, _, hshape, _⟩ := lub_flat hl hflat'
            rcases hshape with h1 | h1 | h1
            · rw [h1]; exact typeOf_mono hWF henv t hft _ τt ct hT
            · rw [h1]; exact typeOf_mono hWF henv e hfe _ τe ce hE
            · rw [h1]; rfl
  | .unaryApp op a, hf, caps, τ, c', h => by
    simp only [InFragment, Bool.and_eq_true, Bool.or_eq_true, beq_iff_eq] at hf
    rcases hf.1 with rfl | rfl
    · simp only [typeOf] at h
      split at h <;> simp only [ok, Except.ok.injEq, Prod.mk.injEq, reduceCtorEq] at h <;> (rw [← h.1]; rfl)
    · simp only [typeOf] at h
      split at h <;> simp only [ok, Except.ok.injEq, Prod.mk.injEq, reduceCtorEq] at h <;> (rw [← h.1]; rfl)
  | .binaryApp op a b, hf, caps, τ, c', h => by
    simp only [InFragment, Bool.and_eq_true, Bool.or_eq_true, beq_iff_eq] at hf
    rcases hf.1.1 with ((rfl | rfl) | rfl) | rfl
    · simp only [typeOf] at h; obtain ⟨_, _, _, _, _, _, hk⟩ := both_ok h
      simp only [ok, Except.ok.injEq, Prod.mk.injEq] at hk; rw [← hk.1]; rfl
    · simp only [typeOf] at h; obtain ⟨_, _, _, _, _, _, hk⟩ := both_ok h
      simp only [ok, Except.ok.injEq, Prod.mk.injEq] at hk; rw [← hk.1]; rfl
    · simp only [typeOf] at h; obtain ⟨_, _, _, _, _, _, hk⟩ := both_ok h
      simp only [ok, Except.ok.injEq, Prod.mk.injEq] at hk; rw [← hk.1]; rfl
    · simp only [typeOf] at h; obtain ⟨τa', _, τb', _, _, _, hk⟩ := both_ok h
      split at hk
      · cases hk
      · simp only [ok, Except.ok.injEq, Prod.mk.injEq] at hk
        obtain ⟨bt, hbt⟩ := eqType_bool env a b τa' τb'
        rw [← hk.1, hbt]; rfl
  | .getAttr e a, hf, caps, τ, c', h => by
    simp only [InFragment] at hf
    simp only [typeOf] at h
    cases hE : expectOneOf (typeOf m s env e caps) [.anyEntity, anyRecord] with
    | error err => rw [hE] at h; cases h
    | ok pe =>
      obtain ⟨τe, ce⟩ := pe
      rw [hE] at h
      obtain ⟨hte, _⟩ := expectOneOf_ok hE
      have hme := typeOf_mono hWF henv e hf caps τe ce hte
      split at h
      · cases h
      · cases h
      · rename_i τe' ce' hne heq
        simp only [Except.ok.injEq, Prod.mk.injEq] at heq; obtain ⟨rfl, rfl⟩ := heq
        cases hl : lookupAttr s τe a with
        | none => rw [hl] at h; cases h
        | some qt =>
          obtain ⟨req, τa⟩ := qt
          rw [hl] at h; simp only at h
          split at h
          · simp only [ok, Except.ok.injEq, Prod.mk.injEq] at h
            rw [← h.1]; exact lookupAttr_mono hWF hme hl
          · cases h
  | .hasAttr e a, hf, caps, τ, c', h => by
    have hflat := flat_typeOf (e := .hasAttr e a) rfl h
    simp only [typeOf] at h
    cases hE : expectOneOf (typeOf m s env e caps) [.anyEntity, anyRecord] with
    | error err => rw [hE] at h; cases h
    | ok pe =>
      obtain ⟨τe, ce⟩ := pe
      rw [hE] at h
      split at h
      · cases h
      · cases h
      · split at h <;> simp only [ok, Except.ok.injEq, Prod.mk.injEq] at h <;> (rw [← h.1]; split <;> rfl)
  | .slot _, hf, _, _, _, _ => by simp [InFragment] at hf
  | .unknown _ _, hf, _, _, _, _ => by simp [InFragment] at hf
  | .call _ _, hf, _, _, _, _ => by simp [InFragment] at hf
  | .like e pat, _, caps, τ, c', h => by
    have hflat := flat_typeOf (e := .like e pat) rfl h
    simp only [typeOf] at h
    split at h <;> simp only [ok, Except.ok.injEq, Prod.mk.injEq, reduceCtorEq] at h <;> (rw [← h.1]; rfl)
  | .is e ty, _, caps, τ, c', h => by
    simp only [typeOf] at h
    split at h <;> simp only [ok, Except.ok.injEq, Prod.mk.injEq, reduceCtorEq] at h
    · rw [← h.1]; split; rfl; split <;> rfl
    · rw [← h.1]; rfl
  | .set _, hf, _, _, _, _ => by simp [InFragment] at hf
  | .record _, hf, _, _, _, _ => by simp [InFragment] at hf

theorem typeOf_sound_aux {m : ValidationMode} {s : Schema} {env : RequestEnv} {w : World}
    (hWF : SchemaWF s) (henv : EnvMatches s env w.q) (hreq : ConformsRequest s w.q) (hst : StoreConforms s w.es) :
    ∀ (e : Expr), InFragment e = true → ∀ (caps : Capabilities) (τ : CedarType) (c' : Capabilities),
      typeOf m s env e caps = .ok (τ, c') → CapsHold w caps → Good w e τ c'
  | .lit p, _, caps, τ, c', h, _ => by
    cases p with
    | bool b =>
      cases b <;> simp only [typeOf, ok, Except.ok.injEq, Prod.mk.injEq] at h <;> obtain ⟨rfl, rfl⟩ := h
      · exact Good.value (v := .prim (.bool false)) (by simp [evaluate]) .ff
      · exact Good.value (v := .prim (.bool true)) (by simp [evaluate]) .tt
    | int i =>
      simp only [typeOf, ok, Except.ok.injEq, Prod.mk.injEq] at h; obtain ⟨rfl, rfl⟩ := h
      exact Good.value (v := .prim (.int i)) (by simp [evaluate]) (.long i)
    | string str =>
      simp only [typeOf, ok, Except.ok.injEq, Prod.mk.injEq] at h; obtain ⟨rfl, rfl⟩ := h
      exact Good.value (v := .prim (.string str)) (by simp [evaluate]) (.string str)
    | entityUID u =>
      simp only [typeOf] at h
      cases hl : euidLiteralType s u with
      | none => rw [hl] at h; cases h
      | some τ' =>
        rw [hl] at h
        simp only [ok, Except.ok.injEq, Prod.mk.injEq] at h; obtain ⟨rfl, rfl⟩ := h
        rw [euidLiteralType_some hl]
        exact Good.value (v := .prim (.entityUID u)) (by simp [evaluate]) (InstanceOfType.entity u _ (by simp))
  | .var v, _, caps, τ, c', h, _ => by
    obtain ⟨hp, ha, hr, act, hact, hctx⟩ := henv
    cases v with
    | principal =>
      simp only [typeOf, ok, Except.ok.injEq, Prod.mk.injEq] at h; obtain ⟨rfl, rfl⟩ := h
      exact Good.value (v := .prim (.entityUID w.q.principal)) (by simp [evaluate]) (InstanceOfType.entity _ _ (by simp [hp]))
    | resource =>
      simp only [typeOf, ok, Except.ok.injEq, Prod.mk.injEq] at h; obtain ⟨rfl, rfl⟩ := h
      exact Good.value (v := .prim (.entityUID w.q.resource)) (by simp [evaluate]) (InstanceOfType.entity _ _ (by simp [hr]))
    | action =>
      simp only [typeOf] at h
      cases hl : euidLiteralType s env.action with
      | none => rw [hl] at h; cases h
      | some τ' =>
        rw [hl] at h
        simp only [ok, Except.ok.injEq, Prod.mk.injEq] at h; obtain ⟨rfl, rfl⟩ := h
        rw [euidLiteralType_some hl]
        exact Good.value (v := .prim (.entityUID w.q.action)) (by simp [evaluate]) (InstanceOfType.entity _ _ (by simp [ha]))
    | context =>
      simp only [typeOf, ok, Except.ok.injEq, Prod.mk.injEq] at h; obtain ⟨rfl, rfl⟩ := h
      obtain ⟨_, _, _, _, _, act', hact', _, hinst⟩ := hreq
      rw [hact] at hact'; cases hact'
      rw [hctx]
      exact Good.value (v := .record w.q.context) (by simp [evaluate]) hinst
  | .and a b, hf, caps, τ, c', h, hc => by
    simp only [InFragment, Bool.and_eq_true] at hf
    have iha := typeOf_sound_aux (m := m) hWF henv hreq hst a hf.1
    have ihb := typeOf_sound_aux (m := m) hWF henv hreq hst b hf.2
    simp only [typeOf] at h
    cases hA : expectOneOf (typeOf m s env a caps) [boolT] with
    | error err => rw [hA] at h; cases h
    | ok pa =>
      obtain ⟨τa, ca⟩ := pa
      rw [hA] at h; simp only at h
      obtain ⟨hta, hsa⟩ := expectOneOf_ok hA
      have hba := subtype_bool hsa
      obtain ⟨sa, sa2⟩ := iha caps τa ca hta hc
      split at h
      · rename_i hfalse
        simp only [ok, Except.ok.injEq, Prod.mk.injEq] at h; obtain ⟨rfl, rfl⟩ := h
        have := isFalse_eq hfalse; subst this
        refine ⟨?_, fun h => by cases h⟩
        rcases sa.bool_cases hba with ⟨err, he, hp⟩ | ⟨x, hx, hix, _⟩
        · exact TySound.of_err (by simp [evaluate, he]) hp
        · have : x = false := by simpa [boolInst] using hix
          subst this
          exact TySound.of_bool (b := false) (by simp [evaluate, hx, Value.asBool]) (by simp [boolInst]) (fun h => by cases h)
      · cases hB : expectOneOf (typeOf m s env b (caps.union ca)) [boolT] with
        | error err => rw [hB] at h; cases h
        | ok pb =>
          obtain ⟨τb, cb⟩ := pb
          rw [hB] at h; simp only [Except.ok.injEq, Prod.mk.injEq] at h; obtain ⟨rfl, rfl⟩ := h
          obtain ⟨htb, hsb⟩ := expectOneOf_ok hB
          have hbb := subtype_bool hsb
          have ihb' := fun hca => ihb (caps.union ca) τb cb htb (capsHold_union.mpr ⟨hc, hca⟩)
          refine ⟨and_sound sa hba (fun hca => (ihb' hca).1) hbb (andType_inst hba hbb) (fun h1 h2 => andCaps_hold h1 h2),
            fun htt => ?_⟩
          obtain ⟨rfl, rfl⟩ := andType_tt htt hba hbb
          have hca := sa2 rfl
          exact andCaps_hold hca ((ihb' hca).2 rfl)
  | .or a b, hf, caps, τ, c', h, hc => by
    simp only [InFragment, Bool.and_eq_true] at hf
    have iha := typeOf_sound_aux (m := m) hWF henv hreq hst a hf.1
    have ihb := typeOf_sound_aux (m := m) hWF henv hreq hst b hf.2
    simp only [typeOf] at h
    cases hA : expectOneOf (typeOf m s env a caps) [boolT] with
    | error err => rw [hA] at h; cases h
    | ok pa =>
      obtain ⟨τa, ca⟩ := pa
      rw [hA] at h; simp only at h
      obtain ⟨hta, hsa⟩ := expectOneOf_ok hA
      have hba := subtype_bool hsa
      obtain ⟨sa, sa2⟩ := iha caps τa ca hta hc
      split at h
      · rename_i htrue
        simp only [Except.ok.injEq, Prod.mk.injEq] at h; obtain ⟨rfl, rfl⟩ := h
        have := isTrue_eq htrue; subst this
        refine ⟨?_, fun _ => sa2 rfl⟩
        rcases sa.bool_cases hba with ⟨err, he, hp⟩ | ⟨x, hx, hix, hcx⟩
        · exact TySound.of_err (by simp [evaluate, he]) hp
        · have : x = true := by simpa [boolInst] using hix
          subst this
          exact TySound.of_bool (b := true) (by simp [evaluate, hx, Value.asBool]) (by simp [boolInst]) (fun _ => hcx rfl)
      · cases hB : expectOneOf (typeOf m s env b caps) [boolT] with
        | error err => rw [hB] at h; cases h
        | ok pb =>
          obtain ⟨τb, cb⟩ := pb
          rw [hB] at h; simp only [Except.ok.injEq, Prod.mk.injEq] at h; obtain ⟨rfl, rfl⟩ := h
          obtain ⟨htb, hsb⟩ := expectOneOf_ok hB
          have hbb := subtype_bool hsb
          obtain ⟨sb, sb2⟩ := ihb caps τb cb htb hc
          -- the capabilities of the table hold whenever the operand that is true has its own
          have hL : boolInst true τa = true → CapsHold w ca → CapsHold w (orCaps τa τb ca cb) := by
            intro hi hca
            unfold orCaps
            split
            · exact sb2 rfl
            · exact hca
            · simp [boolInst] at hi
            · exact capsHold_inter_right hca
          have hR : boolInst true τb = true → CapsHold w cb → CapsHold w (orCaps τa τb ca cb) := by
            intro hi hcb
            unfold orCaps
            split
            · exact hcb
            · simp [boolInst] at hi
            · exact hcb
            · exact capsHold_inter_left hcb
          refine ⟨or_sound sa hba sb hbb (orType_inst hba hbb) hL hR, fun htt => ?_⟩
          rcases orType_tt htt hba hbb with rfl | ⟨rfl, rfl⟩
          · exact hR (by simp [boolInst]) (sb2 rfl)
          · exact hL (by simp [boolInst]) (sa2 rfl)
  | .ite c t e, hf, caps, τ, c', h, hc => by
    simp only [InFragment, Bool.and_eq_true, Bool.or_eq_true] at hf
    obtain ⟨⟨⟨hfc, hft⟩, hfe⟩, hflat⟩ := hf
    have ihc := typeOf_sound_aux (m := m) hWF henv hreq hst c hfc
    have iht := typeOf_sound_aux (m := m) hWF henv hreq hst t hft
    have ihe := typeOf_sound_aux (m := m) hWF henv hreq hst e hfe
    simp only [typeOf] at h
    cases hC : expectOneOf (typeOf m s env c caps) [boolT] with
    | error err => rw [hC] at h; cases h
    | ok pc =>
      obtain ⟨τc, cc⟩ := pc
      rw [hC] at h; simp only at h
      obtain ⟨htc, hsc⟩ := expectOneOf_ok hC
      have hbc := subtype_bool hsc
      obtain ⟨sc, sc2⟩ := ihc caps τc cc htc hc
      have hcond := sc.bool_cases hbc
      split at h
      · -- test typed True
        rename_i htrue
        have := isTrue_eq htrue; subst this
        cases hT : typeOf m s env t (caps.union cc) with
        | error err => rw [hT] at h; cases h
        | ok pt =>
          obtain ⟨τt, ct⟩ := pt
          rw [hT] at h; simp only [Except.ok.injEq, Prod.mk.injEq] at h; obtain ⟨rfl, rfl⟩ := h
          have hcc : CapsHold w cc := sc2 rfl
          obtain ⟨st, st2⟩ := iht (caps.union cc) τt ct hT (capsHold_union.mpr ⟨hc, hcc⟩)
          refine ⟨?_, fun htt => capsHold_union.mpr ⟨st2 htt, hcc⟩⟩
          rcases hcond with ⟨err, he, hp⟩ | ⟨x, hx, hix, _⟩
          · exact TySound.of_err (by simp [evaluate, he]) hp
          · have : x = true := by simpa [boolInst] using hix
            subst this
            have heq : w.eval (.ite c t e) = w.eval t := by simp [evaluate, hx, Value.asBool]
            rcases st with ⟨err, he, hp⟩ | ⟨v, hv, hi, hcv⟩
            · exact Or.inl ⟨err, by rw [heq, he], hp⟩
            · exact Or.inr ⟨v, by rw [heq, hv], hi, fun hvt => capsHold_union.mpr ⟨hcv hvt, hcc⟩⟩
      · split at h
        · -- test typed False
          rename_i _ hfalse
          have := isFalse_eq hfalse; subst this
          obtain ⟨se, se2⟩ := ihe caps τ c' h hc
          refine ⟨?_, se2⟩
          rcases hcond with ⟨err, he, hp⟩ | ⟨x, hx, hix, _⟩
          · exact TySound.of_err (by simp [evaluate, he]) hp
          · have : x = false := by simpa [boolInst] using hix
            subst this
            have heq : w.eval (.ite c t e) = w.eval e := by simp [evaluate, hx, Value.asBool]
            rcases se with ⟨err, he, hp⟩ | ⟨v, hv, hi, hcv⟩
            · exact Or.inl ⟨err, by rw [heq, he], hp⟩
            · exact Or.inr ⟨v, by rw [heq, hv], hi, hcv⟩
        · -- both branches, least upper bound
          obtain ⟨τt, ct, τe, ce, hT, hE, hk⟩ := both_ok h
          cases hl : lub m τt τe with
          | none => rw [hl] at hk; cases hk
          | some τl =>
            rw [hl] at hk
            simp only [Except.ok.injEq, Prod.mk.injEq] at hk; obtain ⟨rfl, rfl⟩ := hk
            obtain ⟨se, se2⟩ := ihe caps τe ce hE hc
            have hflat' : τt.flat = true ∨ τe.flat = true := by
              rcases hflat with hf | hf
              · exact Or.inl (flat_typeOf hf hT)
              · exact Or.inr (flat_typeOf hf hE)
            obtain ⟨hlt, hle, _, httc⟩ := lub_flat hl hflat'
            -- the `then` branch under the capabilities of the test
            have iht' := fun hcc => iht (caps.union cc) τt ct hT (capsHold_union.mpr ⟨hc, hcc⟩)
            refine ⟨?_, fun htt => ?_⟩
            · rcases hcond with ⟨err, he, hp⟩ | ⟨x, hx, hix, hcx⟩
              · exact TySound.of_err (by simp [evaluate, he]) hp
              · cases x with
                | true =>
                  have hcc := hcx rfl
                  have heq : w.eval (.ite c t e) = w.eval t := by simp [evaluate, hx, Value.asBool]
                  rcases (iht' hcc).1 with ⟨err, he, hp⟩ | ⟨v, hv, hi, hcv⟩
                  · exact Or.inl ⟨err, by rw [heq, he], hp⟩
                  · exact Or.inr ⟨v, by rw [heq, hv], hlt v hi, fun hvt => capsHold_inter_right (capsHold_union.mpr ⟨hcv hvt, hcc⟩)⟩
                | false =>
                  have heq : w.eval (.ite c t e) = w.eval e := by simp [evaluate, hx, Value.asBool]
                  rcases se with ⟨err, he, hp⟩ | ⟨v, hv, hi, hcv⟩
                  · exact Or.inl ⟨err, by rw [heq, he], hp⟩
                  · exact Or.inr ⟨v, by rw [heq, hv], hle v hi, fun hvt => capsHold_inter_left (hcv hvt)⟩
            · -- typed True: both branches are typed True, so the else capabilities hold unconditionally
              have hme := typeOf_mono hWF henv e hfe caps τe ce hE
              rcases (httc htt).2 with h1 | h1
              · exact capsHold_inter_left (se2 h1)
              · rw [h1] at hme; simp [CedarType.mono] at hme
  | .unaryApp op a, hf, caps, τ, c', h, hc => by
    simp only [InFragment, Bool.and_eq_true, Bool.or_eq_true, beq_iff_eq] at hf
    have iha := typeOf_sound_aux (m := m) hWF henv hreq hst a hf.2
    rcases hf.1 with rfl | rfl
    · simp only [typeOf] at h
      cases hA : expectOneOf (typeOf m s env a caps) [boolT] with
      | error err => rw [hA] at h; cases h
      | ok pa =>
        obtain ⟨τa, ca⟩ := pa
        rw [hA] at h
        obtain ⟨hta, hsa⟩ := expectOneOf_ok hA
        have hba := subtype_bool hsa
        obtain ⟨sa, _⟩ := iha caps τa ca hta hc
        rcases hba with rfl | ⟨bt, rfl⟩
        · simp only [ok, Except.ok.injEq, Prod.mk.injEq] at h; obtain ⟨rfl, rfl⟩ := h
          exact ⟨not_sound sa (Or.inl rfl) (by intro x hx; simp [boolInst] at hx), fun h => by cases h⟩
        · cases bt <;> simp only [ok, Except.ok.injEq, Prod.mk.injEq] at h <;> obtain ⟨rfl, rfl⟩ := h
          · exact ⟨not_sound sa (Or.inr ⟨_, rfl⟩) (by intro x _; simp [boolInst, boolT]), fun h => by cases h⟩
          · exact ⟨not_sound sa (Or.inr ⟨_, rfl⟩) (by intro x hx; simpa [boolInst] using hx), fun _ => capsHold_nil w⟩
          · exact ⟨not_sound sa (Or.inr ⟨_, rfl⟩) (by intro x hx; simpa [boolInst] using hx), fun _ => capsHold_nil w⟩
    · simp only [typeOf] at h
      cases hA : expectOneOf (typeOf m s env a caps) [.long] with
      | error err => rw [hA] at h; cases h
      | ok pa =>
        obtain ⟨τa, ca⟩ := pa
        rw [hA] at h
        simp only [ok, Except.ok.injEq, Prod.mk.injEq] at h; obtain ⟨rfl, rfl⟩ := h
        obtain ⟨hta, hsa⟩ := expectOneOf_ok hA
        exact neg_sound (iha caps τa ca hta hc).1 (subtype_long hsa)
  | .binaryApp op a b, hf, caps, τ, c', h, hc => by
    simp only [InFragment, Bool.and_eq_true, Bool.or_eq_true, beq_iff_eq] at hf
    have iha := typeOf_sound_aux (m := m) hWF henv hreq hst a hf.1.2
    have ihb := typeOf_sound_aux (m := m) hWF henv hreq hst b hf.2
    have hop := hf.1.1
    rcases hop with hop | rfl
    · have key : ∃ τa ca τb cb, expectOneOf (typeOf m s env a caps) [.long] = .ok (τa, ca) ∧
          expectOneOf (typeOf m s env b caps) [.long] = .ok (τb, cb) ∧ τ = .long ∧ c' = [] := by
        rcases hop with (rfl | rfl) | rfl <;> simp only [typeOf] at h <;> obtain ⟨τa, ca, τb, cb, h1, h2, hk⟩ := both_ok h <;>
          simp only [ok, Except.ok.injEq, Prod.mk.injEq] at hk <;> exact ⟨τa, ca, τb, cb, h1, h2, hk.1.symm, hk.2.symm⟩
      obtain ⟨τa, ca, τb, cb, hA, hB, rfl, rfl⟩ := key
      obtain ⟨hta, hsa⟩ := expectOneOf_ok hA
      obtain ⟨htb, hsb⟩ := expectOneOf_ok hB
      exact arith_sound (by rcases hop with (h | h) | h <;> simp [h]) (iha caps τa ca hta hc).1 (subtype_long hsa)
        (ihb caps τb cb htb hc).1 (subtype_long hsb)
    · simp only [typeOf] at h
      obtain ⟨τa, ca, τb, cb, hta, htb, hk⟩ := both_ok h
      split at hk
      · cases hk
      · simp only [ok, Except.ok.injEq, Prod.mk.injEq] at hk; obtain ⟨rfl, rfl⟩ := hk
        exact eq_good henv (iha caps τa ca hta hc).1 (ihb caps τb cb htb hc).1
          (typeOf_mono hWF henv a hf.1.2 caps τa ca hta) (typeOf_mono hWF henv b hf.2 caps τb cb htb)
  | .getAttr e a, hf, caps, τ, c', h, hc => by
    simp only [InFragment] at hf
    have ihe := typeOf_sound_aux (m := m) hWF henv hreq hst e hf
    simp only [typeOf] at h
    cases hE : expectOneOf (typeOf m s env e caps) [.anyEntity, anyRecord] with
    | error err => rw [hE] at h; cases h
    | ok pe =>
      obtain ⟨τe, ce⟩ := pe
      rw [hE] at h
      obtain ⟨hte, hsub⟩ := expectOneOf_ok hE
      obtain ⟨se, _⟩ := ihe caps τe ce hte hc
      have hme := typeOf_mono hWF henv e hf caps τe ce hte
      have hshape : τe = .never ∨ (∃ l, τe = .entity l) ∨ ∃ attrs o, τe = .record attrs o := by
        rcases subtype_entityOrRecord hsub with h1 | h1 | h1 | h1
        · exact Or.inl h1
        · rw [h1] at hme; simp [CedarType.mono] at hme
        · exact Or.inr (Or.inl h1)
        · exact Or.inr (Or.inr h1)
      split at h
      · cases h
      · cases h
      · rename_i τe' ce' hne heq
        simp only [Except.ok.injEq, Prod.mk.injEq] at heq; obtain ⟨rfl, rfl⟩ := heq
        cases hl : lookupAttr s τe a with
        | none => rw [hl] at h; cases h
        | some qt =>
          obtain ⟨req, τa⟩ := qt
          rw [hl] at h; simp only at h
          split at h
          · rename_i hcond
            simp only [ok, Except.ok.injEq, Prod.mk.injEq] at h; obtain ⟨rfl, rfl⟩ := h
            exact getAttr_good (m := m) hWF hst hc se hme hshape hl hcond
          · cases h
  | .hasAttr e a, hf, caps, τ, c', h, hc => by
    simp only [InFragment] at hf
    have ihe := typeOf_sound_aux (m := m) hWF henv hreq hst e hf
    simp only [typeOf] at h
    cases hE : expectOneOf (typeOf m s env e caps) [.anyEntity, anyRecord] with
    | error err => rw [hE] at h; cases h
    | ok pe =>
      obtain ⟨τe, ce⟩ := pe
      rw [hE] at h
      obtain ⟨hte, hsub⟩ := expectOneOf_ok hE
      obtain ⟨se, _⟩ := ihe caps τe ce hte hc
      have hme := typeOf_mono hWF henv e hf caps τe ce hte
      have hshape : τe = .never ∨ (∃ l, τe = .entity l) ∨ ∃ attrs o, τe = .record attrs o := by
        rcases subtype_entityOrRecord hsub with h1 | h1 | h1 | h1
        · exact Or.inl h1
        · rw [h1] at hme; simp [CedarType.mono] at hme
        · exact Or.inr (Or.inl h1)
        · exact Or.inr (Or.inr h1)
      split at h
      · cases h
      · cases h
      · rename_i τe' ce' hne heq
        simp only [Except.ok.injEq, Prod.mk.injEq] at heq; obtain ⟨rfl, rfl⟩ := heq
        exact hasAttr_good hWF hst hc se hme hshape h
  | .slot _, hf, _, _, _, _, _ => by simp [InFragment] at hf
  | .unknown _ _, hf, _, _, _, _, _ => by simp [InFragment] at hf
  | .call _ _, hf, _, _, _, _, _ => by simp [InFragment] at hf
  | .like e pat, hf, caps, τ, c', h, hc => by
    simp only [InFragment] at hf
    have ihe := typeOf_sound_aux (m := m) hWF henv hreq hst e hf
    simp only [typeOf] at h
    cases hE : expectOneOf (typeOf m s env e caps) [.string] with
    | error err => rw [hE] at h; cases h
    | ok pe =>
      obtain ⟨τe, ce⟩ := pe
      rw [hE] at h
      simp only [ok, Except.ok.injEq, Prod.mk.injEq] at h; obtain ⟨rfl, rfl⟩ := h
      obtain ⟨hte, hsub⟩ := expectOneOf_ok hE
      rcases (ihe caps τe ce hte hc).1 with ⟨err, he, hp⟩ | ⟨v, hv, hi, _⟩
      · exact Good.err (by simp [evaluate, he]) hp
      · obtain ⟨str, rfl⟩ := inst_string hi (subtype_string hsub)
        exact Good.value (v := .prim (.bool (wm pat str.toList))) (by simp [evaluate, hv, Value.asString]) (.anyBool _)
  | .is e ty, hf, caps, τ, c', h, hc => by
    simp only [InFragment] at hf
    have ihe := typeOf_sound_aux (m := m) hWF henv hreq hst e hf
    simp only [typeOf] at h
    cases hE : expectOneOf (typeOf m s env e caps) [.anyEntity] with
    | error err => rw [hE] at h; cases h
    | ok pe =>
      obtain ⟨τe, ce⟩ := pe
      rw [hE] at h
      obtain ⟨hte, hsub⟩ := expectOneOf_ok hE
      have hme := typeOf_mono hWF henv e hf caps τe ce hte
      rcases subtype_anyEntity hsub with rfl | rfl | ⟨l, rfl⟩
      · simp [CedarType.mono] at hme
      · simp [CedarType.mono] at hme
      · obtain ⟨T, rfl⟩ := mono_entity hme
        simp only [ok, Except.ok.injEq, Prod.mk.injEq] at h; obtain ⟨rfl, rfl⟩ := h
        rcases (ihe caps _ ce hte hc).1 with ⟨err, he, hp⟩ | ⟨v, hv, hi, _⟩
        · exact ⟨Or.inl ⟨err, by simp [evaluate, he], hp⟩, fun _ => capsHold_nil w⟩
        · obtain ⟨u, rfl, hT⟩ := inst_entity_single hi
          subst hT
          refine ⟨TySound.of_bool (b := u.ty == ty) (by simp [evaluate, hv, Value.asEntity]) ?_ (fun _ => capsHold_nil w),
            fun _ => capsHold_nil w⟩
          by_cases hty : u.ty = ty
          · subst hty; simp [boolInst]
          · simp [boolInst, hty, Ne.symm hty]
  | .set _, hf, _, _, _, _, _ => by simp [InFragment] at hf
  | .record _, hf, _, _, _, _, _ => by simp [InFragment] at hf

end Cedar
