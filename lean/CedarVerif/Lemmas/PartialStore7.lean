import CedarVerif.Lemmas.PartialStore4
/-
C13: the restricted evaluator (`RestrictedEvaluator::partial_interpret`, model `rinterp`) is sound for `evaluate` — a
value it returns is the value of the expression in every request / store / slot environment — hence
`Context::substitute` succeeding with a value gives `CtxCompletes`, and `concretize_request σ = ok (concrete request)`
gives `Concretizes2` (for a residual context that lies in the fragment).
-/
namespace Cedar
namespace PS

theorem splitPV_inl_values {pvs : List PartialValue} {vs : List Value} (h : splitPV pvs = .inl vs) :
    pvs = vs.map PartialValue.value := splitPV_inl h

theorem collectPV_error_not_val {f : Expr → PRes} {xs : List Expr} {r : PRes} (h : collectPV f xs = .error r) :
    ∀ v, r ≠ .val v := by
  induction xs with
  | nil => simp [collectPV] at h
  | cons x xs ih =>
    simp only [collectPV] at h
    cases hx : f x with
    | val v =>
      rw [hx] at h
      cases hc : collectPV f xs with
      | error r' => rw [hc] at h; simp only [Except.map, Except.error.injEq] at h; subst h; exact ih hc
      | ok pvs => rw [hc] at h; simp [Except.map] at h
    | res e =>
      rw [hx] at h
      cases hc : collectPV f xs with
      | error r' => rw [hc] at h; simp only [Except.map, Except.error.injEq] at h; subst h; exact ih hc
      | ok pvs => rw [hc] at h; simp [Except.map] at h
    | err c => rw [hx] at h; simp only [Except.error.injEq] at h; subst h; intro v; simp
    | fuel => rw [hx] at h; simp only [Except.error.injEq] at h; subst h; intro v; simp
    | panic => rw [hx] at h; simp only [Except.error.injEq] at h; subst h; intro v; simp

theorem collectPVKVs_error_not_val {f : Expr → PRes} {kvs : List (String × Expr)} {r : PRes}
    (h : collectPVKVs f kvs = .error r) : ∀ v, r ≠ .val v := by
  induction kvs with
  | nil => simp [collectPVKVs] at h
  | cons kv kvs ih =>
    obtain ⟨k, x⟩ := kv
    simp only [collectPVKVs] at h
    cases hx : f x with
    | val v =>
      rw [hx] at h
      cases hc : collectPVKVs f kvs with
      | error r' => rw [hc] at h; simp only [Except.map, Except.error.injEq] at h; subst h; exact ih hc
      | ok pvs => rw [hc] at h; simp [Except.map] at h
    | res e =>
      rw [hx] at h
      cases hc : collectPVKVs f kvs with
      | error r' => rw [hc] at h; simp only [Except.map, Except.error.injEq] at h; subst h; exact ih hc
      | ok pvs => rw [hc] at h; simp [Except.map] at h
    | err c => rw [hx] at h; simp only [Except.error.injEq] at h; subst h; intro v; simp
    | fuel => rw [hx] at h; simp only [Except.error.injEq] at h; subst h; intro v; simp
    | panic => rw [hx] at h; simp only [Except.error.injEq] at h; subst h; intro v; simp

section
variable (req : Request) (es : Entities) (env : SlotEnv)

theorem collect_values (f : Expr → PRes) (xs : List Expr) (vs : List Value)
    (hf : ∀ x, x ∈ xs → ∀ v, f x = .val v → evaluate req es env x = .ok v)
    (h : collectPV f xs = .ok (vs.map PartialValue.value)) : evaluateList req es env xs = .ok vs := by
  induction xs generalizing vs with
  | nil =>
    simp only [collectPV] at h
    cases vs with
    | nil => rfl
    | cons v vs => simp at h
  | cons x xs ih =>
    simp only [collectPV] at h
    cases hx : f x with
    | val v =>
      rw [hx] at h
      cases hc : collectPV f xs with
      | error r => rw [hc] at h; simp [Except.map] at h
      | ok pvs =>
        rw [hc] at h
        simp only [Except.map, Except.ok.injEq] at h
        cases vs with
        | nil => simp at h
        | cons w ws =>
          simp only [List.map_cons, List.cons.injEq, PartialValue.value.injEq] at h
          obtain ⟨rfl, rfl⟩ := h
          have e1 := hf x (List.mem_cons_self ..) v hx
          have e2 := ih ws (fun y hy => hf y (List.mem_cons_of_mem _ hy)) hc
          simp [evaluateList, e1, e2]
    | res r =>
      rw [hx] at h
      cases hc : collectPV f xs with
      | error r => rw [hc] at h; simp [Except.map] at h
      | ok pvs =>
        rw [hc] at h
        simp only [Except.map, Except.ok.injEq] at h
        cases vs with
        | nil => simp at h
        | cons w ws => simp at h
    | err c => rw [hx] at h; simp at h
    | fuel => rw [hx] at h; simp at h
    | panic => rw [hx] at h; simp at h

theorem collectKVs_values (f : Expr → PRes) (kvs : List (String × Expr)) (pkvs : List (String × PartialValue)) (vs : List Value)
    (hf : ∀ kv, kv ∈ kvs → ∀ v, f kv.2 = .val v → evaluate req es env kv.2 = .ok v)
    (h : collectPVKVs f kvs = .ok pkvs) (hv : pkvs.map (·.2) = vs.map PartialValue.value) :
    evaluateKVs req es env kvs = .ok ((pkvs.map (·.1)).zip vs) := by
  induction kvs generalizing pkvs vs with
  | nil =>
    simp only [collectPVKVs, Except.ok.injEq] at h
    subst h
    cases vs with
    | nil => rfl
    | cons v vs => simp at hv
  | cons kv kvs ih =>
    obtain ⟨k, x⟩ := kv
    simp only [collectPVKVs] at h
    cases hx : f x with
    | val v =>
      rw [hx] at h
      cases hc : collectPVKVs f kvs with
      | error r => rw [hc] at h; simp [Except.map] at h
      | ok pvs =>
        rw [hc] at h
        simp only [Except.map, Except.ok.injEq] at h
        subst h
        cases vs with
        | nil => simp at hv
        | cons w ws =>
          simp only [List.map_cons, List.cons.injEq, PartialValue.value.injEq] at hv
          obtain ⟨rfl, hv'⟩ := hv
          have e1 := hf (k, x) (List.mem_cons_self ..) v hx
          have e2 := ih pvs ws (fun y hy => hf y (List.mem_cons_of_mem _ hy)) hc hv'
          simp only at e1
          simp [evaluateKVs, e1, e2]
    | res r =>
      rw [hx] at h
      cases hc : collectPVKVs f kvs with
      | error r => rw [hc] at h; simp [Except.map] at h
      | ok pvs =>
        rw [hc] at h
        simp only [Except.map, Except.ok.injEq] at h
        subst h
        cases vs with
        | nil => simp at hv
        | cons w ws => simp at hv
    | err c => rw [hx] at h; simp at h
    | fuel => rw [hx] at h; simp at h
    | panic => rw [hx] at h; simp at h

/-- **the restricted evaluator is sound**: a value is the value of the expression, whatever the request, store, slots -/
theorem rinterp_sound : ∀ (n : Nat) (e : Expr) (v : Value), rinterp n e = .val v → evaluate req es env e = .ok v := by
  intro n
  induction n with
  | zero => intro e v h; simp [rinterp] at h
  | succ n ih =>
    intro e v h
    cases e with
    | lit p => simp only [rinterp, PRes.val.injEq] at h; subst h; simp [evaluate]
    | unknown name ty => simp [rinterp] at h
    | set xs =>
      simp only [rinterp] at h
      cases hc : collectPV (rinterp n) xs with
      | error r => rw [hc] at h; simp only at h; subst h; exact absurd hc (by
          intro hc'; have := collectPV_error_not_val hc'; exact this v rfl)
      | ok pvs =>
        rw [hc] at h; simp only at h
        cases hs : splitPV pvs with
        | inr rs => rw [hs] at h; simp at h
        | inl vs =>
          rw [hs] at h
          simp only [PRes.val.injEq] at h
          subst h
          have hp := splitPV_inl hs; subst hp
          have := collect_values req es env (rinterp n) xs vs (fun x _ w hw => ih x w hw) hc
          simp [evaluate, this]
    | call fn args =>
      simp only [rinterp] at h
      cases hc : collectPV (rinterp n) args with
      | error r => rw [hc] at h; simp only at h; subst h; exact absurd hc (by
          intro hc'; have := collectPV_error_not_val hc'; exact this v rfl)
      | ok pvs =>
        rw [hc] at h; simp only at h
        cases hs : splitPV pvs with
        | inr rs => rw [hs] at h; simp at h
        | inl vs =>
          rw [hs] at h
          simp only at h
          have hp := splitPV_inl hs; subst hp
          have hl := collect_values req es env (rinterp n) args vs (fun x _ w hw => ih x w hw) hc
          unfold pcallExt at h
          split at h
          · split at h
            · split at h <;> simp at h
            · simp at h
          · cases hce : callExt fn vs with
            | error c => rw [hce] at h; simp [PRes.ofResult] at h
            | ok w =>
              rw [hce] at h
              simp only [PRes.ofResult, PRes.val.injEq] at h
              subst h
              simp [evaluate, hl, hce]
    | record kvs =>
      simp only [rinterp] at h
      cases hc : collectPVKVs (rinterp n) kvs with
      | error r => rw [hc] at h; simp only at h; subst h; exact absurd hc (by
          intro hc'; have := collectPVKVs_error_not_val hc'; exact this v rfl)
      | ok pkvs =>
        rw [hc] at h; simp only at h
        cases hs : splitPV (pkvs.map (·.2)) with
        | inr rs => rw [hs] at h; simp at h
        | inl vs =>
          rw [hs] at h
          simp only [PRes.val.injEq] at h
          subst h
          have := collectKVs_values req es env (rinterp n) kvs pkvs vs (fun kv _ w hw => ih kv.2 w hw) hc (splitPV_inl hs)
          simp [evaluate, this]
    | _ => simp [rinterp] at h

end

/-! ### the steps of `concretize_request` give the components of `Concretizes2` -/

theorem conc_of_concretize {σ : Mapper} {en : UidEntry} {key : String} {uid : EntityUID}
    (h : en.concretize key σ = .ok (.known uid)) : en.Conc σ key uid := by
  unfold UidEntry.concretize at h
  cases hl : lookupKV σ key with
  | none =>
    rw [hl] at h
    simp only [Except.ok.injEq] at h
    subst h
    rfl
  | some val =>
    rw [hl] at h
    simp only at h
    cases ha : val.asEntity with
    | error c => rw [ha] at h; simp at h
    | ok uid' =>
      rw [ha] at h
      have hv := asEntity_ok ha
      subst hv
      cases en with
      | known u => simp at h
      | unknown ty =>
        cases ty with
        | none =>
          simp only [Except.ok.injEq, UidEntry.known.injEq] at h
          subst h
          exact hl
        | some t =>
          simp only at h
          split at h
          · rename_i ht
            simp only [Except.ok.injEq, UidEntry.known.injEq] at h
            subst h
            exact ⟨hl, by simpa using (beq_iff_eq.mp ht).symm⟩
          · simp at h

/-- `Context::substitute` returning a value context — the restricted evaluator run on the substituted residual record —
    gives `CtxCompletes` for a residual context of the fragment -/
theorem ctxCompletes_of_substitute (σ : Mapper) (es : Entities) {kvs : List (String × Expr)} {ctx : List (String × Value)}
    (hf : Frag2 σ (.record kvs)) (h : (PContext.residual kvs).substitute σ = .ok (.value ctx)) :
    CtxCompletes σ es (some (.residual kvs)) ctx := by
  unfold PContext.substitute at h
  simp only at h
  cases hr : rinterp defaultFuel (Expr.substUnk σ (.record kvs)) with
  | val v =>
    rw [hr] at h
    cases v with
    | record r =>
      simp only [Except.ok.injEq, PContext.value.injEq] at h
      subst h
      exact ⟨hf, fun req env => rinterp_sound req es env _ _ _ hr⟩
    | prim p => simp at h
    | set vs => simp at h
    | ext x => simp at h
  | res r =>
    rw [hr] at h
    cases r <;> simp at h
  | err c => rw [hr] at h; simp at h
  | fuel => rw [hr] at h; simp at h
  | panic => rw [hr] at h; simp at h

end PS
end Cedar
