import CedarVerif.Cedar.Est.Policy
/-
Helper lemmas for C06: well-formedness of expressions (the invariants every Rust `ast::Expr` obtained from
Cedar text satisfies) and the round trip `toExpr (ofExpr e) = ok e`.
-/
namespace Cedar.Est
open Cedar

def isBoolLit : Expr → Bool
  | .lit (.bool _) => true
  | _ => false

/- Invariants of a Rust `ast::Expr` that came out of the Cedar parser (or any builder-made tree that is
expressible in Cedar text):
 * `Long`s are `i64`; entity types and `is` types are valid (normalised) names;
 * no `Unknown` node (not expressible in text);
 * extension calls name a known extension function (the parser rejects others);
 * `&&` / `||` never have two Boolean literals as children (`ExprBuilder::and/or` fold them);
 * record literals are key-sorted without duplicates (`BTreeMap`). -/
mutual
def WF : Expr → Prop
  | .lit (.int i) => inI64 i = true
  | .lit (.entityUID u) => validName u.ty = true
  | .lit (.bool _) => True
  | .lit (.string _) => True
  | .var _ => True
  | .slot _ => True
  | .unknown _ _ => False
  | .ite c t e => WF c ∧ WF t ∧ WF e
  | .and a b => WF a ∧ WF b ∧ (isBoolLit a && isBoolLit b) = false
  | .or a b => WF a ∧ WF b ∧ (isBoolLit a && isBoolLit b) = false
  | .unaryApp _ a => WF a
  | .binaryApp _ a b => WF a ∧ WF b
  | .call fn args => isKnownExt fn = true ∧ WFs args
  | .getAttr e _ => WF e
  | .hasAttr e _ => WF e
  | .like e _ => WF e
  | .is e ty => WF e ∧ validName ty = true
  | .set es => WFs es
  | .record kvs => WFKVs kvs ∧ SortedKeys kvs
def WFs : List Expr → Prop
  | [] => True
  | e :: es => WF e ∧ WFs es
def WFKVs : List (String × Expr) → Prop
  | [] => True
  | (_, e) :: kvs => WF e ∧ WFKVs kvs
end

theorem mkAnd_of_not_lits (a b : Expr) (h : (isBoolLit a && isBoolLit b) = false) : mkAnd a b = .and a b := by
  unfold mkAnd
  split
  · simp [isBoolLit] at h
  · rfl

theorem mkOr_of_not_lits (a b : Expr) (h : (isBoolLit a && isBoolLit b) = false) : mkOr a b = .or a b := by
  unfold mkOr
  split
  · simp [isBoolLit] at h
  · rfl

theorem seqKVs_map_ok {α} (kvs : List (String × α)) :
    seqKVs (kvs.map (fun p => (p.1, (Except.ok p.2 : R α)))) = .ok kvs := by
  induction kvs with
  | nil => rfl
  | cons p rest ih =>
    obtain ⟨k, v⟩ := p
    simp [seqKVs, ih, bind, Except.bind]

theorem sortKVs_sorted {α} : (kvs : List (String × α)) → SortedKeys kvs → sortKVs kvs = some kvs
  | [], _ => rfl
  | [(k, v)], _ => by simp [sortKVs, insertSortedKV]
  | (k, v) :: (k', v') :: rest, h => by
    have h' : k < k' ∧ SortedKeys ((k', v') :: rest) := h
    have ih := sortKVs_sorted ((k', v') :: rest) h'.2
    simp only [sortKVs] at ih ⊢
    rw [ih]
    simp [insertSortedKV, h'.1]

theorem singleton_toList (c : Char) : (String.singleton c).toList = [c] := by simp

theorem readPattern_map (p : Pattern) : readPattern (p.map patElemJson) = .ok p := by
  induction p with
  | nil => rfl
  | cons x xs ih =>
    cases x with
    | star => simp [readPattern, patElemJson, readPatElem, ih, bind, Except.bind]
    | char c =>
      simp only [List.map, readPattern, patElemJson, readPatElem, ih, bind, Except.bind, singleton_toList]
      rfl

theorem toExprFields_eq (kvs : List (String × Expr))
    (h : toExprFields (ofExprKVs kvs) = kvs.map (fun p => (p.1, (Except.ok p.2 : R Expr))))
    (hs : SortedKeys kvs) : recordOf (toExprFields (ofExprKVs kvs)) = .ok (.record kvs) := by
  rw [h]
  simp [recordOf, seqKVs_map_ok, bind, Except.bind, sortKVs_sorted kvs hs]

theorem notKnown_ops :
    isKnownExt "Value" = false ∧ isKnownExt "Var" = false ∧ isKnownExt "Slot" = false ∧ isKnownExt "Set" = false
    ∧ isKnownExt "Record" = false ∧ isKnownExt "if-then-else" = false ∧ isKnownExt "&&" = false ∧ isKnownExt "||" = false
    ∧ isKnownExt "." = false ∧ isKnownExt "has" = false ∧ isKnownExt "like" = false ∧ isKnownExt "is" = false := by
  decide

theorem notKnown_unKey (op : UnaryOp) : isKnownExt (unKey op) = false := by cases op <;> decide
theorem notKnown_binKey (op : BinaryOp) : isKnownExt (binKey op) = false := by cases op <;> decide

mutual
theorem toExpr_ofExpr : (e : Expr) → WF e → toExpr (ofExpr e) = .ok e
  | .lit (.bool b), _ => by simp [ofExpr, jobj1, primJson, toExpr, toExprObj, toExprNode, notKnown_ops, valueToExpr]
  | .lit (.int i), h => by
    have h : inI64 i = true := h
    simp [ofExpr, jobj1, primJson, toExpr, toExprObj, toExprNode, notKnown_ops, valueToExpr, h]
  | .lit (.string s), _ => by simp [ofExpr, jobj1, primJson, toExpr, toExprObj, toExprNode, notKnown_ops, valueToExpr]
  | .lit (.entityUID u), h => by
    have h : validName u.ty = true := h
    simp [ofExpr, jobj1, primJson, uidJson, toExpr, toExprObj, toExprNode, notKnown_ops, valueToExpr, valueObj,
      escapeOf, jlookup, noDupKeys, hasKey, uidOf, h, Except.map]
  | .var v, _ => by cases v <;> simp [ofExpr, jobj1, varName, toExpr, toExprObj, toExprNode, notKnown_ops, readVar, Except.map]
  | .slot s, _ => by cases s <;> simp [ofExpr, jobj1, slotName, toExpr, toExprObj, toExprNode, notKnown_ops, readSlot, Except.map]
  | .unknown _ _, h => absurd h (by simp [WF])
  | .ite c t e, h => by
    have h : WF c ∧ WF t ∧ WF e := h
    simp [ofExpr, jobj1, toExpr, toExprObj, toExprNode, notKnown_ops, nodeOfFields, exactKeys, hasKey, toExprFields, getR,
      toExpr_ofExpr c h.1, toExpr_ofExpr t h.2.1, toExpr_ofExpr e h.2.2, bind, Except.bind]
  | .and a b, h => by
    have h : WF a ∧ WF b ∧ (isBoolLit a && isBoolLit b) = false := h
    simp [ofExpr, jobj1, jLR, toExpr, toExprObj, toExprNode, notKnown_ops, nodeOfFields, readLR, exactKeys, hasKey, toExprFields, getR,
      toExpr_ofExpr a h.1, toExpr_ofExpr b h.2.1, bind, Except.bind, mkAnd_of_not_lits a b h.2.2]
  | .or a b, h => by
    have h : WF a ∧ WF b ∧ (isBoolLit a && isBoolLit b) = false := h
    simp [ofExpr, jobj1, jLR, toExpr, toExprObj, toExprNode, notKnown_ops, nodeOfFields, readLR, exactKeys, hasKey, toExprFields, getR,
      toExpr_ofExpr a h.1, toExpr_ofExpr b h.2.1, bind, Except.bind, mkOr_of_not_lits a b h.2.2]
  | .unaryApp op a, h => by
    have h : WF a := h
    cases op <;>
    simp [ofExpr, jobj1, jArg, unKey, toExpr, toExprObj, toExprNode, isKnownExt, knownExtFns, nodeOfFields, readArg, exactKeys, hasKey,
      toExprFields, getR, toExpr_ofExpr a h, Except.map]
  | .binaryApp op a b, h => by
    have h : WF a ∧ WF b := h
    cases op <;>
    simp [ofExpr, jobj1, jLR, binKey, toExpr, toExprObj, toExprNode, isKnownExt, knownExtFns, nodeOfFields, readLR, exactKeys, hasKey,
      toExprFields, getR, toExpr_ofExpr a h.1, toExpr_ofExpr b h.2, bind, Except.bind]
  | .call fn args, h => by
    have h : isKnownExt fn = true ∧ WFs args := h
    simp [ofExpr, jobj1, toExpr, toExprObj, toExprNode, h.1, toExprs_ofExprs args h.2, Except.map]
  | .getAttr e a, h => by
    have h : WF e := h
    simp [ofExpr, jobj1, toExpr, toExprObj, toExprNode, notKnown_ops, nodeOfFields, exactKeys, hasKey, toExprFields, getR, getS, jlookup,
      toExpr_ofExpr e h, bind, Except.bind]
  | .hasAttr e a, h => by
    have h : WF e := h
    simp [ofExpr, jobj1, toExpr, toExprObj, toExprNode, notKnown_ops, nodeOfFields, noDupKeys, hasKey, toExprFields, getR, jlookup,
      toExpr_ofExpr e h, Except.map]
  | .like e p, h => by
    have h : WF e := h
    simp [ofExpr, jobj1, toExpr, toExprObj, toExprNode, notKnown_ops, nodeOfFields, exactKeys, hasKey, toExprFields, getR, jlookup,
      toExpr_ofExpr e h, bind, Except.bind, readPattern_map]
  | .is e ty, h => by
    have h : WF e ∧ validName ty = true := h
    simp [ofExpr, jobj1, toExpr, toExprObj, toExprNode, notKnown_ops, nodeOfFields, exactKeys, hasKey, toExprFields, getR, getS, jlookup,
      toExpr_ofExpr e h.1, bind, Except.bind, h.2]
  | .set es, h => by
    have h : WFs es := h
    simp [ofExpr, jobj1, toExpr, toExprObj, toExprNode, notKnown_ops, toExprs_ofExprs es h, Except.map]
  | .record kvs, h => by
    have h : WFKVs kvs ∧ SortedKeys kvs := h
    simp [ofExpr, jobj1, toExpr, toExprObj, toExprNode, notKnown_ops, toExprFields_eq kvs (toExprFields_ofExprKVs kvs h.1) h.2]
theorem toExprs_ofExprs : (es : List Expr) → WFs es → toExprs (ofExprs es) = .ok es
  | [], _ => by simp [ofExprs, toExprs]
  | e :: es, h => by
    have h : WF e ∧ WFs es := h
    simp [ofExprs, toExprs, toExpr_ofExpr e h.1, toExprs_ofExprs es h.2, bind, Except.bind]
theorem toExprFields_ofExprKVs : (kvs : List (String × Expr)) → WFKVs kvs →
    toExprFields (ofExprKVs kvs) = kvs.map (fun p => (p.1, (Except.ok p.2 : R Expr)))
  | [], _ => by simp [ofExprKVs, toExprFields]
  | (k, e) :: kvs, h => by
    have h : WF e ∧ WFKVs kvs := h
    simp [ofExprKVs, toExprFields, toExpr_ofExpr e h.1, toExprFields_ofExprKVs kvs h.2]
end

end Cedar.Est
