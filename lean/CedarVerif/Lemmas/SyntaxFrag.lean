import CedarVerif.Lemmas.SyntaxParse
/-
C05: the fragment on which `Parse.expr (Print.expr e) = some e` is proved, and the operand-level lemmas.
-/
namespace Cedar.Syntax
open Cedar

def fsize : Expr → Nat
  | .ite c t e => 1 + fsize c + fsize t + fsize e
  | .and a b => 1 + fsize a + fsize b
  | .or a b => 1 + fsize a + fsize b
  | .unaryApp _ a => 1 + fsize a
  | .binaryApp _ a b => 1 + fsize a + fsize b
  | .getAttr e _ => 1 + fsize e
  | .hasAttr e _ => 1 + fsize e
  | .like e _ => 1 + fsize e
  | .is e _ => 1 + fsize e
  | _ => 1

theorem fsize_pos (e : Expr) : 1 ≤ fsize e := by
  cases e <;> simp [fsize] <;> omega

def isBoolLit : Expr → Bool
  | .lit (.bool _) => true
  | _ => false

def infixOp : BinaryOp → Bool
  | .eq | .less | .lessEq | .mem | .add | .sub | .mul => true
  | _ => false

/-- The fragment of `parse_print_partial`: literals (Bool, every i64, every string), variables, `!`, unary minus,
`* + - == < <= in`, `&&`, `||`, `if-then-else`, arbitrarily nested, where the left operand of `&& || + - *` is not
the same operator again (those are the nodes the printer leaves unparenthesised on the left), and `&&`/`||` do not
join two Boolean literals (the parser folds those, so they are not in its image). -/
def inFrag : Expr → Bool
  | .lit (.bool _) => true
  | .lit (.int i) => decide (-(Int.ofNat i64Max) - 1 ≤ i ∧ i ≤ Int.ofNat i64Max)
  | .lit (.string _) => true
  | .var _ => true
  | .ite c t e => inFrag c && inFrag t && inFrag e
  | .and a b => inFrag a && inFrag b && !(isBoolLit a && isBoolLit b) && !isAnd a
  | .or a b => inFrag a && inFrag b && !(isBoolLit a && isBoolLit b) && !isOr a
  | .unaryApp .not a => inFrag a
  | .unaryApp .neg a => inFrag a
  | .binaryApp op a b => infixOp op && inFrag a && inFrag b && !isBin op a
  | _ => false

def isAtom : Expr → Bool
  | .lit (.bool _) | .lit (.int _) | .lit (.string _) | .var _ => true
  | _ => false

theorem atom_of_noParens {e : Expr} (hf : inFrag e = true) (hp : needsParens e = false) : isAtom e = true := by
  cases e with
  | lit p => cases p <;> simp_all [isAtom, inFrag]
  | var v => rfl
  | unaryApp op a => cases op <;> simp_all [inFrag, needsParens]
  | binaryApp op a b => cases op <;> simp_all [inFrag, needsParens, infixOp]
  | _ => simp_all [inFrag, needsParens]

theorem mkAnd_eq {a b : Expr} (h : (isBoolLit a && isBoolLit b) = false) : mkAnd a b = .and a b := by
  unfold mkAnd
  split
  · simp [isBoolLit] at h
  · rfl
theorem mkOr_eq {a b : Expr} (h : (isBoolLit a && isBoolLit b) = false) : mkOr a b = .or a b := by
  unfold mkOr
  split
  · simp [isBoolLit] at h
  · rfl

theorem strOfRaw_escapeStr (me : Char → Bool) (s : String) : strOfRaw (escapeStr me s.toList) = some s := by
  unfold strOfRaw escapeStr unescapeStr
  rw [unescapeGo_escapeStrAt]
  simp [Except.map, patChars_map_char, String.ofList_toList]

theorem primary_ident (pe : P EOS) (s : String) {ts : List Token} (h : 1 ≤ headLv ts) :
    primary pe (.ident s :: ts) =
      if s = "true" then some (.boolLit true, ts)
      else if s = "false" then some (.boolLit false, ts)
      else match varOfName s with
        | some v => some (.var v, ts)
        | none => if unreservedIdent s then some (.name [] s, ts) else none := by
  simp only [primary, pathRest_stop h]
  have fin : ∀ (rest : List Token),
      (if s = "true" then some (EOS.boolLit true, rest)
        else if s = "false" then some (EOS.boolLit false, rest)
        else match varOfName s with
          | some v => some (EOS.var v, rest)
          | none => if unreservedIdent s = true then some (EOS.name [] s, rest) else none) =
      (if s = "true" then some (EOS.boolLit true, rest)
        else if s = "false" then some (EOS.boolLit false, rest)
        else match varOfName s with
          | some v => some (.var v, rest)
          | none => if unreservedIdent s then some (.name [] s, rest) else none) := fun _ => rfl
  cases ts with
  | nil => simp; try (by_cases h1 : s = "true" <;> by_cases h2 : s = "false" <;> simp [h1, h2] <;> cases varOfName s <;> rfl)
  | cons t r =>
    cases t <;> simp_all [headLv, tokLevel] <;>
      try (by_cases h1 : s = "true" <;> by_cases h2 : s = "false" <;> simp [h1, h2] <;> cases varOfName s <;> rfl)

theorem member_of_primary {pe : P EOS} {ts rest : List Token} {s : EOS} (h : primary pe ts = some (s, rest))
    (hr : 1 ≤ headLv rest) : member pe ts = some (s, rest) := by
  unfold member
  rw [h]
  simp only [accesses_stop pe _ hr]
  cases s <;> rfl

theorem i64Max_le_u64Max : i64Max + 1 ≤ u64Max := by decide

/-- `- k )` inside parentheses: a negative literal -/
theorem negLit_expr (pe : P EOS) (k : Nat) (hk : k ≤ i64Max + 1) (rest : List Token) :
    exprLevel pe (.minus :: .num k :: .rparen :: rest) = some (.expr (.lit (.int (-(Int.ofNat k)))), .rparen :: rest) := by
  have hku : k ≤ u64Max := by have := i64Max_le_u64Max; omega
  have hm : member pe (.num k :: .rparen :: rest) = some (.num k, .rparen :: rest) :=
    member_of_primary (by simp [primary, hku]) (by simp [headLv, tokLevel])
  have hu : unary pe (.minus :: .num k :: .rparen :: rest) = some (.expr (.lit (.int (-(Int.ofNat k)))), .rparen :: rest) := by
    unfold unary
    simp [countMinus, hm, hk, applyN]
  exact add_to_top (unary_to_add hu (by simp [headLv, tokLevel])) (by simp [headLv, tokLevel]) (by intro r h; cases h)

theorem atom_member (me : Char → Bool) (pe : P EOS) (e : Expr) (hf : inFrag e = true) (ha : isAtom e = true)
    (rest : List Token) (hr : 1 ≤ headLv rest) :
    ∃ s, member (exprLevel pe) (printE me e ++ rest) = some (s, rest) ∧ s.toExpr = some e := by
  cases e <;> simp [isAtom] at ha
  case var v =>
    refine ⟨.var v, member_of_primary ?_ hr, rfl⟩
    simp only [printE, List.cons_append, List.nil_append]
    rw [primary_ident _ _ hr]
    cases v <;> simp [varName, varOfName]
  case lit p =>
    cases p with
    | bool b =>
      refine ⟨.boolLit b, member_of_primary ?_ hr, rfl⟩
      simp only [printE, List.cons_append, List.nil_append]
      rw [primary_ident _ _ hr]
      cases b <;> simp
    | string s =>
      refine ⟨.strLit (escapeStr me s.toList), member_of_primary ?_ hr, ?_⟩
      · simp [printE, strTok, primary]
      · simp [EOS.toExpr, strOfRaw_escapeStr]
    | int i =>
      simp only [inFrag, decide_eq_true_eq, Int.ofNat_eq_natCast] at hf
      by_cases hneg : i < 0
      · have hk : i.natAbs ≤ i64Max + 1 := by omega
        have hi : -(Int.ofNat i.natAbs) = i := by simp only [Int.ofNat_eq_natCast]; omega
        refine ⟨.expr (.lit (.int i)), member_of_primary ?_ hr, rfl⟩
        simp only [printE, hneg, if_true, List.cons_append, List.nil_append]
        simp only [primary, negLit_expr pe i.natAbs hk rest]
        simp [EOS.toExpr]
        omega
      · have h0 := i64Max_le_u64Max
        have h1 : i.toNat ≤ u64Max := by omega
        have h3 : i.toNat ≤ i64Max := by omega
        have h2 : Int.ofNat i.toNat = i := by simp only [Int.ofNat_eq_natCast]; omega
        refine ⟨.num i.toNat, member_of_primary ?_ hr, ?_⟩
        · simp [printE, hneg, primary, h1]
        · simp only [EOS.toExpr, h3, if_true, h2]
    | entityUID u => simp [isAtom] at ha

theorem startsPlain_mwp (me : Char → Bool) (e : Expr) (hf : inFrag e = true) (rest : List Token) :
    startsPlain (paren (needsParens e) (printE me e) ++ rest) = true := by
  cases hp : needsParens e
  · have ha := atom_of_noParens hf hp
    cases e <;> simp [isAtom] at ha
    case var v => cases v <;> simp [paren, printE, startsPlain, varName]
    case lit p =>
      cases p with
      | bool b => cases b <;> simp [paren, printE, startsPlain]
      | int i => by_cases h : i < 0 <;> simp [paren, printE, startsPlain, h]
      | string s => simp [paren, printE, startsPlain, strTok]
      | entityUID u => simp [isAtom] at ha
  · simp [paren, startsPlain]

/-- an operand printed by `maybe_with_parens` is read back by `Member` -/
theorem mwp_member (me : Char → Bool) (f : Nat) (e : Expr) (hf : inFrag e = true)
    (IH : ∀ rest, headLv rest = 7 → ∃ s, parseFuel (f + 1) (printE me e ++ rest) = some (s, rest) ∧ s.toExpr = some e)
    (rest : List Token) (hr : 1 ≤ headLv rest) :
    ∃ s, member (parseFuel (f + 1)) (paren (needsParens e) (printE me e) ++ rest) = some (s, rest) ∧ s.toExpr = some e := by
  cases hp : needsParens e
  · simp only [paren, Bool.false_eq_true, if_false]
    exact atom_member me (parseFuel f) e hf (atom_of_noParens hf hp) rest hr
  · obtain ⟨s, h1, h2⟩ := IH (.rparen :: rest) (by simp [headLv, tokLevel])
    refine ⟨.expr e, member_of_primary ?_ hr, rfl⟩
    simp only [paren, if_true, List.cons_append, List.append_assoc, List.nil_append]
    simp only [primary, h1]
    simp [h2]

/-! lifting from `Member` -/
section
variable {pe : P EOS} {ts r : List Token} {s : EOS}
theorem m_unary (h : member pe ts = some (s, r)) (hs : startsPlain ts = true) : unary pe ts = some (s, r) := by
  rw [to_unary hs]; exact h
theorem m_mult (h : member pe ts = some (s, r)) (hs : startsPlain ts = true) (hr : 2 < headLv r) : mult pe ts = some (s, r) :=
  to_mult (m_unary h hs) hr
theorem m_add (h : member pe ts = some (s, r)) (hs : startsPlain ts = true) (hr : 3 < headLv r) : add pe ts = some (s, r) :=
  to_add (m_mult h hs (by omega)) hr
theorem m_rel (h : member pe ts = some (s, r)) (hs : startsPlain ts = true) (hr : 4 < headLv r) : relation pe ts = some (s, r) :=
  to_relation (m_add h hs (by omega)) hr
theorem m_and (h : member pe ts = some (s, r)) (hs : startsPlain ts = true) (hr : 5 < headLv r) : andLevel pe ts = some (s, r) :=
  to_and (m_rel h hs (by omega)) hr
theorem not_if_of_plain (hs : startsPlain ts = true) : ∀ r, ts ≠ .ident "if" :: r := by
  intro r h; subst h; simp [startsPlain] at hs
theorem m_top (h : member pe ts = some (s, r)) (hs : startsPlain ts = true) (hr : headLv r = 7) : exprLevel pe ts = some (s, r) :=
  add_to_top (m_add h hs (by omega)) hr (not_if_of_plain hs)
end

theorem countBang_plain {ts : List Token} (hs : startsPlain ts = true) : countBang ts = (0, ts) := by
  cases ts with
  | nil => rfl
  | cons t r => cases t <;> simp_all [startsPlain, countBang]

theorem startsWithRelOp_stop {rest : List Token} (h : headLv rest = 7) : startsWithRelOp rest = false := by
  cases rest with
  | nil => rfl
  | cons t r => simp [startsWithRelOp, relOp_none (t := t) (by simp [headLv] at h; omega)]

theorem rel_one {pe : P EOS} {tok : Token} {g : Expr → Expr → Expr} {A B rest : List Token} {sa sb : EOS} {a b : Expr}
    (hk : tok ≠ .ident "has" ∧ tok ≠ .ident "like" ∧ tok ≠ .ident "is") (hop : relOp tok = some (some g))
    (ha : add pe (A ++ tok :: (B ++ rest)) = some (sa, tok :: (B ++ rest))) (hsa : sa.toExpr = some a)
    (hb : add pe (B ++ rest) = some (sb, rest)) (hsb : sb.toExpr = some b) (hrest : headLv rest = 7) :
    relation pe (A ++ tok :: (B ++ rest)) = some (.expr (g a b), rest) := by
  unfold relation
  rw [ha]
  simp [hk.1, hk.2.1, hk.2.2, hop, hsa, hb, hsb, startsWithRelOp_stop hrest]

end Cedar.Syntax
