import CedarVerif.Lemmas.TpeTypeSafe2
/- C14 / C15 helpers: the residual a typed expression starts as (`try_from_typed_expr`) evaluates like the expression
   (`Residual.eval ∘ ofExpr = evaluate`), and an induction principle over ALL residuals (`Residual.All`). -/
namespace Cedar.Tpe
open Cedar

variable {req : Request} {es : Entities}

mutual
theorem ofExpr_eval : ∀ (e : Expr) (r : Residual), Residual.ofExpr e = some r → r.eval req es = evaluate req es [] e
  | .lit p, r => by intro h; simp only [Residual.ofExpr, Option.some.injEq] at h; subst h; simp [Residual.eval, evaluate]
  | .var v, r => by
      intro h; simp only [Residual.ofExpr, Option.some.injEq] at h; subst h
      cases v <;> simp [Residual.eval, RKind.eval, evaluate]
  | .slot _, r => by intro h; simp [Residual.ofExpr] at h
  | .unknown _ _, r => by intro h; simp [Residual.ofExpr] at h
  | .ite c t e, r => by
      intro h
      simp only [Residual.ofExpr] at h
      cases hc : Residual.ofExpr c <;> cases ht : Residual.ofExpr t <;> cases he : Residual.ofExpr e <;> simp [hc, ht, he] at h
      subst h
      simp only [Residual.eval, RKind.eval, evaluate, ofExpr_eval c _ hc, ofExpr_eval t _ ht, ofExpr_eval e _ he, iteR]
      cases evaluate req es [] c with
      | error _ => rfl
      | ok v =>
        simp only
        cases v.asBool with
        | error _ => rfl
        | ok b => cases b <;> rfl
  | .and a b, r => by
      intro h
      simp only [Residual.ofExpr] at h
      cases ha : Residual.ofExpr a <;> cases hb : Residual.ofExpr b <;> simp [ha, hb] at h
      subst h
      simp only [Residual.eval, RKind.eval, evaluate, ofExpr_eval a _ ha, ofExpr_eval b _ hb, andR]
      cases evaluate req es [] a with
      | error _ => rfl
      | ok v =>
        simp only
        cases v.asBool with
        | error _ => rfl
        | ok b1 =>
          cases b1
          · rfl
          · simp only
            cases evaluate req es [] b with
            | error _ => rfl
            | ok w => simp only; cases w.asBool <;> rfl
  | .or a b, r => by
      intro h
      simp only [Residual.ofExpr] at h
      cases ha : Residual.ofExpr a <;> cases hb : Residual.ofExpr b <;> simp [ha, hb] at h
      subst h
      simp only [Residual.eval, RKind.eval, evaluate, ofExpr_eval a _ ha, ofExpr_eval b _ hb, orR]
      cases evaluate req es [] a with
      | error _ => rfl
      | ok v =>
        simp only
        cases v.asBool with
        | error _ => rfl
        | ok b1 =>
          cases b1
          · simp only
            cases evaluate req es [] b with
            | error _ => rfl
            | ok w => simp only; cases w.asBool <;> rfl
          · rfl
  | .unaryApp op a, r => by
      intro h
      simp only [Residual.ofExpr] at h
      cases ha : Residual.ofExpr a <;> simp [ha] at h
      subst h
      simp only [Residual.eval, RKind.eval, evaluate, ofExpr_eval a _ ha, bindR]
      cases evaluate req es [] a <;> rfl
  | .binaryApp op a b, r => by
      intro h
      simp only [Residual.ofExpr] at h
      cases ha : Residual.ofExpr a <;> cases hb : Residual.ofExpr b <;> simp [ha, hb] at h
      subst h
      simp only [Residual.eval, RKind.eval, evaluate, ofExpr_eval a _ ha, ofExpr_eval b _ hb, bindR]
      cases evaluate req es [] a with
      | error _ => rfl
      | ok v => simp only; cases evaluate req es [] b <;> rfl
  | .call fn args, r => by
      intro h
      simp only [Residual.ofExpr] at h
      cases hl : Residual.ofExprList args <;> simp [hl] at h
      subst h
      simp only [Residual.eval, RKind.eval, evaluate, ofExprList_eval args _ hl]
      cases evaluateList req es [] args <;> rfl
  | .getAttr e a, r => by
      intro h
      simp only [Residual.ofExpr] at h
      cases he : Residual.ofExpr e <;> simp [he] at h
      subst h
      simp only [Residual.eval, RKind.eval, evaluate, ofExpr_eval e _ he, bindR]
      cases evaluate req es [] e with
      | error _ => rfl
      | ok v =>
        cases v with
        | prim p => cases p <;> rfl
        | _ => rfl
  | .hasAttr e a, r => by
      intro h
      simp only [Residual.ofExpr] at h
      cases he : Residual.ofExpr e <;> simp [he] at h
      subst h
      simp only [Residual.eval, RKind.eval, evaluate, ofExpr_eval e _ he, bindR]
      cases evaluate req es [] e with
      | error _ => rfl
      | ok v =>
        cases v with
        | prim p => cases p <;> rfl
        | _ => rfl
  | .like e p, r => by
      intro h
      simp only [Residual.ofExpr] at h
      cases he : Residual.ofExpr e <;> simp [he] at h
      subst h
      simp only [Residual.eval, RKind.eval, evaluate, ofExpr_eval e _ he, bindR, likeV]
      cases evaluate req es [] e with
      | error _ => rfl
      | ok v => simp only; cases v.asString <;> rfl
  | .is e ty, r => by
      intro h
      simp only [Residual.ofExpr] at h
      cases he : Residual.ofExpr e <;> simp [he] at h
      subst h
      simp only [Residual.eval, RKind.eval, evaluate, ofExpr_eval e _ he, bindR, isV]
      cases evaluate req es [] e with
      | error _ => rfl
      | ok v => simp only; cases v.asEntity <;> rfl
  | .set xs, r => by
      intro h
      simp only [Residual.ofExpr] at h
      cases hl : Residual.ofExprList xs <;> simp [hl] at h
      subst h
      simp only [Residual.eval, RKind.eval, evaluate, ofExprList_eval xs _ hl]
      cases evaluateList req es [] xs <;> rfl
  | .record kvs, r => by
      intro h
      simp only [Residual.ofExpr] at h
      cases hl : Residual.ofExprKVs kvs <;> simp [hl] at h
      subst h
      simp only [Residual.eval, RKind.eval, evaluate, ofExprKVs_eval kvs _ hl]
      cases evaluateKVs req es [] kvs <;> rfl
theorem ofExprList_eval : ∀ (xs : List Expr) (rs : List Residual), Residual.ofExprList xs = some rs →
    Residual.evalList req es rs = evaluateList req es [] xs
  | [], rs => by intro h; simp only [Residual.ofExprList, Option.some.injEq] at h; subst h; rfl
  | x :: xs, rs => by
      intro h
      simp only [Residual.ofExprList] at h
      cases hx : Residual.ofExpr x <;> cases hxs : Residual.ofExprList xs <;> simp [hx, hxs] at h
      subst h
      simp only [Residual.evalList, evaluateList, ofExpr_eval x _ hx, ofExprList_eval xs _ hxs]
      cases evaluate req es [] x with
      | error _ => rfl
      | ok v => simp only; cases evaluateList req es [] xs <;> rfl
theorem ofExprKVs_eval : ∀ (xs : List (String × Expr)) (rs : List (String × Residual)), Residual.ofExprKVs xs = some rs →
    Residual.evalKVs req es rs = evaluateKVs req es [] xs
  | [], rs => by intro h; simp only [Residual.ofExprKVs, Option.some.injEq] at h; subst h; rfl
  | (k, x) :: xs, rs => by
      intro h
      simp only [Residual.ofExprKVs] at h
      cases hx : Residual.ofExpr x <;> cases hxs : Residual.ofExprKVs xs <;> simp [hx, hxs] at h
      subst h
      simp only [Residual.evalKVs, evaluateKVs, ofExpr_eval x _ hx, ofExprKVs_eval xs _ hxs]
      cases evaluate req es [] x with
      | error _ => rfl
      | ok v => simp only; cases evaluateKVs req es [] xs <;> rfl
end

/-! ### induction over all residuals -/

/-- the shape of a residual, as an inductive predicate that every residual satisfies: `induction (Residual.all r)` is
    structural induction over the nested type `Residual` / `RKind` / lists, with membership-indexed hypotheses -/
inductive Residual.All : Residual → Prop
  | concrete (v ty) : Residual.All (.concrete v ty)
  | error (ty) : Residual.All (.error ty)
  | var (x ty) : Residual.All (.part (.var x) ty)
  | and {l r ty} : Residual.All l → Residual.All r → Residual.All (.part (.and l r) ty)
  | or {l r ty} : Residual.All l → Residual.All r → Residual.All (.part (.or l r) ty)
  | ite {c t e ty} : Residual.All c → Residual.All t → Residual.All e → Residual.All (.part (.ite c t e) ty)
  | unary {op a ty} : Residual.All a → Residual.All (.part (.unaryApp op a) ty)
  | binary {op a b ty} : Residual.All a → Residual.All b → Residual.All (.part (.binaryApp op a b) ty)
  | getAttr {e a ty} : Residual.All e → Residual.All (.part (.getAttr e a) ty)
  | hasAttr {e a ty} : Residual.All e → Residual.All (.part (.hasAttr e a) ty)
  | like {e p ty} : Residual.All e → Residual.All (.part (.like e p) ty)
  | is {e ety ty} : Residual.All e → Residual.All (.part (.is e ety) ty)
  | call {fn args ty} : (∀ r, r ∈ args → Residual.All r) → Residual.All (.part (.call fn args) ty)
  | set {xs ty} : (∀ r, r ∈ xs → Residual.All r) → Residual.All (.part (.set xs) ty)
  | record {kvs ty} : (∀ kv, kv ∈ kvs → Residual.All kv.2) → Residual.All (.part (.record kvs) ty)

mutual
theorem Residual.all : ∀ r : Residual, Residual.All r
  | .concrete v ty => .concrete v ty
  | .error ty => .error ty
  | .part k ty => RKind.all k ty
theorem RKind.all : ∀ (k : RKind) (ty : Ty), Residual.All (.part k ty)
  | .var x, ty => .var x ty
  | .ite c t e, _ => .ite (Residual.all c) (Residual.all t) (Residual.all e)
  | .and a b, _ => .and (Residual.all a) (Residual.all b)
  | .or a b, _ => .or (Residual.all a) (Residual.all b)
  | .unaryApp _ a, _ => .unary (Residual.all a)
  | .binaryApp _ a b, _ => .binary (Residual.all a) (Residual.all b)
  | .call _ args, _ => .call (Residual.allList args)
  | .getAttr e _, _ => .getAttr (Residual.all e)
  | .hasAttr e _, _ => .hasAttr (Residual.all e)
  | .like e _, _ => .like (Residual.all e)
  | .is e _, _ => .is (Residual.all e)
  | .set es, _ => .set (Residual.allList es)
  | .record kvs, _ => .record (Residual.allKVs kvs)
theorem Residual.allList : ∀ (rs : List Residual), ∀ r : Residual, r ∈ rs → Residual.All r
  | [] => fun r h => by cases h
  | a :: as => fun r h => by
      rcases List.mem_cons.mp h with heq | h
      · rw [heq]; exact Residual.all a
      · exact Residual.allList as r h
theorem Residual.allKVs : ∀ (kvs : List (String × Residual)), ∀ kv : String × Residual, kv ∈ kvs → Residual.All kv.2
  | [] => fun kv h => by cases h
  | (k, a) :: as => fun kv h => by
      rcases List.mem_cons.mp h with heq | h
      · rw [heq]; exact Residual.all a
      · exact Residual.allKVs as kv h
end

end Cedar.Tpe
