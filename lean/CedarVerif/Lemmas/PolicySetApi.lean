import CedarVerif.Lemmas.PolicySetHist
/-
C08 helper lemmas, part 5: the general core `add` on a static policy (what the API's `add` calls) is
`add_static` on sets without slot-less bare templates; the API layer's `link` guard.
-/
namespace Cedar
open LHM

/-- every entry of `templates` that is not the body of a static policy has at least one slot
(`Template::parse` rejects slot-less templates, so sets built through the public API satisfy this) -/
def PolicySet.NoBareStatic (ps : PolicySet) : Prop :=
  ∀ k t, ps.templates.get? k = some t → ps.links.get? k = none → t.slots ≠ []

theorem Template.beq_slots {a b : Template} (h : a.beq b = true) : a.slots = b.slots := by
  unfold Template.beq at h
  simp only [Bool.and_eq_true, beq_iff_eq] at h
  exact h.2

/-- On a well-formed set without slot-less bare templates, the general `add` applied to a static policy is
exactly `add_static` (same outcome, same resulting set). -/
theorem PolicySet.add_static_eq_addStatic (ps : PolicySet) (b : TemplateBody) (nb : ps.NoBareStatic) :
    ps.add (linkStaticPolicy b).2 = ps.addStatic b := by
  unfold PolicySet.add PolicySet.addStatic linkStaticPolicy
  simp only [TPolicy.id, Template.id]
  cases ht : ps.templates.get? b.id with
  | none =>
    have hc : ps.templates.contains b.id = false := by rw [contains_eq, ht]; rfl
    simp only [hc, Bool.false_eq_true, if_false]
    by_cases hl : ps.links.contains b.id = true
    · simp [hl]
    · simp [hl]
  | some t' =>
    have hc : ps.templates.contains b.id = true := by rw [contains_eq, ht]; rfl
    simp only [hc, if_true]
    by_cases hb : t'.beq { body := b, slots := [] } = true
    · simp only [hb, Bool.not_true, Bool.false_eq_true, if_false]
      by_cases hl : ps.links.contains b.id = true
      · simp [hl]
      · exfalso
        simp only [Bool.not_eq_true] at hl
        have := nb b.id t' ht ((contains_false _ _).mp hl)
        exact this (Template.beq_slots hb)
    · simp [hb]

/-- the API layer calls the core `link` only on ids of its `templates` map; when that map is the projection
"templates that are not policy ids", the call is admissible -/
theorem ApiPolicySet.link_admissible (s : ApiPolicySet)
    (proj : ∀ k t, s.templates.get? k = some t → s.ast.links.get? k = none)
    (tid newId : String) (vals : SlotVals) (t : Template) (h : s.templates.get? tid = some t) :
    (CoreOp.link tid newId vals).admissible s.ast := by
  unfold CoreOp.admissible
  exact (contains_false _ _).mpr (proj tid t h)

end Cedar

namespace Cedar
open LHM

/-! ### shapes of the successful removals -/

theorem PolicySet.unlink_ok (ps : PolicySet) (id : String) (h : (ps.unlink id).err = none) :
    ps.templates.get? id = none ∧ (ps.unlink id).ps.templates = ps.templates ∧ (ps.unlink id).ps.links = ps.links.erase id := by
  unfold PolicySet.unlink at h ⊢
  by_cases h1 : ps.templates.contains id = true
  · simp [h1] at h
  · simp only [Bool.not_eq_true] at h1
    cases hp : ps.links.get? id with
    | none => simp [h1, hp] at h
    | some p =>
      by_cases hm : ps.t2l.contains p.template.id = true
      · simp only [h1, hp, hm, Bool.false_eq_true, if_false, if_true]
        exact ⟨(contains_false _ _).mp h1, by first | rfl | trivial, by first | rfl | trivial⟩
      · simp [h1, hp, hm] at h

theorem PolicySet.removeStatic_ok (ps : PolicySet) (id : String) (h : (ps.removeStatic id).err = none) :
    (ps.removeStatic id).ps.templates = ps.templates.erase id ∧ (ps.removeStatic id).ps.links = ps.links.erase id := by
  unfold PolicySet.removeStatic at h ⊢
  cases hp : ps.links.get? id with
  | none => simp [hp] at h
  | some p =>
    cases ht : ps.templates.get? id with
    | none => simp [hp, ht] at h
    | some t => simp only [hp, ht]; exact ⟨by first | rfl | trivial, by first | rfl | trivial⟩

theorem PolicySet.removeTemplate_ok (ps : PolicySet) (id : String) (h : (ps.removeTemplate id).err = none) :
    (ps.removeTemplate id).ps.templates = ps.templates.erase id ∧ (ps.removeTemplate id).ps.links = ps.links := by
  unfold PolicySet.removeTemplate at h ⊢
  by_cases h1 : ps.links.contains id = true
  · simp [h1] at h
  · cases hs : ps.t2l.get? id with
    | none => simp [h1, hs] at h
    | some s =>
      by_cases hse : s.isEmpty = true
      · cases ht : ps.templates.get? id with
        | none => simp [h1, hs, hse, ht] at h
        | some t => simp only [h1, hs, hse, ht, Bool.not_true, Bool.false_eq_true, if_false]; exact ⟨by first | rfl | trivial, by first | rfl | trivial⟩
      · simp [h1, hs, hse] at h

/-! ### the public API layer: operations as data, invariant, histories -/

/-- the operations of `cedar_policy::PolicySet` (merge treated separately); `add` takes a static policy
(`Policy::parse` yields `link_static_policy` of a static body) -/
inductive ApiOp where
  | add (b : TemplateBody)
  | addTemplate (t : Template)
  | link (tid newId : String) (vals : SlotVals)
  | unlink (id : String)
  | removeStatic (id : String)
  | removeTemplate (id : String)
deriving Repr

def ApiPolicySet.applyOp (s : ApiPolicySet) : ApiOp → Step ApiPolicySet
  | .add b => s.add (linkStaticPolicy b).2
  | .addTemplate t => s.addTemplate t
  | .link tid newId vals => s.link tid newId vals
  | .unlink id => s.unlink id
  | .removeStatic id => s.removeStatic id
  | .removeTemplate id => s.removeTemplate id

/-- what the types of the public API guarantee about the arguments: a `Template` has at least one slot -/
def ApiOp.wellTyped : ApiOp → Prop
  | .addTemplate t => t.slots ≠ []
  | _ => True

/-- invariant of the API layer: the core set is well-formed, has no slot-less bare template, and every id of the
API's `templates` map is a template of the core set that is not a policy id -/
structure ApiPolicySet.WF (s : ApiPolicySet) : Prop where
  ast : s.ast.WF
  nb : s.ast.NoBareStatic
  projT : ∀ k, (s.templates.get? k).isSome = true → s.ast.links.get? k = none ∧ (s.ast.templates.get? k).isSome = true

theorem ApiPolicySet.wf_empty : ApiPolicySet.WF {} := by
  constructor
  · exact PolicySet.wf_empty
  · intro k t h; simp at h
  · intro k h; simp at h

theorem NoBareStatic_of_sameMaps {a b : PolicySet} (h : a.sameMaps b) (nb : b.NoBareStatic) : a.NoBareStatic := by
  obtain ⟨h1, _, h3, _⟩ := h
  intro k t ht hl
  rw [h1] at ht; rw [h3] at hl
  exact nb k t ht hl

theorem get?_erase_insert_self {α} (m : LHM α) (k : String) (v : α) (h : m.get? k = some v) (k' : String) :
    LHM.get? ((m.erase k).insert k v) k' = m.get? k' := by
  rw [get?_insert, get?_erase]
  by_cases hk : k' = k
  · simp [hk, h]
  · simp [hk]

/-- the core call made by an API operation fails without panic ⇒ the core set keeps its maps -/
theorem core_fail_frame (ps : PolicySet) (op : CoreOp) (wf : ps.WF) (e : PSError) (h : (ps.applyOp op).err = some e) :
    (ps.applyOp op).ps.sameMaps ps := by
  have hnp : ∀ m, e ≠ .panic m := by
    intro m he; subst he; exact PolicySet.applyOp_no_panic ps op wf m h
  exact (PolicySet.applyOp_fail ps op e h hnp).1

/-- frame: replacing the core set by one with the same maps, the policies map by anything and the templates map
by one with no new keys keeps the API invariant -/
theorem api_frame (s : ApiPolicySet) (wf : s.WF) (ast' : PolicySet) (hs : ast'.sameMaps s.ast)
    (pol : LHM TPolicy) (tm : LHM Template) (htm : ∀ k, (tm.get? k).isSome = true → (s.templates.get? k).isSome = true) :
    ApiPolicySet.WF { ast := ast', policies := pol, templates := tm } := by
  refine ⟨PolicySet.WF_of_sameMaps hs wf.ast, NoBareStatic_of_sameMaps hs wf.nb, ?_⟩
  intro k hk
  have := wf.projT k (htm k hk)
  obtain ⟨h1, _, h3, _⟩ := hs
  show LHM.get? ast'.links k = none ∧ (LHM.get? ast'.templates k).isSome = true
  rw [h3 k, h1]; exact this

theorem ApiPolicySet.applyOp_wf (s : ApiPolicySet) (op : ApiOp) (wf : s.WF) (wt : op.wellTyped) :
    (s.applyOp op).ps.WF := by
  cases op with
  | add b =>
    unfold ApiPolicySet.applyOp ApiPolicySet.add
    have hst : (linkStaticPolicy b).2.isStatic = true := rfl
    simp only [hst, if_true]
    rw [PolicySet.add_static_eq_addStatic s.ast b wf.nb]
    cases herr : (s.ast.addStatic b).err with
    | some e =>
      simp only
      exact api_frame s wf _ (core_fail_frame s.ast (.addStatic b) wf.ast e herr) _ _ (fun k hk => hk)
    | none =>
      simp only
      obtain ⟨ht, hl, heq⟩ := PolicySet.addStatic_ok s.ast b herr
      refine ⟨PolicySet.addStatic_wf s.ast b wf.ast herr, ?_, ?_⟩
      · show (s.ast.addStatic b).ps.NoBareStatic
        rw [heq]
        intro k t
        simp only [get?_snoc_absent _ _ _ ht, get?_snoc_absent _ _ _ hl]
        by_cases hk : k = b.id
        · simp [hk]
        · simp only [hk, if_false]; exact wf.nb k t
      · intro k hk
        show LHM.get? (s.ast.addStatic b).ps.links k = none ∧ (LHM.get? (s.ast.addStatic b).ps.templates k).isSome = true
        rw [heq]
        have := wf.projT k hk
        have hne : k ≠ b.id := by intro e; rw [e, ht] at this; simp at this
        simp only [get?_snoc_absent _ _ _ ht, get?_snoc_absent _ _ _ hl, hne, if_false]
        exact this
  | addTemplate t =>
    unfold ApiPolicySet.applyOp ApiPolicySet.addTemplate
    cases herr : (s.ast.addTemplate t).err with
    | some e =>
      simp only [herr]
      exact api_frame s wf _ (core_fail_frame s.ast (.addTemplate t) wf.ast e herr) _ _ (fun k hk => hk)
    | none =>
      simp only [herr]
      obtain ⟨ht, hl, heq⟩ := PolicySet.addTemplate_ok s.ast t herr
      refine ⟨PolicySet.addTemplate_wf s.ast t wf.ast herr, ?_, ?_⟩
      · show (s.ast.addTemplate t).ps.NoBareStatic
        rw [heq]
        intro k t'
        simp only [get?_snoc_absent _ _ _ ht]
        by_cases hk : k = t.id
        · simp only [hk, if_true, Option.some.injEq]; intro e _; subst e; exact wt
        · simp only [hk, if_false]; exact wf.nb k t'
      · intro k
        show (LHM.get? (s.templates.insert t.id t) k).isSome = true →
          LHM.get? (s.ast.addTemplate t).ps.links k = none ∧ (LHM.get? (s.ast.addTemplate t).ps.templates k).isSome = true
        rw [heq]
        simp only [get?_insert, get?_snoc_absent _ _ _ ht]
        by_cases hk : k = t.id
        · simp [hk, hl]
        · simp only [hk, if_false]; exact wf.projT k
  | link tid newId vals =>
    unfold ApiPolicySet.applyOp ApiPolicySet.link
    cases hT : s.templates.get? tid with
    | none =>
      simp only [hT]
      by_cases hc : s.policies.contains tid = true
      · simp only [hc, if_true]; exact wf
      · simp only [hc, Bool.false_eq_true, if_false]; exact wf
    | some t0 =>
      simp only [hT]
      have hadm : s.ast.links.get? tid = none := (wf.projT tid (by simp [hT])).1
      cases herr : (s.ast.link tid newId vals).err with
      | some e =>
        simp only [herr]
        exact api_frame s wf _ (core_fail_frame s.ast (.link tid newId vals) wf.ast e herr) _ _ (fun k hk => hk)
      | none =>
        simp only [herr]
        obtain ⟨t, ht, hb, hl, hnt, heq⟩ := PolicySet.link_ok s.ast tid newId vals herr
        have wf' := PolicySet.link_wf s.ast tid newId vals wf.ast hadm herr
        have hnb : (s.ast.link tid newId vals).ps.NoBareStatic := by
          rw [heq]
          intro k t'
          simp only [get?_snoc_absent _ _ _ hl]
          by_cases hk : k = newId
          · simp [hk, hnt]
          · simp only [hk, if_false]; exact wf.nb k t'
        have hproj : ∀ k, (s.templates.get? k).isSome = true →
            LHM.get? (s.ast.link tid newId vals).ps.links k = none ∧ (LHM.get? (s.ast.link tid newId vals).ps.templates k).isSome = true := by
          rw [heq]
          intro k hk
          have := wf.projT k hk
          have hne : k ≠ newId := by intro e; rw [e, hnt] at this; simp at this
          simp only [get?_snoc_absent _ _ _ hl, hne, if_false]
          exact this
        cases hg : (s.ast.link tid newId vals).ps.links.get? newId with
        | some linked => simp only [hg]; exact ⟨wf', hnb, hproj⟩
        | none => simp only [hg]; exact ⟨wf', hnb, hproj⟩
  | unlink id =>
    unfold ApiPolicySet.applyOp ApiPolicySet.unlink
    cases hP : s.policies.get? id with
    | none => simp only [hP]; exact wf
    | some p =>
      simp only [hP]
      cases herr : (s.ast.unlink id).err with
      | none =>
        simp only [herr]
        obtain ⟨hnt, ht, hl⟩ := PolicySet.unlink_ok s.ast id herr
        refine ⟨PolicySet.unlink_wf s.ast id wf.ast herr, ?_, ?_⟩
        · show (s.ast.unlink id).ps.NoBareStatic
          intro k t'
          rw [ht, hl, get?_erase]
          by_cases hk : k = id
          · simp [hk, hnt]
          · simp only [hk, if_false]; exact wf.nb k t'
        · intro k hk
          have := wf.projT k hk
          show LHM.get? (s.ast.unlink id).ps.links k = none ∧ (LHM.get? (s.ast.unlink id).ps.templates k).isSome = true
          rw [ht, hl, get?_erase]
          by_cases hk2 : k = id
          · simp only [hk2, if_true, true_and]; rw [hk2] at this; exact this.2
          · simp only [hk2, if_false]; exact this
      | some e =>
        have hs := core_fail_frame s.ast (.unlink id) wf.ast e herr
        cases e <;> simp only [herr] <;> exact api_frame s wf _ hs _ _ (fun k hk => hk)
  | removeStatic id =>
    unfold ApiPolicySet.applyOp ApiPolicySet.removeStatic
    cases hP : s.policies.get? id with
    | none => simp only [hP]; exact wf
    | some p =>
      simp only [hP]
      cases herr : (s.ast.removeStatic id).err with
      | none =>
        simp only [herr]
        obtain ⟨ht, hl⟩ := PolicySet.removeStatic_ok s.ast id herr
        have hlid : (s.ast.links.get? id).isSome = true := by
          cases hq : s.ast.links.get? id with
          | some q => rfl
          | none =>
            have : (s.ast.removeStatic id).err = some .rmsNoLink := by
              unfold PolicySet.removeStatic; simp [hq]
            rw [this] at herr; cases herr
        refine ⟨PolicySet.removeStatic_wf s.ast id wf.ast herr, ?_, ?_⟩
        · show (s.ast.removeStatic id).ps.NoBareStatic
          intro k t'
          rw [ht, hl, get?_erase, get?_erase]
          by_cases hk : k = id
          · simp [hk]
          · simp only [hk, if_false]; exact wf.nb k t'
        · intro k hk
          have := wf.projT k hk
          have hne : k ≠ id := by intro e; rw [e] at this; rw [this.1] at hlid; cases hlid
          show LHM.get? (s.ast.removeStatic id).ps.links k = none ∧ (LHM.get? (s.ast.removeStatic id).ps.templates k).isSome = true
          rw [ht, hl, get?_erase, get?_erase]
          simp only [hne, if_false]; exact this
      | some e =>
        simp only [herr]
        exact api_frame s wf _ (core_fail_frame s.ast (.removeStatic id) wf.ast e herr) _ _ (fun k hk => hk)
  | removeTemplate id =>
    unfold ApiPolicySet.applyOp ApiPolicySet.removeTemplate
    cases hT : s.templates.get? id with
    | none => simp only [hT]; exact wf
    | some t0 =>
      simp only [hT]
      cases herr : (s.ast.removeTemplate id).err with
      | none =>
        simp only [herr]
        obtain ⟨ht, hl⟩ := PolicySet.removeTemplate_ok s.ast id herr
        refine ⟨PolicySet.removeTemplate_wf s.ast id wf.ast herr, ?_, ?_⟩
        · show (s.ast.removeTemplate id).ps.NoBareStatic
          intro k t'
          rw [ht, hl, get?_erase]
          by_cases hk : k = id
          · simp [hk]
          · simp only [hk, if_false]; exact wf.nb k t'
        · intro k
          show (LHM.get? (s.templates.erase id) k).isSome = true → LHM.get? (s.ast.removeTemplate id).ps.links k = none ∧ (LHM.get? (s.ast.removeTemplate id).ps.templates k).isSome = true
          rw [ht, hl, get?_erase, get?_erase]
          by_cases hk : k = id
          · simp [hk]
          · simp only [hk, if_false]; exact wf.projT k
      | some e =>
        have hs := core_fail_frame s.ast (.removeTemplate id) wf.ast e herr
        have hback : ∀ k, (LHM.get? ((s.templates.erase id).insert id t0) k).isSome = true → (s.templates.get? k).isSome = true := by
          intro k; rw [get?_erase_insert_self _ _ _ hT]; exact fun h => h
        have herase : ∀ k, (LHM.get? (s.templates.erase id) k).isSome = true → (s.templates.get? k).isSome = true := by
          intro k; rw [get?_erase]; by_cases hk : k = id <;> simp [hk]
        cases e <;> simp only [herr] <;> first | exact api_frame s wf _ hs _ _ hback | exact api_frame s wf _ hs _ _ herase

/-- histories of API calls -/
def ApiPolicySet.run (s : ApiPolicySet) : List ApiOp → ApiPolicySet
  | [] => s
  | op :: ops => ApiPolicySet.run (s.applyOp op).ps ops

theorem ApiPolicySet.run_wf (ops : List ApiOp) : ∀ (s : ApiPolicySet), s.WF → (∀ op, op ∈ ops → op.wellTyped) → (s.run ops).WF := by
  induction ops with
  | nil => intro s wf _; exact wf
  | cons op ops ih =>
    intro s wf wt
    exact ih _ (ApiPolicySet.applyOp_wf s op wf (wt op (by simp))) (fun o ho => wt o (by simp [ho]))

end Cedar
