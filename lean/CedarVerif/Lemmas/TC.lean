import CedarVerif.Cedar.TC
/-
Lemmas for C04, part 1: the mirror of `add_ancestors` is correct on acyclic parent graphs
(`addAnc_spec`, from design_spikes/tc/AddAncestors.lean; the precondition `x ∈ seen` of the spike was
unused and is dropped because `repair_tc` with cycle detection does not insert the node it starts from).
-/
namespace Cedar.TC
set_option linter.unusedSectionVars false

variable {α : Type} [DecidableEq α]

/-! ### basic lemmas -/

theorem get_set_self (s : Store α) (x : α) (n m : Node α) (h : get s x = some m) :
    get (set s x n) x = some n := by
  induction s with
  | nil => simp [get] at h
  | cons kv rest ih =>
    obtain ⟨k, v⟩ := kv
    by_cases hk : k = x
    · simp [set, get, hk]
    · simp only [get, hk, if_false] at h
      simp [set, get, hk, ih h]

theorem get_set_other (s : Store α) (x y : α) (n : Node α) (h : y ≠ x) :
    get (set s x n) y = get s y := by
  induction s with
  | nil => simp [set, get]
  | cons kv rest ih =>
    obtain ⟨k, v⟩ := kv
    by_cases hk : k = x
    · subst hk
      have : ¬ k = y := fun e => h e.symm
      simp [set, get, this]
    · by_cases hy : k = y
      · subst hy; simp [set, get, hk]
      · simp [set, get, hk, hy, ih]

theorem get_set_none (s : Store α) (x y : α) (n : Node α) (h : get s y = none) :
    get (set s x n) y = none := by
  by_cases hxy : y = x
  · subst hxy
    induction s with
    | nil => simp [set, get]
    | cons kv rest ih =>
      obtain ⟨k, v⟩ := kv
      by_cases hk : k = y
      · simp [get, hk] at h
      · simp only [get, hk, if_false] at h
        simp [set, get, hk, ih h]
  · rw [get_set_other _ _ _ _ hxy]; exact h

theorem addEdge_parents (n : Node α) (k : α) : (n.addEdge k).parents = n.parents := by
  unfold Node.addEdge; split <;> rfl

theorem mem_addEdge_out (n : Node α) (k y : α) : y ∈ (n.addEdge k).out ↔ y ∈ n.out ∨ y = k := by
  unfold Node.addEdge Node.out
  split
  · rename_i h
    constructor
    · exact Or.inl
    · rintro (h' | rfl)
      · exact h'
      · simp only [List.mem_append]; exact h
  · simp only [List.mem_append, List.mem_singleton]
    constructor
    · rintro (h | h | h)
      · exact Or.inl (Or.inl h)
      · exact Or.inl (Or.inr h)
      · exact Or.inr h
    · rintro ((h | h) | h)
      · exact Or.inl h
      · exact Or.inr (Or.inl h)
      · exact Or.inr (Or.inr h)

theorem addEdges_parents (n : Node α) (ks : List α) : (n.addEdges ks).parents = n.parents := by
  unfold Node.addEdges
  induction ks generalizing n with
  | nil => rfl
  | cons k ks ih => simp only [List.foldl_cons]; rw [ih, addEdge_parents]

theorem addEdge_tag (n : Node α) (k : α) : (n.addEdge k).tag = n.tag := by
  unfold Node.addEdge; split <;> rfl

theorem addEdges_tag (n : Node α) (ks : List α) : (n.addEdges ks).tag = n.tag := by
  unfold Node.addEdges
  induction ks generalizing n with
  | nil => rfl
  | cons k ks ih => simp only [List.foldl_cons]; rw [ih, addEdge_tag]

theorem addEdge_indirect (n : Node α) (k y : α) (h : y ∈ (n.addEdge k).indirect) :
    y ∈ n.indirect ∨ y ∉ (n.addEdge k).parents := by
  unfold Node.addEdge at h ⊢
  split
  · rename_i hk; simp only [hk, if_true] at h; exact Or.inl h
  · rename_i hk
    simp only [hk, if_false, List.mem_append, List.mem_singleton] at h
    rcases h with h | rfl
    · exact Or.inl h
    · exact Or.inr (fun hp => hk (Or.inl hp))

theorem addEdges_indirect (n : Node α) (ks : List α) :
    ∀ y, y ∈ (n.addEdges ks).indirect → y ∈ n.indirect ∨ y ∉ (n.addEdges ks).parents := by
  unfold Node.addEdges
  induction ks generalizing n with
  | nil => intro y h; exact Or.inl h
  | cons k ks ih =>
    intro y h
    simp only [List.foldl_cons] at h ⊢
    rcases ih (n.addEdge k) y h with h' | h'
    · rcases addEdge_indirect n k y h' with h'' | h''
      · exact Or.inl h''
      · right
        have e1 := addEdges_parents (n.addEdge k) ks
        unfold Node.addEdges at e1
        rw [e1]; exact h''
    · exact Or.inr h'

theorem mem_addEdges_out (n : Node α) (ks : List α) (y : α) :
    y ∈ (n.addEdges ks).out ↔ y ∈ n.out ∨ y ∈ ks := by
  unfold Node.addEdges
  induction ks generalizing n with
  | nil => simp
  | cons k ks ih =>
    simp only [List.foldl_cons, List.mem_cons]
    rw [ih, mem_addEdge_out]
    constructor
    · rintro ((h | h) | h)
      · exact Or.inl h
      · exact Or.inr (Or.inl h)
      · exact Or.inr (Or.inr h)
    · rintro (h | h | h)
      · exact Or.inl (Or.inl h)
      · exact Or.inl (Or.inr h)
      · exact Or.inr h

/-! ### reachability over the (fixed) parent function -/

theorem Reach.trans {P : α → Option (List α)} {x y z : α} (h1 : Reach P x y) (h2 : Reach P y z) : Reach P x z := by
  induction h1 with
  | edge hp hy => exact Reach.step hp hy h2
  | step hp hz _ ih => exact Reach.step hp hz (ih h2)

theorem Reach.of_none {P : α → Option (List α)} {x y : α} (h : P x = none) : ¬ Reach P x y := by
  intro hr; cases hr <;> simp_all

/-- every out-edge is justified by reachability and stays inside the universe `U` -/
def Good (P : α → Option (List α)) (U : List α) (s : Store α) : Prop :=
  ∀ x n, get s x = some n → ∀ y, y ∈ n.out → Reach P x y ∧ y ∈ U

def Complete (P : α → Option (List α)) (s : Store α) (x : α) : Prop :=
  ∀ n, get s x = some n → ∀ y, Reach P x y → y ∈ n.out

/-- `s'` extends `s`: same keys, same parents, out-edges only grow -/
def Ext (s s' : Store α) : Prop :=
  (∀ x n, get s x = some n → ∃ n', get s' x = some n' ∧ n'.parents = n.parents ∧ (∀ y, y ∈ n.out → y ∈ n'.out) ∧
      (∀ y, y ∈ n'.indirect → y ∈ n.indirect ∨ y ∉ n'.parents) ∧ n'.tag = n.tag) ∧
  (∀ x, get s x = none → get s' x = none)

theorem Ext.refl (s : Store α) : Ext s s := ⟨fun _ n h => ⟨n, h, rfl, fun _ h => h, fun _ h => Or.inl h, rfl⟩, fun _ h => h⟩

theorem Ext.trans {s1 s2 s3 : Store α} (h12 : Ext s1 s2) (h23 : Ext s2 s3) : Ext s1 s3 := by
  constructor
  · intro x n h
    obtain ⟨n2, g2, p2, o2, d2, t2⟩ := h12.1 x n h
    obtain ⟨n3, g3, p3, o3, d3, t3⟩ := h23.1 x n2 g2
    refine ⟨n3, g3, p3.trans p2, fun y hy => o3 y (o2 y hy), ?_, t3.trans t2⟩
    intro y hy
    rcases d3 y hy with h' | h'
    · rcases d2 y h' with h'' | h''
      · exact Or.inl h''
      · exact Or.inr (by rw [p3]; exact h'')
    · exact Or.inr h'
  · intro x h; exact h23.2 x (h12.2 x h)

theorem Complete.mono {P : α → Option (List α)} {s s' : Store α} {x : α} (he : Ext s s') (hc : Complete P s x) :
    Complete P s' x := by
  intro n' hn' y hr
  cases hg : get s x with
  | none => have := he.2 x hg; rw [this] at hn'; cases hn'
  | some n =>
    obtain ⟨n2, g2, _, o2, _, _⟩ := he.1 x n hg
    rw [g2] at hn'; cases hn'
    exact o2 y (hc n hg y hr)

theorem filter_len_mono (p q : α → Bool) (h : ∀ x, p x = true → q x = true) (l : List α) :
    (l.filter p).length ≤ (l.filter q).length := by
  induction l with
  | nil => simp
  | cons a l ih =>
    simp only [List.filter_cons]
    cases hp : p a <;> cases hq : q a <;> simp <;> try omega
    have := h a hp; rw [hq] at this; cases this

theorem filter_len_strict (p q : α → Bool) (h : ∀ x, p x = true → q x = true) (l : List α) (a : α)
    (ha : a ∈ l) (hpa : p a = false) (hqa : q a = true) :
    (l.filter p).length < (l.filter q).length := by
  induction l with
  | nil => cases ha
  | cons b l ih =>
    simp only [List.filter_cons]
    simp only [List.mem_cons] at ha
    rcases ha with rfl | ha
    · have := filter_len_mono p q h l
      simp [hpa, hqa]; omega
    · have := ih ha
      cases hp : p b <;> cases hq : q b <;> simp <;> try omega
      have := h b hp; rw [hq] at this; cases this

def unseen (U seen : List α) : Nat := (U.filter (fun u => decide (u ∉ seen))).length

theorem unseen_cons_lt (U seen : List α) (a : α) (ha : a ∈ U) (hs : a ∉ seen) :
    unseen U (a :: seen) < unseen U seen := by
  unfold unseen
  apply filter_len_strict _ _ _ U a ha
  · simp
  · simp [hs]
  · intro x hx
    simp only [List.mem_cons, not_or, decide_eq_true_eq] at hx ⊢
    exact hx.2

theorem unseen_mono (U seen seen' : List α) (h : ∀ a, a ∈ seen → a ∈ seen') :
    unseen U seen' ≤ unseen U seen := by
  unfold unseen
  apply filter_len_mono
  intro x hx
  simp only [decide_eq_true_eq] at hx ⊢
  exact fun hx' => hx (h x hx')


/-! ### specification of `add_ancestors` on acyclic parent graphs -/

def ShapeIs (P : α → Option (List α)) (s : Store α) : Prop := ∀ x, (get s x).map (·.parents) = P x

theorem ShapeIs.ext {P : α → Option (List α)} {s s' : Store α} (h : ShapeIs P s) (he : Ext s s') : ShapeIs P s' := by
  intro x
  rw [← h x]
  cases hg : get s x with
  | none => rw [he.2 x hg]
  | some n =>
    obtain ⟨n', g', p', _, _, _⟩ := he.1 x n hg
    simp [g', p']

structure Pre (P : α → Option (List α)) (U : List α) (x : α) (s : Store α) (seen : List α) : Prop where
  good : Good P U s
  shp : ShapeIs P s
  inv : ∀ a, a ∈ seen → a = x ∨ Reach P a x ∨ Complete P s a

structure Post (P : α → Option (List α)) (U : List α) (x : α) (s : Store α) (seen : List α)
    (r : Store α × List α) : Prop where
  ext : Ext s r.1
  good : Good P U r.1
  sub : ∀ a, a ∈ seen → a ∈ r.2
  cx : Complete P r.1 x
  new : ∀ a, a ∈ r.2 → a ∈ seen ∨ Complete P r.1 a

def Spec (P : α → Option (List α)) (U : List α) (rec : α → Store α → List α → Store α × List α) (f : Nat) : Prop :=
  ∀ x s seen, Pre P U x s seen → unseen U seen < f → Post P U x s seen (rec x s seen)

structure LI (P : α → Option (List α)) (U : List α) (x : α) (s0 : Store α) (seen0 : List α)
    (done : List α) (st : LoopSt α) : Prop where
  ext : Ext s0 st.s
  good : Good P U st.s
  sub : ∀ a, a ∈ seen0 → a ∈ st.seen
  inv : ∀ a, a ∈ st.seen → a = x ∨ Reach P a x ∨ Complete P st.s a
  new : ∀ a, a ∈ st.seen → a ∈ seen0 ∨ Complete P st.s a
  accSound : ∀ y, y ∈ st.acc → Reach P x y ∧ y ∈ U
  accComplete : ∀ a, a ∈ done → ∀ na, get st.s a = some na → ∀ y, Reach P a y → y ∈ st.acc
  expl : ∀ a, a ∈ st.explored ↔ a ∈ done

theorem expl_step (E done : List α) (a : α) (h : ∀ b, b ∈ E ↔ b ∈ done) :
    ∀ b, b ∈ a :: E ↔ b ∈ done ++ [a] := by
  intro b; simp [h b, or_comm]

theorem loopStep_LI (P : α → Option (List α)) (U : List α) (hacyc : ∀ x, ¬ Reach P x x)
    (rec : α → Store α → List α → Store α × List α) (f : Nat) (hrec : Spec P U rec f)
    (x : α) (s0 : Store α) (seen0 : List α) (hshape : ShapeIs P s0) (hfuel : unseen U seen0 < f + 1)
    (done : List α) (st : LoopSt α) (a : α) (hxa : Reach P x a) (haU : a ∈ U)
    (h : LI P U x s0 seen0 done st) :
    LI P U x s0 seen0 (done ++ [a]) (loopStep rec st a) := by
  -- the state after the (possible) recursive call
  have hshape_st : ShapeIs P st.s := hshape.ext h.ext
  have key : ∃ s' seen', (if a ∈ st.seen then (st.s, st.seen) else rec a st.s (a :: st.seen)) = (s', seen') ∧
      Ext st.s s' ∧ Good P U s' ∧ (∀ b, b ∈ st.seen → b ∈ seen') ∧ Complete P s' a ∧
      (∀ b, b ∈ seen' → b ∈ st.seen ∨ Complete P s' b) := by
    by_cases hin : a ∈ st.seen
    · refine ⟨st.s, st.seen, by simp [hin], Ext.refl _, h.good, fun _ hb => hb, ?_, fun b hb => Or.inl hb⟩
      rcases h.inv a hin with rfl | hr | hc
      · exact absurd hxa (hacyc _)
      · exact absurd (hxa.trans hr) (hacyc _)
      · exact hc
    · have hpre : Pre P U a st.s (a :: st.seen) := by
        refine ⟨h.good, hshape_st, ?_⟩
        intro b hb
        simp only [List.mem_cons] at hb
        rcases hb with rfl | hb
        · exact Or.inl rfl
        · rcases h.inv b hb with rfl | hr | hc
          · exact Or.inr (Or.inl hxa)
          · exact Or.inr (Or.inl (hr.trans hxa))
          · exact Or.inr (Or.inr hc)
      have hf : unseen U (a :: st.seen) < f := by
        have h1 := unseen_cons_lt U st.seen a haU hin
        have h2 := unseen_mono U seen0 st.seen h.sub
        omega
      have hpost := hrec a st.s (a :: st.seen) hpre hf
      refine ⟨(rec a st.s (a :: st.seen)).1, (rec a st.s (a :: st.seen)).2, by simp [hin], hpost.ext, hpost.good,
        fun b hb => hpost.sub b (List.mem_cons_of_mem _ hb), hpost.cx, ?_⟩
      intro b hb
      rcases hpost.new b hb with hb' | hc
      · simp only [List.mem_cons] at hb'
        rcases hb' with rfl | hb'
        · exact Or.inr hpost.cx
        · exact Or.inl hb'
      · exact Or.inr hc
  obtain ⟨s', seen', hr, hext, hgood, hsub, hca, hnew⟩ := key
  have hext0 : Ext s0 s' := h.ext.trans hext
  have hinv' : ∀ b, b ∈ seen' → b = x ∨ Reach P b x ∨ Complete P s' b := by
    intro b hb
    rcases hnew b hb with hb' | hc
    · rcases h.inv b hb' with e | r | c
      · exact Or.inl e
      · exact Or.inr (Or.inl r)
      · exact Or.inr (Or.inr (c.mono hext))
    · exact Or.inr (Or.inr hc)
  have hnew' : ∀ b, b ∈ seen' → b ∈ seen0 ∨ Complete P s' b := by
    intro b hb
    rcases hnew b hb with hb' | hc
    · rcases h.new b hb' with e | c
      · exact Or.inl e
      · exact Or.inr (c.mono hext)
    · exact Or.inr hc
  have haccC : ∀ b, b ∈ done → ∀ nb, get s' b = some nb → ∀ y, Reach P b y → y ∈ st.acc := by
    intro b hb nb hnb y hy
    cases hg : get st.s b with
    | none => rw [hext.2 b hg] at hnb; cases hnb
    | some n => exact h.accComplete b hb n hg y hy
  unfold loopStep
  simp only [hr]
  by_cases hex : a ∈ st.explored
  · simp only [hex, if_true]
    have hdone : a ∈ done := (h.expl a).mp hex
    refine ⟨hext0, hgood, fun b hb => hsub b (h.sub b hb), hinv', hnew', h.accSound, ?_, ?_⟩
    · intro b hb nb hnb y hy
      simp only [List.mem_append, List.mem_singleton] at hb
      rcases hb with hb | rfl
      · exact haccC b hb nb hnb y hy
      · exact haccC b hdone nb hnb y hy
    · intro b
      simp only [List.mem_append, List.mem_singleton]
      constructor
      · intro hb; exact Or.inl ((h.expl b).mp hb)
      · rintro (hb | rfl)
        · exact (h.expl b).mpr hb
        · exact hex
  · simp only [hex, if_false]
    cases hga : get s' a with
    | none =>
      simp only
      refine ⟨hext0, hgood, fun b hb => hsub b (h.sub b hb), hinv', hnew', h.accSound, ?_, ?_⟩
      · intro b hb nb hnb y hy
        simp only [List.mem_append, List.mem_singleton] at hb
        rcases hb with hb | rfl
        · exact haccC b hb nb hnb y hy
        · rw [hga] at hnb; cases hnb
      · exact expl_step _ _ a h.expl
    | some na =>
      simp only
      refine ⟨hext0, hgood, fun b hb => hsub b (h.sub b hb), hinv', hnew', ?_, ?_, ?_⟩
      · intro y hy
        simp only [List.mem_append] at hy
        rcases hy with hy | hy
        · exact h.accSound y hy
        · have := hgood a na hga y hy
          exact ⟨hxa.trans this.1, this.2⟩
      · intro b hb nb hnb y hy
        simp only [List.mem_append, List.mem_singleton] at hb ⊢
        rcases hb with hb | rfl
        · exact Or.inl (haccC b hb nb hnb y hy)
        · rw [hga] at hnb; cases hnb
          exact Or.inr (hca na hga y hy)
      · exact expl_step _ _ a h.expl


theorem fold_LI (P : α → Option (List α)) (U : List α) (hacyc : ∀ x, ¬ Reach P x x)
    (rec : α → Store α → List α → Store α × List α) (f : Nat) (hrec : Spec P U rec f)
    (x : α) (s0 : Store α) (seen0 : List α) (hshape : ShapeIs P s0) (hfuel : unseen U seen0 < f + 1)
    (outs : List α) :
    ∀ (done : List α) (st : LoopSt α), (∀ a, a ∈ outs → Reach P x a ∧ a ∈ U) →
      LI P U x s0 seen0 done st → LI P U x s0 seen0 (done ++ outs) (outs.foldl (loopStep rec) st) := by
  induction outs with
  | nil => intro done st _ h; simpa using h
  | cons a outs ih =>
    intro done st hall h
    have ha := hall a List.mem_cons_self
    have h1 := loopStep_LI P U hacyc rec f hrec x s0 seen0 hshape hfuel done st a ha.1 ha.2 h
    have h2 := ih (done ++ [a]) (loopStep rec st a) (fun b hb => hall b (List.mem_cons_of_mem _ hb)) h1
    simpa [List.append_assoc] using h2

theorem Ext_set (s : Store α) (x : α) (n n' : Node α) (hg : get s x = some n)
    (hp : n'.parents = n.parents) (ho : ∀ y, y ∈ n.out → y ∈ n'.out)
    (hd : ∀ y, y ∈ n'.indirect → y ∈ n.indirect ∨ y ∉ n'.parents) (ht : n'.tag = n.tag) : Ext s (set s x n') := by
  constructor
  · intro z m hz
    by_cases hzx : z = x
    · subst hzx
      rw [hg] at hz; cases hz
      exact ⟨n', get_set_self s z n' n hg, hp, ho, hd, ht⟩
    · exact ⟨m, by rw [get_set_other _ _ _ _ hzx]; exact hz, rfl, fun _ h => h, fun _ h => Or.inl h, rfl⟩
  · intro z hz; exact get_set_none s x z n' hz

theorem Reach.src_some {P : α → Option (List α)} {x y : α} (h : Reach P x y) : ∃ ps, P x = some ps := by
  cases h with
  | edge hp _ => exact ⟨_, hp⟩
  | step hp _ _ => exact ⟨_, hp⟩

/-- Main theorem of the spike: on an acyclic parent graph, with enough fuel, `add_ancestors` makes `x`
    (and everything it newly visits) exactly closed, keeps every edge justified, and never reaches the
    `expect("This node should always exist.")` site. -/
theorem addAnc_spec (P : α → Option (List α)) (U : List α) (hacyc : ∀ x, ¬ Reach P x x) :
    ∀ f, Spec P U (addAnc f) f := by
  intro f
  induction f with
  | zero => intro x s seen _ hf; omega
  | succ f ih =>
    intro x s seen pre hf
    unfold addAnc
    cases hgx : get s x with
    | none =>
      simp only
      exact ⟨Ext.refl _, pre.good, fun _ h => h, (by intro n hn; rw [hgx] at hn; cases hn), fun _ h => Or.inl h⟩
    | some nx =>
      simp only
      have hinit : LI P U x s seen [] { s := s, seen := seen, acc := [], explored := [] } :=
        ⟨Ext.refl _, pre.good, fun _ h => h, pre.inv, fun _ h => Or.inl h,
          (by intro y hy; cases hy), (by intro a ha; cases ha), (by intro a; simp)⟩
      have hall : ∀ a, a ∈ nx.out → Reach P x a ∧ a ∈ U := fun a ha => pre.good x nx hgx a ha
      have hli := fold_LI P U hacyc (addAnc f) f ih x s seen pre.shp hf nx.out [] _ hall hinit
      simp only [List.nil_append] at hli
      generalize nx.out.foldl (loopStep (addAnc f)) { s := s, seen := seen, acc := [], explored := [] } = st at hli
      obtain ⟨nx', hgx', hpar', hout', _, _⟩ := hli.ext.1 x nx hgx
      simp only [hgx']
      have hE : Ext st.s (set st.s x (nx'.addEdges st.acc)) :=
        Ext_set st.s x nx' _ hgx' (addEdges_parents _ _) (fun y hy => (mem_addEdges_out _ _ _).mpr (Or.inl hy))
          (addEdges_indirect _ _) (addEdges_tag _ _)
      have hget : get (set st.s x (nx'.addEdges st.acc)) x = some (nx'.addEdges st.acc) :=
        get_set_self _ _ _ _ hgx'
      refine ⟨hli.ext.trans hE, ?_, hli.sub, ?_, ?_⟩
      · -- Good
        intro z m hz y hy
        by_cases hzx : z = x
        · subst hzx
          rw [hget] at hz; cases hz
          rcases (mem_addEdges_out _ _ _).mp hy with hy | hy
          · exact hli.good z nx' hgx' y hy
          · exact hli.accSound y hy
        · rw [get_set_other _ _ _ _ hzx] at hz
          exact hli.good z m hz y hy
      · -- Complete x
        intro n hn y hr
        rw [hget] at hn; cases hn
        have hPx : P x = some nx.parents := by rw [← pre.shp x, hgx]; rfl
        apply (mem_addEdges_out _ _ _).mpr
        cases hr with
        | edge hp hy =>
          rw [hPx] at hp; cases hp
          left; unfold Node.out; rw [hpar']; exact List.mem_append_left _ hy
        | step hp hz hzy =>
          rw [hPx] at hp; cases hp
          right
          rename_i z
          have hzout : z ∈ nx.out := by unfold Node.out; exact List.mem_append_left _ hz
          obtain ⟨pz, hpz⟩ := hzy.src_some
          have : ∃ nz, get s z = some nz := by
            have := pre.shp z; rw [hpz] at this
            cases hgz : get s z with
            | none => rw [hgz] at this; cases this
            | some nz => exact ⟨nz, rfl⟩
          obtain ⟨nz, hgz⟩ := this
          obtain ⟨nz', hgz', _, _, _, _⟩ := hli.ext.1 z nz hgz
          exact hli.accComplete z hzout nz' hgz' y hzy
      · -- new
        intro a ha
        rcases hli.new a ha with h | h
        · exact Or.inl h
        · exact Or.inr (h.mono hE)


end Cedar.TC
