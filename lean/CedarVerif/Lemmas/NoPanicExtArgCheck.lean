import CedarVerif.Cedar.NoPanic.ExtArgCheck
/-
C20 lemmas for `Cedar/NoPanic/ExtArgCheck.lean`: the `exactly_one` form of the four argument checks has no panic outcome for
any argument list; `zip_longest` reaches neither `unreachable!` nor `last().unwrap()` once the two recorded arity tests both
passed (given: a variadic function has at least one argument type).
-/
namespace Cedar
namespace NoPanic
namespace ExtArg

theorem validateCtorString_exactlyOne (ctor : List Char → Bool) (exprs : List Arg) :
    validateCtorString .exactlyOne ctor exprs = .ok ∨ ∃ s, exprs = [.strLit s] ∧ ctor s = false ∧
      validateCtorString .exactlyOne ctor exprs = .err s := by
  unfold validateCtorString
  simp only
  split
  · rename_i s
    cases h : ctor s
    · right; exact ⟨s, rfl, h, by simp⟩
    · left; simp
  · left; rfl

theorem validateCtorString_exactlyOne_safe (ctor : List Char → Bool) (exprs : List Arg) (site : String) :
    validateCtorString .exactlyOne ctor exprs ≠ .panic site := by
  rcases validateCtorString_exactlyOne ctor exprs with h | ⟨s, _, _, h⟩ <;> rw [h] <;> exact fun h => CheckOutcome.noConfusion h

theorem checkArguments_exactlyOne_safe (ft : FnType) (args : List Arg) (site : String) :
    checkArguments .exactlyOne ft args ≠ .panic site := by
  unfold checkArguments
  split
  · exact validateCtorString_exactlyOne_safe _ _ _
  · exact fun h => CheckOutcome.noConfusion h

/-- the pre-`exactly_one` access panics exactly on the empty argument list -/
theorem validateCtorString_index0_panics_iff (ctor : List Char → Bool) (exprs : List Arg) :
    (∃ site, validateCtorString .index0 ctor exprs = .panic site) ↔ exprs = [] := by
  unfold validateCtorString
  constructor
  · rintro ⟨site, h⟩
    cases exprs with
    | nil => rfl
    | cons a as =>
      cases a <;> simp only at h
      · split at h <;> cases h
      · cases h
      · cases h
  · rintro rfl; exact ⟨_, rfl⟩

theorem zipLongest_ok (hl : Bool) : ∀ (args : List Arg) (k : Nat), k ≤ args.length → (k < args.length → hl = true) →
    zipLongest hl args k = .ok args.length
  | [], 0, _, _ => rfl
  | [], k + 1, h, _ => by simp at h
  | _ :: as, k + 1, h, h2 => by
    simp only [List.length_cons] at h h2
    simp only [zipLongest, zipLongest_ok hl as k (by omega) (fun h => h2 (by omega))]
    rfl
  | _ :: as, 0, _, h2 => by
    have hh : hl = true := h2 (by simp)
    subst hh
    simp only [zipLongest, if_true]
    rw [zipLongest_ok true as 0 (Nat.zero_le _) (fun _ => rfl)]
    rfl

theorem arityFailed_false (ft : FnType) (n : Nat) (h : arityFailed ft n = false) :
    ft.nArgTys ≤ n ∧ (ft.nArgTys < n → ft.variadic = true) := by
  unfold arityFailed at h
  cases hv : ft.variadic <;> rw [hv] at h
  · have : n = ft.nArgTys := by simpa using h
    omega
  · have : ¬ n < ft.nArgTys := by simpa using h
    exact ⟨by omega, fun _ => rfl⟩

theorem finish_safe (ft : FnType) (hinv : ft.variadic = true → 0 < ft.nArgTys) (args : List Arg) (failed : Bool)
    (errs : List TcErr) (hf : failed = false → arityFailed ft args.length = false) (site : String) :
    finish ft args failed errs ≠ .panic site := by
  unfold finish
  cases failed with
  | true => exact fun h => TcOutcome.noConfusion h
  | false =>
    obtain ⟨h1, h2⟩ := arityFailed_false ft args.length (hf rfl)
    rw [zipLongest_ok _ args ft.nArgTys h1 (fun h => by have := hinv (h2 h); simpa using this)]
    exact fun h => TcOutcome.noConfusion h

theorem typecheckExtensionFn_safe (strict : Bool) (lookup : Option FnType)
    (hinv : ∀ ft, lookup = some ft → ft.variadic = true → 0 < ft.nArgTys) (args : List Arg) (site : String) :
    typecheckExtensionFn .exactlyOne strict lookup args ≠ .panic site := by
  unfold typecheckExtensionFn
  cases lookup with
  | none => exact fun h => TcOutcome.noConfusion h
  | some ft =>
    simp only
    have hck := checkArguments_exactlyOne_safe ft args
    split
    · rename_i s hs; exact absurd hs (hck s)
    · exact finish_safe ft (hinv ft rfl) args _ _ (fun h => by cases h) site
    · exact finish_safe ft (hinv ft rfl) args _ _ (fun h => by
        rw [Bool.or_eq_false_iff] at h; exact h.1) site

end ExtArg
end NoPanic
end Cedar
