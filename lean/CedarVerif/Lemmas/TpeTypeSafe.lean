import CedarVerif.Lemmas.TpeArms
/- C14 helpers: `TypeSafe` — "no node of the residual raises a *type* error on this completion" (what validation of the
   typed expression gives, C03; guarded by short-circuiting exactly like the capabilities of the typechecker) — and the
   soundness of the can-error analysis `can_error_assuming_well_formed` for type-safe residuals:
   `typeSafe_errFree : TypeSafe r → r.canError = false → r evaluates`.  This DISCHARGES the hypothesis `ErrFreeSound`. -/
namespace Cedar.Tpe
open Cedar

section
variable (req : Request) (es : Entities)

/-- `r` is a boolean whenever it evaluates -/
def IsBoolR (r : Residual) : Prop := ∀ v, r.eval req es = .ok v → ∃ b, v = .prim (.bool b)

/-- `r` evaluates to the boolean `b` -/
def EvB (r : Residual) (b : Bool) : Prop := r.eval req es = .ok (.prim (.bool b))

/-- **dynamic type safety of a residual on a request / store**: at every node the operand values (when the operands
evaluate) have the dynamic kind the operator demands, i.e. the operator application is not a *type* error.  The right
operand of `&&` (`||`) and the branches of `if` are only constrained when they are reached.  Shape conditions are stated
with the store-free parts of the evaluator (`applyBinary []`, `hasAttrV []`: whether an application is a type error does
not depend on the store).  Nothing is asked of `.`, `getTag`, arithmetic or extension calls beyond their operands
(the analysis declares them error-prone anyway). -/
inductive TypeSafe : Residual → Prop
  | concrete (v ty) : TypeSafe (.concrete v ty)
  | error (ty) : TypeSafe (.error ty)
  | var (x ty) : TypeSafe (.part (.var x) ty)
  | and {l r ty} : TypeSafe l → IsBoolR req es l → (EvB req es l true → TypeSafe r) → (EvB req es l true → IsBoolR req es r) →
      TypeSafe (.part (.and l r) ty)
  | or {l r ty} : TypeSafe l → IsBoolR req es l → (EvB req es l false → TypeSafe r) → (EvB req es l false → IsBoolR req es r) →
      TypeSafe (.part (.or l r) ty)
  | ite {c t e ty} : TypeSafe c → IsBoolR req es c → (EvB req es c true → TypeSafe t) → (EvB req es c false → TypeSafe e) →
      TypeSafe (.part (.ite c t e) ty)
  | unary {op a ty} : TypeSafe a → (∀ v, a.eval req es = .ok v → applyUnary op v ≠ .error .type) →
      TypeSafe (.part (.unaryApp op a) ty)
  | binary {op a b ty} : TypeSafe a → TypeSafe b →
      (∀ v1 v2, a.eval req es = .ok v1 → b.eval req es = .ok v2 → applyBinary [] op v1 v2 ≠ .error .type) →
      TypeSafe (.part (.binaryApp op a b) ty)
  | getAttr {e a ty} : TypeSafe e → TypeSafe (.part (.getAttr e a) ty)
  | hasAttr {e a ty} : TypeSafe e → (∀ v, e.eval req es = .ok v → hasAttrV [] a v ≠ .error .type) →
      TypeSafe (.part (.hasAttr e a) ty)
  | like {e p ty} : TypeSafe e → (∀ v, e.eval req es = .ok v → likeV p v ≠ .error .type) → TypeSafe (.part (.like e p) ty)
  | is {e ety ty} : TypeSafe e → (∀ v, e.eval req es = .ok v → isV ety v ≠ .error .type) → TypeSafe (.part (.is e ety) ty)
  | call {fn args ty} : (∀ r, r ∈ args → TypeSafe r) → TypeSafe (.part (.call fn args) ty)
  | set {xs ty} : (∀ r, r ∈ xs → TypeSafe r) → TypeSafe (.part (.set xs) ty)
  | record {kvs ty} : (∀ kv, kv ∈ kvs → TypeSafe kv.2) → TypeSafe (.part (.record kvs) ty)

variable {req es}

theorem asEntityList_error {vs : List Value} {e : ErrClass} (h : asEntityList vs = .error e) : e = .type := by
  induction vs with
  | nil => simp [asEntityList] at h
  | cons v vs ih =>
    simp only [asEntityList, bind, Except.bind] at h
    cases hv : v.asEntity with
    | error e' =>
      rw [hv] at h
      cases v with
      | prim p => cases p <;> simp_all [Value.asEntity]
      | _ => simp_all [Value.asEntity]
    | ok u =>
      rw [hv] at h
      simp only at h
      cases hl : asEntityList vs with
      | error e' => rw [hl] at h; simp only [Except.error.injEq] at h; subst h; exact ih hl
      | ok us => rw [hl] at h; simp at h

/-- the operators the analysis declares error-free can only fail with a type error -/
theorem applyUnary_ok_or_type (op : UnaryOp) (hop : op ≠ .neg) (v : Value) :
    (∃ w, applyUnary op v = .ok w) ∨ applyUnary op v = .error .type := by
  cases op with
  | neg => exact absurd rfl hop
  | not =>
    cases v with
    | prim p => cases p <;> simp [applyUnary, Value.asBool, bind, Except.bind]
    | _ => simp [applyUnary, Value.asBool, bind, Except.bind]
  | isEmpty => cases v <;> simp [applyUnary, Value.asSet, bind, Except.bind]

def errProneOp : BinaryOp → Bool
  | .add | .sub | .mul | .getTag => true
  | _ => false

theorem applyCmp_ok_or_type (s : Bool) (v1 v2 : Value) : (∃ w, applyCmp s v1 v2 = .ok w) ∨ applyCmp s v1 v2 = .error .type := by
  unfold applyCmp
  cases s <;> simp only [] <;> split <;> simp

theorem applyBinary_ok_or_type (es : Entities) (op : BinaryOp) (hop : errProneOp op = false) (v1 v2 : Value) :
    (∃ w, applyBinary es op v1 v2 = .ok w) ∨ applyBinary [] op v1 v2 = .error .type := by
  cases op with
  | add => simp [errProneOp] at hop
  | sub => simp [errProneOp] at hop
  | mul => simp [errProneOp] at hop
  | getTag => simp [errProneOp] at hop
  | eq => left; exact ⟨_, rfl⟩
  | less => exact applyCmp_ok_or_type true v1 v2
  | lessEq => exact applyCmp_ok_or_type false v1 v2
  | contains => cases v1 <;> simp [applyBinary, Value.asSet, bind, Except.bind]
  | containsAll => cases v1 <;> cases v2 <;> simp [applyBinary, Value.asSet, bind, Except.bind]
  | containsAny => cases v1 <;> cases v2 <;> simp [applyBinary, Value.asSet, bind, Except.bind]
  | hasTag =>
    simp only [applyBinary, bind, Except.bind]
    cases h1 : v1.asEntity with
    | error e => right; cases v1 with
      | prim p => cases p <;> simp_all [Value.asEntity]
      | _ => simp_all [Value.asEntity]
    | ok u =>
      simp only
      cases h2 : v2.asString with
      | error e => right; cases v2 with
        | prim p => cases p <;> simp_all [Value.asString]
        | _ => simp_all [Value.asString]
      | ok t => left; simp only; cases es.find? u <;> exact ⟨_, rfl⟩
  | mem =>
    simp only [applyBinary, bind, Except.bind]
    cases h1 : v1.asEntity with
    | error e => right; cases v1 with
      | prim p => cases p <;> simp_all [Value.asEntity]
      | _ => simp_all [Value.asEntity]
    | ok u =>
      simp only
      cases v2 with
      | prim p => cases p <;> simp
      | record kvs => simp
      | ext x => simp
      | set vs =>
        simp only
        cases hl : asEntityList vs with
        | error e => right; rw [asEntityList_error hl]
        | ok us => left; exact ⟨_, rfl⟩

theorem hasAttrV_ok_or_type (es : Entities) (a : String) (v : Value) :
    (∃ w, hasAttrV es a v = .ok w) ∨ hasAttrV [] a v = .error .type := by
  cases v with
  | prim p =>
    cases p with
    | entityUID u => left; simp only [hasAttrV]; cases es.find? u <;> exact ⟨_, rfl⟩
    | _ => right; rfl
  | record kvs => left; exact ⟨_, rfl⟩
  | set vs => right; rfl
  | ext x => right; rfl

theorem likeV_ok_or_type (p : Pattern) (v : Value) : (∃ w, likeV p v = .ok w) ∨ likeV p v = .error .type := by
  cases v with
  | prim q => cases q <;> simp [likeV, Value.asString]
  | _ => simp [likeV, Value.asString]

theorem isV_ok_or_type (ty : EntityType) (v : Value) : (∃ w, isV ty v = .ok w) ∨ isV ty v = .error .type := by
  cases v with
  | prim q => cases q <;> simp [isV, Value.asEntity]
  | _ => simp [isV, Value.asEntity]

theorem evalList_ok_of_all {xs : List Residual}
    (h : ∀ r, r ∈ xs → r.canError = false → ∃ v, r.eval req es = .ok v) (hc : Residual.canErrorList xs = false) :
    ∃ vs, Residual.evalList req es xs = .ok vs := by
  induction xs with
  | nil => exact ⟨[], rfl⟩
  | cons a l ih =>
    simp only [Residual.canErrorList, Bool.or_eq_false_iff] at hc
    obtain ⟨v, hv⟩ := h a (by simp) hc.1
    obtain ⟨vs, hvs⟩ := ih (fun r hr => h r (by simp [hr])) hc.2
    exact ⟨v :: vs, by simp [Residual.evalList, hv, hvs]⟩

theorem evalKVs_ok_of_all {xs : List (String × Residual)}
    (h : ∀ kv, kv ∈ xs → kv.2.canError = false → ∃ v, kv.2.eval req es = .ok v) (hc : Residual.canErrorKVs xs = false) :
    ∃ vs, Residual.evalKVs req es xs = .ok vs := by
  induction xs with
  | nil => exact ⟨[], rfl⟩
  | cons a l ih =>
    obtain ⟨k, r⟩ := a
    simp only [Residual.canErrorKVs, Bool.or_eq_false_iff] at hc
    obtain ⟨v, hv⟩ := h (k, r) (by simp) hc.1
    obtain ⟨vs, hvs⟩ := ih (fun kv hkv => h kv (by simp [hkv])) hc.2
    exact ⟨(k, v) :: vs, by simp [Residual.evalKVs, hv, hvs]⟩

/-- **the can-error analysis is sound for type-safe residuals**: what `can_error_assuming_well_formed` declares
error-free (variables, literals, `&&` `||` `if` `!` `isEmpty` `==` `<` `<=` `in` `contains*` `hasTag` `has` `like` `is`, set and
record constructors — over error-free operands) evaluates on every request / store on which no node is a type error:
none of these operators has another way to fail (a missing entity makes `has` / `hasTag` / `in` false, not an error). -/
theorem typeSafe_errFree {r : Residual} (h : TypeSafe req es r) : r.canError = false → ∃ v, r.eval req es = .ok v := by
  induction h with
  | concrete v ty => intro _; exact ⟨v, rfl⟩
  | error ty => intro hc; simp [Residual.canError] at hc
  | var x ty => intro _; cases x <;> exact ⟨_, rfl⟩
  | @and l r ty _ hbl _ hbr ihl ihr =>
    intro hc
    simp only [Residual.canError, RKind.canError, Bool.or_eq_false_iff] at hc
    obtain ⟨v, hv⟩ := ihl hc.1
    obtain ⟨b, rfl⟩ := hbl v hv
    simp only [Residual.eval, RKind.eval, hv]
    cases b
    · exact ⟨_, rfl⟩
    · obtain ⟨w, hw⟩ := ihr hv hc.2
      obtain ⟨b', rfl⟩ := hbr hv w hw
      rw [hw]; exact ⟨_, rfl⟩
  | @or l r ty _ hbl _ hbr ihl ihr =>
    intro hc
    simp only [Residual.canError, RKind.canError, Bool.or_eq_false_iff] at hc
    obtain ⟨v, hv⟩ := ihl hc.1
    obtain ⟨b, rfl⟩ := hbl v hv
    simp only [Residual.eval, RKind.eval, hv]
    cases b
    · obtain ⟨w, hw⟩ := ihr hv hc.2
      obtain ⟨b', rfl⟩ := hbr hv w hw
      rw [hw]; exact ⟨_, rfl⟩
    · exact ⟨_, rfl⟩
  | @ite c t e ty _ hbc _ _ ihc iht ihe =>
    intro hc
    simp only [Residual.canError, RKind.canError, Bool.or_eq_false_iff] at hc
    obtain ⟨v, hv⟩ := ihc hc.1.1
    obtain ⟨b, rfl⟩ := hbc v hv
    simp only [Residual.eval, RKind.eval, hv]
    cases b
    · obtain ⟨w, hw⟩ := ihe hv hc.2
      exact ⟨w, by simp [iteR, asBool_bool, hw]⟩
    · obtain ⟨w, hw⟩ := iht hv hc.1.2
      exact ⟨w, by simp [iteR, asBool_bool, hw]⟩
  | @unary op a ty _ hsh ih =>
    intro hc
    have hop : op ≠ .neg := by rintro rfl; simp [Residual.canError, RKind.canError] at hc
    have hca : a.canError = false := by cases op <;> simp_all [Residual.canError, RKind.canError]
    obtain ⟨v, hv⟩ := ih hca
    simp only [Residual.eval, RKind.eval, hv, bindR]
    rcases applyUnary_ok_or_type op hop v with h | h
    · exact h
    · exact absurd h (hsh v hv)
  | @binary op a b ty _ _ hsh iha ihb =>
    intro hc
    have hop : errProneOp op = false := by cases op <;> simp_all [Residual.canError, RKind.canError, errProneOp]
    have hcab : a.canError = false ∧ b.canError = false := by
      cases op <;> simp_all [Residual.canError, RKind.canError, errProneOp]
    obtain ⟨v1, hv1⟩ := iha hcab.1
    obtain ⟨v2, hv2⟩ := ihb hcab.2
    simp only [Residual.eval, RKind.eval, hv1, hv2, bindR]
    rcases applyBinary_ok_or_type es op hop v1 v2 with h | h
    · exact h
    · exact absurd h (hsh v1 v2 hv1 hv2)
  | @getAttr e a ty _ _ => intro hc; simp [Residual.canError, RKind.canError] at hc
  | @hasAttr e a ty _ hsh ih =>
    intro hc
    obtain ⟨v, hv⟩ := ih (by simpa [Residual.canError, RKind.canError] using hc)
    simp only [Residual.eval, RKind.eval, hv, bindR]
    rcases hasAttrV_ok_or_type es a v with h | h
    · exact h
    · exact absurd h (hsh v hv)
  | @like e p ty _ hsh ih =>
    intro hc
    obtain ⟨v, hv⟩ := ih (by simpa [Residual.canError, RKind.canError] using hc)
    simp only [Residual.eval, RKind.eval, hv, bindR]
    rcases likeV_ok_or_type p v with h | h
    · exact h
    · exact absurd h (hsh v hv)
  | @is e ety ty _ hsh ih =>
    intro hc
    obtain ⟨v, hv⟩ := ih (by simpa [Residual.canError, RKind.canError] using hc)
    simp only [Residual.eval, RKind.eval, hv, bindR]
    rcases isV_ok_or_type ety v with h | h
    · exact h
    · exact absurd h (hsh v hv)
  | @call fn args ty _ _ => intro hc; simp [Residual.canError, RKind.canError] at hc
  | @set xs ty _ ih =>
    intro hc
    obtain ⟨vs, hvs⟩ := evalList_ok_of_all ih (by simpa [Residual.canError, RKind.canError] using hc)
    simp only [Residual.eval, RKind.eval, hvs]; exact ⟨_, rfl⟩
  | @record kvs ty _ ih =>
    intro hc
    obtain ⟨vs, hvs⟩ := evalKVs_ok_of_all ih (by simpa [Residual.canError, RKind.canError] using hc)
    simp only [Residual.eval, RKind.eval, hvs]; exact ⟨_, rfl⟩

end
end Cedar.Tpe
