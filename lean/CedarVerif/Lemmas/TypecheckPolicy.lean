import CedarVerif.Lemmas.TypecheckSound2
/-
C03: from the per-environment statement to the policy-level one: the request environment of a conformant request is among
the environments `checkPolicy` typechecks.
-/
namespace Cedar.C03

open Cedar

theorem option_mapM_mem {α β : Type} {f : α → Option β} : ∀ {l : List α} {r : List β}, l.mapM f = some r →
    ∀ x, x ∈ l → ∃ y, f x = some y ∧ y ∈ r
  | [], r, _, x, hx => by cases hx
  | a :: l, r, h, x, hx => by
    simp only [List.mapM_cons, bind, Option.bind] at h
    cases hfa : f a with
    | none => rw [hfa] at h; cases h
    | some y =>
      rw [hfa] at h; simp only at h
      cases hl : l.mapM f with
      | none => rw [hl] at h; cases h
      | some ys =>
        rw [hl] at h
        simp only [pure, Option.some.injEq] at h
        subst h
        rcases List.mem_cons.mp hx with rfl | hx
        · exact ⟨y, hfa, List.mem_cons_self⟩
        · obtain ⟨y', h1, h2⟩ := option_mapM_mem hl x hx
          exact ⟨y', h1, List.mem_cons_of_mem _ h2⟩

/-- every environment that `checkPolicy` lists got a verdict -/
theorem checkPolicy_mem {m : ValidationMode} {s : Schema} {pu ru : SlotUse} {cond : Expr} {vs : List (RequestEnv × Verdict)}
    (h : checkPolicy m s pu ru cond = some vs) {env : RequestEnv} (henv : env ∈ s.envs pu ru) :
    ∃ v, checkEnv m s env cond = some v ∧ (env, v) ∈ vs := by
  unfold checkPolicy at h
  obtain ⟨y, hy, hmem⟩ := option_mapM_mem h env henv
  cases hc : checkEnv m s env cond with
  | none => rw [hc] at hy; cases hy
  | some v =>
    rw [hc] at hy
    simp only [Option.map_some, Option.some.injEq] at hy
    subst hy
    exact ⟨v, rfl, hmem⟩

/-- the environment of a conformant request is one of the unlinked environments of the schema -/
theorem conformant_request_env {s : Schema} {q : Request} (hreq : ConformsRequest s q) :
    ∃ env, env ∈ s.envs .absent .absent ∧ EnvMatches s env q ∧ env.principalSlot = none ∧ env.resourceSlot = none := by
  obtain ⟨_, _, _, _, ⟨a, ha, hp, hr⟩, _⟩ := hreq
  refine ⟨{ principal := q.principal.ty, action := q.action, resource := q.resource.ty, context := a.context,
            principalSlot := none, resourceSlot := none }, ?_, ⟨rfl, rfl, rfl, a, ha, rfl⟩, rfl, rfl⟩
  unfold Schema.envs Schema.unlinkedEnvs
  rw [List.mem_flatMap]
  refine ⟨{ principal := q.principal.ty, action := q.action, resource := q.resource.ty, context := a.context,
            principalSlot := none, resourceSlot := none }, ?_, ?_⟩
  · rw [List.mem_flatMap]
    refine ⟨(q.action, a), action?_mem ha, ?_⟩
    rw [List.mem_flatMap]
    refine ⟨q.principal.ty, hp, ?_⟩
    rw [List.mem_map]
    exact ⟨q.resource.ty, hr, rfl⟩
  · simp [linkEnv, possibleSlotLinks]

end Cedar.C03
