import CedarVerif.Lemmas.TCOps
/-
Lemmas for C04, part 7: COMPLETENESS of the cycle detection of `repair_tc` (no acyclicity assumed).
`addAnc_cspec`: on any parent graph, with enough fuel, a call of `add_ancestors(x, seen)`
  * leaves every node of `seen` other than `x` untouched (`frame`),
  * puts every direct parent of `x` and of every newly seen node into `seen` (`par`, `closed`),
  * propagates the out-edges of every newly seen node up to `x` (`up`),
hence every node reachable from `x` along a path whose intermediate nodes were not in `seen` ends up as an
out-edge of `x` (`wreach_out`). So the first node lying on a cycle that is visited gets an edge to itself
(`cyc`): either some record has a self-edge afterwards, or no node on a cycle has been seen or started.
`repairTc_complete`: if the untouched records are complete and have no self-edge, a cyclic parent graph
is rejected.
-/
namespace Cedar.TC
set_option linter.unusedSectionVars false

variable {α : Type} [DecidableEq α]

/-- all out-edges stay inside the universe `U` -/
def InU (U : List α) (s : Store α) : Prop := ∀ x n, get s x = some n → ∀ y, y ∈ n.out → y ∈ U

/-- some record has an out-edge to itself -/
def SelfE (s : Store α) : Prop := ∃ c n, get s c = some n ∧ c ∈ n.out

theorem SelfE.mono {s s' : Store α} (he : Ext s s') (h : SelfE s) : SelfE s' := by
  obtain ⟨c, n, hc, hn⟩ := h
  obtain ⟨n', hn', _, ho, _, _⟩ := he.1 c n hc
  exact ⟨c, n', hn', ho c hn⟩

/-- reachability along a path whose intermediate nodes avoid `S` -/
inductive WReach (P : α → Option (List α)) (S : List α) : α → α → Prop
  | edge {x y ps} : P x = some ps → y ∈ ps → WReach P S x y
  | step {x y z ps} : P x = some ps → z ∈ ps → z ∉ S → WReach P S z y → WReach P S x y

theorem ancestors_some {s : Store α} {x : α} {n : Node α} (h : get s x = some n) : ancestors s x = n.out := by
  simp [ancestors, h]

theorem parent_mem_ancestors {P : α → Option (List α)} {s : Store α} (hs : ShapeIs P s) {x y : α} {ps : List α}
    (hp : P x = some ps) (hy : y ∈ ps) : y ∈ ancestors s x := by
  have := hs x
  rw [hp] at this
  cases hg : get s x with
  | none => rw [hg] at this; cases this
  | some n =>
    rw [hg] at this
    simp only [Option.map_some, Option.some.injEq] at this
    rw [ancestors_some hg]
    unfold Node.out
    exact List.mem_append_left _ (this ▸ hy)

/-- a cycle through `a`, none of whose other nodes is in `S`, is a white path from `a` to `a` -/
theorem cyc_wreach {P : α → Option (List α)} {S : List α} {a : α} (hS : ∀ c, c ∈ S → Reach P c c → c = a) :
    ∀ x y, Reach P x y → y = a → (x = a ∨ Reach P a x) → WReach P S x a := by
  intro x y hr
  induction hr with
  | edge hp hy => intro e _; subst e; exact WReach.edge hp hy
  | @step x' y' z ps hp hz hzy ih =>
    intro e hx
    subst e
    by_cases hza : z = y'
    · exact WReach.edge hp (hza ▸ hz)
    · have haz : Reach P y' z := by
        rcases hx with rfl | hx
        · exact Reach.edge hp hz
        · exact hx.trans (Reach.edge hp hz)
      have hzS : z ∉ S := fun h => hza (hS z h (hzy.trans haz))
      exact WReach.step hp hz hzS (ih rfl (Or.inr haz))

/-- the white-path property follows from the three closure facts of a finished call -/
theorem wreach_out {P : α → Option (List α)} {s' : Store α} {S S' : List α} {a : α} (hs : ShapeIs P s')
    (par : ∀ ps, P a = some ps → ∀ w, w ∈ ps → w ∈ S')
    (closed : ∀ v, v ∈ S' → v ∉ S → ∀ ps, P v = some ps → ∀ w, w ∈ ps → w ∈ S')
    (up : ∀ v, v ∈ S' → v ∉ S → ∀ y, y ∈ ancestors s' v → y ∈ ancestors s' a) :
    ∀ y, WReach P S a y → y ∈ ancestors s' a := by
  have aux : ∀ z y, WReach P S z y → z ∈ S' → z ∉ S → y ∈ ancestors s' a := by
    intro z y hw
    induction hw with
    | edge hp hy => intro h1 h2; exact up _ h1 h2 _ (parent_mem_ancestors hs hp hy)
    | step hp hz hzS _ ih => intro h1 h2; exact ih (closed _ h1 h2 _ hp _ hz) hzS
  intro y hw
  cases hw with
  | edge hp hy => exact parent_mem_ancestors hs hp hy
  | step hp hz hzS hzy => exact aux _ _ hzy (par _ hp _ hz) hzS

/-! ### specification of `add_ancestors` on arbitrary parent graphs -/

structure CPost (P : α → Option (List α)) (U : List α) (x : α) (s : Store α) (seen : List α)
    (r : Store α × List α) : Prop where
  ext : Ext s r.1
  inU : InU U r.1
  sub : ∀ a, a ∈ seen → a ∈ r.2
  frame : ∀ v, v ∈ seen → v ≠ x → get r.1 v = get s v
  par : ∀ ps, P x = some ps → ∀ w, w ∈ ps → w ∈ r.2
  closed : ∀ v, v ∈ r.2 → v ∉ seen → ∀ ps, P v = some ps → ∀ w, w ∈ ps → w ∈ r.2
  up : ∀ v, v ∈ r.2 → v ∉ seen → ∀ y, y ∈ ancestors r.1 v → y ∈ ancestors r.1 x
  cyc : (∀ c, c ∈ seen → Reach P c c → c = x) →
    SelfE r.1 ∨ ((∀ c, c ∈ r.2 → ¬ Reach P c c) ∧ ¬ Reach P x x)

def CSpec (P : α → Option (List α)) (U : List α) (rec : α → Store α → List α → Store α × List α) (f : Nat) : Prop :=
  ∀ x s seen, InU U s → ShapeIs P s → unseen U seen < f → CPost P U x s seen (rec x s seen)

structure CLI (P : α → Option (List α)) (U : List α) (x : α) (s0 : Store α) (seen0 : List α)
    (done : List α) (st : LoopSt α) : Prop where
  ext : Ext s0 st.s
  inU : InU U st.s
  sub : ∀ a, a ∈ seen0 → a ∈ st.seen
  frame : ∀ v, v ∈ seen0 → get st.s v = get s0 v
  doneSeen : ∀ a, a ∈ done → a ∈ st.seen
  expl : ∀ a, a ∈ st.explored ↔ a ∈ done
  closed : ∀ v, v ∈ st.seen → v ∉ seen0 → ∀ ps, P v = some ps → ∀ w, w ∈ ps → w ∈ st.seen
  up : ∀ v, v ∈ st.seen → v ∉ seen0 → ∀ y, y ∈ ancestors st.s v → y ∈ st.acc
  accU : ∀ y, y ∈ st.acc → y ∈ U
  cyc : (∀ c, c ∈ seen0 → Reach P c c → c = x) → ¬ Reach P x x →
    SelfE st.s ∨ (∀ c, c ∈ st.seen → ¬ Reach P c c)

theorem ancestors_inU {U : List α} {s : Store α} (h : InU U s) (a : α) : ∀ y, y ∈ ancestors s a → y ∈ U := by
  intro y hy
  unfold ancestors at hy
  cases hg : get s a with
  | none => rw [hg] at hy; cases hy
  | some n => rw [hg] at hy; exact h a n hg y hy

theorem loopStep_CLI (P : α → Option (List α)) (U : List α)
    (rec : α → Store α → List α → Store α × List α) (f : Nat) (hrec : CSpec P U rec f)
    (x : α) (s0 : Store α) (seen0 : List α) (hshape : ShapeIs P s0) (hfuel : unseen U seen0 < f + 1)
    (done : List α) (st : LoopSt α) (a : α) (haU : a ∈ U)
    (h : CLI P U x s0 seen0 done st) :
    CLI P U x s0 seen0 (done ++ [a]) (loopStep rec st a) := by
  have hshape_st : ShapeIs P st.s := hshape.ext h.ext
  have key : ∃ s' seen', (if a ∈ st.seen then (st.s, st.seen) else rec a st.s (a :: st.seen)) = (s', seen') ∧
      Ext st.s s' ∧ InU U s' ∧ (∀ b, b ∈ st.seen → b ∈ seen') ∧ a ∈ seen' ∧
      (∀ v, v ∈ st.seen → get s' v = get st.s v) ∧
      (∀ v, v ∈ seen' → v ∉ st.seen → (∀ ps, P v = some ps → ∀ w, w ∈ ps → w ∈ seen') ∧
        (∀ y, y ∈ ancestors s' v → y ∈ ancestors s' a)) ∧
      ((∀ c, c ∈ st.seen → ¬ Reach P c c) → SelfE s' ∨ (∀ c, c ∈ seen' → ¬ Reach P c c)) := by
    by_cases hin : a ∈ st.seen
    · exact ⟨st.s, st.seen, by simp [hin], Ext.refl _, h.inU, fun _ hb => hb, hin, fun _ _ => rfl,
        fun v hv hv' => absurd hv hv', fun hc => Or.inr hc⟩
    · have hf : unseen U (a :: st.seen) < f := by
        have h1 := unseen_cons_lt U st.seen a haU hin
        have h2 := unseen_mono U seen0 st.seen h.sub
        omega
      have hpost := hrec a st.s (a :: st.seen) h.inU hshape_st hf
      refine ⟨(rec a st.s (a :: st.seen)).1, (rec a st.s (a :: st.seen)).2, by simp [hin], hpost.ext, hpost.inU,
        fun b hb => hpost.sub b (List.mem_cons_of_mem _ hb), hpost.sub a List.mem_cons_self, ?_, ?_, ?_⟩
      · intro v hv
        exact hpost.frame v (List.mem_cons_of_mem _ hv) (fun e => hin (e ▸ hv))
      · intro v hv hv'
        by_cases hva : v = a
        · subst hva
          exact ⟨fun ps hp w hw => hpost.par ps hp w hw, fun y hy => hy⟩
        · have hv'' : v ∉ a :: st.seen := by
            simp only [List.mem_cons, not_or]; exact ⟨hva, hv'⟩
          exact ⟨fun ps hp w hw => hpost.closed v hv hv'' ps hp w hw, fun y hy => hpost.up v hv hv'' y hy⟩
      · intro hc
        have hpre : ∀ c, c ∈ a :: st.seen → Reach P c c → c = a := by
          intro c hcm hcc
          simp only [List.mem_cons] at hcm
          rcases hcm with rfl | hcm
          · rfl
          · exact absurd hcc (hc c hcm)
        rcases hpost.cyc hpre with h' | h'
        · exact Or.inl h'
        · exact Or.inr h'.1
  obtain ⟨s', seen', hr, hext, hinU, hsub, haseen, hframe, hnew, hcyc⟩ := key
  have hext0 : Ext s0 s' := h.ext.trans hext
  have hframe0 : ∀ v, v ∈ seen0 → get s' v = get s0 v := by
    intro v hv; rw [hframe v (h.sub v hv)]; exact h.frame v hv
  have hdone : ∀ b, b ∈ done ++ [a] → b ∈ seen' := by
    intro b hb
    simp only [List.mem_append, List.mem_singleton] at hb
    rcases hb with hb | rfl
    · exact hsub b (h.doneSeen b hb)
    · exact haseen
  have hclosed : ∀ v, v ∈ seen' → v ∉ seen0 → ∀ ps, P v = some ps → ∀ w, w ∈ ps → w ∈ seen' := by
    intro v hv hv0 ps hp w hw
    by_cases hvs : v ∈ st.seen
    · exact hsub w (h.closed v hvs hv0 ps hp w hw)
    · exact (hnew v hv hvs).1 ps hp w hw
  have hcyc' : (∀ c, c ∈ seen0 → Reach P c c → c = x) → ¬ Reach P x x →
      SelfE s' ∨ (∀ c, c ∈ seen' → ¬ Reach P c c) := by
    intro h1 h2
    rcases h.cyc h1 h2 with h' | h'
    · exact Or.inl (h'.mono hext)
    · exact hcyc h'
  have hup : ∀ v, v ∈ seen' → v ∉ seen0 → ∀ y, y ∈ ancestors s' v → y ∈ st.acc ∨ y ∈ ancestors s' a := by
    intro v hv hv0 y hy
    by_cases hvs : v ∈ st.seen
    · left
      have : ancestors s' v = ancestors st.s v := by unfold ancestors; rw [hframe v hvs]
      rw [this] at hy
      exact h.up v hvs hv0 y hy
    · exact Or.inr ((hnew v hv hvs).2 y hy)
  unfold loopStep
  simp only [hr]
  by_cases hex : a ∈ st.explored
  · simp only [hex, if_true]
    have hdn : a ∈ done := (h.expl a).mp hex
    have hin : a ∈ st.seen := h.doneSeen a hdn
    have hr' : (s', seen') = (st.s, st.seen) := by rw [← hr]; simp [hin]
    cases hr'
    refine ⟨hext0, hinU, fun b hb => hsub b (h.sub b hb), hframe0, hdone, ?_, hclosed, h.up, h.accU, hcyc'⟩
    intro b
    simp only [List.mem_append, List.mem_singleton]
    constructor
    · intro hb; exact Or.inl ((h.expl b).mp hb)
    · rintro (hb | rfl)
      · exact (h.expl b).mpr hb
      · exact hex
  · simp only [hex, if_false]
    cases hga : get s' a with
    | none =>
      simp only
      refine ⟨hext0, hinU, fun b hb => hsub b (h.sub b hb), hframe0, hdone, expl_step _ _ a h.expl, hclosed, ?_,
        h.accU, hcyc'⟩
      intro v hv hv0 y hy
      rcases hup v hv hv0 y hy with h' | h'
      · exact h'
      · simp [ancestors, hga] at h'
    | some na =>
      simp only
      refine ⟨hext0, hinU, fun b hb => hsub b (h.sub b hb), hframe0, hdone, expl_step _ _ a h.expl, hclosed, ?_,
        ?_, hcyc'⟩
      · intro v hv hv0 y hy
        simp only [List.mem_append]
        rcases hup v hv hv0 y hy with h' | h'
        · exact Or.inl h'
        · rw [ancestors_some hga] at h'; exact Or.inr h'
      · intro y hy
        simp only [List.mem_append] at hy
        rcases hy with hy | hy
        · exact h.accU y hy
        · exact hinU a na hga y hy

theorem fold_CLI (P : α → Option (List α)) (U : List α)
    (rec : α → Store α → List α → Store α × List α) (f : Nat) (hrec : CSpec P U rec f)
    (x : α) (s0 : Store α) (seen0 : List α) (hshape : ShapeIs P s0) (hfuel : unseen U seen0 < f + 1)
    (outs : List α) :
    ∀ (done : List α) (st : LoopSt α), (∀ a, a ∈ outs → a ∈ U) →
      CLI P U x s0 seen0 done st → CLI P U x s0 seen0 (done ++ outs) (outs.foldl (loopStep rec) st) := by
  induction outs with
  | nil => intro done st _ h; simpa using h
  | cons a outs ih =>
    intro done st hall h
    have h1 := loopStep_CLI P U rec f hrec x s0 seen0 hshape hfuel done st a (hall a List.mem_cons_self) h
    have h2 := ih (done ++ [a]) (loopStep rec st a) (fun b hb => hall b (List.mem_cons_of_mem _ hb)) h1
    simpa [List.append_assoc] using h2

/-- on any parent graph, with enough fuel: frame, closure of the newly seen nodes, propagation, and the
    first visited node on a cycle gets a self-edge -/
theorem addAnc_cspec (P : α → Option (List α)) (U : List α) : ∀ f, CSpec P U (addAnc f) f := by
  intro f
  induction f with
  | zero => intro x s seen _ _ hf; omega
  | succ f ih =>
    intro x s seen hinU hshp hf
    unfold addAnc
    cases hgx : get s x with
    | none =>
      simp only
      have hPx : P x = none := by rw [← hshp x, hgx]; rfl
      have hnc : ¬ Reach P x x := Reach.of_none hPx
      refine ⟨Ext.refl _, hinU, fun _ h => h, fun _ _ _ => rfl, ?_, fun v hv hv' => absurd hv hv',
        fun v hv hv' => absurd hv hv', ?_⟩
      · intro ps hp; rw [hPx] at hp; cases hp
      · intro hpre
        exact Or.inr ⟨fun c hc hcc => hnc (hpre c hc hcc ▸ hcc), hnc⟩
    | some nx =>
      simp only
      have hPx : P x = some nx.parents := by rw [← hshp x, hgx]; rfl
      have hinit : CLI P U x s seen [] { s := s, seen := seen, acc := [], explored := [] } := by
        refine ⟨Ext.refl _, hinU, fun _ h => h, fun _ _ => rfl, fun a ha => (by cases ha), (by intro a; simp),
          ?_, fun v hv hv' => absurd hv hv', (by intro y hy; cases hy), ?_⟩
        · intro v hv hv'; exact absurd hv hv'
        · intro hpre hnc
          exact Or.inr (fun c hc hcc => hnc (hpre c hc hcc ▸ hcc))
      have hall : ∀ a, a ∈ nx.out → a ∈ U := fun a ha => hinU x nx hgx a ha
      have hli := fold_CLI P U (addAnc f) f ih x s seen hshp hf nx.out [] _ hall hinit
      simp only [List.nil_append] at hli
      generalize nx.out.foldl (loopStep (addAnc f)) { s := s, seen := seen, acc := [], explored := [] } = st at hli
      obtain ⟨nx', hgx', hpar', hout', _, _⟩ := hli.ext.1 x nx hgx
      simp only [hgx']
      have hE : Ext st.s (set st.s x (nx'.addEdges st.acc)) :=
        Ext_set st.s x nx' _ hgx' (addEdges_parents _ _) (fun y hy => (mem_addEdges_out _ _ _).mpr (Or.inl hy))
          (addEdges_indirect _ _) (addEdges_tag _ _)
      have hget : get (set st.s x (nx'.addEdges st.acc)) x = some (nx'.addEdges st.acc) :=
        get_set_self _ _ _ _ hgx'
      have hancx : ∀ y, y ∈ st.acc → y ∈ ancestors (set st.s x (nx'.addEdges st.acc)) x := by
        intro y hy
        rw [ancestors_some hget]
        exact (mem_addEdges_out _ _ _).mpr (Or.inr hy)
      have hpar : ∀ ps, P x = some ps → ∀ w, w ∈ ps → w ∈ st.seen := by
        intro ps hp w hw
        rw [hPx] at hp; cases hp
        apply hli.doneSeen
        unfold Node.out
        exact List.mem_append_left _ hw
      have hupx : ∀ v, v ∈ st.seen → v ∉ seen → ∀ y, y ∈ ancestors (set st.s x (nx'.addEdges st.acc)) v →
          y ∈ ancestors (set st.s x (nx'.addEdges st.acc)) x := by
        intro v hv hv' y hy
        by_cases hvx : v = x
        · subst hvx; exact hy
        · have : ancestors (set st.s x (nx'.addEdges st.acc)) v = ancestors st.s v := by
            unfold ancestors; rw [get_set_other _ _ _ _ hvx]
          rw [this] at hy
          exact hancx y (hli.up v hv hv' y hy)
      have hshp' : ShapeIs P (set st.s x (nx'.addEdges st.acc)) := hshp.ext (hli.ext.trans hE)
      refine ⟨hli.ext.trans hE, ?_, hli.sub, ?_, hpar, hli.closed, hupx, ?_⟩
      · -- InU
        intro z m hz y hy
        by_cases hzx : z = x
        · subst hzx
          rw [hget] at hz; cases hz
          rcases (mem_addEdges_out _ _ _).mp hy with hy | hy
          · exact hli.inU z nx' hgx' y hy
          · exact hli.accU y hy
        · rw [get_set_other _ _ _ _ hzx] at hz
          exact hli.inU z m hz y hy
      · -- frame
        intro v hv hvx
        rw [get_set_other _ _ _ _ hvx]
        exact hli.frame v hv
      · -- cyc
        intro hpre
        by_cases hc : Reach P x x
        · left
          have hw : WReach P seen x x := cyc_wreach hpre x x hc rfl (Or.inl rfl)
          have := wreach_out hshp' hpar hli.closed hupx x hw
          rw [ancestors_some hget] at this
          exact ⟨x, _, hget, this⟩
        · rcases hli.cyc hpre hc with h' | h'
          · exact Or.inl (h'.mono hE)
          · exact Or.inr ⟨h', hc⟩

/-! ### the outer loop and `repair_tc` -/

theorem repairLoop_cspec (P : α → Option (List α)) (U : List α) (fuel : Nat) (seen0 : List α) :
    ∀ (t : List α) (s : Store α) (seen : List α),
      InU U s → ShapeIs P s → unseen U seen < fuel → (∀ a, a ∈ seen0 → a ∈ seen) →
      (∀ v, v ∈ seen0 → v ∉ t) →
      Ext s (repairLoop fuel t s seen).1 ∧
      (∀ v, v ∈ seen0 → get (repairLoop fuel t s seen).1 v = get s v) ∧
      (SelfE s ∨ (∀ c, c ∈ seen → ¬ Reach P c c) →
        SelfE (repairLoop fuel t s seen).1 ∨ (∀ x, x ∈ t → ¬ Reach P x x)) := by
  intro t
  induction t with
  | nil =>
    intro s seen _ _ _ _ _
    refine ⟨Ext.refl _, fun _ _ => rfl, ?_⟩
    intro h
    rcases h with h | _
    · exact Or.inl h
    · exact Or.inr (fun x hx => by cases hx)
  | cons x t ih =>
    intro s seen hinU hs hf hsub hnt
    have hpost := addAnc_cspec P U fuel x s seen hinU hs hf
    have hf' : unseen U (addAnc fuel x s seen).2 < fuel := by
      have := unseen_mono U seen (addAnc fuel x s seen).2 hpost.sub
      omega
    have h := ih (addAnc fuel x s seen).1 (addAnc fuel x s seen).2 hpost.inU (hs.ext hpost.ext) hf'
      (fun a ha => hpost.sub a (hsub a ha)) (fun v hv hvt => hnt v hv (List.mem_cons_of_mem _ hvt))
    have e : repairLoop fuel (x :: t) s seen =
        repairLoop fuel t (addAnc fuel x s seen).1 (addAnc fuel x s seen).2 := by
      simp [repairLoop]
    rw [e]
    refine ⟨hpost.ext.trans h.1, ?_, ?_⟩
    · intro v hv
      rw [h.2.1 v hv]
      exact hpost.frame v (hsub v hv) (fun e' => hnt v hv (e' ▸ List.mem_cons_self))
    · intro hc
      have hmid : SelfE (addAnc fuel x s seen).1 ∨
          ((∀ c, c ∈ (addAnc fuel x s seen).2 → ¬ Reach P c c) ∧ ¬ Reach P x x) := by
        rcases hc with hc | hc
        · exact Or.inl (hc.mono hpost.ext)
        · exact hpost.cyc (fun c hcm hcc => absurd hcc (hc c hcm))
      rcases hmid with hm | hm
      · rcases h.2.2 (Or.inl hm) with h' | _
        · exact Or.inl h'
        · exact Or.inl (hm.mono h.1)
      · rcases h.2.2 (Or.inr hm.1) with h' | h'
        · exact Or.inl h'
        · right
          intro y hy
          simp only [List.mem_cons] at hy
          rcases hy with rfl | hy
          · exact hm.2
          · exact h' y hy

theorem enforceDagFor_self {t : List α} {S : Store α} {c : α} {n : Node α} (hc : c ∈ t) (hg : get S c = some n)
    (hn : c ∈ n.out) : enforceDagFor t S = false := by
  unfold enforceDagFor
  rw [List.all_eq_false]
  exact ⟨c, hc, by simp [hg, hn]⟩

theorem inU_uidsOf (s : Store α) : InU (uidsOf s) s := fun _ _ hx _ hy => mem_uidsOf hx hy

/-- COMPLETENESS of the cycle detection of `repair_tc`: if every node on a cycle of the parent graph is
    among the nodes to fix and no other record has an edge to itself, a cyclic graph is rejected -/
theorem repairTc_cycle_rejected (s : Store α) (t : List α)
    (hcyc : ∀ c, Reach (shape s) c c → c ∈ t)
    (hnoself : ∀ k n, get s k = some n → k ∉ t → k ∉ n.out)
    (hex : ∃ x, Reach (shape s) x x) : repairTc t s = .error .cycle := by
  have hf : unseen (uidsOf s) ((keys s).filter (fun k => decide (k ∉ t))) < fuelOf s := by
    have := unseen_le (uidsOf s) ((keys s).filter (fun k => decide (k ∉ t)))
    unfold fuelOf; omega
  have hnt : ∀ v, v ∈ (keys s).filter (fun k => decide (k ∉ t)) → v ∉ t := by
    intro v hv
    simp only [List.mem_filter, decide_eq_true_eq] at hv
    exact hv.2
  obtain ⟨h1, h2, h3⟩ := repairLoop_cspec (shape s) (uidsOf s) (fuelOf s)
    ((keys s).filter (fun k => decide (k ∉ t))) t s _ (inU_uidsOf s) (shapeIs_shape s) hf (fun _ h => h) hnt
  have hself : SelfE (repairLoop (fuelOf s) t s ((keys s).filter (fun k => decide (k ∉ t)))).1 := by
    rcases h3 (Or.inr (fun c hc hcc => hnt c hc (hcyc c hcc))) with h' | h'
    · exact h'
    · obtain ⟨x, hx⟩ := hex
      exact absurd hx (h' x (hcyc x hx))
  obtain ⟨c, n, hgc, hcn⟩ := hself
  have hct : c ∈ t := by
    apply Classical.byContradiction
    intro hct
    cases hg0 : get s c with
    | none => rw [h1.2 c hg0] at hgc; cases hgc
    | some n0 =>
      have hmem : c ∈ (keys s).filter (fun k => decide (k ∉ t)) := by
        simp only [List.mem_filter, decide_eq_true_eq]
        exact ⟨get_some_mem_keys hg0, hct⟩
      rw [h2 c hmem, hg0] at hgc
      cases hgc
      exact hnoself c _ hg0 hct hcn
  unfold repairTc
  simp only [enforceDagFor_self hct hgc hcn, Bool.false_eq_true, if_false]

/-- the same with the precondition the callers establish: untouched records are complete (with respect
    to the parent graph handed to `repair_tc`) and have no self-edge -/
theorem repairTc_complete (s : Store α) (t : List α)
    (hun : ∀ k, k ∈ keys s → k ∉ t → Complete (shape s) s k)
    (hnoself : ∀ k n, get s k = some n → k ∉ t → k ∉ n.out) :
    (∃ x, Reach (shape s) x x) → repairTc t s = .error .cycle := by
  apply repairTc_cycle_rejected s t ?_ hnoself
  intro c hc
  apply Classical.byContradiction
  intro hct
  obtain ⟨ps, hps⟩ := hc.src_some
  obtain ⟨n, hn, _⟩ := shape_some_inv hps
  exact hnoself c n hn hct (hun c (get_some_mem_keys hn) hct n hn c hc)

/-- an accepted repair means the parent graph is acyclic -/
theorem repairTc_accepts_acyclic (s s' : Store α) (t : List α)
    (hun : ∀ k, k ∈ keys s → k ∉ t → Complete (shape s) s k)
    (hnoself : ∀ k n, get s k = some n → k ∉ t → k ∉ n.out)
    (hok : repairTc t s = .ok s') : ∀ x, ¬ Reach (shape s) x x := by
  intro x hx
  rw [repairTc_complete s t hun hnoself ⟨x, hx⟩] at hok
  cases hok

end Cedar.TC
